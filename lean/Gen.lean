import Gen.Plumbing
import Gen.Data
