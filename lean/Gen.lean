import Gen.Plumbing
import Gen.Data
import Gen.FluidData
