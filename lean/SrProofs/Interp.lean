import SrModel.Interp
import Mathlib.Tactic.Ring
import Mathlib.Tactic.Linarith
import Mathlib.Tactic.FieldSimp
import Mathlib.Tactic.NormNum.Basic
import Mathlib.Algebra.Order.Field.Basic
import Mathlib.Algebra.Order.Ring.Abs
import Mathlib.Algebra.Order.Ring.Cast

/-! Helper lemmas for C19 (`SrModel.Interp`) over an arbitrary linearly ordered field. -/
set_option linter.unusedSectionVars false

namespace SrModel.Interp

section field
variable {K : Type} [Field K] [LinearOrder K] [IsStrictOrderedRing K]

/-! ### `countWhile` -/

theorem countWhile_le (p : K → Bool) (g : List K) : countWhile p g ≤ g.length := by
  induction g with
  | nil => simp [countWhile]
  | cons a as ih =>
    simp only [countWhile]
    split
    · simp; omega
    · simp

theorem countWhile_holds (p : K → Bool) (g : List K) (j : Nat) (h : j < countWhile p g) :
    p (nth g j) = true := by
  induction g generalizing j with
  | nil => simp [countWhile] at h
  | cons a as ih =>
    simp only [countWhile] at h
    split at h
    · next hp =>
      cases j with
      | zero => simpa [nth] using hp
      | succ j => have := ih j (by omega); simpa [nth] using this
    · omega

theorem countWhile_stop (p : K → Bool) (g : List K) (h : countWhile p g < g.length) :
    p (nth g (countWhile p g)) = false := by
  induction g with
  | nil => simp at h
  | cons a as ih =>
    simp only [countWhile] at h ⊢
    split
    · next hp =>
      simp only [hp, if_true, List.length_cons] at h
      have := ih (by omega)
      simpa [nth] using this
    · next hp => simpa [nth] using hp

/-! ### strictly increasing grids -/

/-- index form of "strictly increasing" -/
def StrictGrid (g : List K) : Prop := ∀ i j, i < j → j < g.length → nth g i < nth g j

theorem nth_eq {g : List K} {i : Nat} (h : i < g.length) : nth g i = g[i] := by
  simp [nth, List.getD_eq_getElem?_getD, h]

theorem strictGrid_of_pairwise {g : List K} (h : g.Pairwise (· < ·)) : StrictGrid g := by
  intro i j hij hj
  rw [nth_eq (by omega), nth_eq hj]
  exact List.pairwise_iff_getElem.mp h i j (by omega) hj hij

theorem StrictGrid.le {g : List K} (hs : StrictGrid g) {i j : Nat} (hij : i ≤ j) (hj : j < g.length) :
    nth g i ≤ nth g j := by
  rcases Nat.lt_or_eq_of_le hij with h | h
  · exact (hs i j h hj).le
  · subst h; exact le_refl _

/-! ### cells -/

/-- inside the grid range the chosen cell contains the query point -/
theorem cellGrid_spec {g : List K} {x : K} (hn : 2 ≤ g.length) (h0 : nth g 0 ≤ x)
    (h1 : x ≤ nth g (g.length - 1)) :
    cellGrid g x + 1 < g.length ∧ nth g (cellGrid g x) ≤ x ∧ x ≤ nth g (cellGrid g x + 1) := by
  have hle := countWhile_le (fun a => decide (a ≤ x)) g
  have hholds := countWhile_holds (fun a => decide (a ≤ x)) g
  have hstop := countWhile_stop (fun a => decide (a ≤ x)) g
  unfold cellGrid
  generalize countWhile (fun a => decide (a ≤ x)) g = c at *
  have hpos : 0 < c := by
    rcases Nat.eq_zero_or_pos c with h | h
    · subst h
      have := hstop (by omega)
      simp only [decide_eq_false_iff_not] at this
      exact absurd h0 this
    · exact h
  rcases Nat.lt_or_ge c g.length with hc | hc
  · have e : min (c - 1) (g.length - 2) = c - 1 := Nat.min_eq_left (by omega)
    rw [e]
    refine ⟨by omega, ?_, ?_⟩
    · have := hholds (c - 1) (by omega); simpa using this
    · have := hstop hc
      simp only [decide_eq_false_iff_not, not_le] at this
      have e2 : c - 1 + 1 = c := by omega
      rw [e2]; exact this.le
  · have hc' : c = g.length := by omega
    have e : min (c - 1) (g.length - 2) = g.length - 2 := Nat.min_eq_right (by omega)
    rw [e]
    refine ⟨by omega, ?_, ?_⟩
    · have := hholds (g.length - 2) (by omega); simpa using this
    · have e2 : g.length - 2 + 1 = g.length - 1 := by omega
      rw [e2]; exact h1

/-- a point of the half-open cell `[g i, g (i+1))` is assigned cell `i` -/
theorem cellGrid_of_mem {g : List K} (hs : StrictGrid g) {x : K} {i : Nat} (hi : i + 1 < g.length)
    (h0 : nth g i ≤ x) (h1 : x < nth g (i+1)) : cellGrid g x = i := by
  have hle := countWhile_le (fun a => decide (a ≤ x)) g
  have hholds := countWhile_holds (fun a => decide (a ≤ x)) g
  have hstop := countWhile_stop (fun a => decide (a ≤ x)) g
  unfold cellGrid
  generalize countWhile (fun a => decide (a ≤ x)) g = c at *
  have h1' : i < c := by
    by_contra hcon
    have hc : c ≤ i := by omega
    have := hstop (by omega)
    simp only [decide_eq_false_iff_not, not_le] at this
    exact absurd (lt_of_lt_of_le this (le_trans (hs.le hc (by omega)) h0)) (lt_irrefl _)
  have h2' : c ≤ i + 1 := by
    by_contra hcon
    have := hholds (i+1) (by omega)
    simp only [decide_eq_true_eq] at this
    exact absurd (lt_of_lt_of_le h1 this) (lt_irrefl _)
  have : c = i + 1 := by omega
  subst this
  exact Nat.min_eq_left (by omega)

/-- at grid point `k` the `RegularGridInterpolator` cell is `k`, or the last cell for the last point -/
theorem cellGrid_at {g : List K} (hs : StrictGrid g) {k : Nat} (hk : k < g.length) :
    cellGrid g (nth g k) = min k (g.length - 2) := by
  have hle := countWhile_le (fun a => decide (a ≤ nth g k)) g
  have hholds := countWhile_holds (fun a => decide (a ≤ nth g k)) g
  have hstop := countWhile_stop (fun a => decide (a ≤ nth g k)) g
  unfold cellGrid
  generalize countWhile (fun a => decide (a ≤ nth g k)) g = c at *
  have h1 : k < c := by
    by_contra hcon
    have hc : c ≤ k := by omega
    have := hstop (by omega)
    simp only [decide_eq_false_iff_not] at this
    exact this (hs.le hc hk)
  have h2 : c ≤ k + 1 := by
    by_contra hcon
    have := hholds (k+1) (by omega)
    simp only [decide_eq_true_eq] at this
    exact absurd (lt_of_lt_of_le (hs k (k+1) (by omega) (by omega)) this) (lt_irrefl _)
  have : c = k + 1 := by omega
  subst this
  simp

/-- at grid point `k` the `interp1d` cell is `k-1` (or `0`) -/
theorem cellLeft_at {g : List K} (hs : StrictGrid g) {k : Nat} (hk : k < g.length) :
    cellLeft g (nth g k) = min (k - 1) (g.length - 2) := by
  have hle := countWhile_le (fun a => decide (a < nth g k)) g
  have hholds := countWhile_holds (fun a => decide (a < nth g k)) g
  have hstop := countWhile_stop (fun a => decide (a < nth g k)) g
  unfold cellLeft
  generalize countWhile (fun a => decide (a < nth g k)) g = c at *
  have h1 : k ≤ c := by
    by_contra hcon
    have hc : c < k := by omega
    have := hstop (by omega)
    simp only [decide_eq_false_iff_not] at this
    exact this (hs c k hc hk)
  have h2 : c ≤ k := by
    by_contra hcon
    have := hholds k (by omega)
    simp only [decide_eq_true_eq] at this
    exact absurd this (lt_irrefl _)
  have : c = k := by omega
  subst this
  rfl

/-- `interp1d` cell inside the data range -/
theorem cellLeft_spec {g : List K} (hs : StrictGrid g) {x : K} (hn : 2 ≤ g.length) (h0 : nth g 0 ≤ x)
    (h1 : x ≤ nth g (g.length - 1)) :
    cellLeft g x + 1 < g.length ∧ nth g (cellLeft g x) ≤ x ∧ x ≤ nth g (cellLeft g x + 1) := by
  have hle := countWhile_le (fun a => decide (a < x)) g
  have hholds := countWhile_holds (fun a => decide (a < x)) g
  have hstop := countWhile_stop (fun a => decide (a < x)) g
  unfold cellLeft
  generalize countWhile (fun a => decide (a < x)) g = c at *
  rcases Nat.eq_zero_or_pos c with hz | hpos
  · subst hz
    have e : min (0 - 1) (g.length - 2) = 0 := by simp
    rw [e]
    have := hstop (by omega)
    simp only [decide_eq_false_iff_not, not_lt] at this
    have hx : x = nth g 0 := le_antisymm this h0
    refine ⟨by omega, h0, ?_⟩
    rw [hx]; exact (hs 0 1 (by omega) (by omega)).le
  · rcases Nat.lt_or_ge c g.length with hc | hc
    · have e : min (c - 1) (g.length - 2) = c - 1 := Nat.min_eq_left (by omega)
      rw [e]
      refine ⟨by omega, ?_, ?_⟩
      · have := hholds (c - 1) (by omega)
        simp only [decide_eq_true_eq] at this; exact this.le
      · have := hstop hc
        simp only [decide_eq_false_iff_not, not_lt] at this
        have e2 : c - 1 + 1 = c := by omega
        rw [e2]; exact this
    · have e : min (c - 1) (g.length - 2) = g.length - 2 := Nat.min_eq_right (by omega)
      rw [e]
      refine ⟨by omega, ?_, ?_⟩
      · have := hholds (g.length - 2) (by omega)
        simp only [decide_eq_true_eq] at this; exact this.le
      · have e2 : g.length - 2 + 1 = g.length - 1 := by omega
        rw [e2]; exact h1

/-! ### one cell -/

theorem lerpCell_left (g : List K) (i : Nat) (f : Nat → K) : lerpCell g i f (nth g i) = f i := by
  simp [lerpCell, normDist]

theorem lerpCell_right (g : List K) (i : Nat) (f : Nat → K) (h : nth g i ≠ nth g (i+1)) :
    lerpCell g i f (nth g (i+1)) = f (i+1) := by
  have : nth g (i+1) - nth g i ≠ 0 := sub_ne_zero.mpr (Ne.symm h)
  simp [lerpCell, normDist, div_self this]

theorem normDist_mem {g : List K} {x : K} {i : Nat} (h0 : nth g i ≤ x) (h1 : x ≤ nth g (i+1))
    (hlt : nth g i < nth g (i+1)) : 0 ≤ normDist g i x ∧ normDist g i x ≤ 1 := by
  have hpos : 0 < nth g (i+1) - nth g i := sub_pos.mpr hlt
  unfold normDist
  constructor
  · exact div_nonneg (sub_nonneg.mpr h0) hpos.le
  · rw [div_le_one hpos]; linarith

theorem lerp_mem {a b y lo hi : K} (hy0 : 0 ≤ y) (hy1 : y ≤ 1) (ha : lo ≤ a) (ha' : a ≤ hi)
    (hb : lo ≤ b) (hb' : b ≤ hi) : lo ≤ a * (1 - y) + b * y ∧ a * (1 - y) + b * y ≤ hi := by
  have h1 := mul_nonneg (sub_nonneg.mpr ha) (sub_nonneg.mpr hy1)
  have h2 := mul_nonneg (sub_nonneg.mpr hb) hy0
  have h3 := mul_nonneg (sub_nonneg.mpr ha') (sub_nonneg.mpr hy1)
  have h4 := mul_nonneg (sub_nonneg.mpr hb') hy0
  constructor <;> nlinarith

/-! ### 1-D interpolant -/

/-- the interpolant returns the datum at every grid point -/
theorem lin1_exact {g : List K} (hs : StrictGrid g) (f : Nat → K) {k : Nat} (hk : k < g.length) :
    lin1 g f (nth g k) = f k := by
  unfold lin1
  rw [cellGrid_at hs hk]
  by_cases h : k ≤ g.length - 2
  · rw [Nat.min_eq_left h]; exact lerpCell_left ..
  · have hn : 2 ≤ g.length := by omega
    rw [Nat.min_eq_right (by omega)]
    have e : k = (g.length - 2) + 1 := by omega
    subst e
    exact lerpCell_right _ _ _ (ne_of_lt (hs _ _ (by omega) (by omega)))

/-- inside the grid range the value lies between the two neighbouring data -/
theorem lin1_mem {g : List K} (hs : StrictGrid g) (hn : 2 ≤ g.length) {x : K} (h0 : nth g 0 ≤ x)
    (h1 : x ≤ nth g (g.length - 1)) (f : Nat → K) {lo hi : K}
    (hf : lo ≤ f (cellGrid g x) ∧ f (cellGrid g x) ≤ hi)
    (hf' : lo ≤ f (cellGrid g x + 1) ∧ f (cellGrid g x + 1) ≤ hi) :
    lo ≤ lin1 g f x ∧ lin1 g f x ≤ hi := by
  obtain ⟨hi1, hlo, hhi⟩ := cellGrid_spec hn h0 h1
  obtain ⟨y0, y1⟩ := normDist_mem hlo hhi (hs _ _ (by omega) hi1)
  unfold lin1 lerpCell
  exact lerp_mem y0 y1 hf.1 hf.2 hf'.1 hf'.2

/-! ### the hypercube sums of scipy are the nested interpolants -/

theorem rgi2_eq_grid2 (gt gz : List K) (d : Nat → Nat → K) (t z : K) :
    rgi2 gt gz d t z = grid2 gt gz d t z := by
  simp only [rgi2, grid2, lin1, lerpCell]; ring

theorem rgi3_eq_grid3 (gt gθ gz : List K) (d : Nat → Nat → Nat → K) (t θ z : K) :
    rgi3 gt gθ gz d t θ z = grid3 gt gθ gz d t θ z := by
  simp only [rgi3, grid3, lin1, lerpCell]; ring

/-- the 3-D interpolant re-nested with θ outermost -/
theorem grid3_theta_outer (gt gθ gz : List K) (d : Nat → Nat → Nat → K) (t θ z : K) :
    grid3 gt gθ gz d t θ z = lin1 gθ (fun b => grid2 gt gz (fun a c => d a b c) t z) θ := by
  simp only [grid3, grid2, lin1, lerpCell]; ring

theorem grid2_exact {gt gz : List K} (ht : StrictGrid gt) (hz : StrictGrid gz) (d : Nat → Nat → K)
    {a c : Nat} (ha : a < gt.length) (hc : c < gz.length) :
    grid2 gt gz d (nth gt a) (nth gz c) = d a c := by
  unfold grid2
  have : (fun a' => lin1 gz (d a') (nth gz c)) = fun a' => d a' c :=
    funext fun a' => lin1_exact hz (d a') hc
  rw [this]; exact lin1_exact ht _ ha

theorem grid3_exact {gt gθ gz : List K} (ht : StrictGrid gt) (hθ : StrictGrid gθ) (hz : StrictGrid gz)
    (d : Nat → Nat → Nat → K) {a b c : Nat} (ha : a < gt.length) (hb : b < gθ.length)
    (hc : c < gz.length) :
    grid3 gt gθ gz d (nth gt a) (nth gθ b) (nth gz c) = d a b c := by
  unfold grid3
  have h1 : (fun a' => lin1 gθ (fun b' => lin1 gz (d a' b') (nth gz c)) (nth gθ b))
      = fun a' => d a' b c := by
    funext a'
    have : (fun b' => lin1 gz (d a' b') (nth gz c)) = fun b' => d a' b' c :=
      funext fun b' => lin1_exact hz (d a' b') hc
    rw [this]; exact lin1_exact hθ _ hb
  rw [h1]; exact lin1_exact ht _ ha

theorem grid2_mem {gt gz : List K} (ht : StrictGrid gt) (hz : StrictGrid gz)
    (hnt : 2 ≤ gt.length) (hnz : 2 ≤ gz.length) {t z : K}
    (ht0 : nth gt 0 ≤ t) (ht1 : t ≤ nth gt (gt.length - 1))
    (hz0 : nth gz 0 ≤ z) (hz1 : z ≤ nth gz (gz.length - 1))
    (d : Nat → Nat → K) {lo hi : K}
    (hc : ∀ da dc : Nat, da ≤ 1 → dc ≤ 1 →
      lo ≤ d (cellGrid gt t + da) (cellGrid gz z + dc) ∧ d (cellGrid gt t + da) (cellGrid gz z + dc) ≤ hi) :
    lo ≤ grid2 gt gz d t z ∧ grid2 gt gz d t z ≤ hi := by
  unfold grid2
  apply lin1_mem ht hnt ht0 ht1
  · exact lin1_mem hz hnz hz0 hz1 _ (hc 0 0 (by omega) (by omega)) (hc 0 1 (by omega) (by omega))
  · exact lin1_mem hz hnz hz0 hz1 _ (hc 1 0 (by omega) (by omega)) (hc 1 1 (by omega) (by omega))

theorem grid3_mem {gt gθ gz : List K} (ht : StrictGrid gt) (hθ : StrictGrid gθ) (hz : StrictGrid gz)
    (hnt : 2 ≤ gt.length) (hnθ : 2 ≤ gθ.length) (hnz : 2 ≤ gz.length) {t θ z : K}
    (ht0 : nth gt 0 ≤ t) (ht1 : t ≤ nth gt (gt.length - 1))
    (hθ0 : nth gθ 0 ≤ θ) (hθ1 : θ ≤ nth gθ (gθ.length - 1))
    (hz0 : nth gz 0 ≤ z) (hz1 : z ≤ nth gz (gz.length - 1))
    (d : Nat → Nat → Nat → K) {lo hi : K}
    (hc : ∀ da db dc : Nat, da ≤ 1 → db ≤ 1 → dc ≤ 1 →
      lo ≤ d (cellGrid gt t + da) (cellGrid gθ θ + db) (cellGrid gz z + dc) ∧
      d (cellGrid gt t + da) (cellGrid gθ θ + db) (cellGrid gz z + dc) ≤ hi) :
    lo ≤ grid3 gt gθ gz d t θ z ∧ grid3 gt gθ gz d t θ z ≤ hi := by
  unfold grid3
  have inner : ∀ da db : Nat, da ≤ 1 → db ≤ 1 →
      lo ≤ lin1 gz (d (cellGrid gt t + da) (cellGrid gθ θ + db)) z ∧
      lin1 gz (d (cellGrid gt t + da) (cellGrid gθ θ + db)) z ≤ hi := fun da db hda hdb =>
    lin1_mem hz hnz hz0 hz1 _ (hc da db 0 hda hdb (by omega)) (hc da db 1 hda hdb (by omega))
  apply lin1_mem ht hnt ht0 ht1
  · exact lin1_mem hθ hnθ hθ0 hθ1 _ (inner 0 0 (by omega) (by omega)) (inner 0 1 (by omega) (by omega))
  · exact lin1_mem hθ hnθ hθ0 hθ1 _ (inner 1 0 (by omega) (by omega)) (inner 1 1 (by omega) (by omega))

/-! ### `interp1d` -/

theorem interp1_exact {g : List K} (hs : StrictGrid g) (ys : List K) {k : Nat} (hk : k < g.length) :
    interp1 g ys (nth g k) = some (nth ys k) := by
  have hn0 : ¬ (nth g k < nth g 0 ∨ nth g (g.length - 1) < nth g k) := by
    rintro (h | h)
    · exact absurd (lt_of_lt_of_le h (hs.le (Nat.zero_le k) hk)) (lt_irrefl _)
    · exact absurd (lt_of_lt_of_le h (hs.le (by omega) (by omega))) (lt_irrefl _)
  unfold interp1
  rw [if_neg hn0, cellLeft_at hs hk]
  simp only [Option.some.injEq]
  rcases Nat.eq_zero_or_pos k with hk0 | hk0
  · subst hk0; simp
  · have e : min (k - 1) (g.length - 2) = k - 1 := Nat.min_eq_left (by omega)
    rw [e]
    have e2 : k - 1 + 1 = k := by omega
    rw [e2]
    have hne : nth g k - nth g (k-1) ≠ 0 := sub_ne_zero.mpr (ne_of_gt (hs (k-1) k (by omega) hk))
    field_simp
    ring

/-- `interp1d` value written as the convex combination of the two neighbouring data -/
theorem interp1_eq_lerp {g : List K} (hs : StrictGrid g) (hn : 2 ≤ g.length) (ys : List K) {x : K}
    (h0 : nth g 0 ≤ x) (h1 : x ≤ nth g (g.length - 1)) :
    interp1 g ys x = some (nth ys (cellLeft g x) * (1 - normDist g (cellLeft g x) x)
      + nth ys (cellLeft g x + 1) * normDist g (cellLeft g x) x) := by
  have hn0 : ¬ (x < nth g 0 ∨ nth g (g.length - 1) < x) := by
    rintro (h | h)
    · exact absurd (lt_of_lt_of_le h h0) (lt_irrefl _)
    · exact absurd (lt_of_lt_of_le h h1) (lt_irrefl _)
  obtain ⟨hi1, _, _⟩ := cellLeft_spec hs hn h0 h1
  have hne : nth g (cellLeft g x + 1) - nth g (cellLeft g x) ≠ 0 :=
    sub_ne_zero.mpr (ne_of_gt (hs _ _ (by omega) hi1))
  unfold interp1 normDist
  rw [if_neg hn0]
  simp only [Option.some.injEq]
  field_simp
  ring

/-! ### the angle wrap -/

/-- `fl` is the floor function of `K` -/
def IsFloor (fl : K → Int) : Prop := ∀ x : K, ((fl x : Int) : K) ≤ x ∧ x < ((fl x : Int) : K) + 1

theorem floor_unique {fl : K → Int} (h : IsFloor fl) {x : K} {n : Int} (h0 : (n : K) ≤ x)
    (h1 : x < (n : K) + 1) : fl x = n := by
  obtain ⟨a, b⟩ := h x
  have h2 : ((fl x : Int) : K) < ((n + 1 : Int) : K) := by push_cast; exact lt_of_le_of_lt a h1
  have h3 : (n : K) < ((fl x + 1 : Int) : K) := by push_cast; exact lt_of_le_of_lt h0 b
  have h2' : fl x < n + 1 := Int.cast_lt.mp h2
  have h3' : n < fl x + 1 := Int.cast_lt.mp h3
  omega

theorem floor_add_int {fl : K → Int} (h : IsFloor fl) (x : K) (n : Int) :
    fl (x + (n : K)) = fl x + n := by
  obtain ⟨a, b⟩ := h x
  apply floor_unique h
  · push_cast; linarith
  · push_cast; linarith

theorem wrap_add_int {fl : K → Int} (h : IsFloor fl) {twoPi : K} (hp : 0 < twoPi) (θ : K) (n : Int) :
    wrap fl twoPi (θ + (n : K) * twoPi) = wrap fl twoPi θ := by
  have e : (θ + (n : K) * twoPi) / twoPi = θ / twoPi + (n : K) := by field_simp
  unfold wrap
  rw [e, floor_add_int h]
  push_cast; ring

theorem wrap_mem {fl : K → Int} (h : IsFloor fl) {twoPi : K} (hp : 0 < twoPi) (θ : K) :
    0 ≤ wrap fl twoPi θ ∧ wrap fl twoPi θ < twoPi := by
  obtain ⟨a, b⟩ := h (θ / twoPi)
  have e : θ = twoPi * (θ / twoPi) := by field_simp
  unfold wrap
  constructor
  · have := mul_le_mul_of_nonneg_left a hp.le
    linarith
  · have := mul_lt_mul_of_pos_left b hp
    linarith

theorem wrap_id {fl : K → Int} (h : IsFloor fl) {twoPi : K} (hp : 0 < twoPi) {θ : K}
    (h0 : 0 ≤ θ) (h1 : θ < twoPi) : wrap fl twoPi θ = θ := by
  have : fl (θ / twoPi) = 0 := by
    apply floor_unique h
    · simpa using div_nonneg h0 hp.le
    · simpa using (div_lt_one hp).mpr h1
  unfold wrap; rw [this]; simp

/-! ### closed θ grid -/

theorem nth_append_left (g : List K) (x : K) {i : Nat} (h : i < g.length) :
    nth (g ++ [x]) i = nth g i := by
  simp [nth, List.getD_eq_getElem?_getD, List.getElem?_append_left h]

theorem nth_append_last (g : List K) (x : K) : nth (g ++ [x]) g.length = x := by
  simp [nth, List.getD_eq_getElem?_getD]

/-- facts about the closed θ grid used repeatedly -/
theorem closed_grid_facts {twoPi : K} {gθ : List K}
    (hθ : (gθ ++ [twoPi]).Pairwise (· < ·)) (h0 : 0 ≤ nth gθ 0) {b : Nat} (hb : b < gθ.length) :
    0 ≤ nth gθ b ∧ nth gθ b < twoPi := by
  have hs := strictGrid_of_pairwise hθ
  have hlen : (gθ ++ [twoPi]).length = gθ.length + 1 := by simp
  constructor
  · have := hs.le (Nat.zero_le b) (by omega : b < (gθ ++ [twoPi]).length)
    rw [nth_append_left _ _ hb, nth_append_left _ _ (by omega)] at this
    exact le_trans h0 this
  · have := hs b gθ.length hb (by omega)
    rwa [nth_append_left _ _ hb, nth_append_last] at this

/-! ### the documented grids `θ_j = 2πj/nt`, `z_k = k·h/(nz-1)` are strictly increasing -/

theorem linGrid_pairwise {a : K} (ha : 0 < a) (n : Nat) {m : Nat} (hm : 0 < m) :
    (linGrid a n m).Pairwise (· < ·) := by
  unfold linGrid
  rw [List.pairwise_map]
  refine List.Pairwise.imp ?_ List.pairwise_lt_range
  intro i j hij
  have hm' : (0 : K) < (m : K) := by exact_mod_cast hm
  have : (i : K) < (j : K) := by exact_mod_cast hij
  exact div_lt_div_of_pos_right (mul_lt_mul_of_pos_left this ha) hm'

/-- the θ grid of the code closed at `2π` -/
theorem thetaGrid_closed_pairwise {twoPi : K} (hp : 0 < twoPi) {nt : Nat} (hnt : 0 < nt) :
    (linGrid twoPi nt nt ++ [twoPi]).Pairwise (· < ·) := by
  rw [List.pairwise_append]
  refine ⟨linGrid_pairwise hp nt hnt, List.pairwise_singleton _ _, ?_⟩
  intro x hx y hy
  simp only [List.mem_singleton] at hy
  subst hy
  simp only [linGrid, List.mem_map, List.mem_range] at hx
  obtain ⟨j, hj, rfl⟩ := hx
  have hm' : (0 : K) < (nt : K) := by exact_mod_cast hnt
  have hjn : (j : K) < (nt : K) := by exact_mod_cast hj
  rw [div_lt_iff₀ hm']
  exact mul_lt_mul_of_pos_left hjn hp

theorem linGrid_zero {a : K} {n m : Nat} (hn : 0 < n) : nth (linGrid a n m) 0 = 0 := by
  cases n with
  | zero => omega
  | succ k => simp [linGrid, nth, List.range_succ_eq_map]

theorem nth_linGrid (a : K) {n m j : Nat} (hj : j < n) :
    nth (linGrid a n m) j = a * (j : K) / (m : K) := by
  simp [nth, linGrid, List.getD_eq_getElem?_getD, hj]

theorem linGrid_length (a : K) (n m : Nat) : (linGrid a n m).length = n := by simp [linGrid]

/-! ### `np.isclose` -/

theorem absK_eq (x : K) : absK x = |x| := by
  unfold absK
  split
  · next h => rw [abs_of_neg h]; simp
  · next h => rw [abs_of_nonneg (not_lt.mp h)]

theorem isclose_iff (rtol atol a b : K) :
    isclose rtol atol a b = true ↔ |a - b| ≤ atol + rtol * |b| := by
  simp [isclose, absK_eq]

end field

/-! ### dispatch -/
section dispatch
variable {K : Type} [OfNat K 0]

theorem all_scalar_map (xs : List K) : (xs.map Arg.scalar).all Arg.isScalar = true := by
  induction xs with
  | nil => rfl
  | cons x xs ih => simp [Arg.isScalar]

theorem elem_map_scalar (i : Nat) (xs : List K) : (xs.map Arg.scalar).map (Arg.elem i) = xs := by
  induction xs with
  | nil => rfl
  | cons x xs ih =>
    show Arg.elem i (Arg.scalar x) :: List.map (Arg.elem i) (List.map Arg.scalar xs) = x :: xs
    rw [ih]; rfl

/-- the shape `_make_ifn` picks is the common shape of the array arguments -/
theorem findSome_shape {args : List (Arg K)} {s : List Nat}
    (hne : args.all Arg.isScalar = false)
    (hs : ∀ a ∈ args, a.isScalar = true ∨ a.shape? = some s) :
    args.findSome? Arg.shape? = some s := by
  induction args with
  | nil => simp at hne
  | cons a as ih =>
    cases a with
    | scalar x =>
      simp only [List.findSome?_cons, Arg.shape?]
      apply ih
      · simpa [Arg.isScalar] using hne
      · intro b hb; exact hs b (List.mem_cons_of_mem _ hb)
    | arr sh vs =>
      have := hs (.arr sh vs) List.mem_cons_self
      simp only [Arg.isScalar, Arg.shape?, Bool.false_eq_true, false_or, Option.some.injEq] at this
      simp [List.findSome?_cons, Arg.shape?, this]

end dispatch
end SrModel.Interp
