import SrModel.Coupled
import SrProofs.Thermal

/-! Helper lemmas for C07. -/
namespace SrModel.Coupled

theorem hasDup_iff (l : List String) : hasDup l = true ↔ ¬ l.Nodup := by
  induction l with
  | nil => simp [hasDup]
  | cons x xs ih =>
    simp only [hasDup, Bool.or_eq_true, List.nodup_cons, not_and_or, not_not, ih]
    simp

theorem sameSet_iff (a b : List String) : sameSet a b = true ↔ (∀ x, x ∈ a ↔ x ∈ b) := by
  simp only [sameSet, Bool.and_eq_true, List.all_eq_true, List.contains_iff_mem]
  constructor
  · rintro ⟨h1, h2⟩ x; exact ⟨h1 x, h2 x⟩
  · intro h; exact ⟨fun x hx => (h x).1 hx, fun x hx => (h x).2 hx⟩

theorem recover_chain {β} (g : Link → β) (ps : List (String × Nat)) :
    recover ((chainOf ps).map g) = ps.map (fun p => g (.panel p.1 p.2)) := by
  unfold chainOf
  induction ps with
  | nil => simp [recover]
  | cons p ps ih =>
    obtain ⟨n, k⟩ := p
    simp only [List.flatMap_cons, List.map_cons, List.map_append, List.cons_append,
      List.nil_append] at ih ⊢
    -- g start :: g (panel n k) :: g manifold :: rest
    rw [recover]
    -- remaining list starts with the manifold, which plays the role of `start` for the tail
    have : ∀ (x y : β) (rest : List β), recover (x :: rest) = recover (y :: rest) := by
      intro x y rest
      cases rest with
      | nil => simp [recover]
      | cons b r => simp [recover]
    rw [this (g Link.manifold) (g Link.start), ih]

end SrModel.Coupled
