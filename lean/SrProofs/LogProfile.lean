import SrProofs.Thermal
import Mathlib.Analysis.SpecialFunctions.Log.Deriv

/-! The midpoint rule for `∫ dr/r` on one radial cell, and the closeness of the discrete steady
profile of `SrModel.Thermal` to the logarithmic cylinder profile. -/
namespace SrModel.Thermal
open Finset Real
noncomputable section

/-- `|log((1+x)/(1−x)) − 2x| ≤ 2x³/(1−x)` for `0 ≤ x < 1` -/
theorem log_ratio_sub_two_mul_le (x : ℝ) (h0 : 0 ≤ x) (h1 : x < 1) :
    |Real.log ((1 + x) / (1 - x)) - 2 * x| ≤ 2 * x ^ 3 / (1 - x) := by
  have hx : |x| < 1 := by rw [abs_of_nonneg h0]; exact h1
  have hnx : |(-x)| < 1 := by rw [abs_neg]; exact hx
  have a := Real.abs_log_sub_add_sum_range_le hx 2
  have b := Real.abs_log_sub_add_sum_range_le hnx 2
  simp only [Finset.sum_range_succ, Finset.sum_range_zero, zero_add, abs_neg] at a b
  rw [abs_of_nonneg h0] at a b
  have hpos : 0 < 1 - x := by linarith
  have hpos' : 0 < 1 + x := by linarith
  rw [Real.log_div hpos'.ne' hpos.ne']
  have e : Real.log (1 + x) - Real.log (1 - x) - 2 * x
      = ((-x) ^ (0 + 1) / ((0 : ℕ) + 1 : ℝ) + (-x) ^ (1 + 1) / ((1 : ℕ) + 1 : ℝ) + Real.log (1 - -x))
        - (x ^ (0 + 1) / ((0 : ℕ) + 1 : ℝ) + x ^ (1 + 1) / ((1 : ℕ) + 1 : ℝ) + Real.log (1 - x)) := by
    simp only [sub_neg_eq_add]; push_cast; ring
  rw [e]
  have t := abs_sub (((-x) ^ (0 + 1) / ((0 : ℕ) + 1 : ℝ) + (-x) ^ (1 + 1) / ((1 : ℕ) + 1 : ℝ) + Real.log (1 - -x)))
    ((x ^ (0 + 1) / ((0 : ℕ) + 1 : ℝ) + x ^ (1 + 1) / ((1 : ℕ) + 1 : ℝ) + Real.log (1 - x)))
  have : 2 * x ^ 3 / (1 - x) = x ^ (2 + 1) / (1 - x) + x ^ (2 + 1) / (1 - x) := by ring
  rw [this]
  exact le_trans t (add_le_add b a)

/-- **midpoint_log (one cell).** With `r_m > 0`, `dr > 0` and the half-cell radius
`r_{m+½} = r_m + dr/2`: `|dr/r_{m+½} − log(r_{m+1}/r_m)| ≤ 2x³/(1−x)`, `x = dr/(2 r_{m+½})`. -/
theorem midpoint_log_cell (r dr : ℝ) (hr : 0 < r) (hdr : 0 < dr) :
    |dr / (r + dr / 2) - Real.log ((r + dr) / r)|
      ≤ 2 * (dr / (2 * (r + dr / 2))) ^ 3 / (1 - dr / (2 * (r + dr / 2))) := by
  set x := dr / (2 * (r + dr / 2)) with hx
  have hm : 0 < r + dr / 2 := by linarith
  have hx0 : 0 ≤ x := by rw [hx]; positivity
  have hx1 : x < 1 := by rw [hx, div_lt_one (by positivity)]; linarith
  have e1 : (1 + x) / (1 - x) = (r + dr) / r := by
    rw [hx]; field_simp; ring
  have e2 : 2 * x = dr / (r + dr / 2) := by rw [hx]; field_simp
  have := log_ratio_sub_two_mul_le x hx0 hx1
  rw [e1, e2] at this
  rw [abs_sub_comm]; exact this

/-- **Discrete profile vs logarithm.** On the regular grid `r_m = r_in + (m−1)·dr` the sum that
appears in `steady_profile`, times `dr`, differs from `log(r_{i+1}/r_1)` by at most the sum of the
per-cell midpoint errors — each `O(dr³)`, so `O(dr²)` in total over a wall of fixed thickness. -/
theorem profile_sum_vs_log (P : Prob ℝ) (rin : ℝ) (hrin : 0 < rin) (hdr : 0 < P.dr)
    (hrr : ∀ i : Nat, P.rr i = rin + ((i : ℝ) - 1) * P.dr) (i : Nat) :
    |P.dr * ∑ m ∈ Finset.Icc 1 i, 1 / P.rh m - Real.log (P.rr (i+1) / P.rr 1)|
      ≤ ∑ m ∈ Finset.Icc 1 i,
          2 * (P.dr / (2 * P.rh m)) ^ 3 / (1 - P.dr / (2 * P.rh m)) := by
  have hpos : ∀ m : Nat, 1 ≤ m → 0 < P.rr m := by
    intro m hm; rw [hrr m]
    have : (1 : ℝ) ≤ (m : ℝ) := by exact_mod_cast hm
    nlinarith
  have hrh : ∀ m : Nat, P.rh m = P.rr m + P.dr / 2 := by
    intro m; unfold Prob.rh; rw [hrr m, hrr (m+1)]; push_cast; ring
  have hnext : ∀ m : Nat, P.rr (m+1) = P.rr m + P.dr := by
    intro m; rw [hrr m, hrr (m+1)]; push_cast; ring
  -- telescoping of the logarithms
  have hlog : Real.log (P.rr (i+1) / P.rr 1)
      = ∑ m ∈ Finset.Icc 1 i, Real.log (P.rr (m+1) / P.rr m) := by
    induction i with
    | zero => simp [div_self (hpos 1 le_rfl).ne']
    | succ n ih =>
      rw [Finset.sum_Icc_succ_top (by omega), ← ih]
      rw [← Real.log_mul (div_pos (hpos _ (by omega)) (hpos 1 le_rfl)).ne'
        (div_pos (hpos _ (by omega)) (hpos _ (by omega))).ne']
      congr 1
      have := (hpos (n+1) (by omega)).ne'
      field_simp
  rw [hlog, Finset.mul_sum, ← Finset.sum_sub_distrib]
  refine le_trans (Finset.abs_sum_le_sum_abs _ _) (Finset.sum_le_sum ?_)
  intro m hm
  have hm1 : 1 ≤ m := (Finset.mem_Icc.1 hm).1
  have := midpoint_log_cell (P.rr m) P.dr (hpos m hm1) hdr
  rw [hrh m, hnext m]
  have e : P.dr * (1 / (P.rr m + P.dr / 2)) = P.dr / (P.rr m + P.dr / 2) := by ring
  rw [e]; exact this

end
end SrModel.Thermal
