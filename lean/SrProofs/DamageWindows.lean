import SrProofs.Damage

/-! Day windows of the damage model (`id_cycles`): shape of `cycleWindows`, additivity of the per-day
creep damages over contiguous windows, locality of the per-day damages (C01 / C09). -/
namespace SrModel.Damage

/-! ### `indicesWhere`, `pairUp`, `cycleWindows` -/
section windows
universe u
variable {α : Type u}

theorem pairUp_cons_cons (a b : Nat) (r : List Nat) :
    pairUp (a :: b :: r) = (a, b) :: pairUp (b :: r) := rfl

/-- `pairUp` is "zip with the tail": `[(i₀,i₁), (i₁,i₂), …]` -/
theorem pairUp_eq_zip_tail (l : List Nat) : pairUp l = l.zip l.tail := by
  induction l with
  | nil => rfl
  | cons a rest ih =>
    cases rest with
    | nil => rfl
    | cons b r => rw [pairUp_cons_cons, ih]; rfl

theorem length_pairUp (l : List Nat) : (pairUp l).length = l.length - 1 := by
  rw [pairUp_eq_zip_tail, List.length_zip, List.length_tail]
  omega

/-- the entries of `l.zip l.tail` are the consecutive pairs of `l` -/
theorem getElem_zip_tail (l : List Nat) (k : Nat) (h : k < (l.zip l.tail).length) :
    (l.zip l.tail)[k] =
      (l[k]'(by rw [List.length_zip, List.length_tail] at h; omega),
        l[k + 1]'(by rw [List.length_zip, List.length_tail] at h; omega)) := by
  rw [List.getElem_zip, List.getElem_tail]

theorem mem_zip_tail {l : List Nat} {w : Nat × Nat} :
    w ∈ l.zip l.tail ↔ ∃ k, ∃ h : k + 1 < l.length, w = (l[k], l[k + 1]) := by
  constructor
  · intro hw
    obtain ⟨k, hk, rfl⟩ := List.mem_iff_getElem.mp hw
    have hk' : k + 1 < l.length := by
      rw [List.length_zip, List.length_tail] at hk; omega
    exact ⟨k, hk', getElem_zip_tail l k hk⟩
  · rintro ⟨k, hk, rfl⟩
    have hk' : k < (l.zip l.tail).length := by
      rw [List.length_zip, List.length_tail]; omega
    rw [← getElem_zip_tail l k hk']
    exact List.getElem_mem hk'

theorem indicesWhere_append (p : α → Bool) (l₁ l₂ : List α) (i : Nat) :
    indicesWhere p (l₁ ++ l₂) i = indicesWhere p l₁ i ++ indicesWhere p l₂ (i + l₁.length) := by
  induction l₁ generalizing i with
  | nil => simp [indicesWhere]
  | cons x xs ih =>
    have e : i + 1 + xs.length = i + (xs.length + 1) := by omega
    simp only [List.cons_append, indicesWhere, ih, List.length_cons, e]
    split <;> simp

/-- `j` is listed iff it is (offset by `i`) the position of an entry satisfying `p` -/
theorem mem_indicesWhere (p : α → Bool) (l : List α) (i j : Nat) :
    j ∈ indicesWhere p l i ↔ i ≤ j ∧ ∃ x, l[j - i]? = some x ∧ p x = true := by
  induction l generalizing i with
  | nil => simp [indicesWhere]
  | cons x xs ih =>
    have hrec := ih (i + 1)
    by_cases hji : j = i
    · subst hji
      have hnot : j ∉ indicesWhere p xs (j + 1) := by
        rw [ih]; omega
      simp only [indicesWhere]
      by_cases hp : p x = true
      · simp [hp]
      · simp [hp, hnot]
    · have hmem : j ∈ indicesWhere p (x :: xs) i ↔ j ∈ indicesWhere p xs (i + 1) := by
        simp only [indicesWhere]
        split
        · simp [hji]
        · rfl
      rw [hmem, hrec]
      by_cases hlt : i < j
      · have e : j - i = (j - (i + 1)) + 1 := by omega
        rw [e, List.getElem?_cons_succ]
        constructor
        · rintro ⟨_, h⟩; exact ⟨by omega, h⟩
        · rintro ⟨_, h⟩; exact ⟨by omega, h⟩
      · constructor
        · rintro ⟨h, _⟩; omega
        · rintro ⟨h, _⟩; omega

/-- the listed indices increase strictly -/
theorem indicesWhere_pairwise (p : α → Bool) (l : List α) (i : Nat) :
    (indicesWhere p l i).Pairwise (· < ·) := by
  induction l generalizing i with
  | nil => simp [indicesWhere]
  | cons x xs ih =>
    simp only [indicesWhere]
    split
    · rw [List.pairwise_cons]
      refine ⟨?_, ih (i + 1)⟩
      intro j hj
      have := ((mem_indicesWhere p xs (i + 1) j).mp hj).1
      omega
    · exact ih (i + 1)

/-- with offset `0`: `j` is listed iff `times[j]` exists and satisfies `p` -/
theorem mem_indicesWhere_zero (p : α → Bool) (l : List α) (j : Nat) :
    j ∈ indicesWhere p l 0 ↔ ∃ x, l[j]? = some x ∧ p x = true := by
  rw [mem_indicesWhere]; simp

theorem indicesWhere_head (p : α → Bool) (x : α) (xs : List α) (i : Nat) (h : p x = true) :
    (indicesWhere p (x :: xs) i).head? = some i := by
  simp [indicesWhere, h]

theorem indicesWhere_getLast (p : α → Bool) (l : List α) (hl : l ≠ []) (i : Nat)
    (h : p (l.getLast hl) = true) :
    (indicesWhere p l i).getLast? = some (i + (l.length - 1)) := by
  have e : l = l.dropLast ++ [l.getLast hl] := (List.dropLast_append_getLast hl).symm
  have hlen : l.dropLast.length = l.length - 1 := List.length_dropLast
  rw [e, indicesWhere_append]
  simp only [indicesWhere, h, if_true]
  rw [List.getLast?_append]
  simp [hlen]

/-- **shape of the windows**: `cycleWindows` succeeds iff there are exactly `days + 1` flagged
times, and then the windows are the consecutive pairs of the (strictly increasing) list of the
flagged indices -/
theorem cycleWindows_eq_some (p : α → Bool) (times : List α) (days : Nat) (wins : List (Nat × Nat)) :
    cycleWindows p times days = some wins ↔
      (indicesWhere p times 0).length = days + 1 ∧
        wins = (indicesWhere p times 0).zip (indicesWhere p times 0).tail := by
  unfold cycleWindows
  simp only [beq_iff_eq]
  rw [pairUp_eq_zip_tail]
  constructor
  · intro h
    split at h
    · rename_i hl
      exact ⟨hl, (Option.some.inj h).symm⟩
    · cases h
  · rintro ⟨hl, rfl⟩
    rw [if_pos hl]

theorem cycleWindows_shape (p : α → Bool) (times : List α) (days : Nat) (wins : List (Nat × Nat))
    (h : cycleWindows p times days = some wins) :
    ∃ idx : List Nat, idx.Pairwise (· < ·) ∧ idx.length = days + 1 ∧
      (∀ j, j ∈ idx ↔ ∃ x, times[j]? = some x ∧ p x = true) ∧ wins = idx.zip idx.tail := by
  obtain ⟨hl, hw⟩ := (cycleWindows_eq_some p times days wins).mp h
  exact ⟨indicesWhere p times 0, indicesWhere_pairwise p times 0, hl, mem_indicesWhere_zero p times, hw⟩

/-- consequences of the shape for a strictly increasing index list -/
theorem zip_tail_facts {idx : List Nat} (hs : idx.Pairwise (· < ·)) :
    (idx.zip idx.tail).length = idx.length - 1 ∧
    (∀ k (h : k + 1 < (idx.zip idx.tail).length),
      ((idx.zip idx.tail)[k]).2 = ((idx.zip idx.tail)[k + 1]).1) ∧
    (∀ w ∈ idx.zip idx.tail, w.1 < w.2 ∧ w.1 ∈ idx ∧ w.2 ∈ idx ∧
      ∀ j ∈ idx, ¬ (w.1 < j ∧ j < w.2)) := by
  have hlen : (idx.zip idx.tail).length = idx.length - 1 := by
    rw [List.length_zip, List.length_tail]; omega
  refine ⟨hlen, ?_, ?_⟩
  · intro k h
    rw [getElem_zip_tail, getElem_zip_tail]
  · intro w hw
    obtain ⟨k, hk, rfl⟩ := mem_zip_tail.mp hw
    have hp := List.pairwise_iff_getElem.mp hs
    refine ⟨hp k (k + 1) (by omega) hk (by omega), List.getElem_mem _, List.getElem_mem _, ?_⟩
    intro j hj
    obtain ⟨m, hm, rfl⟩ := List.mem_iff_getElem.mp hj
    rintro ⟨h1, h2⟩
    simp only at h1 h2
    -- `idx[k] < idx[m] < idx[k+1]` is impossible for a strictly increasing list
    rcases Nat.lt_trichotomy m k with hmk | hmk | hmk
    · have := hp m k hm (by omega) hmk; omega
    · subst hmk; omega
    · rcases Nat.lt_or_ge (k + 1) m with h3 | h3
      · have := hp (k + 1) m hk hm h3; omega
      · have : m = k + 1 := by omega
        subst this; omega

end windows

/-! ### the per-day creep damages add up -/
section creepAdd
variable {K : Type} [Field K] [Transc K]

theorem creepCycle_singleton (tR : K → K → K) (y : K × Sym6 K × K) : creepCycle tR [y] = 0 := rfl

/-- splitting a list of samples at an interior sample (which ends the first part **and** starts
the second) splits the time-fraction sum -/
theorem creepCycle_append_shared (tR : K → K → K) (xs ys : List (K × Sym6 K × K)) (y : K × Sym6 K × K) :
    creepCycle tR (xs ++ y :: ys) = creepCycle tR (xs ++ [y]) + creepCycle tR (y :: ys) := by
  induction xs with
  | nil => rw [List.nil_append, List.nil_append, creepCycle_singleton, zero_add]
  | cons x xs ih =>
    cases xs with
    | nil =>
      simp only [List.cons_append, List.nil_append]
      rw [creepCycle_cons_cons, creepCycle_cons_cons, creepCycle_singleton, add_zero]
    | cons x' xs' =>
      simp only [List.cons_append] at ih ⊢
      rw [creepCycle_cons_cons, creepCycle_cons_cons, ih, add_assoc]

theorem creepCycle_take_split (tR : K → K → K) (L : List (K × Sym6 K × K)) (k j : Nat) :
    creepCycle tR (L.take (k + (j + 1))) =
      creepCycle tR (L.take (k + 1)) + creepCycle tR ((L.drop k).take (j + 1)) := by
  rw [List.take_add, List.take_add (i := k) (j := 1)]
  cases hd : L.drop k with
  | nil => simp [creepCycle]
  | cons y ys =>
    simp only [List.take_succ_cons, List.take_zero]
    exact creepCycle_append_shared tR _ _ y

/-- **append lemma over windows**: for `a ≤ m ≤ b` the time-fraction sum of the samples
`a … b` is the sum over `a … m` plus the sum over `m … b` (no hypothesis on the length of `l`) -/
theorem creepCycle_slice_split (tR : K → K → K) (l : List (K × Sym6 K × K)) {a m b : Nat}
    (ham : a ≤ m) (hmb : m ≤ b) :
    creepCycle tR (slice l a (b - a + 1)) =
      creepCycle tR (slice l a (m - a + 1)) + creepCycle tR (slice l m (b - m + 1)) := by
  unfold slice
  have e1 : b - a + 1 = (m - a) + ((b - m) + 1) := by omega
  have e2 : l.drop m = (l.drop a).drop (m - a) := by
    rw [List.drop_drop]; congr 1; omega
  rw [e1, e2]
  exact creepCycle_take_split tR (l.drop a) (m - a) (b - m)

theorem creepCycle_slice_one (tR : K → K → K) (l : List (K × Sym6 K × K)) (a : Nat) :
    creepCycle tR (slice l a 1) = 0 := by
  unfold slice
  cases l.drop a with
  | nil => rfl
  | cons y ys => rfl

/-- telescoping over a non-decreasing chain of boundary indices -/
theorem sumL_creep_pairUp (tR : K → K → K) (l : List (K × Sym6 K × K)) :
    ∀ idx : List Nat, idx.Pairwise (· ≤ ·) → ∀ a b, idx.head? = some a → idx.getLast? = some b →
      sumL ((pairUp idx).map fun w => creepCycle tR (slice l w.1 (w.2 - w.1 + 1))) =
        creepCycle tR (slice l a (b - a + 1)) := by
  intro idx
  induction idx with
  | nil => intro _ a b h; cases h
  | cons a' rest ih =>
    intro hs a b ha hb
    have haa : a' = a := by simpa using ha
    subst haa
    cases rest with
    | nil =>
      have hbb : a' = b := by simpa using hb
      subst hbb
      simp only [pairUp, List.map_nil, sumL, Nat.sub_self, Nat.zero_add]
      exact (creepCycle_slice_one tR l a').symm
    | cons m r =>
      rw [List.pairwise_cons] at hs
      have ham : a' ≤ m := hs.1 m List.mem_cons_self
      rw [List.getLast?_cons_cons] at hb
      have hmb : m ≤ b := by
        have hmem := List.mem_of_getLast? hb
        rcases List.mem_cons.mp hmem with h | h
        · omega
        · exact (List.pairwise_cons.mp hs.2).1 b h
      have := ih hs.2 m b rfl hb
      rw [pairUp_cons_cons, List.map_cons, sumL, this]
      exact (creepCycle_slice_split tR l ham hmb).symm

theorem pointCreep_eq_map (tR : K → K → K) (times : List K) (wins : List (Nat × Nat))
    (hist : List (Sample K)) :
    pointCreep tR times wins hist =
      wins.map fun w => creepCycle tR
        (slice (times.zip (hist.map fun s => (s.stress, s.temp))) w.1 (w.2 - w.1 + 1)) := rfl

/-- **additivity, general form**: the per-day creep damages of the windows of `cycleWindows` sum to
the time-fraction sum from the first flagged time `a` to the last flagged time `b` -/
theorem pointCreep_sum_flagged (tR : K → K → K) (p : K → Bool) (times : List K) (days : Nat)
    (wins : List (Nat × Nat)) (hist : List (Sample K)) (h : cycleWindows p times days = some wins) :
    ∃ a b, (indicesWhere p times 0).head? = some a ∧ (indicesWhere p times 0).getLast? = some b ∧
      sumL (pointCreep tR times wins hist) = creepCycle tR (creepWindow times hist (a, b)) := by
  obtain ⟨hl, hw⟩ := (cycleWindows_eq_some p times days wins).mp h
  rw [← pairUp_eq_zip_tail] at hw
  have hne : indicesWhere p times 0 ≠ [] := by
    intro h0; rw [h0] at hl; simp at hl
  obtain ⟨a, ha⟩ : ∃ a, (indicesWhere p times 0).head? = some a := by
    cases hi : indicesWhere p times 0 with
    | nil => exact absurd hi hne
    | cons a r => exact ⟨a, rfl⟩
  obtain ⟨b, hb⟩ : ∃ b, (indicesWhere p times 0).getLast? = some b :=
    ⟨_, List.getLast?_eq_some_getLast hne⟩
  refine ⟨a, b, ha, hb, ?_⟩
  have hs : (indicesWhere p times 0).Pairwise (· ≤ ·) :=
    (indicesWhere_pairwise p times 0).imp (fun h => Nat.le_of_lt h)
  rw [pointCreep_eq_map, hw]
  exact sumL_creep_pairUp tR _ _ hs a b ha hb

/-- **additivity**: when the first and the last time point are flagged (the history starts and ends
on a day boundary) the per-day creep damages sum to the time-fraction sum over the whole history -/
theorem pointCreep_sum_whole (tR : K → K → K) (p : K → Bool) (times : List K) (days : Nat)
    (wins : List (Nat × Nat)) (hist : List (Sample K)) (h : cycleWindows p times days = some wins)
    (hne : times ≠ []) (hfirst : p (times.head hne) = true) (hlast : p (times.getLast hne) = true) :
    sumL (pointCreep tR times wins hist) =
      creepCycle tR (creepWindow times hist (0, times.length - 1)) := by
  obtain ⟨a, b, ha, hb, hsum⟩ := pointCreep_sum_flagged tR p times days wins hist h
  have ha' : (indicesWhere p times 0).head? = some 0 := by
    cases ht : times with
    | nil => exact absurd ht hne
    | cons x xs =>
      subst ht
      exact indicesWhere_head p x xs 0 hfirst
  have hb' := indicesWhere_getLast p times hne 0 hlast
  rw [ha'] at ha
  rw [hb'] at hb
  have e1 : a = 0 := (Option.some.inj ha).symm
  have e2 : b = times.length - 1 := by
    have := Option.some.inj hb; omega
  rw [hsum, e1, e2]

end creepAdd

/-! ### each day only sees its own samples -/
section locality
variable {K : Type}

theorem slice_congr {α : Type} {l l' : List α} {a n : Nat}
    (h : ∀ i, a ≤ i → i < a + n → l[i]? = l'[i]?) : slice l a n = slice l' a n := by
  unfold slice
  apply List.ext_getElem?
  intro k
  rw [List.getElem?_take, List.getElem?_take]
  split
  · rw [List.getElem?_drop, List.getElem?_drop]
    exact h _ (by omega) (by omega)
  · rfl

theorem slice_zip {α β : Type} (l : List α) (l' : List β) (a n : Nat) :
    slice (l.zip l') a n = (slice l a n).zip (slice l' a n) := by
  unfold slice
  rw [List.zip_eq_zipWith, List.drop_zipWith, List.take_zipWith, ← List.zip_eq_zipWith]

/-- the creep window `w` (`w.1 ≤ w.2`) depends on the history only through the stresses and
temperatures at the time points `w.1 … w.2`.  (For `w.2 < w.1` the code's slice still holds the single
sample `w.1`, which is not in `[w.1, w.2]`; such a window has creep damage `0`.) -/
theorem creepWindow_congr (times : List K) {hist hist' : List (Sample K)} {w : Nat × Nat}
    (hw : w.1 ≤ w.2)
    (h : ∀ i, w.1 ≤ i → i ≤ w.2 →
      hist[i]?.map (fun s => (s.stress, s.temp)) = hist'[i]?.map (fun s => (s.stress, s.temp))) :
    creepWindow times hist w = creepWindow times hist' w := by
  unfold creepWindow
  rw [slice_zip, slice_zip]
  congr 1
  apply slice_congr
  intro i h1 h2
  rw [List.getElem?_map, List.getElem?_map]
  exact h i h1 (by omega)

/-- the fatigue window `w` depends on the history only through the strains and temperatures at the
time points `w.1 … w.2 - 1` -/
theorem fatigueWindow_congr {hist hist' : List (Sample K)} {w : Nat × Nat}
    (h : ∀ i, w.1 ≤ i → i < w.2 →
      hist[i]?.map (fun s => (s.strain, s.temp)) = hist'[i]?.map (fun s => (s.strain, s.temp))) :
    fatigueWindow hist w = fatigueWindow hist' w := by
  unfold fatigueWindow
  apply slice_congr
  intro i h1 h2
  rw [List.getElem?_map, List.getElem?_map]
  exact h i h1 (by omega)

end locality

section locality2
variable {K : Type} [Field K] [LinearOrder K] [Transc K]

omit [LinearOrder K] in
/-- the creep damage of a window only sees the stresses and temperatures at its own time points
(no hypothesis on the window: a window with `w.2 < w.1` has damage `0` for every history) -/
theorem creepCycle_window_congr (tR : K → K → K) (times : List K) {hist hist' : List (Sample K)}
    {w : Nat × Nat}
    (h : ∀ i, w.1 ≤ i → i ≤ w.2 →
      hist[i]?.map (fun s => (s.stress, s.temp)) = hist'[i]?.map (fun s => (s.stress, s.temp))) :
    creepCycle tR (creepWindow times hist w) = creepCycle tR (creepWindow times hist' w) := by
  by_cases hw : w.1 ≤ w.2
  · rw [creepWindow_congr times hw h]
  · have e : w.2 - w.1 + 1 = 1 := by omega
    unfold creepWindow
    rw [e, creepCycle_slice_one, creepCycle_slice_one]

omit [LinearOrder K] in
/-- entry `k` of the per-day creep damages only sees the samples of day `k` -/
theorem pointCreep_local (tR : K → K → K) (times : List K) (wins : List (Nat × Nat))
    {hist hist' : List (Sample K)} (k : Nat) (hk : k < wins.length)
    (h : ∀ i, (wins[k]).1 ≤ i → i ≤ (wins[k]).2 →
      hist[i]?.map (fun s => (s.stress, s.temp)) = hist'[i]?.map (fun s => (s.stress, s.temp))) :
    (pointCreep tR times wins hist)[k]? = (pointCreep tR times wins hist')[k]? := by
  unfold pointCreep
  rw [List.getElem?_map, List.getElem?_map, List.getElem?_eq_getElem hk]
  simp only [Option.map_some]
  rw [creepCycle_window_congr tR times h]

/-- entry `k` of the per-day fatigue damages only sees the samples of day `k` (half-open window) -/
theorem pointFatigue_local (Nf : K → K → K) (wins : List (Nat × Nat))
    {hist hist' : List (Sample K)} (k : Nat) (hk : k < wins.length)
    (h : ∀ i, (wins[k]).1 ≤ i → i < (wins[k]).2 →
      hist[i]?.map (fun s => (s.strain, s.temp)) = hist'[i]?.map (fun s => (s.strain, s.temp))) :
    (pointFatigue Nf wins hist)[k]? = (pointFatigue Nf wins hist')[k]? := by
  unfold pointFatigue
  rw [List.getElem?_map, List.getElem?_map, List.getElem?_eq_getElem hk]
  simp only [Option.map_some]
  rw [fatigueWindow_congr h]

end locality2

end SrModel.Damage
