import SrModel.Ceramic
import Mathlib.Analysis.SpecialFunctions.Pow.Real
import Mathlib.LinearAlgebra.Matrix.Charpoly.Basic

/-! Helper lemmas for C05: the ceramic reliability model `SrModel.Ceramic` instantiated at `ℝ`
(`Real.sqrt`, `Real.exp`, `Real.rpow`, `Real.sin`, `Real.cos`, `Real.pi`). -/
namespace SrModel.Ceramic
open SrModel

noncomputable instance instTranscRealCeramic : Transc ℝ where
  sqrt := Real.sqrt
  exp := Real.exp
  log := Real.log
  pow := fun x y => x ^ y
  sin := Real.sin
  cos := Real.cos

noncomputable instance instConstsReal : Consts ℝ := ⟨Real.pi, fun n => (n : ℝ)⟩

@[simp] theorem pow_def (x y : ℝ) : Transc.pow x y = x ^ y := rfl
@[simp] theorem sqrt_def (x : ℝ) : Transc.sqrt x = Real.sqrt x := rfl
@[simp] theorem exp_def (x : ℝ) : Transc.exp x = Real.exp x := rfl
@[simp] theorem sin_def (x : ℝ) : Transc.sin x = Real.sin x := rfl
@[simp] theorem cos_def (x : ℝ) : Transc.cos x = Real.cos x := rfl
@[simp] theorem pi_def : (Consts.pi : ℝ) = Real.pi := rfl
@[simp] theorem ofNat_def (n : ℕ) : (Consts.ofNat n : ℝ) = (n : ℝ) := rfl

/-! ### scalar helpers -/

theorem tens_eq (x : ℝ) : tens x = max x 0 := by
  unfold tens; split_ifs with h
  · exact (max_eq_right h.le).symm
  · exact (max_eq_left (not_lt.mp h)).symm

theorem tens_nonneg (x : ℝ) : 0 ≤ tens x := by rw [tens_eq]; exact le_max_right _ _
theorem tens_of_nonneg {x : ℝ} (h : 0 ≤ x) : tens x = x := by rw [tens_eq]; exact max_eq_left h
theorem tens_of_nonpos {x : ℝ} (h : x ≤ 0) : tens x = 0 := by rw [tens_eq]; exact max_eq_right h
theorem tens_mul {c : ℝ} (hc : 0 ≤ c) (x : ℝ) : tens (c * x) = c * tens x := by
  rw [tens_eq, tens_eq, mul_max_of_nonneg _ _ hc, mul_zero]

theorem maxNP_eq (a b : ℝ) : maxNP a b = max a b := by
  unfold maxNP; split_ifs with h1 h2
  · exact (max_eq_right h1).symm
  · exact (max_eq_left h2).symm
  · exact absurd (le_of_lt (not_le.mp h1)) h2

theorem minNP_eq (a b : ℝ) : minNP a b = min a b := by
  unfold minNP; split_ifs with h1 h2
  · exact (min_eq_left h1).symm
  · exact (min_eq_right h2).symm
  · exact absurd (le_of_lt (not_le.mp h1)) h2

theorem absK_eq (x : ℝ) : absK x = |x| := by
  unfold absK; split_ifs with h
  · exact (abs_of_neg h).symm
  · exact (abs_of_nonneg (not_lt.mp h)).symm

theorem keepNonneg_of_nonneg {x : ℝ} (h : 0 ≤ x) : keepNonneg x = x := by simp [keepNonneg, h]
theorem nanDrop_eq (x : ℝ) : nanDrop x = x := by simp [nanDrop]

/-- `(x^(1/m))^m = x` for `x ≥ 0`, `m ≠ 0` -/
theorem wrap_id {x m : ℝ} (hx : 0 ≤ x) (hm : m ≠ 0) : (x ^ (1 / m)) ^ m = x := by
  rw [one_div]; exact Real.rpow_inv_rpow hx hm

/-! ### sums -/

theorem sumL_nonneg {l : List ℝ} (h : ∀ x ∈ l, 0 ≤ x) : 0 ≤ sumL l := by
  induction l with
  | nil => simp [sumL]
  | cons a t ih =>
    simp only [sumL]
    exact add_nonneg (h a (by simp)) (ih fun x hx => h x (by simp [hx]))

theorem sumL_nonpos {l : List ℝ} (h : ∀ x ∈ l, x ≤ 0) : sumL l ≤ 0 := by
  induction l with
  | nil => simp [sumL]
  | cons a t ih =>
    simp only [sumL]
    exact add_nonpos (h a (by simp)) (ih fun x hx => h x (by simp [hx]))

theorem sumL_map_le {α : Type} (l : List α) (f g : α → ℝ) (h : ∀ a ∈ l, f a ≤ g a) :
    sumL (l.map f) ≤ sumL (l.map g) := by
  induction l with
  | nil => simp [sumL]
  | cons a t ih =>
    simp only [List.map_cons, sumL]
    exact add_le_add (h a (by simp)) (ih fun x hx => h x (by simp [hx]))

theorem sumL_map_mul_left {α : Type} (l : List α) (c : ℝ) (f : α → ℝ) :
    sumL (l.map fun a => c * f a) = c * sumL (l.map f) := by
  induction l with
  | nil => simp [sumL]
  | cons a t ih => simp only [List.map_cons, sumL, ih]; ring

theorem sumL_map_congr {α : Type} (l : List α) (f g : α → ℝ) (h : ∀ a ∈ l, f a = g a) :
    sumL (l.map f) = sumL (l.map g) := by
  induction l with
  | nil => simp [sumL]
  | cons a t ih =>
    simp only [List.map_cons, sumL]
    rw [h a (by simp), ih fun x hx => h x (by simp [hx])]

theorem sumL_map_zero {α : Type} (l : List α) : sumL (l.map fun _ => (0 : ℝ)) = 0 := by
  induction l with
  | nil => simp [sumL]
  | cons a t ih => simp only [List.map_cons, sumL, ih]; ring

theorem sumL_append (a b : List ℝ) : sumL (a ++ b) = sumL a + sumL b := by
  induction a with
  | nil => simp [sumL]
  | cons x t ih => simp only [List.cons_append, sumL, ih]; ring

theorem sumL_flatten (ls : List (List ℝ)) : sumL ls.flatten = sumL (ls.map sumL) := by
  induction ls with
  | nil => simp [sumL]
  | cons a t ih => simp only [List.flatten_cons, sumL_append, List.map_cons, sumL, ih]

/-! ### maxima over time -/

theorem foldl_max_ge_init (l : List ℝ) (a : ℝ) : a ≤ l.foldl maxNP a := by
  induction l generalizing a with
  | nil => simp
  | cons x t ih =>
    simp only [List.foldl_cons]
    exact le_trans (by rw [maxNP_eq]; exact le_max_left _ _) (ih _)

theorem foldl_max_ge_mem (l : List ℝ) (a : ℝ) {x : ℝ} (hx : x ∈ l) : x ≤ l.foldl maxNP a := by
  induction l generalizing a with
  | nil => simp at hx
  | cons y t ih =>
    simp only [List.foldl_cons]
    rcases List.mem_cons.mp hx with rfl | h
    · exact le_trans (by rw [maxNP_eq]; exact le_max_right _ _) (foldl_max_ge_init _ _)
    · exact ih _ h

theorem le_maxList {l : List ℝ} {x : ℝ} (hx : x ∈ l) : x ≤ maxList l := by
  cases l with
  | nil => simp at hx
  | cons a t =>
    simp only [maxList]
    rcases List.mem_cons.mp hx with rfl | h
    · exact foldl_max_ge_init _ _
    · exact foldl_max_ge_mem _ _ h

theorem maxList_nonneg {l : List ℝ} (h : ∀ x ∈ l, 0 ≤ x) : 0 ≤ maxList l := by
  cases l with
  | nil => simp [maxList]
  | cons a t => exact le_trans (h a (by simp)) (le_maxList (by simp))

theorem foldl_max_map_mul {c : ℝ} (hc : 0 ≤ c) (l : List ℝ) (a : ℝ) :
    (l.map (c * ·)).foldl maxNP (c * a) = c * l.foldl maxNP a := by
  induction l generalizing a with
  | nil => simp
  | cons x t ih =>
    simp only [List.map_cons, List.foldl_cons]
    rw [maxNP_eq, maxNP_eq, ← mul_max_of_nonneg _ _ hc, ih]

theorem maxList_map_mul {c : ℝ} (hc : 0 ≤ c) (l : List ℝ) :
    maxList (l.map (c * ·)) = c * maxList l := by
  cases l with
  | nil => simp [maxList]
  | cons a t => simp only [List.map_cons, maxList]; exact foldl_max_map_mul hc t a

theorem foldl_max_zero (l : List ℝ) (h : ∀ x ∈ l, x = 0) : l.foldl maxNP 0 = 0 := by
  induction l with
  | nil => simp
  | cons x t ih =>
    simp only [List.foldl_cons]
    rw [h x (by simp), maxNP_eq, max_self]
    exact ih fun y hy => h y (by simp [hy])

theorem maxList_zero {l : List ℝ} (h : ∀ x ∈ l, x = 0) : maxList l = 0 := by
  cases l with
  | nil => simp [maxList]
  | cons a t =>
    simp only [maxList]
    rw [h a (by simp)]
    exact foldl_max_zero t fun y hy => h y (by simp [hy])

theorem foldl_min_le_init (l : List ℝ) (a : ℝ) : l.foldl minNP a ≤ a := by
  induction l generalizing a with
  | nil => simp
  | cons x t ih =>
    simp only [List.foldl_cons]
    exact le_trans (ih _) (by rw [minNP_eq]; exact min_le_left _ _)

theorem foldl_min_replicate (n : ℕ) (a : ℝ) : (List.replicate n a).foldl minNP a = a := by
  induction n with
  | zero => simp
  | succ k ih => simp only [List.replicate_succ, List.foldl_cons, minNP_eq, min_self]; exact ih

theorem minList_replicate {n : ℕ} (hn : 0 < n) (a : ℝ) : minList (List.replicate n a) = a := by
  obtain ⟨k, rfl⟩ : ∃ k, n = k + 1 := ⟨n - 1, by omega⟩
  simp only [List.replicate_succ, minList]
  exact foldl_min_replicate k a

/-! ### trapezoid rule, g-factor, transformed stress -/

/-- time axis is non-decreasing -/
def Nondecr : List ℝ → Prop
  | a :: b :: t => a ≤ b ∧ Nondecr (b :: t)
  | _ => True

theorem forall2_map_le {α : Type} (l : List α) (f g : α → ℝ) (h : ∀ a ∈ l, f a ≤ g a) :
    List.Forall₂ (· ≤ ·) (l.map f) (l.map g) := by
  induction l with
  | nil => exact List.Forall₂.nil
  | cons a t ih =>
    exact List.Forall₂.cons (h a (by simp)) (ih fun x hx => h x (by simp [hx]))

theorem trapz_mono : ∀ (ts ys ys' : List ℝ), Nondecr ts → List.Forall₂ (· ≤ ·) ys ys' →
    trapz ts ys ≤ trapz ts ys'
  | [], _, _, _, _ => by simp [trapz]
  | [_], _, _, _, _ => by simp [trapz]
  | _ :: _ :: _, [], _, _, h => by cases h; simp [trapz]
  | _ :: _ :: _, [_], _, _, h => by
    cases h with
    | cons h1 h2 => cases h2; simp [trapz]
  | t0 :: t1 :: ts, y0 :: y1 :: ys, _, hs, h => by
    cases h with
    | cons h0 h' =>
      cases h' with
      | cons h1 h'' =>
        simp only [trapz]
        have ih := trapz_mono (t1 :: ts) (y1 :: ys) _ hs.2 (List.Forall₂.cons h1 h'')
        have hd : 0 ≤ t1 - t0 := sub_nonneg.mpr hs.1
        have : (t1 - t0) * (y1 + y0) / 2 ≤ (t1 - t0) * (_ + _) / 2 :=
          div_le_div_of_nonneg_right (mul_le_mul_of_nonneg_left (add_le_add h1 h0) hd) (by norm_num)
        exact add_le_add this ih

theorem trapz_nonneg : ∀ (ts ys : List ℝ), Nondecr ts → (∀ y ∈ ys, 0 ≤ y) → 0 ≤ trapz ts ys
  | [], _, _, _ => by simp [trapz]
  | [_], _, _, _ => by simp [trapz]
  | _ :: _ :: _, [], _, _ => by simp [trapz]
  | _ :: _ :: _, [_], _, _ => by simp [trapz]
  | t0 :: t1 :: ts, y0 :: y1 :: ys, hs, h => by
    simp only [trapz]
    have ih := trapz_nonneg (t1 :: ts) (y1 :: ys) hs.2 (fun y hy => h y (by simp [hy]))
    have hd : 0 ≤ t1 - t0 := sub_nonneg.mpr hs.1
    have h0 : 0 ≤ y0 := h y0 (by simp)
    have h1 : 0 ≤ y1 := h y1 (by simp)
    have : 0 ≤ (t1 - t0) * (y1 + y0) / 2 := by positivity
    exact add_nonneg this ih

theorem trapz_zero : ∀ (ts ys : List ℝ), (∀ y ∈ ys, y = 0) → trapz ts ys = 0
  | [], _, _ => by simp [trapz]
  | [_], _, _ => by simp [trapz]
  | _ :: _ :: _, [], _ => by simp [trapz]
  | _ :: _ :: _, [_], _ => by simp [trapz]
  | t0 :: t1 :: ts, y0 :: y1 :: ys, h => by
    simp only [trapz]
    rw [trapz_zero (t1 :: ts) (y1 :: ys) (fun y hy => h y (by simp [hy])), h y0 (by simp), h y1 (by simp)]
    ring

/-- hypotheses on the time-dependent parameters and the time axis -/
structure TDok (td : TD ℝ) (ts : List ℝ) : Prop where
  tolg_pos : 0 < td.tolg
  tot_nonneg : 0 ≤ td.tot
  N_gt : 2 < td.N
  B_pos : 0 < td.B
  sorted : Nondecr ts
  last_nonneg : 0 ≤ lastT ts

theorem gfac_nonneg {tolg N : ℝ} {ts ys : List ℝ} {ymax : ℝ} (htol : 0 < tolg) (hs : Nondecr ts)
    (hl : 0 ≤ lastT ts) (hy : ∀ y ∈ ys, 0 ≤ y) (hm : 0 ≤ ymax) : 0 ≤ gfac tolg N ts ys ymax := by
  unfold gfac
  refine div_nonneg (trapz_nonneg _ _ hs ?_) hl
  intro z hz
  obtain ⟨y, hy', rfl⟩ := List.mem_map.mp hz
  exact Real.rpow_nonneg (div_nonneg (hy y hy') (by linarith)) _

theorem sigma0_nonneg {N B tot g s : ℝ} (hB : 0 < B) (ht : 0 ≤ tot) (hg : 0 ≤ g) (hs : 0 ≤ s) :
    0 ≤ sigma0 N B tot g s := by
  unfold sigma0
  apply Real.rpow_nonneg
  have h1 : 0 ≤ s ^ N := Real.rpow_nonneg hs _
  have h2 : 0 ≤ s ^ (N - 2) := Real.rpow_nonneg hs _
  have : 0 ≤ s ^ N * g * tot / B := by positivity
  simp only [pow_def]; linarith

theorem sigma0_mono {N B tot tot' g g' s s' : ℝ} (hN : 2 < N) (hB : 0 < B) (ht : 0 ≤ tot)
    (htt : tot ≤ tot') (hg : 0 ≤ g) (hgg : g ≤ g') (hs : 0 ≤ s) (hss : s ≤ s') :
    sigma0 N B tot g s ≤ sigma0 N B tot' g' s' := by
  unfold sigma0
  simp only [pow_def]
  have h1 : 0 ≤ s ^ N := Real.rpow_nonneg hs _
  have h1' : s ^ N ≤ s' ^ N := Real.rpow_le_rpow hs hss (by linarith)
  have h2 : 0 ≤ s ^ (N - 2) := Real.rpow_nonneg hs _
  have h2' : s ^ (N - 2) ≤ s' ^ (N - 2) := Real.rpow_le_rpow hs hss (by linarith)
  have hA : s ^ N * g * tot ≤ s' ^ N * g' * tot' := by
    have : s ^ N * g ≤ s' ^ N * g' := mul_le_mul h1' hgg hg (le_trans h1 h1')
    exact mul_le_mul this htt ht (le_trans (mul_nonneg h1 hg) this)
  have hA0 : 0 ≤ s ^ N * g * tot := by positivity
  have hb : 0 ≤ s ^ N * g * tot / B + s ^ (N - 2) := by positivity
  apply Real.rpow_le_rpow hb
  · exact add_le_add (div_le_div_of_nonneg_right hA hB.le) h2'
  · have : 0 < N - 2 := by linarith
    positivity

theorem sigma0_tot0 {N B g s : ℝ} (hN : 2 < N) (hs : 0 ≤ s) : sigma0 N B 0 g s = s := by
  unfold sigma0
  simp only [pow_def, mul_zero, zero_div, zero_add, one_div]
  exact Real.rpow_rpow_inv hs (by linarith)

theorem chanTD_nonneg {td : TD ℝ} {ts ys : List ℝ} {ymax : ℝ} (h : TDok td ts)
    (hy : ∀ y ∈ ys, 0 ≤ y) (hm : 0 ≤ ymax) : 0 ≤ chanTD td ts ys ymax :=
  sigma0_nonneg h.B_pos h.tot_nonneg (gfac_nonneg h.tolg_pos h.sorted h.last_nonneg hy hm) hm

/-- longer service time: larger transformed stress -/
theorem chanTD_mono_tot {tolg tot tot' N B : ℝ} {ts ys : List ℝ} {ymax : ℝ}
    (h : TDok ⟨tolg, tot, N, B⟩ ts) (htt : tot ≤ tot') (hy : ∀ y ∈ ys, 0 ≤ y) (hm : 0 ≤ ymax) :
    chanTD ⟨tolg, tot, N, B⟩ ts ys ymax ≤ chanTD ⟨tolg, tot', N, B⟩ ts ys ymax := by
  unfold chanTD
  exact sigma0_mono h.N_gt h.B_pos h.tot_nonneg htt
    (gfac_nonneg h.tolg_pos h.sorted h.last_nonneg hy hm) le_rfl hm le_rfl

theorem gfac_scale_mono {tolg N lam : ℝ} {ts ys : List ℝ} {ymax : ℝ} (htol : 0 < tolg) (hN : 0 ≤ N)
    (hs : Nondecr ts) (hl : 0 ≤ lastT ts) (hy : ∀ y ∈ ys, 0 ≤ y) (hm : 0 ≤ ymax) (hlam : 1 ≤ lam) :
    gfac tolg N ts ys ymax ≤ gfac tolg N ts (ys.map (lam * ·)) (lam * ymax) := by
  unfold gfac
  apply div_le_div_of_nonneg_right _ hl
  rw [List.map_map]
  apply trapz_mono _ _ _ hs
  apply forall2_map_le
  intro y hy'
  have hy0 := hy y hy'
  simp only [Function.comp, pow_def]
  have hd1 : 0 < ymax + tolg := by linarith
  have hd2 : 0 < lam * ymax + tolg := by nlinarith
  apply Real.rpow_le_rpow (div_nonneg hy0 hd1.le) _ hN
  rw [div_le_div_iff₀ hd1 hd2]
  nlinarith [mul_nonneg hy0 htol.le, mul_nonneg (mul_nonneg hy0 htol.le) (sub_nonneg.mpr hlam)]

/-- scaled-up history: larger transformed stress -/
theorem chanTD_scale_mono {td : TD ℝ} {ts ys : List ℝ} {ymax lam : ℝ} (h : TDok td ts)
    (hy : ∀ y ∈ ys, 0 ≤ y) (hm : 0 ≤ ymax) (hlam : 1 ≤ lam) :
    chanTD td ts ys ymax ≤ chanTD td ts (ys.map (lam * ·)) (lam * ymax) := by
  unfold chanTD
  have hN : 0 ≤ td.N := by linarith [h.N_gt]
  exact sigma0_mono h.N_gt h.B_pos h.tot_nonneg le_rfl
    (gfac_nonneg h.tolg_pos h.sorted h.last_nonneg hy hm)
    (gfac_scale_mono h.tolg_pos hN h.sorted h.last_nonneg hy hm hlam) hm (by nlinarith)

theorem chanTD_tot0 {tolg N B : ℝ} {ts ys : List ℝ} {ymax : ℝ} (hN : 2 < N) (hm : 0 ≤ ymax) :
    chanTD ⟨tolg, 0, N, B⟩ ts ys ymax = ymax := by
  unfold chanTD; exact sigma0_tot0 hN hm

/-- all-zero history: transformed stress 0 -/
theorem chanTD_zero {td : TD ℝ} {ts ys : List ℝ} (hN : 2 < td.N) :
    chanTD td ts ys 0 = 0 := by
  unfold chanTD sigma0
  simp only [pow_def]
  have h1 : (0 : ℝ) ^ td.N = 0 := Real.zero_rpow (by linarith)
  have h2 : (0 : ℝ) ^ (td.N - 2) = 0 := Real.zero_rpow (by linarith)
  rw [h1, h2]
  simp only [zero_mul, zero_div, add_zero]
  exact Real.zero_rpow (by
    have : 0 < td.N - 2 := by linarith
    positivity)

/-! ### the common skeleton `elemGen` -/

/-- what the generic theorems need of the spatial part `post` of a model (Weibull modulus `m`) -/
structure PostOK {C : Type} (m : ℝ) (post : (C → ℝ) → ℝ) : Prop where
  nonpos : ∀ x, (∀ c, 0 ≤ x c) → post x ≤ 0
  anti : ∀ x y, (∀ c, 0 ≤ x c) → (∀ c, x c ≤ y c) → post y ≤ post x
  homog : ∀ (lam : ℝ) x, 0 < lam → (∀ c, 0 ≤ x c) → post (fun c => lam * x c) = lam ^ m * post x
  zero : post (fun _ => 0) = 0

section gen
variable {C : Type} {m : ℝ} {post : (C → ℝ) → ℝ} {vTI vTD rM : C → P3 ℝ → ℝ}

theorem mem_map_nonneg {f : P3 ℝ → ℝ} (hf : ∀ p, 0 ≤ f p) (ps : List (P3 ℝ)) :
    ∀ y ∈ ps.map f, 0 ≤ y := by
  intro y hy; obtain ⟨p, _, rfl⟩ := List.mem_map.mp hy; exact hf p

/-- range: every entry is `≤ 0` -/
theorem elemGen_nonpos (hp : PostOK m post) {td : TD ℝ} {ts : List ℝ} (htd : TDok td ts)
    (h1 : ∀ c p, 0 ≤ vTI c p) (h2 : ∀ c p, 0 ≤ vTD c p) (h3 : ∀ c p, 0 ≤ rM c p)
    (ps : List (P3 ℝ)) : ∀ e ∈ elemGen td vTI vTD rM post ts ps, e ≤ 0 := by
  intro e he
  unfold elemGen at he
  split_ifs at he
  · obtain ⟨p, _, rfl⟩ := List.mem_map.mp he
    exact hp.nonpos _ fun c => h1 c p
  · rw [List.mem_singleton] at he; subst he
    exact hp.nonpos _ fun c =>
      chanTD_nonneg htd (mem_map_nonneg (h2 c) ps) (maxList_nonneg (mem_map_nonneg (h3 c) ps))

/-- scaling of a principal-value triple -/
def P3.smul (lam : ℝ) (p : P3 ℝ) : P3 ℝ := ⟨lam * p.p0, lam * p.p1, lam * p.p2⟩

/-- time-independent branch: homogeneous of degree `m` -/
theorem elemGen_TI_homog (hp : PostOK m post) {td : TD ℝ} {ts : List ℝ} (hz : allZero ts = true)
    {lam : ℝ} (hl : 0 < lam) (h1 : ∀ c p, 0 ≤ vTI c p)
    (hv : ∀ c p, vTI c (P3.smul lam p) = lam * vTI c p) (ps : List (P3 ℝ)) :
    elemGen td vTI vTD rM post ts (ps.map (P3.smul lam))
      = (elemGen td vTI vTD rM post ts ps).map (lam ^ m * ·) := by
  unfold elemGen
  simp only [hz, if_true, List.map_map]
  apply List.map_congr_left
  intro p _
  simp only [Function.comp, hv]
  exact hp.homog lam _ hl fun c => h1 c p

/-- time-dependent branch at service time 0: the transformed stress is the maximum over time -/
theorem elemGen_TD_tot0 {tolg N B : ℝ} {ts : List ℝ} (hz : allZero ts = false) (hN : 2 < N)
    (h3 : ∀ c p, 0 ≤ rM c p) (ps : List (P3 ℝ)) :
    elemGen ⟨tolg, 0, N, B⟩ vTI vTD rM post ts ps
      = [post (fun c => maxList (ps.map (rM c)))] := by
  unfold elemGen
  simp only [hz]
  simp only [Bool.false_eq_true, if_false]
  congr 2
  funext c
  exact chanTD_tot0 hN (maxList_nonneg (mem_map_nonneg (h3 c) ps))

/-- service time 0, time-dependent branch: homogeneous of degree `m` -/
theorem elemGen_TD_tot0_homog (hp : PostOK m post) {tolg N B : ℝ} {ts : List ℝ}
    (hz : allZero ts = false) (hN : 2 < N) {lam : ℝ} (hl : 0 < lam) (h3 : ∀ c p, 0 ≤ rM c p)
    (hv : ∀ c p, rM c (P3.smul lam p) = lam * rM c p) (ps : List (P3 ℝ)) :
    elemGen ⟨tolg, 0, N, B⟩ vTI vTD rM post ts (ps.map (P3.smul lam))
      = (elemGen ⟨tolg, 0, N, B⟩ vTI vTD rM post ts ps).map (lam ^ m * ·) := by
  rw [elemGen_TD_tot0 hz hN h3, elemGen_TD_tot0 hz hN h3]
  simp only [List.map_cons, List.map_nil, List.map_map]
  congr 1
  rw [← hp.homog lam _ hl fun c => maxList_nonneg (mem_map_nonneg (h3 c) ps)]
  congr 1
  funext c
  rw [← maxList_map_mul hl.le, List.map_map]
  congr 1
  apply List.map_congr_left
  intro p _
  simp only [Function.comp, hv]

/-- longer service never increases the log-reliability -/
theorem elemGen_mono_tot (hp : PostOK m post) {tolg tot tot' N B : ℝ} {ts : List ℝ}
    (htd : TDok ⟨tolg, tot, N, B⟩ ts) (htt : tot ≤ tot')
    (h2 : ∀ c p, 0 ≤ vTD c p) (h3 : ∀ c p, 0 ≤ rM c p) (ps : List (P3 ℝ)) :
    List.Forall₂ (· ≤ ·) (elemGen ⟨tolg, tot', N, B⟩ vTI vTD rM post ts ps)
      (elemGen ⟨tolg, tot, N, B⟩ vTI vTD rM post ts ps) := by
  unfold elemGen
  split_ifs
  · exact List.forall₂_same.mpr fun _ _ => le_rfl
  · refine List.Forall₂.cons ?_ List.Forall₂.nil
    apply hp.anti
    · intro c
      exact chanTD_nonneg htd (mem_map_nonneg (h2 c) ps) (maxList_nonneg (mem_map_nonneg (h3 c) ps))
    · intro c
      exact chanTD_mono_tot htd htt (mem_map_nonneg (h2 c) ps)
        (maxList_nonneg (mem_map_nonneg (h3 c) ps))

/-- scaling the stresses up never increases the log-reliability -/
theorem elemGen_mono_scale (hp : PostOK m post) (hm : 0 ≤ m) {td : TD ℝ} {ts : List ℝ}
    (htd : TDok td ts) {lam : ℝ} (hl : 1 ≤ lam)
    (h1 : ∀ c p, 0 ≤ vTI c p) (h2 : ∀ c p, 0 ≤ vTD c p) (h3 : ∀ c p, 0 ≤ rM c p)
    (hv1 : ∀ c p, vTI c (P3.smul lam p) = lam * vTI c p)
    (hv2 : ∀ c p, vTD c (P3.smul lam p) = lam * vTD c p)
    (hv3 : ∀ c p, rM c (P3.smul lam p) = lam * rM c p) (ps : List (P3 ℝ)) :
    List.Forall₂ (· ≤ ·) (elemGen td vTI vTD rM post ts (ps.map (P3.smul lam)))
      (elemGen td vTI vTD rM post ts ps) := by
  have hl0 : 0 < lam := by linarith
  by_cases hz : allZero ts = true
  · rw [elemGen_TI_homog hp hz hl0 h1 hv1]
    rw [List.forall₂_map_left_iff]
    apply List.forall₂_same.mpr
    intro e he
    have he0 : e ≤ 0 := elemGen_nonpos hp htd h1 h2 h3 ps e he
    have : 1 ≤ lam ^ m := Real.one_le_rpow hl hm
    nlinarith
  · unfold elemGen
    simp only [hz]
    refine List.Forall₂.cons ?_ List.Forall₂.nil
    apply hp.anti
    · intro c
      exact chanTD_nonneg htd (mem_map_nonneg (h2 c) ps) (maxList_nonneg (mem_map_nonneg (h3 c) ps))
    · intro c
      have := chanTD_scale_mono htd (mem_map_nonneg (h2 c) ps)
        (maxList_nonneg (mem_map_nonneg (h3 c) ps)) hl
      rw [List.map_map, List.map_map]
      have e1 : (ps.map (vTD c ∘ P3.smul lam)) = (ps.map (vTD c)).map (lam * ·) := by
        rw [List.map_map]; apply List.map_congr_left; intro p _; simp [Function.comp, hv2]
      have e2 : maxList (ps.map (rM c ∘ P3.smul lam)) = lam * maxList (ps.map (rM c)) := by
        rw [← maxList_map_mul hl0.le, List.map_map]; congr 1
        apply List.map_congr_left; intro p _; simp [Function.comp, hv3]
      rw [e1, e2]; exact this

/-- all channel values zero (compressive states): every entry is 0 -/
theorem elemGen_zero (hp0 : post (fun _ => 0) = 0) {td : TD ℝ} {ts : List ℝ} (hN : 2 < td.N)
    (ps : List (P3 ℝ)) (h1 : ∀ c, ∀ p ∈ ps, vTI c p = 0)
    (h3 : ∀ c, ∀ p ∈ ps, rM c p = 0) : ∀ e ∈ elemGen td vTI vTD rM post ts ps, e = 0 := by
  intro e he
  unfold elemGen at he
  split_ifs at he
  · obtain ⟨p, hp', rfl⟩ := List.mem_map.mp he
    have : (fun c => vTI c p) = fun _ => 0 := funext fun c => h1 c p hp'
    rw [this]; exact hp0
  · rw [List.mem_singleton] at he; subst he
    have : (fun c => chanTD td ts (ps.map (vTD c)) (maxList (ps.map (rM c)))) = fun _ => 0 := by
      funext c
      have hmx : maxList (ps.map (rM c)) = 0 := maxList_zero (by
        intro y hy; obtain ⟨p, hp', rfl⟩ := List.mem_map.mp hy; exact h3 c p hp')
      rw [hmx]; exact chanTD_zero hN
    rw [this]; exact hp0

end gen

/-! ### the spatial parts of the three model kinds are Weibull sums -/

/-- Σ_c x_c^m w_c -/
noncomputable def S0 {C : Type} (m : ℝ) (w : C → ℝ) (grid : List C) (x : C → ℝ) : ℝ :=
  sumL (grid.map fun c => x c ^ m * w c)

theorem postOK_of_S0 {C : Type} {m coef V : ℝ} {w : C → ℝ} {grid : List C} {post : (C → ℝ) → ℝ}
    (hm : 0 < m) (hc : 0 ≤ coef) (hV : 0 ≤ V) (hw : ∀ c ∈ grid, 0 ≤ w c)
    (heq : ∀ x, (∀ c, 0 ≤ x c) → post x = -coef * S0 m w grid x * V) : PostOK m post := by
  have hS : ∀ x, (∀ c, 0 ≤ x c) → 0 ≤ S0 m w grid x := by
    intro x hx
    apply sumL_nonneg
    intro y hy
    obtain ⟨c, hc', rfl⟩ := List.mem_map.mp hy
    exact mul_nonneg (Real.rpow_nonneg (hx c) _) (hw c hc')
  refine ⟨?_, ?_, ?_, ?_⟩
  · intro x hx
    rw [heq x hx]
    have := mul_nonneg (mul_nonneg hc (hS x hx)) hV
    linarith
  · intro x y hx hxy
    have hy : ∀ c, 0 ≤ y c := fun c => le_trans (hx c) (hxy c)
    rw [heq x hx, heq y hy]
    have hle : S0 m w grid x ≤ S0 m w grid y := by
      apply sumL_map_le
      intro c hc'
      exact mul_le_mul_of_nonneg_right (Real.rpow_le_rpow (hx c) (hxy c) hm.le) (hw c hc')
    have := mul_le_mul_of_nonneg_right (mul_le_mul_of_nonneg_left hle hc) hV
    linarith
  · intro lam x hl hx
    rw [heq x hx, heq _ fun c => mul_nonneg hl.le (hx c)]
    have : S0 m w grid (fun c => lam * x c) = lam ^ m * S0 m w grid x := by
      unfold S0
      rw [← sumL_map_mul_left]
      apply sumL_map_congr
      intro c _
      rw [Real.mul_rpow hl.le (hx c)]; ring
    rw [this]; ring
  · rw [heq _ fun _ => le_rfl]
    have : S0 m w grid (fun _ => (0 : ℝ)) = 0 := by
      unfold S0
      have h := sumL_map_congr grid (fun c => (0 : ℝ) ^ m * w c) (fun _ => (0 : ℝ))
        (by intro c _; rw [Real.zero_rpow hm.ne']; ring)
      rw [h, sumL_map_zero]
    rw [this]; ring

theorem postOK_pia {m k V : ℝ} (hm : 0 < m) (hk : 0 ≤ k) (hV : 0 ≤ V) :
    PostOK m (piaPost m k V) := by
  apply postOK_of_S0 (w := fun _ => 1) (grid := [Ax.a0, Ax.a1, Ax.a2]) hm hk hV
  · intro c _; exact zero_le_one
  · intro x _
    simp only [piaPost, S0, List.map_cons, List.map_nil, sumL, pow_def]; ring

theorem wntsaInt_eq {m da db : ℝ} {grid : List (Node ℝ)} (hs : ∀ nd ∈ grid, 0 ≤ nd.s)
    (hda : 0 ≤ da) (hdb : 0 ≤ db) (x : Node ℝ → ℝ) (hx : ∀ c, 0 ≤ x c) :
    wntsaInt m da db grid x = S0 m (fun nd => nd.s * da * db / (4 * Real.pi)) grid x := by
  unfold wntsaInt S0
  apply sumL_map_congr
  intro nd hnd
  have hpi : 0 < Real.pi := Real.pi_pos
  have h1 : 0 ≤ x nd ^ m := Real.rpow_nonneg (hx nd) _
  have h2 := hs nd hnd
  simp only [pow_def, pi_def]
  rw [keepNonneg_of_nonneg (by positivity)]
  ring

theorem postOK_wntsa {m k V da db : ℝ} {grid : List (Node ℝ)} (hm : 0 < m) (hk : 0 ≤ k)
    (hV : 0 ≤ V) (hs : ∀ nd ∈ grid, 0 ≤ nd.s) (hda : 0 ≤ da) (hdb : 0 ≤ db) :
    PostOK m (wntsaPost m k V da db grid) := by
  have hpi : 0 < Real.pi := Real.pi_pos
  have hw : ∀ nd ∈ grid, 0 ≤ nd.s * da * db / (4 * Real.pi) := by
    intro nd hnd; have := hs nd hnd; positivity
  apply postOK_of_S0 (coef := (2 * m + 1) * k) hm (by positivity) hV hw
  intro x hx
  unfold wntsaPost
  rw [wntsaInt_eq hs hda hdb x hx]
  have hS : 0 ≤ S0 m (fun nd => nd.s * da * db / (4 * Real.pi)) grid x := by
    apply sumL_nonneg
    intro y hy
    obtain ⟨c, hc', rfl⟩ := List.mem_map.mp hy
    exact mul_nonneg (Real.rpow_nonneg (hx c) _) (hw c hc')
  simp only [pow_def]
  rw [wrap_id hS hm.ne']

theorem batInt_eq {m da db : ℝ} {grid : List (Node ℝ)} (x : Node ℝ → ℝ) :
    batInt m da db grid x = S0 m (fun nd => nd.s * da * db) grid x := by
  unfold batInt S0
  apply sumL_map_congr
  intro nd _
  simp only [pow_def, nanDrop_eq]; ring

theorem postOK_bat {kb m k V da db : ℝ} {grid : List (Node ℝ)} (hm : 0 < m) (hkb : 0 ≤ kb)
    (hk : 0 ≤ k) (hV : 0 ≤ V) (hs : ∀ nd ∈ grid, 0 ≤ nd.s) (hda : 0 ≤ da) (hdb : 0 ≤ db) :
    PostOK m (batPost kb m k V da db grid) := by
  have hpi : 0 < Real.pi := Real.pi_pos
  have hw : ∀ nd ∈ grid, 0 ≤ nd.s * da * db := by
    intro nd hnd; have := hs nd hnd; positivity
  apply postOK_of_S0 (coef := 2 * (kb * k) / Real.pi) hm (by positivity) hV hw
  intro x hx
  unfold batPost
  rw [batInt_eq x]
  have hS : 0 ≤ S0 m (fun nd => nd.s * da * db) grid x := by
    apply sumL_nonneg
    intro y hy
    obtain ⟨c, hc', rfl⟩ := List.mem_map.mp hy
    exact mul_nonneg (Real.rpow_nonneg (hx c) _) (hw c hc')
  simp only [pow_def, pi_def]
  rw [wrap_id hS hm.ne']

theorem piaPost_zero {m k V : ℝ} (hm : m ≠ 0) : piaPost m k V (fun _ => 0) = 0 := by
  simp only [piaPost, pow_def, Real.zero_rpow hm]; ring

theorem wntsaPost_zero {m k V da db : ℝ} {grid : List (Node ℝ)} (hm : m ≠ 0) :
    wntsaPost m k V da db grid (fun _ => 0) = 0 := by
  have h : wntsaInt m da db grid (fun _ => 0) = 0 := by
    unfold wntsaInt
    have h := sumL_map_congr grid
      (fun nd => keepNonneg (Transc.pow (0 : ℝ) m * nd.s * da * db / (4 * Consts.pi)))
      (fun _ => (0 : ℝ))
      (by intro nd _; simp only [pow_def, Real.zero_rpow hm, zero_mul, zero_div]; simp [keepNonneg])
    rw [h, sumL_map_zero]
  have hm' : (1 / m) ≠ 0 := one_div_ne_zero hm
  simp only [wntsaPost, h, pow_def, Real.zero_rpow hm', Real.zero_rpow hm]; ring

/-! ### the normalised crack-density coefficient -/

theorem kbarF_nonneg (bm : BModel) (nu cbar a : ℝ) (hc : 0 ≤ Real.cos a) :
    0 ≤ kbarF bm nu cbar a := by
  have h1 := mul_self_nonneg (Real.cos a)
  cases bm <;> simp only [kbarF, cos_def, sin_def, sqrt_def, pow_def] <;>
    first
      | exact hc
      | exact Real.sqrt_nonneg _
      | (have := Real.sqrt_nonneg (Real.cos a ^ (4 : ℝ) + Real.sin a * Real.sin a * (Real.cos a * Real.cos a)); nlinarith)
      | (have := Real.sqrt_nonneg (Real.cos a ^ (4 : ℝ) + Real.sin (2 * a) * Real.sin (2 * a) / ((2 - nu) * (2 - nu))); nlinarith)
      | (have := Real.sqrt_nonneg (Real.cos a ^ (4 : ℝ) + Real.sin (2 * a) * Real.sin (2 * a) / (cbar * cbar)); nlinarith)
      | (have := Real.sqrt_nonneg (Real.cos a ^ (4 : ℝ) + 4 * (Real.sin (2 * a) * Real.sin (2 * a)) / (cbar * cbar * ((nu - 2) * (nu - 2)))); nlinarith)

theorem kbar_nonneg (bm : BModel) (nu cbar m da db : ℝ) (grid : List (Node ℝ))
    (hs : ∀ nd ∈ grid, 0 ≤ nd.s) (hda : 0 ≤ da) (hdb : 0 ≤ db)
    (hc : ∀ nd ∈ grid, 0 ≤ Real.cos nd.a) : 0 ≤ kbar bm nu cbar m da db grid := by
  unfold kbar
  apply div_nonneg Real.pi_pos.le
  apply sumL_nonneg
  intro y hy
  obtain ⟨nd, hnd, rfl⟩ := List.mem_map.mp hy
  have h1 : 0 ≤ kbarF bm nu cbar nd.a ^ m := Real.rpow_nonneg (kbarF_nonneg bm nu cbar nd.a (hc nd hnd)) _
  have h2 := hs nd hnd
  simp only [pow_def]
  positivity

/-! ### the per-orientation stresses: non-negative and homogeneous of degree one -/

theorem get_smul (lam : ℝ) (p : P3 ℝ) (c : Ax) : (P3.smul lam p).get c = lam * p.get c := by
  cases c <;> rfl

theorem sigN_smul (lam : ℝ) (p : P3 ℝ) (nd : Node ℝ) : sigN (P3.smul lam p) nd = lam * sigN p nd := by
  simp only [sigN, P3.smul]; ring

theorem sqrt_lam_sq {lam : ℝ} (hl : 0 ≤ lam) (X : ℝ) : Real.sqrt (lam * lam * X) = lam * Real.sqrt X := by
  rw [Real.sqrt_mul (mul_self_nonneg lam), Real.sqrt_mul_self hl]

theorem sigTot_smul {lam : ℝ} (hl : 0 ≤ lam) (p : P3 ℝ) (nd : Node ℝ) :
    sigTot (P3.smul lam p) nd = lam * sigTot p nd := by
  simp only [sigTot, P3.smul, sqrt_def]
  rw [← sqrt_lam_sq hl]; congr 1; ring

theorem tauOf_smul {lam : ℝ} (hl : 0 ≤ lam) (p : P3 ℝ) (nd : Node ℝ) :
    tauOf (P3.smul lam p) nd = lam * tauOf p nd := by
  simp only [tauOf, sqrt_def, sigTot_smul hl, sigN_smul, maxNP_eq]
  rw [← sqrt_lam_sq hl, mul_max_of_nonneg _ _ (mul_self_nonneg lam), mul_zero]
  congr 2; ring

theorem shearTerm_smul (bm : BModel) (nu cbar lam tau : ℝ) :
    shearTerm bm nu cbar (lam * tau) = lam * shearTerm bm nu cbar tau := by
  cases bm <;> simp only [shearTerm] <;> ring

theorem sigE_smul (bm : BModel) (nu cbar : ℝ) {lam : ℝ} (hl : 0 ≤ lam) (sn tau : ℝ) :
    sigE bm nu cbar (lam * sn) (lam * tau) = lam * sigE bm nu cbar sn tau := by
  simp only [sigE, shearTerm_smul, sqrt_def]
  have : Real.sqrt (lam * sn * (lam * sn) + lam * shearTerm bm nu cbar tau * (lam * shearTerm bm nu cbar tau))
      = lam * Real.sqrt (sn * sn + shearTerm bm nu cbar tau * shearTerm bm nu cbar tau) := by
    rw [← sqrt_lam_sq hl]; congr 1; ring
  rw [this]
  split_ifs <;> ring

theorem sigE_nonneg (bm : BModel) (nu cbar sn tau : ℝ) : 0 ≤ sigE bm nu cbar sn tau := by
  simp only [sigE, sqrt_def]
  split_ifs
  · exact Real.sqrt_nonneg _
  · have h : |sn| ≤ Real.sqrt (sn * sn + shearTerm bm nu cbar tau * shearTerm bm nu cbar tau) :=
      Real.abs_le_sqrt (by nlinarith [mul_self_nonneg (shearTerm bm nu cbar tau)])
    have := neg_abs_le sn
    linarith

theorem sigEof_smul (bm : BModel) (nu cbar : ℝ) {lam : ℝ} (hl : 0 ≤ lam) (nd : Node ℝ) (p : P3 ℝ) :
    sigEof bm nu cbar nd (P3.smul lam p) = lam * sigEof bm nu cbar nd p := by
  simp only [sigEof, sigN_smul, tauOf_smul hl, sigE_smul bm nu cbar hl]

theorem sigEof_nonneg (bm : BModel) (nu cbar : ℝ) (nd : Node ℝ) (p : P3 ℝ) :
    0 ≤ sigEof bm nu cbar nd p := sigE_nonneg _ _ _ _ _

/-! ### the CARES cut-off under scaling and for compressive states -/

theorem max3_smul {lam : ℝ} (hl : 0 ≤ lam) (p : P3 ℝ) : max3 (P3.smul lam p) = lam * max3 p := by
  simp only [max3, P3.smul, maxNP_eq]
  rw [mul_max_of_nonneg _ _ hl, mul_max_of_nonneg _ _ hl]

theorem min3_smul {lam : ℝ} (hl : 0 ≤ lam) (p : P3 ℝ) : min3 (P3.smul lam p) = lam * min3 p := by
  simp only [min3, P3.smul, minNP_eq]
  rw [mul_min_of_nonneg _ _ hl, mul_min_of_nonneg _ _ hl]

/-- the cut-off of the scaled state with tolerance `tol` is the cut-off of the original state with
tolerance `tol/λ` -/
theorem removeB_smul {lam : ℝ} (hl : 0 < lam) (tol : ℝ) (p : P3 ℝ) :
    removeB tol (P3.smul lam p) = removeB (tol / lam) p := by
  unfold removeB
  rw [max3_smul hl.le, min3_smul hl.le]
  have h1 : lam * max3 p + tol = lam * (max3 p + tol / lam) := by field_simp
  rw [h1, mul_div_mul_left _ _ hl.ne']

theorem removeB_smul_tol0 {lam : ℝ} (hl : 0 < lam) (p : P3 ℝ) :
    removeB 0 (P3.smul lam p) = removeB 0 p := by
  rw [removeB_smul hl, zero_div]

theorem cutoffIf_smul {lam tol : ℝ} (cares : Bool) (p : P3 ℝ)
    (h : removeB tol (P3.smul lam p) = removeB tol p) :
    cutoffIf cares tol (P3.smul lam p) = P3.smul lam (cutoffIf cares tol p) := by
  unfold cutoffIf cutoff
  cases cares
  · simp
  · simp only [if_true, h]
    split_ifs
    · simp [P3.smul]
    · rfl

theorem map_cutoffIf_smul {lam tol : ℝ} (cares : Bool) (raw : List (P3 ℝ))
    (h : ∀ p ∈ raw, removeB tol (P3.smul lam p) = removeB tol p) :
    (raw.map (P3.smul lam)).map (cutoffIf cares tol) = (raw.map (cutoffIf cares tol)).map (P3.smul lam) := by
  rw [List.map_map, List.map_map]
  apply List.map_congr_left
  intro p hp
  exact cutoffIf_smul cares p (h p hp)

/-- all principal values `≤ 0` -/
def P3.nonpos (p : P3 ℝ) : Prop := p.p0 ≤ 0 ∧ p.p1 ≤ 0 ∧ p.p2 ≤ 0

theorem cutoffIf_nonpos (cares : Bool) (tol : ℝ) {p : P3 ℝ} (h : p.nonpos) :
    (cutoffIf cares tol p).nonpos := by
  unfold cutoffIf cutoff
  cases cares
  · simpa using h
  · simp only [if_true]
    split_ifs
    · exact ⟨le_rfl, le_rfl, le_rfl⟩
    · exact h

theorem tens_get_nonpos {p : P3 ℝ} (h : p.nonpos) (c : Ax) : tens (p.get c) = 0 := by
  cases c
  · exact tens_of_nonpos h.1
  · exact tens_of_nonpos h.2.1
  · exact tens_of_nonpos h.2.2

theorem tens_sigN_nonpos {p : P3 ℝ} (h : p.nonpos) (nd : Node ℝ) : tens (sigN p nd) = 0 := by
  apply tens_of_nonpos
  unfold sigN
  have h0 := mul_nonneg (neg_nonneg.mpr h.1) (mul_self_nonneg nd.l)
  have h1 := mul_nonneg (neg_nonneg.mpr h.2.1) (mul_self_nonneg nd.m)
  have h2 := mul_nonneg (neg_nonneg.mpr h.2.2) (mul_self_nonneg nd.n)
  nlinarith

/-! ### all eight models as instances of the skeleton -/

/-- channels, per-channel stresses and spatial part of a model -/
structure Pack where
  C : Type
  vTI : C → P3 ℝ → ℝ
  vTD : C → P3 ℝ → ℝ
  rM : C → P3 ℝ → ℝ
  post : (C → ℝ) → ℝ

noncomputable def pack (mdl : Model) (g : Grid ℝ) (par : Par ℝ) (V : ℝ) : Pack :=
  match mdl with
  | .pia => ⟨Ax, fun c p => tens (p.get c), fun c p => tens (p.get c), fun c p => tens (p.get c),
      piaPost par.m par.k V⟩
  | .wntsa => ⟨Node ℝ, fun nd p => tens (sigN p nd), fun nd p => tens (sigN p nd),
      fun nd p => tens (sigN p nd), wntsaPost par.m par.k V g.da g.db g.nodes⟩
  | .bat bm => ⟨Node ℝ, fun nd p => sigEof bm par.nu par.cbar nd p,
      fun nd p => tens (sigEof bm par.nu par.cbar nd p), fun nd p => sigEof bm par.nu par.cbar nd p,
      batPost (kbar bm par.nu par.cbar par.m g.da g.db g.nodes) par.m par.k V g.da g.db g.nodes⟩

theorem elemLogP_eq (mdl : Model) (cares : Bool) (tol tolg tot : ℝ) (g : Grid ℝ) (par : Par ℝ)
    (V : ℝ) (ts : List ℝ) (raw : List (P3 ℝ)) :
    elemLogP mdl cares tol tolg tot g par V ts raw
      = elemGen ⟨tolg, tot, par.N, par.B⟩ (pack mdl g par V).vTI (pack mdl g par V).vTD
          (pack mdl g par V).rM (pack mdl g par V).post ts (raw.map (cutoffIf cares tol)) := by
  cases mdl <;> rfl

/-- hypotheses of the reliability theorems -/
structure OK (tolg tot : ℝ) (g : Grid ℝ) (par : Par ℝ) (V : ℝ) (ts : List ℝ) : Prop where
  m_pos : 0 < par.m
  k_nonneg : 0 ≤ par.k
  N_gt : 2 < par.N
  B_pos : 0 < par.B
  V_nonneg : 0 ≤ V
  tolg_pos : 0 < tolg
  tot_nonneg : 0 ≤ tot
  sorted : Nondecr ts
  last_nonneg : 0 ≤ lastT ts
  s_nonneg : ∀ nd ∈ g.nodes, 0 ≤ nd.s
  da_nonneg : 0 ≤ g.da
  db_nonneg : 0 ≤ g.db
  cos_nonneg : ∀ nd ∈ g.nodes, 0 ≤ Real.cos nd.a

theorem OK.td {tolg tot : ℝ} {g : Grid ℝ} {par : Par ℝ} {V : ℝ} {ts : List ℝ}
    (h : OK tolg tot g par V ts) : TDok ⟨tolg, tot, par.N, par.B⟩ ts :=
  ⟨h.tolg_pos, h.tot_nonneg, h.N_gt, h.B_pos, h.sorted, h.last_nonneg⟩

structure PackOK (m : ℝ) (P : Pack) : Prop where
  post : PostOK m P.post
  ti_nonneg : ∀ c p, 0 ≤ P.vTI c p
  td_nonneg : ∀ c p, 0 ≤ P.vTD c p
  rm_nonneg : ∀ c p, 0 ≤ P.rM c p
  ti_smul : ∀ lam : ℝ, 0 ≤ lam → ∀ c p, P.vTI c (P3.smul lam p) = lam * P.vTI c p
  td_smul : ∀ lam : ℝ, 0 ≤ lam → ∀ c p, P.vTD c (P3.smul lam p) = lam * P.vTD c p
  rm_smul : ∀ lam : ℝ, 0 ≤ lam → ∀ c p, P.rM c (P3.smul lam p) = lam * P.rM c p

theorem pack_ok {tolg tot : ℝ} {g : Grid ℝ} {par : Par ℝ} {V : ℝ} {ts : List ℝ}
    (h : OK tolg tot g par V ts) (mdl : Model) : PackOK par.m (pack mdl g par V) := by
  cases mdl with
  | pia =>
    refine ⟨postOK_pia h.m_pos h.k_nonneg h.V_nonneg, fun _ _ => tens_nonneg _, fun _ _ => tens_nonneg _,
      fun _ _ => tens_nonneg _, ?_, ?_, ?_⟩ <;>
    · intro lam hl (c : Ax) p
      show tens ((P3.smul lam p).get c) = lam * tens (p.get c)
      rw [get_smul, tens_mul hl]
  | wntsa =>
    refine ⟨postOK_wntsa h.m_pos h.k_nonneg h.V_nonneg h.s_nonneg h.da_nonneg h.db_nonneg,
      fun _ _ => tens_nonneg _, fun _ _ => tens_nonneg _, fun _ _ => tens_nonneg _, ?_, ?_, ?_⟩ <;>
    · intro lam hl (nd : Node ℝ) p
      show tens (sigN (P3.smul lam p) nd) = lam * tens (sigN p nd)
      rw [sigN_smul, tens_mul hl]
  | bat bm =>
    refine ⟨postOK_bat h.m_pos
        (kbar_nonneg bm _ _ _ _ _ _ h.s_nonneg h.da_nonneg h.db_nonneg h.cos_nonneg)
        h.k_nonneg h.V_nonneg h.s_nonneg h.da_nonneg h.db_nonneg,
      fun _ _ => sigEof_nonneg _ _ _ _ _, fun _ _ => tens_nonneg _, fun _ _ => sigEof_nonneg _ _ _ _ _,
      ?_, ?_, ?_⟩
    · intro lam hl (nd : Node ℝ) p; exact sigEof_smul bm _ _ hl nd p
    · intro lam hl (nd : Node ℝ) p
      show tens (sigEof bm par.nu par.cbar nd (P3.smul lam p)) = lam * tens (sigEof bm par.nu par.cbar nd p)
      rw [sigEof_smul bm _ _ hl, tens_mul hl]
    · intro lam hl (nd : Node ℝ) p; exact sigEof_smul bm _ _ hl nd p

/-! ### stored components, rotations -/

theorem sqrt2_ne : (sqrt2 : ℝ) ≠ 0 := by
  unfold sqrt2
  simp only [sqrt_def]
  exact (Real.sqrt_pos.mpr (by norm_num)).ne'

theorem roundtrip (S : Sym3 ℝ) : toTensor (assemble (storedOf S)) = S := by
  have h := sqrt2_ne
  cases S
  simp only [toTensor, assemble, storedOf, mul_div_cancel_left₀ _ h]

/-- the 3×3 matrix of a symmetric tensor -/
def Sym3.toMatrix (S : Sym3 ℝ) : Matrix (Fin 3) (Fin 3) ℝ :=
  Matrix.of ![![S.xx, S.xy, S.xz], ![S.xy, S.yy, S.yz], ![S.xz, S.yz, S.zz]]

/-- the six stored components of a matrix -/
def Sym3.ofMatrix (M : Matrix (Fin 3) (Fin 3) ℝ) : Sym3 ℝ :=
  ⟨M 0 0, M 1 1, M 2 2, M 1 2, M 0 2, M 0 1⟩

/-- the same tensor in axes rotated by `Q`: `Q S Qᵀ` -/
noncomputable def rotate (Q : Matrix (Fin 3) (Fin 3) ℝ) (S : Sym3 ℝ) : Sym3 ℝ :=
  Sym3.ofMatrix (Q * S.toMatrix * Q.transpose)

theorem toMatrix_symm (S : Sym3 ℝ) : S.toMatrix.transpose = S.toMatrix := by
  ext i j
  fin_cases i <;> fin_cases j <;> rfl

theorem toMatrix_ofMatrix {M : Matrix (Fin 3) (Fin 3) ℝ} (h : M.transpose = M) :
    (Sym3.ofMatrix M).toMatrix = M := by
  have h10 : M 1 0 = M 0 1 := by have := congrFun (congrFun h 1) 0; simpa [Matrix.transpose_apply] using this.symm
  have h20 : M 2 0 = M 0 2 := by have := congrFun (congrFun h 2) 0; simpa [Matrix.transpose_apply] using this.symm
  have h21 : M 2 1 = M 1 2 := by have := congrFun (congrFun h 2) 1; simpa [Matrix.transpose_apply] using this.symm
  ext i j
  fin_cases i <;> fin_cases j <;> simp [Sym3.toMatrix, Sym3.ofMatrix, h10, h20, h21]

theorem toMatrix_rotate (Q : Matrix (Fin 3) (Fin 3) ℝ) (S : Sym3 ℝ) :
    (rotate Q S).toMatrix = Q * S.toMatrix * Q.transpose := by
  apply toMatrix_ofMatrix
  rw [Matrix.transpose_mul, Matrix.transpose_mul, Matrix.transpose_transpose, toMatrix_symm,
    Matrix.mul_assoc]

/-- **the `eigvalsh` contract follows for any `eig` that is a function of the characteristic
polynomial** (e.g. the sorted roots): it is unchanged by `S ↦ Q S Qᵀ` for orthogonal `Q`. -/
theorem eig_rotate_of_charpoly {β : Type} (eig : Sym3 ℝ → β)
    (f : Polynomial ℝ → β) (hf : ∀ S, eig S = f S.toMatrix.charpoly)
    (Q : Matrix (Fin 3) (Fin 3) ℝ) (hQ : Q * Q.transpose = 1) (S : Sym3 ℝ) :
    eig (rotate Q S) = eig S := by
  have hQ' : Q.transpose * Q = 1 := mul_eq_one_comm.mp hQ
  have hc : (Q * S.toMatrix * Q.transpose).charpoly = S.toMatrix.charpoly := by
    have h := Matrix.charpoly_units_conj (⟨Q, Q.transpose, hQ, hQ'⟩ : (Matrix (Fin 3) (Fin 3) ℝ)ˣ)
      S.toMatrix
    rw [Matrix.inv_eq_right_inv hQ] at h
    exact h
  rw [hf, hf, toMatrix_rotate, hc]

/-! ### tube, panel, receiver -/

theorem tubeSeries_eq (n : ℕ) (elems : List (List ℝ)) :
    tubeSeries n elems = List.replicate n (sumL (elems.map sumL)) := by
  simp [tubeSeries, List.map_replicate]

theorem tubeLog_eq {n : ℕ} (hn : 0 < n) (elems : List (List ℝ)) :
    tubeLog n elems = sumL (elems.map sumL) := by
  unfold tubeLog; rw [tubeSeries_eq]; exact minList_replicate hn _

theorem panelLog_nonpos {tubes : List (ℝ × ℝ)} (h : ∀ t ∈ tubes, t.1 ≤ 0 ∧ 0 ≤ t.2) :
    panelLog tubes ≤ 0 := by
  unfold panelLog
  apply sumL_nonpos
  intro y hy
  obtain ⟨t, ht, rfl⟩ := List.mem_map.mp hy
  exact mul_nonpos_of_nonpos_of_nonneg (h t ht).1 (h t ht).2

theorem overallLog_nonpos {panels : List (List (ℝ × ℝ))}
    (h : ∀ p ∈ panels, ∀ t ∈ p, t.1 ≤ 0 ∧ 0 ≤ t.2) : overallLog panels ≤ 0 := by
  unfold overallLog
  apply sumL_nonpos
  intro y hy
  obtain ⟨p, hp, rfl⟩ := List.mem_map.mp hy
  exact panelLog_nonpos (h p hp)

theorem overallLog_flatten (panels : List (List (ℝ × ℝ))) :
    overallLog panels = panelLog panels.flatten := by
  unfold overallLog panelLog
  rw [List.map_flatten, sumL_flatten, List.map_map]
  rfl

/-- product of a list -/
noncomputable def prodL : List ℝ → ℝ
  | [] => 1
  | x :: xs => x * prodL xs

theorem exp_sumL (l : List ℝ) : Real.exp (sumL l) = prodL (l.map Real.exp) := by
  induction l with
  | nil => simp [sumL, prodL]
  | cons a t ih => simp only [sumL, List.map_cons, prodL, Real.exp_add, ih]

theorem rel_panelLog (tubes : List (ℝ × ℝ)) :
    rel (panelLog tubes) = prodL (tubes.map fun t => rel t.1 ^ t.2) := by
  unfold rel panelLog
  simp only [exp_def]
  rw [exp_sumL, List.map_map]
  congr 1
  apply List.map_congr_left
  intro t _
  simp only [Function.comp, Real.exp_mul]

theorem rel_overallLog (panels : List (List (ℝ × ℝ))) :
    rel (overallLog panels) = prodL (panels.map fun p => rel (panelLog p)) := by
  unfold rel overallLog
  simp only [exp_def]
  rw [exp_sumL, List.map_map]
  rfl

theorem rel_range {x : ℝ} (hx : x ≤ 0) : 0 < rel x ∧ rel x ≤ 1 :=
  ⟨Real.exp_pos x, Real.exp_le_one_iff.mpr hx⟩

/-! ### uniaxial tension along the polar axis of the orientation grid (Batdorf models) -/

theorem rpow_four (c : ℝ) : c ^ (4 : ℝ) = c * c * (c * c) := by
  have : (4 : ℝ) = ((4 : ℕ) : ℝ) := by norm_num
  rw [this, Real.rpow_natCast]; ring

/-- uniaxial stress `σ` along the polar axis of the orientation grid -/
def polar (σ : ℝ) : P3 ℝ := ⟨σ, 0, 0⟩

theorem polar_sigN (σ a b : ℝ) : sigN (polar σ) (nodeOf a b) = σ * (Real.cos a * Real.cos a) := by
  simp [sigN, nodeOf, polar]

theorem polar_sigTot {σ a : ℝ} (b : ℝ) (hσ : 0 ≤ σ) (hc : 0 ≤ Real.cos a) :
    sigTot (polar σ) (nodeOf a b) = σ * Real.cos a := by
  simp only [sigTot, nodeOf, polar, sqrt_def, cos_def, zero_mul, mul_zero, add_zero]
  exact Real.sqrt_mul_self (mul_nonneg hσ hc)

theorem polar_tau_sq {σ a : ℝ} (b : ℝ) (hσ : 0 ≤ σ) (hc : 0 ≤ Real.cos a) :
    tauOf (polar σ) (nodeOf a b) * tauOf (polar σ) (nodeOf a b)
      = σ * σ * (Real.cos a * Real.cos a) * (Real.sin a * Real.sin a) := by
  simp only [tauOf, sqrt_def, polar_sigTot b hσ hc, polar_sigN, maxNP_eq]
  have hs : Real.sin a * Real.sin a = 1 - Real.cos a * Real.cos a := by
    have := Real.sin_sq_add_cos_sq a; nlinarith
  have hX : σ * Real.cos a * (σ * Real.cos a) - σ * (Real.cos a * Real.cos a) * (σ * (Real.cos a * Real.cos a))
      = σ * σ * (Real.cos a * Real.cos a) * (Real.sin a * Real.sin a) := by rw [hs]; ring
  have h0 : 0 ≤ σ * σ * (Real.cos a * Real.cos a) * (Real.sin a * Real.sin a) :=
    mul_nonneg (mul_nonneg (mul_self_nonneg σ) (mul_self_nonneg _)) (mul_self_nonneg _)
  rw [hX, max_eq_left h0]
  exact Real.mul_self_sqrt h0

/-- the integrand base that `calculate_eq_stress` implies for a uniaxial stress along the polar
axis: `σ_e = σ · fE(a)` -/
noncomputable def fE (bm : BModel) (nu cbar a : ℝ) : ℝ :=
  let c := Real.cos a
  let s := Real.sin a
  let s2 := Real.sin (2 * a)
  match bm with
  | .mtsG => (1 / 2) * (c * c + Real.sqrt (c ^ (4 : ℝ) + (s * s) * (c * c)))
  | .mtsP => (1 / 2) * (c * c + Real.sqrt (c ^ (4 : ℝ) + (s2 * s2) / ((2 - nu) * (2 - nu))))
  | .cseG => c
  | .cseP => Real.sqrt (c ^ (4 : ℝ) + (s2 * s2) / ((2 - nu) * (2 - nu)))
  | .smmG => (1 / 2) * (c * c + Real.sqrt (c ^ (4 : ℝ) + (s2 * s2) / (cbar * cbar)))
  | .smmP => (1 / 2) * (c * c + Real.sqrt (c ^ (4 : ℝ)
      + (4 * (s2 * s2)) / ((cbar * cbar) * ((nu - 2) * (nu - 2)))))

theorem sigEof_polar (bm : BModel) {nu cbar σ a : ℝ} (b : ℝ) (hσ : 0 ≤ σ) (hc : 0 ≤ Real.cos a)
    (hnu : nu ≠ 2) (hcb : cbar ≠ 0) :
    sigEof bm nu cbar (nodeOf a b) (polar σ) = σ * fE bm nu cbar a := by
  have hT := polar_tau_sq b hσ hc
  have hN := polar_sigN σ a b
  have h2 : Real.sin (2 * a) = 2 * Real.sin a * Real.cos a := Real.sin_two_mul a
  have hnu' : (2 - nu) ≠ 0 := sub_ne_zero.mpr (Ne.symm hnu)
  have hnu'' : (1 - 1 / 2 * nu) ≠ 0 := by
    intro h; apply hnu; linarith
  have hnu3 : (nu - 2) ≠ 0 := sub_ne_zero.mpr hnu
  set T := tauOf (polar σ) (nodeOf a b) with hTdef
  set c := Real.cos a with hcdef
  set s := Real.sin a with hsdef
  have key : ∀ κ X : ℝ, shearTerm bm nu cbar T * shearTerm bm nu cbar T = κ * (T * T) →
      X = κ * (c * c) * (s * s) →
      Real.sqrt (σ * (c * c) * (σ * (c * c)) + shearTerm bm nu cbar T * shearTerm bm nu cbar T)
        = σ * Real.sqrt (c ^ (4 : ℝ) + X) := by
    intro κ X h1 h2'
    rw [h1, hT, h2', rpow_four, ← sqrt_lam_sq hσ]
    congr 1; ring
  unfold sigEof
  rw [hN]
  cases bm
  · simp only [sigE, isCSE, fE, sqrt_def, Bool.false_eq_true, if_false]
    rw [key 1 (s * s * (c * c)) (by simp [shearTerm]) (by ring)]; ring
  · simp only [sigE, isCSE, fE, sqrt_def, Bool.false_eq_true, if_false]
    rw [key (1 / ((1 - 1 / 2 * nu) * (1 - 1 / 2 * nu)))
      (Real.sin (2 * a) * Real.sin (2 * a) / ((2 - nu) * (2 - nu))) (by simp only [shearTerm]; field_simp)
      (by rw [h2]; field_simp)]; ring
  · simp only [sigE, isCSE, fE, sqrt_def, if_true]
    rw [key 1 (s * s * (c * c)) (by simp [shearTerm]) (by ring)]
    have : c ^ (4 : ℝ) + s * s * (c * c) = c * c := by
      have := Real.sin_sq_add_cos_sq a
      rw [rpow_four]; nlinarith
    rw [this, Real.sqrt_mul_self hc]
  · simp only [sigE, isCSE, fE, sqrt_def, if_true]
    rw [key (1 / ((1 - 1 / 2 * nu) * (1 - 1 / 2 * nu)))
      (Real.sin (2 * a) * Real.sin (2 * a) / ((2 - nu) * (2 - nu))) (by simp only [shearTerm]; field_simp)
      (by rw [h2]; field_simp)]
  · simp only [sigE, isCSE, fE, sqrt_def, Bool.false_eq_true, if_false]
    rw [key (4 / (cbar * cbar)) (Real.sin (2 * a) * Real.sin (2 * a) / (cbar * cbar))
      (by simp only [shearTerm]; field_simp; ring)
      (by rw [h2]; field_simp; ring)]; ring
  · simp only [sigE, isCSE, fE, sqrt_def, Bool.false_eq_true, if_false]
    rw [key (16 / ((cbar * cbar) * ((2 - nu) * (2 - nu))))
      (4 * (Real.sin (2 * a) * Real.sin (2 * a)) / ((cbar * cbar) * ((nu - 2) * (nu - 2))))
      (by simp only [shearTerm]; field_simp; ring)
      (by rw [h2]; field_simp; ring)]; ring

theorem kbarF_eq_fE (bm : BModel) (nu cbar a : ℝ) :
    kbarF bm nu cbar a = fE bm nu cbar a := by
  cases bm <;> rfl

/-- weighted sum of the `k̄` integrand over the grid -/
noncomputable def kbarI (bm : BModel) (nu cbar m da db : ℝ) (grid : List (Node ℝ)) : ℝ :=
  sumL (grid.map fun nd => kbarF bm nu cbar nd.a ^ m * nd.s * da * db)

theorem kbar_eq (bm : BModel) (nu cbar m da db : ℝ) (grid : List (Node ℝ)) :
    kbar bm nu cbar m da db grid = Real.pi / (2 * kbarI bm nu cbar m da db grid) := by
  unfold kbar kbarI
  simp only [pi_def, pow_def]
  rw [← sumL_map_mul_left]

/-- uniaxial tension `σ` along the polar axis of the grid, any crack-density coefficient `kb`:
the spatial part is `-(2 kb k/π) σ^m I V` with `I` the `k̄`-sum of the current normalisation -/
theorem batPost_polar_gen (bm : BModel) {kb nu cbar m k V da db σ : ℝ}
    (pairs : List (ℝ × ℝ)) (hσ : 0 ≤ σ) (hm : 0 < m)
    (hcos : ∀ ab ∈ pairs, 0 ≤ Real.cos ab.1) (hsin : ∀ ab ∈ pairs, 0 ≤ Real.sin ab.1)
    (hda : 0 ≤ da) (hdb : 0 ≤ db) (hnu : nu ≠ 2) (hcb : cbar ≠ 0) :
    batPost kb m k V da db
        (pairs.map fun ab => nodeOf ab.1 ab.2) (fun nd => sigEof bm nu cbar nd (polar σ))
      = -(2 * (kb * k) / Real.pi)
          * (σ ^ m * kbarI bm nu cbar m da db (pairs.map fun ab => nodeOf ab.1 ab.2)) * V := by
  set grid := pairs.map fun ab => nodeOf ab.1 ab.2 with hgrid
  set I := kbarI bm nu cbar m da db grid with hIdef
  have hmem : ∀ nd ∈ grid, ∃ ab ∈ pairs, nd = nodeOf ab.1 ab.2 := by
    intro nd hnd
    obtain ⟨ab, hab, rfl⟩ := List.mem_map.mp hnd
    exact ⟨ab, hab, rfl⟩
  have hint : batInt m da db grid (fun nd => sigEof bm nu cbar nd (polar σ)) = σ ^ m * I := by
    rw [batInt_eq, hIdef]
    unfold S0 kbarI
    rw [← sumL_map_mul_left]
    apply sumL_map_congr
    intro nd hnd
    obtain ⟨ab, hab, rfl⟩ := hmem nd hnd
    beta_reduce
    rw [sigEof_polar bm ab.2 hσ (hcos ab hab) hnu hcb, ← kbarF_eq_fE bm,
      Real.mul_rpow hσ (kbarF_nonneg bm nu cbar _ (hcos ab hab))]
    simp only [nodeOf]; ring
  have hI0 : 0 ≤ I := by
    apply sumL_nonneg
    intro y hy
    obtain ⟨nd, hnd, rfl⟩ := List.mem_map.mp hy
    obtain ⟨ab, hab, rfl⟩ := hmem nd hnd
    have h1 : 0 ≤ kbarF bm nu cbar (nodeOf ab.1 ab.2).a ^ m :=
      Real.rpow_nonneg (kbarF_nonneg bm nu cbar _ (hcos ab hab)) _
    have h2 : 0 ≤ (nodeOf ab.1 ab.2).s := hsin ab hab
    positivity
  unfold batPost
  rw [hint]
  simp only [pow_def, pi_def]
  rw [wrap_id (mul_nonneg (Real.rpow_nonneg hσ _) hI0) hm.ne']

/-- all six Batdorf models, uniaxial tension `σ` along the polar axis of the grid: the spatial part
gives exactly `-V k σ^m`, because `k̄` is normalised with the same rule. -/
theorem batPost_polar (bm : BModel) {nu cbar m k V da db σ : ℝ}
    (pairs : List (ℝ × ℝ)) (hσ : 0 ≤ σ) (hm : 0 < m)
    (hcos : ∀ ab ∈ pairs, 0 ≤ Real.cos ab.1) (hsin : ∀ ab ∈ pairs, 0 ≤ Real.sin ab.1)
    (hda : 0 ≤ da) (hdb : 0 ≤ db) (hnu : nu ≠ 2) (hcb : cbar ≠ 0)
    (hI : kbarI bm nu cbar m da db (pairs.map fun ab => nodeOf ab.1 ab.2) ≠ 0) :
    batPost (kbar bm nu cbar m da db (pairs.map fun ab => nodeOf ab.1 ab.2)) m k V da db
        (pairs.map fun ab => nodeOf ab.1 ab.2) (fun nd => sigEof bm nu cbar nd (polar σ))
      = -V * (k * σ ^ m) := by
  rw [batPost_polar_gen bm pairs hσ hm hcos hsin hda hdb hnu hcb, kbar_eq]
  have hpi : Real.pi ≠ 0 := Real.pi_pos.ne'
  field_simp

/-- the pinned normalisation integrand of `MTSModelPennyShapedFlaw.calculate_kbar` (`2 - ν²`) is
strictly larger than the one its `calculate_eq_stress` implies (`(2 - ν)²`) at `ν = 0`, `A = π/4`. -/
theorem pinned_kbarF_gt (cbar : ℝ) :
    kbarF .mtsP 0 cbar (Real.pi / 4) < kbarFPinnedMtsP 0 (Real.pi / 4) := by
  have h2 : Real.sin (2 * (Real.pi / 4)) = 1 := by
    rw [show 2 * (Real.pi / 4) = Real.pi / 2 by ring, Real.sin_pi_div_two]
  simp only [kbarF, kbarFPinnedMtsP, cos_def, sin_def, sqrt_def, pow_def, h2]
  have hc : 0 ≤ Real.cos (Real.pi / 4) ^ (4 : ℝ) := by
    rw [rpow_four]; exact mul_self_nonneg _
  have hlt : Real.sqrt (Real.cos (Real.pi / 4) ^ (4 : ℝ) + 1 * 1 / ((2 - 0) * (2 - 0)))
      < Real.sqrt (Real.cos (Real.pi / 4) ^ (4 : ℝ) + 1 * 1 / (2 - 0 * 0)) := by
    apply Real.sqrt_lt_sqrt
      (by have : (0 : ℝ) ≤ 1 * 1 / ((2 - 0) * (2 - 0)) := by norm_num
          linarith)
    norm_num
  linarith

/-- **witness for the pinned defect.**  One orientation node at `A = π/4`, `ν = 0`, unit
increments: with the pinned `k̄` the MTS/penny-shaped model does *not* give the uniaxial Weibull
law `-V k σ^m` for a uniaxial tension along the polar axis. -/
theorem pinned_mtsP_witness {cbar m k V σ : ℝ} (hcb : cbar ≠ 0) (hm : 0 < m) (hk : 0 < k)
    (hV : 0 < V) (hσ : 0 < σ) :
    batPost (kbarPinnedMtsP 0 m 1 1 ([(Real.pi / 4, (0 : ℝ))].map fun ab => nodeOf ab.1 ab.2)) m k V 1 1
        ([(Real.pi / 4, (0 : ℝ))].map fun ab => nodeOf ab.1 ab.2)
        (fun nd => sigEof .mtsP 0 cbar nd (polar σ))
      ≠ -V * (k * σ ^ m) := by
  have hc4 : 0 ≤ Real.cos (Real.pi / 4) := by rw [Real.cos_pi_div_four]; positivity
  have hs4 : 0 < Real.sin (Real.pi / 4) := by rw [Real.sin_pi_div_four]; positivity
  rw [batPost_polar_gen .mtsP [(Real.pi / 4, (0 : ℝ))] hσ.le hm
    (by intro ab hab; rw [List.mem_singleton] at hab; subst hab; exact hc4)
    (by intro ab hab; rw [List.mem_singleton] at hab; subst hab; exact hs4.le)
    zero_le_one zero_le_one (by norm_num) hcb]
  set f := kbarF .mtsP 0 cbar (Real.pi / 4) with hf
  set fP := kbarFPinnedMtsP (0 : ℝ) (Real.pi / 4) with hfP
  have hlt : f < fP := pinned_kbarF_gt cbar
  have hf0 : 0 ≤ f := kbarF_nonneg .mtsP 0 cbar _ hc4
  have hpow : f ^ m < fP ^ m := Real.rpow_lt_rpow hf0 hlt hm
  have hfm0 : 0 ≤ f ^ m := Real.rpow_nonneg hf0 _
  have hI : kbarI .mtsP 0 cbar m 1 1 ([(Real.pi / 4, (0 : ℝ))].map fun ab => nodeOf ab.1 ab.2)
      = f ^ m * Real.sin (Real.pi / 4) := by
    simp [kbarI, sumL, nodeOf, hf]
  have hK : kbarPinnedMtsP 0 m 1 1 ([(Real.pi / 4, (0 : ℝ))].map fun ab => nodeOf ab.1 ab.2)
      = Real.pi / (2 * (fP ^ m * Real.sin (Real.pi / 4))) := by
    simp [kbarPinnedMtsP, sumL, nodeOf, hfP]
  rw [hI, hK]
  have hpi : 0 < Real.pi := Real.pi_pos
  have hσm : 0 < σ ^ m := Real.rpow_pos_of_pos hσ m
  have hfPm : 0 < fP ^ m := lt_of_le_of_lt hfm0 hpow
  set s4 := Real.sin (Real.pi / 4)
  intro h
  have e : -(2 * (Real.pi / (2 * (fP ^ m * s4)) * k) / Real.pi) * (σ ^ m * (f ^ m * s4)) * V
      = -V * (k * σ ^ m) * (f ^ m / fP ^ m) := by
    field_simp
  rw [e] at h
  have hne : V * (k * σ ^ m) ≠ 0 := by positivity
  have h1 : f ^ m / fP ^ m = 1 := by
    have : V * (k * σ ^ m) * (f ^ m / fP ^ m) = V * (k * σ ^ m) * 1 := by linarith
    exact mul_left_cancel₀ hne this
  rw [div_eq_one_iff_eq hfPm.ne'] at h1
  linarith

/-! ### averaging over quadrature points commutes with rotation -/

def Sym3.add (S T : Sym3 ℝ) : Sym3 ℝ :=
  ⟨S.xx + T.xx, S.yy + T.yy, S.zz + T.zz, S.yz + T.yz, S.xz + T.xz, S.xy + T.xy⟩
def Sym3.smul (c : ℝ) (S : Sym3 ℝ) : Sym3 ℝ :=
  ⟨c * S.xx, c * S.yy, c * S.zz, c * S.yz, c * S.xz, c * S.xy⟩
def Sym3.zero : Sym3 ℝ := ⟨0, 0, 0, 0, 0, 0⟩

def sumSym : List (Sym3 ℝ) → Sym3 ℝ
  | [] => Sym3.zero
  | S :: t => Sym3.add S (sumSym t)

/-- component-wise mean of the tensors at the quadrature points of an element -/
noncomputable def meanSym (l : List (Sym3 ℝ)) : Sym3 ℝ :=
  ⟨meanL (l.map (·.xx)), meanL (l.map (·.yy)), meanL (l.map (·.zz)),
   meanL (l.map (·.yz)), meanL (l.map (·.xz)), meanL (l.map (·.xy))⟩

theorem meanStored_storedOf (l : List (Sym3 ℝ)) :
    meanStored (l.map storedOf) = storedOf (meanSym l) := by
  simp only [meanStored, meanSym, storedOf, List.map_map, Function.comp_def]

theorem toMatrix_add (S T : Sym3 ℝ) : (Sym3.add S T).toMatrix = S.toMatrix + T.toMatrix := by
  ext i j
  fin_cases i <;> fin_cases j <;> simp [Sym3.toMatrix, Sym3.add]

theorem toMatrix_smul (c : ℝ) (S : Sym3 ℝ) : (Sym3.smul c S).toMatrix = c • S.toMatrix := by
  ext i j
  fin_cases i <;> fin_cases j <;> simp [Sym3.toMatrix, Sym3.smul]

theorem rotate_add (Q : Matrix (Fin 3) (Fin 3) ℝ) (S T : Sym3 ℝ) :
    rotate Q (Sym3.add S T) = Sym3.add (rotate Q S) (rotate Q T) := by
  unfold rotate
  rw [toMatrix_add, Matrix.mul_add, Matrix.add_mul]
  simp only [Sym3.ofMatrix, Sym3.add, Matrix.add_apply]

theorem rotate_smul (Q : Matrix (Fin 3) (Fin 3) ℝ) (c : ℝ) (S : Sym3 ℝ) :
    rotate Q (Sym3.smul c S) = Sym3.smul c (rotate Q S) := by
  unfold rotate
  rw [toMatrix_smul, Matrix.mul_smul, Matrix.smul_mul]
  simp only [Sym3.ofMatrix, Sym3.smul, Matrix.smul_apply, smul_eq_mul]

theorem rotate_zero (Q : Matrix (Fin 3) (Fin 3) ℝ) : rotate Q Sym3.zero = Sym3.zero := by
  have h : Sym3.zero.toMatrix = 0 := by
    ext i j
    fin_cases i <;> fin_cases j <;> simp [Sym3.toMatrix, Sym3.zero]
  unfold rotate
  rw [h, Matrix.mul_zero, Matrix.zero_mul]
  simp [Sym3.ofMatrix, Sym3.zero]

theorem rotate_sumSym (Q : Matrix (Fin 3) (Fin 3) ℝ) (l : List (Sym3 ℝ)) :
    rotate Q (sumSym l) = sumSym (l.map (rotate Q)) := by
  induction l with
  | nil => exact rotate_zero Q
  | cons S t ih => simp only [sumSym, List.map_cons, rotate_add, ih]

theorem sumSym_comp (l : List (Sym3 ℝ)) :
    sumSym l = ⟨sumL (l.map (·.xx)), sumL (l.map (·.yy)), sumL (l.map (·.zz)),
      sumL (l.map (·.yz)), sumL (l.map (·.xz)), sumL (l.map (·.xy))⟩ := by
  induction l with
  | nil => simp [sumSym, Sym3.zero, sumL]
  | cons S t ih => simp only [sumSym, ih, Sym3.add, List.map_cons, sumL]

theorem meanSym_eq (l : List (Sym3 ℝ)) :
    meanSym l = Sym3.smul (1 / (l.length : ℝ)) (sumSym l) := by
  rw [sumSym_comp]
  simp only [meanSym, meanL, Sym3.smul, List.length_map, ofNat_def]
  congr 1 <;> ring

/-- the mean over the quadrature points of the rotated tensors is the rotated mean -/
theorem meanSym_rotate (Q : Matrix (Fin 3) (Fin 3) ℝ) (l : List (Sym3 ℝ)) :
    meanSym (l.map (rotate Q)) = rotate Q (meanSym l) := by
  rw [meanSym_eq, meanSym_eq, rotate_smul, rotate_sumSym, List.length_map]

end SrModel.Ceramic
