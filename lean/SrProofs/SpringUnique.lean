import SrProofs.Spring
import Mathlib.Algebra.Order.Field.Basic
import Mathlib.Tactic.Positivity
import Mathlib.Data.List.Nodup

/-!
# Uniqueness of the equilibrium of a network of linear springs

* `assembleF_bilinear`, `energy_identity` — `∑_r w_r F_int(d)_r = Σ k (w_i - w_j)(d_i - d_j)`.
* `assembleF_sub` — the assembled force of linear springs is additive in the displacements.
* `Reach` — joined to a BC dof by a chain of springs; `equilibrium_unique_of_reach`.
* `Conn`, `mergeAlong_sound`, `connected_conn` — soundness of the quick-find connectivity test of
  `validate_solve`; `Net.reach_of_valid` turns it into `Reach` under the dof numbering of `dof_maps`.
-/
namespace SrModel.Spring

/-! ## energy identity and additivity (commutative ring) -/

section Ring
variable {K : Type} [CommRing K]

theorem sum_delta' (w : Nat → K) {n i : Nat} (h : i < n) :
    (Finset.range n).sum (fun r => w r * (delta r i : K)) = w i := by
  rw [← sum_delta w h]
  exact Finset.sum_congr rfl (fun r _ => mul_comm _ _)

/-- `wᵀ K d = Σ k (w_i - w_j)(d_i - d_j)` -/
theorem assembleF_bilinear (l : List (Nat × Nat × K)) (w d : Nat → K) (n : Nat)
    (hn : ∀ s ∈ l, s.1 < n ∧ s.2.1 < n) :
    (Finset.range n).sum (fun r => w r * assembleF (linEdges l) d r) =
      (l.map (fun s => s.2.2 * (w s.1 - w s.2.1) * (d s.1 - d s.2.1))).sum := by
  simp only [assembleF_linear]
  induction l with
  | nil => simp
  | cons s l ih =>
    have h1 := hn s (List.mem_cons_self ..)
    have ih' := ih (fun x hx => hn x (List.mem_cons_of_mem _ hx))
    simp only [List.map_cons, List.sum_cons, mul_add, Finset.sum_add_distrib, ih']
    congr 1
    have : ∀ r, w r * (s.2.2 * (delta r s.1 - delta r s.2.1) * (d s.1 - d s.2.1)) =
        s.2.2 * (d s.1 - d s.2.1) * (w r * delta r s.1) -
        s.2.2 * (d s.1 - d s.2.1) * (w r * delta r s.2.1) := fun r => by ring
    simp only [this, Finset.sum_sub_distrib, ← Finset.mul_sum, sum_delta' w h1.1, sum_delta' w h1.2]
    ring

/-- **energy identity** `eᵀ K e = Σ k (e_i - e_j)²` -/
theorem energy_identity (l : List (Nat × Nat × K)) (e : Nat → K) (n : Nat)
    (hn : ∀ s ∈ l, s.1 < n ∧ s.2.1 < n) :
    (Finset.range n).sum (fun r => e r * assembleF (linEdges l) e r) =
      (l.map (fun s => s.2.2 * (e s.1 - e s.2.1) ^ 2)).sum := by
  rw [assembleF_bilinear l e e n hn]
  congr 1
  apply List.map_congr_left
  intro s _
  ring

/-- the assembled force of linear springs is additive in the displacement field -/
theorem assembleF_sub (l : List (Nat × Nat × K)) (d d' : Nat → K) (r : Nat) :
    assembleF (linEdges l) (fun i => d i - d' i) r =
      assembleF (linEdges l) d r - assembleF (linEdges l) d' r := by
  simp only [assembleF_linear]
  induction l with
  | nil => simp
  | cons s l ih =>
    simp only [List.map_cons, List.sum_cons, ih]
    ring

end Ring

/-! ## uniqueness (linearly ordered field) -/

/-- dof `r` is joined to a dof with a displacement BC by a chain of springs -/
inductive Reach {F : Type} (l : List (Nat × Nat × F)) (B : Nat → Prop) : Nat → Prop
  | base {r : Nat} : B r → Reach l B r
  | step {i j : Nat} {k : F} : (i, j, k) ∈ l → Reach l B i → Reach l B j
  | step' {i j : Nat} {k : F} : (i, j, k) ∈ l → Reach l B j → Reach l B i

/-- `r` is an end of a spring -/
def IsEnd {F : Type} (l : List (Nat × Nat × F)) (r : Nat) : Prop := ∃ s ∈ l, s.1 = r ∨ s.2.1 = r

section Field
variable {F : Type} [Field F] [LinearOrder F] [IsStrictOrderedRing F]

theorem list_sum_eq_zero_of_nonneg {xs : List F} (h0 : ∀ x ∈ xs, 0 ≤ x) (hs : xs.sum = 0) :
    ∀ x ∈ xs, x = 0 := by
  induction xs with
  | nil => intro x hx; cases hx
  | cons a xs ih =>
    have ha := h0 a (List.mem_cons_self ..)
    have hxs : 0 ≤ xs.sum := List.sum_nonneg (fun x hx => h0 x (List.mem_cons_of_mem _ hx))
    rw [List.sum_cons] at hs
    have ha0 : a = 0 := by linarith
    have hs0 : xs.sum = 0 := by linarith
    intro x hx
    rcases List.mem_cons.1 hx with rfl | hx
    · exact ha0
    · exact ih (fun x hx => h0 x (List.mem_cons_of_mem _ hx)) hs0 x hx

/-- zero strain energy: every spring has equal end displacements -/
theorem energy_zero_flat {l : List (Nat × Nat × F)} (hk : ∀ s ∈ l, 0 < s.2.2) {e : Nat → F}
    (h : (l.map (fun s => s.2.2 * (e s.1 - e s.2.1) ^ 2)).sum = 0) :
    ∀ s ∈ l, e s.1 = e s.2.1 := by
  intro s hs
  have hz := list_sum_eq_zero_of_nonneg (xs := l.map (fun s => s.2.2 * (e s.1 - e s.2.1) ^ 2))
    (by
      intro x hx
      obtain ⟨t, ht, rfl⟩ := List.mem_map.1 hx
      exact mul_nonneg (le_of_lt (hk t ht)) (sq_nonneg _))
    h _ (List.mem_map.2 ⟨s, hs, rfl⟩)
  have hpos := hk s hs
  have h2 : (e s.1 - e s.2.1) ^ 2 = 0 := by
    rcases mul_eq_zero.1 hz with h | h
    · exact absurd h (ne_of_gt hpos)
    · exact h
  have := pow_eq_zero_iff (two_ne_zero) |>.1 h2
  exact sub_eq_zero.1 this

/-- **uniqueness.** Two displacement fields that agree on the BC dofs and have the same assembled force on
every free row coincide on every dof joined to a BC dof by a chain of springs. -/
theorem equilibrium_unique_of_reach (l : List (Nat × Nat × F)) (hk : ∀ s ∈ l, 0 < s.2.2) (n : Nat)
    (hn : ∀ s ∈ l, s.1 < n ∧ s.2.1 < n) (B : Nat → Prop) (d d' : Nat → F)
    (hB : ∀ r, r < n → B r → d r = d' r)
    (hbal : ∀ r, r < n → ¬ B r → assembleF (linEdges l) d r = assembleF (linEdges l) d' r) :
    ∀ r, r < n → Reach l B r → d r = d' r := by
  classical
  have hE : (l.map (fun s => s.2.2 * ((d s.1 - d' s.1) - (d s.2.1 - d' s.2.1)) ^ 2)).sum = 0 := by
    rw [← energy_identity l (fun i => d i - d' i) n hn]
    apply Finset.sum_eq_zero
    intro r hr
    have hr := Finset.mem_range.1 hr
    by_cases hb : B r
    · simp only [hB r hr hb, sub_self, zero_mul]
    · rw [assembleF_sub, hbal r hr hb, sub_self, mul_zero]
  have hflat := energy_zero_flat hk (e := fun i => d i - d' i) hE
  intro r hr hreach
  have : r < n → d r - d' r = 0 := by
    clear hr
    induction hreach with
    | base hb => intro hr; rw [hB _ hr hb, sub_self]
    | @step i j k hs _ ih =>
      intro _
      have := hflat _ hs
      simp only at this
      rw [← this]; exact ih (hn _ hs).1
    | @step' i j k hs _ ih =>
      intro _
      have := hflat _ hs
      simp only at this
      rw [this]; exact ih (hn _ hs).2
  exact sub_eq_zero.1 (this hr)

end Field

/-! ## soundness of the quick-find connectivity test -/

/-- nodes joined by a chain of edges of `es` (equivalence closure of the edge relation) -/
inductive Conn (es : List Edge) : Nat → Nat → Prop
  | edge {e : Edge} : e ∈ es → Conn es e.i e.j
  | refl (a : Nat) : Conn es a a
  | symm {a b : Nat} : Conn es a b → Conn es b a
  | trans {a b c : Nat} : Conn es a b → Conn es b c → Conn es a c

/-- merging along edges of `all` only ever renames a node to a node it is connected to -/
theorem mergeAlong_sound (p : Edge → Bool) (all : List Edge) :
    ∀ (es : List Edge) (lab : Lab), (∀ e ∈ es, e ∈ all) → (∀ n, Conn all n (lab.get n)) →
      ∀ n, Conn all n ((mergeAlong p lab es).get n) := by
  intro es
  induction es with
  | nil => intro lab _ h; exact h
  | cons e es ih =>
    intro lab hsub h
    refine ih _ (fun x hx => hsub x (List.mem_cons_of_mem _ hx)) ?_
    cases hp : p e with
    | false => simpa using h
    | true =>
      simp only [if_true]
      have hab : Conn all (lab.get e.i) (lab.get e.j) :=
        ((h e.i).symm.trans (Conn.edge (hsub e (List.mem_cons_self ..)))).trans (h e.j)
      have hmm : Conn all (max (lab.get e.i) (lab.get e.j)) (min (lab.get e.i) (lab.get e.j)) := by
        rcases Nat.le_total (lab.get e.i) (lab.get e.j) with hle | hle
        · rw [Nat.max_eq_right hle, Nat.min_eq_left hle]; exact hab.symm
        · rw [Nat.max_eq_left hle, Nat.min_eq_right hle]; exact hab
      intro n
      show Conn all n (if lab.get n = max (lab.get e.i) (lab.get e.j)
        then min (lab.get e.i) (lab.get e.j) else lab.get n)
      by_cases hn : lab.get n = max (lab.get e.i) (lab.get e.j)
      · rw [if_pos hn]; exact (hn ▸ h n).trans hmm
      · rw [if_neg hn]; exact h n

theorem compLab_sound (es : List Edge) (n : Nat) : Conn es n ((compLab es).get n) :=
  mergeAlong_sound _ es es Lab.id (fun _ h => h) (fun n => Conn.refl n) n

/-- the connectivity test of `validate_solve` is sound: any two nodes are joined by a chain of edges -/
theorem connected_conn {c : Net} (h : connected c = true) :
    ∀ m ∈ c.nodes, ∀ m' ∈ c.nodes, Conn c.edges m m' := by
  unfold connected at h
  cases hn : c.nodes with
  | nil => rw [hn] at h; cases h
  | cons n0 ns =>
    rw [hn] at h
    simp only [List.all_eq_true, beq_iff_eq] at h
    have key : ∀ m ∈ n0 :: ns, Conn c.edges m ((compLab c.edges).get n0) := by
      intro m hm
      rcases List.mem_cons.1 hm with rfl | hm
      · exact compLab_sound _ _
      · rw [← h m hm]; exact compLab_sound _ _
    intro m hm m' hm'
    exact (key m hm).trans (key m' hm').symm

theorem validateSolve_ok_connected {c : Net} (h : validateSolve c = .ok ()) : connected c = true := by
  unfold validateSolve at h
  split_ifs at h with h1 h2 h3
  simpa using h3

/-! ## the springs of a network in dof numbering -/

/-- the edges of `c` as linear springs `(dof i, dof j, k)` under the numbering of `dof_maps` -/
def netSprings {F : Type} (c : Net) (k : Edge → F) : List (Nat × Nat × F) :=
  c.edges.map (fun e => (dmap c.nodes e.i, dmap c.nodes e.j, k e))

/-- the dofs that carry a displacement BC -/
def bcDof (c : Net) (q : Nat) : Prop := ∃ b ∈ c.bcs, dmap c.nodes b = q

theorem conn_reach {F : Type} (c : Net) (k : Edge → F) {a b : Nat} (h : Conn c.edges a b) :
    Reach (netSprings c k) (bcDof c) (dmap c.nodes a) ↔ Reach (netSprings c k) (bcDof c) (dmap c.nodes b) := by
  induction h with
  | @edge e he =>
    have hm : (dmap c.nodes e.i, dmap c.nodes e.j, k e) ∈ netSprings c k :=
      List.mem_map.2 ⟨e, he, rfl⟩
    exact ⟨Reach.step hm, Reach.step' hm⟩
  | refl a => exact Iff.rfl
  | symm _ ih => exact ih.symm
  | trans _ _ ih1 ih2 => exact ih1.trans ih2

/-- **bridge.** In a network that passes `validate_solve` and whose BC nodes are nodes, every node is
joined to a BC dof by a chain of springs. -/
theorem reach_of_valid {F : Type} {c : Net} (k : Edge → F) (hv : validateSolve c = .ok ())
    (hb : ∀ b ∈ c.bcs, b ∈ c.nodes) :
    ∀ m ∈ c.nodes, Reach (netSprings c k) (bcDof c) (dmap c.nodes m) := by
  obtain ⟨b, hbc⟩ := validateSolve_ok_bcs hv
  have hconn := connected_conn (validateSolve_ok_connected hv)
  intro m hm
  exact (conn_reach c k (hconn m hm b (hb b hbc))).2 (Reach.base ⟨b, hbc, rfl⟩)

theorem dmap_lt {nodes : List Nat} {m : Nat} (h : m ∈ nodes) : dmap nodes m < nodes.length :=
  List.idxOf_lt_length_of_mem h

theorem dmap_getElem {nodes : List Nat} (hnd : nodes.Nodup) (q : Nat) (hq : q < nodes.length) :
    dmap nodes nodes[q] = q := hnd.idxOf_getElem q hq

section NetUnique
variable {F : Type} [Field F] [LinearOrder F] [IsStrictOrderedRing F]

/-- **uniqueness for a solvable network.** `c` passes `validate_solve`, its node list has no
repetition and contains the ends of every edge and every BC node; every edge is a linear spring of
positive stiffness.  Two displacement fields (indexed by dof) that take the prescribed values `ubc` at
the BC nodes and balance the external force `f` at every free node coincide on every node. -/
theorem net_equilibrium_unique {c : Net} (hv : validateSolve c = .ok ()) (hnd : c.nodes.Nodup)
    (hends : ∀ e ∈ c.edges, e.i ∈ c.nodes ∧ e.j ∈ c.nodes) (hb : ∀ b ∈ c.bcs, b ∈ c.nodes)
    (k : Edge → F) (hk : ∀ e ∈ c.edges, 0 < k e) (ubc f : Nat → F) (d d' : Nat → F)
    (hd : ∀ b ∈ c.bcs, d (dmap c.nodes b) = ubc b) (hd' : ∀ b ∈ c.bcs, d' (dmap c.nodes b) = ubc b)
    (hf : ∀ m ∈ c.nodes, m ∉ c.bcs → assembleF (linEdges (netSprings c k)) d (dmap c.nodes m) = f m)
    (hf' : ∀ m ∈ c.nodes, m ∉ c.bcs → assembleF (linEdges (netSprings c k)) d' (dmap c.nodes m) = f m) :
    ∀ m ∈ c.nodes, d (dmap c.nodes m) = d' (dmap c.nodes m) := by
  intro m hm
  refine equilibrium_unique_of_reach (netSprings c k) ?_ c.nodes.length ?_ (bcDof c) d d' ?_ ?_
    _ (dmap_lt hm) (reach_of_valid k hv hb m hm)
  · intro s hs
    obtain ⟨e, he, rfl⟩ := List.mem_map.1 hs
    exact hk e he
  · intro s hs
    obtain ⟨e, he, rfl⟩ := List.mem_map.1 hs
    exact ⟨dmap_lt (hends e he).1, dmap_lt (hends e he).2⟩
  · rintro q _ ⟨b, hbc, rfl⟩
    rw [hd b hbc, hd' b hbc]
  · intro q hq hnb
    have hq' := dmap_getElem hnd q hq
    have hmem : c.nodes[q] ∈ c.nodes := List.getElem_mem hq
    have hfree : c.nodes[q] ∉ c.bcs := fun hbc => hnb ⟨_, hbc, hq'⟩
    have h1 := hf _ hmem hfree
    have h2 := hf' _ hmem hfree
    rw [hq'] at h1 h2
    rw [h1, h2]

end NetUnique

/-! ## the components of the receiver network are well formed -/

namespace TreeNet
variable {net : Net} {N : Nat}

theorem comp_nodes_nodup (h : TreeNet net N) (r : Nat) : (comp net r).nodes.Nodup := by
  unfold comp component contractBy
  exact (h.nodes_nodup.sublist List.filter_sublist).sublist List.filter_sublist

theorem comp_ends (h : TreeNet net N) {r : Nat} {e : Edge} (he : e ∈ (comp net r).edges) :
    e.i ∈ (comp net r).nodes ∧ e.j ∈ (comp net r).nodes := by
  obtain ⟨hs, hc⟩ := mem_comp_edges.1 he
  have hcj := h.clab_edge hs
  obtain ⟨e0, he0, hr0, _, rfl⟩ := mem_springEdges.1 hs
  have hj : (rlab net).get e0.j = e0.j := h.rlab_fix he0 hr0
  have hlt := h.lt e0 he0
  have hij := (h.ord.lt e0 he0).1
  have hle := h.rlab_le e0.i
  refine ⟨mem_comp_nodes.2 ⟨?_, h.rlab_idem _, hc⟩, mem_comp_nodes.2 ⟨?_, ?_, ?_⟩⟩
  · rw [h.nodes, List.mem_range]; show (rlab net).get e0.i < N; omega
  · rw [h.nodes, List.mem_range]; show (rlab net).get e0.j < N; rw [hj]; exact hlt
  · show (rlab net).get ((rlab net).get e0.j) = (rlab net).get e0.j
    rw [hj, hj]
  · rw [hcj]; exact hc

theorem comp_bcs_nodes (h : TreeNet net N) {r b : Nat} (hb : b ∈ (comp net r).bcs) :
    b ∈ (comp net r).nodes := by
  obtain ⟨hbn, hc⟩ := mem_comp_bcs.1 hb
  obtain ⟨e, he, rfl, ht⟩ := h.bc_tube b hbn
  refine mem_comp_nodes.2 ⟨?_, h.rlab_fix he (isTube_not_rigid ht), hc⟩
  rw [h.nodes, List.mem_range]; exact h.lt e he

end TreeNet

end SrModel.Spring
