import SrModel.PW
import Mathlib.Tactic.Ring
import Mathlib.Tactic.Linarith
import Mathlib.Tactic.FieldSimp
import Mathlib.Tactic.Positivity
import Mathlib.Tactic.NormNum
import Mathlib.Data.Real.Basic
import Mathlib.Data.List.Nodup
import Mathlib.Algebra.Order.Field.Basic
import Mathlib.Analysis.Calculus.Deriv.Mul
import Mathlib.Analysis.Calculus.Deriv.MeanValue
import Mathlib.Analysis.SpecialFunctions.Log.Base
import Mathlib.Analysis.SpecialFunctions.Pow.Real

/-!
# Helper lemmas for C20 (soundness of the certificate checkers of `SrModel/PW.lean`)

* piecewise-linear tables: `pw_between`, `pw_above`, `pw_at_knot'`, `pwIn_on_segment` (any ordered field);
* polynomials with rational coefficients evaluated over ℝ (`evalQ`), formal derivative = derivative
  (`hasDerivAt_evalQ`), the code's term-by-term sum equals the dense polynomial (`evalTerms_eq`);
* Bernstein sign certificate: `bernSign_sound` (induction on the bisection depth); the scaled
  Bernstein coefficients are obtained by homogenising `p(b·t + a·s)` with `t + s = 1`
  (`evalH_homog`), so no binomial identities are needed;
* lifting through `log₁₀` and `10^·`: `rupture_stress_of_ok`, `rupture_temp_of_ok`,
  `curve_antitone_of_ok`, `cyclesToFail_antitone_of_ok`;
* rational tables cast to ℝ: `table_above_of_ok`, `table_at_knot_of_ok`, `table_segment_of_ok`;
  envelope: `envelope_of_ok`;
* XML: `load_save`, `getPath_mirror`, `findName_save`, `splitSp_joinSp`, `destring_string`.
-/
set_option linter.unusedSectionVars false
namespace SrModel.PW
section pwlemmas
variable {K : Type} [Field K] [LinearOrder K] [IsStrictOrderedRing K]

/-- strictly increasing abscissae -/
def SortedX : List (K × K) → Prop
  | [] => True
  | [_] => True
  | p :: q :: r => p.1 < q.1 ∧ SortedX (q :: r)

theorem pwSeg_left (x0 y0 x1 y1 : K) : pwSeg x0 y0 x1 y1 x0 = y0 := by
  simp [pwSeg]

theorem pwSeg_right (x0 y0 x1 y1 : K) (h : x0 < x1) : pwSeg x0 y0 x1 y1 x1 = y1 := by
  have : x1 - x0 ≠ 0 := by linarith [sub_pos.mpr h] |> fun h => ne_of_gt h
  simp only [pwSeg, slope]
  field_simp
  ring

/-- on a segment the interpolant is the convex combination of the end values -/
theorem pwSeg_convex (x0 y0 x1 y1 x : K) (h : x0 < x1) :
    pwSeg x0 y0 x1 y1 x = (1 - (x - x0) / (x1 - x0)) * y0 + (x - x0) / (x1 - x0) * y1 := by
  have : x1 - x0 ≠ 0 := ne_of_gt (sub_pos.mpr h)
  simp only [pwSeg, slope]
  field_simp
  ring

theorem pwSeg_between (x0 y0 x1 y1 x lo hi : K) (h : x0 < x1) (h0 : x0 ≤ x) (h1 : x ≤ x1)
    (l0 : lo ≤ y0) (l1 : lo ≤ y1) (u0 : y0 ≤ hi) (u1 : y1 ≤ hi) :
    lo ≤ pwSeg x0 y0 x1 y1 x ∧ pwSeg x0 y0 x1 y1 x ≤ hi := by
  have hd : 0 < x1 - x0 := sub_pos.mpr h
  have t0 : 0 ≤ (x - x0) / (x1 - x0) := div_nonneg (sub_nonneg.mpr h0) hd.le
  have t1 : (x - x0) / (x1 - x0) ≤ 1 := by
    rw [div_le_one hd]; linarith
  rw [pwSeg_convex _ _ _ _ _ h]
  set t := (x - x0) / (x1 - x0)
  constructor <;> nlinarith [mul_nonneg t0 (sub_nonneg.mpr l1), mul_nonneg (sub_nonneg.mpr t1) (sub_nonneg.mpr l0),
    mul_nonneg t0 (sub_nonneg.mpr u1), mul_nonneg (sub_nonneg.mpr t1) (sub_nonneg.mpr u0)]

theorem pwSeg_above (x0 y0 x1 y1 x lo : K) (h : x0 < x1) (h0 : x0 ≤ x) (h1 : x ≤ x1)
    (l0 : lo < y0) (l1 : lo < y1) : lo < pwSeg x0 y0 x1 y1 x := by
  have hm : lo < min y0 y1 := lt_min l0 l1
  have := (pwSeg_between x0 y0 x1 y1 x (min y0 y1) (max y0 y1) h h0 h1 (min_le_left _ _) (min_le_right _ _)
    (le_max_left _ _) (le_max_right _ _)).1
  exact lt_of_lt_of_le hm this

theorem lastX_cons2 (p q : K × K) (r : List (K × K)) : lastX (p :: q :: r) = lastX (q :: r) := rfl

theorem pwIn_between (lo hi : K) : ∀ (tab : List (K × K)) (x : K), SortedX tab → 2 ≤ tab.length →
    (∀ p ∈ tab, lo ≤ p.2 ∧ p.2 ≤ hi) → firstX tab ≤ x → x ≤ lastX tab →
    lo ≤ pwIn tab x ∧ pwIn tab x ≤ hi
  | [], _, _, h, _, _, _ => by simp at h
  | [_], _, _, h, _, _, _ => by simp at h
  | [(x0, y0), (x1, y1)], x, hs, _, hy, h0, h1 => by
      have a := hy (x0, y0) (by simp)
      have b := hy (x1, y1) (by simp)
      exact pwSeg_between x0 y0 x1 y1 x lo hi hs.1 h0 h1 a.1 b.1 a.2 b.2
  | (x0, y0) :: (x1, y1) :: p2 :: rest, x, hs, _, hy, h0, h1 => by
      have a := hy (x0, y0) (by simp)
      have b := hy (x1, y1) (by simp)
      simp only [pwIn]
      split_ifs with hlt
      · exact pwSeg_between x0 y0 x1 y1 x lo hi hs.1 h0 hlt.le a.1 b.1 a.2 b.2
      · exact pwIn_between lo hi ((x1, y1) :: p2 :: rest) x hs.2 (by simp)
          (fun p hp => hy p (List.mem_cons_of_mem _ hp)) (not_lt.mp hlt) h1

theorem pwIn_above (lo : K) : ∀ (tab : List (K × K)) (x : K), SortedX tab → 2 ≤ tab.length →
    (∀ p ∈ tab, lo < p.2) → firstX tab ≤ x → x ≤ lastX tab → lo < pwIn tab x
  | [], _, _, h, _, _, _ => by simp at h
  | [_], _, _, h, _, _, _ => by simp at h
  | [(x0, y0), (x1, y1)], x, hs, _, hy, h0, h1 =>
      pwSeg_above x0 y0 x1 y1 x lo hs.1 h0 h1 (hy (x0, y0) (by simp)) (hy (x1, y1) (by simp))
  | (x0, y0) :: (x1, y1) :: p2 :: rest, x, hs, _, hy, h0, h1 => by
      simp only [pwIn]
      split_ifs with hlt
      · exact pwSeg_above x0 y0 x1 y1 x lo hs.1 h0 hlt.le (hy (x0, y0) (by simp)) (hy (x1, y1) (by simp))
      · exact pwIn_above lo ((x1, y1) :: p2 :: rest) x hs.2 (by simp)
          (fun p hp => hy p (List.mem_cons_of_mem _ hp)) (not_lt.mp hlt) h1

/-- inside the table `pw` is `pwIn` (and the call does not raise) -/
theorem pw_inside (tab : List (K × K)) (x : K) (h0 : firstX tab ≤ x) (h1 : x ≤ lastX tab) :
    pw tab x = some (pwIn tab x) := by
  simp [pw, not_lt.mpr h0, not_lt.mpr h1]

theorem pwDeriv_inside (tab : List (K × K)) (x : K) (h0 : firstX tab ≤ x) (h1 : x ≤ lastX tab) :
    pwDeriv tab x = some (pwDerivIn tab x) := by
  simp [pwDeriv, not_lt.mpr h0, not_lt.mpr h1]

/-- **pw_between**: inside a sorted table the interpolant is defined and stays between the bounds of
the knot values -/
theorem pw_between (lo hi : K) (tab : List (K × K)) (x : K) (hs : SortedX tab) (hl : 2 ≤ tab.length)
    (hy : ∀ p ∈ tab, lo ≤ p.2 ∧ p.2 ≤ hi) (h0 : firstX tab ≤ x) (h1 : x ≤ lastX tab) :
    ∃ y, pw tab x = some y ∧ lo ≤ y ∧ y ≤ hi :=
  ⟨_, pw_inside tab x h0 h1, pwIn_between lo hi tab x hs hl hy h0 h1⟩

theorem pw_above (lo : K) (tab : List (K × K)) (x : K) (hs : SortedX tab) (hl : 2 ≤ tab.length)
    (hy : ∀ p ∈ tab, lo < p.2) (h0 : firstX tab ≤ x) (h1 : x ≤ lastX tab) :
    ∃ y, pw tab x = some y ∧ lo < y :=
  ⟨_, pw_inside tab x h0 h1, pwIn_above lo tab x hs hl hy h0 h1⟩

theorem SortedX.tail {p : K × K} {t : List (K × K)} (h : SortedX (p :: t)) : SortedX t := by
  cases t with
  | nil => trivial
  | cons q r => exact h.2

theorem sorted_first_le : ∀ (tab : List (K × K)), SortedX tab → ∀ p ∈ tab, firstX tab ≤ p.1
  | [], _, p, hp => by simp at hp
  | [q], _, p, hp => by simp at hp; simp [firstX, hp]
  | q :: r :: s, hs, p, hp => by
      rcases List.mem_cons.mp hp with rfl | hp
      · simp [firstX]
      · have := sorted_first_le (r :: s) hs.2 p hp
        simp only [firstX] at this ⊢
        exact le_trans hs.1.le this

theorem sorted_le_last : ∀ (tab : List (K × K)), SortedX tab → ∀ p ∈ tab, p.1 ≤ lastX tab
  | [], _, p, hp => by simp at hp
  | [q], _, p, hp => by simp at hp; simp [lastX, hp]
  | q :: r :: s, hs, p, hp => by
      rcases List.mem_cons.mp hp with rfl | hp
      · have h1 := sorted_first_le (r :: s) hs.2
        have h2 := sorted_le_last (r :: s) hs.2 r (by simp)
        show p.1 ≤ lastX (r :: s)
        exact le_trans hs.1.le h2
      · exact sorted_le_last (r :: s) hs.2 p hp

/-- skipping a leading knot that lies at or left of the next one when `x` is not left of that -/
theorem pwIn_skip (q : K × K) (t : List (K × K)) (x : K) (hl : 2 ≤ t.length) (hx : ¬ x < firstX t) :
    pwIn (q :: t) x = pwIn t x ∧ pwDerivIn (q :: t) x = pwDerivIn t x := by
  match t, hl with
  | a :: b :: r, _ =>
    obtain ⟨q1, q2⟩ := q; obtain ⟨a1, a2⟩ := a
    simp only [firstX] at hx
    simp [pwIn, pwDerivIn, hx]

theorem pwIn_at_knot : ∀ (tab : List (K × K)), SortedX tab → 2 ≤ tab.length →
    ∀ p ∈ tab, pwIn tab p.1 = p.2
  | [], _, h, _, _ => by simp at h
  | [_], _, h, _, _ => by simp at h
  | [(x0, y0), (x1, y1)], hs, _, p, hp => by
      simp only [List.mem_cons, List.not_mem_nil, or_false] at hp
      rcases hp with rfl | rfl
      · exact pwSeg_left _ _ _ _
      · exact pwSeg_right _ _ _ _ hs.1
  | (x0, y0) :: (x1, y1) :: p2 :: rest, hs, _, p, hp => by
      rcases List.mem_cons.mp hp with rfl | hp
      · simp only [pwIn, hs.1, if_true]; exact pwSeg_left _ _ _ _
      · have h1 : ¬ p.1 < x1 := not_lt.mpr (sorted_first_le ((x1, y1) :: p2 :: rest) hs.2 p hp)
        simp only [pwIn, h1, if_false]
        exact pwIn_at_knot ((x1, y1) :: p2 :: rest) hs.2 (by simp) p hp

/-- **pw_at_knot**: a tabulated model returns its table value at every table point -/
theorem pw_at_knot' (tab : List (K × K)) (hs : SortedX tab) (hl : 2 ≤ tab.length) (p : K × K)
    (hp : p ∈ tab) : pw tab p.1 = some p.2 := by
  have h0 := sorted_first_le tab hs p hp
  have h1 := sorted_le_last tab hs p hp
  rw [pw_inside tab _ h0 h1, pwIn_at_knot tab hs hl p hp]

theorem SortedX.of_append : ∀ (pre t : List (K × K)), SortedX (pre ++ t) → SortedX t
  | [], _, h => h
  | _ :: pre, t, h => SortedX.of_append pre t (SortedX.tail h)

/-- on the segment between two adjacent knots the interpolant is the chord and the reported
derivative is the chord's slope (also at the last knot when the segment is the last one) -/
theorem pwIn_on_segment (x0 y0 x1 y1 : K) (post : List (K × K)) :
    ∀ (pre : List (K × K)) (x : K), SortedX (pre ++ (x0, y0) :: (x1, y1) :: post) → x0 ≤ x →
      (x < x1 ∨ post = []) →
      pwIn (pre ++ (x0, y0) :: (x1, y1) :: post) x = pwSeg x0 y0 x1 y1 x ∧
      pwDerivIn (pre ++ (x0, y0) :: (x1, y1) :: post) x = slope x0 y0 x1 y1
  | [], x, _, _, h1 => by
      cases post with
      | nil => simp [pwIn, pwDerivIn]
      | cons p2 r =>
        have : x < x1 := by rcases h1 with h | h; exact h; simp at h
        simp [pwIn, pwDerivIn, this]
  | q :: pre, x, hs, h0, h1 => by
      have hs' : SortedX (pre ++ (x0, y0) :: (x1, y1) :: post) := SortedX.tail hs
      have hf : firstX (pre ++ (x0, y0) :: (x1, y1) :: post) ≤ x0 :=
        sorted_first_le _ hs' (x0, y0) (by simp)
      have hsk := pwIn_skip q (pre ++ (x0, y0) :: (x1, y1) :: post) x (by simp; omega)
        (not_lt.mpr (le_trans hf h0))
      have ih := pwIn_on_segment x0 y0 x1 y1 post pre x hs' h0 h1
      simp only [List.cons_append]
      rw [hsk.1, hsk.2]; exact ih

end pwlemmas

/-- the embedding of the exact data into the reals -/
abbrev cR : ℚ → ℝ := fun q => (q : ℝ)

/-- evaluation over ℝ of a rational coefficient list (lowest power first) -/
def evalQ : Poly → ℝ → ℝ
  | [], _ => 0
  | c :: cs, x => (c : ℝ) + x * evalQ cs x

theorem npow_eq (x : ℝ) (n : ℕ) : npow x n = x ^ n := by
  induction n with
  | zero => simp [npow]
  | succ n ih => simp [npow, ih, pow_succ]

theorem evalQ_addTerm (n : ℕ) (a : ℚ) (p : Poly) (x : ℝ) :
    evalQ (addTerm n a p) x = evalQ p x + (a : ℝ) * x ^ n := by
  induction n generalizing p with
  | zero => cases p with
    | nil => simp [addTerm, evalQ]
    | cons c cs => simp [addTerm, evalQ]; ring
  | succ n ih => cases p <;> simp [addTerm, evalQ, ih, pow_succ] <;> ring

theorem evalTermsFrom_eq (ts : List (ℚ × ℕ)) (acc x : ℝ) :
    evalTermsFrom cR x acc ts = acc + evalQ (dense ts) x := by
  induction ts generalizing acc with
  | nil => simp [evalTermsFrom, dense, evalQ]
  | cons t ts ih =>
    obtain ⟨a, n⟩ := t
    simp only [evalTermsFrom, dense, ih, evalQ_addTerm, npow_eq]
    ring

/-- the correlation polynomial as the code sums it equals the dense polynomial -/
theorem evalTerms_eq (ts : List (ℚ × ℕ)) (x : ℝ) : evalTerms cR ts x = evalQ (dense ts) x := by
  simp [evalTerms, evalTermsFrom_eq]

theorem evalQ_derivAux_succ (k : ℕ) (p : Poly) (x : ℝ) :
    evalQ (derivAux (k + 1) p) x = evalQ (derivAux k p) x + evalQ p x := by
  induction p generalizing k with
  | nil => simp [derivAux, evalQ]
  | cons c cs ih =>
    simp only [derivAux, evalQ, ih]
    push_cast
    ring

theorem evalQ_deriv_cons (cs : Poly) (x : ℝ) :
    evalQ (derivAux 1 cs) x = evalQ cs x + x * evalQ (derivAux 1 cs.tail) x := by
  cases cs with
  | nil => simp [derivAux, evalQ]
  | cons d ds =>
    simp only [derivAux, evalQ, List.tail_cons]
    rw [show (1 + 1 : ℕ) = 1 + 1 from rfl, evalQ_derivAux_succ]
    push_cast
    ring

theorem hasDerivAt_evalQ (p : Poly) (x : ℝ) : HasDerivAt (evalQ p) (evalQ (deriv p) x) x := by
  induction p generalizing x with
  | nil =>
    have : evalQ [] = fun _ => (0 : ℝ) := by funext y; simp [evalQ]
    rw [this]; simpa [deriv, derivAux, evalQ] using hasDerivAt_const x (0 : ℝ)
  | cons c cs ih =>
    have hf : evalQ (c :: cs) = fun y => (c : ℝ) + y * evalQ cs y := by funext y; simp [evalQ]
    rw [hf]
    have h := ((hasDerivAt_id x).mul (ih x)).const_add (c : ℝ)
    have e : evalQ (deriv (c :: cs)) x = 1 * evalQ cs x + id x * evalQ (deriv cs) x := by
      simp only [deriv, List.tail_cons, id, one_mul]
      exact evalQ_deriv_cons cs x
    rw [e]; exact h

theorem evalQ_negP (p : Poly) (x : ℝ) : evalQ (negP p) x = - evalQ p x := by
  induction p with
  | nil => simp [negP, evalQ]
  | cons c cs ih =>
    simp only [negP, List.map_cons, evalQ] at ih ⊢
    rw [ih]; push_cast; ring

theorem continuous_evalQ (p : Poly) : Continuous (evalQ p) :=
  continuous_iff_continuousAt.mpr (fun x => (hasDerivAt_evalQ p x).continuousAt)

/-! ### Bernstein sign certificate -/

/-- `Σ hᵢ tⁱ s^(n-i)` -/
def evalH : Poly → ℝ → ℝ → ℝ
  | [], _, _ => 0
  | h :: hs, t, s => (h : ℝ) * s ^ hs.length + t * evalH hs t s

theorem evalH_snoc0 (l : Poly) (t s : ℝ) : evalH (l ++ [0]) t s = s * evalH l t s := by
  induction l with
  | nil => simp [evalH]
  | cons h hs ih => simp only [List.cons_append, evalH, ih, List.length_append, List.length_singleton, pow_succ]; ring

theorem evalH_cons0 (l : Poly) (t s : ℝ) : evalH (0 :: l) t s = t * evalH l t s := by
  simp [evalH]

theorem length_addL (p q : Poly) : (addL p q).length = min p.length q.length := by
  induction p generalizing q with
  | nil => simp [addL]
  | cons a as ih => cases q with
    | nil => simp [addL]
    | cons b bs => simp [addL, ih]

theorem evalH_addL (p q : Poly) (t s : ℝ) (h : p.length = q.length) :
    evalH (addL p q) t s = evalH p t s + evalH q t s := by
  induction p generalizing q with
  | nil => cases q <;> simp [addL, evalH] at h ⊢
  | cons a as ih => cases q with
    | nil => simp at h
    | cons b bs =>
      have hl : as.length = bs.length := by simpa using h
      simp only [addL, evalH, ih bs hl, length_addL, hl, min_self]
      push_cast; ring

theorem length_scaleL (c : ℚ) (p : Poly) : (scaleL c p).length = p.length := by simp [scaleL]

theorem evalH_scaleL (c : ℚ) (p : Poly) (t s : ℝ) : evalH (scaleL c p) t s = (c : ℝ) * evalH p t s := by
  induction p with
  | nil => simp [scaleL, evalH]
  | cons a as ih =>
    simp only [scaleL, List.map_cons, evalH, List.length_map] at ih ⊢
    rw [ih]; push_cast; ring

theorem length_mulLin (b a : ℚ) (l : Poly) : (mulLin b a l).length = l.length + 1 := by
  simp [mulLin, length_addL, length_scaleL]

theorem evalH_mulLin (b a : ℚ) (l : Poly) (t s : ℝ) :
    evalH (mulLin b a l) t s = ((b : ℝ) * t + (a : ℝ) * s) * evalH l t s := by
  unfold mulLin
  rw [evalH_addL _ _ _ _ (by simp [length_scaleL]), evalH_scaleL, evalH_scaleL, evalH_cons0, evalH_snoc0]
  ring

theorem length_binomRow (n : ℕ) : (binomRow n).length = n + 1 := by
  induction n with
  | zero => simp [binomRow]
  | succ n ih => simp [binomRow, length_mulLin, ih]

theorem evalH_binomRow (n : ℕ) (t s : ℝ) (h : t + s = 1) : evalH (binomRow n) t s = 1 := by
  induction n with
  | zero => simp [binomRow, evalH]
  | succ n ih => simp only [binomRow, evalH_mulLin, ih]; push_cast; linarith

theorem length_homog (a b : ℚ) (p : Poly) : (homog a b p).length = p.length := by
  induction p with
  | nil => simp [homog]
  | cons c cs ih => simp [homog, length_addL, length_scaleL, length_binomRow, length_mulLin, ih]

/-- the homogenised coefficients represent `p` at `x = b·t + a·s` when `t + s = 1` -/
theorem evalH_homog (a b : ℚ) (p : Poly) (t s : ℝ) (h : t + s = 1) :
    evalH (homog a b p) t s = evalQ p ((b : ℝ) * t + (a : ℝ) * s) := by
  induction p with
  | nil => simp [homog, evalH, evalQ]
  | cons c cs ih =>
    simp only [homog, evalQ]
    rw [evalH_addL _ _ _ _ (by simp [length_scaleL, length_binomRow, length_mulLin, length_homog]),
      evalH_scaleL, evalH_binomRow _ _ _ h, evalH_mulLin, ih]
    ring

theorem evalH_nonpos (l : Poly) (t s : ℝ) (ht : 0 ≤ t) (hs : 0 ≤ s) (h : allNonpos l = true) :
    evalH l t s ≤ 0 := by
  induction l with
  | nil => simp [evalH]
  | cons a as ih =>
    simp only [allNonpos, List.all_cons, Bool.and_eq_true, decide_eq_true_eq] at h
    have h1 : ((a : ℚ) : ℝ) ≤ 0 := by exact_mod_cast h.1
    have h2 := ih (by simpa [allNonpos] using h.2)
    simp only [evalH]
    have : (a : ℝ) * s ^ as.length ≤ 0 := mul_nonpos_of_nonpos_of_nonneg h1 (pow_nonneg hs _)
    have : t * evalH as t s ≤ 0 := mul_nonpos_of_nonneg_of_nonpos ht h2
    linarith

theorem evalH_neg (l : Poly) (t s : ℝ) (ht : 0 ≤ t) (hs : 0 ≤ s) (hts : t + s = 1)
    (h : allNeg l = true) : evalH l t s < 0 := by
  induction l with
  | nil => simp [allNeg] at h
  | cons a as ih =>
    simp only [allNeg, List.isEmpty_cons, Bool.not_false, Bool.true_and, List.all_cons,
      Bool.and_eq_true, decide_eq_true_eq] at h
    have h1 : ((a : ℚ) : ℝ) < 0 := by exact_mod_cast h.1
    simp only [evalH]
    cases as with
    | nil => simpa [evalH] using h1
    | cons b bs =>
      have h2 : evalH (b :: bs) t s < 0 := ih (by simpa [allNeg] using h.2)
      have e1 : (a : ℝ) * s ^ (b :: bs).length ≤ 0 := mul_nonpos_of_nonpos_of_nonneg h1.le (pow_nonneg hs _)
      have e2 : t * evalH (b :: bs) t s ≤ 0 := mul_nonpos_of_nonneg_of_nonpos ht h2.le
      rcases eq_or_lt_of_le ht with ht0 | htpos
      · have hs1 : s = 1 := by linarith
        rw [← ht0, hs1]; simpa using h1
      · have : t * evalH (b :: bs) t s < 0 := mul_neg_of_pos_of_neg htpos h2
        linarith

/-- parameter of `x` in `[a,b]` -/
theorem param_exists (a b : ℚ) (x : ℝ) (ha : (a : ℝ) ≤ x) (hb : x ≤ (b : ℝ)) :
    ∃ t s : ℝ, 0 ≤ t ∧ 0 ≤ s ∧ t + s = 1 ∧ (b : ℝ) * t + (a : ℝ) * s = x := by
  rcases eq_or_lt_of_le (le_trans ha hb) with hab | hab
  · refine ⟨0, 1, le_refl _, zero_le_one, by ring, ?_⟩
    have : x = (a : ℝ) := le_antisymm (by rw [hab]; exact hb) ha
    rw [this]; ring
  · have hd : (0 : ℝ) < b - a := sub_pos.mpr hab
    refine ⟨(x - a) / (b - a), (b - x) / (b - a), div_nonneg (sub_nonneg.mpr ha) hd.le,
      div_nonneg (sub_nonneg.mpr hb) hd.le, ?_, ?_⟩
    · field_simp; ring
    · field_simp; ring

theorem base_sign_sound (strict : Bool) (p : Poly) (a b : ℚ) (x : ℝ)
    (h : (if strict then allNeg (homog a b p) else allNonpos (homog a b p)) = true)
    (ha : (a : ℝ) ≤ x) (hb : x ≤ (b : ℝ)) :
    if strict then evalQ p x < 0 else evalQ p x ≤ 0 := by
  obtain ⟨t, s, ht, hs, hts, hx⟩ := param_exists a b x ha hb
  have e := evalH_homog a b p t s hts
  rw [hx] at e
  cases strict with
  | true => simp only [if_true] at h ⊢; rw [← e]; exact evalH_neg _ t s ht hs hts h
  | false =>
    simp only [Bool.false_eq_true, if_false] at h ⊢
    rw [← e]; exact evalH_nonpos _ t s ht hs h

/-- **soundness of the Bernstein certificate** (induction on the bisection depth) -/
theorem bernSign_sound (strict : Bool) : ∀ (d : ℕ) (p : Poly) (a b : ℚ), bernSign strict d p a b = true →
    ∀ x : ℝ, (a : ℝ) ≤ x → x ≤ (b : ℝ) → if strict then evalQ p x < 0 else evalQ p x ≤ 0
  | 0, p, a, b, h, x, ha, hb => base_sign_sound strict p a b x (by simpa [bernSign] using h) ha hb
  | d + 1, p, a, b, h, x, ha, hb => by
    simp only [bernSign, Bool.or_eq_true, Bool.and_eq_true] at h
    rcases h with h | ⟨h1, h2⟩
    · exact base_sign_sound strict p a b x h ha hb
    · rcases le_total x (((a + b) / 2 : ℚ) : ℝ) with hm | hm
      · exact bernSign_sound strict d p a _ h1 x ha hm
      · exact bernSign_sound strict d p _ b h2 x hm hb

theorem bernNeg_sound (d : ℕ) (p : Poly) (a b : ℚ) (h : bernSign true d p a b = true) (x : ℝ)
    (ha : (a : ℝ) ≤ x) (hb : x ≤ (b : ℝ)) : evalQ p x < 0 := by
  simpa using bernSign_sound true d p a b h x ha hb

theorem bernNonpos_sound (d : ℕ) (p : Poly) (a b : ℚ) (h : bernSign false d p a b = true) (x : ℝ)
    (ha : (a : ℝ) ≤ x) (hb : x ≤ (b : ℝ)) : evalQ p x ≤ 0 := by
  simpa using bernSign_sound false d p a b h x ha hb


/-! ### lifting to the correlations over ℝ -/
open Real

noncomputable instance : Log10Pow ℝ := ⟨Real.logb 10, fun x => (10 : ℝ) ^ x⟩

theorem evalQ_strictAntiOn (p : Poly) (a b : ℝ)
    (h : ∀ x, a ≤ x → x ≤ b → evalQ (deriv p) x < 0) : StrictAntiOn (evalQ p) (Set.Icc a b) := by
  apply strictAntiOn_of_deriv_neg (convex_Icc a b) (continuous_evalQ p).continuousOn
  intro x hx
  rw [interior_Icc] at hx
  rw [(hasDerivAt_evalQ p x).deriv]
  exact h x hx.1.le hx.2.le

theorem evalQ_antitoneOn (p : Poly) (a b : ℝ)
    (h : ∀ x, a ≤ x → x ≤ b → evalQ (deriv p) x ≤ 0) : AntitoneOn (evalQ p) (Set.Icc a b) := by
  apply antitoneOn_of_deriv_nonpos (convex_Icc a b) (continuous_evalQ p).continuousOn
  · exact fun x _ => (hasDerivAt_evalQ p x).differentiableAt.differentiableWithinAt
  · intro x hx
    rw [interior_Icc] at hx
    rw [(hasDerivAt_evalQ p x).deriv]
    exact h x hx.1.le hx.2.le

theorem timeToRupture_eq (r : Rupture) (T σ : ℝ) :
    timeToRupture cR r T σ = (10 : ℝ) ^ (evalQ (dense r.terms) (Real.logb 10 σ) / T - (r.C : ℝ)) := by
  simp [timeToRupture, evalTerms_eq, Log10Pow.pow10, Log10Pow.log10]

theorem logb_1000 : Real.logb 10 1000 = 3 := by
  have : (1000 : ℝ) = (10 : ℝ) ^ (3 : ℝ) := by
    rw [show (3 : ℝ) = ((3 : ℕ) : ℝ) by norm_num, Real.rpow_natCast]; norm_num
  rw [this, Real.logb_rpow (by norm_num) (by norm_num)]

theorem logb_range (σ : ℝ) (h1 : 1 ≤ σ) (h2 : σ ≤ 1000) :
    ((xLo : ℚ) : ℝ) ≤ Real.logb 10 σ ∧ Real.logb 10 σ ≤ ((xHi : ℚ) : ℝ) := by
  have hpos : 0 < σ := lt_of_lt_of_le one_pos h1
  constructor
  · simpa [xLo] using Real.logb_nonneg (by norm_num : (1 : ℝ) < 10) h1
  · have := (Real.logb_le_logb (by norm_num : (1 : ℝ) < 10) hpos (by norm_num : (0 : ℝ) < 1000)).mpr h2
    rw [logb_1000] at this
    simpa [xHi] using this

/-- rupture time strictly decreases with stress on `[1, 1000]` MPa at every temperature `T > 0` -/
theorem rupture_stress_of_ok (r : Rupture) (h : ruptureOk r = true) (T σ₁ σ₂ : ℝ) (hT : 0 < T)
    (h1 : 1 ≤ σ₁) (h12 : σ₁ < σ₂) (h2 : σ₂ ≤ 1000) :
    timeToRupture cR r T σ₂ < timeToRupture cR r T σ₁ := by
  simp only [ruptureOk, Bool.and_eq_true] at h
  have hd := bernNeg_sound _ _ _ _ h.1
  have hpos₁ : 0 < σ₁ := lt_of_lt_of_le one_pos h1
  have r1 := logb_range σ₁ h1 (le_trans h12.le h2)
  have r2 := logb_range σ₂ (le_trans h1 h12.le) h2
  have hx : Real.logb 10 σ₁ < Real.logb 10 σ₂ := Real.logb_lt_logb (by norm_num) hpos₁ h12
  have anti := evalQ_strictAntiOn (dense r.terms) (xLo : ℚ) (xHi : ℚ) hd
  have hP := anti ⟨r1.1, r1.2⟩ ⟨r2.1, r2.2⟩ hx
  rw [timeToRupture_eq, timeToRupture_eq, Real.rpow_lt_rpow_left_iff (by norm_num : (1 : ℝ) < 10)]
  have := div_lt_div_of_pos_right hP hT
  linarith

/-- rupture time strictly decreases with temperature (for `T > 0`) at every stress in `[1, 1000]` MPa -/
theorem rupture_temp_of_ok (r : Rupture) (h : ruptureOk r = true) (σ T₁ T₂ : ℝ) (h1 : 1 ≤ σ)
    (h2 : σ ≤ 1000) (hT1 : 0 < T₁) (hT : T₁ < T₂) :
    timeToRupture cR r T₂ σ < timeToRupture cR r T₁ σ := by
  simp only [ruptureOk, Bool.and_eq_true] at h
  have rg := logb_range σ h1 h2
  have hp := bernNeg_sound _ _ _ _ h.2 (Real.logb 10 σ) rg.1 rg.2
  rw [evalQ_negP] at hp
  have hP : 0 < evalQ (dense r.terms) (Real.logb 10 σ) := by linarith
  rw [timeToRupture_eq, timeToRupture_eq, Real.rpow_lt_rpow_left_iff (by norm_num : (1 : ℝ) < 10)]
  have := div_lt_div_of_pos_left hP hT1 hT
  linarith

/-! fatigue -/

theorem tenth_pow (k : ℤ) : ((10 : ℝ) ^ ((k : ℝ) / 10)) ^ (10 : ℕ) = (10 : ℝ) ^ k := by
  rw [← Real.rpow_natCast, ← Real.rpow_mul (by norm_num)]
  rw [show (k : ℝ) / 10 * ((10 : ℕ) : ℝ) = (k : ℝ) by push_cast; ring, Real.rpow_intCast]

theorem le_logb_of_zpow_le (k : ℤ) (c : ℝ) (hc : 0 < c) (h : (10 : ℝ) ^ k ≤ c ^ (10 : ℕ)) :
    (k : ℝ) / 10 ≤ Real.logb 10 c := by
  rw [Real.le_logb_iff_rpow_le (by norm_num) hc]
  rw [← tenth_pow] at h
  exact (pow_le_pow_iff_left₀ (Real.rpow_nonneg (by norm_num) _) hc.le (by norm_num)).mp h

theorem logb_le_of_le_zpow (k : ℤ) (c : ℝ) (hc : 0 < c) (h : c ^ (10 : ℕ) ≤ (10 : ℝ) ^ k) :
    Real.logb 10 c ≤ (k : ℝ) / 10 := by
  rw [Real.logb_le_iff_le_rpow (by norm_num) hc]
  rw [← tenth_pow] at h
  exact (pow_le_pow_iff_left₀ hc.le (Real.rpow_nonneg (by norm_num) _) (by norm_num)).mp h

theorem logb_le_yHi (e : ℝ) (h0 : 0 < e) (h : e ≤ ((epsHi : ℚ) : ℝ)) :
    Real.logb 10 e ≤ ((yHi : ℚ) : ℝ) := by
  have : ((yHi : ℚ) : ℝ) = ((-13 : ℤ) : ℝ) / 10 := by simp [yHi]
  rw [this]
  apply logb_le_of_le_zpow _ _ h0
  have h' : e ≤ 1 / 20 := by
    have : ((epsHi : ℚ) : ℝ) = 1 / 20 := by simp [epsHi]; norm_num
    linarith
  calc e ^ (10 : ℕ) ≤ (1 / 20 : ℝ) ^ (10 : ℕ) := pow_le_pow_left₀ h0.le h' 10
    _ ≤ (10 : ℝ) ^ (-13 : ℤ) := by norm_num

theorem logLo_le (c : ℚ) (h : logLoOk c = true) :
    (((logLo10 c : ℚ) / 10 : ℚ) : ℝ) ≤ Real.logb 10 (c : ℝ) ∧ 0 < (c : ℝ) := by
  simp only [logLoOk, Bool.and_eq_true, decide_eq_true_eq] at h
  have hc : 0 < (c : ℝ) := by exact_mod_cast h.1
  refine ⟨?_, hc⟩
  have h2 : ((10 : ℚ) ^ (logLo10 c) : ℝ) ≤ ((c ^ 10 : ℚ) : ℝ) := by exact_mod_cast h.2
  have := le_logb_of_zpow_le (logLo10 c) (c : ℝ) hc (by push_cast at h2; exact h2)
  push_cast; exact this

theorem curveCycles_eq (c : FatigueCurve) (ε : ℝ) :
    curveCycles cR c ε =
      (10 : ℝ) ^ evalQ (dense c.terms) (Real.logb 10 (clampBelow ((c.cutoff : ℚ) : ℝ) ε)) := by
  simp [curveCycles, evalTerms_eq, Log10Pow.pow10, Log10Pow.log10]

/-- one fatigue curve: cycles to failure do not increase with the strain range up to `epsHi` -/
theorem curve_antitone_of_ok (c : FatigueCurve) (h : curveOk c = true) (ε₁ ε₂ : ℝ) (h12 : ε₁ ≤ ε₂)
    (h2 : ε₂ ≤ ((epsHi : ℚ) : ℝ)) : curveCycles cR c ε₂ ≤ curveCycles cR c ε₁ := by
  simp only [curveOk, Bool.and_eq_true] at h
  obtain ⟨hlo, hcpos⟩ := logLo_le c.cutoff h.1
  have hQ := bernNonpos_sound _ _ _ _ h.2
  rw [curveCycles_eq, curveCycles_eq, Real.rpow_le_rpow_left_iff (by norm_num : (1 : ℝ) < 10)]
  set cut : ℝ := ((c.cutoff : ℚ) : ℝ) with hcut
  by_cases hc : ε₂ ≤ cut
  · -- both clamped to the cut-off
    have e1 : clampBelow cut ε₁ = cut := by simp [clampBelow, le_trans h12 hc]
    have e2 : clampBelow cut ε₂ = cut := by simp [clampBelow, hc]
    rw [e1, e2]
  · have hc' : cut < ε₂ := not_le.mp hc
    have e2 : clampBelow cut ε₂ = ε₂ := by simp [clampBelow, hc]
    have c1 : cut ≤ clampBelow cut ε₁ := by
      unfold clampBelow; split_ifs with hh
      · exact le_refl _
      · exact (not_le.mp hh).le
    have c12 : clampBelow cut ε₁ ≤ ε₂ := by
      unfold clampBelow; split_ifs with hh
      · exact hc'.le
      · exact h12
    have p1 : 0 < clampBelow cut ε₁ := lt_of_lt_of_le hcpos c1
    have p2 : 0 < ε₂ := lt_trans hcpos hc'
    rw [e2]
    have anti := evalQ_antitoneOn (dense c.terms) (((logLo10 c.cutoff : ℚ) / 10 : ℚ) : ℝ) ((yHi : ℚ) : ℝ) hQ
    have lb : ∀ e : ℝ, cut ≤ e → (((logLo10 c.cutoff : ℚ) / 10 : ℚ) : ℝ) ≤ Real.logb 10 e := fun e he =>
      le_trans hlo ((Real.logb_le_logb (by norm_num) hcpos (lt_of_lt_of_le hcpos he)).mpr he)
    have ub : ∀ e : ℝ, 0 < e → e ≤ ε₂ → Real.logb 10 e ≤ ((yHi : ℚ) : ℝ) := fun e he hle =>
      logb_le_yHi e he (le_trans hle h2)
    exact anti ⟨lb _ c1, ub _ p1 c12⟩ ⟨lb _ hc'.le, ub _ p2 (le_refl _)⟩
      ((Real.logb_le_logb (by norm_num) p1 p2).mpr c12)

theorem selectCurve_mem (T : ℝ) : ∀ (cs : List FatigueCurve) (c : FatigueCurve),
    selectCurve cR T cs = some c → c ∈ cs
  | [], c, h => by simp [selectCurve] at h
  | d :: ds, c, h => by
    simp only [selectCurve] at h
    cases hd : selectCurve cR T ds with
    | none =>
      rw [hd] at h; dsimp only at h
      by_cases h1 : T ≤ cR d.T
      · rw [if_pos h1] at h
        have : d = c := Option.some.inj h
        simp [this]
      · rw [if_neg h1] at h; exact absurd h (by simp)
    | some b =>
      rw [hd] at h; dsimp only at h
      have hb := selectCurve_mem T ds b hd
      by_cases h1 : T ≤ cR d.T
      · rw [if_pos h1] at h
        by_cases h2 : cR d.T < cR b.T
        · rw [if_pos h2] at h
          have : d = c := Option.some.inj h
          simp [this]
        · rw [if_neg h2] at h
          have : b = c := Option.some.inj h
          rw [← this]; exact List.mem_cons_of_mem _ hb
      · rw [if_neg h1] at h
        have : b = c := Option.some.inj h
        rw [← this]; exact List.mem_cons_of_mem _ hb

/-- the curve selected does not depend on the strain range, so the correlation is non-increasing
in the strain range for every temperature it accepts -/
theorem cyclesToFail_antitone_of_ok (cs : List FatigueCurve) (h : cs.all curveOk = true) (T ε₁ ε₂ : ℝ)
    (h12 : ε₁ ≤ ε₂) (h2 : ε₂ ≤ ((epsHi : ℚ) : ℝ)) (n₁ n₂ : ℝ)
    (e1 : cyclesToFail cR cs T ε₁ = some n₁) (e2 : cyclesToFail cR cs T ε₂ = some n₂) : n₂ ≤ n₁ := by
  unfold cyclesToFail at e1 e2
  cases hsel : selectCurve cR T cs with
  | none => simp [hsel] at e1
  | some c =>
    have hmem := selectCurve_mem T cs c hsel
    rw [hsel] at e1 e2
    simp only [Option.map_some, Option.some.injEq] at e1 e2
    rw [← e1, ← e2]
    exact curve_antitone_of_ok c (List.all_eq_true.mp h c hmem) ε₁ ε₂ h12 h2


/-! ### rational tables embedded in ℝ -/

theorem length_castTab {K} (ι : ℚ → K) (tab : List (ℚ × ℚ)) : (castTab ι tab).length = tab.length := by
  simp [castTab]

theorem sortedX_cast : ∀ tab : List (ℚ × ℚ), sortedX tab = true → SortedX (castTab cR tab)
  | [], _ => trivial
  | [_], _ => trivial
  | p :: q :: r, h => by
    simp only [sortedX, Bool.and_eq_true, decide_eq_true_eq] at h
    refine ⟨?_, sortedX_cast (q :: r) h.2⟩
    show ((p.1 : ℚ) : ℝ) < ((q.1 : ℚ) : ℝ)
    exact_mod_cast h.1

theorem tableAbove_cast (c : ℚ) (tab : List (ℚ × ℚ)) (h : tableAbove c tab = true) :
    ∀ p ∈ castTab cR tab, (c : ℝ) < p.2 := by
  intro p hp
  simp only [castTab, List.mem_map] at hp
  obtain ⟨q, hq, rfl⟩ := hp
  have := List.all_eq_true.mp h q hq
  simp only [decide_eq_true_eq] at this
  show (c : ℝ) < ((q.2 : ℚ) : ℝ)
  exact_mod_cast this

theorem firstX_cast (tab : List (ℚ × ℚ)) : firstX (castTab cR tab) = ((firstX tab : ℚ) : ℝ) := by
  cases tab <;> simp [castTab, firstX]

theorem lastX_cast : ∀ tab : List (ℚ × ℚ), lastX (castTab cR tab) = ((lastX tab : ℚ) : ℝ)
  | [] => by simp [castTab, lastX]
  | [_] => by simp [castTab, lastX]
  | p :: q :: r => by
    have := lastX_cast (q :: r)
    simp only [castTab, List.map_cons, lastX] at this ⊢
    exact this

theorem mem_castTab (tab : List (ℚ × ℚ)) (p : ℚ × ℚ) (hp : p ∈ tab) :
    ((p.1 : ℝ), (p.2 : ℝ)) ∈ castTab cR tab := by
  simp only [castTab, List.mem_map]; exact ⟨p, hp, rfl⟩

/-- a table that passes `tableOk` and `tableAbove c` is defined and stays above `c` on its whole range -/
theorem table_above_of_ok (c : ℚ) (tab : List (ℚ × ℚ)) (h1 : tableOk tab = true)
    (h2 : tableAbove c tab = true) (x : ℝ) (hx0 : ((firstX tab : ℚ) : ℝ) ≤ x)
    (hx1 : x ≤ ((lastX tab : ℚ) : ℝ)) :
    ∃ y : ℝ, pw (castTab cR tab) x = some y ∧ (c : ℝ) < y := by
  simp only [tableOk, Bool.and_eq_true, decide_eq_true_eq] at h1
  have f := firstX_cast tab
  have l := lastX_cast tab
  have a0 : firstX (castTab cR tab) ≤ x := by rw [f]; exact hx0
  have a1 : x ≤ lastX (castTab cR tab) := by rw [l]; exact hx1
  exact pw_above (c : ℝ) _ x (sortedX_cast tab h1.2) (by rw [length_castTab]; exact h1.1)
    (tableAbove_cast c tab h2) a0 a1

/-- table values at the table points (over ℝ, for a rational table that passes `tableOk`) -/
theorem table_at_knot_of_ok (tab : List (ℚ × ℚ)) (h : tableOk tab = true) (p : ℚ × ℚ) (hp : p ∈ tab) :
    pw (castTab cR tab) (p.1 : ℝ) = some (p.2 : ℝ) := by
  simp only [tableOk, Bool.and_eq_true, decide_eq_true_eq] at h
  exact pw_at_knot' (castTab cR tab) (sortedX_cast tab h.2) (by rw [length_castTab]; exact h.1)
    ((p.1 : ℝ), (p.2 : ℝ)) (mem_castTab tab p hp)

theorem castTab_append (tab₁ tab₂ : List (ℚ × ℚ)) :
    castTab cR (tab₁ ++ tab₂) = castTab cR tab₁ ++ castTab cR tab₂ := by simp [castTab]

/-- on the segment between adjacent table points the reported derivative is the segment slope and
the value is the chord -/
theorem table_segment_of_ok (pre post : List (ℚ × ℚ)) (p q : ℚ × ℚ)
    (h : tableOk (pre ++ p :: q :: post) = true) (x : ℝ) (h0 : (p.1 : ℝ) ≤ x)
    (h1 : x < (q.1 : ℝ) ∨ (post = [] ∧ x ≤ (q.1 : ℝ))) :
    pwDeriv (castTab cR (pre ++ p :: q :: post)) x = some (((q.2 : ℝ) - p.2) / ((q.1 : ℝ) - p.1)) ∧
    pw (castTab cR (pre ++ p :: q :: post)) x =
      some ((p.2 : ℝ) + ((q.2 : ℝ) - p.2) / ((q.1 : ℝ) - p.1) * (x - p.1)) := by
  simp only [tableOk, Bool.and_eq_true, decide_eq_true_eq] at h
  have hs := sortedX_cast _ h.2
  have hx1 : x ≤ (q.1 : ℝ) := by rcases h1 with h1 | h1; exact h1.le; exact h1.2
  have e : castTab cR (pre ++ p :: q :: post) =
      castTab cR pre ++ ((p.1 : ℝ), (p.2 : ℝ)) :: ((q.1 : ℝ), (q.2 : ℝ)) :: castTab cR post := by
    simp [castTab]
  have a0 : firstX (castTab cR (pre ++ p :: q :: post)) ≤ x :=
    le_trans (sorted_first_le _ hs ((p.1 : ℝ), (p.2 : ℝ)) (mem_castTab _ p (by simp))) h0
  have a1 : x ≤ lastX (castTab cR (pre ++ p :: q :: post)) :=
    le_trans hx1 (sorted_le_last _ hs ((q.1 : ℝ), (q.2 : ℝ)) (mem_castTab _ q (by simp)))
  rw [pwDeriv_inside _ _ a0 a1, pw_inside _ _ a0 a1]
  rw [e] at hs ⊢
  have hpost : x < (q.1 : ℝ) ∨ castTab cR post = [] := by
    rcases h1 with h1 | h1
    · exact Or.inl h1
    · exact Or.inr (by simp [castTab, h1.1])
  have := pwIn_on_segment (p.1 : ℝ) (p.2 : ℝ) (q.1 : ℝ) (q.2 : ℝ) (castTab cR post) (castTab cR pre) x hs h0 hpost
  rw [this.1, this.2]
  simp [pwSeg, slope]

/-! ### envelope -/

theorem envelope_of_ok (k : ℚ × ℚ) (h : kneeOk k = true) :
    (0 < (k.1 : ℝ) ∧ (k.1 : ℝ) < 1 ∧ 0 < (k.2 : ℝ) ∧ (k.2 : ℝ) < 1) ∧
    envBound (k.1 : ℝ) (k.2 : ℝ) 0 = 1 ∧
    envBound (k.1 : ℝ) (k.2 : ℝ) (k.1 : ℝ) = (k.2 : ℝ) ∧
    envBound (k.1 : ℝ) (k.2 : ℝ) 1 = 0 := by
  simp only [kneeOk, Bool.and_eq_true, decide_eq_true_eq] at h
  obtain ⟨⟨⟨a, b⟩, c⟩, d⟩ := h
  have a' : 0 < (k.1 : ℝ) := by exact_mod_cast a
  have b' : (k.1 : ℝ) < 1 := by exact_mod_cast b
  have c' : 0 < (k.2 : ℝ) := by exact_mod_cast c
  have d' : (k.2 : ℝ) < 1 := by exact_mod_cast d
  refine ⟨⟨a', b', c', d'⟩, ?_, ?_, ?_⟩
  · simp [envBound, a']
  · simp [envBound]
  · have h1 : ¬ (1 : ℝ) < (k.1 : ℝ) := not_lt.mpr b'.le
    have h2 : (1 : ℝ) - (k.1 : ℝ) ≠ 0 := ne_of_gt (sub_pos.mpr b')
    simp only [envBound, h1, if_false]
    field_simp
    ring

theorem insideEnv_eq (k : ℚ × ℚ) (df dc : ℝ) (h1 : 0 ≤ df) (h2 : 0 ≤ dc) :
    insideEnv cR k df dc = some (decide (dc ≤ envBound (k.1 : ℝ) (k.2 : ℝ) df)) := by
  simp [insideEnv, not_lt.mpr h1, not_lt.mpr h2]

/-! ### XML round trip -/

mutual
  /-- every dict is non-empty and has distinct keys (what `save_node` → `load_node` can give back) -/
  def PV.wf : PV → Bool
    | .text _ => true
    | .dict kvs => !kvs.isEmpty && decide ((kvs.map Prod.fst).Nodup) && wfList kvs
  def wfList : List (String × PV) → Bool
    | [] => true
    | (_, v) :: r => v.wf && wfList r
end

mutual
  /-- the value `load_node` returns for a saved `v`: the same dict with the insertion order of every
  level reversed (`dict(ChainMap(*children))` enumerates the children backwards) -/
  def mirror : PV → PV
    | .text s => .text s
    | .dict kvs => .dict (mirrorList kvs).reverse
  def mirrorList : List (String × PV) → List (String × PV)
    | [] => []
    | (k, v) :: r => (k, mirror v) :: mirrorList r
end

theorem keys_mirrorList : ∀ kvs : List (String × PV), (mirrorList kvs).map Prod.fst = kvs.map Prod.fst
  | [] => by simp [mirrorList]
  | (k, v) :: r => by simp [mirrorList, keys_mirrorList r]

theorem dedupFrom_nodup : ∀ (ks seen : List String), ks.Nodup → (∀ k ∈ ks, k ∉ seen) →
    dedupFrom seen ks = ks
  | [], _, _, _ => by simp [dedupFrom]
  | k :: ks, seen, hn, hs => by
    have hk : k ∉ seen := hs k (by simp)
    have hn' := List.nodup_cons.mp hn
    simp only [dedupFrom, List.contains_eq_mem, hk, decide_false, Bool.false_eq_true, if_false]
    rw [dedupFrom_nodup ks (k :: seen) hn'.2]
    intro k' hk' hmem
    rcases List.mem_cons.mp hmem with rfl | h
    · exact hn'.1 hk'
    · exact hs k' (List.mem_cons_of_mem _ hk') h

theorem lookup_of_nodup {β} : ∀ (l : List (String × β)), (l.map Prod.fst).Nodup →
    ∀ k v, (k, v) ∈ l → l.lookup k = some v
  | [], _, _, _, h => by simp at h
  | (k', v') :: r, hn, k, v, h => by
    have hn' : k' ∉ r.map Prod.fst ∧ (r.map Prod.fst).Nodup := List.nodup_cons.mp hn
    rcases List.mem_cons.mp h with e | hr
    · obtain ⟨rfl, rfl⟩ := Prod.mk.inj e; simp [List.lookup]
    · have hne : k ≠ k' := by
        intro e; rw [e] at hr; exact hn'.1 (List.mem_map.mpr ⟨(k', v), hr, rfl⟩)
      simp only [List.lookup]
      have : (k == k') = false := by simp [hne]
      rw [this]; exact lookup_of_nodup r hn'.2 k v hr

theorem lookup_mem {β} : ∀ (l : List (String × β)) k v, l.lookup k = some v → (k, v) ∈ l
  | [], _, _, h => by simp [List.lookup] at h
  | (k', v') :: r, k, v, h => by
    simp only [List.lookup] at h
    by_cases e : k = k'
    · subst e; simp at h; simp [h]
    · have : (k == k') = false := by simp [e]
      rw [this] at h
      exact List.mem_cons_of_mem _ (lookup_mem r k v h)

theorem lookup_none {β} : ∀ (l : List (String × β)) k, l.lookup k = none → k ∉ l.map Prod.fst
  | [], _, _ => by simp
  | (k', v') :: r, k, h => by
    simp only [List.lookup] at h
    by_cases e : k = k'
    · subst e; simp at h
    · have : (k == k') = false := by simp [e]
      rw [this] at h
      have := lookup_none r k h
      simp only [List.map_cons, List.mem_cons, not_or]
      exact ⟨e, this⟩

theorem lookup_none_of_not_mem {β} : ∀ (l : List (String × β)) k, k ∉ l.map Prod.fst → l.lookup k = none
  | [], _, _ => by simp [List.lookup]
  | (k', v') :: r, k, h => by
    simp only [List.map_cons, List.mem_cons, not_or] at h
    have : (k == k') = false := by simp [h.1]
    simp only [List.lookup, this]
    exact lookup_none_of_not_mem r k h.2

theorem lookup_reverse {β} (l : List (String × β)) (hn : (l.map Prod.fst).Nodup) (k : String) :
    l.reverse.lookup k = l.lookup k := by
  have hn' : (l.reverse.map Prod.fst).Nodup := by
    rw [List.map_reverse]; exact List.nodup_reverse.mpr hn
  cases h : l.lookup k with
  | none =>
    apply lookup_none_of_not_mem
    rw [List.map_reverse, List.mem_reverse]
    exact lookup_none l k h
  | some v =>
    exact lookup_of_nodup _ hn' k v (List.mem_reverse.mpr (lookup_mem l k v h))

theorem filterMap_self {α} (f : α → Option α) : ∀ l : List α, (∀ a ∈ l, f a = some a) → l.filterMap f = l
  | [], _ => by simp
  | a :: l, h => by
    rw [List.filterMap_cons, h a (by simp)]
    simp only
    rw [filterMap_self f l (fun b hb => h b (List.mem_cons_of_mem _ hb))]

/-- with distinct keys `dict(ChainMap(*children))` is just the children in reverse order -/
theorem chain_nodup (l : List (String × PV)) (hn : (l.map Prod.fst).Nodup) : chain l = l.reverse := by
  unfold chain
  have hn' : (l.reverse.map Prod.fst).Nodup := by
    rw [List.map_reverse]; exact List.nodup_reverse.mpr hn
  rw [dedupFrom_nodup _ [] hn' (by simp), List.filterMap_map]
  apply filterMap_self
  intro p hp
  obtain ⟨k, v⟩ := p
  have := lookup_of_nodup l hn k v (List.mem_reverse.mp hp)
  simp [Function.comp, this]

mutual
  /-- **xml_roundtrip (tree part)**: `load_node(save_node(name, d))` is `{name: d}` up to the order of
  the keys, for dicts with distinct keys and no empty dict -/
  theorem load_save (name : String) (attrib : List (String × String)) :
      ∀ v : PV, v.wf = true → loadNode (saveNode name attrib v) = (name, mirror v)
    | .text s, _ => by simp [saveNode, loadNode, mirror]
    | .dict [], h => by simp [PV.wf] at h
    | .dict ((k, v) :: r), h => by
      simp only [PV.wf, List.isEmpty_cons, Bool.not_false, Bool.true_and, Bool.and_eq_true,
        decide_eq_true_eq] at h
      have hl := loadList_saveList ((k, v) :: r) h.2
      simp only [saveNode, saveList, loadNode]
      simp only [saveList, loadList] at hl
      rw [hl, chain_nodup _ (by rw [keys_mirrorList]; exact h.1), mirror]
  theorem loadList_saveList : ∀ kvs : List (String × PV), wfList kvs = true →
      loadList (saveList kvs) = mirrorList kvs
    | [], _ => by simp [saveList, loadList, mirrorList]
    | (k, v) :: r, h => by
      simp only [wfList, Bool.and_eq_true] at h
      simp only [saveList, loadList, mirrorList]
      rw [load_save k [] v h.1, loadList_saveList r h.2]
end

theorem lookup_mirrorList : ∀ (kvs : List (String × PV)) (k : String),
    (mirrorList kvs).lookup k = (kvs.lookup k).map mirror
  | [], _ => by simp [mirrorList, List.lookup]
  | (k', v') :: r, k => by
    simp only [mirrorList, List.lookup]
    cases (k == k') <;> simp [lookup_mirrorList r k]

theorem wf_of_lookup : ∀ (kvs : List (String × PV)) (k : String) (v : PV), wfList kvs = true →
    kvs.lookup k = some v → v.wf = true
  | [], _, _, _, h => by simp [List.lookup] at h
  | (k', v') :: r, k, v, hw, h => by
    simp only [wfList, Bool.and_eq_true] at hw
    simp only [List.lookup] at h
    cases e : (k == k') with
    | true => rw [e] at h; simp at h; rw [← h]; exact hw.1
    | false => rw [e] at h; exact wf_of_lookup r k v hw.2 h

/-- the reordering is invisible to look-ups: every key path reaches the same leaf -/
theorem getPath_mirror : ∀ (p : List String) (v : PV), v.wf = true → getPath p (mirror v) = getPath p v
  | [], .text s, _ => by simp [mirror, getPath]
  | [], .dict kvs, _ => by simp [mirror, getPath]
  | k :: p, .text s, _ => by simp [mirror, getPath]
  | k :: p, .dict kvs, h => by
    simp only [PV.wf, Bool.and_eq_true, decide_eq_true_eq] at h
    simp only [mirror, getPath]
    rw [lookup_reverse _ (by rw [keys_mirrorList]; exact h.1.2), lookup_mirrorList]
    cases e : kvs.lookup k with
    | none => simp
    | some v' =>
      simp only [Option.map_some]
      exact getPath_mirror p v' (wf_of_lookup kvs k v' h.2 e)

/-- `find_name` on a saved model gives back the node and its type attribute -/
theorem findName_save (name typ : String) (v : PV) :
    findName (.elem "models" [] none [saveNode name [("type", typ)] v]) name =
      some (saveNode name [("type", typ)] v, typ) := by
  cases v <;> simp [findName, Xml.children, saveNode, Xml.tag, Xml.attrib]

/-! ### string_array / destring_array -/

theorem splitSp_nospace : ∀ w : List Char, ' ' ∉ w → splitSp w = [w]
  | [], _ => by simp [splitSp]
  | c :: cs, h => by
    have hc : c ≠ ' ' := fun e => h (by simp [e])
    have hcs : ' ' ∉ cs := fun e => h (List.mem_cons_of_mem _ e)
    simp [splitSp, hc, splitSp_nospace cs hcs]

theorem splitSp_append : ∀ (w s : List Char), ' ' ∉ w → splitSp (w ++ ' ' :: s) = w :: splitSp s
  | [], s, _ => by simp [splitSp]
  | c :: cs, s, h => by
    have hc : c ≠ ' ' := fun e => h (by simp [e])
    have hcs : ' ' ∉ cs := fun e => h (List.mem_cons_of_mem _ e)
    simp [splitSp, hc, splitSp_append cs s hcs]

/-- `" ".join(ts).split(" ") == ts` for a non-empty list of space-free tokens -/
theorem splitSp_joinSp : ∀ ts : List (List Char), ts ≠ [] → (∀ t ∈ ts, ' ' ∉ t) →
    splitSp (joinSp ts) = ts
  | [], h, _ => absurd rfl h
  | [w], _, h => by simpa [joinSp] using splitSp_nospace w (h w (by simp))
  | w :: v :: r, _, h => by
    simp only [joinSp]
    rw [splitSp_append w _ (h w (by simp)),
      splitSp_joinSp (v :: r) (by simp) (fun t ht => h t (List.mem_cons_of_mem _ ht))]

theorem mapOpt_map {α β} (f : β → Option α) (g : α → β) (hfg : ∀ a, f (g a) = some a) :
    ∀ xs : List α, mapOpt f (xs.map g) = some xs
  | [] => by simp [mapOpt]
  | x :: xs => by simp [mapOpt, hfg, mapOpt_map f g hfg xs]

/-- **xml_roundtrip (array part)**: `destring_array(string_array(xs)) == xs` for a non-empty array,
*given* that the element printer and parser round-trip (`float(str(x)) == x`, Python's shortest-repr
guarantee) and that a printed number contains no blank -/
theorem destring_string {α} (repr : α → List Char) (parse : List Char → Option α)
    (hrt : ∀ x, parse (repr x) = some x) (hsp : ∀ x, ' ' ∉ repr x) (xs : List α) (hne : xs ≠ []) :
    destringArray parse (stringArray repr xs) = some xs := by
  unfold destringArray stringArray
  rw [splitSp_joinSp (xs.map repr) (by simpa using hne)
    (by intro t ht; obtain ⟨x, _, rfl⟩ := List.mem_map.mp ht; exact hsp x)]
  exact mapOpt_map parse repr hrt xs

end SrModel.PW

/-! ### what the per-item certificates mean (statement vocabulary of `SrProps/C20.lean`) -/
namespace SrModel.PW

/-- a table evaluated the way the code does (`interp1d`, raising outside): defined and above `c` on
the whole tabulated range -/
def TableAbove (c : ℚ) (tab : List (ℚ × ℚ)) : Prop :=
  ∀ T : ℝ, ((firstX tab : ℚ) : ℝ) ≤ T → T ≤ ((lastX tab : ℚ) : ℝ) →
    ∃ y : ℝ, pw (castTab cR tab) T = some y ∧ (c : ℝ) < y

theorem tableAbove_of_ok (c : ℚ) (tab : List (ℚ × ℚ)) (h1 : tableOk tab = true)
    (h2 : tableAbove c tab = true) : TableAbove c tab := fun T a b => table_above_of_ok c tab h1 h2 T a b

/-- conductivity and diffusivity are (defined and) positive on the whole tabulated range -/
def ThermalPositive : Thermal → Prop
  | .piecewise _ cond diff => TableAbove 0 cond ∧ TableAbove 0 diff
  | .constant _ k a => 0 < (k : ℝ) ∧ 0 < (a : ℝ)
  | .unsupported _ => False

theorem thermalPositive_of_ok (t : Thermal) (h : thermalOk t = true) : ThermalPositive t := by
  cases t with
  | piecewise n cond diff =>
    simp only [thermalOk, Bool.and_eq_true] at h
    obtain ⟨⟨⟨h1, h2⟩, h3⟩, h4⟩ := h
    exact ⟨tableAbove_of_ok 0 cond h1 h2, tableAbove_of_ok 0 diff h3 h4⟩
  | constant n k a =>
    simp only [thermalOk, Bool.and_eq_true, decide_eq_true_eq] at h
    exact ⟨by exact_mod_cast h.1, by exact_mod_cast h.2⟩
  | unsupported w => simp [thermalOk] at h

/-- Weibull strength and modulus, `B_v` positive, `N_v > 2`, `c̄`, `ν` positive -/
def CeramicPositive : Ceramic → Prop
  | .standard s m nv bv cbar nu =>
      TableAbove 0 s ∧ TableAbove 0 m ∧ TableAbove 2 nv ∧ TableAbove 0 bv ∧ 0 < (cbar : ℝ) ∧ 0 < (nu : ℝ)
  | .unsupported _ => False

theorem ceramicPositive_of_ok (c : Ceramic) (h : ceramicOk c = true) : CeramicPositive c := by
  cases c with
  | standard s m nv bv cbar nu =>
    simp only [ceramicOk, Bool.and_eq_true, decide_eq_true_eq] at h
    obtain ⟨⟨⟨⟨⟨⟨⟨⟨⟨a1, a2⟩, b1⟩, b2⟩, c1⟩, c2⟩, d1⟩, d2⟩, e⟩, f⟩ := h
    exact ⟨tableAbove_of_ok 0 s a1 a2, tableAbove_of_ok 0 m b1 b2, tableAbove_of_ok 2 nv c1 c2,
      tableAbove_of_ok 0 bv d1 d2, by exact_mod_cast e, by exact_mod_cast f⟩
  | unsupported w => simp [ceramicOk] at h

/-- the envelope passes through `(0,1)`, its knee and `(1,0)`; the knee lies in `(0,1)²` -/
def EnvelopePoints (k : ℚ × ℚ) : Prop :=
  (0 < (k.1 : ℝ) ∧ (k.1 : ℝ) < 1 ∧ 0 < (k.2 : ℝ) ∧ (k.2 : ℝ) < 1) ∧
  ∀ dc : ℝ, 0 ≤ dc →
    (insideEnv cR k 0 dc = some true ↔ dc ≤ 1) ∧
    (insideEnv cR k (k.1 : ℝ) dc = some true ↔ dc ≤ (k.2 : ℝ)) ∧
    (insideEnv cR k 1 dc = some true ↔ dc ≤ 0)

theorem envelopePoints_of_ok (k : ℚ × ℚ) (h : kneeOk k = true) : EnvelopePoints k := by
  obtain ⟨hk, e0, e1, e2⟩ := envelope_of_ok k h
  refine ⟨hk, fun dc hdc => ⟨?_, ?_, ?_⟩⟩
  · rw [insideEnv_eq k 0 dc (le_refl _) hdc, e0]; simp
  · rw [insideEnv_eq k _ dc hk.1.le hdc, e1]; simp
  · rw [insideEnv_eq k 1 dc zero_le_one hdc, e2]; simp

/-- when some curve is at least as hot as `temp`, a curve is selected (the code does not raise) -/
theorem selectCurve_isSome (T : ℝ) : ∀ (cs : List FatigueCurve), (∃ c ∈ cs, T ≤ cR c.T) →
    (selectCurve cR T cs).isSome = true
  | [], h => by simp at h
  | d :: ds, h => by
    simp only [selectCurve]
    cases hd : selectCurve cR T ds with
    | none =>
      dsimp only
      by_cases h1 : T ≤ cR d.T
      · simp [h1]
      · exfalso
        obtain ⟨c, hc, hT⟩ := h
        rcases List.mem_cons.mp hc with rfl | hc
        · exact h1 hT
        · have := selectCurve_isSome T ds ⟨c, hc, hT⟩
          rw [hd] at this; simp at this
    | some b =>
      dsimp only
      by_cases h1 : T ≤ cR d.T
      · by_cases h2 : cR d.T < cR b.T <;> simp [h1, h2]
      · simp [h1]

end SrModel.PW
