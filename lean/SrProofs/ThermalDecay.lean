import SrProofs.Thermal
import Mathlib.Tactic.GCongr
import Mathlib.Algebra.Order.Field.Basic
import Mathlib.Algebra.Order.AbsoluteValue.Basic

/-!
# Geometric decay of the transient error of the finite-difference heat step

`SrModel.Thermal` in transient mode.  If `Ts` is a fixed point of the step (a steady state) the
error `e = T − Ts` solves the homogeneous step.  With a *barrier* `φ > 0`, `A φ ≤ −δ`, the weighted
maximum norm `max |e|/φ` contracts by `ρ = Φ/(Φ + dt·δ) < 1` every step; for the uniform radial grid
with constant coefficient explicit barriers `C − r² + b·g` (`g` the discrete logarithm) exist
whenever one wall anchors the temperature (fixed value, or film coefficient bounded below).
-/
namespace SrModel.Thermal
open Finset

/-! ### 1. comparison lemma -/

/-- periodic (`ndim ≥ 2`) and axial (`ndim ≥ 3`) ghost equalities, exactly as in `Prob.Solves` -/
def Prob.Ghosts (P : Prob ℝ) (w : GField ℝ) : Prop :=
  (P.ndim ≥ 2 → ∀ i k, P.isRealI i = true → P.isRealK k = true →
      w i 0 k - w i P.Nt k = 0 ∧ w i (P.Nt+1) k - w i 1 k = 0) ∧
  (P.ndim ≥ 3 → ∀ i j, P.isRealI i = true → P.isRealJ j = true →
      w i j 1 - w i j 0 = 0 ∧ w i j P.Nz - w i j (P.Nz+1) = 0)

theorem term_nonneg (w x y : ℝ) (h : w = 0 ∨ (0 ≤ w ∧ y ≤ x)) : 0 ≤ w * (x - y) := by
  rcases h with h | ⟨h1, h2⟩
  · rw [h]; simp
  · exact mul_nonneg h1 (by linarith)

/-- **Comparison lemma (transient step).** A field whose real rows `w − dt·A w` are non-negative,
which satisfies the ghost equalities and whose wall ghosts are not below a negative wall node, is
non-negative at every real node. -/
theorem supersolution_nonneg (P : Prob ℝ) (w : GField ℝ)
    (hs : P.Sized) (hdt : 0 < P.dt) (hw : P.WeightsNonneg)
    (hrows : ∀ i j k, P.isRealI i = true → P.isRealJ j = true → P.isRealK k = true →
        0 ≤ w i j k - P.dt * P.applyA w i j k)
    (hg : P.Ghosts w)
    (hin : ∀ j k, P.isRealJ j = true → P.isRealK k = true → w 1 j k < 0 → w 1 j k ≤ w 0 j k)
    (hout : ∀ j k, P.isRealJ j = true → P.isRealK k = true →
        w P.N j k < 0 → w P.N j k ≤ w (P.N+1) j k) :
    ∀ i j k, P.isRealI i = true → P.isRealJ j = true → P.isRealK k = true → 0 ≤ w i j k := by
  obtain ⟨hper, hax⟩ := hg
  obtain ⟨⟨im, jm, km⟩, hmem, hmin⟩ :=
    Finset.exists_min_image P.nodes (fun p => w p.1 p.2.1 p.2.2) (nodes_nonempty P hs)
  have hmin' : ∀ i j k, P.isRealI i = true → P.isRealJ j = true → P.isRealK k = true →
      w im jm km ≤ w i j k := fun i j k hi hj hk => hmin (i, j, k) ((mem_nodes P i j k).2 ⟨hi, hj, hk⟩)
  obtain ⟨hi, hj, hk⟩ := (mem_nodes P im jm km).1 hmem
  by_contra hcon
  push Not at hcon
  obtain ⟨i0, j0, k0, hi0, hj0, hk0, hlt⟩ := hcon
  have hB : w im jm km < 0 := lt_of_le_of_lt (hmin' i0 j0 k0 hi0 hj0 hk0) hlt
  have hiR : 1 ≤ im ∧ im ≤ P.N := by simpa [Prob.isRealI] using hi
  obtain ⟨w1, w2, w3, w4, w5, w6⟩ := hw im jm km hi hj hk
  have n1 : w im jm km ≤ w (im-1) jm km := by
    by_cases h1 : im = 1
    · subst h1; exact hin jm km hj hk hB
    · exact hmin' _ _ _ (by simp [Prob.isRealI]; omega) hj hk
  have n2 : w im jm km ≤ w (im+1) jm km := by
    by_cases h1 : im = P.N
    · subst h1; exact hout jm km hj hk hB
    · exact hmin' _ _ _ (by simp [Prob.isRealI]; omega) hj hk
  have n3 : P.wtm im jm km = 0 ∨ (0 ≤ P.wtm im jm km ∧ w im jm km ≤ w im (jm-1) km) := by
    by_cases h2 : P.ndim ≥ 2
    · right; refine ⟨w3, ?_⟩
      have hjR : 1 ≤ jm ∧ jm ≤ P.Nt := by simpa [Prob.isRealJ, h2] using hj
      by_cases h1 : jm = 1
      · subst h1
        have := (hper h2 im km hi hk).1
        have hle := hmin' im P.Nt km hi (by simp [Prob.isRealJ, h2]; omega) hk
        simp only [Nat.sub_self]; linarith
      · exact hmin' _ _ _ hi (by simp [Prob.isRealJ, h2]; omega) hk
    · left; simp [Prob.wtm, h2]
  have n4 : P.wtp im jm km = 0 ∨ (0 ≤ P.wtp im jm km ∧ w im jm km ≤ w im (jm+1) km) := by
    by_cases h2 : P.ndim ≥ 2
    · right; refine ⟨w4, ?_⟩
      have hjR : 1 ≤ jm ∧ jm ≤ P.Nt := by simpa [Prob.isRealJ, h2] using hj
      by_cases h1 : jm = P.Nt
      · subst h1
        have := (hper h2 im km hi hk).2
        have hle := hmin' im 1 km hi (by simp [Prob.isRealJ, h2]; omega) hk
        linarith
      · exact hmin' _ _ _ hi (by simp [Prob.isRealJ, h2]; omega) hk
    · left; simp [Prob.wtp, h2]
  have n5 : P.wzm im jm km = 0 ∨ (0 ≤ P.wzm im jm km ∧ w im jm km ≤ w im jm (km-1)) := by
    by_cases h3 : P.ndim ≥ 3
    · right; refine ⟨w5, ?_⟩
      have hkR : 1 ≤ km ∧ km ≤ P.Nz := by simpa [Prob.isRealK, h3] using hk
      by_cases h1 : km = 1
      · subst h1
        have := (hax h3 im jm hi hj).1
        simp only [Nat.sub_self]; linarith
      · exact hmin' _ _ _ hi hj (by simp [Prob.isRealK, h3]; omega)
    · left; simp [Prob.wzm, h3]
  have n6 : P.wzp im jm km = 0 ∨ (0 ≤ P.wzp im jm km ∧ w im jm km ≤ w im jm (km+1)) := by
    by_cases h3 : P.ndim ≥ 3
    · right; refine ⟨w6, ?_⟩
      have hkR : 1 ≤ km ∧ km ≤ P.Nz := by simpa [Prob.isRealK, h3] using hk
      by_cases h1 : km = P.Nz
      · subst h1
        have := (hax h3 im jm hi hj).2
        linarith
      · exact hmin' _ _ _ hi hj (by simp [Prob.isRealK, h3]; omega)
    · left; simp [Prob.wzp, h3]
  have hA : 0 ≤ P.applyA w im jm km := by
    unfold Prob.applyA
    have t1 := term_nonneg _ _ _ (Or.inr ⟨w1, n1⟩ : P.wrm im jm km = 0 ∨ _)
    have t2 := term_nonneg _ _ _ (Or.inr ⟨w2, n2⟩ : P.wrp im jm km = 0 ∨ _)
    have t3 := term_nonneg _ _ _ n3
    have t4 := term_nonneg _ _ _ n4
    have t5 := term_nonneg _ _ _ n5
    have t6 := term_nonneg _ _ _ n6
    linarith
  have hrow := hrows im jm km hi hj hk
  have : 0 ≤ P.dt * P.applyA w im jm km := mul_nonneg hdt.le hA
  linarith

/-! ### 2. one-step weighted contraction with an abstract barrier -/

/-- wall kinds of the homogeneous (error) problem -/
inductive EWall where
  | fix                              -- the error vanishes on the wall node
  | neumann                          -- `ins`, or `flux` with the same data: zero ghost difference
  | robin (β : Nat → Nat → ℝ)        -- `conv` with the same film coefficient, `β = dr·h/k`

/-- wall relation of an error field: `e1` the wall node, `e0` its ghost -/
def EWall.err (w : EWall) (j k : Nat) (e1 e0 : ℝ) : Prop :=
  match w with
  | .fix => e1 = 0
  | .neumann => e1 - e0 = 0
  | .robin β => e1 - e0 = β j k * e1

/-- wall relation a barrier has to satisfy: `p1` the wall node, `p0` its ghost -/
def EWall.bar (w : EWall) (j k : Nat) (p1 p0 : ℝ) : Prop :=
  match w with
  | .fix => True
  | .neumann => p1 ≤ p0
  | .robin β => p1 - p0 ≤ β j k * p1

/-- the film number of a Robin wall is non-negative on the real wall nodes -/
def EWall.ok (w : EWall) (rj rk : Nat → Bool) : Prop :=
  match w with
  | .robin β => ∀ j k, rj j = true → rk k = true → 0 ≤ β j k
  | _ => True

/-- `e` is the error after one homogeneous transient step started from the error `en` -/
structure Prob.ErrStep (P : Prob ℝ) (wi wo : EWall) (en e : GField ℝ) : Prop where
  rows : ∀ i j k, P.isRealI i = true → P.isRealJ j = true → P.isRealK k = true →
      e i j k - P.dt * P.applyA e i j k = en i j k
  ghosts : P.Ghosts e
  inner : ∀ j k, P.isRealJ j = true → P.isRealK k = true → wi.err j k (e 1 j k) (e 0 j k)
  outer : ∀ j k, P.isRealJ j = true → P.isRealK k = true →
      wo.err j k (e P.N j k) (e (P.N+1) j k)

/-- `φ` is a barrier: positive, bounded by `Φ`, `A φ ≤ −δ`, compatible with the walls -/
structure Prob.Barrier (P : Prob ℝ) (wi wo : EWall) (φ : GField ℝ) (δ Φ : ℝ) : Prop where
  pos : ∀ i j k, P.isRealI i = true → P.isRealJ j = true → P.isRealK k = true → 0 < φ i j k
  le : ∀ i j k, P.isRealI i = true → P.isRealJ j = true → P.isRealK k = true → φ i j k ≤ Φ
  sup : ∀ i j k, P.isRealI i = true → P.isRealJ j = true → P.isRealK k = true →
      P.applyA φ i j k ≤ -δ
  ghosts : P.Ghosts φ
  inner : ∀ j k, P.isRealJ j = true → P.isRealK k = true → wi.bar j k (φ 1 j k) (φ 0 j k)
  outer : ∀ j k, P.isRealJ j = true → P.isRealK k = true →
      wo.bar j k (φ P.N j k) (φ (P.N+1) j k)

theorem applyA_lin (P : Prob ℝ) (a b : ℝ) (T T' : GField ℝ) (i j k : Nat) :
    P.applyA (fun i j k => a * T i j k + b * T' i j k) i j k
      = a * P.applyA T i j k + b * P.applyA T' i j k := by
  unfold Prob.applyA; ring

theorem Prob.ErrStep.neg {P : Prob ℝ} {wi wo : EWall} {en e : GField ℝ}
    (h : P.ErrStep wi wo en e) :
    P.ErrStep wi wo (fun i j k => -en i j k) (fun i j k => -e i j k) := by
  obtain ⟨hr, ⟨hp, hz⟩, hi, ho⟩ := h
  refine ⟨?_, ⟨?_, ?_⟩, ?_, ?_⟩
  · intro i j k a b c
    have := hr i j k a b c
    have hA : P.applyA (fun i j k => -e i j k) i j k = -P.applyA e i j k := by
      unfold Prob.applyA; ring
    rw [hA]; linarith
  · intro h2 i k a c
    obtain ⟨q1, q2⟩ := hp h2 i k a c
    exact ⟨by linarith, by linarith⟩
  · intro h3 i j a b
    obtain ⟨q1, q2⟩ := hz h3 i j a b
    exact ⟨by linarith, by linarith⟩
  · intro j k b c
    have := hi j k b c
    cases wi with
    | fix => simp only [EWall.err] at this ⊢; linarith
    | neumann => simp only [EWall.err] at this ⊢; linarith
    | robin β => simp only [EWall.err] at this ⊢; linarith
  · intro j k b c
    have := ho j k b c
    cases wo with
    | fix => simp only [EWall.err] at this ⊢; linarith
    | neumann => simp only [EWall.err] at this ⊢; linarith
    | robin β => simp only [EWall.err] at this ⊢; linarith

/-- the contraction factor `Φ/(Φ + dt·δ)` -/
noncomputable def decayRate (Φ dt δ : ℝ) : ℝ := Φ / (Φ + dt * δ)

theorem decayRate_pos {Φ dt δ : ℝ} (hΦ : 0 < Φ) (hdt : 0 < dt) (hδ : 0 < δ) :
    0 < decayRate Φ dt δ := by
  unfold decayRate; positivity

theorem decayRate_lt_one {Φ dt δ : ℝ} (hΦ : 0 < Φ) (hdt : 0 < dt) (hδ : 0 < δ) :
    decayRate Φ dt δ < 1 := by
  unfold decayRate
  have : 0 < dt * δ := mul_pos hdt hδ
  rw [div_lt_one (by linarith)]; linarith

/-- `ρ·(x + c) ≥ x` for `0 ≤ x ≤ Φ`, `ρ = Φ/(Φ + c)` -/
theorem decayRate_key {Φ dt δ x : ℝ} (hΦ : 0 < Φ) (hdt : 0 < dt) (hδ : 0 < δ) (hx : x ≤ Φ) :
    x ≤ decayRate Φ dt δ * (x + dt * δ) := by
  unfold decayRate
  have hc : 0 < dt * δ := mul_pos hdt hδ
  have hpos : 0 < Φ + dt * δ := by linarith
  rw [div_mul_eq_mul_div, le_div_iff₀ hpos]
  nlinarith

/-- wall step of the comparison argument: `w = c·φ − e` has its ghost not below a negative wall
node -/
theorem EWall.ghost_ge (w : EWall) (j k : Nat) (c p1 p0 e1 e0 : ℝ)
    (hβ : ∀ β, w = .robin β → 0 ≤ β j k) (hc : 0 ≤ c) (hp1 : 0 < p1)
    (hbar : w.bar j k p1 p0) (herr : w.err j k e1 e0) (hneg : c * p1 - e1 < 0) :
    c * p1 - e1 ≤ c * p0 - e0 := by
  cases w with
  | fix =>
    simp only [EWall.err] at herr
    have : 0 ≤ c * p1 := mul_nonneg hc hp1.le
    linarith
  | neumann =>
    simp only [EWall.err, EWall.bar] at herr hbar
    have : c * p1 ≤ c * p0 := mul_le_mul_of_nonneg_left hbar hc
    linarith
  | robin β =>
    simp only [EWall.err, EWall.bar] at herr hbar
    have hb := hβ β rfl
    have h1 : c * (p1 - p0) ≤ c * (β j k * p1) := mul_le_mul_of_nonneg_left hbar hc
    have h2 : β j k * (c * p1 - e1) ≤ 0 := mul_nonpos_of_nonneg_of_nonpos hb hneg.le
    nlinarith

/-- one-sided form of the weighted contraction -/
theorem weighted_contraction_upper (P : Prob ℝ) (wi wo : EWall) (en e φ : GField ℝ) (δ Φ M : ℝ)
    (hs : P.Sized) (hdt : 0 < P.dt) (hw : P.WeightsNonneg) (hδ : 0 < δ) (hΦ : 0 < Φ)
    (hwi : wi.ok P.isRealJ P.isRealK) (hwo : wo.ok P.isRealJ P.isRealK)
    (hb : P.Barrier wi wo φ δ Φ) (he : P.ErrStep wi wo en e) (hM : 0 ≤ M)
    (hen : ∀ i j k, P.isRealI i = true → P.isRealJ j = true → P.isRealK k = true →
      en i j k ≤ M * φ i j k) :
    ∀ i j k, P.isRealI i = true → P.isRealJ j = true → P.isRealK k = true →
      e i j k ≤ decayRate Φ P.dt δ * M * φ i j k := by
  set ρ := decayRate Φ P.dt δ with hρ
  have hρ0 : 0 < ρ := decayRate_pos hΦ hdt hδ
  have hc : 0 ≤ ρ * M := mul_nonneg hρ0.le hM
  have h1R : P.isRealI 1 = true := by simp [Prob.isRealI]; exact hs.hN
  have hNR : P.isRealI P.N = true := by simp [Prob.isRealI]; exact hs.hN
  have key := supersolution_nonneg P (fun i j k => (ρ * M) * φ i j k + (-1) * e i j k) hs hdt hw
    (by
      intro i j k a b c
      rw [applyA_lin P (ρ * M) (-1) φ e i j k]
      have r := he.rows i j k a b c
      have s := hb.sup i j k a b c
      have p := hb.pos i j k a b c
      have l := hb.le i j k a b c
      have n := hen i j k a b c
      have k1 := decayRate_key (x := φ i j k) hΦ hdt hδ l
      rw [← hρ] at k1
      have k2 : M * φ i j k ≤ M * (ρ * (φ i j k + P.dt * δ)) := mul_le_mul_of_nonneg_left k1 hM
      have k3 : P.dt * P.applyA φ i j k ≤ P.dt * (-δ) := mul_le_mul_of_nonneg_left s hdt.le
      have k4 : (ρ * M) * (P.dt * P.applyA φ i j k) ≤ (ρ * M) * (P.dt * (-δ)) :=
        mul_le_mul_of_nonneg_left k3 hc
      nlinarith)
    (by
      obtain ⟨p1, p2⟩ := hb.ghosts
      obtain ⟨q1, q2⟩ := he.ghosts
      refine ⟨?_, ?_⟩
      · intro h2 i k a c
        obtain ⟨x1, x2⟩ := p1 h2 i k a c
        obtain ⟨y1, y2⟩ := q1 h2 i k a c
        constructor
        · linear_combination (ρ * M) * x1 - y1
        · linear_combination (ρ * M) * x2 - y2
      · intro h3 i j a b
        obtain ⟨x1, x2⟩ := p2 h3 i j a b
        obtain ⟨y1, y2⟩ := q2 h3 i j a b
        constructor
        · linear_combination (ρ * M) * x1 - y1
        · linear_combination (ρ * M) * x2 - y2)
    (by
      intro j k b c hneg
      have := EWall.ghost_ge wi j k (ρ * M) (φ 1 j k) (φ 0 j k) (e 1 j k) (e 0 j k)
        (by intro β hβ; subst hβ; exact hwi j k b c) hc (hb.pos 1 j k h1R b c)
        (hb.inner j k b c) (he.inner j k b c) (by linarith)
      linarith)
    (by
      intro j k b c hneg
      have := EWall.ghost_ge wo j k (ρ * M) (φ P.N j k) (φ (P.N+1) j k) (e P.N j k)
        (e (P.N+1) j k)
        (by intro β hβ; subst hβ; exact hwo j k b c) hc (hb.pos P.N j k hNR b c)
        (hb.outer j k b c) (he.outer j k b c) (by linarith)
      linarith)
  intro i j k a b c
  have := key i j k a b c
  linarith

/-- **One-step weighted contraction.** With a barrier `φ` (`0 < φ ≤ Φ`, `A φ ≤ −δ`), an error bounded
by `M·φ` before the step is bounded by `ρ·M·φ` after it, `ρ = Φ/(Φ + dt·δ) < 1`. -/
theorem weighted_contraction (P : Prob ℝ) (wi wo : EWall) (en e φ : GField ℝ) (δ Φ M : ℝ)
    (hs : P.Sized) (hdt : 0 < P.dt) (hw : P.WeightsNonneg) (hδ : 0 < δ) (hΦ : 0 < Φ)
    (hwi : wi.ok P.isRealJ P.isRealK) (hwo : wo.ok P.isRealJ P.isRealK)
    (hb : P.Barrier wi wo φ δ Φ) (he : P.ErrStep wi wo en e) (hM : 0 ≤ M)
    (hen : ∀ i j k, P.isRealI i = true → P.isRealJ j = true → P.isRealK k = true →
      |en i j k| ≤ M * φ i j k) :
    ∀ i j k, P.isRealI i = true → P.isRealJ j = true → P.isRealK k = true →
      |e i j k| ≤ decayRate Φ P.dt δ * M * φ i j k := by
  have up := weighted_contraction_upper P wi wo en e φ δ Φ M hs hdt hw hδ hΦ hwi hwo hb he hM
    (fun i j k a b c => (abs_le.1 (hen i j k a b c)).2)
  have lo := weighted_contraction_upper P wi wo _ _ φ δ Φ M hs hdt hw hδ hΦ hwi hwo hb he.neg hM
    (fun i j k a b c => by have := (abs_le.1 (hen i j k a b c)).1; linarith)
  intro i j k a b c
  have u := up i j k a b c
  have l := lo i j k a b c
  rw [abs_le]; constructor <;> linarith

/-! ### 3. `n` steps -/

/-- **Geometric decay in the weighted norm.** -/
theorem weighted_decay (P : Prob ℝ) (wi wo : EWall) (e : ℕ → GField ℝ) (φ : GField ℝ) (δ Φ M : ℝ)
    (hs : P.Sized) (hdt : 0 < P.dt) (hw : P.WeightsNonneg) (hδ : 0 < δ) (hΦ : 0 < Φ)
    (hwi : wi.ok P.isRealJ P.isRealK) (hwo : wo.ok P.isRealJ P.isRealK)
    (hb : P.Barrier wi wo φ δ Φ) (he : ∀ n, P.ErrStep wi wo (e n) (e (n+1))) (hM : 0 ≤ M)
    (h0 : ∀ i j k, P.isRealI i = true → P.isRealJ j = true → P.isRealK k = true →
      |e 0 i j k| ≤ M * φ i j k) (n : ℕ) :
    ∀ i j k, P.isRealI i = true → P.isRealJ j = true → P.isRealK k = true →
      |e n i j k| ≤ decayRate Φ P.dt δ ^ n * M * φ i j k := by
  have hρ0 : 0 < decayRate Φ P.dt δ := decayRate_pos hΦ hdt hδ
  induction n with
  | zero => intro i j k a b c; simpa using h0 i j k a b c
  | succ n ih =>
    have := weighted_contraction P wi wo (e n) (e (n+1)) φ δ Φ (decayRate Φ P.dt δ ^ n * M)
      hs hdt hw hδ hΦ hwi hwo hb (he n) (mul_nonneg (pow_nonneg hρ0.le n) hM) ih
    intro i j k a b c
    have h := this i j k a b c
    rw [pow_succ]
    calc |e (n+1) i j k| ≤ _ := h
      _ = _ := by ring

/-- **Geometric decay in the maximum norm.** `|e₀| ≤ B` and `φmin ≤ φ` on the real nodes give
`|eₙ| ≤ ρⁿ·(Φ/φmin)·B`. -/
theorem max_decay (P : Prob ℝ) (wi wo : EWall) (e : ℕ → GField ℝ) (φ : GField ℝ)
    (δ Φ φmin B : ℝ)
    (hs : P.Sized) (hdt : 0 < P.dt) (hw : P.WeightsNonneg) (hδ : 0 < δ) (hΦ : 0 < Φ)
    (hwi : wi.ok P.isRealJ P.isRealK) (hwo : wo.ok P.isRealJ P.isRealK)
    (hb : P.Barrier wi wo φ δ Φ) (he : ∀ n, P.ErrStep wi wo (e n) (e (n+1)))
    (hmin : 0 < φmin)
    (hφ : ∀ i j k, P.isRealI i = true → P.isRealJ j = true → P.isRealK k = true →
      φmin ≤ φ i j k)
    (h0 : ∀ i j k, P.isRealI i = true → P.isRealJ j = true → P.isRealK k = true →
      |e 0 i j k| ≤ B) (n : ℕ) :
    ∀ i j k, P.isRealI i = true → P.isRealJ j = true → P.isRealK k = true →
      |e n i j k| ≤ decayRate Φ P.dt δ ^ n * (Φ / φmin) * B := by
  have hρ0 : 0 < decayRate Φ P.dt δ := decayRate_pos hΦ hdt hδ
  have hB : 0 ≤ B := by
    obtain ⟨⟨i, j, k⟩, hm⟩ := nodes_nonempty P hs
    obtain ⟨a, b, c⟩ := (mem_nodes P i j k).1 hm
    exact le_trans (abs_nonneg _) (h0 i j k a b c)
  have hM : 0 ≤ B / φmin := div_nonneg hB hmin.le
  have key := weighted_decay P wi wo e φ δ Φ (B / φmin) hs hdt hw hδ hΦ hwi hwo hb he hM
    (by
      intro i j k a b c
      have h1 := h0 i j k a b c
      have h2 := hφ i j k a b c
      have h3 : B / φmin * φmin ≤ B / φmin * φ i j k := mul_le_mul_of_nonneg_left h2 hM
      have h4 : B / φmin * φmin = B := div_mul_cancel₀ B hmin.ne'
      linarith) n
  intro i j k a b c
  have h := key i j k a b c
  have hc : 0 ≤ decayRate Φ P.dt δ ^ n * (B / φmin) := mul_nonneg (pow_nonneg hρ0.le n) hM
  have h5 : decayRate Φ P.dt δ ^ n * (B / φmin) * φ i j k
      ≤ decayRate Φ P.dt δ ^ n * (B / φmin) * Φ :=
    mul_le_mul_of_nonneg_left (hb.le i j k a b c) hc
  calc |e n i j k| ≤ _ := h
    _ ≤ _ := h5
    _ = _ := by ring

/-! ### bridge: the difference of two solutions of the step is an error field -/

/-- wall kind of the error problem belonging to a wall of the step -/
noncomputable def Wall.toE (w : Wall ℝ) (dr : ℝ) (kw : Nat → Nat → ℝ) : EWall :=
  match w with
  | .ins => .neumann
  | .fix _ => .fix
  | .flux _ => .neumann
  | .conv _ h => .robin (fun j k => dr * h j k / kw j k)

theorem Wall.toE_ok (w : Wall ℝ) (dr : ℝ) (kw : Nat → Nat → ℝ) (rj rk : Nat → Bool)
    (hc : ∀ tf h, w = .conv tf h → ∀ j k, 0 ≤ dr * h j k / kw j k) : (w.toE dr kw).ok rj rk := by
  cases w with
  | ins => simp [Wall.toE, EWall.ok]
  | fix v => simp [Wall.toE, EWall.ok]
  | flux q => simp [Wall.toE, EWall.ok]
  | conv tf h =>
    simp only [Wall.toE, EWall.ok]
    exact fun j k _ _ => hc tf h rfl j k

theorem applyA_sub (P : Prob ℝ) (T T' : GField ℝ) (i j k : Nat) :
    P.applyA (fun i j k => T i j k - T' i j k) i j k = P.applyA T i j k - P.applyA T' i j k := by
  unfold Prob.applyA; ring

/-- **Bridge.** Two solutions of the transient step with the same source and wall data (started
from `d.Tn` and from `Tn'`): their difference is an error field with previous error `d.Tn − Tn'`. -/
theorem errStep_of_solves (P : Prob ℝ) (d : Data) (Tn' T T' : GField ℝ) (hst : P.steady = false)
    (h1 : (P.withData d).Solves T) (h2 : (P.withData { d with Tn := Tn' }).Solves T') :
    P.ErrStep (d.inner.toE P.dr (fun j k => P.kk 1 j k)) (d.outer.toE P.dr (fun j k => P.kk P.N j k))
      (fun i j k => d.Tn i j k - Tn' i j k) (fun i j k => T i j k - T' i j k) := by
  obtain ⟨s, tn, wi, wo⟩ := d
  obtain ⟨r1, i1, o1, p1, z1⟩ := h1
  obtain ⟨r2, i2, o2, p2, z2⟩ := h2
  refine ⟨?_, ⟨?_, ?_⟩, ?_, ?_⟩
  · intro i j k a b c
    have e1 := r1 i j k a b c
    have e2 := r2 i j k a b c
    unfold Prob.lhsReal Prob.rhsReal at e1 e2
    have hs1 : (P.withData ⟨s, tn, wi, wo⟩).steady = false := hst
    have hs2 : (P.withData ⟨s, Tn', wi, wo⟩).steady = false := hst
    rw [hs1] at e1
    rw [hs2] at e2
    simp only [Bool.false_eq_true, if_false] at e1 e2
    have a1 : (P.withData ⟨s, tn, wi, wo⟩).applyA T i j k = P.applyA T i j k := rfl
    have a2 : (P.withData ⟨s, Tn', wi, wo⟩).applyA T' i j k = P.applyA T' i j k := rfl
    rw [a1] at e1
    rw [a2] at e2
    simp only [Prob.withData] at e1 e2
    rw [applyA_sub]
    linear_combination e1 - e2
  · intro hn i k a c
    have q1 := p1 hn i k a c
    have q2 := p2 hn i k a c
    simp only [Prob.withData] at q1 q2
    exact ⟨by linear_combination q1.1 - q2.1, by linear_combination q1.2 - q2.2⟩
  · intro hn i j a b
    have q1 := z1 hn i j a b
    have q2 := z2 hn i j a b
    simp only [Prob.withData] at q1 q2
    exact ⟨by linear_combination q1.1 - q2.1, by linear_combination q1.2 - q2.2⟩
  · intro j k b c
    have q1 := i1 j k b c
    have q2 := i2 j k b c
    cases wi with
    | ins =>
      simp only [Prob.innerRes, Prob.withData] at q1 q2
      simp only [Wall.toE, EWall.err]; linear_combination q1 - q2
    | fix v =>
      simp only [Prob.innerRes, Prob.withData] at q1 q2
      simp only [Wall.toE, EWall.err]; linear_combination q1 - q2
    | flux q =>
      simp only [Prob.innerRes, Prob.withData] at q1 q2
      simp only [Wall.toE, EWall.err]; linear_combination q1 - q2
    | conv tf h =>
      simp only [Prob.innerRes, Prob.withData] at q1 q2
      simp only [Wall.toE, EWall.err]; linear_combination q1 - q2
  · intro j k b c
    have q1 := o1 j k b c
    have q2 := o2 j k b c
    cases wo with
    | ins =>
      simp only [Prob.outerRes, Prob.withData] at q1 q2
      simp only [Wall.toE, EWall.err]; linear_combination q1 - q2
    | fix v =>
      simp only [Prob.outerRes, Prob.withData] at q1 q2
      simp only [Wall.toE, EWall.err]; linear_combination q1 - q2
    | flux q =>
      simp only [Prob.outerRes, Prob.withData] at q1 q2
      simp only [Wall.toE, EWall.err]; linear_combination q1 - q2
    | conv tf h =>
      simp only [Prob.outerRes, Prob.withData] at q1 q2
      simp only [Wall.toE, EWall.err]; linear_combination q1 - q2

/-! ### 4. concrete barriers: uniform radial grid, constant coefficient -/

/-- constant coefficient `a > 0` and uniform radial grid `r_{i+1} = r_i + dr`, `dr > 0`, `r_0 > 0` -/
structure Prob.UniformRadial (P : Prob ℝ) (a : ℝ) : Prop where
  ha  : 0 < a
  hc  : ∀ i j k, P.c i j k = a
  hrr : ∀ i, P.rr (i+1) = P.rr i + P.dr
  hdr : 0 < P.dr
  hr0 : 0 < P.rr 0

/-- discrete logarithm `g i = Σ_{m<i} 1/r_{m+½}`: `r_{i+½}·(g (i+1) − g i) = 1` -/
noncomputable def Prob.gsum (P : Prob ℝ) (i : Nat) : ℝ := ∑ m ∈ Finset.range i, 1 / P.rh m

/-- the barrier `C − r_i² + b·g i` -/
noncomputable def Prob.radBar (P : Prob ℝ) (C b : ℝ) : GField ℝ :=
  fun i _ _ => C - (P.rr i) ^ 2 + b * P.gsum i

theorem Prob.gsum_succ (P : Prob ℝ) (i : Nat) : P.gsum (i+1) = P.gsum i + 1 / P.rh i := by
  unfold Prob.gsum; rw [Finset.sum_range_succ]

namespace Prob.UniformRadial
variable {P : Prob ℝ} {a : ℝ} (hu : P.UniformRadial a)
include hu

theorem rr_pos (i : Nat) : 0 < P.rr i := by
  induction i with
  | zero => exact hu.hr0
  | succ n ih => rw [hu.hrr]; have := hu.hdr; linarith

theorem rh_eq (i : Nat) : P.rh i = P.rr i + P.dr / 2 := by
  unfold Prob.rh; rw [hu.hrr]; ring

theorem rh_pos (i : Nat) : 0 < P.rh i := by
  rw [hu.rh_eq]; have := hu.rr_pos i; have := hu.hdr; linarith

theorem rr_mono {i j : Nat} (h : i ≤ j) : P.rr i ≤ P.rr j := by
  induction j, h using Nat.le_induction with
  | base => exact le_refl _
  | succ n _ ih => rw [hu.hrr]; have := hu.hdr; linarith

theorem gsum_nonneg (i : Nat) : 0 ≤ P.gsum i := by
  unfold Prob.gsum
  exact Finset.sum_nonneg (fun m _ => (one_div_pos.2 (hu.rh_pos m)).le)

theorem gsum_mono {i j : Nat} (h : i ≤ j) : P.gsum i ≤ P.gsum j := by
  induction j, h using Nat.le_induction with
  | base => exact le_refl _
  | succ n _ ih =>
    rw [P.gsum_succ]; have := one_div_pos.2 (hu.rh_pos n); linarith

theorem weightsNonneg : P.WeightsNonneg :=
  weightsNonneg_of_pos P (fun i j k => by rw [hu.hc]; exact hu.ha.le)
    (fun i _ => hu.rr_pos i) (fun i _ => (hu.rh_pos i).le)

/-- increment of the barrier across the face `i+½` -/
theorem radBar_succ_sub (C b : ℝ) (i j k j' k' : Nat) :
    P.radBar C b (i+1) j k - P.radBar C b i j' k' = -(2 * P.dr * P.rh i) + b / P.rh i := by
  unfold Prob.radBar
  rw [P.gsum_succ, hu.hrr, hu.rh_eq]
  ring

omit hu in
theorem radial_alg (r dr a b h0 h1 r1 : ℝ) (e0 : h0 = r + dr / 2) (e1 : h1 = r + 3 * dr / 2)
    (er : r1 = r + dr) (hr : 0 < r) (hdr : 0 < dr) :
    h0 * a / (r1 * (dr * dr)) * (2 * dr * h0 - b / h0)
      + h1 * a / (r1 * (dr * dr)) * (-(2 * dr * h1) + b / h1) = -(4 * a) := by
  have p0 : h0 ≠ 0 := by rw [e0]; positivity
  have p1 : h1 ≠ 0 := by rw [e1]; positivity
  have pr : r1 ≠ 0 := by rw [er]; positivity
  have pd : dr ≠ 0 := hdr.ne'
  field_simp
  rw [e0, e1, er]
  ring

/-- `A φ = −4a` for `φ = C − r² + b·g` at every node with `i ≥ 1` -/
theorem applyA_radBar (C b : ℝ) (i j k : Nat) (hi : 1 ≤ i) :
    P.applyA (P.radBar C b) i j k = -(4 * a) := by
  obtain ⟨m, rfl⟩ : ∃ m, i = m + 1 := ⟨i - 1, by omega⟩
  have d1 := hu.radBar_succ_sub C b m j k j k
  have d2 := hu.radBar_succ_sub C b (m+1) j k j k
  have ht1 : P.radBar C b (m+1) (j-1) k - P.radBar C b (m+1) j k = 0 := by simp [Prob.radBar]
  have ht2 : P.radBar C b (m+1) (j+1) k - P.radBar C b (m+1) j k = 0 := by simp [Prob.radBar]
  have hz1 : P.radBar C b (m+1) j (k-1) - P.radBar C b (m+1) j k = 0 := by simp [Prob.radBar]
  have hz2 : P.radBar C b (m+1) j (k+1) - P.radBar C b (m+1) j k = 0 := by simp [Prob.radBar]
  have d1' : P.radBar C b m j k - P.radBar C b (m+1) j k = 2 * P.dr * P.rh m - b / P.rh m := by
    linarith
  unfold Prob.applyA
  rw [ht1, ht2, hz1, hz2]
  simp only [Nat.add_sub_cancel]
  rw [d1', d2]
  unfold Prob.wrm Prob.wrp Prob.ahr
  simp only [Nat.add_sub_cancel, hu.hc]
  have ea : (a + a) / 2 = a := by ring
  rw [ea]
  have := radial_alg (P.rr m) P.dr a b (P.rh m) (P.rh (m+1)) (P.rr (m+1)) (hu.rh_eq m)
    (by rw [hu.rh_eq, hu.hrr]; ring) (hu.hrr m) (hu.rr_pos m) hu.hdr
  linarith

theorem radBar_gt_one (C b : ℝ) (hb : 0 ≤ b) (hC : (P.rr (P.N+1)) ^ 2 + 1 < C) (i j k : Nat)
    (hi : i ≤ P.N + 1) : 1 < P.radBar C b i j k := by
  unfold Prob.radBar
  have h1 := hu.rr_mono hi
  have h2 := hu.rr_pos i
  have h3 : (P.rr i) ^ 2 ≤ (P.rr (P.N+1)) ^ 2 := by nlinarith
  have h4 : 0 ≤ b * P.gsum i := mul_nonneg hb (hu.gsum_nonneg i)
  linarith

theorem radBar_le (C b : ℝ) (hb : 0 ≤ b) (i j k : Nat) (hi : i ≤ P.N) :
    P.radBar C b i j k ≤ C + b * P.gsum P.N := by
  unfold Prob.radBar
  have h3 : 0 ≤ (P.rr i) ^ 2 := sq_nonneg _
  have h4 : b * P.gsum i ≤ b * P.gsum P.N := mul_le_mul_of_nonneg_left (hu.gsum_mono hi) hb
  linarith

omit hu in
theorem radBar_ghosts (C b : ℝ) : P.Ghosts (P.radBar C b) := by
  refine ⟨?_, ?_⟩
  · intro _ i k _ _; simp [Prob.radBar]
  · intro _ i j _ _; simp [Prob.radBar]

/-- the radial barrier: everything except the two wall conditions -/
theorem radBar_barrier (wi wo : EWall) (C b : ℝ) (hb : 0 ≤ b) (hC : (P.rr (P.N+1)) ^ 2 + 1 < C)
    (hin : ∀ j k, P.isRealJ j = true → P.isRealK k = true →
      wi.bar j k (P.radBar C b 1 j k) (P.radBar C b 0 j k))
    (hout : ∀ j k, P.isRealJ j = true → P.isRealK k = true →
      wo.bar j k (P.radBar C b P.N j k) (P.radBar C b (P.N+1) j k)) :
    P.Barrier wi wo (P.radBar C b) (4 * a) (C + b * P.gsum P.N) := by
  refine ⟨?_, ?_, ?_, radBar_ghosts C b, hin, hout⟩
  · intro i j k hi _ _
    have hiR : 1 ≤ i ∧ i ≤ P.N := by simpa [Prob.isRealI] using hi
    have := hu.radBar_gt_one C b hb hC i j k (by omega)
    linarith
  · intro i j k hi _ _
    have hiR : 1 ≤ i ∧ i ≤ P.N := by simpa [Prob.isRealI] using hi
    exact hu.radBar_le C b hb i j k hiR.2
  · intro i j k hi _ _
    have hiR : 1 ≤ i ∧ i ≤ P.N := by simpa [Prob.isRealI] using hi
    exact le_of_eq (hu.applyA_radBar C b i j k hiR.1)

end Prob.UniformRadial

theorem EWall.bar_of_le (w : EWall) (rj rk : Nat → Bool) (j k : Nat) (p1 p0 : ℝ)
    (hok : w.ok rj rk) (hj : rj j = true) (hk : rk k = true) (hp : 0 ≤ p1) (h : p1 ≤ p0) :
    w.bar j k p1 p0 := by
  cases w with
  | fix => simp [EWall.bar]
  | neumann => exact h
  | robin β =>
    simp only [EWall.bar]
    have := mul_nonneg (hok j k hj hk) hp
    linarith

theorem Prob.Barrier.mono {P : Prob ℝ} {wi wo : EWall} {φ : GField ℝ} {δ Φ Φ' : ℝ}
    (h : P.Barrier wi wo φ δ Φ) (hΦ : Φ ≤ Φ') : P.Barrier wi wo φ δ Φ' :=
  ⟨h.pos, fun i j k a b c => le_trans (h.le i j k a b c) hΦ, h.sup, h.ghosts, h.inner, h.outer⟩

namespace Prob.UniformRadial
variable {P : Prob ℝ} {a : ℝ} (hu : P.UniformRadial a)
include hu

/-- **(i)** outer wall `fix`, inner wall of any kind: `φ = C − r²`, `Φ = C`. -/
theorem barrier_outer_fix (wi : EWall) (C : ℝ) (hwi : wi.ok P.isRealJ P.isRealK)
    (hC : (P.rr (P.N+1)) ^ 2 + 1 < C) :
    P.Barrier wi .fix (P.radBar C 0) (4 * a) C := by
  have := hu.radBar_barrier wi .fix C 0 (le_refl _) hC
    (by
      intro j k hj hk
      have h1 := hu.radBar_gt_one C 0 (le_refl _) hC 1 j k (by omega)
      have h2 := hu.radBar_succ_sub C 0 0 j k j k
      have h3 : 0 < 2 * P.dr * P.rh 0 := by have := hu.hdr; have := hu.rh_pos 0; positivity
      simp only [zero_div, add_zero, zero_add] at h2
      exact EWall.bar_of_le wi _ _ j k _ _ hwi hj hk (by linarith) (by linarith))
    (by intro j k _ _; simp [EWall.bar])
  exact this.mono (by simp)

/-- the coefficient of the discrete logarithm that flattens the barrier at the outer wall -/
noncomputable def _root_.SrModel.Thermal.Prob.decayB (P : Prob ℝ) : ℝ := 2 * P.dr * (P.rh P.N) ^ 2

theorem decayB_nonneg : 0 ≤ P.decayB := by
  unfold Prob.decayB; have := hu.hdr; positivity

theorem radBar_outer_flat (C : ℝ) (j k j' k' : Nat) :
    P.radBar C P.decayB (P.N+1) j k - P.radBar C P.decayB P.N j' k' = 0 := by
  rw [hu.radBar_succ_sub]
  unfold Prob.decayB
  have := (hu.rh_pos P.N).ne'
  field_simp
  ring

/-- **(ii)** inner wall `fix`, outer wall of any kind: `φ = C − r² + b·g`, `b = 2·dr·r_{N+½}²`. -/
theorem barrier_inner_fix (wo : EWall) (C : ℝ) (hwo : wo.ok P.isRealJ P.isRealK)
    (hC : (P.rr (P.N+1)) ^ 2 + 1 < C) :
    P.Barrier .fix wo (P.radBar C P.decayB) (4 * a) (C + P.decayB * P.gsum P.N) := by
  refine hu.radBar_barrier .fix wo C P.decayB hu.decayB_nonneg hC
    (by intro j k _ _; simp [EWall.bar]) ?_
  intro j k hj hk
  have h1 := hu.radBar_gt_one C P.decayB hu.decayB_nonneg hC P.N j k (by omega)
  have h2 := hu.radBar_outer_flat C j k j k
  exact EWall.bar_of_le wo _ _ j k _ _ hwo hj hk (by linarith) (by linarith)

/-- **(iii)** inner wall Robin with film number `β ≥ β0 > 0`, outer wall of any kind. -/
theorem barrier_inner_robin (β : Nat → Nat → ℝ) (β0 : ℝ) (wo : EWall) (C : ℝ)
    (hβ : ∀ j k, P.isRealJ j = true → P.isRealK k = true → β0 ≤ β j k) (hβ0 : 0 < β0)
    (hwo : wo.ok P.isRealJ P.isRealK)
    (hC : (P.rr (P.N+1)) ^ 2 + 1 < C) (hC2 : P.decayB / P.rh 0 ≤ β0 * (C - (P.rr 1) ^ 2)) :
    P.Barrier (.robin β) wo (P.radBar C P.decayB) (4 * a) (C + P.decayB * P.gsum P.N) := by
  refine hu.radBar_barrier (.robin β) wo C P.decayB hu.decayB_nonneg hC ?_ ?_
  · intro j k hj hk
    simp only [EWall.bar]
    have h1 := hu.radBar_gt_one C P.decayB hu.decayB_nonneg hC 1 j k (by omega)
    have h2 := hu.radBar_succ_sub C P.decayB 0 j k j k
    have h3 : 0 < 2 * P.dr * P.rh 0 := by have := hu.hdr; have := hu.rh_pos 0; positivity
    have h4 : C - (P.rr 1) ^ 2 ≤ P.radBar C P.decayB 1 j k := by
      unfold Prob.radBar
      have := mul_nonneg hu.decayB_nonneg (hu.gsum_nonneg 1)
      linarith
    have h5 : β0 * (C - (P.rr 1) ^ 2) ≤ β0 * P.radBar C P.decayB 1 j k :=
      mul_le_mul_of_nonneg_left h4 hβ0.le
    have h6 : β0 * P.radBar C P.decayB 1 j k ≤ β j k * P.radBar C P.decayB 1 j k :=
      mul_le_mul_of_nonneg_right (hβ j k hj hk) (by linarith)
    linarith
  · intro j k hj hk
    have h1 := hu.radBar_gt_one C P.decayB hu.decayB_nonneg hC P.N j k (by omega)
    have h2 := hu.radBar_outer_flat C j k j k
    exact EWall.bar_of_le wo _ _ j k _ _ hwo hj hk (by linarith) (by linarith)

/-- **(iii, mirror)** outer wall Robin with film number `β ≥ β0 > 0`, inner wall of any kind. -/
theorem barrier_outer_robin (β : Nat → Nat → ℝ) (β0 : ℝ) (wi : EWall) (C : ℝ)
    (hβ : ∀ j k, P.isRealJ j = true → P.isRealK k = true → β0 ≤ β j k)
    (hwi : wi.ok P.isRealJ P.isRealK)
    (hC : (P.rr (P.N+1)) ^ 2 + 1 < C) (hC2 : 2 * P.dr * P.rh P.N ≤ β0 * (C - (P.rr P.N) ^ 2)) :
    P.Barrier wi (.robin β) (P.radBar C 0) (4 * a) C := by
  have := hu.radBar_barrier wi (.robin β) C 0 (le_refl _) hC
    (by
      intro j k hj hk
      have h1 := hu.radBar_gt_one C 0 (le_refl _) hC 1 j k (by omega)
      have h2 := hu.radBar_succ_sub C 0 0 j k j k
      have h3 : 0 < 2 * P.dr * P.rh 0 := by have := hu.hdr; have := hu.rh_pos 0; positivity
      simp only [zero_div, add_zero, zero_add] at h2
      exact EWall.bar_of_le wi _ _ j k _ _ hwi hj hk (by linarith) (by linarith))
    (by
      intro j k hj hk
      simp only [EWall.bar]
      have h1 := hu.radBar_gt_one C 0 (le_refl _) hC P.N j k (by omega)
      have h2 := hu.radBar_succ_sub C 0 P.N j k j k
      simp only [zero_div, add_zero] at h2
      have h4 : C - (P.rr P.N) ^ 2 = P.radBar C 0 P.N j k := by
        unfold Prob.radBar; ring
      have h6 : β0 * P.radBar C 0 P.N j k ≤ β j k * P.radBar C 0 P.N j k :=
        mul_le_mul_of_nonneg_right (hβ j k hj hk) (by linarith)
      rw [h4] at hC2
      linarith)
  exact this.mono (by simp)

end Prob.UniformRadial

/-! ### 5. statements about `Solves` -/

/-- one step towards a fixed point `Ts` of the step contracts the `φ`-weighted error -/
theorem solves_contracts_weighted (P : Prob ℝ) (d : Data) (T Ts φ : GField ℝ) (δ Φ M : ℝ)
    (hs : P.Sized) (hst : P.steady = false) (hdt : 0 < P.dt) (hw : P.WeightsNonneg)
    (hδ : 0 < δ) (hΦ : 0 < Φ)
    (hsol : (P.withData d).Solves T)
    (hfix : (P.withData { d with Tn := Ts }).Solves Ts)
    (hconv_in : ∀ tf h, d.inner = .conv tf h → ∀ j k, 0 ≤ P.dr * h j k / P.kk 1 j k)
    (hconv_out : ∀ tf h, d.outer = .conv tf h → ∀ j k, 0 ≤ P.dr * h j k / P.kk P.N j k)
    (hb : P.Barrier (d.inner.toE P.dr (fun j k => P.kk 1 j k))
      (d.outer.toE P.dr (fun j k => P.kk P.N j k)) φ δ Φ)
    (hM : 0 ≤ M)
    (hen : ∀ i j k, P.isRealI i = true → P.isRealJ j = true → P.isRealK k = true →
      |d.Tn i j k - Ts i j k| ≤ M * φ i j k) :
    ∀ i j k, P.isRealI i = true → P.isRealJ j = true → P.isRealK k = true →
      |T i j k - Ts i j k| ≤ decayRate Φ P.dt δ * M * φ i j k :=
  weighted_contraction P _ _ _ _ φ δ Φ M hs hdt hw hδ hΦ
    (Wall.toE_ok _ _ _ _ _ hconv_in) (Wall.toE_ok _ _ _ _ _ hconv_out) hb
    (errStep_of_solves P d Ts T Ts hst hsol hfix) hM hen

/-- `n` steps with constant operator and wall data: geometric decay towards the fixed point -/
theorem solves_decay (P : Prob ℝ) (d : Data) (T : ℕ → GField ℝ) (Ts φ : GField ℝ)
    (δ Φ φmin B : ℝ)
    (hs : P.Sized) (hst : P.steady = false) (hdt : 0 < P.dt) (hw : P.WeightsNonneg)
    (hδ : 0 < δ) (hΦ : 0 < Φ)
    (hstep : ∀ n, (P.withData { d with Tn := T n }).Solves (T (n+1)))
    (hfix : (P.withData { d with Tn := Ts }).Solves Ts)
    (hwi : (d.inner.toE P.dr (fun j k => P.kk 1 j k)).ok P.isRealJ P.isRealK)
    (hwo : (d.outer.toE P.dr (fun j k => P.kk P.N j k)).ok P.isRealJ P.isRealK)
    (hb : P.Barrier (d.inner.toE P.dr (fun j k => P.kk 1 j k))
      (d.outer.toE P.dr (fun j k => P.kk P.N j k)) φ δ Φ)
    (hmin : 0 < φmin)
    (hφ : ∀ i j k, P.isRealI i = true → P.isRealJ j = true → P.isRealK k = true →
      φmin ≤ φ i j k)
    (h0 : ∀ i j k, P.isRealI i = true → P.isRealJ j = true → P.isRealK k = true →
      |T 0 i j k - Ts i j k| ≤ B) (n : ℕ) :
    ∀ i j k, P.isRealI i = true → P.isRealJ j = true → P.isRealK k = true →
      |T n i j k - Ts i j k| ≤ decayRate Φ P.dt δ ^ n * (Φ / φmin) * B :=
  max_decay P _ _ (fun n i j k => T n i j k - Ts i j k) φ δ Φ φmin B hs hdt hw hδ hΦ hwi hwo hb
    (fun n => errStep_of_solves P { d with Tn := T n } Ts (T (n+1)) Ts hst (hstep n) hfix)
    hmin hφ h0 n

/-- the constant `C = r_{N+1}² + 2` of the explicit barriers -/
noncomputable def Prob.decayC (P : Prob ℝ) : ℝ := (P.rr (P.N+1)) ^ 2 + 2
/-- the bound `Φ = C + b·g_N` of the explicit barriers -/
noncomputable def Prob.decayPhi (P : Prob ℝ) : ℝ := P.decayC + P.decayB * P.gsum P.N

theorem Prob.UniformRadial.decayPhi_ge {P : Prob ℝ} {a : ℝ} (hu : P.UniformRadial a) :
    P.decayC ≤ P.decayPhi := by
  unfold Prob.decayPhi
  have := mul_nonneg hu.decayB_nonneg (hu.gsum_nonneg P.N)
  linarith

theorem Prob.decayC_pos (P : Prob ℝ) : 0 < P.decayC := by
  unfold Prob.decayC; positivity

/-- decay from a barrier that is at least 1: the constant is `Φ` itself -/
theorem solves_decay_one (P : Prob ℝ) (d : Data) (T : ℕ → GField ℝ) (Ts : GField ℝ)
    (δ Φ B : ℝ)
    (hs : P.Sized) (hst : P.steady = false) (hdt : 0 < P.dt) (hw : P.WeightsNonneg)
    (hδ : 0 < δ) (hΦ : 0 < Φ)
    (hstep : ∀ n, (P.withData { d with Tn := T n }).Solves (T (n+1)))
    (hfix : (P.withData { d with Tn := Ts }).Solves Ts)
    (hwi : (d.inner.toE P.dr (fun j k => P.kk 1 j k)).ok P.isRealJ P.isRealK)
    (hwo : (d.outer.toE P.dr (fun j k => P.kk P.N j k)).ok P.isRealJ P.isRealK)
    (hb : ∃ φ, P.Barrier (d.inner.toE P.dr (fun j k => P.kk 1 j k))
      (d.outer.toE P.dr (fun j k => P.kk P.N j k)) φ δ Φ ∧
      ∀ i j k, P.isRealI i = true → P.isRealJ j = true → P.isRealK k = true → 1 ≤ φ i j k)
    (h0 : ∀ i j k, P.isRealI i = true → P.isRealJ j = true → P.isRealK k = true →
      |T 0 i j k - Ts i j k| ≤ B) (n : ℕ) :
    ∀ i j k, P.isRealI i = true → P.isRealJ j = true → P.isRealK k = true →
      |T n i j k - Ts i j k| ≤ decayRate Φ P.dt δ ^ n * Φ * B := by
  obtain ⟨φ, hb, h1⟩ := hb
  have := solves_decay P d T Ts φ δ Φ 1 B hs hst hdt hw hδ hΦ hstep hfix hwi hwo hb one_pos h1 h0 n
  simpa using this

/-- **Convergence, one fixed-temperature wall.** Constant coefficient, uniform radial grid, the
other wall of any kind (film number ≥ 0): `|Tₙ − Ts| ≤ ρⁿ·Φ·B`, `ρ = Φ/(Φ + 4·a·dt)`,
`Φ = r_{N+1}² + 2 + 2·dr·r_{N+½}²·Σ_{m<N} 1/r_{m+½}`. -/
theorem converges_fix_wall (P : Prob ℝ) (d : Data) (T : ℕ → GField ℝ) (Ts : GField ℝ) (a B : ℝ)
    (hs : P.Sized) (hst : P.steady = false) (hdt : 0 < P.dt) (hu : P.UniformRadial a)
    (hconv_in : ∀ tf h, d.inner = .conv tf h → ∀ j k, 0 ≤ P.dr * h j k / P.kk 1 j k)
    (hconv_out : ∀ tf h, d.outer = .conv tf h → ∀ j k, 0 ≤ P.dr * h j k / P.kk P.N j k)
    (hwall : (∃ v, d.outer = .fix v) ∨ (∃ v, d.inner = .fix v))
    (hstep : ∀ n, (P.withData { d with Tn := T n }).Solves (T (n+1)))
    (hfix : (P.withData { d with Tn := Ts }).Solves Ts)
    (h0 : ∀ i j k, P.isRealI i = true → P.isRealJ j = true → P.isRealK k = true →
      |T 0 i j k - Ts i j k| ≤ B) (n : ℕ) :
    ∀ i j k, P.isRealI i = true → P.isRealJ j = true → P.isRealK k = true →
      |T n i j k - Ts i j k| ≤ decayRate P.decayPhi P.dt (4 * a) ^ n * P.decayPhi * B := by
  have hwi := Wall.toE_ok d.inner P.dr (fun j k => P.kk 1 j k) P.isRealJ P.isRealK hconv_in
  have hwo := Wall.toE_ok d.outer P.dr (fun j k => P.kk P.N j k) P.isRealJ P.isRealK hconv_out
  have hC : (P.rr (P.N+1)) ^ 2 + 1 < P.decayC := by unfold Prob.decayC; linarith
  have hΦ : 0 < P.decayPhi := lt_of_lt_of_le P.decayC_pos hu.decayPhi_ge
  have h4a : 0 < 4 * a := by have := hu.ha; positivity
  refine solves_decay_one P d T Ts (4 * a) P.decayPhi B hs hst hdt hu.weightsNonneg h4a hΦ
    hstep hfix hwi hwo ?_ h0 n
  rcases hwall with ⟨v, hv⟩ | ⟨v, hv⟩
  · have e : d.outer.toE P.dr (fun j k => P.kk P.N j k) = EWall.fix := by rw [hv]; rfl
    rw [e]
    refine ⟨P.radBar P.decayC 0, (hu.barrier_outer_fix _ P.decayC hwi hC).mono hu.decayPhi_ge, ?_⟩
    intro i j k hi _ _
    have hiR : 1 ≤ i ∧ i ≤ P.N := by simpa [Prob.isRealI] using hi
    exact (hu.radBar_gt_one P.decayC 0 (le_refl _) hC i j k (by omega)).le
  · have e : d.inner.toE P.dr (fun j k => P.kk 1 j k) = EWall.fix := by rw [hv]; rfl
    rw [e]
    refine ⟨P.radBar P.decayC P.decayB, hu.barrier_inner_fix _ P.decayC hwo hC, ?_⟩
    intro i j k hi _ _
    have hiR : 1 ≤ i ∧ i ≤ P.N := by simpa [Prob.isRealI] using hi
    exact (hu.radBar_gt_one P.decayC P.decayB hu.decayB_nonneg hC i j k (by omega)).le

/-- **Convergence, convective inner wall** with film number `dr·h/k ≥ β0 > 0`, outer wall of any
kind: `ρ = Φ/(Φ + 4·a·dt)` with `Φ = decayPhi + b/(r_{½}·β0)`, `b = 2·dr·r_{N+½}²`. -/
theorem converges_inner_conv (P : Prob ℝ) (d : Data) (T : ℕ → GField ℝ) (Ts : GField ℝ)
    (a B β0 : ℝ) (tf h : Nat → Nat → ℝ)
    (hs : P.Sized) (hst : P.steady = false) (hdt : 0 < P.dt) (hu : P.UniformRadial a)
    (hin : d.inner = .conv tf h) (hβ0 : 0 < β0)
    (hβ : ∀ j k, P.isRealJ j = true → P.isRealK k = true → β0 ≤ P.dr * h j k / P.kk 1 j k)
    (hconv_out : ∀ tf h, d.outer = .conv tf h → ∀ j k, 0 ≤ P.dr * h j k / P.kk P.N j k)
    (hstep : ∀ n, (P.withData { d with Tn := T n }).Solves (T (n+1)))
    (hfix : (P.withData { d with Tn := Ts }).Solves Ts)
    (h0 : ∀ i j k, P.isRealI i = true → P.isRealJ j = true → P.isRealK k = true →
      |T 0 i j k - Ts i j k| ≤ B) (n : ℕ) :
    ∀ i j k, P.isRealI i = true → P.isRealJ j = true → P.isRealK k = true →
      |T n i j k - Ts i j k|
        ≤ decayRate (P.decayPhi + P.decayB / (P.rh 0 * β0)) P.dt (4 * a) ^ n
          * (P.decayPhi + P.decayB / (P.rh 0 * β0)) * B := by
  have hwo := Wall.toE_ok d.outer P.dr (fun j k => P.kk P.N j k) P.isRealJ P.isRealK hconv_out
  have e : d.inner.toE P.dr (fun j k => P.kk 1 j k)
      = EWall.robin (fun j k => P.dr * h j k / P.kk 1 j k) := by rw [hin]; rfl
  have hwi : (d.inner.toE P.dr (fun j k => P.kk 1 j k)).ok P.isRealJ P.isRealK := by
    rw [e]; intro j k hj hk; have := hβ j k hj hk; linarith
  have hx : 0 ≤ P.decayB / (P.rh 0 * β0) :=
    div_nonneg hu.decayB_nonneg (mul_nonneg (hu.rh_pos 0).le hβ0.le)
  set C := P.decayC + P.decayB / (P.rh 0 * β0) with hCdef
  have hC : (P.rr (P.N+1)) ^ 2 + 1 < C := by rw [hCdef]; unfold Prob.decayC; linarith
  have hC2 : P.decayB / P.rh 0 ≤ β0 * (C - (P.rr 1) ^ 2) := by
    have h1 := hu.rr_mono (show 1 ≤ P.N + 1 by omega)
    have h2 := hu.rr_pos 1
    have h3 : (P.rr 1) ^ 2 ≤ (P.rr (P.N+1)) ^ 2 := by nlinarith
    have h4 : P.decayB / (P.rh 0 * β0) ≤ C - (P.rr 1) ^ 2 := by
      rw [hCdef]; unfold Prob.decayC; linarith
    have h5 : β0 * (P.decayB / (P.rh 0 * β0)) = P.decayB / P.rh 0 := by
      have := (hu.rh_pos 0).ne'
      have := hβ0.ne'
      field_simp
    have h6 := mul_le_mul_of_nonneg_left h4 hβ0.le
    linarith
  have eΦ : P.decayPhi + P.decayB / (P.rh 0 * β0) = C + P.decayB * P.gsum P.N := by
    rw [hCdef]; unfold Prob.decayPhi; ring
  have hΦ : 0 < P.decayPhi + P.decayB / (P.rh 0 * β0) := by
    have := lt_of_lt_of_le P.decayC_pos hu.decayPhi_ge; linarith
  have h4a : 0 < 4 * a := by have := hu.ha; positivity
  refine solves_decay_one P d T Ts (4 * a) _ B hs hst hdt hu.weightsNonneg h4a hΦ
    hstep hfix hwi hwo ?_ h0 n
  rw [e, eΦ]
  refine ⟨P.radBar C P.decayB, hu.barrier_inner_robin _ β0 _ C hβ hβ0 hwo hC hC2, ?_⟩
  intro i j k hi _ _
  have hiR : 1 ≤ i ∧ i ≤ P.N := by simpa [Prob.isRealI] using hi
  exact (hu.radBar_gt_one C P.decayB hu.decayB_nonneg hC i j k (by omega)).le

/-- **Convergence, convective outer wall** with film number `dr·h/k ≥ β0 > 0`, inner wall of any
kind: `ρ = Φ/(Φ + 4·a·dt)` with `Φ = r_{N+1}² + 2 + 2·dr·r_{N+½}/β0`. -/
theorem converges_outer_conv (P : Prob ℝ) (d : Data) (T : ℕ → GField ℝ) (Ts : GField ℝ)
    (a B β0 : ℝ) (tf h : Nat → Nat → ℝ)
    (hs : P.Sized) (hst : P.steady = false) (hdt : 0 < P.dt) (hu : P.UniformRadial a)
    (hout : d.outer = .conv tf h) (hβ0 : 0 < β0)
    (hβ : ∀ j k, P.isRealJ j = true → P.isRealK k = true → β0 ≤ P.dr * h j k / P.kk P.N j k)
    (hconv_in : ∀ tf h, d.inner = .conv tf h → ∀ j k, 0 ≤ P.dr * h j k / P.kk 1 j k)
    (hstep : ∀ n, (P.withData { d with Tn := T n }).Solves (T (n+1)))
    (hfix : (P.withData { d with Tn := Ts }).Solves Ts)
    (h0 : ∀ i j k, P.isRealI i = true → P.isRealJ j = true → P.isRealK k = true →
      |T 0 i j k - Ts i j k| ≤ B) (n : ℕ) :
    ∀ i j k, P.isRealI i = true → P.isRealJ j = true → P.isRealK k = true →
      |T n i j k - Ts i j k|
        ≤ decayRate (P.decayC + 2 * P.dr * P.rh P.N / β0) P.dt (4 * a) ^ n
          * (P.decayC + 2 * P.dr * P.rh P.N / β0) * B := by
  have hwi := Wall.toE_ok d.inner P.dr (fun j k => P.kk 1 j k) P.isRealJ P.isRealK hconv_in
  have e : d.outer.toE P.dr (fun j k => P.kk P.N j k)
      = EWall.robin (fun j k => P.dr * h j k / P.kk P.N j k) := by rw [hout]; rfl
  have hwo : (d.outer.toE P.dr (fun j k => P.kk P.N j k)).ok P.isRealJ P.isRealK := by
    rw [e]; intro j k hj hk; have := hβ j k hj hk; linarith
  have hx : 0 ≤ 2 * P.dr * P.rh P.N / β0 := by
    have := hu.hdr; have := hu.rh_pos P.N; positivity
  set C := P.decayC + 2 * P.dr * P.rh P.N / β0 with hCdef
  have hC : (P.rr (P.N+1)) ^ 2 + 1 < C := by rw [hCdef]; unfold Prob.decayC; linarith
  have hC2 : 2 * P.dr * P.rh P.N ≤ β0 * (C - (P.rr P.N) ^ 2) := by
    have h1 := hu.rr_mono (show P.N ≤ P.N + 1 by omega)
    have h2 := hu.rr_pos P.N
    have h3 : (P.rr P.N) ^ 2 ≤ (P.rr (P.N+1)) ^ 2 := by nlinarith
    have h4 : 2 * P.dr * P.rh P.N / β0 ≤ C - (P.rr P.N) ^ 2 := by
      rw [hCdef]; unfold Prob.decayC; linarith
    have h5 : β0 * (2 * P.dr * P.rh P.N / β0) = 2 * P.dr * P.rh P.N := by
      have := hβ0.ne'
      field_simp
    have h6 := mul_le_mul_of_nonneg_left h4 hβ0.le
    linarith
  have hΦ : 0 < C := by have := P.decayC_pos; rw [hCdef]; linarith
  have h4a : 0 < 4 * a := by have := hu.ha; positivity
  refine solves_decay_one P d T Ts (4 * a) C B hs hst hdt hu.weightsNonneg h4a hΦ
    hstep hfix hwi hwo ?_ h0 n
  rw [e]
  refine ⟨P.radBar C 0, hu.barrier_outer_robin _ β0 _ C hβ hwi hC hC2, ?_⟩
  intro i j k hi _ _
  have hiR : 1 ≤ i ∧ i ≤ P.N := by simpa [Prob.isRealI] using hi
  exact (hu.radBar_gt_one C 0 (le_refl _) hC i j k (by omega)).le

end SrModel.Thermal
