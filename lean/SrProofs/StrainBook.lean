import SrModel.StrainBook
import Mathlib.Data.Real.Basic
import Mathlib.Tactic.Ring
import Mathlib.Tactic.Linarith
import Mathlib.Tactic.FieldSimp
import Mathlib.Tactic.NormNum
import Mathlib.Tactic.FinCases
import Mathlib.Data.Fintype.Basic

/-! Helper lemmas about `SrModel.StrainBook` over `ℝ`. -/
namespace SrModel.StrainBook

/-! ### well-formed steps -/

/-- the accepted sub-increments of a step end with the whole step (`sf = 1`): what C10
(`success_spec`: the last accepted attempt ends at `2^md`) guarantees for a returning `solve` -/
def closedSubs : List (SubInc ℝ) → Prop
  | [] => False
  | [s] => s.sf = 1
  | _ :: s :: ss => closedSubs (s :: ss)

def Step.Closed (st : Step ℝ) : Prop := closedSubs st.subs

/-! ### elementary facts -/

theorem interpT_one (a b : ℝ) : interpT a b 1 = b := by unfold interpT; ring
theorem interpT_same (a sf : ℝ) : interpT a a sf = a := by unfold interpT; ring
theorem dThermal_same (α : ℝ → ℝ) (T : ℝ) : dThermal α T T = 0 := by unfold dThermal; ring

theorem eye_symm (i j : Fin 3) : (eye : Ten ℝ) i j = eye j i := by
  unfold eye; by_cases h : i = j
  · subst h; rfl
  · have h' : ¬ j = i := fun e => h e.symm
    simp [h, h']

theorem lastOf_mem (r : Rec ℝ) : ∀ l : List (Rec ℝ), lastOf r l = r ∨ lastOf r l ∈ l := by
  intro l
  induction l generalizing r with
  | nil => left; rfl
  | cons x xs ih =>
    right
    rcases ih x with h | h
    · show lastOf x xs ∈ x :: xs
      rw [h]; exact List.mem_cons_self
    · exact List.mem_cons_of_mem _ h

/-- temperature of the state returned by a closed step -/
theorem lastOf_subTrace_T (α : ℝ → ℝ) (Tn Tnp1 : ℝ) :
    ∀ (subs : List (SubInc ℝ)) (last : Rec ℝ), closedSubs subs →
      (lastOf last (subTrace α Tn Tnp1 last subs)).T = Tnp1 := by
  intro subs
  induction subs with
  | nil => intro _ h; exact absurd h (by simp [closedSubs])
  | cons s ss ih =>
    intro last h
    cases ss with
    | nil =>
      simp only [closedSubs] at h
      simp [subTrace, lastOf, subStep, h, interpT_one]
    | cons s' ss' =>
      simp only [closedSubs] at h
      simp only [subTrace, lastOf]
      exact ih _ h

/-! ### a property of records that every sub-increment establishes or preserves -/

/-- every accepted state of a step satisfies `P` when `P` passes through one sub-increment -/
theorem subTrace_all (α : ℝ → ℝ) (P : Rec ℝ → Prop) (Tn Tnp1 : ℝ)
    (hs : ∀ last s, P last → P (subStep α Tn Tnp1 last s)) :
    ∀ (subs : List (SubInc ℝ)) (last : Rec ℝ), P last →
      ∀ r ∈ subTrace α Tn Tnp1 last subs, P r := by
  intro subs
  induction subs with
  | nil => intro _ _ r hr; simp [subTrace] at hr
  | cons s ss ih =>
    intro last hl r hr
    simp only [subTrace, List.mem_cons] at hr
    rcases hr with rfl | hr
    · exact hs _ _ hl
    · exact ih _ (hs _ _ hl) r hr

theorem lastOf_all (P : Rec ℝ → Prop) (r0 : Rec ℝ) (l : List (Rec ℝ)) (h0 : P r0)
    (hl : ∀ r ∈ l, P r) : P (lastOf r0 l) := by
  rcases lastOf_mem r0 l with h | h
  · rw [h]; exact h0
  · exact hl _ h

/-- induction principle for the stored states of a history -/
theorem runFrom_all (α : ℝ → ℝ) (P : Rec ℝ → Prop)
    (hT : ∀ r T, P r → P { r with T := T })
    (hs : ∀ Tn Tnp1 last s, P last → P (subStep α Tn Tnp1 last s)) :
    ∀ (steps : List (Step ℝ)) (Tn : ℝ) (sn : Rec ℝ), P sn → ∀ r ∈ runFrom α Tn sn steps, P r := by
  intro steps
  induction steps with
  | nil => intro _ _ _ r hr; simp [runFrom] at hr
  | cons st sts ih =>
    intro Tn sn hsn r hr
    have h1 : P (runStep α Tn sn st) := by
      unfold runStep
      exact lastOf_all P _ _ (hT _ _ hsn) (subTrace_all α P Tn st.Tnp1 (hs Tn st.Tnp1) _ _ (hT _ _ hsn))
    simp only [runFrom, List.mem_cons] at hr
    rcases hr with rfl | hr
    · exact h1
    · exact ih _ _ h1 r hr

/-- induction principle for every accepted state (all sub-increments) of a history -/
theorem traceFrom_all (α : ℝ → ℝ) (P : Rec ℝ → Prop)
    (hT : ∀ r T, P r → P { r with T := T })
    (hs : ∀ Tn Tnp1 last s, P last → P (subStep α Tn Tnp1 last s)) :
    ∀ (steps : List (Step ℝ)) (Tn : ℝ) (sn : Rec ℝ), P sn → ∀ r ∈ traceFrom α Tn sn steps, P r := by
  intro steps
  induction steps with
  | nil => intro _ _ _ r hr; simp [traceFrom] at hr
  | cons st sts ih =>
    intro Tn sn hsn r hr
    have hall := subTrace_all α P Tn st.Tnp1 (hs Tn st.Tnp1) st.subs _ (hT sn Tn hsn)
    simp only [traceFrom, List.mem_append] at hr
    rcases hr with hr | hr
    · exact hall r hr
    · exact ih _ _ (lastOf_all P _ _ (hT _ _ hsn) hall) r hr

/-! ### the record-local properties -/

def Partitioned (r : Rec ℝ) : Prop := ∀ i j, r.tot i j = r.mech i j + r.th i j
def Isotropic (r : Rec ℝ) : Prop := ∃ c : ℝ, ∀ i j, r.th i j = c * eye i j
def ThSymm (r : Rec ℝ) : Prop := ∀ i j, r.th i j = r.th j i

theorem partitioned_subStep (α : ℝ → ℝ) (Tn Tnp1 : ℝ) (last : Rec ℝ) (s : SubInc ℝ) :
    Partitioned (subStep α Tn Tnp1 last s) := by
  intro i j; simp [subStep, mech]

theorem isotropic_subStep (α : ℝ → ℝ) (Tn Tnp1 : ℝ) (last : Rec ℝ) (s : SubInc ℝ)
    (h : Isotropic last) : Isotropic (subStep α Tn Tnp1 last s) := by
  obtain ⟨c, hc⟩ := h
  refine ⟨c + dThermal α last.T (interpT Tn Tnp1 s.sf), fun i j => ?_⟩
  simp only [subStep, thermalUpdate, hc]; ring

theorem thSymm_subStep (α : ℝ → ℝ) (Tn Tnp1 : ℝ) (last : Rec ℝ) (s : SubInc ℝ)
    (h : ThSymm last) : ThSymm (subStep α Tn Tnp1 last s) := by
  intro i j
  simp only [subStep, thermalUpdate]
  rw [h i j, eye_symm i j]

theorem init_partitioned (T0 : ℝ) : Partitioned (init T0) := by intro i j; simp [init, zeroT]
theorem init_isotropic (T0 : ℝ) : Isotropic (init T0) := ⟨0, fun i j => by simp [init, zeroT]⟩
theorem init_thSymm (T0 : ℝ) : ThSymm (init T0) := fun i j => by simp [init, zeroT]

/-! ### telescoping of the thermal strain -/

/-- Within a step: if the trapezoid increments are differences of a primitive `Φ` on the
temperatures visited (`S`), every accepted state has `th = th_start + (Φ(T) − Φ(T_start))·I`. -/
theorem subTrace_tele (α Φ : ℝ → ℝ) (S : ℝ → Prop)
    (hΦ : ∀ T T', S T → S T' → dThermal α T T' = Φ T' - Φ T) (Tn Tnp1 : ℝ) :
    ∀ (subs : List (SubInc ℝ)) (last : Rec ℝ), S last.T →
      (∀ s ∈ subs, S (interpT Tn Tnp1 s.sf)) →
      ∀ r ∈ subTrace α Tn Tnp1 last subs,
        S r.T ∧ ∀ i j, r.th i j = last.th i j + eye i j * (Φ r.T - Φ last.T) := by
  intro subs
  induction subs with
  | nil => intro _ _ _ r hr; simp [subTrace] at hr
  | cons s ss ih =>
    intro last hl hS r hr
    have hS1 : S (interpT Tn Tnp1 s.sf) := hS s List.mem_cons_self
    have h1 : ∀ i j, (subStep α Tn Tnp1 last s).th i j
        = last.th i j + eye i j * (Φ (interpT Tn Tnp1 s.sf) - Φ last.T) := by
      intro i j; simp only [subStep, thermalUpdate]; rw [hΦ _ _ hl hS1]
    simp only [subTrace, List.mem_cons] at hr
    rcases hr with rfl | hr
    · exact ⟨hS1, h1⟩
    · obtain ⟨hrS, hr'⟩ := ih (subStep α Tn Tnp1 last s) hS1
        (fun s' hs' => hS s' (List.mem_cons_of_mem _ hs')) r hr
      refine ⟨hrS, fun i j => ?_⟩
      rw [hr' i j, h1 i j]
      simp only [subStep]; ring

/-- thermal strain of the state returned by a closed step -/
theorem runStep_tele (α Φ : ℝ → ℝ) (S : ℝ → Prop)
    (hΦ : ∀ T T', S T → S T' → dThermal α T T' = Φ T' - Φ T)
    (Tn : ℝ) (sn : Rec ℝ) (st : Step ℝ) (hc : st.Closed) (hTn : S Tn)
    (hS : ∀ s ∈ st.subs, S (interpT Tn st.Tnp1 s.sf)) :
    (runStep α Tn sn st).T = st.Tnp1 ∧
      ∀ i j, (runStep α Tn sn st).th i j = sn.th i j + eye i j * (Φ st.Tnp1 - Φ Tn) := by
  have hT : (runStep α Tn sn st).T = st.Tnp1 := by
    unfold runStep; exact lastOf_subTrace_T α Tn st.Tnp1 st.subs _ hc
  refine ⟨hT, ?_⟩
  have hmem := lastOf_mem ({ sn with T := Tn } : Rec ℝ) (subTrace α Tn st.Tnp1 { sn with T := Tn } st.subs)
  have hne : st.subs ≠ [] := by
    intro h; unfold Step.Closed at hc; rw [h] at hc; exact hc
  rcases hmem with h | h
  · -- impossible for a non-empty list of sub-increments, but harmless: T would be Tn = Tnp1
    intro i j
    have hT' := hT
    unfold runStep at hT' ⊢
    rw [h] at hT' ⊢
    simp only at hT'
    rw [← hT']; simp
  · obtain ⟨_, hth⟩ := subTrace_tele α Φ S hΦ Tn st.Tnp1 st.subs { sn with T := Tn } hTn hS _ h
    intro i j
    have := hth i j
    unfold runStep
    rw [this]
    have hT' := hT
    unfold runStep at hT'
    rw [hT']

/-- hypotheses of the closed form over a history -/
structure Admissible (S : ℝ → Prop) (steps : List (Step ℝ)) : Prop where
  closed : ∀ st ∈ steps, st.Closed
  ends   : ∀ st ∈ steps, S st.Tnp1
  visits : ∀ st ∈ steps, ∀ Tn, S Tn → ∀ s ∈ st.subs, S (interpT Tn st.Tnp1 s.sf)

theorem Admissible.tail {S : ℝ → Prop} {st : Step ℝ} {sts : List (Step ℝ)}
    (h : Admissible S (st :: sts)) : Admissible S sts :=
  ⟨fun s hs => h.closed s (List.mem_cons_of_mem _ hs),
   fun s hs => h.ends s (List.mem_cons_of_mem _ hs),
   fun s hs => h.visits s (List.mem_cons_of_mem _ hs)⟩

/-- **closed form of the stored thermal strains** for every subdivision of every step -/
theorem runFrom_tele (α Φ : ℝ → ℝ) (S : ℝ → Prop)
    (hΦ : ∀ T T', S T → S T' → dThermal α T T' = Φ T' - Φ T) (T0 : ℝ) :
    ∀ (steps : List (Step ℝ)) (Tn : ℝ) (sn : Rec ℝ), Admissible S steps → S Tn →
      (∀ i j, sn.th i j = eye i j * (Φ Tn - Φ T0)) →
      (runFrom α Tn sn steps).map (·.th)
        = steps.map (fun st => fun i j => eye i j * (Φ st.Tnp1 - Φ T0)) := by
  intro steps
  induction steps with
  | nil => intro _ _ _ _ _; simp [runFrom]
  | cons st sts ih =>
    intro Tn sn hA hTn hsn
    obtain ⟨hT, hth⟩ := runStep_tele α Φ S hΦ Tn sn st (hA.closed st List.mem_cons_self) hTn
      (hA.visits st List.mem_cons_self Tn hTn)
    have hnew : ∀ i j, (runStep α Tn sn st).th i j = eye i j * (Φ st.Tnp1 - Φ T0) := by
      intro i j; rw [hth i j, hsn i j]; ring
    simp only [runFrom, List.map_cons]
    congr 1
    · funext i j; exact hnew i j
    · exact ih st.Tnp1 _ hA.tail (hA.ends st List.mem_cons_self) hnew

/-- stored temperatures of closed steps are the history temperatures -/
theorem runFrom_T (α : ℝ → ℝ) :
    ∀ (steps : List (Step ℝ)) (Tn : ℝ) (sn : Rec ℝ), (∀ st ∈ steps, st.Closed) →
      (runFrom α Tn sn steps).map (·.T) = steps.map (·.Tnp1) := by
  intro steps
  induction steps with
  | nil => intro _ _ _; simp [runFrom]
  | cons st sts ih =>
    intro Tn sn hc
    simp only [runFrom, List.map_cons]
    congr 1
    · unfold runStep; exact lastOf_subTrace_T α Tn st.Tnp1 st.subs _ (hc st List.mem_cons_self)
    · exact ih _ _ (fun s hs => hc s (List.mem_cons_of_mem _ hs))

/-! ### primitives of the trapezoid rule -/

/-- the trapezoid rule is exact for an expansion coefficient that is affine on the
temperatures visited: primitive `Φ(T) = a·T + b·T²/2` -/
theorem dThermal_affine (α : ℝ → ℝ) (a b : ℝ) (S : ℝ → Prop) (hα : ∀ T, S T → α T = a + b * T) :
    ∀ T T', S T → S T' →
      dThermal α T T' = (a * T' + b * T' ^ 2 / 2) - (a * T + b * T ^ 2 / 2) := by
  intro T T' hT hT'
  unfold dThermal; rw [hα T hT, hα T' hT']; ring

/-! ### unchanged temperature -/

theorem runFrom_unchanged (α : ℝ → ℝ) (T0 : ℝ) :
    ∀ (steps : List (Step ℝ)) (sn : Rec ℝ), (∀ st ∈ steps, st.Tnp1 = T0) →
      (∀ i j, sn.th i j = 0) →
      ∀ r ∈ runFrom α T0 sn steps, ∀ i j, r.th i j = 0 := by
  intro steps
  induction steps with
  | nil => intro _ _ _ r hr; simp [runFrom] at hr
  | cons st sts ih =>
    intro sn hst hsn r hr
    have hT0 : st.Tnp1 = T0 := hst st List.mem_cons_self
    -- invariant inside the step: temperature T0 and zero thermal strain
    have hinv : ∀ q ∈ subTrace α T0 st.Tnp1 { sn with T := T0 } st.subs,
        q.T = T0 ∧ ∀ i j, q.th i j = 0 := by
      apply subTrace_all α (fun q => q.T = T0 ∧ ∀ i j, q.th i j = 0)
      · intro last s ⟨hlT, hlth⟩
        refine ⟨?_, fun i j => ?_⟩
        · simp [subStep, hT0, interpT_same]
        · simp [subStep, thermalUpdate, hT0, interpT_same, hlT, dThermal_same, hlth]
      · exact ⟨rfl, hsn⟩
    have h1 : ∀ i j, (runStep α T0 sn st).th i j = 0 := by
      unfold runStep
      exact (lastOf_all (fun q => q.T = T0 ∧ ∀ i j, q.th i j = 0) { sn with T := T0 } _ ⟨rfl, hsn⟩ hinv).2
    simp only [runFrom, List.mem_cons] at hr
    rcases hr with rfl | hr
    · exact h1
    · rw [hT0] at hr
      exact ih _ (fun s hs => hst s (List.mem_cons_of_mem _ hs)) h1 r hr

/-! ### causality -/

theorem runFrom_take (α : ℝ → ℝ) :
    ∀ (steps : List (Step ℝ)) (n : Nat) (Tn : ℝ) (sn : Rec ℝ),
      runFrom α Tn sn (steps.take n) = (runFrom α Tn sn steps).take n := by
  intro steps
  induction steps with
  | nil => intro n _ _; simp [runFrom]
  | cons st sts ih =>
    intro n Tn sn
    cases n with
    | zero => simp [runFrom]
    | succ n => simp only [List.take_succ_cons, runFrom]; rw [ih]

theorem runFrom_length (α : ℝ → ℝ) :
    ∀ (steps : List (Step ℝ)) (Tn : ℝ) (sn : Rec ℝ), (runFrom α Tn sn steps).length = steps.length := by
  intro steps
  induction steps with
  | nil => intro _ _; simp [runFrom]
  | cons st sts ih => intro _ _; simp [runFrom, ih]

/-! ### store / restore -/

theorem restore_store_symm (A : Ten ℝ) (i j : Fin 3) :
    restore (store A) i j = restore (store A) j i := by
  fin_cases i <;> fin_cases j <;> rfl

theorem restore_store_of_symm (A : Ten ℝ) (hA : ∀ i j, A i j = A j i) (i j : Fin 3) :
    restore (store A) i j = A i j := by
  fin_cases i <;> fin_cases j <;> simp [restore, store] <;> first | rfl | exact hA _ _

/-! ### elastic law -/

theorem ddot_zero (C : Ten4 ℝ) (e : Ten ℝ) (he : ∀ i j, e i j = 0) (i j : Fin 3) :
    ddot C e i j = 0 := by
  simp [ddot, sum3, he]

end SrModel.StrainBook
