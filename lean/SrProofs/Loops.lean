import SrModel.Loops

/-! Helper lemmas for C17: invariants of the loop skeletons of `SrModel.Loops`
(induction on the remaining iteration budget, for every oracle). -/
namespace SrModel.Loops

/-! ### NaN never passes a test -/

@[simp] theorem Norm.lt_nan (t : Rat) : Norm.nan.lt t = false := rfl
@[simp] theorem Norm.lt_inf (t : Rat) : Norm.inf.lt t = false := rfl
@[simp] theorem Norm.div_nan_left (y : Norm) : Norm.nan.div y = .nan := by cases y <;> rfl
@[simp] theorem Norm.div_nan_right (x : Norm) : x.div .nan = .nan := by cases x <;> rfl

theorem conv_nan (a r : Rat) (x0 : Norm) : conv a r .nan x0 = false := by
  simp [conv]

/-- a passed test means the tested norm is a number -/
theorem conv_true_ne_nan {a r : Rat} {x x0 : Norm} (h : conv a r x x0 = true) : x ≠ .nan := by
  intro hx; subst hx; rw [conv_nan] at h; exact Bool.noConfusion h

/-- a passed test means: the tested norm is finite and below `atol`, or the IEEE quotient is
finite and below `rtol` -/
theorem conv_true_iff (a r : Rat) (x x0 : Norm) :
    conv a r x x0 = true ↔ (∃ q, x = .fin q ∧ q < a) ∨ (∃ q, x.div x0 = .fin q ∧ q < r) := by
  unfold conv
  rw [Bool.or_eq_true]
  constructor
  · rintro (h | h)
    · left
      cases x with
      | fin q => exact ⟨q, rfl, by simpa [Norm.lt] using h⟩
      | nan => simp at h
      | inf => simp at h
    · right
      generalize x.div x0 = d at h
      cases d with
      | fin q => exact ⟨q, rfl, by simpa [Norm.lt] using h⟩
      | nan => simp at h
      | inf => simp at h
  · rintro (⟨q, hq, hlt⟩ | ⟨q, hq, hlt⟩)
    · left; subst hq; simpa [Norm.lt] using hlt
    · right; rw [hq]; simpa [Norm.lt] using hlt

theorem picardConv_nan_abs (a r : Rat) (m : Norm4)
    (h : picardConv a r m = true) :
    (m.fa ≠ .nan ∧ m.ta ≠ .nan) ∨ (m.fr ≠ .nan ∧ m.tr ≠ .nan) := by
  unfold picardConv at h
  rw [Bool.or_eq_true, Bool.and_eq_true, Bool.and_eq_true] at h
  rcases h with ⟨h1, h2⟩ | ⟨h1, h2⟩
  · left; constructor
    · intro hx; rw [hx] at h1; simp at h1
    · intro hx; rw [hx] at h2; simp at h2
  · right; constructor
    · intro hx; rw [hx] at h1; simp at h1
    · intro hx; rw [hx] at h2; simp at h2

/-! ### line search -/

/-- after a line search the current iterate is still the last evaluation made, and at most
`k` evaluations were added -/
theorem lineSearch_spec (o : Nat → Norm) (nl : Norm) (k cur n : Nat) (h : cur + 1 = n) :
    (lineSearch o nl k cur n).1 + 1 = (lineSearch o nl k cur n).2 ∧
      n ≤ (lineSearch o nl k cur n).2 ∧ (lineSearch o nl k cur n).2 ≤ n + k := by
  induction k generalizing cur n with
  | zero => simp [lineSearch, h]
  | succ k ih =>
    unfold lineSearch
    split
    · simp
    · have := ih n (n+1) rfl
      omega

theorem newtonStep_spec (c : NewtonCfg) (o : Nat → Norm) (cur n : Nat) (h : cur + 1 = n) :
    (newtonStep c o cur n).1 + 1 = (newtonStep c o cur n).2 ∧ n ≤ (newtonStep c o cur n).2 := by
  unfold newtonStep
  split
  · have := lineSearch_spec o (o cur) c.maxSearch cur n h; omega
  · simp

/-! ### newton -/

theorem newtonLoop_ok (c : NewtonCfg) (o : Nat → Norm) (fuel i cur n i' cur' n' : Nat)
    (hc : cur + 1 = n) (h : newtonLoop c o fuel i cur n = .ok i' cur' n') :
    conv c.atol c.rtol (o cur') (o 0) = true ∧ cur' + 1 = n' ∧ i ≤ i' ∧ i' < i + fuel := by
  induction fuel generalizing i cur n with
  | zero => simp [newtonLoop] at h
  | succ f ih =>
    unfold newtonLoop at h
    split at h
    next hconv =>
      injection h with h1 h2 h3; subst h1 h2 h3
      exact ⟨hconv, hc, Nat.le_refl _, by omega⟩
    next =>
      have hs := newtonStep_spec c o cur n hc
      obtain ⟨h1, h2, h3, h4⟩ := ih (i+1) _ _ hs.1 h
      exact ⟨h1, h2, by omega, by omega⟩

theorem newtonLoop_noconv (c : NewtonCfg) (o : Nat → Norm) (fuel i cur n : Nat)
    (hno : ∀ k, conv c.atol c.rtol (o k) (o 0) = false) :
    ∃ m, newtonLoop c o fuel i cur n = .raised .noConv m := by
  induction fuel generalizing i cur n with
  | zero => exact ⟨n, rfl⟩
  | succ f ih =>
    unfold newtonLoop
    rw [hno cur]
    simpa using ih (i+1) _ _

/-- `newton` never raises the NaN error (it has none) -/
theorem newtonLoop_kind (c : NewtonCfg) (o : Nat → Norm) (fuel i cur n : Nat) (k : Kind) (m : Nat)
    (h : newtonLoop c o fuel i cur n = .raised k m) : k = .noConv := by
  induction fuel generalizing i cur n with
  | zero => simp [newtonLoop] at h; exact h.1.symm
  | succ f ih =>
    unfold newtonLoop at h
    split at h
    · simp at h
    · exact ih _ _ _ h

/-! ### FD thermal step -/

theorem fdLoop_ok (a r : Rat) (o : Nat → Norm) (fuel i i' cur' n' : Nat)
    (h : fdLoop a r o fuel i = .ok i' cur' n') :
    conv a r (o cur') (o 0) = true ∧ cur' = i' ∧ n' = i' + 1 ∧ 0 < i' ∧ i ≤ i' ∧ i' < i + fuel := by
  induction fuel generalizing i with
  | zero => simp [fdLoop] at h
  | succ f ih =>
    unfold fdLoop at h
    split at h
    next hc =>
      injection h with h1 h2 h3; subst h1 h2 h3
      rw [Bool.and_eq_true] at hc
      exact ⟨hc.1, rfl, rfl, by simpa using hc.2, Nat.le_refl _, by omega⟩
    next =>
      obtain ⟨h1, h2, h3, h4, h5, h6⟩ := ih (i+1) h
      exact ⟨h1, h2, h3, h4, by omega, by omega⟩

theorem fdLoop_noconv (a r : Rat) (o : Nat → Norm) (fuel i : Nat)
    (hno : ∀ k, 0 < k → conv a r (o k) (o 0) = false) :
    fdLoop a r o fuel i = .raised .noConv (i + fuel) := by
  induction fuel generalizing i with
  | zero => rfl
  | succ f ih =>
    unfold fdLoop
    have : (conv a r (o i) (o 0) && decide (0 < i)) = false := by
      rcases Nat.eq_zero_or_pos i with h0 | hp
      · subst h0; simp
      · rw [hno i hp]; rfl
    rw [this]
    simp only [Bool.false_eq_true, if_false]
    rw [ih (i+1)]; congr 1; omega

/-! ### FlowPath -/

theorem fpLoop_ok (a r : Rat) (o : Nat → Norm) (fuel i i' cur' n' : Nat)
    (h : fpLoop a r o fuel i = .ok i' cur' n') :
    conv a r (o cur') (o 0) = true ∧ (o cur').isNan = false ∧ cur' = i' ∧ n' = i' + 1 ∧
      i < i' ∧ i' ≤ i + fuel := by
  induction fuel generalizing i with
  | zero => simp [fpLoop] at h
  | succ f ih =>
    unfold fpLoop at h
    split at h
    · simp at h
    next hnan =>
      split at h
      next hc =>
        injection h with h1 h2 h3; subst h1 h2 h3
        exact ⟨hc, by simpa using hnan, rfl, rfl, by omega, by omega⟩
      next =>
        obtain ⟨h1, h2, h3, h4, h5, h6⟩ := ih (i+1) h
        exact ⟨h1, h2, h3, h4, by omega, by omega⟩

theorem fpLoop_noconv (a r : Rat) (o : Nat → Norm) (fuel i : Nat)
    (hno : ∀ k, 0 < k → conv a r (o k) (o 0) = false) :
    ∃ k m, fpLoop a r o fuel i = .raised k m := by
  induction fuel generalizing i with
  | zero => exact ⟨_, _, rfl⟩
  | succ f ih =>
    unfold fpLoop
    split
    · exact ⟨_, _, rfl⟩
    · rw [hno (i+1) (by omega)]
      simpa using ih (i+1)

/-- the NaN error is raised exactly at a NaN evaluation, which is the last one made -/
theorem fpLoop_nan (a r : Rat) (o : Nat → Norm) (fuel i m : Nat)
    (h : fpLoop a r o fuel i = .raised .nan m) : 0 < m ∧ o (m - 1) = .nan := by
  induction fuel generalizing i with
  | zero => simp [fpLoop] at h
  | succ f ih =>
    unfold fpLoop at h
    split at h
    next hn =>
      injection h with _ h2; subst h2
      refine ⟨by omega, ?_⟩
      have : i + 2 - 1 = i + 1 := by omega
      rw [this]
      cases hx : o (i+1) <;> simp [hx, Norm.isNan] at hn ⊢
    next =>
      split at h
      · simp at h
      · exact ih _ h

/-! ### Picard -/

theorem picardLoop_ok (a r : Rat) (o : Nat → Norm4) (fuel j i' cur' n' : Nat)
    (h : picardLoop a r o fuel j = .ok i' cur' n') :
    picardConv a r (o cur') = true ∧ i' = cur' + 1 ∧ n' = cur' + 1 ∧ j ≤ cur' ∧ cur' < j + fuel := by
  induction fuel generalizing j with
  | zero => simp [picardLoop] at h
  | succ f ih =>
    unfold picardLoop at h
    split at h
    next hc =>
      injection h with h1 h2 h3; subst h1 h2 h3
      exact ⟨hc, rfl, rfl, Nat.le_refl _, by omega⟩
    next =>
      obtain ⟨h1, h2, h3, h4, h5⟩ := ih (j+1) h
      exact ⟨h1, h2, h3, by omega, by omega⟩

theorem picardLoop_noconv (a r : Rat) (o : Nat → Norm4) (fuel j : Nat)
    (hno : ∀ k, picardConv a r (o k) = false) :
    picardLoop a r o fuel j = .raised .noConv (j + fuel) := by
  induction fuel generalizing j with
  | zero => rfl
  | succ f ih =>
    unfold picardLoop
    rw [hno j]
    simp only [Bool.false_eq_true, if_false]
    rw [ih (j+1)]; congr 1; omega

/-! ### FE Newton -/

theorem feLoop_ok (c : FeCfg) (o : Nat → Norm) (fuel i cur n i' cur' n' : Nat)
    (hc : cur + 1 = n) (hi : 0 < i → (o 0).lt c.atol = false)
    (h : feLoop c o fuel i cur n = .ok i' cur' n') :
    ((i' = i ∧ cur' = cur ∧ (o 0).lt c.atol = true) ∨
       (i < i' ∧ (o 0).lt c.atol = false ∧ conv c.atol c.rtol (o cur') (o 0) = true)) ∧
      cur' + 1 = n' ∧ i' ≤ i + fuel := by
  induction fuel generalizing i cur n with
  | zero => simp [feLoop] at h
  | succ f ih =>
    unfold feLoop at h
    split at h
    next hs =>
      injection h with h1 h2 h3; subst h1 h2 h3
      exact ⟨Or.inl ⟨rfl, rfl, hs⟩, hc, by omega⟩
    next hs =>
      have hs' : (o 0).lt c.atol = false := by simpa using hs
      have hl := lineSearch_spec o (o cur) c.maxSearch cur n hc
      simp only at h
      split at h
      next hconv =>
        injection h with h1 h2 h3; subst h1 h2 h3
        exact ⟨Or.inr ⟨by omega, hs', hconv⟩, hl.1, by omega⟩
      next =>
        have := ih (i+1) _ _ hl.1 (fun _ => hs') h
        rcases this with ⟨h1 | h1, h2, h3⟩
        · rw [hs'] at h1; exact absurd h1.2.2 (by simp)
        · exact ⟨Or.inr ⟨by omega, h1.2⟩, h2, by omega⟩

theorem feLoop_noconv (c : FeCfg) (o : Nat → Norm) (fuel i cur n : Nat)
    (h0 : (o 0).lt c.atol = false)
    (hno : ∀ k, conv c.atol c.rtol (o k) (o 0) = false) :
    ∃ m, feLoop c o fuel i cur n = .raised .noConv m := by
  induction fuel generalizing i cur n with
  | zero => exact ⟨n, rfl⟩
  | succ f ih =>
    unfold feLoop
    rw [h0]
    simp only [Bool.false_eq_true, if_false]
    rw [hno]
    simpa using ih (i+1) _ _

end SrModel.Loops

/-! # Plumbing: the priority-list reading of a pipeline is sound -/
namespace SrModel.Plumbing

theorem evalSrc_eq_first (f : Fn) (env : Env) (s : Src) : evalSrc f env s = first env (chain f s) := by
  induction s with
  | param n =>
    simp only [evalSrc, chain, first]
    cases env (.arg n) with
    | some v => rfl
    | none => cases f.dflt n <;> rfl
  | lit l => rfl
  | self n =>
    simp only [evalSrc, chain, first]
  | getDefault k d ih =>
    simp only [evalSrc, chain, first, ih]
  | popDefault k d ih =>
    simp only [evalSrc, chain, first, ih]
  | ifNone n d ih =>
    simp only [evalSrc, chain, first, ih]
  | other s => rfl
  | unsupported s => rfl

theorem first_append (env : Env) (c r : List Atom) :
    first env (c ++ r) = match first env c with
      | .absent => first env r
      | x => x := by
  induction c with
  | nil => simp [first]
  | cons a c ih =>
    cases a with
    | take k =>
      simp only [List.cons_append, first]
      cases env k with
      | some v => rfl
      | none => exact ih
    | takeNN k =>
      simp only [List.cons_append, first]
      cases env k with
      | some v =>
        by_cases hv : v.isNone = true
        · simp only [hv, if_true]; exact ih
        · simp only [hv]; rfl
      | none => exact ih
    | lit l => rfl
    | fail => rfl

/-- Reading a priority list in the inner environment `env2` equals reading the substituted list
in the outer environment `U`, whenever the latter is not an error — provided `env2` holds, under
every substituted key, the (non-error) value of the list substituted for it, and agrees with `U`
on the others. -/
theorem subst_sound (σ : Key → Option (List Atom)) (U env2 : Env)
    (h1 : ∀ k c, σ k = some c → first U c ≠ .error → env2 k = (first U c).toOpt)
    (h2 : ∀ k, σ k = none → env2 k = U k) :
    ∀ c, first U (subst σ c) ≠ .error → first env2 c = first U (subst σ c) := by
  intro c
  induction c with
  | nil => intro _; rfl
  | cons a r ih =>
    cases a with
    | take k =>
      cases hσ : σ k with
      | some c' =>
        simp only [subst, hσ, first]
        rw [first_append]
        intro hne
        cases hc : first U c' with
        | val v =>
          have := h1 k c' hσ (by rw [hc]; exact Out.noConfusion)
          rw [this, hc]; rfl
        | absent =>
          rw [hc] at hne
          have := h1 k c' hσ (by rw [hc]; exact Out.noConfusion)
          rw [this, hc]
          exact ih hne
        | error => rw [hc] at hne; exact absurd rfl hne
      | none =>
        simp only [subst, hσ, first, h2 k hσ]
        intro hne
        cases hU : U k with
        | some v => rfl
        | none => rw [hU] at hne; exact ih hne
    | takeNN k =>
      cases hσ : σ k with
      | some c' => simp only [subst, hσ, first]; intro h; exact absurd rfl h
      | none =>
        simp only [subst, hσ, first, h2 k hσ]
        intro hne
        cases hU : U k with
        | some v =>
          rw [hU] at hne
          by_cases hv : v.isNone = true
          · simp only [hv, if_true] at hne ⊢; exact ih hne
          · simp [hv]
        | none => rw [hU] at hne; exact ih hne
    | lit l => intro _; rfl
    | fail => intro h; exact absurd rfl h

theorem link_compat (l : Link) (U : Env) (prevS : String → List Atom) (prevC : String → Out)
    (hp : ∀ m, first U (prevS m) ≠ .error → prevC m = first U (prevS m)) :
    (∀ k c, l.sigma prevS k = some c → first U c ≠ .error →
        l.env (fun m => (prevC m).toOpt) U k = (first U c).toOpt) ∧
    (∀ k, l.sigma prevS k = none → l.env (fun m => (prevC m).toOpt) U k = U k) := by
  cases l with
  | user => exact ⟨fun k c h => by simp [Link.sigma] at h, fun k _ => rfl⟩
  | userRenamed pre =>
    constructor
    · intro k c h hne
      cases k with
      | arg n =>
        simp only [Link.sigma, Option.some.injEq] at h
        subst h
        simp only [Link.env, first]
        cases U (.arg (pre ++ n)) <;> rfl
      | pset n => simp [Link.sigma] at h
      | self n => simp [Link.sigma] at h
    · intro k h
      cases k with
      | arg n => simp [Link.sigma] at h
      | pset n => rfl
      | self n => rfl
  | self =>
    constructor
    · intro k c h hne
      cases k with
      | self n =>
        simp only [Link.sigma, Option.some.injEq] at h
        subst h
        simp only [Link.env]
        rw [hp n hne]
      | pset n => simp [Link.sigma] at h
      | arg n => simp [Link.sigma] at h
    · intro k h
      cases k with
      | self n => simp [Link.sigma] at h
      | pset n => rfl
      | arg n => rfl
  | args =>
    constructor
    · intro k c h hne
      cases k with
      | arg n =>
        simp only [Link.sigma, Option.some.injEq] at h
        subst h
        simp only [Link.env]
        rw [hp n hne]
      | pset n => simp [Link.sigma] at h
      | self n => simp [Link.sigma] at h
    · intro k h
      cases k with
      | arg n => simp [Link.sigma] at h
      | pset n => rfl
      | self n => rfl

/-- **pipeline soundness**: whenever the symbolic priority list of output `n` does not evaluate
to an error in the user's environment, the concrete stage-by-stage run gives exactly its value -/
theorem pipe_sound (p : Pipe) (U : Env) :
    ∀ n, first U (pipeS p n) ≠ .error → pipeC p U n = first U (pipeS p n) := by
  induction p with
  | nil => intro n _; rfl
  | cons st earlier ih =>
    obtain ⟨l, g⟩ := st
    intro n hne
    simp only [pipeC, pipeS] at hne ⊢
    cases hlk : g.out.lookup n with
    | none => rfl
    | some s =>
      simp only [hlk] at hne ⊢
      rw [evalSrc_eq_first]
      have hc := link_compat l U (pipeS earlier) (pipeC earlier U) ih
      exact subst_sound _ U _ hc.1 hc.2 _ hne

/-! ### routes -/

/-- key `k` counts as supplied with value `v` for this alternative -/
def Atom.supplies (U : Env) : Atom → Lit → Prop
  | .take k, v => U k = some v
  | .takeNN k, v => U k = some v ∧ v.isNone = false
  | _, _ => False

/-- this alternative is not supplied -/
def Atom.skipped (U : Env) : Atom → Prop
  | .take k => U k = none
  | .takeNN k => ∀ v, U k = some v → v.isNone = true
  | _ => False

theorem first_routes (U : Env) (pre : List Atom) (a : Atom) (rest : List Atom) (v : Lit)
    (hpre : ∀ b ∈ pre, b.skipped U) (ha : a.supplies U v) :
    first U (pre ++ a :: rest) = .val v := by
  induction pre with
  | nil =>
    cases a with
    | take k => simp only [Atom.supplies] at ha; simp [first, ha]
    | takeNN k => simp only [Atom.supplies] at ha; simp [first, ha.1, ha.2]
    | lit l => exact absurd ha (by simp [Atom.supplies])
    | fail => exact absurd ha (by simp [Atom.supplies])
  | cons b pre ih =>
    have hb := hpre b (List.mem_cons_self ..)
    have ih := ih (fun b' hb' => hpre b' (List.mem_cons_of_mem _ hb'))
    cases b with
    | take k => simp only [Atom.skipped] at hb; simp [first, hb, ih]
    | takeNN k =>
      simp only [Atom.skipped] at hb
      simp only [List.cons_append, first]
      cases hU : U k with
      | none => exact ih
      | some w => simp [hb w hU, ih]
    | lit l => exact absurd hb (by simp [Atom.skipped])
    | fail => exact absurd hb (by simp [Atom.skipped])

/-- the statement "the value used is the value supplied": for every environment, if the `j`-th
documented route supplies `v` and the routes before it are not used, the pipeline output is `v` -/
def RouteSpec (p : Pipe) (field : String) (routes : List Atom) : Prop :=
  ∀ (U : Env) (v : Lit) (pre : List Atom) (a : Atom) (post : List Atom),
    routes = pre ++ a :: post → (∀ b ∈ pre, b.skipped U) → a.supplies U v →
    pipeC p U field = .val v

/-- checker: the symbolic priority list of the field starts with exactly the documented routes -/
def routesOK (p : Pipe) (field : String) (routes : List Atom) : Bool :=
  (pipeS p field).take routes.length == routes

theorem routesOK_sound (p : Pipe) (field : String) (routes : List Atom)
    (h : routesOK p field routes = true) : RouteSpec p field routes := by
  intro U v pre a post hr hpre ha
  have h' : (pipeS p field).take routes.length = routes := by simpa [routesOK] using h
  have hsplit : pipeS p field = routes ++ (pipeS p field).drop routes.length := by
    conv => lhs; rw [← List.take_append_drop routes.length (pipeS p field), h']
  have hfirst : first U (pipeS p field) = .val v := by
    rw [hsplit, hr, List.append_assoc, List.cons_append]
    exact first_routes U pre a _ v hpre ha
  rw [pipe_sound p U field (by rw [hfirst]; exact Out.noConfusion), hfirst]

/-- every documented field of a component passes the route checker -/
def allOK (p : Pipe) (doc : List (String × List Atom)) : Bool := doc.all (fun e => routesOK p e.1 e.2)

theorem allOK_sound (p : Pipe) (doc : List (String × List Atom)) (h : allOK p doc = true) :
    ∀ e ∈ doc, RouteSpec p e.1 e.2 := by
  intro e he
  exact routesOK_sound p e.1 e.2 (List.all_eq_true.mp h e he)

/-- a number or a bool (what a documented default can be compared on) -/
def Lit.plain : Lit → Bool
  | .num _ _ => true
  | .bool _ => true
  | _ => false

/-- signature default and docstring default agree, both ways, on every numeric/boolean default -/
def defaultsOK (f : Fn) (doc : List (String × Lit)) : Bool :=
  f.params.all (fun p => match p.2 with
    | some l => if Lit.plain l then doc.lookup p.1 == some l else true
    | none => true) &&
  doc.all (fun d => if Lit.plain d.2 then f.dflt d.1 == some d.2 else true)

end SrModel.Plumbing
