import SrModel.Flowpath
import Mathlib.Algebra.Order.Field.Basic
import Mathlib.Algebra.BigOperators.Group.List.Basic
import Mathlib.Algebra.BigOperators.Ring.List
import Mathlib.Tactic.Ring
import Mathlib.Tactic.Linarith
import Mathlib.Tactic.FieldSimp
import Mathlib.Tactic.NormNum

/-!
Helper lemmas for C14 (`SrModel.Flowpath` over an ordered field).
-/
namespace SrModel.Flowpath
set_option linter.unusedSectionVars false

/-- the grid counts embed into any field through `Nat.cast` -/
instance (priority := low) natEmbOfNatCast {K : Type} [NatCast K] : NatEmb K := ⟨Nat.cast⟩

/-! ## dof map -/

theorem dofMapFrom_map_length (off : Nat) (ss : List Nat) :
    (dofMapFrom off ss).map List.length = ss := by
  induction ss generalizing off with
  | nil => rfl
  | cons s ss ih => simp [dofMapFrom, ih]

theorem dofMapFrom_length (off : Nat) (ss : List Nat) : (dofMapFrom off ss).length = ss.length := by
  induction ss generalizing off with
  | nil => rfl
  | cons s ss ih => simp [dofMapFrom, ih]

theorem dofMapFrom_flatten (off : Nat) (ss : List Nat) :
    (dofMapFrom off ss).flatten = List.range' off ss.sum := by
  induction ss generalizing off with
  | nil => simp [dofMapFrom]
  | cons s ss ih =>
    simp only [dofMapFrom, List.flatten_cons, ih, List.sum_cons]
    rw [List.range'_append_1]

theorem foldl_add_nat (ss : List Nat) (c : Nat) : ss.foldl (· + ·) c = c + ss.sum := by
  induction ss generalizing c with
  | nil => simp
  | cons s ss ih => simp [ih, Nat.add_assoc]

theorem nvals_eq_sum (ss : List Nat) : nvals ss = ss.sum := by
  simp [nvals, foldl_add_nat]

theorem dofMapFrom_getElem (off : Nat) (ss : List Nat) (i : Nat) (hi : i < ss.length) :
    (dofMapFrom off ss)[i]'(by rw [dofMapFrom_length]; exact hi) =
      List.range' (off + (ss.take i).sum) ss[i] := by
  induction ss generalizing off i with
  | nil => simp at hi
  | cons s ss ih =>
    cases i with
    | zero => simp [dofMapFrom]
    | succ i =>
      simp only [dofMapFrom, List.getElem_cons_succ, List.take_succ_cons, List.sum_cons]
      rw [ih (off + s) i (by simpa using hi)]
      rw [Nat.add_assoc]

section field
variable {K : Type} [Field K] [LinearOrder K] [IsStrictOrderedRing K]

theorem foldl_add (xs : List K) (c : K) : xs.foldl (fun a x => a + x) c = c + xs.sum := by
  induction xs generalizing c with
  | nil => simp
  | cons x xs ih => simp [ih, add_assoc]

theorem lsum_eq_sum (xs : List K) : lsum xs = xs.sum := by
  simp [lsum, foldl_add]

theorem two_lit : (2.0 : K) = 2 := by norm_num

theorem sum_pos_of_pos (ws : List K) (hw : ∀ w ∈ ws, 0 < w) (hne : ws ≠ []) : 0 < ws.sum := by
  induction ws with
  | nil => exact absurd rfl hne
  | cons w ws ih =>
    rw [List.sum_cons]
    rcases ws with _ | ⟨w', ws'⟩
    · simpa using hw w (by simp)
    · have := ih (fun x hx => hw x (List.mem_cons_of_mem _ hx)) (by simp)
      have := hw w (by simp)
      linarith

theorem natEmb_eq (n : Nat) : (NatEmb.ofNat n : K) = (n : K) := rfl

/-! ## link roots -/

theorem startResidual_zero (Tin T : K) (h : startResidual Tin T = 0) : T = Tin :=
  sub_eq_zero.1 h

theorem manifoldResidual_zero (ws Tin : List K) (To : K) (h : manifoldResidual ws Tin To = 0) :
    To = (List.zipWith (fun w T => w * T) ws Tin).sum / ws.sum := by
  unfold manifoldResidual at h
  rw [lsum_eq_sum, lsum_eq_sum] at h
  exact (sub_eq_zero.1 h).symm

/-! ## mass split -/

theorem mass_terms (fl : FluidFns K) (pi : K) (p : Panel K) (Ts : K)
    (hN : ntube p ≠ 0) (hpi : pi ≠ 0) (hri : p.ri ≠ 0) :
    ∀ (ws Tt : List K), Tt.length = ws.length → (∀ T ∈ Tt, fl.rho (tMean Ts T) ≠ 0) →
      (List.zipWith (fun w T => w * fl.rho (tMean Ts T) * flowRate fl pi p Ts T * pi * (p.ri * p.ri))
        ws Tt).sum = ws.sum * (p.mdot / ntube p) := by
  intro ws
  induction ws with
  | nil => intro Tt _ _; simp
  | cons w ws ih =>
    intro Tt hl hr
    cases Tt with
    | nil => simp at hl
    | cons T Tt =>
      simp only [List.zipWith_cons_cons, List.sum_cons]
      rw [ih Tt (by simpa using hl) (fun T' hT' => hr T' (List.mem_cons_of_mem _ hT'))]
      have hρ := hr T (List.mem_cons_self ..)
      unfold flowRate
      field_simp

/-! ## the linear profile -/

theorem zs_length (h : K) (nz : Nat) : (zs h nz).length = nz := by simp [zs]

theorem zs_getElem (h : K) (nz : Nat) (hnz : 1 < nz) (j : Nat) (hj : j < nz) :
    (zs h nz)[j]'(by rw [zs_length]; exact hj) = (j : K) * (h / ((nz - 1 : Nat) : K)) := by
  have hne : ((nz - 1 : Nat) : K) ≠ 0 := by
    have : 0 < nz - 1 := by omega
    exact_mod_cast this.ne'
  simp only [zs, List.getElem_map, List.getElem_range, hnz, if_true]
  split
  · next h1 =>
    have : j = nz - 1 := by omega
    rw [this]
    field_simp
  · simp [natEmb_eq]

theorem fluidTemp_zero (p : Panel K) (Ts Tt : K) : fluidTemp p Ts Tt 0 = Ts := by
  simp [fluidTemp]

theorem fluidTemp_h (p : Panel K) (Ts Tt : K) (hh : p.h ≠ 0) : fluidTemp p Ts Tt p.h = Tt := by
  unfold fluidTemp; field_simp; ring

theorem fluidTemp_affine (p : Panel K) (Ts Tt z₁ z₂ a : K) :
    fluidTemp p Ts Tt (a * z₁ + (1 - a) * z₂) =
      a * fluidTemp p Ts Tt z₁ + (1 - a) * fluidTemp p Ts Tt z₂ := by
  unfold fluidTemp; ring

/-! ## the chain -/

/-- the links after the start node -/
def linksOf (ps : List (Panel K)) : List (Link K) :=
  ps.flatMap (fun p => [.panel p, .manifold p.weights])

theorem mkChain_eq (Tin : K) (ps : List (Panel K)) : mkChain Tin ps = .start Tin :: linksOf ps := rfl

theorem linksOf_cons (p : Panel K) (ps : List (Panel K)) :
    linksOf (p :: ps) = .panel p :: .manifold p.weights :: linksOf ps := by
  simp [linksOf]

theorem zip_links_cons (p : Panel K) (ps : List (Panel K)) (o : Nat) :
    (linksOf (p :: ps)).zip (dofMapFrom (o + 1) ((linksOf (p :: ps)).map Link.size)) =
      (.panel p, List.range' (o + 1) p.weights.length) ::
      (.manifold p.weights, [o + 1 + p.weights.length]) ::
      (linksOf ps).zip (dofMapFrom (o + 1 + p.weights.length + 1) ((linksOf ps).map Link.size)) := by
  rw [linksOf_cons]
  simp [dofMapFrom, Link.size, List.range'_one]

theorem gather_single (T : List K) (o : Nat) (Tp : List K) (h : gather T [o] = some Tp) :
    ∃ x, T[o]? = some x ∧ Tp = [x] := by
  simp only [gather, List.mapM_cons, List.mapM_nil] at h
  cases hx : T[o]? with
  | none => simp [hx] at h
  | some x => simp [hx] at h; exact ⟨x, rfl, h.symm⟩


/-- "every equation of the chain holds", panel by panel; `o` is the dof of the panel's inlet node -/
def PanelsBalanced (fl : FluidFns K) (pi : K) (T : List K) : Nat → List (Panel K) → Prop
  | _, [] => True
  | o, p :: ps =>
    ∃ Ts Tt Tm, T[o]? = some Ts ∧ gather T (List.range' (o + 1) p.weights.length) = some Tt ∧
      T[o + 1 + p.weights.length]? = some Tm ∧
      Tt.length = p.weights.length ∧ p.metal.length = p.weights.length ∧
      (∀ x ∈ List.zipWith (fun w (Tm : K × List (List K)) =>
          (qMassTube fl p w Ts Tm.1, qConvTube fl pi p w Ts Tm.1 Tm.2)) p.weights (Tt.zip p.metal),
        x.1 = x.2) ∧
      Tm = (List.zipWith (fun w T => w * T) p.weights Tt).sum / p.weights.sum ∧
      PanelsBalanced fl pi T (o + 1 + p.weights.length) ps

theorem zipWith_sub_zero {α β : Type} (f g : α → β → K) :
    ∀ (xs : List α) (ys : List β), (∀ r ∈ List.zipWith (fun a b => f a b - g a b) xs ys, r = 0) →
      ∀ x ∈ List.zipWith (fun a b => (f a b, g a b)) xs ys, x.1 = x.2 := by
  intro xs
  induction xs with
  | nil => intro ys _ x hx; simp at hx
  | cons a xs ih =>
    intro ys h x hx
    cases ys with
    | nil => simp at hx
    | cons b ys =>
      simp only [List.zipWith_cons_cons, List.mem_cons] at h hx
      rcases hx with rfl | hx
      · exact sub_eq_zero.1 (h _ (Or.inl rfl))
      · exact ih ys (fun r hr => h r (Or.inr hr)) x hx

theorem residualGo_panels (fl : FluidFns K) (pi : K) (T : List K) :
    ∀ (ps : List (Panel K)) (o : Nat) (R : List (List K)),
      residualGo fl pi T [o] ((linksOf ps).zip (dofMapFrom (o + 1) ((linksOf ps).map Link.size))) = some R →
      (∀ r ∈ R, ∀ x ∈ r, x = 0) → PanelsBalanced fl pi T o ps := by
  intro ps
  induction ps with
  | nil => intro o R _ _; trivial
  | cons p ps ih =>
    intro o R hR hz
    rw [zip_links_cons] at hR
    simp only [residualGo, Option.bind_eq_bind, Option.bind_eq_some_iff] at hR
    obtain ⟨Tp, hTp, Tt, hTt, r1, hr1, rs, hrs, hRe⟩ := hR
    obtain ⟨Ts, hTs, rfl⟩ := gather_single T o Tp hTp
    obtain ⟨Tt', hTt', Tmm, hTmm, r2, hr2, rs2, hrs2, hrse⟩ := hrs
    have : Tt' = Tt := by rw [hTt] at hTt'; exact (Option.some.inj hTt').symm
    subst this
    obtain ⟨Tm, hTm, rfl⟩ := gather_single T _ Tmm hTmm
    simp only [Option.some.injEq] at hRe hrse
    subst hRe; subst hrse
    -- panel residual
    simp only [linkResidual] at hr1 hr2
    split at hr1
    · next hshape =>
      simp only [Option.some.injEq] at hr1
      split at hr2
      · next hlen =>
        simp only [Option.some.injEq] at hr2
        refine ⟨Ts, Tt', Tm, hTs, hTt, hTm, hshape.1, hshape.2, ?_, ?_, ?_⟩
        · have h1 := hz r1 (by simp)
          rw [← hr1] at h1
          exact zipWith_sub_zero _ _ _ _ h1
        · have h2 := hz r2 (by simp)
          rw [← hr2] at h2
          exact manifoldResidual_zero _ _ _ (h2 _ (by simp))
        · exact ih (o + 1 + p.weights.length) rs2 hrs2 (fun r hr => hz r (by simp [hr]))
      · simp at hr2
    · simp at hr1


theorem chain_root (fl : FluidFns K) (pi : K) (Tin : K) (ps : List (Panel K)) (T : List K)
    (R : List (List K)) (hR : chainResidual fl pi (mkChain Tin ps) T = some R)
    (hz : ∀ r ∈ R, ∀ x ∈ r, x = 0) :
    T[0]? = some Tin ∧ PanelsBalanced fl pi T 0 ps := by
  unfold chainResidual at hR
  rw [mkChain_eq] at hR
  simp only [List.map_cons, Link.size, dofMap, dofMapFrom, List.zip_cons_cons, List.range'_one,
    residualGo, Option.bind_eq_bind, Option.bind_eq_some_iff] at hR
  obtain ⟨Tp, _, Tc, hTc, r0, hr0, rs, hrs, hRe⟩ := hR
  obtain ⟨T0, hT0, rfl⟩ := gather_single T 0 Tc hTc
  simp only [Option.some.injEq] at hRe
  subst hRe
  simp only [linkResidual, Option.some.injEq] at hr0
  have h0 := hz r0 (by simp)
  rw [← hr0] at h0
  have hT : T0 = Tin := startResidual_zero Tin T0 (h0 _ (by simp))
  subst hT
  exact ⟨hT0, residualGo_panels fl pi T ps 0 rs (by simpa using hrs) (fun r hr => hz r (by simp [hr]))⟩

/-! ## recovery -/

/-- what `recover_tube_results` returns, panel by panel; `o` is the dof of the panel's inlet node -/
def RecoverSpec (fl : FluidFns K) (pi : K) (T : List K) : Nat → List (Panel K) → List (Rec K) → Prop
  | _, [], L => L = []
  | o, p :: ps, L =>
    ∃ Ts Tt rest, T[o]? = some Ts ∧ gather T (List.range' (o + 1) p.weights.length) = some Tt ∧
      L = recoverPanel fl pi p Ts Tt :: rest ∧ RecoverSpec fl pi T (o + 1 + p.weights.length) ps rest

theorem recoverGo_panels (fl : FluidFns K) (pi : K) (T : List K) :
    ∀ (ps : List (Panel K)) (o k : Nat) (L : List (Rec K)),
      recoverGo fl pi T (2 * k + 1) [o]
        ((linksOf ps).zip (dofMapFrom (o + 1) ((linksOf ps).map Link.size))) = some L →
      RecoverSpec fl pi T o ps L := by
  intro ps
  induction ps with
  | nil =>
    intro o k L h
    simp [linksOf, recoverGo] at h
    simp only [RecoverSpec]
    exact h
  | cons p ps ih =>
    intro o k L h
    rw [zip_links_cons] at h
    have e1 : (2 * k + 1) % 2 = 1 := by omega
    have e2 : (2 * k + 1 + 1) % 2 ≠ 1 := by omega
    have e3 : 2 * k + 1 + 1 + 1 = 2 * (k + 1) + 1 := by omega
    simp only [recoverGo, e1, e2, if_true, if_false, Option.bind_eq_bind,
      Option.bind_eq_some_iff] at h
    obtain ⟨rs, ⟨rs', hrs', hrs⟩, hL⟩ := h
    simp only [Option.some.injEq] at hrs
    subst hrs
    rw [e3] at hrs'
    have hspec := ih _ _ _ hrs'
    cases hg1 : gather T [o] with
    | none => simp [hg1] at hL
    | some Tp =>
      obtain ⟨Ts, hTs, rfl⟩ := gather_single T o Tp hg1
      cases hg2 : gather T (List.range' (o + 1) p.weights.length) with
      | none => simp [hg1, hg2] at hL
      | some Tt =>
        simp [hg1, hg2] at hL
        exact ⟨Ts, Tt, rs', hTs, hg2, hL.symm, hspec⟩


theorem recover_spec (fl : FluidFns K) (pi : K) (Tin : K) (ps : List (Panel K)) (T : List K)
    (L : List (Rec K)) (h : recover fl pi (mkChain Tin ps) T = some L) : RecoverSpec fl pi T 0 ps L := by
  unfold recover at h
  rw [mkChain_eq] at h
  simp only [List.map_cons, Link.size, dofMap, dofMapFrom, List.zip_cons_cons, List.range'_one,
    recoverGo, Option.bind_eq_bind, Option.bind_eq_some_iff] at h
  obtain ⟨rs, hrs, hL⟩ := h
  simp at hL
  subst hL
  exact recoverGo_panels fl pi T ps 0 0 rs (by simpa using hrs)

/-- dof of the inlet node of panel `i`: `Σ_{j<i} (n_j + 1)` -/
def inletDof : List (Panel K) → Nat → Nat
  | [], _ => 0
  | _, 0 => 0
  | p :: ps, i + 1 => p.weights.length + 1 + inletDof ps i

theorem recoverSpec_index (fl : FluidFns K) (pi : K) (T : List K) :
    ∀ (ps : List (Panel K)) (o : Nat) (L : List (Rec K)), RecoverSpec fl pi T o ps L →
      L.length = ps.length ∧
      ∀ i (hi : i < ps.length), ∃ Ts Tt, T[o + inletDof ps i]? = some Ts ∧
        gather T (List.range' (o + inletDof ps i + 1) ps[i].weights.length) = some Tt ∧
        L[i]? = some (recoverPanel fl pi ps[i] Ts Tt) := by
  intro ps
  induction ps with
  | nil => intro o L h; simp only [RecoverSpec] at h; subst h; simp
  | cons p ps ih =>
    intro o L h
    obtain ⟨Ts, Tt, rest, hTs, hTt, rfl, hrest⟩ := h
    obtain ⟨hlen, hidx⟩ := ih _ _ hrest
    refine ⟨by simp [hlen], ?_⟩
    intro i hi
    cases i with
    | zero => exact ⟨Ts, Tt, by simpa [inletDof] using hTs, by simpa [inletDof] using hTt, by simp⟩
    | succ i =>
      obtain ⟨Ts', Tt', h1, h2, h3⟩ := hidx i (by simpa using hi)
      have e : o + inletDof (p :: ps) (i + 1) = o + 1 + p.weights.length + inletDof ps i := by
        simp only [inletDof]; omega
      refine ⟨Ts', Tt', ?_, ?_, ?_⟩
      · rw [e]; exact h1
      · rw [e]; simpa using h2
      · simpa using h3


/-! ## index forms -/

/-- one panel's equations hold: every tube's heat balance and the manifold mixing rule -/
def PanelBalanced (fl : FluidFns K) (pi : K) (p : Panel K) (Ts : K) (Tt : List K) (Tm : K) : Prop :=
  ∃ (_ : Tt.length = p.weights.length) (_ : p.metal.length = p.weights.length),
    (∀ j (hj : j < p.weights.length),
      qMassTube fl p p.weights[j] Ts Tt[j] = qConvTube fl pi p p.weights[j] Ts Tt[j] p.metal[j]) ∧
    Tm = (List.zipWith (fun w T => w * T) p.weights Tt).sum / p.weights.sum

theorem panelsBalanced_index (fl : FluidFns K) (pi : K) (T : List K) :
    ∀ (ps : List (Panel K)) (o : Nat), PanelsBalanced fl pi T o ps →
      ∀ i (hi : i < ps.length), ∃ Ts Tt Tm, T[o + inletDof ps i]? = some Ts ∧
        gather T (List.range' (o + inletDof ps i + 1) ps[i].weights.length) = some Tt ∧
        T[o + inletDof ps i + 1 + ps[i].weights.length]? = some Tm ∧
        PanelBalanced fl pi ps[i] Ts Tt Tm := by
  intro ps
  induction ps with
  | nil => intro o _ i hi; simp at hi
  | cons p ps ih =>
    intro o h i hi
    obtain ⟨Ts, Tt, Tm, hTs, hTt, hTm, hl1, hl2, hbal, hman, hrest⟩ := h
    cases i with
    | zero =>
      refine ⟨Ts, Tt, Tm, by simpa [inletDof] using hTs, by simpa [inletDof] using hTt,
        by simpa [inletDof] using hTm, hl1, hl2, ?_, hman⟩
      intro j hj
      have hj : j < p.weights.length := by simpa using hj
      have hj' : j < (List.zipWith (fun w (Tm : K × List (List K)) =>
          (qMassTube fl p w Ts Tm.1, qConvTube fl pi p w Ts Tm.1 Tm.2)) p.weights (Tt.zip p.metal)).length := by
        simp [hl1, hl2, hj]
      have := hbal _ (List.getElem_mem hj')
      simpa using this
    | succ i =>
      obtain ⟨Ts', Tt', Tm', h1, h2, h3, h4⟩ := ih _ hrest i (by simpa using hi)
      have e : o + inletDof (p :: ps) (i + 1) = o + 1 + p.weights.length + inletDof ps i := by
        simp only [inletDof]; omega
      refine ⟨Ts', Tt', Tm', ?_, ?_, ?_, ?_⟩
      · rw [e]; exact h1
      · rw [e]; simpa using h2
      · rw [e]; simpa using h3
      · simpa using h4

/-- `Q_mass` of a tube, written out -/
theorem qMassTube_eq (fl : FluidFns K) (p : Panel K) (w Ts Tt : K) :
    qMassTube fl p w Ts Tt = w * p.mdot / p.weights.sum * fl.cp ((Tt + Ts) / 2) * (Tt - Ts) := by
  simp only [qMassTube, ntube, tMean, lsum_eq_sum, two_lit]

/-- `Q_conv` of a tube, written out: `r dz dθ Σ_θ Σ_z w h_f (T_metal − T_fluid(z))` with
`dz = h/nz`, `dθ = 2π/nt`, `T_fluid(z) = (T_out − T_in)/h · z + T_in` on `zs = linspace(0,h,nz)` and
`h_f = film(T̄, ṁ/(N π ρ(T̄) r²), r)`, `T̄ = (T_out + T_in)/2` -/
theorem qConvTube_eq (fl : FluidFns K) (pi : K) (p : Panel K) (w Ts Tt : K) (metal : List (List K)) :
    qConvTube fl pi p w Ts Tt metal =
      p.ri * (p.h / (p.nz : K)) * (2 * pi / (p.nt : K)) *
        (metal.map fun row =>
          (List.zipWith (fun tm z =>
            w * fl.film ((Tt + Ts) / 2)
                (p.mdot / (p.weights.sum * pi * fl.rho ((Tt + Ts) / 2) * (p.ri * p.ri))) p.ri *
              (tm - ((Tt - Ts) / p.h * z + Ts))) row (zs p.h p.nz)).sum).sum := by
  simp only [qConvTube, dz, dtheta, filmTube, flowRate, ntube, tMean, fluidProfile, lsum_eq_sum,
    two_lit, natEmb_eq, List.zipWith_map_right, fluidTemp]

end field
end SrModel.Flowpath
