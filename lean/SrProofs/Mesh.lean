import SrModel.Mesh
import Mathlib.Data.List.Nodup
import Mathlib.Data.List.Range
import Mathlib.Tactic.Ring
import Mathlib.Tactic.Linarith

/-! Helper lemmas about `SrModel.Mesh` (node numbering, connectivity, pressure-facet rule). -/
namespace SrModel.Mesh

/-! ### arithmetic of the numbering -/

theorem wrap_lt {nt j : Nat} (h : j < nt) : (j + 1) % nt < nt := Nat.mod_lt _ (by omega)

/-- the seam wrap by cases (omega cannot reason about `% nt` for a variable `nt`) -/
theorem wrap_cases {nt j : Nat} (h : j < nt) :
    (j + 1 < nt ∧ (j + 1) % nt = j + 1) ∨ (j + 1 = nt ∧ (j + 1) % nt = 0) := by
  rcases Nat.lt_or_ge (j + 1) nt with h1 | h1
  · exact Or.inl ⟨h1, Nat.mod_eq_of_lt h1⟩
  · have : j + 1 = nt := by omega
    exact Or.inr ⟨this, by rw [this, Nat.mod_self]⟩

theorem succ_mul' (i n : Nat) : (i + 1) * n = i * n + n := Nat.succ_mul i n

/-- `i*n + j` with `j < n` determines `(i,j)` -/
theorem pair_inj {n i j i' j' : Nat} (hj : j < n) (hj' : j' < n) (h : i * n + j = i' * n + j') :
    i = i' ∧ j = j' := by
  rcases Nat.lt_trichotomy i i' with h1 | h1 | h1
  · have := Nat.mul_le_mul_right n (show i + 1 ≤ i' from h1)
    rw [succ_mul'] at this; omega
  · subst h1; omega
  · have := Nat.mul_le_mul_right n (show i' + 1 ≤ i from h1)
    rw [succ_mul'] at this; omega

theorem pair_lt {nt nz j k : Nat} (hj : j < nt) (hk : k < nz) : j * nz + k < nt * nz := by
  have := Nat.mul_le_mul_right nz (show j + 1 ≤ nt from hj)
  rw [succ_mul'] at this; omega

theorem pair_lt' {n m i j : Nat} (hi : i < n) (hj : j < m) : i * m + j < n * m := pair_lt hi hj

/-- `i*(nt*nz) + j*nz + k` with `j < nt`, `k < nz` determines `(i,j,k)` -/
theorem triple_inj {nt nz i j k i' j' k' : Nat} (hj : j < nt) (hj' : j' < nt) (hk : k < nz) (hk' : k' < nz)
    (h : i * (nt * nz) + j * nz + k = i' * (nt * nz) + j' * nz + k') : i = i' ∧ j = j' ∧ k = k' := by
  have a := pair_lt hj hk
  have b := pair_lt hj' hk'
  have h' : i * (nt * nz) + (j * nz + k) = i' * (nt * nz) + (j' * nz + k') := by omega
  obtain ⟨e1, e2⟩ := pair_inj a b h'
  obtain ⟨e3, e4⟩ := pair_inj hk hk' e2
  exact ⟨e1, e3, e4⟩

theorem mapper_eq_node3 {nt nz i j k : Nat} (hj : j < nt) : mapper nt nz i j k = node3 nt nz i j k := by
  simp [mapper, node3, Nat.mod_eq_of_lt hj]

theorem mapper_wrap {nt nz i j k : Nat} : mapper nt nz i (j + 1) k = node3 nt nz i ((j + 1) % nt) k := by
  simp [mapper, node3]

/-! ### generic list facts -/

theorem length_flatMap_const {α β} (l : List α) (f : α → List β) (c : Nat)
    (h : ∀ x ∈ l, (f x).length = c) : (l.flatMap f).length = l.length * c := by
  induction l with
  | nil => simp
  | cons a l ih =>
    simp only [List.flatMap_cons, List.length_append, List.length_cons]
    rw [h a (by simp), ih (fun x hx => h x (by simp [hx])), succ_mul']; omega

theorem nodup_flatMap_of {α β} (l : List α) (f : α → List β) (hl : l.Nodup)
    (h1 : ∀ x ∈ l, (f x).Nodup)
    (h2 : ∀ x ∈ l, ∀ y ∈ l, x ≠ y → ∀ b, b ∈ f x → b ∈ f y → False) : (l.flatMap f).Nodup := by
  rw [List.nodup_flatMap]
  refine ⟨h1, hl.pairwise_of_forall_ne ?_⟩
  intro a ha b hb hab
  exact fun c hc hc' => h2 a ha b hb hab c hc hc'

/-- `filter` of a `flatMap` over `range n` whose only surviving block is the one of index 0 -/
theorem flatMap_range_head {β} (n : Nat) (hn : 0 < n) (g : Nat → List β) (h : ∀ i, 0 < i → i < n → g i = []) :
    (List.range n).flatMap g = g 0 := by
  obtain ⟨m, rfl⟩ : ∃ m, n = m + 1 := ⟨n - 1, by omega⟩
  rw [List.range_succ_eq_map, List.flatMap_cons, List.flatMap_map]
  have : (List.range m).flatMap (fun a => g (Nat.succ a)) = [] := by
    rw [List.flatMap_eq_nil_iff]
    intro a ha
    exact h (a + 1) (by omega) (by simp at ha; omega)
  rw [this, List.append_nil]

/-! ### 2-D connectivity -/

theorem mem_conn2 {nr nt : Nat} {e : List Nat} :
    e ∈ conn2 nr nt ↔ ∃ i j, i < nr - 1 ∧ j < nt ∧ e = quad nt i j := by
  simp only [conn2, List.mem_flatMap, List.mem_map, List.mem_range]
  constructor
  · rintro ⟨i, hi, j, hj, rfl⟩; exact ⟨i, j, hi, hj, rfl⟩
  · rintro ⟨i, j, hi, hj, rfl⟩; exact ⟨i, hi, j, hj, rfl⟩

theorem quad_inj {nt i j i' j' : Nat} (hj : j < nt) (hj' : j' < nt) (h : quad nt i j = quad nt i' j') :
    i = i' ∧ j = j' := by
  simp only [quad, List.cons.injEq] at h
  exact pair_inj hj hj' h.1

theorem conn2_nodup (nr nt : Nat) : (conn2 nr nt).Nodup := by
  unfold conn2
  apply nodup_flatMap_of _ _ List.nodup_range
  · intro i _
    apply List.Nodup.map_on _ List.nodup_range
    intro a ha b hb h
    exact (quad_inj (List.mem_range.1 ha) (List.mem_range.1 hb) h).2
  · intro i _ i' _ hne e he he'
    simp only [List.mem_map, List.mem_range] at he he'
    obtain ⟨j, hj, rfl⟩ := he
    obtain ⟨j', hj', h⟩ := he'
    exact hne (quad_inj hj' hj h).1.symm

theorem conn2_length (nr nt : Nat) : (conn2 nr nt).length = nelems2 nr nt := by
  unfold conn2 nelems2
  rw [length_flatMap_const _ _ nt (by intro x _; simp), List.length_range]

theorem quad_vertex_lt {nr nt i j v : Nat} (hi : i < nr - 1) (hj : j < nt) (hv : v ∈ quad nt i j) :
    v < nnodes2 nr nt := by
  have hw := wrap_lt hj
  have h2 := Nat.mul_le_mul_right nt (show i + 2 ≤ nr by omega)
  have e2 : (i + 2) * nt = i * nt + nt + nt := by ring
  have e1 := succ_mul' i nt
  unfold nnodes2
  simp only [quad, List.mem_cons, List.not_mem_nil, or_false] at hv
  rcases hv with rfl | rfl | rfl | rfl <;> omega

/-- every 2-D node belongs to some element -/
theorem node2_used {nr nt i j : Nat} (hnr : 2 ≤ nr) (hi : i < nr) (hj : j < nt) :
    ∃ e ∈ conn2 nr nt, node2 nt i j ∈ e := by
  by_cases h : i < nr - 1
  · exact ⟨quad nt i j, mem_conn2.2 ⟨i, j, h, hj, rfl⟩, by simp [quad, node2]⟩
  · refine ⟨quad nt (i - 1) j, mem_conn2.2 ⟨i - 1, j, by omega, hj, rfl⟩, ?_⟩
    have : i - 1 + 1 = i := by omega
    simp [quad, node2, this]

/-- every number below `nr*nt` is the index of a grid point -/
theorem node2_surj {nr nt n : Nat} (hn : n < nr * nt) :
    ∃ i j, i < nr ∧ j < nt ∧ n = node2 nt i j := by
  have hnt : 0 < nt := by
    rcases Nat.eq_zero_or_pos nt with h | h
    · subst h; simp at hn
    · exact h
  refine ⟨n / nt, n % nt, ?_, Nat.mod_lt _ hnt, ?_⟩
  · exact (Nat.div_lt_iff_lt_mul hnt).2 hn
  · unfold node2; rw [Nat.mul_comm]; exact (Nat.div_add_mod n nt).symm

/-! ### 3-D connectivity -/

theorem mem_conn3 {nr nt nz : Nat} {e : List Nat} :
    e ∈ conn3 nr nt nz ↔ ∃ i j k, i < nr - 1 ∧ j < nt ∧ k < nz - 1 ∧ e = hex nt nz i j k := by
  simp only [conn3, List.mem_flatMap, List.mem_map, List.mem_range]
  constructor
  · rintro ⟨i, hi, j, hj, k, hk, rfl⟩; exact ⟨i, j, k, hi, hj, hk, rfl⟩
  · rintro ⟨i, j, k, hi, hj, hk, rfl⟩; exact ⟨i, hi, j, hj, k, hk, rfl⟩

theorem hex_inj {nt nz i j k i' j' k' : Nat} (hj : j < nt) (hj' : j' < nt) (hk : k + 1 < nz) (hk' : k' + 1 < nz)
    (h : hex nt nz i j k = hex nt nz i' j' k') : i = i' ∧ j = j' ∧ k = k' := by
  simp only [hex, List.cons.injEq] at h
  have h5 := h.2.2.2.2.2.1
  rw [mapper_eq_node3 hj, mapper_eq_node3 hj'] at h5
  exact triple_inj hj hj' (by omega) (by omega) h5

theorem conn3_nodup (nr nt nz : Nat) : (conn3 nr nt nz).Nodup := by
  unfold conn3
  apply nodup_flatMap_of _ _ List.nodup_range
  · intro i _
    apply nodup_flatMap_of _ _ List.nodup_range
    · intro j hj
      apply List.Nodup.map_on _ List.nodup_range
      intro a ha b hb h
      have ha := List.mem_range.1 ha
      have hb := List.mem_range.1 hb
      have hj := List.mem_range.1 hj
      exact (hex_inj hj hj (by omega) (by omega) h).2.2
    · intro j hj j' hj' hne e he he'
      simp only [List.mem_map, List.mem_range] at he he'
      obtain ⟨k, hk, rfl⟩ := he
      obtain ⟨k', hk', h⟩ := he'
      exact hne (hex_inj (List.mem_range.1 hj') (List.mem_range.1 hj) (by omega) (by omega) h).2.1.symm
  · intro i _ i' _ hne e he he'
    simp only [List.mem_flatMap, List.mem_map, List.mem_range] at he he'
    obtain ⟨j, hj, k, hk, rfl⟩ := he
    obtain ⟨j', hj', k', hk', h⟩ := he'
    exact hne (hex_inj hj' hj (by omega) (by omega) h).1.symm

theorem conn3_length (nr nt nz : Nat) : (conn3 nr nt nz).length = nelems3 nr nt nz := by
  unfold conn3 nelems3
  rw [length_flatMap_const _ _ (nt * (nz - 1)), List.length_range, Nat.mul_assoc]
  intro i _
  rw [length_flatMap_const _ _ (nz - 1) (by intro x _; simp), List.length_range]

/-- the hexahedron's vertices as grid points: the eight neighbours, seam wrapped -/
theorem hex_eq {nt nz i j k : Nat} (hj : j < nt) :
    hex nt nz i j k =
      [node3 nt nz (i + 1) ((j + 1) % nt) k, node3 nt nz i ((j + 1) % nt) k,
       node3 nt nz (i + 1) ((j + 1) % nt) (k + 1), node3 nt nz (i + 1) j k,
       node3 nt nz i ((j + 1) % nt) (k + 1), node3 nt nz i j k,
       node3 nt nz (i + 1) j (k + 1), node3 nt nz i j (k + 1)] := by
  simp only [hex, mapper_wrap, mapper_eq_node3 hj]

theorem node3_lt {nr nt nz i j k : Nat} (hi : i < nr) (hj : j < nt) (hk : k < nz) :
    node3 nt nz i j k < nnodes3 nr nt nz := by
  have a := pair_lt hj hk
  have := pair_lt' (n := nr) (m := nt * nz) hi a
  unfold node3 nnodes3
  rw [Nat.mul_assoc]; omega

theorem hex_vertex_lt {nr nt nz i j k v : Nat} (hi : i < nr - 1) (hj : j < nt) (hk : k < nz - 1)
    (hv : v ∈ hex nt nz i j k) : v < nnodes3 nr nt nz := by
  have hw := wrap_lt hj
  rw [hex_eq hj] at hv
  simp only [List.mem_cons, List.not_mem_nil, or_false] at hv
  rcases hv with rfl | rfl | rfl | rfl | rfl | rfl | rfl | rfl <;>
    exact node3_lt (by omega) (by assumption) (by omega)

theorem node3_used {nr nt nz i j k : Nat} (hnr : 2 ≤ nr) (hnz : 2 ≤ nz) (hi : i < nr) (hj : j < nt) (hk : k < nz) :
    ∃ e ∈ conn3 nr nt nz, node3 nt nz i j k ∈ e := by
  -- element (i', j, k') with i' = i or i-1, k' = k or k-1; the vertex has circumferential offset 0
  have key : ∀ i' k', i' < nr - 1 → k' < nz - 1 → (i = i' ∨ i = i' + 1) → (k = k' ∨ k = k' + 1) →
      ∃ e ∈ conn3 nr nt nz, node3 nt nz i j k ∈ e := by
    intro i' k' hi' hk' ei ek
    refine ⟨hex nt nz i' j k', mem_conn3.2 ⟨i', j, k', hi', hj, hk', rfl⟩, ?_⟩
    rw [hex_eq hj]
    rcases ei with rfl | rfl <;> rcases ek with rfl | rfl <;> simp
  by_cases h1 : i < nr - 1 <;> by_cases h2 : k < nz - 1
  · exact key i k h1 h2 (Or.inl rfl) (Or.inl rfl)
  · exact key i (k - 1) h1 (by omega) (Or.inl rfl) (Or.inr (by omega))
  · exact key (i - 1) k (by omega) h2 (Or.inr (by omega)) (Or.inl rfl)
  · exact key (i - 1) (k - 1) (by omega) (by omega) (Or.inr (by omega)) (Or.inr (by omega))

theorem node3_surj {nr nt nz n : Nat} (hn : n < nr * nt * nz) :
    ∃ i j k, i < nr ∧ j < nt ∧ k < nz ∧ n = node3 nt nz i j k := by
  rw [Nat.mul_assoc] at hn
  obtain ⟨i, m, hi, hm, rfl⟩ := node2_surj hn
  obtain ⟨j, k, hj, hk, rfl⟩ := node2_surj hm
  exact ⟨i, j, k, hi, hj, hk, by simp [node2, node3, Nat.add_assoc]⟩

/-! ### the pressure-facet rule: Bool ↔ Prop -/

theorem sameFacet_iff {f g : List Nat} :
    sameFacet f g = true ↔ (∀ v ∈ f, v ∈ g) ∧ (∀ v ∈ g, v ∈ f) := by
  simp [sameFacet]

theorem sameFacet_refl (f : List Nat) : sameFacet f f = true := by simp [sameFacet]

theorem allInner_iff {per : Nat} {f : List Nat} (hp : 0 < per) :
    allInner per f = true ↔ ∀ v ∈ f, v < per := by
  simp only [allInner, radIdx, List.all_eq_true, beq_iff_eq, Nat.div_eq_zero_iff]
  constructor
  · intro h v hv; rcases h v hv with h0 | h0 <;> omega
  · intro h v hv; exact Or.inr (h v hv)

theorem allInner_false {per v : Nat} {f : List Nat} (hp : 0 < per) (hv : v ∈ f) (h : per ≤ v) :
    allInner per f = false := by
  rcases hb : allInner per f with _ | _
  · rfl
  · have := (allInner_iff hp).1 hb v hv; omega

/-- an element count of one for a facet that exactly one element `e0` of a duplicate-free
connectivity has -/
theorem isBoundary_of_unique {conn : List (List Nat)} {ef : List Nat → List (List Nat)} {f e0 : List Nat}
    (hnd : conn.Nodup) (he0 : e0 ∈ conn) (h : ∀ e ∈ conn, (hasFacet ef f e = true ↔ e = e0)) :
    isBoundary conn ef f = true := by
  unfold isBoundary nElemsWith
  have : conn.filter (hasFacet ef f) = conn.filter (fun e => e == e0) := by
    apply List.filter_congr
    intro e he
    rw [Bool.eq_iff_iff, h e he]; simp
  rw [this, ← List.count_eq_length_filter, List.count_eq_one_of_mem hnd he0]; rfl

/-! ### 2-D: the rule selects exactly the inner-surface edges -/

theorem innerFacet2_lt {nt j v : Nat} (hj : j < nt) (hv : v ∈ innerFacet2 nt j) : v < nt := by
  simp only [innerFacet2, node2, Nat.zero_mul, Nat.zero_add, List.mem_cons, List.not_mem_nil, or_false] at hv
  rcases hv with rfl | rfl
  · exact hj
  · exact wrap_lt hj

theorem innerFacet2_mem_quad (nt j : Nat) : innerFacet2 nt j ∈ quadFacets (quad nt 0 j) := by
  simp [quad, quadFacets, innerFacet2, node2]

/-- a facet of element `(i,j)` all of whose vertices are on the inner radius is the inner edge `j`
of an element of the first ring -/
theorem quad_facet_inner {nt i j : Nat} {f : List Nat}
    (hf : f ∈ quadFacets (quad nt i j)) (hin : ∀ v ∈ f, v < nt) : i = 0 ∧ f = innerFacet2 nt j := by
  have e1 := succ_mul' i nt
  simp only [quad, quadFacets, List.mem_cons, List.not_mem_nil, or_false] at hf
  rcases hf with rfl | rfl | rfl | rfl
  · have h1 := hin (i * nt + j) (by simp)
    rcases Nat.eq_zero_or_pos i with h0 | h0
    · subst h0; exact ⟨rfl, by simp [innerFacet2, node2]⟩
    · have := Nat.mul_le_mul_right nt (show 1 ≤ i from h0); omega
  · have := hin ((i + 1) * nt + (j + 1) % nt) (by simp); omega
  · have := hin ((i + 1) * nt + (j + 1) % nt) (by simp); omega
  · have := hin ((i + 1) * nt + j) (by simp); omega

theorem innerFacet2_sub {nt j j' : Nat} (hnt : 3 ≤ nt) (hj : j < nt) (hj' : j' < nt)
    (h : ∀ v ∈ innerFacet2 nt j', v ∈ innerFacet2 nt j) : j' = j := by
  simp only [innerFacet2, node2, Nat.zero_mul, Nat.zero_add, List.mem_cons, List.not_mem_nil, or_false,
    forall_eq_or_imp, forall_eq] at h
  obtain ⟨h1, h2⟩ := h
  rcases wrap_cases hj with ⟨a, b⟩ | ⟨a, b⟩ <;> rcases wrap_cases hj' with ⟨c, d⟩ | ⟨c, d⟩ <;>
    rw [b] at h1 h2 <;> rw [d] at h2 <;> omega

theorem hasFacet2_iff {nr nt j : Nat} {e : List Nat} (hnt : 3 ≤ nt) (hj : j < nt) (he : e ∈ conn2 nr nt) :
    hasFacet quadFacets (innerFacet2 nt j) e = true ↔ e = quad nt 0 j := by
  obtain ⟨i', j', hi', hj', rfl⟩ := mem_conn2.1 he
  unfold hasFacet
  rw [List.any_eq_true]
  constructor
  · rintro ⟨g, hg, hs⟩
    rw [sameFacet_iff] at hs
    obtain ⟨i0, rfl⟩ := quad_facet_inner hg (fun v hv => innerFacet2_lt hj (hs.2 v hv))
    have := innerFacet2_sub hnt hj hj' hs.2
    subst this; subst i0; rfl
  · intro h
    obtain ⟨rfl, rfl⟩ := quad_inj hj' hj h
    exact ⟨innerFacet2 nt j', innerFacet2_mem_quad nt j', sameFacet_refl _⟩

/-- every inner-surface edge belongs to exactly one element -/
theorem innerFacet2_boundary {nr nt j : Nat} (hnr : 2 ≤ nr) (hnt : 3 ≤ nt) (hj : j < nt) :
    isBoundary (conn2 nr nt) quadFacets (innerFacet2 nt j) = true :=
  isBoundary_of_unique (conn2_nodup nr nt) (mem_conn2.2 ⟨0, j, by omega, hj, rfl⟩)
    (fun _ he => hasFacet2_iff hnt hj he)

theorem loaded2_iff {nr nt i j : Nat} {f : List Nat} (hnr : 2 ≤ nr) (hnt : 3 ≤ nt) (hj : j < nt)
    (hf : f ∈ quadFacets (quad nt i j)) :
    loaded (conn2 nr nt) quadFacets nt f = true ↔ i = 0 ∧ f = innerFacet2 nt j := by
  unfold loaded
  rw [Bool.and_eq_true, allInner_iff (by omega)]
  constructor
  · rintro ⟨h, _⟩; exact quad_facet_inner hf h
  · rintro ⟨_, rfl⟩
    exact ⟨fun v hv => innerFacet2_lt hj hv, innerFacet2_boundary hnr hnt hj⟩

theorem filter_quad {nr nt i j : Nat} (hnr : 2 ≤ nr) (hnt : 3 ≤ nt) (hj : j < nt) :
    (quadFacets (quad nt i j)).filter (loaded (conn2 nr nt) quadFacets nt) =
      if i = 0 then [innerFacet2 nt j] else [] := by
  have hp : 0 < nt := by omega
  have e1 := succ_mul' i nt
  have hq : quadFacets (quad nt i j) =
      [[i * nt + j, i * nt + (j + 1) % nt], [i * nt + (j + 1) % nt, (i + 1) * nt + (j + 1) % nt],
       [(i + 1) * nt + (j + 1) % nt, (i + 1) * nt + j], [(i + 1) * nt + j, i * nt + j]] := rfl
  have h2 : loaded (conn2 nr nt) quadFacets nt [i * nt + (j + 1) % nt, (i + 1) * nt + (j + 1) % nt] = false := by
    unfold loaded
    rw [allInner_false hp (v := (i + 1) * nt + (j + 1) % nt) (by simp) (by omega)]; rfl
  have h3 : loaded (conn2 nr nt) quadFacets nt [(i + 1) * nt + (j + 1) % nt, (i + 1) * nt + j] = false := by
    unfold loaded
    rw [allInner_false hp (v := (i + 1) * nt + j) (by simp) (by omega)]; rfl
  have h4 : loaded (conn2 nr nt) quadFacets nt [(i + 1) * nt + j, i * nt + j] = false := by
    unfold loaded
    rw [allInner_false hp (v := (i + 1) * nt + j) (by simp) (by omega)]; rfl
  have h1 := loaded2_iff (nr := nr) (i := i) (f := [i * nt + j, i * nt + (j + 1) % nt]) hnr hnt hj
    (by rw [hq]; simp)
  rw [hq]
  by_cases h0 : i = 0
  · have t : loaded (conn2 nr nt) quadFacets nt [i * nt + j, i * nt + (j + 1) % nt] = true :=
      h1.2 ⟨h0, by subst h0; simp [innerFacet2, node2]⟩
    simp only [List.filter_cons, List.filter_nil, t, h2, h3, h4, if_true]
    subst h0; simp [innerFacet2, node2]
  · have t : loaded (conn2 nr nt) quadFacets nt [i * nt + j, i * nt + (j + 1) % nt] = false := by
      rcases hb : loaded (conn2 nr nt) quadFacets nt [i * nt + j, i * nt + (j + 1) % nt] with _ | _
      · rfl
      · exact absurd (h1.1 hb).1 h0
    simp only [List.filter_cons, List.filter_nil, t, h2, h3, h4]
    simp [h0]

theorem elemFacetList2 (nr nt : Nat) :
    elemFacetList (conn2 nr nt) quadFacets =
      (List.range (nr - 1)).flatMap fun i => (List.range nt).flatMap fun j => quadFacets (quad nt i j) := by
  simp only [elemFacetList, conn2, List.flatMap_assoc, List.flatMap_map]

/-- **the rule selects exactly the inner-surface edges, in order, each once** -/
theorem pressureFacets2_eq {nr nt : Nat} (hnr : 2 ≤ nr) (hnt : 3 ≤ nt) :
    pressureFacets2 nr nt = innerFacets2 nt := by
  unfold pressureFacets2
  rw [elemFacetList2, List.filter_flatMap]
  simp only [List.filter_flatMap]
  rw [flatMap_range_head (nr - 1) (by omega)]
  · unfold innerFacets2
    rw [List.map_eq_flatMap]
    apply List.flatMap_congr
    intro j hj
    rw [filter_quad hnr hnt (List.mem_range.1 hj)]; simp
  · intro i h0 _
    rw [List.flatMap_eq_nil_iff]
    intro j hj
    rw [filter_quad hnr hnt (List.mem_range.1 hj)]
    simp; omega

/-! ### 3-D: the rule selects exactly the inner-surface faces -/

theorem node3_eq_iff {nt nz a b x y : Nat} (ha : a < nt) (hx : x < nt) (hb : b < nz) (hy : y < nz) :
    node3 nt nz 0 a b = node3 nt nz 0 x y ↔ a = x ∧ b = y := by
  constructor
  · intro h; exact (triple_inj ha hx hb hy h).2
  · rintro ⟨rfl, rfl⟩; rfl

theorem node3_zero_lt {nt nz a b : Nat} (ha : a < nt) (hb : b < nz) : node3 nt nz 0 a b < nt * nz := by
  have := pair_lt ha hb
  simp only [node3, Nat.zero_mul, Nat.zero_add]; exact this

theorem mem_innerFacet3 {nt nz j k a b : Nat} (hj : j < nt) (hk : k + 1 < nz) (ha : a < nt) (hb : b < nz) :
    node3 nt nz 0 a b ∈ innerFacet3 nt nz j k ↔ (a = (j + 1) % nt ∨ a = j) ∧ (b = k ∨ b = k + 1) := by
  have hw := wrap_lt hj
  simp only [innerFacet3, List.mem_cons, List.not_mem_nil, or_false]
  rw [node3_eq_iff ha hw hb (by omega), node3_eq_iff ha hj hb (by omega),
    node3_eq_iff ha hj hb (by omega), node3_eq_iff ha hw hb (by omega)]
  omega

theorem innerFacet3_lt {nt nz j k v : Nat} (hj : j < nt) (hk : k + 1 < nz) (hv : v ∈ innerFacet3 nt nz j k) :
    v < nt * nz := by
  have hw := wrap_lt hj
  simp only [innerFacet3, List.mem_cons, List.not_mem_nil, or_false] at hv
  rcases hv with rfl | rfl | rfl | rfl <;> exact node3_zero_lt (by assumption) (by omega)

theorem innerFacet3_eq_hexFacet {nt nz j k : Nat} (hj : j < nt) :
    innerFacet3 nt nz j k =
      [mapper nt nz 0 (j + 1) k, mapper nt nz 0 j k, mapper nt nz 0 j (k + 1), mapper nt nz 0 (j + 1) (k + 1)] := by
  simp only [innerFacet3, mapper_wrap, mapper_eq_node3 hj]

theorem innerFacet3_mem_hex {nt nz j k : Nat} (hj : j < nt) :
    innerFacet3 nt nz j k ∈ hexFacets (hex nt nz 0 j k) := by
  rw [innerFacet3_eq_hexFacet hj]; simp [hex, hexFacets]

theorem mapper_succ_ge (nt nz i c h : Nat) : nt * nz ≤ mapper nt nz (i + 1) c h := by
  unfold mapper; rw [succ_mul']; omega

/-- a face of element `(i,j,k)` all of whose vertices are on the inner radius is the inner face
`(j,k)` of an element of the first ring: in particular it is not an end face and not an outer face -/
theorem hex_facet_inner {nt nz i j k : Nat} {f : List Nat} (hj : j < nt)
    (hf : f ∈ hexFacets (hex nt nz i j k)) (hin : ∀ v ∈ f, v < nt * nz) : i = 0 ∧ f = innerFacet3 nt nz j k := by
  simp only [hex, hexFacets, List.mem_cons, List.not_mem_nil, or_false] at hf
  rcases hf with rfl | rfl | rfl | rfl | rfl | rfl
  · have := hin (mapper nt nz (i + 1) (j + 1) k) (by simp)
    have := mapper_succ_ge nt nz i (j + 1) k; omega
  · have := hin (mapper nt nz (i + 1) (j + 1) k) (by simp)
    have := mapper_succ_ge nt nz i (j + 1) k; omega
  · have := hin (mapper nt nz (i + 1) (j + 1) k) (by simp)
    have := mapper_succ_ge nt nz i (j + 1) k; omega
  · have := hin (mapper nt nz (i + 1) (j + 1) (k + 1)) (by simp)
    have := mapper_succ_ge nt nz i (j + 1) (k + 1); omega
  · have h1 := hin (mapper nt nz i j k) (by simp)
    rcases Nat.eq_zero_or_pos i with h0 | h0
    · subst h0; exact ⟨rfl, (innerFacet3_eq_hexFacet hj).symm⟩
    · have := Nat.mul_le_mul_right (nt * nz) (show 1 ≤ i from h0)
      unfold mapper at h1; omega
  · have := hin (mapper nt nz (i + 1) j k) (by simp)
    have := mapper_succ_ge nt nz i j k; omega

theorem innerFacet3_sub {nt nz j k j' k' : Nat} (hnt : 3 ≤ nt) (hj : j < nt) (hj' : j' < nt)
    (hk : k + 1 < nz) (hk' : k' + 1 < nz)
    (h : ∀ v ∈ innerFacet3 nt nz j' k', v ∈ innerFacet3 nt nz j k) : j' = j ∧ k' = k := by
  have hw' := wrap_lt hj'
  have A := (mem_innerFacet3 hj hk hj' (by omega)).1 (h (node3 nt nz 0 j' k') (by simp [innerFacet3]))
  have B := (mem_innerFacet3 hj hk hj' (by omega)).1 (h (node3 nt nz 0 j' (k' + 1)) (by simp [innerFacet3]))
  have C := (mem_innerFacet3 hj hk hw' (by omega)).1 (h (node3 nt nz 0 ((j' + 1) % nt) k') (by simp [innerFacet3]))
  rcases wrap_cases hj with ⟨a, b⟩ | ⟨a, b⟩ <;> rcases wrap_cases hj' with ⟨c, d⟩ | ⟨c, d⟩ <;>
    rw [b] at A B C <;> rw [d] at C <;> omega

theorem hasFacet3_iff {nr nt nz j k : Nat} {e : List Nat} (hnt : 3 ≤ nt) (hj : j < nt) (hk : k + 1 < nz)
    (he : e ∈ conn3 nr nt nz) :
    hasFacet hexFacets (innerFacet3 nt nz j k) e = true ↔ e = hex nt nz 0 j k := by
  obtain ⟨i', j', k', hi', hj', hk', rfl⟩ := mem_conn3.1 he
  unfold hasFacet
  rw [List.any_eq_true]
  constructor
  · rintro ⟨g, hg, hs⟩
    rw [sameFacet_iff] at hs
    obtain ⟨i0, rfl⟩ := hex_facet_inner hj' hg (fun v hv => innerFacet3_lt hj hk (hs.2 v hv))
    obtain ⟨rfl, rfl⟩ := innerFacet3_sub hnt hj hj' hk (by omega) hs.2
    subst i0; rfl
  · intro h
    obtain ⟨rfl, rfl, rfl⟩ := hex_inj hj' hj (by omega) hk h
    exact ⟨innerFacet3 nt nz j' k', innerFacet3_mem_hex hj', sameFacet_refl _⟩

/-- every inner-surface face belongs to exactly one element -/
theorem innerFacet3_boundary {nr nt nz j k : Nat} (hnr : 2 ≤ nr) (hnt : 3 ≤ nt) (hj : j < nt) (hk : k + 1 < nz) :
    isBoundary (conn3 nr nt nz) hexFacets (innerFacet3 nt nz j k) = true :=
  isBoundary_of_unique (conn3_nodup nr nt nz) (mem_conn3.2 ⟨0, j, k, by omega, hj, by omega, rfl⟩)
    (fun _ he => hasFacet3_iff hnt hj hk he)

theorem loaded3_iff {nr nt nz i j k : Nat} {f : List Nat} (hnr : 2 ≤ nr) (hnt : 3 ≤ nt) (hj : j < nt)
    (hk : k + 1 < nz) (hf : f ∈ hexFacets (hex nt nz i j k)) :
    loaded (conn3 nr nt nz) hexFacets (nt * nz) f = true ↔ i = 0 ∧ f = innerFacet3 nt nz j k := by
  have hp : 0 < nt * nz := Nat.mul_pos (by omega) (by omega)
  unfold loaded
  rw [Bool.and_eq_true, allInner_iff hp]
  constructor
  · rintro ⟨h, _⟩; exact hex_facet_inner hj hf h
  · rintro ⟨_, rfl⟩
    exact ⟨fun v hv => innerFacet3_lt hj hk hv, innerFacet3_boundary hnr hnt hj hk⟩

theorem loaded_false_of_outer {conn : List (List Nat)} {ef : List Nat → List (List Nat)} {per v : Nat}
    {f : List Nat} (hp : 0 < per) (hv : v ∈ f) (h : per ≤ v) : loaded conn ef per f = false := by
  unfold loaded; rw [allInner_false hp hv h]; rfl

theorem filter_hex {nr nt nz i j k : Nat} (hnr : 2 ≤ nr) (hnt : 3 ≤ nt) (hj : j < nt) (hk : k + 1 < nz) :
    (hexFacets (hex nt nz i j k)).filter (loaded (conn3 nr nt nz) hexFacets (nt * nz)) =
      if i = 0 then [innerFacet3 nt nz j k] else [] := by
  have hp : 0 < nt * nz := Nat.mul_pos (by omega) (by omega)
  have hq : hexFacets (hex nt nz i j k) =
      [[mapper nt nz (i + 1) (j + 1) k, mapper nt nz i (j + 1) k, mapper nt nz i (j + 1) (k + 1),
          mapper nt nz (i + 1) (j + 1) (k + 1)],
       [mapper nt nz (i + 1) (j + 1) k, mapper nt nz (i + 1) (j + 1) (k + 1), mapper nt nz (i + 1) j (k + 1),
          mapper nt nz (i + 1) j k],
       [mapper nt nz (i + 1) (j + 1) k, mapper nt nz (i + 1) j k, mapper nt nz i j k, mapper nt nz i (j + 1) k],
       [mapper nt nz (i + 1) (j + 1) (k + 1), mapper nt nz i (j + 1) (k + 1), mapper nt nz i j (k + 1),
          mapper nt nz (i + 1) j (k + 1)],
       [mapper nt nz i (j + 1) k, mapper nt nz i j k, mapper nt nz i j (k + 1), mapper nt nz i (j + 1) (k + 1)],
       [mapper nt nz (i + 1) j k, mapper nt nz (i + 1) j (k + 1), mapper nt nz i j (k + 1), mapper nt nz i j k]] := rfl
  have g1 := loaded_false_of_outer (conn := conn3 nr nt nz) (ef := hexFacets) hp
    (f := [mapper nt nz (i + 1) (j + 1) k, mapper nt nz i (j + 1) k, mapper nt nz i (j + 1) (k + 1),
          mapper nt nz (i + 1) (j + 1) (k + 1)]) (v := mapper nt nz (i + 1) (j + 1) k) (by simp)
    (mapper_succ_ge ..)
  have g2 := loaded_false_of_outer (conn := conn3 nr nt nz) (ef := hexFacets) hp
    (f := [mapper nt nz (i + 1) (j + 1) k, mapper nt nz (i + 1) (j + 1) (k + 1), mapper nt nz (i + 1) j (k + 1),
          mapper nt nz (i + 1) j k]) (v := mapper nt nz (i + 1) (j + 1) k) (by simp)
    (mapper_succ_ge ..)
  have g3 := loaded_false_of_outer (conn := conn3 nr nt nz) (ef := hexFacets) hp
    (f := [mapper nt nz (i + 1) (j + 1) k, mapper nt nz (i + 1) j k, mapper nt nz i j k, mapper nt nz i (j + 1) k])
    (v := mapper nt nz (i + 1) (j + 1) k) (by simp) (mapper_succ_ge ..)
  have g4 := loaded_false_of_outer (conn := conn3 nr nt nz) (ef := hexFacets) hp
    (f := [mapper nt nz (i + 1) (j + 1) (k + 1), mapper nt nz i (j + 1) (k + 1), mapper nt nz i j (k + 1),
          mapper nt nz (i + 1) j (k + 1)]) (v := mapper nt nz (i + 1) (j + 1) (k + 1)) (by simp)
    (mapper_succ_ge ..)
  have g6 := loaded_false_of_outer (conn := conn3 nr nt nz) (ef := hexFacets) hp
    (f := [mapper nt nz (i + 1) j k, mapper nt nz (i + 1) j (k + 1), mapper nt nz i j (k + 1), mapper nt nz i j k])
    (v := mapper nt nz (i + 1) j k) (by simp) (mapper_succ_ge ..)
  have h5 := loaded3_iff (nr := nr) (i := i)
    (f := [mapper nt nz i (j + 1) k, mapper nt nz i j k, mapper nt nz i j (k + 1), mapper nt nz i (j + 1) (k + 1)])
    hnr hnt hj hk (by rw [hq]; simp)
  rw [hq]
  by_cases h0 : i = 0
  · have t : loaded (conn3 nr nt nz) hexFacets (nt * nz)
        [mapper nt nz i (j + 1) k, mapper nt nz i j k, mapper nt nz i j (k + 1), mapper nt nz i (j + 1) (k + 1)] = true :=
      h5.2 ⟨h0, by subst h0; exact (innerFacet3_eq_hexFacet hj).symm⟩
    simp only [List.filter_cons, List.filter_nil, t, g1, g2, g3, g4, g6, if_true]
    subst h0; simp [innerFacet3_eq_hexFacet hj]
  · have t : loaded (conn3 nr nt nz) hexFacets (nt * nz)
        [mapper nt nz i (j + 1) k, mapper nt nz i j k, mapper nt nz i j (k + 1), mapper nt nz i (j + 1) (k + 1)] = false := by
      rcases hb : loaded (conn3 nr nt nz) hexFacets (nt * nz)
        [mapper nt nz i (j + 1) k, mapper nt nz i j k, mapper nt nz i j (k + 1), mapper nt nz i (j + 1) (k + 1)] with _ | _
      · rfl
      · exact absurd (h5.1 hb).1 h0
    simp only [List.filter_cons, List.filter_nil, t, g1, g2, g3, g4, g6]
    simp [h0]

theorem elemFacetList3 (nr nt nz : Nat) :
    elemFacetList (conn3 nr nt nz) hexFacets =
      (List.range (nr - 1)).flatMap fun i => (List.range nt).flatMap fun j =>
        (List.range (nz - 1)).flatMap fun k => hexFacets (hex nt nz i j k) := by
  simp only [elemFacetList, conn3, List.flatMap_assoc, List.flatMap_map]

/-- **the rule selects exactly the inner-surface faces, in order, each once** -/
theorem pressureFacets3_eq {nr nt nz : Nat} (hnr : 2 ≤ nr) (hnt : 3 ≤ nt) :
    pressureFacets3 nr nt nz = innerFacets3 nt nz := by
  unfold pressureFacets3
  rw [elemFacetList3, List.filter_flatMap]
  simp only [List.filter_flatMap]
  rw [flatMap_range_head (nr - 1) (by omega)]
  · unfold innerFacets3
    apply List.flatMap_congr
    intro j hj
    rw [List.map_eq_flatMap]
    apply List.flatMap_congr
    intro k hk
    rw [filter_hex hnr hnt (List.mem_range.1 hj) (by have := List.mem_range.1 hk; omega)]; simp
  · intro i h0 _
    rw [List.flatMap_eq_nil_iff]
    intro j hj
    rw [List.flatMap_eq_nil_iff]
    intro k hk
    rw [filter_hex hnr hnt (List.mem_range.1 hj) (by have := List.mem_range.1 hk; omega)]
    simp; omega

/-- the five faces of a hexahedron other than its inner (`i`-)face — the outer face, the two
circumferential faces and the two **end faces** — are never loaded: each contains a vertex of
radial index `i+1` -/
theorem hex_other_faces_unloaded {nr nt nz i j k : Nat} (hnt : 0 < nt) (hnz : 0 < nz) :
    ∀ f ∈ [(hexFacets (hex nt nz i j k))[0]!, (hexFacets (hex nt nz i j k))[1]!,
           (hexFacets (hex nt nz i j k))[2]!, (hexFacets (hex nt nz i j k))[3]!,
           (hexFacets (hex nt nz i j k))[5]!],
      loaded (conn3 nr nt nz) hexFacets (nt * nz) f = false := by
  have hp : 0 < nt * nz := Nat.mul_pos hnt hnz
  intro f hf
  simp only [hex, hexFacets, List.mem_cons, List.not_mem_nil, or_false, List.getElem!_cons_zero,
    List.getElem!_cons_succ] at hf
  rcases hf with rfl | rfl | rfl | rfl | rfl
  · exact loaded_false_of_outer hp (v := mapper nt nz (i + 1) (j + 1) k) (by simp) (mapper_succ_ge ..)
  · exact loaded_false_of_outer hp (v := mapper nt nz (i + 1) (j + 1) k) (by simp) (mapper_succ_ge ..)
  · exact loaded_false_of_outer hp (v := mapper nt nz (i + 1) (j + 1) k) (by simp) (mapper_succ_ge ..)
  · exact loaded_false_of_outer hp (v := mapper nt nz (i + 1) (j + 1) (k + 1)) (by simp) (mapper_succ_ge ..)
  · exact loaded_false_of_outer hp (v := mapper nt nz (i + 1) j k) (by simp) (mapper_succ_ge ..)

/-- the bottom/top end faces of element `(i,j,k)` are faces 2 and 3 of `hexFacets`, the outer face is face 1 -/
theorem hex_faces_named (nt nz i j k : Nat) :
    (hexFacets (hex nt nz i j k))[2]! =
      [mapper nt nz (i + 1) (j + 1) k, mapper nt nz (i + 1) j k, mapper nt nz i j k, mapper nt nz i (j + 1) k] ∧
    (hexFacets (hex nt nz i j k))[3]! =
      [mapper nt nz (i + 1) (j + 1) (k + 1), mapper nt nz i (j + 1) (k + 1), mapper nt nz i j (k + 1),
        mapper nt nz (i + 1) j (k + 1)] ∧
    (hexFacets (hex nt nz i j k))[1]! =
      [mapper nt nz (i + 1) (j + 1) k, mapper nt nz (i + 1) (j + 1) (k + 1), mapper nt nz (i + 1) j (k + 1),
        mapper nt nz (i + 1) j k] := by
  simp [hex, hexFacets]

end SrModel.Mesh
