import SrModel.Volume
import SrProofs.Ceramic

/-! Helper lemmas for the element volumes `SrModel.Volume` instantiated at `ℝ`
(`Real.sin`, `Real.sqrt`, π = `Real.pi`; the `Transc ℝ` instance is the one of `SrProofs.Ceramic`). -/
namespace SrModel.Volume
open SrModel SrModel.Ceramic

/-! ### lists -/

theorem sum_range_tele (f : ℕ → ℝ) (n : ℕ) :
    ((List.range n).map fun i => f (i + 1) - f i).sum = f n - f 0 := by
  induction n with
  | zero => simp
  | succ n ih => rw [List.range_succ, List.map_append, List.sum_append, ih]; simp

theorem sum_map_const (c : ℝ) (n : ℕ) : ((List.range n).map fun _ => c).sum = n * c := by
  induction n with
  | zero => simp
  | succ n ih => rw [List.range_succ, List.map_append, List.sum_append, ih]; simp; ring

theorem sum_flatMap_range (n : ℕ) (F : ℕ → List ℝ) :
    ((List.range n).flatMap F).sum = ((List.range n).map fun i => (F i).sum).sum := by
  induction n with
  | zero => simp
  | succ n ih =>
    rw [List.range_succ, List.flatMap_append, List.sum_append, ih, List.map_append, List.sum_append]
    simp

theorem map_range_congr {n : ℕ} {f g : ℕ → ℝ} (h : ∀ i, i < n → f i = g i) :
    (List.range n).map f = (List.range n).map g :=
  List.map_congr_left fun i hi => h i (List.mem_range.mp hi)

theorem flatMap_range_congr {n : ℕ} {F G : ℕ → List ℝ} (h : ∀ i, i < n → F i = G i) :
    (List.range n).flatMap F = (List.range n).flatMap G := by
  induction n with
  | zero => simp
  | succ n ih =>
    rw [List.range_succ, List.flatMap_append, List.flatMap_append,
      ih fun i hi => h i (Nat.lt_succ_of_lt hi)]
    simp [h n (Nat.lt_succ_self n)]

theorem sum_map_mul_right (l : List ℕ) (f : ℕ → ℝ) (c : ℝ) :
    (l.map fun i => f i * c).sum = (l.map f).sum * c := by
  induction l with
  | nil => simp
  | cons a l ih => simp [ih, add_mul]

/-! ### `linspace` -/

theorem linspace_eq (a b : ℝ) {n i : ℕ} (hn : 2 ≤ n) (_hi : i < n) :
    linspace a b n i = a + i * ((b - a) / ((n : ℝ) - 1)) := by
  have hc : ((n - 1 : ℕ) : ℝ) = (n : ℝ) - 1 := by
    rw [Nat.cast_sub (by omega)]; simp
  have hn1 : (n : ℝ) - 1 ≠ 0 := by
    have : (2 : ℝ) ≤ n := by exact_mod_cast hn
    linarith
  unfold linspace
  split_ifs with h
  · have : (i : ℝ) = (n : ℝ) - 1 := by
      have : ((i + 1 : ℕ) : ℝ) = n := by rw [h]
      push_cast at this; linarith
    rw [this]; field_simp; ring
  · rw [hc]; ring

theorem linspace_zero (a b : ℝ) {n : ℕ} (hn : 2 ≤ n) : linspace a b n 0 = a := by
  rw [linspace_eq a b hn (by omega)]; simp

theorem linspace_last (a b : ℝ) (n : ℕ) : linspace a b (n + 1) n = b := by
  unfold linspace; simp

theorem linspace_diff (a b : ℝ) {n i : ℕ} (hn : 2 ≤ n) (hi : i + 1 < n) :
    linspace a b n (i + 1) - linspace a b n i = (b - a) / ((n : ℝ) - 1) := by
  rw [linspace_eq a b hn hi, linspace_eq a b hn (by omega)]; push_cast; ring

theorem linspace_smul (c a b : ℝ) (n i : ℕ) :
    linspace (c * a) (c * b) n i = c * linspace a b n i := by
  unfold linspace; split_ifs <;> ring

/-- `r_i = ro − t + t·i/(nr−1)` -/
theorem radius_eq (ro t : ℝ) {nr i : ℕ} (hn : 2 ≤ nr) (hi : i < nr) :
    radius ro t nr i = ro - t + t * i / ((nr : ℝ) - 1) := by
  unfold radius; rw [linspace_eq _ _ hn hi]; ring

theorem radius_zero (ro t : ℝ) {nr : ℕ} (hn : 2 ≤ nr) : radius ro t nr 0 = ro - t :=
  linspace_zero _ _ hn

theorem radius_last (ro t : ℝ) {nr : ℕ} (hn : 2 ≤ nr) : radius ro t nr (nr - 1) = ro := by
  obtain ⟨m, rfl⟩ : ∃ m, nr = m + 1 := ⟨nr - 1, by omega⟩
  exact linspace_last _ _ m

/-- `edge = r_{i+1} − r_i = t/(nr−1)` -/
theorem edge_eq (ro t : ℝ) {nr i : ℕ} (hn : 2 ≤ nr) (hi : i + 1 < nr) :
    radius ro t nr (i + 1) - radius ro t nr i = t / ((nr : ℝ) - 1) := by
  unfold radius; rw [linspace_diff _ _ hn hi]; ring

theorem nr_sub_one_pos {nr : ℕ} (hn : 2 ≤ nr) : (0 : ℝ) < (nr : ℝ) - 1 := by
  have : (2 : ℝ) ≤ nr := by exact_mod_cast hn
  linarith

theorem radius_pos {ro t : ℝ} (ht : 0 ≤ t) (htr : t < ro) {nr i : ℕ} (hn : 2 ≤ nr) (hi : i < nr) :
    0 < radius ro t nr i := by
  rw [radius_eq ro t hn hi]
  have h1 := nr_sub_one_pos hn
  have : 0 ≤ t * i / ((nr : ℝ) - 1) := by positivity
  linarith

/-- `θ_j = 2π/nt` (as real numbers; numpy's `diff(linspace(0, 2π, nt+1))` equals it up to rounding) -/
theorem theta_eq {nt j : ℕ} (hj : j < nt) : theta Real.pi nt j = 2 * Real.pi / nt := by
  unfold theta
  rw [linspace_diff _ _ (by omega) (by omega)]; push_cast; ring

/-- `heights[k] = h/(nz−1)` -/
theorem height_eq (h : ℝ) {nz k : ℕ} (hk : k + 1 < nz) : height h nz k = h / ((nz : ℝ) - 1) := by
  unfold height
  rw [linspace_diff _ _ (by omega) hk]; ring

theorem height_smul (c h : ℝ) (nz k : ℕ) : height (c * h) nz k = c * height h nz k := by
  unfold height
  have := linspace_smul c 0 h nz
  rw [mul_zero] at this
  rw [this, this]; ring

/-- the heights telescope to `h` -/
theorem sum_heights (h : ℝ) {nz : ℕ} (hn : 2 ≤ nz) :
    ((List.range (nz - 1)).map fun k => height h nz k).sum = h := by
  unfold height
  rw [sum_range_tele (fun k => linspace 0 h nz k)]
  obtain ⟨m, rfl⟩ : ∃ m, nz = m + 1 := ⟨nz - 1, by omega⟩
  show linspace 0 h (m + 1) m - linspace 0 h (m + 1) 0 = h
  rw [linspace_last, linspace_zero _ _ hn]; ring

/-! ### the trapezoid -/

/-- `sqrt(edge² − ((b−a)/2)²) = edge · cos(θ/2)` with `a = 2 r₀ sin(θ/2)`, `b = 2 r₁ sin(θ/2)`,
`edge = r₁ − r₀ ≥ 0`, `cos(θ/2) ≥ 0` -/
theorem sqrt_edge (r0 r1 x : ℝ) (he : 0 ≤ r1 - r0) (hc : 0 ≤ Real.cos x) :
    Real.sqrt (sq (r1 - r0) - sq ((2 * r1 * Real.sin x - 2 * r0 * Real.sin x) / 2))
      = (r1 - r0) * Real.cos x := by
  have h : sq (r1 - r0) - sq ((2 * r1 * Real.sin x - 2 * r0 * Real.sin x) / 2)
      = ((r1 - r0) * Real.cos x) ^ 2 := by
    unfold sq
    have := Real.sin_sq_add_cos_sq x
    have hs : Real.sin x ^ 2 = 1 - Real.cos x ^ 2 := by linarith
    ring_nf
    rw [hs]; ring
  rw [h, Real.sqrt_sq (mul_nonneg he hc)]

/-- the trapezoid area in closed form: `base = ½ (r₁² − r₀²) sin θ` -/
theorem base_closed (r0 r1 θ : ℝ) (he : 0 ≤ r1 - r0) (hc : 0 ≤ Real.cos (θ / 2)) :
    (0.5 : ℝ) * (2 * r0 * Real.sin (θ / 2) + 2 * r1 * Real.sin (θ / 2))
        * Real.sqrt (sq (r1 - r0) - sq ((2 * r1 * Real.sin (θ / 2) - 2 * r0 * Real.sin (θ / 2)) / 2))
      = 1 / 2 * (r1 ^ 2 - r0 ^ 2) * Real.sin θ := by
  rw [sqrt_edge r0 r1 (θ / 2) he hc]
  have : Real.sin θ = 2 * Real.sin (θ / 2) * Real.cos (θ / 2) := by
    rw [← Real.sin_two_mul]; congr 1; ring
  rw [this]; norm_num; ring

theorem cos_half_theta_nonneg {nt : ℕ} (hnt : 2 ≤ nt) : 0 ≤ Real.cos (2 * Real.pi / nt / 2) := by
  have hnt' : (2 : ℝ) ≤ nt := by exact_mod_cast hnt
  have hpos : (0 : ℝ) < nt := by linarith
  apply Real.cos_nonneg_of_neg_pi_div_two_le_of_le
  · have : 0 ≤ 2 * Real.pi / nt / 2 := by positivity
    linarith [Real.pi_pos]
  · rw [div_div, div_le_div_iff₀ (by positivity) (by norm_num)]
    nlinarith [Real.pi_pos]

theorem sin_theta_pos {nt : ℕ} (hnt : 3 ≤ nt) : 0 < Real.sin (2 * Real.pi / nt) := by
  have hnt' : (3 : ℝ) ≤ nt := by exact_mod_cast hnt
  have hpos : (0 : ℝ) < nt := by linarith
  apply Real.sin_pos_of_pos_of_lt_pi
  · positivity
  · rw [div_lt_iff₀ hpos]; nlinarith [Real.pi_pos]

/-- `base[i,j] = ½ (r_{i+1}² − r_i²) sin(2π/nt)` for `t ≥ 0`, `nt ≥ 2` -/
theorem base2d_closed {ro t : ℝ} (ht : 0 ≤ t) {nr nt i j : ℕ} (hn : 2 ≤ nr) (hnt : 2 ≤ nt)
    (hi : i + 1 < nr) (hj : j < nt) :
    base2d Real.pi ro t nr nt i j
      = 1 / 2 * (radius ro t nr (i + 1) ^ 2 - radius ro t nr i ^ 2) * Real.sin (2 * Real.pi / nt) := by
  have he : 0 ≤ radius ro t nr (i + 1) - radius ro t nr i := by
    rw [edge_eq ro t hn hi]; exact div_nonneg ht (nr_sub_one_pos hn).le
  have := base_closed (radius ro t nr i) (radius ro t nr (i + 1)) (2 * Real.pi / nt) he
    (cos_half_theta_nonneg hnt)
  unfold base2d
  simp only [sin_def, sqrt_def, theta_eq hj]
  exact this

/-- `r_{i+1}² − r_i² > 0` -/
theorem sq_diff_pos {ro t : ℝ} (ht : 0 < t) (htr : t < ro) {nr i : ℕ} (hn : 2 ≤ nr) (hi : i + 1 < nr) :
    0 < radius ro t nr (i + 1) ^ 2 - radius ro t nr i ^ 2 := by
  have h0 := radius_pos ht.le htr hn (show i < nr by omega)
  have h1 := radius_pos ht.le htr hn hi
  have he : 0 < radius ro t nr (i + 1) - radius ro t nr i := by
    rw [edge_eq ro t hn hi]; exact div_pos ht (nr_sub_one_pos hn)
  nlinarith

/-! ### totals -/

theorem vols1d_sum (ro t h : ℝ) {nr : ℕ} (hn : 2 ≤ nr) :
    (vols1d Real.pi ro t h nr).sum = Real.pi * (ro ^ 2 - (ro - t) ^ 2) * h := by
  unfold vols1d
  have : (fun i => vol1d Real.pi ro t h nr i)
      = fun i => (fun k => Real.pi * sq (radius ro t nr k) * h) (i + 1)
          - (fun k => Real.pi * sq (radius ro t nr k) * h) i := by
    funext i; unfold vol1d; ring
  rw [this, sum_range_tele (fun k => Real.pi * sq (radius ro t nr k) * h), radius_last ro t hn,
    radius_zero ro t hn]
  unfold sq; ring

theorem vols2d_sum {ro t : ℝ} (ht : 0 ≤ t) (h : ℝ) {nr nt : ℕ} (hn : 2 ≤ nr) (hnt : 2 ≤ nt) :
    (vols2d Real.pi ro t h nr nt).sum
      = (nt : ℝ) / 2 * Real.sin (2 * Real.pi / nt) * (ro ^ 2 - (ro - t) ^ 2) * h := by
  unfold vols2d
  rw [sum_flatMap_range]
  have key : ∀ i, i < nr - 1 →
      ((List.range nt).map fun j => vol2d Real.pi ro t h nr nt i j).sum
        = (fun k => (nt : ℝ) / 2 * Real.sin (2 * Real.pi / nt) * h * radius ro t nr k ^ 2) (i + 1)
          - (fun k => (nt : ℝ) / 2 * Real.sin (2 * Real.pi / nt) * h * radius ro t nr k ^ 2) i := by
    intro i hi
    rw [map_range_congr (g := fun _ => 1 / 2 * (radius ro t nr (i + 1) ^ 2 - radius ro t nr i ^ 2)
        * Real.sin (2 * Real.pi / nt) * h)
      (fun j hj => by unfold vol2d; rw [base2d_closed ht hn hnt (by omega) hj]), sum_map_const]
    ring
  rw [map_range_congr key,
    sum_range_tele (fun k => (nt : ℝ) / 2 * Real.sin (2 * Real.pi / nt) * h * radius ro t nr k ^ 2),
    radius_last ro t hn, radius_zero ro t hn]
  ring

/-- 3D total = 2D total: the heights telescope to `h` (needs `nz ≥ 2` only) -/
theorem vols3d_sum (ro t h : ℝ) (nr nt : ℕ) {nz : ℕ} (hnz : 2 ≤ nz) :
    (vols3d Real.pi ro t h nr nt nz).sum = (vols2d Real.pi ro t h nr nt).sum := by
  unfold vols3d vols2d
  rw [sum_flatMap_range, sum_flatMap_range]
  apply congrArg
  apply map_range_congr
  intro i _
  rw [sum_flatMap_range]
  apply congrArg
  apply map_range_congr
  intro j _
  unfold vol3d vol2d
  rw [sum_map_mul_right, sum_heights h hnz]; ring

/-! ### positivity -/

theorem vol1d_pos {ro t h : ℝ} (ht : 0 < t) (htr : t < ro) (hh : 0 < h) {nr i : ℕ} (hn : 2 ≤ nr)
    (hi : i + 1 < nr) : 0 < vol1d Real.pi ro t h nr i := by
  unfold vol1d
  have := sq_diff_pos ht htr hn hi
  have h2 : sq (radius ro t nr (i + 1)) - sq (radius ro t nr i)
      = radius ro t nr (i + 1) ^ 2 - radius ro t nr i ^ 2 := by unfold sq; ring
  rw [h2]
  exact mul_pos (mul_pos Real.pi_pos this) hh

theorem base2d_pos {ro t : ℝ} (ht : 0 < t) (htr : t < ro) {nr nt i j : ℕ} (hn : 2 ≤ nr)
    (hnt : 3 ≤ nt) (hi : i + 1 < nr) (hj : j < nt) : 0 < base2d Real.pi ro t nr nt i j := by
  rw [base2d_closed ht.le hn (by omega) hi hj]
  have := sq_diff_pos ht htr hn hi
  have := sin_theta_pos hnt
  positivity

theorem vol2d_pos {ro t h : ℝ} (ht : 0 < t) (htr : t < ro) (hh : 0 < h) {nr nt i j : ℕ} (hn : 2 ≤ nr)
    (hnt : 3 ≤ nt) (hi : i + 1 < nr) (hj : j < nt) : 0 < vol2d Real.pi ro t h nr nt i j :=
  mul_pos (base2d_pos ht htr hn hnt hi hj) hh

theorem vol3d_pos {ro t h : ℝ} (ht : 0 < t) (htr : t < ro) (hh : 0 < h) {nr nt nz k i j : ℕ}
    (hn : 2 ≤ nr) (hnt : 3 ≤ nt) (hi : i + 1 < nr) (hj : j < nt) (hk : k + 1 < nz) :
    0 < vol3d Real.pi ro t h nr nt nz k i j := by
  unfold vol3d
  rw [height_eq h hk]
  have : (0 : ℝ) < (nz : ℝ) - 1 := nr_sub_one_pos (by omega)
  exact mul_pos (div_pos hh this) (base2d_pos ht htr hn hnt hi hj)

theorem vols1d_pos {ro t h : ℝ} (ht : 0 < t) (htr : t < ro) (hh : 0 < h) {nr : ℕ} (hn : 2 ≤ nr) :
    ∀ v ∈ vols1d Real.pi ro t h nr, 0 < v := by
  intro v hv
  unfold vols1d at hv
  obtain ⟨i, hi, rfl⟩ := List.mem_map.mp hv
  exact vol1d_pos ht htr hh hn (by have := List.mem_range.mp hi; omega)

theorem vols2d_pos {ro t h : ℝ} (ht : 0 < t) (htr : t < ro) (hh : 0 < h) {nr nt : ℕ} (hn : 2 ≤ nr)
    (hnt : 3 ≤ nt) : ∀ v ∈ vols2d Real.pi ro t h nr nt, 0 < v := by
  intro v hv
  unfold vols2d at hv
  obtain ⟨i, hi, hv⟩ := List.mem_flatMap.mp hv
  obtain ⟨j, hj, rfl⟩ := List.mem_map.mp hv
  exact vol2d_pos ht htr hh hn hnt (by have := List.mem_range.mp hi; omega) (List.mem_range.mp hj)

theorem vols3d_pos {ro t h : ℝ} (ht : 0 < t) (htr : t < ro) (hh : 0 < h) {nr nt nz : ℕ} (hn : 2 ≤ nr)
    (hnt : 3 ≤ nt) : ∀ v ∈ vols3d Real.pi ro t h nr nt nz, 0 < v := by
  intro v hv
  unfold vols3d at hv
  obtain ⟨i, hi, hv⟩ := List.mem_flatMap.mp hv
  obtain ⟨j, hj, hv⟩ := List.mem_flatMap.mp hv
  obtain ⟨k, hk, rfl⟩ := List.mem_map.mp hv
  exact vol3d_pos ht htr hh hn hnt (by have := List.mem_range.mp hi; omega) (List.mem_range.mp hj)
    (by have := List.mem_range.mp hk; omega)

/-! ### sizes -/

theorem length_flatMap_range {α : Type} (n m : ℕ) (F : ℕ → List α) (h : ∀ i, (F i).length = m) :
    ((List.range n).flatMap F).length = n * m := by
  induction n with
  | zero => simp
  | succ n ih => rw [List.range_succ, List.flatMap_append, List.length_append, ih]; simp [h]; ring

theorem vols1d_length (ro t h : ℝ) (nr : ℕ) : (vols1d Real.pi ro t h nr).length = nr - 1 := by
  simp [vols1d]

theorem vols2d_length (ro t h : ℝ) (nr nt : ℕ) :
    (vols2d Real.pi ro t h nr nt).length = (nr - 1) * nt := by
  unfold vols2d; exact length_flatMap_range _ _ _ fun i => by simp

theorem vols3d_length (ro t h : ℝ) (nr nt nz : ℕ) :
    (vols3d Real.pi ro t h nr nt nz).length = (nr - 1) * nt * (nz - 1) := by
  unfold vols3d
  rw [mul_assoc]
  exact length_flatMap_range _ _ _ fun i => length_flatMap_range _ _ _ fun j => by simp

/-! ### linearity in the height -/

theorem vol1d_smul (c ro t h : ℝ) (nr i : ℕ) :
    vol1d Real.pi ro t (c * h) nr i = c * vol1d Real.pi ro t h nr i := by
  unfold vol1d; ring

theorem vol2d_smul (c ro t h : ℝ) (nr nt i j : ℕ) :
    vol2d Real.pi ro t (c * h) nr nt i j = c * vol2d Real.pi ro t h nr nt i j := by
  unfold vol2d; ring

theorem vol3d_smul (c ro t h : ℝ) (nr nt nz k i j : ℕ) :
    vol3d Real.pi ro t (c * h) nr nt nz k i j = c * vol3d Real.pi ro t h nr nt nz k i j := by
  unfold vol3d; rw [height_smul]; ring

theorem vols1d_smul (c ro t h : ℝ) (nr : ℕ) :
    vols1d Real.pi ro t (c * h) nr = (vols1d Real.pi ro t h nr).map (c * ·) := by
  unfold vols1d; simp [List.map_map, Function.comp_def, vol1d_smul]

theorem vols2d_smul (c ro t h : ℝ) (nr nt : ℕ) :
    vols2d Real.pi ro t (c * h) nr nt = (vols2d Real.pi ro t h nr nt).map (c * ·) := by
  unfold vols2d; simp [List.map_flatMap, List.map_map, Function.comp_def, vol2d_smul]

theorem vols3d_smul (c ro t h : ℝ) (nr nt nz : ℕ) :
    vols3d Real.pi ro t (c * h) nr nt nz = (vols3d Real.pi ro t h nr nt nz).map (c * ·) := by
  unfold vols3d; simp [List.map_flatMap, List.map_map, Function.comp_def, vol3d_smul]

end SrModel.Volume
