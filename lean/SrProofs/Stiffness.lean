import SrModel.Stiffness
import Mathlib.Data.Real.Basic
import Mathlib.Tactic.Ring
import Mathlib.Tactic.Linarith
import Mathlib.Tactic.FieldSimp
import Mathlib.Tactic.LinearCombination
import Mathlib.Tactic.NormNum
import Mathlib.Tactic.Push
import Mathlib.Algebra.BigOperators.Field
import Mathlib.Algebra.BigOperators.Fin
import Mathlib.Algebra.BigOperators.Ring.Finset
import Mathlib.LinearAlgebra.Matrix.NonsingularInverse
import Mathlib.LinearAlgebra.Matrix.SchurComplement
import Mathlib.LinearAlgebra.Matrix.PosDef
import Mathlib.Analysis.Calculus.Deriv.Mul
import Mathlib.Analysis.Calculus.Deriv.Add

/-! Helper lemmas about `SrModel.Stiffness` over a field / over `ℝ`. -/
namespace SrModel.Stiffness
open Matrix Finset

/-! ### list sums are finite sums -/

section sums
variable {F : Type} [Field F]

theorem sumL_eq_map_sum {ι : Type} (l : List ι) (f : ι → F) : sumL l f = (l.map f).sum := by
  induction l with
  | nil => rfl
  | cons a as ih => simp only [sumL, List.foldr_cons, List.map_cons, List.sum_cons] at ih ⊢; rw [ih]

theorem sumL_finRange {n : Nat} (f : Fin n → F) : sumL (List.finRange n) f = ∑ i, f i := by
  rw [sumL_eq_map_sum, Fin.sum_univ_def]

theorem sum3_eq (f : Fin 3 → F) : sum3 f = ∑ i, f i := by
  simp [sum3, Fin.sum_univ_three]

theorem matVec_finRange {k m : Nat} (A : Matrix (Fin k) (Fin m) F) (x : Fin m → F) :
    matVec (List.finRange m) A x = A *ᵥ x := by
  funext i; simp [matVec, sumL_finRange, Matrix.mulVec, dotProduct]

theorem dotL_finRange {m : Nat} (x y : Fin m → F) : dotL (List.finRange m) x y = x ⬝ᵥ y := by
  simp [dotL, sumL_finRange, dotProduct]

end sums

/-! ### the Schur-complement derivative -/

section schur
variable {n : Type} [Fintype n] [DecidableEq n] {F : Type} [Field F]

/-- the free displacements respond to the control parameter through `K⁻¹ g` -/
theorem response_diff (Kff : Matrix n n F) (hK : IsUnit Kff.det) (g r : n → F) (u : F → n → F)
    (hu : ∀ e, Kff *ᵥ u e + e • g = r) (e₁ e₂ : F) :
    u e₂ - u e₁ = -((e₂ - e₁) • (Kff⁻¹ *ᵥ g)) := by
  have h : Kff *ᵥ (u e₂ - u e₁) = -((e₂ - e₁) • g) := by
    have a1 : Kff *ᵥ u e₁ = r - e₁ • g := eq_sub_of_add_eq (hu e₁)
    have a2 : Kff *ᵥ u e₂ = r - e₂ • g := eq_sub_of_add_eq (hu e₂)
    rw [Matrix.mulVec_sub, a1, a2, sub_smul]; abel
  have := congrArg (fun v => Kff⁻¹ *ᵥ v) h
  simp only [Matrix.mulVec_mulVec, Matrix.nonsing_inv_mul _ hK, Matrix.one_mulVec] at this
  rw [this, Matrix.mulVec_neg, Matrix.mulVec_smul]

end schur

/-- `fᵀ·A·f` as a 1×1 matrix product -/
theorem col_mul_col {k : Type} [Fintype k] (A : Matrix k k ℝ) (f : k → ℝ) :
    ((Matrix.replicateCol Unit f)ᵀ * A * Matrix.replicateCol Unit f) () () = f ⬝ᵥ (A *ᵥ f) := by
  simp only [Matrix.mul_apply, Matrix.transpose_apply, Matrix.replicateCol_apply, dotProduct,
    Matrix.mulVec, Finset.sum_mul, Finset.mul_sum]
  rw [Finset.sum_comm]
  apply Finset.sum_congr rfl; intro i _
  apply Finset.sum_congr rfl; intro j _
  ring

end SrModel.Stiffness
