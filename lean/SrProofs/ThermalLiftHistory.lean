import SrProofs.Thermal

/-!
# 1-D = 2-D = 3-D for whole transient histories with a temperature-dependent material

`axisym_2d_is_1d` / `uniform_3d_is_2d` (in `SrProofs/Thermal.lean`) treat ONE step whose lagged
coefficients are given.  Here:

1. a point-wise material law commutes with the dimension lifts (`material_law_lift2/3`);
2. the lifted fields solve the lifted problems along a whole history (`history_lift2/3`);
3. the lifted field is the ONLY solution of the lifted transient step (`lift2_unique/3`), and, by
   induction over the steps, a 2-D (3-D) history that starts from the lifted initial field, is driven by
   the lifted data and evaluates the same material law on ITS OWN previous field is the lift of the
   1-D (2-D) history (`lift2_history_unique`, `lift3_history_unique`).

Ghost nodes.  `setup_step` evaluates the material on the whole ghosted previous field, so the induction
cannot be carried on the real nodes alone.  It is carried on the **used** nodes (`Prob.used`): the real
nodes and the ghost nodes with exactly one ghost index (wall ghosts, periodic ghost columns, axial
ghost planes).  These are exactly the nodes whose coefficient values a step reads
(`solves_withLag`: `Solves` does not see the coefficients anywhere else — edge/corner dummies are
never read), and `Solves` determines the solution on them once it is known on the real nodes
(`ghost_unique`): periodic/axial ghosts copy real nodes, wall ghosts of insulated / flux / convective
walls are functions of the adjacent real value, and the ghost of a fixed-temperature wall is
determined by the real row next to it provided that row really couples to the ghost (`wrm ≠ 0`,
resp. `wrp ≠ 0`) and `N ≥ 2` (with `N = 1` and two fixed walls the one real row has two unknown
ghosts: the matrix of the code is singular there).
-/
namespace SrModel.Thermal
noncomputable section

/-! ### 1. the material law commutes with the lifts -/

/-- a field copied onto every ray / onto every plane -/
def GField.lift2 (T : GField ℝ) : GField ℝ := fun i _ k => T i 0 k
def GField.lift3 (T : GField ℝ) : GField ℝ := fun i j _ => T i j 0

theorem lift2_Tn (P : Prob ℝ) (Nt : Nat) (dth : ℝ) : (P.lift2 Nt dth).Tn = GField.lift2 P.Tn := rfl
theorem lift3_Tn (P : Prob ℝ) (Nz : Nat) (dz : ℝ) : (P.lift3 Nz dz).Tn = GField.lift3 P.Tn := rfl

/-- the lagged coefficients of the lifted 2-D problem are the law applied to ITS previous field
(the lift of the 1-D previous field) -/
theorem material_law_lift2 (P : Prob ℝ) (Nt : Nat) (dth : ℝ) (a kfun : ℝ → ℝ)
    (hc : ∀ i j k, P.c i j k = a (P.Tn i j k)) (hk : ∀ i j k, P.kk i j k = kfun (P.Tn i j k)) :
    (∀ i j k, (P.lift2 Nt dth).c i j k = a ((P.lift2 Nt dth).Tn i j k)) ∧
    (∀ i j k, (P.lift2 Nt dth).kk i j k = kfun ((P.lift2 Nt dth).Tn i j k)) :=
  ⟨fun i _ k => hc i 0 k, fun i _ k => hk i 0 k⟩

/-- same for the source factor `qc = a/k` -/
theorem material_qc_lift2 (P : Prob ℝ) (Nt : Nat) (dth : ℝ) (qfun : ℝ → ℝ)
    (hq : ∀ i j k, P.qc i j k = qfun (P.Tn i j k)) :
    ∀ i j k, (P.lift2 Nt dth).qc i j k = qfun ((P.lift2 Nt dth).Tn i j k) :=
  fun i _ k => hq i 0 k

theorem material_law_lift3 (P : Prob ℝ) (Nz : Nat) (dz : ℝ) (a kfun : ℝ → ℝ)
    (hc : ∀ i j k, P.c i j k = a (P.Tn i j k)) (hk : ∀ i j k, P.kk i j k = kfun (P.Tn i j k)) :
    (∀ i j k, (P.lift3 Nz dz).c i j k = a ((P.lift3 Nz dz).Tn i j k)) ∧
    (∀ i j k, (P.lift3 Nz dz).kk i j k = kfun ((P.lift3 Nz dz).Tn i j k)) :=
  ⟨fun i j _ => hc i j 0, fun i j _ => hk i j 0⟩

theorem material_qc_lift3 (P : Prob ℝ) (Nz : Nat) (dz : ℝ) (qfun : ℝ → ℝ)
    (hq : ∀ i j k, P.qc i j k = qfun (P.Tn i j k)) :
    ∀ i j k, (P.lift3 Nz dz).qc i j k = qfun ((P.lift3 Nz dz).Tn i j k) :=
  fun i j _ => hq i j 0

/-! ### 2. histories -/

/-- **1-D history → 2-D history.**  Whatever links `P (n+1)` to `T (n+1)`, the lifted fields solve the
lifted steps. -/
theorem history_lift2 (P : Nat → Prob ℝ) (T : Nat → GField ℝ) (Nt : Nat) (dth : ℝ)
    (h1 : ∀ n, (P n).ndim = 1) (hsol : ∀ n, (P n).Solves (T (n+1))) :
    ∀ n, ((P n).lift2 Nt dth).Solves (GField.lift2 (T (n+1))) :=
  fun n => axisym_2d_is_1d (P n) (T (n+1)) Nt dth (h1 n) (hsol n)

/-- **2-D history → 3-D history.** -/
theorem history_lift3 (P : Nat → Prob ℝ) (T : Nat → GField ℝ) (Nz : Nat) (dz : ℝ)
    (h2 : ∀ n, (P n).ndim = 2) (hsol : ∀ n, (P n).Solves (T (n+1))) :
    ∀ n, ((P n).lift3 Nz dz).Solves (GField.lift3 (T (n+1))) :=
  fun n => uniform_3d_is_2d (P n) (T (n+1)) Nz dz (h2 n) (hsol n)

/-! ### 3a. one step: the lifted field is the only solution of the lifted step -/

theorem lift2_unique (P : Prob ℝ) (T S : GField ℝ) (Nt : Nat) (dth : ℝ) (h1 : P.ndim = 1)
    (hsol : P.Solves T) (hS : (P.lift2 Nt dth).Solves S)
    (hs : (P.lift2 Nt dth).Sized) (hst : (P.lift2 Nt dth).steady = false)
    (hdt : 0 < (P.lift2 Nt dth).dt) (hw : (P.lift2 Nt dth).WeightsNonneg)
    (hci : ∀ tf h, (P.lift2 Nt dth).inner = .conv tf h →
      ∀ j k, 0 ≤ (P.lift2 Nt dth).dr * h j k / (P.lift2 Nt dth).kk 1 j k)
    (hco : ∀ tf h, (P.lift2 Nt dth).outer = .conv tf h →
      ∀ j k, 0 ≤ (P.lift2 Nt dth).dr * h j k / (P.lift2 Nt dth).kk (P.lift2 Nt dth).N j k) :
    ∀ i j k, (P.lift2 Nt dth).isRealI i = true → (P.lift2 Nt dth).isRealJ j = true →
      (P.lift2 Nt dth).isRealK k = true → S i j k = T i 0 k :=
  step_unique (P.lift2 Nt dth) S (GField.lift2 T) hs hst hdt hw hci hco hS
    (axisym_2d_is_1d P T Nt dth h1 hsol)

theorem lift3_unique (P : Prob ℝ) (T S : GField ℝ) (Nz : Nat) (dz : ℝ) (h2 : P.ndim = 2)
    (hsol : P.Solves T) (hS : (P.lift3 Nz dz).Solves S)
    (hs : (P.lift3 Nz dz).Sized) (hst : (P.lift3 Nz dz).steady = false)
    (hdt : 0 < (P.lift3 Nz dz).dt) (hw : (P.lift3 Nz dz).WeightsNonneg)
    (hci : ∀ tf h, (P.lift3 Nz dz).inner = .conv tf h →
      ∀ j k, 0 ≤ (P.lift3 Nz dz).dr * h j k / (P.lift3 Nz dz).kk 1 j k)
    (hco : ∀ tf h, (P.lift3 Nz dz).outer = .conv tf h →
      ∀ j k, 0 ≤ (P.lift3 Nz dz).dr * h j k / (P.lift3 Nz dz).kk (P.lift3 Nz dz).N j k) :
    ∀ i j k, (P.lift3 Nz dz).isRealI i = true → (P.lift3 Nz dz).isRealJ j = true →
      (P.lift3 Nz dz).isRealK k = true → S i j k = T i j 0 :=
  step_unique (P.lift3 Nz dz) S (GField.lift3 T) hs hst hdt hw hci hco hS
    (uniform_3d_is_2d P T Nz dz h2 hsol)

/-! ### 3b. the nodes a step reads, and what `Solves` determines on them -/

/-- real nodes and ghost nodes with exactly one ghost index (wall ghosts, periodic ghost columns,
axial ghost planes): the nodes whose coefficient values the assembled step reads -/
def Prob.used (P : Prob ℝ) (i j k : Nat) : Prop :=
  (P.isRealI i = true ∧ P.isRealJ j = true ∧ P.isRealK k = true) ∨
  ((i = 0 ∨ i = P.N + 1) ∧ P.isRealJ j = true ∧ P.isRealK k = true) ∨
  (P.ndim ≥ 2 ∧ P.isRealI i = true ∧ (j = 0 ∨ j = P.Nt + 1) ∧ P.isRealK k = true) ∨
  (P.ndim ≥ 3 ∧ P.isRealI i = true ∧ P.isRealJ j = true ∧ (k = 0 ∨ k = P.Nz + 1))

theorem used_real (P : Prob ℝ) {i j k : Nat} (hi : P.isRealI i = true) (hj : P.isRealJ j = true)
    (hk : P.isRealK k = true) : P.used i j k := Or.inl ⟨hi, hj, hk⟩

theorem used_im1 (P : Prob ℝ) {i j k : Nat} (hi : P.isRealI i = true) (hj : P.isRealJ j = true)
    (hk : P.isRealK k = true) : P.used (i-1) j k := by
  have hi' : 1 ≤ i ∧ i ≤ P.N := by simpa [Prob.isRealI] using hi
  by_cases h : i = 1
  · subst h; exact Or.inr (Or.inl ⟨Or.inl rfl, hj, hk⟩)
  · exact Or.inl ⟨by simp [Prob.isRealI]; omega, hj, hk⟩

theorem used_ip1 (P : Prob ℝ) {i j k : Nat} (hi : P.isRealI i = true) (hj : P.isRealJ j = true)
    (hk : P.isRealK k = true) : P.used (i+1) j k := by
  have hi' : 1 ≤ i ∧ i ≤ P.N := by simpa [Prob.isRealI] using hi
  by_cases h : i = P.N
  · subst h; exact Or.inr (Or.inl ⟨Or.inr rfl, hj, hk⟩)
  · exact Or.inl ⟨by simp [Prob.isRealI]; omega, hj, hk⟩

theorem used_jm1 (P : Prob ℝ) {i j k : Nat} (h2 : P.ndim ≥ 2) (hi : P.isRealI i = true)
    (hj : P.isRealJ j = true) (hk : P.isRealK k = true) : P.used i (j-1) k := by
  have hj' : 1 ≤ j ∧ j ≤ P.Nt := by simpa [Prob.isRealJ, h2] using hj
  by_cases h : j = 1
  · subst h; exact Or.inr (Or.inr (Or.inl ⟨h2, hi, Or.inl rfl, hk⟩))
  · exact Or.inl ⟨hi, by simp [Prob.isRealJ, h2]; omega, hk⟩

theorem used_jp1 (P : Prob ℝ) {i j k : Nat} (h2 : P.ndim ≥ 2) (hi : P.isRealI i = true)
    (hj : P.isRealJ j = true) (hk : P.isRealK k = true) : P.used i (j+1) k := by
  have hj' : 1 ≤ j ∧ j ≤ P.Nt := by simpa [Prob.isRealJ, h2] using hj
  by_cases h : j = P.Nt
  · subst h; exact Or.inr (Or.inr (Or.inl ⟨h2, hi, Or.inr rfl, hk⟩))
  · exact Or.inl ⟨hi, by simp [Prob.isRealJ, h2]; omega, hk⟩

theorem used_km1 (P : Prob ℝ) {i j k : Nat} (h3 : P.ndim ≥ 3) (hi : P.isRealI i = true)
    (hj : P.isRealJ j = true) (hk : P.isRealK k = true) : P.used i j (k-1) := by
  have hk' : 1 ≤ k ∧ k ≤ P.Nz := by simpa [Prob.isRealK, h3] using hk
  by_cases h : k = 1
  · subst h; exact Or.inr (Or.inr (Or.inr ⟨h3, hi, hj, Or.inl rfl⟩))
  · exact Or.inl ⟨hi, hj, by simp [Prob.isRealK, h3]; omega⟩

theorem used_kp1 (P : Prob ℝ) {i j k : Nat} (h3 : P.ndim ≥ 3) (hi : P.isRealI i = true)
    (hj : P.isRealJ j = true) (hk : P.isRealK k = true) : P.used i j (k+1) := by
  have hk' : 1 ≤ k ∧ k ≤ P.Nz := by simpa [Prob.isRealK, h3] using hk
  by_cases h : k = P.Nz
  · subst h; exact Or.inr (Or.inr (Or.inr ⟨h3, hi, hj, Or.inr rfl⟩))
  · exact Or.inl ⟨hi, hj, by simp [Prob.isRealK, h3]; omega⟩

/-- the used nodes depend on the grid only -/
theorem used_congr (P P' : Prob ℝ) (hd : P'.ndim = P.ndim) (hN : P'.N = P.N)
    (hNt : P.ndim ≥ 2 → P'.Nt = P.Nt) (hNz : P.ndim ≥ 3 → P'.Nz = P.Nz) (i j k : Nat) :
    P'.used i j k ↔ P.used i j k := by
  have eI : P'.isRealI i = P.isRealI i := by simp [Prob.isRealI, hN]
  have eJ : P'.isRealJ j = P.isRealJ j := by
    unfold Prob.isRealJ; rw [hd]
    by_cases h : P.ndim ≥ 2
    · rw [if_pos h, if_pos h, hNt h]
    · rw [if_neg h, if_neg h]
  have eK : P'.isRealK k = P.isRealK k := by
    unfold Prob.isRealK; rw [hd]
    by_cases h : P.ndim ≥ 3
    · rw [if_pos h, if_pos h, hNz h]
    · rw [if_neg h, if_neg h]
  unfold Prob.used
  rw [eI, eJ, eK, hd, hN]
  constructor
  · rintro (h | h | ⟨h2, h⟩ | ⟨h3, h⟩)
    · exact Or.inl h
    · exact Or.inr (Or.inl h)
    · rw [hNt h2] at h; exact Or.inr (Or.inr (Or.inl ⟨h2, h⟩))
    · rw [hNz h3] at h; exact Or.inr (Or.inr (Or.inr ⟨h3, h⟩))
  · rintro (h | h | ⟨h2, h⟩ | ⟨h3, h⟩)
    · exact Or.inl h
    · exact Or.inr (Or.inl h)
    · rw [← hNt h2] at h; exact Or.inr (Or.inr (Or.inl ⟨h2, h⟩))
    · rw [← hNz h3] at h; exact Or.inr (Or.inr (Or.inr ⟨h3, h⟩))

/-- same step data (geometry, time step, source, walls), other previous field and lagged
coefficients -/
def Prob.withLag (P : Prob ℝ) (Tn c kk qc : GField ℝ) : Prob ℝ :=
  { P with Tn := Tn, c := c, kk := kk, qc := qc }

/-- `P` with the previous field and lagged coefficients of `R` -/
def Prob.withLagged (P R : Prob ℝ) : Prob ℝ := P.withLag R.Tn R.c R.kk R.qc

theorem Prob.withLagged_self (P : Prob ℝ) : P.withLagged P = P := rfl

section congr
variable (P : Prob ℝ) (Tn c kk qc : GField ℝ)
  (hc : ∀ i j k, P.used i j k → c i j k = P.c i j k)

include hc in
theorem withLag_wr {i j k : Nat} (hi : P.isRealI i = true) (hj : P.isRealJ j = true)
    (hk : P.isRealK k = true) :
    (P.withLag Tn c kk qc).wrm i j k = P.wrm i j k ∧ (P.withLag Tn c kk qc).wrp i j k = P.wrp i j k := by
  have hi' : 1 ≤ i ∧ i ≤ P.N := by simpa [Prob.isRealI] using hi
  have e : i - 1 + 1 = i := by omega
  have c0 := hc i j k (used_real P hi hj hk)
  have c1 := hc (i-1) j k (used_im1 P hi hj hk)
  have c2 := hc (i+1) j k (used_ip1 P hi hj hk)
  simp only [Prob.wrm, Prob.wrp, Prob.rh, Prob.ahr, Prob.withLag, e, c0, c1, c2, and_self]

include hc in
theorem withLag_wt {i j k : Nat} (hi : P.isRealI i = true) (hj : P.isRealJ j = true)
    (hk : P.isRealK k = true) :
    (P.withLag Tn c kk qc).wtm i j k = P.wtm i j k ∧ (P.withLag Tn c kk qc).wtp i j k = P.wtp i j k := by
  by_cases h2 : P.ndim ≥ 2
  · have hj' : 1 ≤ j ∧ j ≤ P.Nt := by simpa [Prob.isRealJ, h2] using hj
    have e : j - 1 + 1 = j := by omega
    have c0 := hc i j k (used_real P hi hj hk)
    have c1 := hc i (j-1) k (used_jm1 P h2 hi hj hk)
    have c2 := hc i (j+1) k (used_jp1 P h2 hi hj hk)
    simp only [Prob.wtm, Prob.wtp, Prob.aht, Prob.withLag, e, c0, c1, c2, and_self]
  · simp [Prob.wtm, Prob.wtp, Prob.withLag, h2]

include hc in
theorem withLag_wz {i j k : Nat} (hi : P.isRealI i = true) (hj : P.isRealJ j = true)
    (hk : P.isRealK k = true) :
    (P.withLag Tn c kk qc).wzm i j k = P.wzm i j k ∧ (P.withLag Tn c kk qc).wzp i j k = P.wzp i j k := by
  by_cases h3 : P.ndim ≥ 3
  · have hk' : 1 ≤ k ∧ k ≤ P.Nz := by simpa [Prob.isRealK, h3] using hk
    have e : k - 1 + 1 = k := by omega
    have c0 := hc i j k (used_real P hi hj hk)
    have c1 := hc i j (k-1) (used_km1 P h3 hi hj hk)
    have c2 := hc i j (k+1) (used_kp1 P h3 hi hj hk)
    simp only [Prob.wzm, Prob.wzp, Prob.ahz, Prob.withLag, e, c0, c1, c2, and_self]
  · simp [Prob.wzm, Prob.wzp, Prob.withLag, h3]

include hc in
/-- **`Solves` reads the lagged fields on the used nodes only**: the diffusivity `c` on the used nodes,
the conductivity `kk`, the source factor `qc` and the previous field on the real nodes. -/
theorem solves_withLag (T : GField ℝ)
    (hk : ∀ i j k, P.isRealI i = true → P.isRealJ j = true → P.isRealK k = true →
      kk i j k = P.kk i j k)
    (hq : ∀ i j k, P.isRealI i = true → P.isRealJ j = true → P.isRealK k = true →
      qc i j k = P.qc i j k)
    (hT : ∀ i j k, P.isRealI i = true → P.isRealJ j = true → P.isRealK k = true →
      Tn i j k = P.Tn i j k)
    (hs : P.Sized) (hsol : P.Solves T) : (P.withLag Tn c kk qc).Solves T := by
  obtain ⟨hr, hi, ho, hp, hz⟩ := hsol
  have h1 : P.isRealI 1 = true := by simp [Prob.isRealI]; exact hs.hN
  have hN : P.isRealI P.N = true := by simp [Prob.isRealI]; exact hs.hN
  refine ⟨?_, ?_, ?_, hp, hz⟩
  · intro i j k hi' hj' hk'
    have := hr i j k hi' hj' hk'
    obtain ⟨r1, r2⟩ := withLag_wr P Tn c kk qc hc hi' hj' hk'
    obtain ⟨t1, t2⟩ := withLag_wt P Tn c kk qc hc hi' hj' hk'
    obtain ⟨z1, z2⟩ := withLag_wz P Tn c kk qc hc hi' hj' hk'
    unfold Prob.lhsReal Prob.rhsReal Prob.applyA at this ⊢
    rw [r1, r2, t1, t2, z1, z2]
    have e1 : (P.withLag Tn c kk qc).qc i j k = P.qc i j k := hq i j k hi' hj' hk'
    have e2 : (P.withLag Tn c kk qc).Tn i j k = P.Tn i j k := hT i j k hi' hj' hk'
    rw [e1, e2]
    exact this
  · intro j k hj' hk'
    have := hi j k hj' hk'
    have e : (P.withLag Tn c kk qc).kk 1 j k = P.kk 1 j k := hk 1 j k h1 hj' hk'
    unfold Prob.innerRes at this ⊢
    rw [e]; exact this
  · intro j k hj' hk'
    have := ho j k hj' hk'
    have e : kk P.N j k = P.kk P.N j k := hk P.N j k hN hj' hk'
    simp only [Prob.outerRes, Prob.withLag] at this ⊢
    rw [e]; exact this

end congr

/-! ### two solutions that agree on the real nodes agree on the used ghost nodes -/

/-- a fixed-temperature wall leaves its ghost value to the neighbouring real row: that row must
couple to the ghost, and must not contain the other wall's ghost as well -/
def Prob.FixInnerOK (P : Prob ℝ) : Prop :=
  ∀ v, P.inner = .fix v → 2 ≤ P.N ∧
    ∀ j k, P.isRealJ j = true → P.isRealK k = true → P.wrm 1 j k ≠ 0
def Prob.FixOuterOK (P : Prob ℝ) : Prop :=
  ∀ v, P.outer = .fix v → 2 ≤ P.N ∧
    ∀ j k, P.isRealJ j = true → P.isRealK k = true → P.wrp P.N j k ≠ 0

section ghost
variable (P : Prob ℝ) (S S' : GField ℝ) (hs : P.Sized) (h1 : P.Solves S) (h2 : P.Solves S')
  (hreal : ∀ i j k, P.isRealI i = true → P.isRealJ j = true → P.isRealK k = true →
    S i j k = S' i j k)

include hs h1 h2 hreal in
/-- periodic ghost columns -/
theorem ghost_circ (hd : P.ndim ≥ 2) {i k : Nat} (hi : P.isRealI i = true)
    (hk : P.isRealK k = true) :
    S i 0 k = S' i 0 k ∧ S i (P.Nt+1) k = S' i (P.Nt+1) k := by
  have hNt := hs.hNt hd
  have a := h1.2.2.2.1 hd i k hi hk
  have b := h2.2.2.2.1 hd i k hi hk
  have r1 := hreal i 1 k hi (by simp [Prob.isRealJ, hd]; omega) hk
  have r2 := hreal i P.Nt k hi (by simp [Prob.isRealJ, hd]; omega) hk
  constructor
  · linarith [a.1, b.1]
  · linarith [a.2, b.2]

include hs h1 h2 hreal in
/-- axial ghost planes -/
theorem ghost_ax (hd : P.ndim ≥ 3) {i j : Nat} (hi : P.isRealI i = true)
    (hj : P.isRealJ j = true) :
    S i j 0 = S' i j 0 ∧ S i j (P.Nz+1) = S' i j (P.Nz+1) := by
  have hNz := hs.hNz hd
  have a := h1.2.2.2.2 hd i j hi hj
  have b := h2.2.2.2.2 hd i j hi hj
  have r1 := hreal i j 1 hi hj (by simp [Prob.isRealK, hd]; omega)
  have r2 := hreal i j P.Nz hi hj (by simp [Prob.isRealK, hd]; omega)
  constructor
  · linarith [a.1, b.1]
  · linarith [a.2, b.2]

include hs h1 h2 hreal in
/-- the circumferential and axial parts of the stencil of a real node see the same values -/
theorem stencil_tz {i j k : Nat} (hi : P.isRealI i = true) (hj : P.isRealJ j = true)
    (hk : P.isRealK k = true) :
    P.wtm i j k * (S i (j-1) k - S i j k) + P.wtp i j k * (S i (j+1) k - S i j k)
      = P.wtm i j k * (S' i (j-1) k - S' i j k) + P.wtp i j k * (S' i (j+1) k - S' i j k) ∧
    P.wzm i j k * (S i j (k-1) - S i j k) + P.wzp i j k * (S i j (k+1) - S i j k)
      = P.wzm i j k * (S' i j (k-1) - S' i j k) + P.wzp i j k * (S' i j (k+1) - S' i j k) := by
  have c0 := hreal i j k hi hj hk
  constructor
  · by_cases hd : P.ndim ≥ 2
    · have hj' : 1 ≤ j ∧ j ≤ P.Nt := by simpa [Prob.isRealJ, hd] using hj
      obtain ⟨g0, g1⟩ := ghost_circ P S S' hs h1 h2 hreal hd hi hk
      have m : S i (j-1) k = S' i (j-1) k := by
        by_cases h : j = 1
        · subst h; exact g0
        · exact hreal i (j-1) k hi (by simp [Prob.isRealJ, hd]; omega) hk
      have p : S i (j+1) k = S' i (j+1) k := by
        by_cases h : j = P.Nt
        · subst h; exact g1
        · exact hreal i (j+1) k hi (by simp [Prob.isRealJ, hd]; omega) hk
      rw [m, p, c0]
    · simp [Prob.wtm, Prob.wtp, hd]
  · by_cases hd : P.ndim ≥ 3
    · have hk' : 1 ≤ k ∧ k ≤ P.Nz := by simpa [Prob.isRealK, hd] using hk
      obtain ⟨g0, g1⟩ := ghost_ax P S S' hs h1 h2 hreal hd hi hj
      have m : S i j (k-1) = S' i j (k-1) := by
        by_cases h : k = 1
        · subst h; exact g0
        · exact hreal i j (k-1) hi hj (by simp [Prob.isRealK, hd]; omega)
      have p : S i j (k+1) = S' i j (k+1) := by
        by_cases h : k = P.Nz
        · subst h; exact g1
        · exact hreal i j (k+1) hi hj (by simp [Prob.isRealK, hd]; omega)
      rw [m, p, c0]
    · simp [Prob.wzm, Prob.wzp, hd]

include hs h1 h2 hreal in
/-- the radial parts of the stencil of a real node of a transient step carry the same sum -/
theorem stencil_r (hst : P.steady = false) (hdt : P.dt ≠ 0) {i j k : Nat} (hi : P.isRealI i = true)
    (hj : P.isRealJ j = true) (hk : P.isRealK k = true) :
    P.wrm i j k * (S (i-1) j k - S i j k) + P.wrp i j k * (S (i+1) j k - S i j k)
      = P.wrm i j k * (S' (i-1) j k - S' i j k) + P.wrp i j k * (S' (i+1) j k - S' i j k) := by
  obtain ⟨t, z⟩ := stencil_tz P S S' hs h1 h2 hreal hi hj hk
  have c0 := hreal i j k hi hj hk
  have a := h1.1 i j k hi hj hk
  have b := h2.1 i j k hi hj hk
  unfold Prob.lhsReal Prob.applyA at a b
  rw [hst] at a b
  simp only [Bool.false_eq_true, if_false] at a b
  have key : P.dt * (P.wrm i j k * (S (i-1) j k - S i j k) + P.wrp i j k * (S (i+1) j k - S i j k))
      = P.dt * (P.wrm i j k * (S' (i-1) j k - S' i j k) + P.wrp i j k * (S' (i+1) j k - S' i j k)) := by
    linear_combination b - a + c0 - P.dt * t - P.dt * z
  exact mul_left_cancel₀ hdt key

include hs h1 h2 hreal in
/-- inner wall ghosts -/
theorem ghost_inner (hst : P.steady = false) (hdt : P.dt ≠ 0) (hf : P.FixInnerOK) {j k : Nat}
    (hj : P.isRealJ j = true) (hk : P.isRealK k = true) : S 0 j k = S' 0 j k := by
  have hN := hs.hN
  have hi1 : P.isRealI 1 = true := by simp [Prob.isRealI]; exact hN
  have c1 := hreal 1 j k hi1 hj hk
  have a := h1.2.1 j k hj hk
  have b := h2.2.1 j k hj hk
  unfold Prob.innerRes at a b
  cases hw : P.inner with
  | ins => rw [hw] at a b; simp only at a b; linarith
  | flux q => rw [hw] at a b; simp only at a b; linarith
  | conv tf h => rw [hw] at a b; simp only at a b; rw [c1] at a; linarith
  | fix v =>
    obtain ⟨hN2, hne⟩ := hf v hw
    have r := stencil_r P S S' hs h1 h2 hreal hst hdt hi1 hj hk
    have c2 := hreal 2 j k (by simp [Prob.isRealI]; exact hN2) hj hk
    simp only [Nat.sub_self] at r
    rw [c1, c2] at r
    have key : P.wrm 1 j k * S 0 j k = P.wrm 1 j k * S' 0 j k := by linear_combination r
    exact mul_left_cancel₀ (hne j k hj hk) key

include hs h1 h2 hreal in
/-- outer wall ghosts -/
theorem ghost_outer (hst : P.steady = false) (hdt : P.dt ≠ 0) (hf : P.FixOuterOK) {j k : Nat}
    (hj : P.isRealJ j = true) (hk : P.isRealK k = true) : S (P.N+1) j k = S' (P.N+1) j k := by
  have hN := hs.hN
  have hiN : P.isRealI P.N = true := by simp [Prob.isRealI]; exact hN
  have c1 := hreal P.N j k hiN hj hk
  have a := h1.2.2.1 j k hj hk
  have b := h2.2.2.1 j k hj hk
  unfold Prob.outerRes at a b
  cases hw : P.outer with
  | ins => rw [hw] at a b; simp only at a b; linarith
  | flux q => rw [hw] at a b; simp only at a b; linarith
  | conv tf h => rw [hw] at a b; simp only at a b; rw [c1] at a; linarith
  | fix v =>
    obtain ⟨hN2, hne⟩ := hf v hw
    have r := stencil_r P S S' hs h1 h2 hreal hst hdt hiN hj hk
    have c2 := hreal (P.N-1) j k (by simp [Prob.isRealI]; omega) hj hk
    rw [c1, c2] at r
    have key : P.wrp P.N j k * S (P.N+1) j k = P.wrp P.N j k * S' (P.N+1) j k := by
      linear_combination r
    exact mul_left_cancel₀ (hne j k hj hk) key

include hs h1 h2 hreal in
/-- **`Solves` determines the used ghost values** once the real values are known. -/
theorem ghost_unique (hst : P.steady = false) (hdt : P.dt ≠ 0) (hfi : P.FixInnerOK)
    (hfo : P.FixOuterOK) : ∀ i j k, P.used i j k → S i j k = S' i j k := by
  rintro i j k (⟨hi, hj, hk⟩ | ⟨hi, hj, hk⟩ | ⟨hd, hi, hj, hk⟩ | ⟨hd, hi, hj, hk⟩)
  · exact hreal i j k hi hj hk
  · rcases hi with rfl | rfl
    · exact ghost_inner P S S' hs h1 h2 hreal hst hdt hfi hj hk
    · exact ghost_outer P S S' hs h1 h2 hreal hst hdt hfo hj hk
  · rcases hj with rfl | rfl
    · exact (ghost_circ P S S' hs h1 h2 hreal hd hi hk).1
    · exact (ghost_circ P S S' hs h1 h2 hreal hd hi hk).2
  · rcases hk with rfl | rfl
    · exact (ghost_ax P S S' hs h1 h2 hreal hd hi hj).1
    · exact (ghost_ax P S S' hs h1 h2 hreal hd hi hj).2

end ghost

/-- **Uniqueness of the transient step on every node the next step reads.** -/
theorem step_unique_used (P : Prob ℝ) (T T' : GField ℝ)
    (hs : P.Sized) (hst : P.steady = false) (hdt : 0 < P.dt) (hw : P.WeightsNonneg)
    (hconv_in : ∀ tf h, P.inner = .conv tf h → ∀ j k, 0 ≤ P.dr * h j k / P.kk 1 j k)
    (hconv_out : ∀ tf h, P.outer = .conv tf h → ∀ j k, 0 ≤ P.dr * h j k / P.kk P.N j k)
    (hfi : P.FixInnerOK) (hfo : P.FixOuterOK)
    (h1 : P.Solves T) (h2 : P.Solves T') : ∀ i j k, P.used i j k → T i j k = T' i j k :=
  ghost_unique P T T' hs h1 h2 (step_unique P T T' hs hst hdt hw hconv_in hconv_out h1 h2)
    hst hdt.ne' hfi hfo

/-! ### 3c. induction over the steps -/

/-- everything `step_unique_used` asks of a transient step -/
structure Prob.UniqueOK (P : Prob ℝ) : Prop where
  sized  : P.Sized
  trans  : P.steady = false
  dtpos  : 0 < P.dt
  wnn    : P.WeightsNonneg
  convI  : ∀ tf h, P.inner = .conv tf h → ∀ j k, 0 ≤ P.dr * h j k / P.kk 1 j k
  convO  : ∀ tf h, P.outer = .conv tf h → ∀ j k, 0 ≤ P.dr * h j k / P.kk P.N j k
  fixI   : P.FixInnerOK
  fixO   : P.FixOuterOK

/-- `P` follows the point-wise material law `(a, kfun, qfun)` on its own previous field (the whole
ghosted field, as `setup_step` evaluates it) -/
structure Prob.Law (P : Prob ℝ) (a kfun qfun : ℝ → ℝ) : Prop where
  c  : ∀ i j k, P.c i j k = a (P.Tn i j k)
  kk : ∀ i j k, P.kk i j k = kfun (P.Tn i j k)
  qc : ∀ i j k, P.qc i j k = qfun (P.Tn i j k)

theorem Prob.Law.lift2 {P : Prob ℝ} {a kfun qfun : ℝ → ℝ} (h : P.Law a kfun qfun) (Nt : Nat)
    (dth : ℝ) : (P.lift2 Nt dth).Law a kfun qfun :=
  ⟨(material_law_lift2 P Nt dth a kfun h.c h.kk).1, (material_law_lift2 P Nt dth a kfun h.c h.kk).2,
   material_qc_lift2 P Nt dth qfun h.qc⟩

theorem Prob.Law.lift3 {P : Prob ℝ} {a kfun qfun : ℝ → ℝ} (h : P.Law a kfun qfun) (Nz : Nat)
    (dz : ℝ) : (P.lift3 Nz dz).Law a kfun qfun :=
  ⟨(material_law_lift3 P Nz dz a kfun h.c h.kk).1, (material_law_lift3 P Nz dz a kfun h.c h.kk).2,
   material_qc_lift3 P Nz dz qfun h.qc⟩

/-- one step of the induction: if `Q` has the step data of `L`, both follow the same material law and
their previous fields agree on the used nodes, then every solution of `Q` solves `L` -/
theorem solves_of_same_data (L Q : Prob ℝ) (a kfun qfun : ℝ → ℝ) (X : GField ℝ)
    (hL : L.Law a kfun qfun) (hQ : Q.Law a kfun qfun) (hdata : Q.withLagged L = L)
    (hprev : ∀ i j k, L.used i j k → Q.Tn i j k = L.Tn i j k) (hs : L.Sized)
    (hsol : Q.Solves X) : L.Solves X := by
  have hd : Q.ndim = L.ndim := (congrArg Prob.ndim hdata : (Q.withLagged L).ndim = L.ndim)
  have hN : Q.N = L.N := (congrArg Prob.N hdata : (Q.withLagged L).N = L.N)
  have hNt : Q.Nt = L.Nt := (congrArg Prob.Nt hdata : (Q.withLagged L).Nt = L.Nt)
  have hNz : Q.Nz = L.Nz := (congrArg Prob.Nz hdata : (Q.withLagged L).Nz = L.Nz)
  have hu : ∀ i j k, Q.used i j k ↔ L.used i j k :=
    used_congr L Q hd hN (fun _ => hNt) (fun _ => hNz)
  have hsQ : Q.Sized := ⟨hN ▸ hs.hN, fun h => hNt ▸ hs.hNt (hd ▸ h), fun h => hNz ▸ hs.hNz (hd ▸ h)⟩
  have hr : ∀ i j k, Q.isRealI i = true → Q.isRealJ j = true → Q.isRealK k = true →
      Q.Tn i j k = L.Tn i j k :=
    fun i j k hi hj hk => hprev i j k ((hu i j k).1 (used_real Q hi hj hk))
  rw [← hdata]
  refine solves_withLag Q L.Tn L.c L.kk L.qc ?_ X ?_ ?_ ?_ hsQ hsol
  · intro i j k h
    rw [hL.c, hQ.c, hprev i j k ((hu i j k).1 h)]
  · intro i j k hi hj hk
    rw [hL.kk, hQ.kk, hr i j k hi hj hk]
  · intro i j k hi hj hk
    rw [hL.qc, hQ.qc, hr i j k hi hj hk]
  · intro i j k hi hj hk
    exact (hr i j k hi hj hk).symm

/-- **A transient history is determined by its initial field, its step data and the material law.**
`L n` / `U` is a reference history, `Q n` / `S` any history with the same step data
(`(Q n).withLagged (L n) = L n`: geometry, time step, source and walls coincide), whose previous
field is its own last solution and whose coefficients are the same point-wise law of that field.
If the initial fields agree on the used nodes, the two histories agree on the used nodes at every
step. -/
theorem history_unique (L Q : Nat → Prob ℝ) (U S : Nat → GField ℝ) (a kfun qfun : ℝ → ℝ)
    (hgrid : ∀ n, (L n).ndim = (L 0).ndim ∧ (L n).N = (L 0).N ∧
      ((L 0).ndim ≥ 2 → (L n).Nt = (L 0).Nt) ∧ ((L 0).ndim ≥ 3 → (L n).Nz = (L 0).Nz))
    (hLp : ∀ n i j k, (L n).Tn i j k = U n i j k) (hLlaw : ∀ n, (L n).Law a kfun qfun)
    (hQp : ∀ n i j k, (Q n).Tn i j k = S n i j k) (hQlaw : ∀ n, (Q n).Law a kfun qfun)
    (hdata : ∀ n, (Q n).withLagged (L n) = L n)
    (hLsol : ∀ n, (L n).Solves (U (n+1))) (hQsol : ∀ n, (Q n).Solves (S (n+1)))
    (h0 : ∀ i j k, (L 0).used i j k → S 0 i j k = U 0 i j k)
    (hok : ∀ n, (L n).UniqueOK) :
    ∀ n i j k, (L 0).used i j k → S n i j k = U n i j k := by
  have hu : ∀ n i j k, (L n).used i j k ↔ (L 0).used i j k := fun n =>
    used_congr (L 0) (L n) (hgrid n).1 (hgrid n).2.1 (hgrid n).2.2.1 (hgrid n).2.2.2
  intro n
  induction n with
  | zero => exact h0
  | succ n ih =>
    have ok := hok n
    have hsolL : (L n).Solves (S (n+1)) :=
      solves_of_same_data (L n) (Q n) a kfun qfun (S (n+1)) (hLlaw n) (hQlaw n) (hdata n)
        (fun i j k h => by rw [hQp, hLp]; exact ih i j k ((hu n i j k).1 h)) ok.sized (hQsol n)
    intro i j k h
    exact step_unique_used (L n) (S (n+1)) (U (n+1)) ok.sized ok.trans ok.dtpos ok.wnn ok.convI
      ok.convO ok.fixI ok.fixO hsolL (hLsol n) i j k ((hu n i j k).2 h)

/-- **A 2-D history driven by axisymmetric data is the lift of the 1-D history.**
`P n`, `T`: the 1-D history (`T 0` initial field, `(P n).Solves (T (n+1))`, previous field `T n`,
material law on it).  `Q n`, `S`: a 2-D history whose step data are those of the lifted 1-D step,
whose previous field is its own last solution `S n` and whose coefficients are the same law of
`S n`.  If `S 0` is the lift of `T 0` (on the used nodes), then `S n` is the lift of `T n` on every
used node — in particular on every real node — for all `n`. -/
theorem lift2_history_unique (P Q : Nat → Prob ℝ) (T S : Nat → GField ℝ) (Nt : Nat) (dth : ℝ)
    (a kfun qfun : ℝ → ℝ)
    (h1 : ∀ n, (P n).ndim = 1) (hN : ∀ n, (P n).N = (P 0).N)
    (hPp : ∀ n i j k, (P n).Tn i j k = T n i j k) (hPlaw : ∀ n, (P n).Law a kfun qfun)
    (hPsol : ∀ n, (P n).Solves (T (n+1)))
    (hQp : ∀ n i j k, (Q n).Tn i j k = S n i j k) (hQlaw : ∀ n, (Q n).Law a kfun qfun)
    (hdata : ∀ n, (Q n).withLagged ((P n).lift2 Nt dth) = (P n).lift2 Nt dth)
    (hQsol : ∀ n, (Q n).Solves (S (n+1)))
    (h0 : ∀ i j k, ((P 0).lift2 Nt dth).used i j k → S 0 i j k = T 0 i 0 k)
    (hok : ∀ n, ((P n).lift2 Nt dth).UniqueOK) :
    ∀ n i j k, ((P 0).lift2 Nt dth).used i j k → S n i j k = T n i 0 k :=
  history_unique (fun n => (P n).lift2 Nt dth) Q (fun n => GField.lift2 (T n)) S a kfun qfun
    (fun n => ⟨rfl, hN n, fun _ => rfl, fun h => absurd h (by simp [Prob.lift2])⟩)
    (fun n i _ k => hPp n i 0 k) (fun n => (hPlaw n).lift2 Nt dth) hQp hQlaw hdata
    (history_lift2 P T Nt dth h1 hPsol) hQsol h0 hok

/-- **A 3-D history driven by axially uniform data is the lift of the 2-D history.** -/
theorem lift3_history_unique (P Q : Nat → Prob ℝ) (T S : Nat → GField ℝ) (Nz : Nat) (dz : ℝ)
    (a kfun qfun : ℝ → ℝ)
    (h2 : ∀ n, (P n).ndim = 2) (hN : ∀ n, (P n).N = (P 0).N) (hNt : ∀ n, (P n).Nt = (P 0).Nt)
    (hPp : ∀ n i j k, (P n).Tn i j k = T n i j k) (hPlaw : ∀ n, (P n).Law a kfun qfun)
    (hPsol : ∀ n, (P n).Solves (T (n+1)))
    (hQp : ∀ n i j k, (Q n).Tn i j k = S n i j k) (hQlaw : ∀ n, (Q n).Law a kfun qfun)
    (hdata : ∀ n, (Q n).withLagged ((P n).lift3 Nz dz) = (P n).lift3 Nz dz)
    (hQsol : ∀ n, (Q n).Solves (S (n+1)))
    (h0 : ∀ i j k, ((P 0).lift3 Nz dz).used i j k → S 0 i j k = T 0 i j 0)
    (hok : ∀ n, ((P n).lift3 Nz dz).UniqueOK) :
    ∀ n i j k, ((P 0).lift3 Nz dz).used i j k → S n i j k = T n i j 0 :=
  history_unique (fun n => (P n).lift3 Nz dz) Q (fun n => GField.lift3 (T n)) S a kfun qfun
    (fun n => ⟨rfl, hN n, fun _ => hNt n, fun _ => rfl⟩)
    (fun n i j _ => hPp n i j 0) (fun n => (hPlaw n).lift3 Nz dz) hQp hQlaw hdata
    (history_lift3 P T Nz dz h2 hPsol) hQsol h0 hok

/-! ### the same, in the shape of the code: `setup_step` evaluates the material on the previous field -/

/-- the step with step data `G` (geometry, time step, source, walls), previous field `Tp` and the
material `(a, kfun, qfun)` evaluated on the whole ghosted `Tp` -/
def Prob.withPrev (G : Prob ℝ) (a kfun qfun : ℝ → ℝ) (Tp : GField ℝ) : Prob ℝ :=
  G.withLag Tp (fun i j k => a (Tp i j k)) (fun i j k => kfun (Tp i j k)) (fun i j k => qfun (Tp i j k))

theorem Prob.withPrev_law (G : Prob ℝ) (a kfun qfun : ℝ → ℝ) (Tp : GField ℝ) :
    (G.withPrev a kfun qfun Tp).Law a kfun qfun := ⟨fun _ _ _ => rfl, fun _ _ _ => rfl, fun _ _ _ => rfl⟩

/-- lifting commutes with `setup_step` -/
theorem Prob.withPrev_lift2 (G : Prob ℝ) (a kfun qfun : ℝ → ℝ) (Tp : GField ℝ) (Nt : Nat) (dth : ℝ) :
    (G.withPrev a kfun qfun Tp).lift2 Nt dth = (G.lift2 Nt dth).withPrev a kfun qfun (GField.lift2 Tp) := rfl

theorem Prob.withPrev_lift3 (G : Prob ℝ) (a kfun qfun : ℝ → ℝ) (Tp : GField ℝ) (Nz : Nat) (dz : ℝ) :
    (G.withPrev a kfun qfun Tp).lift3 Nz dz = (G.lift3 Nz dz).withPrev a kfun qfun (GField.lift3 Tp) := rfl

/-- **2-D run = 1-D run, code-shaped.**  `G n`: the 1-D step data.  The 1-D run solves
`(G n).withPrev … (T n)`, the 2-D run solves `((G n).lift2 Nt dth).withPrev … (S n)` — each evaluates
the material on its own previous field.  Same initial field ⇒ same fields on all used nodes. -/
theorem lift2_run_unique (G : Nat → Prob ℝ) (T S : Nat → GField ℝ) (Nt : Nat) (dth : ℝ)
    (a kfun qfun : ℝ → ℝ)
    (h1 : ∀ n, (G n).ndim = 1) (hN : ∀ n, (G n).N = (G 0).N)
    (hT : ∀ n, ((G n).withPrev a kfun qfun (T n)).Solves (T (n+1)))
    (hS : ∀ n, (((G n).lift2 Nt dth).withPrev a kfun qfun (S n)).Solves (S (n+1)))
    (h0 : ∀ i j k, ((G 0).lift2 Nt dth).used i j k → S 0 i j k = T 0 i 0 k)
    (hok : ∀ n, (((G n).withPrev a kfun qfun (T n)).lift2 Nt dth).UniqueOK) :
    ∀ n i j k, ((G 0).lift2 Nt dth).used i j k → S n i j k = T n i 0 k :=
  lift2_history_unique (fun n => (G n).withPrev a kfun qfun (T n))
    (fun n => ((G n).lift2 Nt dth).withPrev a kfun qfun (S n)) T S Nt dth a kfun qfun
    h1 hN (fun _ _ _ _ => rfl) (fun n => (G n).withPrev_law a kfun qfun (T n)) hT
    (fun _ _ _ _ => rfl) (fun n => ((G n).lift2 Nt dth).withPrev_law a kfun qfun (S n))
    (fun _ => rfl) hS h0 hok

/-- **3-D run = 2-D run, code-shaped.** -/
theorem lift3_run_unique (G : Nat → Prob ℝ) (T S : Nat → GField ℝ) (Nz : Nat) (dz : ℝ)
    (a kfun qfun : ℝ → ℝ)
    (h2 : ∀ n, (G n).ndim = 2) (hN : ∀ n, (G n).N = (G 0).N) (hNt : ∀ n, (G n).Nt = (G 0).Nt)
    (hT : ∀ n, ((G n).withPrev a kfun qfun (T n)).Solves (T (n+1)))
    (hS : ∀ n, (((G n).lift3 Nz dz).withPrev a kfun qfun (S n)).Solves (S (n+1)))
    (h0 : ∀ i j k, ((G 0).lift3 Nz dz).used i j k → S 0 i j k = T 0 i j 0)
    (hok : ∀ n, (((G n).withPrev a kfun qfun (T n)).lift3 Nz dz).UniqueOK) :
    ∀ n i j k, ((G 0).lift3 Nz dz).used i j k → S n i j k = T n i j 0 :=
  lift3_history_unique (fun n => (G n).withPrev a kfun qfun (T n))
    (fun n => ((G n).lift3 Nz dz).withPrev a kfun qfun (S n)) T S Nz dz a kfun qfun
    h2 hN hNt (fun _ _ _ _ => rfl) (fun n => (G n).withPrev_law a kfun qfun (T n)) hT
    (fun _ _ _ _ => rfl) (fun n => ((G n).lift3 Nz dz).withPrev_law a kfun qfun (S n))
    (fun _ => rfl) hS h0 hok

end
end SrModel.Thermal
