import SrModel.LameThermal
import SrProofs.Lame

/-! Lemmas about `SrModel.LameThermal` over `ℝ`: for an ARBITRARY temperature profile `T` with moment
`I` (`I' = r·T`, `I r_i = 0`) the closed form has traction-free surfaces, satisfies equilibrium,
Hooke's law with thermal strain, compatibility, and integrates to the stated axial force. -/
namespace SrModel.LameThermal

variable (P : TPrm ℝ) (T I : ℝ → ℝ)

/-! ### boundary conditions and equilibrium -/

theorem sr_inner (hI0 : I P.ri = 0) : sr P I P.ri = 0 := by
  simp [sr, hI0]

theorem sr_outer (hw : w P ≠ 0) (hro : P.ro ≠ 0) : sr P I P.ro = 0 := by
  have hw' : P.ro ^ 2 - P.ri ^ 2 ≠ 0 := by have := hw; unfold w at this; rwa [pow_two, pow_two]
  unfold sr w; field_simp; ring

/-- `r σ_r' + σ_r − σ_θ = 0` -/
theorem equilibrium_alg (r : ℝ) (hr : r ≠ 0) (hw : w P ≠ 0) :
    r * dsr P T I r + sr P I r - st P T I r = 0 := by
  unfold dsr sr st; field_simp; ring

theorem hasDerivAt_sq (r : ℝ) : HasDerivAt (fun x : ℝ => x * x) (1 * r + r * 1) r :=
  (hasDerivAt_id' r).mul (hasDerivAt_id' r)

/-- `dsr` is the derivative of `σ_r` -/
theorem sr_hasDerivAt (r : ℝ) (hr : r ≠ 0) (hw : w P ≠ 0) (hI : HasDerivAt I (r * T r) r) :
    HasDerivAt (sr P I) (dsr P T I r) r := by
  have h2 := hasDerivAt_sq r
  have hrr : r * r ≠ 0 := mul_ne_zero hr hr
  have hA : HasDerivAt (fun x : ℝ => -(I x) / (x * x)) _ r := hI.neg.div h2 hrr
  have hB : HasDerivAt (fun x : ℝ => (x * x - P.ri * P.ri) / ((x * x) * w P)) _ r :=
    (h2.sub_const (P.ri * P.ri)).div (h2.mul_const (w P)) (mul_ne_zero hrr hw)
  have h : HasDerivAt (fun x : ℝ => kfac P * ( -(I x) / (x * x)
      + (x * x - P.ri * P.ri) / ((x * x) * w P) * I P.ro )) _ r :=
    (hA.add (hB.mul_const (I P.ro))).const_mul (kfac P)
  refine h.congr_deriv ?_
  unfold dsr; simp only [Pi.neg_apply]; field_simp; ring

/-! ### Hooke's law and compatibility -/

/-- Hooke's law in the axial direction returns the imposed axial strain -/
theorem hooke_z (r : ℝ) (hE : P.E ≠ 0) :
    (sz P T I r - P.nu * (sr P I r + st P T I r)) / P.E + P.al * T r = P.ez := by
  unfold sz; field_simp; ring

/-- `ε_θ = u/r` -/
theorem et_eq_u_div (r : ℝ) (hr : r ≠ 0) : et P T I r = u P T I r / r := by
  unfold u; field_simp

/-- the smooth part of the hoop stress: `σ_θ + k T = k·g` -/
noncomputable def gfun (P : TPrm ℝ) (I : ℝ → ℝ) (r : ℝ) : ℝ :=
  (I r) / (r * r) + (r * r + P.ri * P.ri) / ((r * r) * w P) * I P.ro

theorem gfun_hasDerivAt (r : ℝ) (hr : r ≠ 0) (hw : w P ≠ 0) (hI : HasDerivAt I (r * T r) r) :
    HasDerivAt (gfun P I)
      (T r / r - 2 * (I r) / (r * r * r) - 2 * P.ri * P.ri / ((r * r * r) * w P) * I P.ro) r := by
  have h2 := hasDerivAt_sq r
  have hrr : r * r ≠ 0 := mul_ne_zero hr hr
  have hA : HasDerivAt (fun x : ℝ => (I x) / (x * x)) _ r := hI.div h2 hrr
  have hB : HasDerivAt (fun x : ℝ => (x * x + P.ri * P.ri) / ((x * x) * w P)) _ r :=
    (h2.add_const (P.ri * P.ri)).div (h2.mul_const (w P)) (mul_ne_zero hrr hw)
  have h : HasDerivAt (fun x : ℝ => (I x) / (x * x)
      + (x * x + P.ri * P.ri) / ((x * x) * w P) * I P.ro) _ r :=
    hA.add (hB.mul_const (I P.ro))
  refine h.congr_deriv ?_
  field_simp; ring

/-- `T` cancels in the hoop strain -/
theorem et_smooth (r : ℝ) (hE : P.E ≠ 0) (hnu : 1 - P.nu ≠ 0) :
    et P T I r = (1 + P.nu) / P.E * ((1 - P.nu) * (kfac P * gfun P I r) - P.nu * sr P I r)
      - P.nu * P.ez := by
  have hk : kfac P * (1 - P.nu) = P.al * P.E := by unfold kfac; field_simp
  have hst : st P T I r = kfac P * gfun P I r - kfac P * T r := by unfold st gfun; ring
  unfold et sz
  rw [hst]
  field_simp
  linear_combination (-(1 + P.nu) * T r) * hk

/-- compatibility: `ε_r = du/dr` for `u = r ε_θ` -/
theorem u_hasDerivAt (r : ℝ) (hr : r ≠ 0) (hw : w P ≠ 0) (hE : P.E ≠ 0) (hnu : 1 - P.nu ≠ 0)
    (hI : HasDerivAt I (r * T r) r) : HasDerivAt (u P T I) (er P T I r) r := by
  have hsr := sr_hasDerivAt P T I r hr hw hI
  have hg := gfun_hasDerivAt P T I r hr hw hI
  have hu : u P T I = fun x => x * ((1 + P.nu) / P.E *
      ((1 - P.nu) * (kfac P * gfun P I x) - P.nu * sr P I x) - P.nu * P.ez) := by
    funext x; unfold u; rw [et_smooth P T I x hE hnu]
  rw [hu]
  have het : HasDerivAt (fun x => (1 + P.nu) / P.E *
      ((1 - P.nu) * (kfac P * gfun P I x) - P.nu * sr P I x) - P.nu * P.ez) _ r :=
    (((((hg.const_mul (kfac P)).const_mul (1 - P.nu)).sub (hsr.const_mul P.nu)).const_mul
      ((1 + P.nu) / P.E)).sub_const (P.nu * P.ez))
  have h := (hasDerivAt_id' r).mul het
  refine h.congr_deriv ?_
  -- ε_r = ε_θ + (1+ν)/E (σ_r − σ_θ), and the derivative term is −(1+ν)/E · r σ_r'
  have e := equilibrium_alg P T I r hr hw
  have hk : kfac P * (1 - P.nu) = P.al * P.E := by unfold kfac; field_simp
  have hst : st P T I r = kfac P * gfun P I r - kfac P * T r := by unfold st gfun; ring
  have hd : kfac P * (T r / r - 2 * (I r) / (r * r * r)
      - 2 * P.ri * P.ri / ((r * r * r) * w P) * I P.ro) = -(dsr P T I r) := by
    unfold dsr; ring
  have her : er P T I r = et P T I r + (1 + P.nu) / P.E * (sr P I r - st P T I r) := by
    unfold er et; field_simp; ring
  rw [her, et_smooth P T I r hE hnu]
  have hd' : (1 - P.nu) * (kfac P * (T r / r - 2 * (I r) / (r * r * r)
      - 2 * P.ri * P.ri / ((r * r * r) * w P) * I P.ro)) = -((1 - P.nu) * dsr P T I r) := by
    rw [hd]; ring
  rw [hd']
  linear_combination (-((1 + P.nu) / P.E)) * e

/-! ### axial force -/

/-- antiderivative of `2πr σ_z(r)` -/
noncomputable def Gz (P : TPrm ℝ) (I : ℝ → ℝ) (pi r : ℝ) : ℝ :=
  2 * pi * ((kfac P * 2 * P.nu * I P.ro / w P + P.E * P.ez) * r * r / 2 - kfac P * I r)

theorem Gz_hasDerivAt (pi r : ℝ) (hr : r ≠ 0) (hw : w P ≠ 0) (hnu : 1 - P.nu ≠ 0)
    (hI : HasDerivAt I (r * T r) r) :
    HasDerivAt (Gz P I pi) (2 * pi * r * sz P T I r) r := by
  have hid := hasDerivAt_id' r
  have h : HasDerivAt (fun x : ℝ => 2 * pi * ((kfac P * 2 * P.nu * I P.ro / w P + P.E * P.ez) * x * x / 2
      - kfac P * I x)) _ r :=
    (((((hid.const_mul (kfac P * 2 * P.nu * I P.ro / w P + P.E * P.ez)).mul hid).div_const 2).sub
      (hI.const_mul (kfac P))).const_mul (2 * pi))
  refine h.congr_deriv ?_
  have hk : kfac P * (1 - P.nu) = P.al * P.E := by unfold kfac; field_simp
  have hss : sr P I r + st P T I r = kfac P * (2 * I P.ro / w P - T r) := by
    unfold sr st; field_simp; ring
  unfold sz; rw [hss]
  linear_combination (-(2 * pi * r * T r)) * hk

theorem Gz_diff (pi : ℝ) (hw : w P ≠ 0) (hnu : 1 - P.nu ≠ 0) (hI0 : I P.ri = 0) :
    Gz P I pi P.ro - Gz P I pi P.ri = force P I pi := by
  have hk : kfac P * (1 - P.nu) = P.al * P.E := by unfold kfac; field_simp
  have hw2 : P.ro * P.ro - P.ri * P.ri = w P := rfl
  unfold Gz force; rw [hI0]
  field_simp
  rw [← hw2] at hw ⊢
  linear_combination (-(2 * pi * I P.ro * (P.ro * P.ro - P.ri * P.ri))) * hk

/-! ### uniform temperature: the thermal field vanishes -/

theorem uniform_sr (dT r : ℝ) (hr : r ≠ 0) (hw : w P ≠ 0) :
    sr P (fun x => dT * (x * x - P.ri * P.ri) / 2) r = 0 := by
  have hw' : P.ro ^ 2 - P.ri ^ 2 ≠ 0 := by have := hw; unfold w at this; rwa [pow_two, pow_two]
  unfold sr w; field_simp; ring

theorem uniform_st (dT r : ℝ) (hr : r ≠ 0) (hw : w P ≠ 0) :
    st P (fun _ => dT) (fun x => dT * (x * x - P.ri * P.ri) / 2) r = 0 := by
  have hw' : P.ro ^ 2 - P.ri ^ 2 ≠ 0 := by have := hw; unfold w at this; rwa [pow_two, pow_two]
  unfold st w; field_simp; ring

/-! ### the quadratic profile -/

theorem Iq_inner (ri c0 c1 c2 : ℝ) : Iq ri c0 c1 c2 ri = 0 := by
  unfold Iq; ring

theorem Iq_hasDerivAt (ri c0 c1 c2 r : ℝ) :
    HasDerivAt (Iq ri c0 c1 c2) (r * Tq c0 c1 c2 r) r := by
  have hid := hasDerivAt_id' r
  have h2 : HasDerivAt (fun x : ℝ => x * x) _ r := hid.mul hid
  have h3 : HasDerivAt (fun x : ℝ => x * x * x) _ r := h2.mul hid
  have h4 : HasDerivAt (fun x : ℝ => x * x * x * x) _ r := h3.mul hid
  have h : HasDerivAt (fun x : ℝ => c0 * (x * x - ri * ri) / 2 + c1 * (x * x * x - ri * ri * ri) / 3
      + c2 * (x * x * x * x - ri * ri * ri * ri) / 4) _ r :=
    ((((h2.sub_const (ri * ri)).const_mul c0).div_const 2).add
      (((h3.sub_const (ri * ri * ri)).const_mul c1).div_const 3)).add
      (((h4.sub_const (ri * ri * ri * ri)).const_mul c2).div_const 4)
  refine h.congr_deriv ?_
  unfold Tq; ring

end SrModel.LameThermal
