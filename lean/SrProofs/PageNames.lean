import SrModel.PageNames
import Mathlib.Data.List.Basic
import Mathlib.Data.List.Nodup
import Mathlib.Data.List.Range

/-!
Helper lemmas for the paging file names of C08 (`SrProps/C08.lean`) about `SrModel.PageNames`.
-/
namespace SrModel.PageNames

/-! ### tube numbering -/

theorem allTubesFrom_map_index (pre : List Nat) :
    ∀ (rest : List Nat),
      (allTubesFrom pre.length rest).map (fun pk => tubeIndex (pre ++ rest) pk.1 pk.2) =
        (List.range' pre.sum rest.sum)
  | [] => by simp [allTubesFrom]
  | n :: rest => by
    have ih := allTubesFrom_map_index (pre ++ [n]) rest
    simp only [List.length_append, List.length_cons, List.length_nil, Nat.zero_add,
      List.append_assoc, List.cons_append, List.nil_append, List.sum_append, List.sum_cons,
      List.sum_nil, Nat.add_zero] at ih
    simp only [allTubesFrom, List.map_append, List.map_map, ih, List.sum_cons]
    rw [← List.range'_append_1 (s := pre.sum) (m := n) (n := rest.sum)]
    congr 1
    rw [List.range'_eq_map_range]
    apply List.map_congr_left
    intro k _
    simp [tubeIndex]

/-- **the numbering enumerates `0 … ntubes-1` in the order of `Receiver.tubes`** -/
theorem allTubes_map_tubeIndex (sizes : List Nat) :
    (allTubes sizes).map (fun pk => tubeIndex sizes pk.1 pk.2) = List.range sizes.sum := by
  have := allTubesFrom_map_index [] sizes
  simpa [allTubes, List.range_eq_range'] using this

theorem mem_allTubesFrom (p0 : Nat) : ∀ (sizes : List Nat) (p k : Nat),
    (p, k) ∈ allTubesFrom p0 sizes ↔ p0 ≤ p ∧ p - p0 < sizes.length ∧ k < sizes.getD (p - p0) 0
  | [], p, k => by simp [allTubesFrom]
  | n :: rest, p, k => by
    simp only [allTubesFrom, List.mem_append, List.mem_map, List.mem_range, Prod.mk.injEq,
      mem_allTubesFrom (p0 + 1) rest, List.length_cons]
    constructor
    · rintro (⟨a, ha, rfl, rfl⟩ | ⟨h1, h2, h3⟩)
      · simp [ha]
      · refine ⟨by omega, by omega, ?_⟩
        obtain ⟨j, hj⟩ : ∃ j, p - p0 = j + 1 := ⟨p - p0 - 1, by omega⟩
        have : p - (p0 + 1) = j := by omega
        rw [hj]; rw [this] at h3; simpa using h3
    · rintro ⟨h1, h2, h3⟩
      by_cases hp : p = p0
      · subst hp
        left
        exact ⟨k, by simpa using h3, rfl, rfl⟩
      · right
        obtain ⟨j, hj⟩ : ∃ j, p - p0 = j + 1 := ⟨p - p0 - 1, by omega⟩
        have : p - (p0 + 1) = j := by omega
        rw [hj] at h3
        rw [this]
        exact ⟨by omega, by omega, by simpa using h3⟩

/-- the members of `allTubes` are exactly the valid positions -/
theorem mem_allTubes (sizes : List Nat) (p k : Nat) :
    (p, k) ∈ allTubes sizes ↔ p < sizes.length ∧ k < sizes.getD p 0 := by
  simp [allTubes, mem_allTubesFrom]

theorem allTubes_length (sizes : List Nat) : (allTubes sizes).length = sizes.sum := by
  have := congrArg List.length (allTubes_map_tubeIndex sizes)
  simpa using this

theorem allTubes_nodup (sizes : List Nat) : (allTubes sizes).Nodup := by
  apply List.Nodup.of_map (fun pk => tubeIndex sizes pk.1 pk.2)
  rw [allTubes_map_tubeIndex]
  exact List.nodup_range

/-- **tubeIndex_injective.** two valid positions with the same number are the same position -/
theorem tubeIndex_injective (sizes : List Nat) (p k p' k' : Nat)
    (hp : p < sizes.length) (hk : k < sizes.getD p 0)
    (hp' : p' < sizes.length) (hk' : k' < sizes.getD p' 0)
    (h : tubeIndex sizes p k = tubeIndex sizes p' k') : p = p' ∧ k = k' := by
  have hnd : ((allTubes sizes).map (fun pk => tubeIndex sizes pk.1 pk.2)).Nodup := by
    rw [allTubes_map_tubeIndex]; exact List.nodup_range
  have := List.inj_on_of_nodup_map hnd ((mem_allTubes sizes p k).2 ⟨hp, hk⟩)
    ((mem_allTubes sizes p' k').2 ⟨hp', hk'⟩) h
  simpa using this

/-- a valid position gets a number below the number of tubes -/
theorem tubeIndex_lt (sizes : List Nat) (p k : Nat) (hp : p < sizes.length)
    (hk : k < sizes.getD p 0) : tubeIndex sizes p k < sizes.sum := by
  have hm : tubeIndex sizes p k ∈ (allTubes sizes).map (fun pk => tubeIndex sizes pk.1 pk.2) :=
    List.mem_map.2 ⟨(p, k), (mem_allTubes sizes p k).2 ⟨hp, hk⟩, rfl⟩
  rw [allTubes_map_tubeIndex] at hm
  exact List.mem_range.1 hm

/-- `tubeIndex` is the position in `Receiver.tubes` -/
theorem allTubes_getElem?_tubeIndex (sizes : List Nat) (p k : Nat) (hp : p < sizes.length)
    (hk : k < sizes.getD p 0) : (allTubes sizes)[tubeIndex sizes p k]? = some (p, k) := by
  have hlt := tubeIndex_lt sizes p k hp hk
  have hlen := allTubes_length sizes
  have hi : tubeIndex sizes p k < (allTubes sizes).length := by omega
  rw [List.getElem?_eq_getElem hi]
  have hmem : (allTubes sizes)[tubeIndex sizes p k] ∈ allTubes sizes := List.getElem_mem hi
  rcases hq : (allTubes sizes)[tubeIndex sizes p k] with ⟨q, j⟩
  rw [hq] at hmem
  have hv := (mem_allTubes sizes q j).1 hmem
  have hidx : tubeIndex sizes q j = tubeIndex sizes p k := by
    have := congrArg (fun l => l[tubeIndex sizes p k]?) (allTubes_map_tubeIndex sizes)
    simp only [List.getElem?_map, List.getElem?_eq_getElem hi, hq, Option.map_some,
      List.getElem?_range hlt] at this
    exact Option.some.inj this
  obtain ⟨rfl, rfl⟩ := tubeIndex_injective sizes q j p k hv.1 hv.2 hp hk hidx
  rfl

/-! ### file names as character lists -/

theorem append_cons_inj_of_not_mem {α} (a : α) :
    ∀ (xs xs' ys ys' : List α), a ∉ xs → a ∉ xs' → xs ++ a :: ys = xs' ++ a :: ys' →
      xs = xs' ∧ ys = ys'
  | [], [], _, _, _, _, h => by simpa using h
  | [], x' :: xs', _, _, _, h', h => by
    simp only [List.nil_append, List.cons_append, List.cons.injEq] at h
    exact absurd (by simp [h.1]) h'
  | x :: xs, [], _, _, h', _, h => by
    simp only [List.nil_append, List.cons_append, List.cons.injEq] at h
    exact absurd (by simp [h.1]) h'
  | x :: xs, x' :: xs', ys, ys', hx, hx', h => by
    simp only [List.cons_append, List.cons.injEq] at h
    have := append_cons_inj_of_not_mem a xs xs' ys ys' (by simp at hx; tauto) (by simp at hx'; tauto) h.2
    simp [h.1, this.1, this.2]

theorem toDigits_ten_injective {n m : Nat} (h : Nat.toDigits 10 n = Nat.toDigits 10 m) : n = m := by
  have := congrArg (fun l => Nat.ofDigitChars 10 l 0) h
  simpa using this

/-- **key lemma.** the decimal string of a natural number has no `'_'`, so the first `'_'`
separates the tube number from the rest -/
theorem prefix_inj (i i' : Nat) (b b' : List Char)
    (h : Nat.toDigits 10 i ++ '_' :: b = Nat.toDigits 10 i' ++ '_' :: b') : i = i' ∧ b = b' := by
  obtain ⟨h1, h2⟩ := append_cons_inj_of_not_mem '_' _ _ _ _ Nat.underscore_not_in_toDigits
    Nat.underscore_not_in_toDigits h
  exact ⟨toDigits_ten_injective h1, h2⟩

theorem toList_fileOf (i : Nat) (d : Dict) (w : Writer) (f : String) :
    (fileOf i d w f).toList =
      Nat.toDigits 10 i ++ '_' :: (f.toList ++ (suffixOf d w).toList ++ ['.', 'd', 'a', 't']) := by
  simp [fileOf, String.toList_append]


theorem last_ne (xs ys s t : List Char) (hs : s ≠ []) (ht : t ≠ [])
    (hne : s.getLast? ≠ t.getLast?) : xs ++ s ≠ ys ++ t := by
  intro h
  have := congrArg List.getLast? h
  rw [List.getLast?_append_of_ne_nil _ hs, List.getLast?_append_of_ne_nil _ ht] at this
  exact hne this

theorem axial_mix (a b : List Char)
    (h : a ++ [' ', '_', 'a', 'x', 'i', 'a', 'l'] = b ++ ['_', 'a', 'x', 'i', 'a', 'l']) :
    b = a ++ [' '] := by
  have h' : (a ++ [' ']) ++ ['_', 'a', 'x', 'i', 'a', 'l'] = b ++ ['_', 'a', 'x', 'i', 'a', 'l'] := by
    simpa using h
  exact (List.append_cancel_right h').symm

/-- **fileOf_injective (all cases).** Two fields with the same file name are in the same tube and
the same dictionary, and have the same name — except for one `axial_results` field written with
data and one written blank whose name is the first name plus a space. -/
theorem fileOf_eq (i i' : Nat) (d d' : Dict) (w w' : Writer) (f f' : String)
    (h : fileOf i d w f = fileOf i' d' w' f') :
    i = i' ∧ d = d' ∧ (f = f' ∨ (d = .axial ∧
      ((w = .data ∧ w' = .blank ∧ f' = f ++ " ") ∨ (w = .blank ∧ w' = .data ∧ f = f' ++ " ")))) := by
  have h0 := congrArg String.toList h
  rw [toList_fileOf, toList_fileOf] at h0
  obtain ⟨hi, h1⟩ := prefix_inj _ _ _ _ h0
  have h2 := List.append_cancel_right h1
  refine ⟨hi, ?_⟩
  cases d <;> cases w <;> cases d' <;> cases w' <;>
    simp only [suffixOf, suffix] at h2 <;>
    first
    | (refine ⟨rfl, Or.inl ?_⟩; exact String.toList_inj.1 (List.append_cancel_right h2))
    | (refine ⟨rfl, Or.inr ⟨rfl, Or.inl ⟨rfl, rfl, ?_⟩⟩⟩
       exact String.toList_inj.1 (by simpa using axial_mix _ _ (by simpa using h2)))
    | (refine ⟨rfl, Or.inr ⟨rfl, Or.inr ⟨rfl, rfl, ?_⟩⟩⟩
       exact String.toList_inj.1 (by simpa using axial_mix _ _ (by simpa using h2.symm)))
    | (exfalso; revert h2; apply last_ne <;> simp)

theorem pageFile_eq_fileOf (i : Nat) (d : Dict) (f : String) : pageFile i d f = fileOf i d .data f := by
  cases d <;> rfl

/-- **pageFile_injective.** For the data writers (`add_results`, `add_quadrature_results`,
`add_axial_results`; suffixes `"_node"`, `"_quad"`, `" _axial"`) the file name determines tube
number, dictionary and field name, for *all* field names and without any hypothesis: the three
suffixes end in different characters (`e`, `d`, `l`). -/
theorem pageFile_injective (i i' : Nat) (d d' : Dict) (f f' : String)
    (h : pageFile i d f = pageFile i' d' f') : i = i' ∧ d = d' ∧ f = f' := by
  rw [pageFile_eq_fileOf, pageFile_eq_fileOf] at h
  obtain ⟨h1, h2, h3⟩ := fileOf_eq _ _ _ _ _ _ _ _ h
  refine ⟨h1, h2, ?_⟩
  rcases h3 with h3 | ⟨_, ⟨_, hw, _⟩ | ⟨hw, _, _⟩⟩
  · exact h3
  · cases hw
  · cases hw

/-- the same writer on both sides (or a dictionary other than `axial_results`): injective for all
field names -/
theorem fileOf_injective_of_writer (i i' : Nat) (d d' : Dict) (w w' : Writer) (f f' : String)
    (hw : w = w' ∨ d ≠ .axial)
    (h : fileOf i d w f = fileOf i' d' w' f') : i = i' ∧ d = d' ∧ f = f' := by
  obtain ⟨h1, h2, h3⟩ := fileOf_eq _ _ _ _ _ _ _ _ h
  refine ⟨h1, h2, ?_⟩
  rcases h3 with h3 | ⟨hd, ⟨ha, hb, _⟩ | ⟨ha, hb, _⟩⟩
  · exact h3
  · rcases hw with hw | hw
    · subst ha hb; cases hw
    · exact absurd hd hw
  · rcases hw with hw | hw
    · subst ha hb; cases hw
    · exact absurd hd hw

/-- a field name that is not another name followed by a space -/
def NoTrailingSpace (f : String) : Prop := ∀ g : String, f ≠ g ++ " "

/-- **fileOf_injective.** Across both writers the file name determines (tube number, dictionary,
field name) as soon as no field name ends in a space. -/
theorem fileOf_injective (i i' : Nat) (d d' : Dict) (w w' : Writer) (f f' : String)
    (hf : NoTrailingSpace f) (hf' : NoTrailingSpace f')
    (h : fileOf i d w f = fileOf i' d' w' f') : i = i' ∧ d = d' ∧ f = f' := by
  obtain ⟨h1, h2, h3⟩ := fileOf_eq _ _ _ _ _ _ _ _ h
  refine ⟨h1, h2, ?_⟩
  rcases h3 with h3 | ⟨_, ⟨_, _, h4⟩ | ⟨_, _, h4⟩⟩
  · exact h3
  · exact absurd h4 (hf' f)
  · exact absurd h4 (hf f')

/-- **the hypothesis is needed.** `add_axial_results(f, …)` and `add_blank_axial_results(f + " ")`
open the same file, for every tube and every `f` (converse of the exceptional case of `fileOf_eq`) -/
theorem fileOf_collision (i : Nat) (f : String) :
    fileOf i .axial .data f = fileOf i .axial .blank (f ++ " ") := by
  apply String.ext
  rw [toList_fileOf, toList_fileOf]
  simp [suffixOf, suffix]

/-! ### all files of a receiver -/

/-- **allFiles_nodup.** For any panel sizes: if within every tube the (dictionary, name) pairs are
distinct (they are dictionary keys) and no blank-written axial field is a data-written axial field
of the same tube plus a space, then no two fields of the receiver share a paging file. -/
theorem allFiles_nodup (sizes : List Nat) (keys : Nat → Nat → List Key)
    (hk : ∀ p k, p < sizes.length → k < sizes.getD p 0 →
      ((keys p k).map (fun x => (x.1, x.2.2))).Nodup)
    (hs : ∀ p k f, p < sizes.length → k < sizes.getD p 0 →
      (Dict.axial, Writer.data, f) ∈ keys p k → (Dict.axial, Writer.blank, f ++ " ") ∉ keys p k) :
    (allFiles sizes keys).Nodup := by
  unfold allFiles
  rw [List.nodup_flatMap]
  constructor
  · rintro ⟨p, k⟩ hpk
    obtain ⟨hp, hkk⟩ := (mem_allTubes sizes p k).1 hpk
    have hnd := hk p k hp hkk
    unfold tubeFiles
    apply List.Nodup.map_on _ (List.Nodup.of_map _ hnd)
    rintro ⟨d, w, f⟩ hx ⟨d', w', f'⟩ hy hxy
    obtain ⟨-, hd, hf⟩ := fileOf_eq _ _ d d' w w' f f' hxy
    subst hd
    rcases hf with hf | ⟨hd, ⟨ha, hb, hc⟩ | ⟨ha, hb, hc⟩⟩
    · subst hf
      exact List.inj_on_of_nodup_map hnd hx hy rfl
    · subst hd ha hb hc
      exact absurd hy (hs p k f hp hkk hx)
    · subst hd ha hb hc
      exact absurd hx (hs p k f' hp hkk hy)
  · apply List.Pairwise.imp_of_mem _ (allTubes_nodup sizes)
    rintro ⟨p, k⟩ ⟨p', k'⟩ ha hb hne
    obtain ⟨hp, hkk⟩ := (mem_allTubes sizes p k).1 ha
    obtain ⟨hp', hkk'⟩ := (mem_allTubes sizes p' k').1 hb
    intro s hs1 hs2
    simp only [tubeFiles, List.mem_map] at hs1 hs2
    obtain ⟨x, -, rfl⟩ := hs1
    obtain ⟨y, -, hy⟩ := hs2
    obtain ⟨hi, -⟩ := fileOf_eq _ _ _ _ _ _ _ _ hy
    obtain ⟨rfl, rfl⟩ := tubeIndex_injective sizes p' k' p k hp' hkk' hp hkk hi
    exact hne rfl

/-! ### the two wrong numberings (seeded regressions `C08_a`, `X08_e`) are not injective -/

/-- numbering the tubes inside each panel: the first tubes of two panels share number 0 -/
theorem wrongPerPanel_collision :
    wrongPerPanel [1, 1] 0 0 = wrongPerPanel [1, 1] 1 0 ∧ tubeIndex [1, 1] 0 0 ≠ tubeIndex [1, 1] 1 0 := by
  decide

/-- `panel_index * panel.ntubes + position`: with panels of 2 and 1 tubes, tube 1 of panel 0 and
tube 0 of panel 1 share number 1 -/
theorem wrongPanelTimes_collision :
    wrongPanelTimes [2, 1] 0 1 = wrongPanelTimes [2, 1] 1 0 ∧
      tubeIndex [2, 1] 0 1 ≠ tubeIndex [2, 1] 1 0 := by
  decide

/-- … and even where it is injective it is not the position in `Receiver.tubes` (sizes `[1, 2]`:
numbers 0, 2, 3) -/
example : (allTubes [1, 2]).map (fun pk => wrongPanelTimes [1, 2] pk.1 pk.2) = [0, 2, 3] := by decide

end SrModel.PageNames
