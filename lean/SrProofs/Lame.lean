import SrModel.Lame
import Mathlib.Data.Real.Basic
import Mathlib.Analysis.Calculus.Deriv.Add
import Mathlib.Analysis.Calculus.Deriv.Mul
import Mathlib.Analysis.Calculus.Deriv.Inv
import Mathlib.Analysis.SpecialFunctions.Trigonometric.Basic
import Mathlib.Analysis.SpecialFunctions.Pow.Real
import Mathlib.Analysis.SpecialFunctions.Log.Basic
import Mathlib.Algebra.BigOperators.Ring.Finset
import Mathlib.Tactic.Ring
import Mathlib.Tactic.Linarith
import Mathlib.Tactic.FieldSimp
import Mathlib.Tactic.LinearCombination

/-! Lemmas about `SrModel.Lame` over `ℝ`: the closed form satisfies equilibrium, the boundary
conditions, Hooke's law and compatibility; the nodal pressure loads and their resultants. -/
namespace SrModel.Lame

noncomputable instance instTranscRealLame : Transc ℝ where
  sqrt := Real.sqrt
  exp := Real.exp
  log := Real.log
  pow := fun x y => x ^ y
  sin := Real.sin
  cos := Real.cos

@[simp] theorem transc_sin (x : ℝ) : Transc.sin x = Real.sin x := rfl
@[simp] theorem transc_cos (x : ℝ) : Transc.cos x = Real.cos x := rfl

variable (P : Prm ℝ)

/-! ### boundary conditions and equilibrium -/

theorem sr_inner (hw : P.ro * P.ro - P.ri * P.ri ≠ 0) (hri : P.ri ≠ 0) : P.sr P.ri = -P.p := by
  have hw' : P.ro ^ 2 - P.ri ^ 2 ≠ 0 := by rwa [pow_two, pow_two]
  unfold Prm.sr Prm.cA Prm.cB; field_simp; ring

theorem sr_outer (hw : P.ro * P.ro - P.ri * P.ri ≠ 0) (hro : P.ro ≠ 0) : P.sr P.ro = 0 := by
  have hw' : P.ro ^ 2 - P.ri ^ 2 ≠ 0 := by rwa [pow_two, pow_two]
  unfold Prm.sr Prm.cA Prm.cB; field_simp; ring

/-- `r σ_r' = σ_θ − σ_r` -/
theorem equilibrium_alg (r : ℝ) (hr : r ≠ 0) : r * P.dsr r = P.st r - P.sr r := by
  unfold Prm.dsr Prm.st Prm.sr; field_simp; ring

/-- `σ_r' + (σ_r − σ_θ)/r = 0` -/
theorem equilibrium (r : ℝ) (hr : r ≠ 0) : P.dsr r + (P.sr r - P.st r) / r = 0 := by
  unfold Prm.dsr Prm.st Prm.sr; field_simp; ring

theorem hasDerivAt_invsq (c r : ℝ) (hr : r ≠ 0) :
    HasDerivAt (fun x : ℝ => c / (x * x)) (-(2 * c / (r * r * r))) r := by
  have h2 : HasDerivAt (fun x : ℝ => x * x) (1 * r + r * 1) r := (hasDerivAt_id' r).mul (hasDerivAt_id' r)
  have h3 : HasDerivAt (fun x : ℝ => c / (x * x)) _ r := (hasDerivAt_const r c).div h2 (mul_ne_zero hr hr)
  exact h3.congr_deriv (by field_simp; ring)

/-- `dsr` is the derivative of `σ_r` -/
theorem sr_hasDerivAt (r : ℝ) (hr : r ≠ 0) : HasDerivAt P.sr (P.dsr r) r := by
  have h : HasDerivAt (fun x : ℝ => P.cA - P.cB / (x * x)) _ r :=
    (hasDerivAt_const r P.cA).sub (hasDerivAt_invsq P.cB r hr)
  exact h.congr_deriv (by unfold Prm.dsr; ring)

theorem st_hasDerivAt (r : ℝ) (hr : r ≠ 0) : HasDerivAt P.st (-(P.dsr r)) r := by
  have h : HasDerivAt (fun x : ℝ => P.cA + P.cB / (x * x)) _ r :=
    (hasDerivAt_const r P.cA).add (hasDerivAt_invsq P.cB r hr)
  exact h.congr_deriv (by unfold Prm.dsr; ring)

/-- differential equilibrium with the true derivative: `dσ_r/dr + (σ_r − σ_θ)/r = 0` -/
theorem equilibrium_deriv (r : ℝ) (hr : r ≠ 0) : deriv P.sr r + (P.sr r - P.st r) / r = 0 := by
  rw [(sr_hasDerivAt P r hr).deriv]; exact equilibrium P r hr

/-! ### axial stress, Hooke's law, compatibility -/

theorem sr_add_st (r : ℝ) : P.sr r + P.st r = 2 * P.cA := by
  unfold Prm.sr Prm.st; ring

/-- the axial stress does not depend on `r` -/
theorem sz_uniform (r : ℝ) : P.sz r = P.szbar := by
  unfold Prm.sz Prm.szbar; rw [sr_add_st]; ring

/-- Hooke's law in the axial direction returns the imposed axial strain -/
theorem hooke_z (r : ℝ) (hE : P.E ≠ 0) :
    (P.sz r - P.nu * (P.sr r + P.st r)) / P.E + P.al * P.dT = P.ez := by
  unfold Prm.sz; field_simp; ring

/-- `ε_θ = u/r` -/
theorem et_eq_u_div (r : ℝ) (hr : r ≠ 0) : P.et r = P.u r / r := by
  unfold Prm.u; field_simp

/-- compatibility: `ε_r = du/dr` for `u = r ε_θ` -/
theorem u_hasDerivAt (r : ℝ) (hr : r ≠ 0) (hE : P.E ≠ 0) : HasDerivAt P.u (P.er r) r := by
  have hsr := sr_hasDerivAt P r hr
  have hst := st_hasDerivAt P r hr
  have hsz : HasDerivAt P.sz 0 r := by
    have : P.sz = fun _ => P.szbar := funext (sz_uniform P)
    rw [this]; exact hasDerivAt_const r _
  have het : HasDerivAt (fun x : ℝ => (P.st x - P.nu * (P.sr x + P.sz x)) / P.E + P.al * P.dT)
      ((-(P.dsr r) - P.nu * (P.dsr r + 0)) / P.E) r :=
    (((hst.sub ((hsr.add hsz).const_mul P.nu)).div_const P.E).add_const (P.al * P.dT))
  have hu : HasDerivAt (fun x : ℝ => x * ((P.st x - P.nu * (P.sr x + P.sz x)) / P.E + P.al * P.dT)) _ r :=
    (hasDerivAt_id' r).mul het
  refine hu.congr_deriv ?_
  have e := equilibrium_alg P r hr
  unfold Prm.er
  field_simp
  linear_combination (-(1 + P.nu)) * e

/-! ### axial force -/

theorem force_closed (pi : ℝ) (hw : P.ro * P.ro - P.ri * P.ri ≠ 0) :
    P.force pi = pi * (P.ro * P.ro - P.ri * P.ri) * (P.E * (P.ez - P.al * P.dT))
      + 2 * P.nu * pi * P.p * (P.ri * P.ri) := by
  have hw' : P.ro ^ 2 - P.ri ^ 2 ≠ 0 := by rwa [pow_two, pow_two]
  unfold Prm.force Prm.area Prm.szbar Prm.cA; field_simp

/-- `G(r) = π r² σ̄_z` is an antiderivative of `2πr σ_z(r)` and `F = G(r_o) − G(r_i)` -/
theorem force_is_integral (pi : ℝ) :
    (∀ r, HasDerivAt (fun x => pi * (x * x) * P.szbar) (2 * pi * r * P.sz r) r) ∧
    P.force pi = pi * (P.ro * P.ro) * P.szbar - pi * (P.ri * P.ri) * P.szbar := by
  constructor
  · intro r
    have h2 : HasDerivAt (fun x : ℝ => x * x) (1 * r + r * 1) r := (hasDerivAt_id' r).mul (hasDerivAt_id' r)
    have h3 : HasDerivAt (fun x : ℝ => pi * (x * x) * P.szbar) _ r := (h2.const_mul pi).mul_const P.szbar
    exact h3.congr_deriv (by rw [sz_uniform]; ring)
  · unfold Prm.force Prm.area; ring

/-- the stiffness is the derivative of the force with respect to the top displacement `d = ε_z h` -/
theorem stiffness_is_dforce (pi h d : ℝ) :
    HasDerivAt (fun x => ({ P with ez := x / h } : Prm ℝ).force pi) (P.stiffness pi h) d := by
  have h1 : HasDerivAt (fun x : ℝ => x / h) (1 / h) d := (hasDerivAt_id' d).div_const h
  have h2 : HasDerivAt (fun x : ℝ => P.area pi * (P.E * (x / h - P.al * P.dT) + 2 * P.nu * P.cA)) _ d :=
    (((h1.sub_const (P.al * P.dT)).const_mul P.E).add_const (2 * P.nu * P.cA)).const_mul (P.area pi)
  exact h2.congr_deriv (by unfold Prm.stiffness; ring)

/-! ### nodal pressure loads -/

theorem load1_spec (nr : Nat) (p : ℝ) (i : Nat) (hi : i < nr) :
    (load1 nr p)[i]? = some (if i = 0 then p else 0) := by
  simp [load1, hi]

/-- the vertex loads of a facet add up to `−p·area·n` -/
theorem facetLoad_resultant (p nx ny nz a m : ℝ) (hm : m ≠ 0) :
    m * (facetLoad p nx ny nz a m).1 = -(p * a) * nx ∧
    m * (facetLoad p nx ny nz a m).2.1 = -(p * a) * ny ∧
    m * (facetLoad p nx ny nz a m).2.2 = -(p * a) * nz := by
  unfold facetLoad
  refine ⟨?_, ?_, ?_⟩ <;> simp only <;> field_simp

/-- end points of the chord with mid-angle `a`: `P(a+δ) − P(a−δ) = 2 r sin δ · (−sin a, cos a)` -/
theorem chord_vector (r a δ : ℝ) :
    r * Real.cos (a + δ) - r * Real.cos (a - δ) = chord r δ * (-Real.sin a) ∧
    r * Real.sin (a + δ) - r * Real.sin (a - δ) = chord r δ * Real.cos a := by
  simp only [chord, transc_sin, Real.cos_add, Real.cos_sub, Real.sin_add, Real.sin_sub]
  constructor <;> ring

/-- the facet normal is a unit vector, orthogonal to the chord, horizontal, and points from the
chord midpoint towards the axis (out of the solid) -/
theorem innerNormal_spec (r a δ : ℝ) :
    (innerNormal a).1 ^ 2 + (innerNormal a).2.1 ^ 2 = 1 ∧ (innerNormal a).2.2 = 0 ∧
    (innerNormal a).1 * (r * Real.cos (a + δ) - r * Real.cos (a - δ))
      + (innerNormal a).2.1 * (r * Real.sin (a + δ) - r * Real.sin (a - δ)) = 0 ∧
    (innerNormal a).1 * ((r * Real.cos (a + δ) + r * Real.cos (a - δ)) / 2)
      + (innerNormal a).2.1 * ((r * Real.sin (a + δ) + r * Real.sin (a - δ)) / 2) = -(r * Real.cos δ) := by
  have h1 := Real.cos_sq_add_sin_sq a
  simp only [innerNormal, transc_sin, transc_cos, Real.cos_add, Real.cos_sub, Real.sin_add, Real.sin_sub]
  refine ⟨by linear_combination h1, trivial, by ring, by linear_combination (-(r * Real.cos δ)) * h1⟩

theorem nodeLoad_eq_closed (p ri δ θ w : ℝ) : nodeLoad p ri δ θ w = nodeLoadClosed p ri δ θ w := by
  simp only [nodeLoad, nodeLoadClosed, facetLoad, innerNormal, transc_sin, transc_cos, Real.cos_add, Real.cos_sub,
    Real.sin_add, Real.sin_sub, Prod.mk.injEq]
  refine ⟨by ring, by ring, by ring⟩

/-- radial and tangential projections of the node load -/
theorem nodeLoad_radial (p ri δ θ w : ℝ) :
    (nodeLoad p ri δ θ w).1 * Real.cos θ + (nodeLoad p ri δ θ w).2.1 * Real.sin θ
      = p * (chord ri δ * w) * Real.cos δ ∧
    (nodeLoad p ri δ θ w).1 * (-Real.sin θ) + (nodeLoad p ri δ θ w).2.1 * Real.cos θ = 0 ∧
    (nodeLoad p ri δ θ w).2.2 = 0 := by
  have h1 := Real.cos_sq_add_sin_sq θ
  rw [nodeLoad_eq_closed]
  simp only [nodeLoadClosed, transc_sin, transc_cos]
  refine ⟨by linear_combination (p * (chord ri δ * w) * Real.cos δ) * h1, by ring, trivial⟩

end SrModel.Lame
