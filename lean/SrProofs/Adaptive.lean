import SrModel.Adaptive
import Mathlib.Tactic.Ring
import Mathlib.Tactic.Linarith

/-! Helper lemmas for C10: the loop invariant of `SrModel.Adaptive.loop`. -/
namespace SrModel.Adaptive

/-- accepted attempts chain from `a` to `b`: each converged, starts where the
previous one ended, and has positive length -/
def Chain : List Attempt → Nat → Nat → Prop
  | [], a, b => a = b
  | x :: xs, a, b => x.ok = true ∧ x.frm = a ∧ x.frm < x.to_ ∧ Chain xs x.to_ b

theorem chain_snoc (xs : List Attempt) (a b : Nat) (x : Attempt)
    (h : Chain xs a b) (hok : x.ok = true) (hf : x.frm = b) (hlt : x.frm < x.to_) :
    Chain (xs ++ [x]) a x.to_ := by
  induction xs generalizing a with
  | nil => simp [Chain] at h ⊢; subst h; exact ⟨hok, hf, hlt⟩
  | cons y ys ih =>
    simp only [Chain, List.cons_append] at h ⊢
    exact ⟨h.1, h.2.1, h.2.2.1, ih _ h.2.2.2⟩

theorem accepted_snoc_ok (tr : List Attempt) (a : Attempt) (h : a.ok = true) :
    accepted (tr ++ [a]) = accepted tr ++ [a] := by simp [accepted, h]
theorem accepted_snoc_fail (tr : List Attempt) (a : Attempt) (h : a.ok = false) :
    accepted (tr ++ [a]) = accepted tr := by simp [accepted, h]

theorem failures_snoc_ok (tr : List Attempt) (a : Attempt) (h : a.ok = true) :
    failures (tr ++ [a]) = failures tr := by simp [failures, h]
theorem failures_snoc_fail (tr : List Attempt) (a : Attempt) (h : a.ok = false) :
    failures (tr ++ [a]) = failures tr + 1 := by simp [failures, h]

theorem endOf_snoc (p : Nat) (tr : List Attempt) (a : Attempt) :
    endOf p (tr ++ [a]) = if a.ok then a.to_ else endOf p tr := by
  induction tr generalizing p with
  | nil => simp [endOf]
  | cons y ys ih => simp [endOf, ih]

theorem startsFrom_snoc (p : Nat) (tr : List Attempt) (a : Attempt) :
    startsFrom p (tr ++ [a]) = (startsFrom p tr && a.frm == endOf p tr) := by
  induction tr generalizing p with
  | nil => simp [startsFrom, endOf]
  | cons y ys ih => simp [startsFrom, endOf, ih, Bool.and_assoc]

/-- what is known about a trace when the loop returns normally -/
structure Post (md m0 : Nat) (tr : List Attempt) : Prop where
  chain    : Chain (accepted tr) 0 (2^md)
  starts   : startsFrom 0 tr = true
  budget   : failures tr + m0 < md
  lastOk   : ∃ a, tr.getLast? = some a ∧ a.ok = true ∧ a.to_ = 2^md

/-- loop invariant; `m0` is the initial subdivision count (0 adaptive, `md-1` forced) -/
structure Inv (md m0 : Nat) (s : St) : Prop where
  mdiv_lt : s.mdiv < md
  inc_pos : 0 < s.inc
  mult    : ∃ k m : Nat, s.cprog = k * s.inc ∧ 2^md = m * s.inc ∧ k ≤ m
  last_eq : s.last = s.cprog
  chain   : Chain (accepted s.trace) 0 s.cprog
  starts  : startsFrom 0 s.trace = true
  endp    : endOf 0 s.trace = s.cprog
  pow     : s.mdiv + 1 < md → 2^md = 2^s.mdiv * s.inc
  fails   : failures s.trace + m0 = s.mdiv
  lastOk  : s.cprog < 2^md ∨ ∃ a, s.trace.getLast? = some a ∧ a.ok = true ∧ a.to_ = 2^md

theorem init_inv (md : Nat) (h : 0 < md) (forced : Bool) :
    Inv md (if forced then md - 1 else 0) (init md forced) := by
  have hp : 0 < 2^md := Nat.pow_pos (by decide)
  cases forced with
  | true =>
    refine ⟨by simp [init]; omega, by simp [init], ⟨0, 2^md, by simp [init], by simp [init], by omega⟩,
      rfl, by simp [init, accepted, Chain], by simp [init, startsFrom], by simp [init, endOf],
      ?_, by simp [init, failures], Or.inl (by simpa [init] using hp)⟩
    simp only [init, if_true]; intro hlt; omega
  | false =>
    refine ⟨by simpa [init] using h, by simpa [init] using hp, ⟨0, 1, by simp [init], by simp [init], by omega⟩,
      rfl, by simp [init, accepted, Chain], by simp [init, startsFrom], by simp [init, endOf],
      by simp [init], by simp [init, failures], Or.inl (by simpa [init] using hp)⟩

theorem inv_success (md m0 : Nat) (s : St) (okb : Bool) (hok : okb = true)
    (hinv : Inv md m0 s) (hlt : s.cprog < 2^md) :
    Inv md m0 { s with cprog := s.cprog + s.inc, last := s.cprog + s.inc,
                       trace := s.trace ++ [⟨s.last, s.cprog + s.inc, okb⟩] } := by
  obtain ⟨hmd, hinc, ⟨k, m, hk, hm, hkm⟩, hlast, hchain, hst, hend, hpow, hf, _⟩ := hinv
  have hk1 : k < m := by
    rcases Nat.lt_or_ge k m with h1 | h1
    · exact h1
    · have : k = m := Nat.le_antisymm hkm h1
      subst this; rw [hk, hm] at hlt; exact absurd hlt (Nat.lt_irrefl _)
  have hle : s.cprog + s.inc ≤ 2^md := by
    have : (k+1) * s.inc ≤ m * s.inc := Nat.mul_le_mul_right _ hk1
    rw [Nat.succ_mul] at this; omega
  refine ⟨hmd, hinc, ⟨k+1, m, ?_, hm, hk1⟩, rfl, ?_, ?_, ?_, hpow, ?_, ?_⟩
  · simp [hk, Nat.succ_mul]
  · simp only
    rw [accepted_snoc_ok _ _ (by simpa using hok)]
    have := chain_snoc (accepted s.trace) 0 s.cprog ⟨s.last, s.cprog + s.inc, okb⟩ hchain
      (by simpa using hok) (by simpa using hlast) (by simp [hlast]; omega)
    simpa using this
  · simp only; rw [startsFrom_snoc, hst, hend]; simp [hlast]
  · simp only; rw [endOf_snoc]; simp [hok]
  · simp only; rw [failures_snoc_ok _ _ (by simpa using hok)]; exact hf
  · simp only
    rcases Nat.lt_or_ge (s.cprog + s.inc) (2^md) with h | h
    · exact Or.inl h
    · exact Or.inr ⟨⟨s.last, s.cprog + s.inc, okb⟩, by simp, by simpa using hok, by simp; omega⟩

theorem inv_halve (md m0 : Nat) (s : St) (okb : Bool) (hok : okb = false)
    (hinv : Inv md m0 s) (hlt : s.cprog < 2^md) (hmd' : s.mdiv + 1 < md) :
    Inv md m0 { s with inc := s.inc / 2, mdiv := s.mdiv + 1,
                       trace := s.trace ++ [⟨s.last, s.cprog + s.inc, okb⟩] } := by
  obtain ⟨_, _, ⟨k, m, hk, hm, hkm⟩, hlast, hchain, hst, hend, hpow, hf, _⟩ := hinv
  have hpow := hpow hmd'
  have hpow2 : 2^md = 2^(s.mdiv+1) * 2^(md - (s.mdiv+1)) := by
    rw [← Nat.pow_add]; congr 1; omega
  have hinc_eq : s.inc = 2 * 2^(md - (s.mdiv+1)) := by
    have h2 : 2^s.mdiv * s.inc = 2^s.mdiv * (2 * 2^(md - (s.mdiv+1))) := by
      rw [← hpow, hpow2, pow_succ]; ring
    exact Nat.eq_of_mul_eq_mul_left (Nat.pow_pos (by decide)) h2
  have hhalf : s.inc / 2 = 2^(md - (s.mdiv+1)) := by rw [hinc_eq]; simp
  refine ⟨hmd', ?_, ⟨2*k, 2*m, ?_, ?_, by omega⟩, hlast, ?_, ?_, ?_, ?_, ?_, Or.inl hlt⟩
  · simp only; rw [hhalf]; exact Nat.pow_pos (by decide)
  · simp only; rw [hhalf, hk, hinc_eq]; ring
  · simp only; rw [hhalf, hm, hinc_eq]; ring
  · simp only; rw [accepted_snoc_fail _ _ (by simpa using hok)]; exact hchain
  · simp only; rw [startsFrom_snoc, hst, hend]; simp [hlast]
  · simp only; rw [endOf_snoc]; simp [hok, hend]
  · intro _; simp only; rw [hhalf]; exact hpow2
  · simp only; rw [failures_snoc_fail _ _ (by simpa using hok)]; omega

theorem loop_ok (md m0 : Nat) (o : Nat → Bool) (fuel : Nat) (s : St) (tr : List Attempt)
    (hinv : Inv md m0 s) (h : loop md o fuel s = .ok tr) : Post md m0 tr := by
  induction fuel generalizing s with
  | zero => simp [loop] at h
  | succ n ih =>
    unfold loop at h
    split at h
    next hlt =>
      simp only at h
      split at h
      next hok => exact ih _ (inv_success md m0 s _ hok hinv hlt) h
      next hfail =>
        split at h
        next => simp at h
        next hlt2 =>
          exact ih _ (inv_halve md m0 s _ (by simpa using hfail) hinv hlt (by omega)) h
    next hge =>
      injection h with h; subst h
      obtain ⟨hmd, _, ⟨k, m, hk, hm, hkm⟩, _, hchain, hst, _, _, hf, hl⟩ := hinv
      have hc : s.cprog = 2^md := by
        have : k * s.inc ≤ m * s.inc := Nat.mul_le_mul_right _ hkm
        omega
      refine ⟨hc ▸ hchain, hst, by omega, ?_⟩
      rcases hl with hl | hl
      · exact absurd hl hge
      · exact hl

/-- a raise happens only when the subdivision budget is used up, and the last
attempt of a raising run failed -/
theorem loop_fail (md m0 : Nat) (o : Nat → Bool) (fuel : Nat) (s : St) (tr : List Attempt)
    (hinv : Inv md m0 s) (h : loop md o fuel s = .fail tr) :
    failures tr + m0 = md ∧ ∃ a, tr.getLast? = some a ∧ a.ok = false := by
  induction fuel generalizing s with
  | zero => simp [loop] at h
  | succ n ih =>
    unfold loop at h
    split at h
    next hlt =>
      simp only at h
      split at h
      next hok => exact ih _ (inv_success md m0 s _ hok hinv hlt) h
      next hfail =>
        split at h
        next hge =>
          injection h with h; subst h
          have hf := hinv.fails
          have hm := hinv.mdiv_lt
          refine ⟨?_, ⟨s.last, s.cprog + s.inc, o s.trace.length⟩, by simp, by simpa using hfail⟩
          rw [failures_snoc_fail _ _ (by simpa using hfail)]; omega
        next hlt2 =>
          exact ih _ (inv_halve md m0 s _ (by simpa using hfail) hinv hlt (by omega)) h
    next hge => simp at h

/-- termination: the potential `(2^md - cprog) + (md - mdiv)` bounds the number of iterations -/
theorem loop_fuel (md m0 : Nat) (o : Nat → Bool) (fuel : Nat) (s : St)
    (hinv : Inv md m0 s) (hf : (2^md - s.cprog) + (md - s.mdiv) < fuel) :
    loop md o fuel s ≠ .nofuel := by
  induction fuel generalizing s with
  | zero => omega
  | succ n ih =>
    unfold loop
    split
    next hlt =>
      simp only
      split
      next hok =>
        apply ih _ (inv_success md m0 s _ hok hinv hlt)
        have := hinv.inc_pos
        simp only; omega
      next hfail =>
        split
        next => simp
        next hlt2 =>
          apply ih _ (inv_halve md m0 s _ (by simpa using hfail) hinv hlt (by omega))
          simp only; omega
    next => simp

end SrModel.Adaptive

namespace SrModel.Adaptive

def Res.trace : Res → List Attempt
  | .ok tr => tr
  | .fail tr => tr
  | .nofuel => []

/-- forced mode never changes the increment: every attempt is one unit long -/
theorem loop_forced_units (md : Nat) (o : Nat → Bool) (fuel : Nat) (s : St)
    (hinc : s.inc = 1) (hm : s.mdiv + 1 ≥ md) (hl : s.last = s.cprog)
    (hu : ∀ a ∈ s.trace, a.to_ = a.frm + 1) :
    ∀ a ∈ (loop md o fuel s).trace, a.to_ = a.frm + 1 := by
  induction fuel generalizing s with
  | zero => simp [loop, Res.trace]
  | succ n ih =>
    have hsnoc : ∀ b : Bool, ∀ a ∈ s.trace ++ [⟨s.last, s.cprog + s.inc, b⟩], a.to_ = a.frm + 1 := by
      intro b a ha
      simp only [List.mem_append, List.mem_singleton] at ha
      rcases ha with ha | ha
      · exact hu a ha
      · subst ha; simp [hl, hinc]
    unfold loop
    by_cases hlt : s.cprog < 2^md
    · simp only [hlt, if_true]
      by_cases hok : o s.trace.length = true
      · simp only [hok, if_true]
        exact ih ⟨s.cprog + s.inc, s.inc, s.mdiv, s.cprog + s.inc, s.trace ++ [⟨s.last, s.cprog + s.inc, true⟩]⟩
          hinc hm rfl (hsnoc _)
      · simp only [hok, if_pos hm]
        exact hsnoc _
    · simp only [hlt, if_false]; exact hu

end SrModel.Adaptive
