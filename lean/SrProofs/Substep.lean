import SrModel.Substep
import Mathlib.Algebra.Order.Field.Basic
import Mathlib.Tactic.Ring
import Mathlib.Tactic.Linarith
import Mathlib.Tactic.FieldSimp
import Mathlib.Tactic.Positivity
import Mathlib.Tactic.LinearCombination

/-! Helper lemmas about `SrModel.Substep` over a linearly ordered field. -/
namespace SrModel.Substep
variable {F : Type} [Field F] [LinearOrder F] [IsStrictOrderedRing F]

theorem beta_pos {E : F} (hE : 0 < E) {i : Inc F} (hc : 0 ≤ i.c) : 0 < beta E i := by
  unfold beta
  have : 0 < 1 + E * i.c := by nlinarith [mul_nonneg hE.le hc]
  positivity

/-- `γ = c·E·β = E c / (1 + E c)` lies in `[0, 1)` -/
theorem gamma_bounds {E : F} (hE : 0 < E) {i : Inc F} (hc : 0 ≤ i.c) :
    0 ≤ i.c * (E * beta E i) ∧ i.c * (E * beta E i) < 1 := by
  have hp : 0 < 1 + E * i.c := by nlinarith [mul_nonneg hE.le hc]
  have : i.c * (E * beta E i) = E * i.c / (1 + E * i.c) := by
    unfold beta; field_simp
  rw [this]
  constructor
  · exact div_nonneg (mul_nonneg hE.le hc) hp.le
  · rw [div_lt_one hp]; linarith

theorem gamma_pos {E : F} (hE : 0 < E) {i : Inc F} (hc : 0 < i.c) : 0 < i.c * (E * beta E i) :=
  mul_pos hc (mul_pos hE (beta_pos hE hc.le))

/-- generalised fold: start sensitivity `w0` -/
def sensFrom (E : F) (w0 : F) (incs : List (Inc F)) : F := incs.foldl (sensStep E) w0

omit [LinearOrder F] [IsStrictOrderedRing F] in
theorem sens_eq_sensFrom (E : F) (incs : List (Inc F)) : sens E incs = sensFrom E 0 incs := rfl

/-- two runs with different imposed strains: the viscous strains differ by `sens · Δε`, and so
does the state carried into the next sub-increment -/
theorem run_v_diff (E e1 e2 : F) (incs : List (Inc F)) (s1 s2 : St F) (w0 : F)
    (h0 : s1.v - s2.v = w0 * (e1 - e2)) :
    (run E e1 s1 incs).v - (run E e2 s2 incs).v = sensFrom E w0 incs * (e1 - e2) := by
  induction incs generalizing s1 s2 w0 with
  | nil => simpa [run, sensFrom] using h0
  | cons i is ih =>
    simp only [run, sensFrom, List.foldl_cons]
    apply ih
    simp only [incr, sensStep]
    linear_combination (1 - i.c * (E * beta E i)) * h0

theorem sensFrom_bounds {E : F} (hE : 0 < E) (incs : List (Inc F)) (w0 b : F)
    (hc : ∀ i ∈ incs, 0 ≤ i.c) (hf : ∀ i ∈ incs, 0 ≤ i.f ∧ i.f ≤ b) (hw : 0 ≤ w0 ∧ w0 ≤ b) :
    0 ≤ sensFrom E w0 incs ∧ sensFrom E w0 incs ≤ b := by
  induction incs generalizing w0 with
  | nil => simpa [sensFrom] using hw
  | cons i is ih =>
    simp only [sensFrom, List.foldl_cons]
    apply ih _ (fun j hj => hc j (List.mem_cons_of_mem _ hj)) (fun j hj => hf j (List.mem_cons_of_mem _ hj))
    have hg := gamma_bounds hE (hc i List.mem_cons_self)
    have hfi := hf i List.mem_cons_self
    simp only [sensStep]
    constructor
    · nlinarith [mul_nonneg (sub_nonneg.2 hg.2.le) hw.1, mul_nonneg hg.1 hfi.1]
    · nlinarith [mul_nonneg (sub_nonneg.2 hg.2.le) (sub_nonneg.2 hw.2), mul_nonneg hg.1 (sub_nonneg.2 hfi.2)]

theorem sensFrom_pos {E : F} (hE : 0 < E) (incs : List (Inc F)) (w0 : F)
    (hc : ∀ i ∈ incs, 0 ≤ i.c) (hf : ∀ i ∈ incs, 0 ≤ i.f) (hw : 0 < w0) :
    0 < sensFrom E w0 incs := by
  induction incs generalizing w0 with
  | nil => simpa [sensFrom] using hw
  | cons i is ih =>
    simp only [sensFrom, List.foldl_cons]
    apply ih _ (fun j hj => hc j (List.mem_cons_of_mem _ hj)) (fun j hj => hf j (List.mem_cons_of_mem _ hj))
    have hg := gamma_bounds hE (hc i List.mem_cons_self)
    simp only [sensStep]
    nlinarith [mul_pos (sub_pos.2 hg.2) hw, mul_nonneg hg.1 (hf i List.mem_cons_self)]

omit [LinearOrder F] [IsStrictOrderedRing F] in
theorem sensFrom_elastic (E : F) (incs : List (Inc F)) (hc : ∀ i ∈ incs, i.c = 0) :
    sensFrom E 0 incs = 0 := by
  induction incs with
  | nil => rfl
  | cons i is ih =>
    simp only [sensFrom, List.foldl_cons]
    have : sensStep E 0 i = 0 := by simp [sensStep, hc i List.mem_cons_self]
    rw [this]; exact ih (fun j hj => hc j (List.mem_cons_of_mem _ hj))

end SrModel.Substep

namespace SrModel.Substep
variable {F : Type} [Field F] [LinearOrder F] [IsStrictOrderedRing F]

omit [LinearOrder F] [IsStrictOrderedRing F] in
theorem run_append_last (E e : F) (s0 : St F) (incs : List (Inc F)) (last : Inc F) :
    run E e s0 (incs ++ [last]) = incr E e (run E e s0 incs) last := by
  simp [run, List.foldl_append]

/-- the first accepted sub-increment already creeps (`c > 0`) and imposes part of the displacement
(`f > 0`): the carried state depends on the imposed displacement of the step -/
theorem sens_pos {E : F} (hE : 0 < E) (i : Inc F) (is : List (Inc F)) (hci : 0 < i.c) (hfi : 0 < i.f)
    (hc : ∀ j ∈ is, 0 ≤ j.c) (hf : ∀ j ∈ is, 0 ≤ j.f) : 0 < sens E (i :: is) := by
  have : sens E (i :: is) = sensFrom E (sensStep E 0 i) is := rfl
  rw [this]
  apply sensFrom_pos hE is _ hc hf
  simp only [sensStep]
  have := mul_pos (gamma_pos hE hci) hfi
  linarith

theorem sens_le {E : F} (hE : 0 < E) (incs : List (Inc F)) (b : F) (hb : 0 ≤ b)
    (hc : ∀ i ∈ incs, 0 ≤ i.c) (hf : ∀ i ∈ incs, 0 ≤ i.f ∧ i.f ≤ b) : 0 ≤ sens E incs ∧ sens E incs ≤ b :=
  sensFrom_bounds hE incs 0 b hc hf ⟨le_refl _, hb⟩

end SrModel.Substep
