import SrModel.Damage
import Mathlib.Tactic.Ring
import Mathlib.Tactic.Linarith
import Mathlib.Tactic.FieldSimp
import Mathlib.Tactic.Positivity
import Mathlib.Tactic.NormNum
import Mathlib.Algebra.Order.Field.Basic
import Mathlib.Algebra.Order.Floor.Semiring
import Mathlib.Algebra.BigOperators.Group.Finset.Basic
import Mathlib.Algebra.BigOperators.Fin
import Mathlib.LinearAlgebra.Matrix.Trace
import Mathlib.LinearAlgebra.Matrix.Notation
import Mathlib.LinearAlgebra.Matrix.Symmetric

/-! Helper lemmas for C01 / C09: envelope, crossing, extrapolation, minimum over points,
time-fraction sum, strain range, rotation invariance. -/
namespace SrModel.Damage

section envelope
variable {K : Type} [Field K] [LinearOrder K] [IsStrictOrderedRing K]

omit [IsStrictOrderedRing K] in
theorem insideEnv_iff (x2 y2 f c : K) :
    insideEnv x2 y2 f c = true ↔
      (if f < x2 then c ≤ (y2 - 1) / x2 * f + 1 else c ≤ (0 - y2) / (1 - x2) * (f - x2) + y2) := by
  unfold insideEnv
  split_ifs <;> simp

/-- first segment in product form -/
theorem inside_lo {x2 y2 f c : K} (hx : 0 < x2) (h : f < x2) :
    insideEnv x2 y2 f c = true ↔ x2 * c + (1 - y2) * f ≤ x2 := by
  rw [insideEnv_iff, if_pos h]
  have : (y2 - 1) / x2 * f + 1 = (x2 - (1 - y2) * f) / x2 := by field_simp; ring
  rw [this, le_div_iff₀ hx]
  constructor <;> intro h' <;> linarith

/-- second segment in product form -/
theorem inside_hi {x2 y2 f c : K} (hx : x2 < 1) (h : ¬ f < x2) :
    insideEnv x2 y2 f c = true ↔ (1 - x2) * c + y2 * f ≤ y2 := by
  rw [insideEnv_iff, if_neg h]
  have h1 : 0 < 1 - x2 := by linarith
  have : (0 - y2) / (1 - x2) * (f - x2) + y2 = (y2 - y2 * f) / (1 - x2) := by field_simp; ring
  rw [this, le_div_iff₀ h1]
  constructor <;> intro h' <;> linarith

theorem inside_antitone' {x2 y2 f c f' c' : K} (hx0 : 0 < x2) (hx1 : x2 < 1) (hy0 : 0 < y2) (hy1 : y2 < 1)
    (hff : f ≤ f') (hcc : c ≤ c')
    (h : insideEnv x2 y2 f' c' = true) : insideEnv x2 y2 f c = true := by
  by_cases h1 : f' < x2
  · have hlt : f < x2 := lt_of_le_of_lt hff h1
    rw [inside_lo hx0 h1] at h
    rw [inside_lo hx0 hlt]
    nlinarith
  · rw [inside_hi hx1 h1] at h
    by_cases h2 : f < x2
    · rw [inside_lo hx0 h2]
      have hx2 : x2 ≤ f' := not_lt.mp h1
      have hc' : c' ≤ y2 := by
        by_contra hcon
        have hcon' : y2 < c' := not_le.mp hcon
        nlinarith
      nlinarith
    · rw [inside_hi hx1 h2]
      nlinarith

theorem inside_zero {x2 y2 : K} (hx0 : 0 < x2) : insideEnv x2 y2 0 0 = true := by
  rw [inside_lo hx0 hx0]; simp; exact hx0.le

theorem crossing_spec' {x2 y2 f c N : K} (hx0 : 0 < x2) (hx1 : x2 < 1) (hy0 : 0 < y2) (hy1 : y2 < 1)
    (hf : 0 ≤ f) (hc : 0 ≤ c) (hfc : f ≠ 0 ∨ c ≠ 0) (hN : 0 ≤ N) :
    insideEnv x2 y2 (N * f) (N * c) = true ↔ N ≤ Ncross x2 y2 f c := by
  have hpos : 0 < f ∨ 0 < c := by
    rcases hfc with h | h
    · exact Or.inl (lt_of_le_of_ne hf (Ne.symm h))
    · exact Or.inr (lt_of_le_of_ne hc (Ne.symm h))
  have hd1 : 0 < x2 * c + (1 - y2) * f := by
    rcases hpos with h | h
    · have : 0 < (1 - y2) * f := mul_pos (by linarith) h
      have : 0 ≤ x2 * c := mul_nonneg hx0.le hc
      linarith
    · have : 0 < x2 * c := mul_pos hx0 h
      have : 0 ≤ (1 - y2) * f := mul_nonneg (by linarith) hf
      linarith
  have hd2 : 0 < (1 - x2) * c + y2 * f := by
    rcases hpos with h | h
    · have : 0 < y2 * f := mul_pos hy0 h
      have : 0 ≤ (1 - x2) * c := mul_nonneg (by linarith) hc
      linarith
    · have : 0 < (1 - x2) * c := mul_pos (by linarith) h
      have : 0 ≤ y2 * f := mul_nonneg hy0.le hf
      linarith
  unfold Ncross
  by_cases hA : y2 * f < x2 * c
  · rw [if_pos hA]
    by_cases hB : N * f < x2
    · rw [inside_lo hx0 hB, le_div_iff₀ hd1]
      constructor <;> intro h <;> nlinarith
    · have hB' : x2 ≤ N * f := not_lt.mp hB
      rw [inside_hi hx1 hB, le_div_iff₀ hd1]
      have hNpos : 0 < N := by
        rcases hN.lt_or_eq with h | h
        · exact h
        · exfalso; rw [← h] at hB'; simp at hB'; linarith
      have hNA : N * (y2 * f) < N * (x2 * c) := mul_lt_mul_of_pos_left hA hNpos
      constructor
      · intro h
        exfalso
        -- N x2 c > y2 N f ≥ y2 x2
        have h1 : y2 * x2 ≤ y2 * (N * f) := mul_le_mul_of_nonneg_left hB' hy0.le
        have h2 : x2 * y2 < x2 * (N * c) := by nlinarith
        have h3 : y2 < N * c := lt_of_mul_lt_mul_left h2 hx0.le
        nlinarith
      · intro h
        exfalso
        nlinarith
  · rw [if_neg hA]
    have hA' : x2 * c ≤ y2 * f := not_lt.mp hA
    have hNA : N * (x2 * c) ≤ N * (y2 * f) := mul_le_mul_of_nonneg_left hA' hN
    by_cases hB : N * f < x2
    · rw [inside_lo hx0 hB, le_div_iff₀ hd2]
      constructor
      · intro _
        have h1 : x2 * (N * ((1 - x2) * c + y2 * f)) ≤ y2 * (N * f) := by nlinarith
        have h2 : y2 * (N * f) < y2 * x2 := mul_lt_mul_of_pos_left hB hy0
        have h3 : x2 * (N * ((1 - x2) * c + y2 * f)) ≤ x2 * y2 := by linarith
        exact le_of_mul_le_mul_left h3 hx0
      · intro _
        nlinarith
    · rw [inside_hi hx1 hB, le_div_iff₀ hd2]
      constructor <;> intro h <;> nlinarith

end envelope

/-! ### extrapolation -/
section extrap
variable {K : Type} [Field K] [LinearOrder K] [IsStrictOrderedRing K]

omit [LinearOrder K] [IsStrictOrderedRing K] in
theorem extrapLump_lin (D : List K) (N : K) : extrapLump D N = N * extrapLump D 1 := by
  unfold extrapLump; rw [one_mul, mul_div_assoc]

theorem sumL_nonneg {D : List K} (h : ∀ d ∈ D, 0 ≤ d) : 0 ≤ sumL D := by
  induction D with
  | nil => simp [sumL]
  | cons x xs ih =>
    simp only [sumL]
    have := ih (fun d hd => h d (List.mem_cons_of_mem _ hd))
    have := h x (List.mem_cons_self)
    linarith

theorem extrapLump_one_nonneg {D : List K} (h : ∀ d ∈ D, 0 ≤ d) : 0 ≤ extrapLump D 1 := by
  unfold extrapLump
  rw [one_mul]
  exact div_nonneg (sumL_nonneg h) (Nat.cast_nonneg _)

omit [LinearOrder K] [IsStrictOrderedRing K] in
theorem sumL_replicate (k : Nat) (d : K) : sumL (List.replicate k d) = k * d := by
  induction k with
  | zero => simp [sumL]
  | succ k ih => simp only [List.replicate_succ, sumL, ih]; push_cast; ring

omit [LinearOrder K] [IsStrictOrderedRing K] in
theorem sumL_map_mul (l : K) (D : List K) : sumL (D.map (l * ·)) = l * sumL D := by
  induction D with
  | nil => simp [sumL]
  | cons x xs ih => simp only [List.map_cons, sumL, ih]; ring

theorem sumL_take_le {D : List K} (h : ∀ d ∈ D, 0 ≤ d) {n m : Nat} (hnm : n ≤ m) :
    sumL (D.take n) ≤ sumL (D.take m) := by
  induction D generalizing n m with
  | nil => simp
  | cons x xs ih =>
    have hx := h x List.mem_cons_self
    have hxs : ∀ d ∈ xs, 0 ≤ d := fun d hd => h d (List.mem_cons_of_mem _ hd)
    cases n with
    | zero =>
      simp only [List.take_zero, sumL]
      exact sumL_nonneg (fun d hd => h d (List.mem_of_mem_take hd))
    | succ n =>
      cases m with
      | zero => omega
      | succ m =>
        simp only [List.take_succ_cons, sumL]
        have := ih hxs (Nat.le_of_succ_le_succ hnm)
        linarith

theorem extrapLast_mono {D : List K} (h : ∀ d ∈ D, 0 ≤ d) {n m : Nat} (hnm : n ≤ m) :
    extrapLast D n ≤ extrapLast D m := by
  have hlast : 0 ≤ D.getLastD 0 := by
    cases hD : D.getLast? with
    | none => simp [List.getLastD_eq_getLast?, hD]
    | some x =>
      rw [List.getLastD_eq_getLast?, hD]
      exact h x (List.mem_of_getLast? hD)
  unfold extrapLast
  by_cases hm : m < D.length - 1
  · have hn : n < D.length - 1 := lt_of_le_of_lt hnm hm
    rw [if_pos hm, if_pos hn]
    exact sumL_take_le h hnm
  · rw [if_neg hm]
    by_cases hn : n < D.length - 1
    · rw [if_pos hn, List.dropLast_eq_take]
      have h1 : sumL (D.take n) ≤ sumL (D.take (D.length - 1)) := sumL_take_le h hn.le
      have h2 : 0 ≤ D.getLastD 0 * (m : K) := mul_nonneg hlast (Nat.cast_nonneg _)
      linarith
    · rw [if_neg hn]
      have : (n : K) ≤ (m : K) := Nat.cast_le.mpr hnm
      have := mul_le_mul_of_nonneg_left this hlast
      linarith

end extrap

/-! ### `calculate_max_cycles` -/
section maxcycles
variable {K : Type} [Field K] [LinearOrder K] [IsStrictOrderedRing K]

/-- "the lumped damage extrapolated to `N` cycles is inside the envelope" -/
def insLump (x2 y2 : K) (Df Dc : List K) (N : K) : Prop :=
  insideEnv x2 y2 (extrapLump Df N) (extrapLump Dc N) = true

theorem insLump_anti {x2 y2 : K} (hx0 : 0 < x2) (hx1 : x2 < 1) (hy0 : 0 < y2) (hy1 : y2 < 1)
    {Df Dc : List K} (hDf : ∀ d ∈ Df, 0 ≤ d) (hDc : ∀ d ∈ Dc, 0 ≤ d) {N N' : K} (hNN : N ≤ N')
    (h : insLump x2 y2 Df Dc N') : insLump x2 y2 Df Dc N := by
  unfold insLump at *
  rw [extrapLump_lin Df, extrapLump_lin Dc] at h ⊢
  exact inside_antitone' hx0 hx1 hy0 hy1
    (mul_le_mul_of_nonneg_right hNN (extrapLump_one_nonneg hDf))
    (mul_le_mul_of_nonneg_right hNN (extrapLump_one_nonneg hDc)) h

theorem insLump_iff {x2 y2 : K} (hx0 : 0 < x2) (hx1 : x2 < 1) (hy0 : 0 < y2) (hy1 : y2 < 1)
    {Df Dc : List K} (hDf : ∀ d ∈ Df, 0 ≤ d) (hDc : ∀ d ∈ Dc, 0 ≤ d)
    (hne : extrapLump Df 1 ≠ 0 ∨ extrapLump Dc 1 ≠ 0) {N : K} (hN : 0 ≤ N) :
    insLump x2 y2 Df Dc N ↔ N ≤ Ncross x2 y2 (extrapLump Df 1) (extrapLump Dc 1) := by
  unfold insLump
  rw [extrapLump_lin Df, extrapLump_lin Dc]
  exact crossing_spec' hx0 hx1 hy0 hy1 (extrapLump_one_nonneg hDf) (extrapLump_one_nonneg hDc) hne hN

/-- the complete case analysis of `maxCyclesLump` -/
theorem maxCyclesLump_cases {x2 y2 : K} (hx0 : 0 < x2) (hx1 : x2 < 1) (hy0 : 0 < y2) (hy1 : y2 < 1)
    {Df Dc : List K} (hDf : ∀ d ∈ Df, 0 ≤ d) (hDc : ∀ d ∈ Dc, 0 ≤ d) :
    (¬ insLump x2 y2 Df Dc 1 ∧ maxCyclesLump x2 y2 Df Dc = .zero) ∨
    (insLump x2 y2 Df Dc 1000000 ∧ maxCyclesLump x2 y2 Df Dc = .unbounded) ∨
    (insLump x2 y2 Df Dc 1 ∧ ¬ insLump x2 y2 Df Dc 1000000 ∧
      maxCyclesLump x2 y2 Df Dc = .finite (Ncross x2 y2 (extrapLump Df 1) (extrapLump Dc 1)) ∧
      (1 : K) ≤ Ncross x2 y2 (extrapLump Df 1) (extrapLump Dc 1) ∧
      Ncross x2 y2 (extrapLump Df 1) (extrapLump Dc 1) < 1000000 ∧
      ∀ N : K, 0 ≤ N → (insLump x2 y2 Df Dc N ↔ N ≤ Ncross x2 y2 (extrapLump Df 1) (extrapLump Dc 1))) := by
  by_cases h1 : insLump x2 y2 Df Dc 1
  · by_cases h2 : insLump x2 y2 Df Dc 1000000
    · right; left
      refine ⟨h2, ?_⟩
      unfold insLump at h1 h2
      simp [maxCyclesLump, repMin, repMax, h1, h2]
    · right; right
      have hne : extrapLump Df 1 ≠ 0 ∨ extrapLump Dc 1 ≠ 0 := by
        by_contra hcon
        rw [not_or, not_not, not_not] at hcon
        apply h2
        unfold insLump
        rw [extrapLump_lin Df, extrapLump_lin Dc, hcon.1, hcon.2, mul_zero]
        exact inside_zero hx0
      have key := fun (N : K) (hN : 0 ≤ N) => insLump_iff hx0 hx1 hy0 hy1 hDf hDc hne hN
      refine ⟨h1, h2, ?_, ?_, ?_, key⟩
      · unfold insLump at h1 h2
        simp [maxCyclesLump, repMin, repMax, h1, h2]
      · exact (key 1 zero_le_one).mp h1
      · have := (key 1000000 (by norm_num)).not.mp h2
        exact not_le.mp this
  · left
    refine ⟨h1, ?_⟩
    unfold insLump at h1
    simp [maxCyclesLump, repMin, h1]

/-! integer bisection -/

theorem bisect_spec (g : Nat → Bool) (fuel : Nat) : ∀ lo hi : Nat, g lo = true → g hi = false → lo < hi →
    hi - lo ≤ 2 ^ fuel →
    lo < bisect g fuel lo hi ∧ bisect g fuel lo hi ≤ hi ∧ g (bisect g fuel lo hi - 1) = true ∧
      g (bisect g fuel lo hi) = false := by
  induction fuel with
  | zero =>
    intro lo hi hlo hhi hlt hf
    simp only [pow_zero] at hf
    have : hi - 1 = lo := by omega
    simp only [bisect]
    exact ⟨hlt, le_refl _, by rw [this]; exact hlo, hhi⟩
  | succ fuel ih =>
    intro lo hi hlo hhi hlt hf
    simp only [bisect]
    by_cases h1 : hi ≤ lo + 1
    · rw [if_pos h1]
      have : hi - 1 = lo := by omega
      exact ⟨hlt, le_refl _, by rw [this]; exact hlo, hhi⟩
    · rw [if_neg h1]
      have hp : 2 ^ (fuel + 1) = 2 * 2 ^ fuel := by rw [pow_succ]; ring
      rw [hp] at hf
      by_cases hg : g ((lo + hi) / 2) = true
      · simp only [hg, if_true]
        have := ih ((lo + hi) / 2) hi hg hhi (by omega) (by omega)
        exact ⟨by omega, this.2.1, this.2.2.1, this.2.2.2⟩
      · have hg' : g ((lo + hi) / 2) = false := by simpa using hg
        simp only [hg', Bool.false_eq_true, if_false]
        have := ih lo ((lo + hi) / 2) hlo hg' (by omega) (by omega)
        exact ⟨this.1, by omega, this.2.2.1, this.2.2.2⟩

/-- "the last-cycle damage extrapolated to `n` cycles is inside the envelope" -/
def insLast (x2 y2 : K) (Df Dc : List K) (n : Nat) : Prop :=
  insideEnv x2 y2 (extrapLast Df n) (extrapLast Dc n) = true

theorem insLast_anti {x2 y2 : K} (hx0 : 0 < x2) (hx1 : x2 < 1) (hy0 : 0 < y2) (hy1 : y2 < 1)
    {Df Dc : List K} (hDf : ∀ d ∈ Df, 0 ≤ d) (hDc : ∀ d ∈ Dc, 0 ≤ d) {n m : Nat} (hnm : n ≤ m)
    (h : insLast x2 y2 Df Dc m) : insLast x2 y2 Df Dc n :=
  inside_antitone' hx0 hx1 hy0 hy1 (extrapLast_mono hDf hnm) (extrapLast_mono hDc hnm) h

theorem maxCyclesLast_cases {x2 y2 : K} (hx0 : 0 < x2) (hx1 : x2 < 1) (hy0 : 0 < y2) (hy1 : y2 < 1)
    {Df Dc : List K} (hDf : ∀ d ∈ Df, 0 ≤ d) (hDc : ∀ d ∈ Dc, 0 ≤ d) :
    (¬ insLast x2 y2 Df Dc 1 ∧ maxCyclesLast x2 y2 Df Dc = .zero) ∨
    (insLast x2 y2 Df Dc 1000000 ∧ maxCyclesLast x2 y2 Df Dc = .unbounded) ∨
    (insLast x2 y2 Df Dc 1 ∧ ¬ insLast x2 y2 Df Dc 1000000 ∧
      ∃ r : Nat, maxCyclesLast x2 y2 Df Dc = .finite (r : K) ∧ 1 < r ∧ r ≤ 1000000 ∧
        ∀ n : Nat, (insLast x2 y2 Df Dc n ↔ n < r)) := by
  by_cases h1 : insLast x2 y2 Df Dc 1
  · by_cases h2 : insLast x2 y2 Df Dc 1000000
    · right; left
      refine ⟨h2, ?_⟩
      unfold insLast at h1 h2
      simp [maxCyclesLast, h1, h2]
    · right; right
      refine ⟨h1, h2, ?_⟩
      let g := fun n : Nat => insideEnv x2 y2 (extrapLast Df n) (extrapLast Dc n)
      have hg1 : g 1 = true := h1
      have hg2 : g 1000000 = false := by
        unfold insLast at h2; simpa [g] using h2
      have hb := bisect_spec g 20 1 1000000 hg1 hg2 (by norm_num) (by norm_num)
      refine ⟨bisect g 20 1 1000000, ?_, hb.1, hb.2.1, ?_⟩
      · unfold insLast at h1 h2
        simp [maxCyclesLast, h1, h2, g]
      · intro n
        constructor
        · intro hn
          by_contra hcon
          have hle : bisect g 20 1 1000000 ≤ n := not_lt.mp hcon
          have := insLast_anti hx0 hx1 hy0 hy1 hDf hDc hle hn
          unfold insLast at this
          have h3 := hb.2.2.2
          simp only [g] at h3
          rw [h3] at this
          exact Bool.false_ne_true this
        · intro hn
          have hle : n ≤ bisect g 20 1 1000000 - 1 := by omega
          exact insLast_anti hx0 hx1 hy0 hy1 hDf hDc hle hb.2.2.1
  · left
    refine ⟨h1, ?_⟩
    unfold insLast at h1
    simp [maxCyclesLast, h1]

end maxcycles

/-! ### minimum over points and tubes -/
section lifemin
variable {K : Type} [LinearOrder K]

/-- order on lives: `0 ≤ finite ≤ ∞` -/
def Life.le : Life K → Life K → Prop
  | .zero, _ => True
  | .finite _, .zero => False
  | .finite a, .finite b => a ≤ b
  | .finite _, .unbounded => True
  | .unbounded, .unbounded => True
  | .unbounded, _ => False

theorem Life.le_refl (a : Life K) : Life.le a a := by
  cases a <;> simp [Life.le]

theorem Life.le_trans {a b c : Life K} (h1 : Life.le a b) (h2 : Life.le b c) : Life.le a c := by
  cases a <;> cases b <;> cases c <;> simp_all [Life.le]
  exact _root_.le_trans h1 h2

theorem Life.min_comm (a b : Life K) : Life.min a b = Life.min b a := by
  cases a <;> cases b <;> simp [Life.min, _root_.min_comm]

theorem Life.min_assoc (a b c : Life K) :
    Life.min (Life.min a b) c = Life.min a (Life.min b c) := by
  cases a <;> cases b <;> cases c <;> simp [Life.min, _root_.min_assoc]

theorem Life.min_unbounded (a : Life K) : Life.min a .unbounded = a := by
  cases a <;> simp [Life.min]

theorem Life.unbounded_min (a : Life K) : Life.min .unbounded a = a := by
  cases a <;> simp [Life.min]

theorem Life.min_le_left (a b : Life K) : Life.le (Life.min a b) a := by
  cases a <;> cases b <;> simp [Life.min, Life.le]

theorem Life.min_le_right (a b : Life K) : Life.le (Life.min a b) b := by
  cases a <;> cases b <;> simp [Life.min, Life.le]

theorem Life.min_choice (a b : Life K) : Life.min a b = a ∨ Life.min a b = b := by
  cases a <;> cases b <;> simp [Life.min]
  exact le_total _ _

theorem Life.le_min {a b c : Life K} (h1 : Life.le a b) (h2 : Life.le a c) : Life.le a (Life.min b c) := by
  rcases Life.min_choice b c with h | h <;> rw [h] <;> assumption

theorem Life.min_le_min {a a' b b' : Life K} (h1 : Life.le a a') (h2 : Life.le b b') :
    Life.le (Life.min a b) (Life.min a' b') :=
  Life.le_min (Life.le_trans (Life.min_le_left a b) h1) (Life.le_trans (Life.min_le_right a b) h2)

theorem lifeMin_nil : lifeMin ([] : List (Life K)) = .unbounded := rfl

theorem lifeMin_cons (a : Life K) (l : List (Life K)) : lifeMin (a :: l) = Life.min a (lifeMin l) := rfl

theorem lifeMin_append (l₁ l₂ : List (Life K)) :
    lifeMin (l₁ ++ l₂) = Life.min (lifeMin l₁) (lifeMin l₂) := by
  induction l₁ with
  | nil => simp [lifeMin_nil, Life.unbounded_min]
  | cons a l ih => simp only [List.cons_append, lifeMin_cons, ih, Life.min_assoc]

/-- min over tubes of min over points = min over all points -/
theorem lifeMin_flatten (ls : List (List (Life K))) :
    lifeMin (ls.map lifeMin) = lifeMin ls.flatten := by
  induction ls with
  | nil => rfl
  | cons l ls ih => simp only [List.map_cons, lifeMin_cons, List.flatten_cons, lifeMin_append, ih]

theorem lifeMin_perm {l₁ l₂ : List (Life K)} (h : l₁.Perm l₂) : lifeMin l₁ = lifeMin l₂ := by
  induction h with
  | nil => rfl
  | cons x _ ih => simp only [lifeMin_cons, ih]
  | swap x y l =>
    simp only [lifeMin_cons, ← Life.min_assoc, Life.min_comm x y]
  | trans _ _ ih1 ih2 => exact ih1.trans ih2

theorem lifeMin_le_mem {l : List (Life K)} {x : Life K} (hx : x ∈ l) : Life.le (lifeMin l) x := by
  induction l with
  | nil => cases hx
  | cons a l ih =>
    rw [lifeMin_cons]
    rcases List.mem_cons.mp hx with h | h
    · rw [h]; exact Life.min_le_left _ _
    · exact Life.le_trans (Life.min_le_right _ _) (ih h)

theorem lifeMin_mem {l : List (Life K)} (hl : l ≠ []) : lifeMin l ∈ l := by
  induction l with
  | nil => exact absurd rfl hl
  | cons a l ih =>
    rw [lifeMin_cons]
    by_cases hl' : l = []
    · subst hl'; simp [lifeMin_nil, Life.min_unbounded]
    · rcases Life.min_choice a (lifeMin l) with h | h
      · rw [h]; exact List.mem_cons_self
      · rw [h]; exact List.mem_cons_of_mem _ (ih hl')

theorem lifeMin_unbounded_or_mem (l : List (Life K)) : lifeMin l = .unbounded ∨ lifeMin l ∈ l := by
  by_cases hl : l = []
  · subst hl; left; rfl
  · right; exact lifeMin_mem hl

/-- a minimum over a larger collection is not larger -/
theorem lifeMin_le_of_subset {l₁ l₂ : List (Life K)} (h : ∀ x ∈ l₁, x ∈ l₂) :
    Life.le (lifeMin l₂) (lifeMin l₁) := by
  rcases lifeMin_unbounded_or_mem l₁ with h1 | h1
  · rw [h1]; cases lifeMin l₂ <;> simp [Life.le]
  · exact lifeMin_le_mem (h _ h1)

/-- point-wise smaller lives give a smaller minimum -/
theorem lifeMin_mono {α} (f g : α → Life K) (l : List α) (h : ∀ a ∈ l, Life.le (f a) (g a)) :
    Life.le (lifeMin (l.map f)) (lifeMin (l.map g)) := by
  induction l with
  | nil => exact Life.le_refl _
  | cons a l ih =>
    simp only [List.map_cons, lifeMin_cons]
    exact Life.min_le_min (h a List.mem_cons_self) (ih (fun b hb => h b (List.mem_cons_of_mem _ hb)))

end lifemin

/-! ### what a life says about membership, for one point and for the minimum -/
section spec
variable {K : Type} [Field K] [LinearOrder K] [IsStrictOrderedRing K]

/-- the contract of `calculate_max_cycles` for one point; `ins N` = "after `N` repetitions the
point is inside the envelope" -/
def PointSpec (ins : K → Prop) (L : Life K) : Prop :=
  (∀ N N' : K, N ≤ N' → ins N' → ins N) ∧
  match L with
  | .zero => ¬ ins 1
  | .unbounded => ins 1000000
  | .finite n => 1 ≤ n ∧ n ≤ 1000000 ∧ (∀ N, N < n → ins N) ∧ (∀ N, n < N → ¬ ins N)

omit [IsStrictOrderedRing K] in
/-- the contract of the minimum over a collection of points `ps` -/
theorem min_spec {P : Type} (ps : List P) (life : P → Life K) (ins : P → K → Prop)
    (h : ∀ p ∈ ps, PointSpec (ins p) (life p)) :
    match lifeMin (ps.map life) with
    | .zero => ∃ p ∈ ps, ¬ ins p 1
    | .unbounded => ∀ p ∈ ps, ins p 1000000
    | .finite n => 1 ≤ n ∧ n ≤ 1000000 ∧ (∀ N, N < n → ∀ p ∈ ps, ins p N) ∧
        (∀ N, n < N → ∃ p ∈ ps, ¬ ins p N) := by
  have hle : ∀ p ∈ ps, Life.le (lifeMin (ps.map life)) (life p) :=
    fun p hp => lifeMin_le_mem (List.mem_map_of_mem hp)
  have hmem := lifeMin_unbounded_or_mem (ps.map life)
  cases hL : lifeMin (ps.map life) with
  | zero =>
    rw [hL] at hmem
    rcases hmem with h0 | h0
    · cases h0
    · obtain ⟨p, hp, hpl⟩ := List.mem_map.mp h0
      have := (h p hp).2
      rw [hpl] at this
      exact ⟨p, hp, this⟩
  | unbounded =>
    intro p hp
    have h1 := hle p hp
    rw [hL] at h1
    have h2 := (h p hp).2
    cases hp' : life p with
    | zero => rw [hp'] at h1; simp [Life.le] at h1
    | finite m => rw [hp'] at h1; simp [Life.le] at h1
    | unbounded => rw [hp'] at h2; exact h2
  | finite n =>
    rw [hL] at hmem
    rcases hmem with h0 | h0
    · cases h0
    · obtain ⟨q, hq, hql⟩ := List.mem_map.mp h0
      have hqs := (h q hq).2
      rw [hql] at hqs
      refine ⟨hqs.1, hqs.2.1, ?_, ?_⟩
      · intro N hN p hp
        have h1 := hle p hp
        rw [hL] at h1
        have h2 := h p hp
        cases hp' : life p with
        | zero => rw [hp'] at h1; simp [Life.le] at h1
        | finite m =>
          rw [hp'] at h1 h2
          simp only [Life.le] at h1
          exact h2.2.2.2.1 N (lt_of_lt_of_le hN h1)
        | unbounded =>
          rw [hp'] at h2
          have : N ≤ 1000000 := le_trans hN.le hqs.2.1
          exact h2.1 N 1000000 this h2.2
      · intro N hN
        exact ⟨q, hq, hqs.2.2.2 N hN⟩

end spec

/-! ### the time-fraction sum -/
section creep
variable {K : Type} [Field K] [LinearOrder K] [IsStrictOrderedRing K] [Transc K]

/-- damage of the interval between two consecutive samples: `(t₁ - t₀) / tR(T₁, σ_vm,1)` -/
def creepTerm (tR : K → K → K) (p q : K × Sym6 K × K) : K :=
  (q.1 - p.1) / tR q.2.2 (vonMises q.2.1)

omit [LinearOrder K] [IsStrictOrderedRing K] in
theorem creepCycle_cons_cons (tR : K → K → K) (x y : K × Sym6 K × K) (r : List (K × Sym6 K × K)) :
    creepCycle tR (x :: y :: r) = creepTerm tR x y + creepCycle tR (y :: r) := rfl

omit [LinearOrder K] [IsStrictOrderedRing K] in
/-- list form: the sum over consecutive pairs of samples -/
theorem creepCycle_eq_sumL (tR : K → K → K) (l : List (K × Sym6 K × K)) :
    creepCycle tR l = sumL ((l.zip l.tail).map fun pq => creepTerm tR pq.1 pq.2) := by
  induction l with
  | nil => rfl
  | cons x rest ih =>
    cases rest with
    | nil => rfl
    | cons y r =>
      rw [creepCycle_cons_cons, ih]
      rfl

omit [LinearOrder K] [IsStrictOrderedRing K] in
/-- indexed form: samples `F 0 … F n` give `Σ_{k<n} (t_{k+1} - t_k) / tR(T_{k+1}, σ_{k+1})` -/
theorem creepCycle_range (tR : K → K → K) (n : Nat) (F : Nat → K × Sym6 K × K) :
    creepCycle tR ((List.range (n + 1)).map F) =
      ∑ k ∈ Finset.range n, creepTerm tR (F k) (F (k + 1)) := by
  induction n generalizing F with
  | zero => simp [creepCycle]
  | succ n ih =>
    rw [Finset.sum_range_succ', List.range_succ_eq_map, List.map_cons, List.map_map]
    have h2 : List.range (n + 1) = 0 :: (List.range n).map Nat.succ := List.range_succ_eq_map
    have h3 := ih (F ∘ Nat.succ)
    rw [h2] at h3 ⊢
    simp only [List.map_cons, List.map_map, Function.comp] at h3 ⊢
    rw [creepCycle_cons_cons, h3]
    simp only [Nat.succ_eq_add_one, zero_add]
    ring

theorem slice_map_range {α} (F : Nat → α) (M a n : Nat) (h : a + n ≤ M) :
    slice ((List.range M).map F) a n = (List.range n).map (fun k => F (a + k)) := by
  unfold slice
  rw [← List.map_drop, ← List.map_take, List.range_eq_range', List.drop_range',
    List.take_range'_of_length_ge (by omega), List.range'_eq_map_range, List.map_map]
  simp [Function.comp_def]

omit [LinearOrder K] [IsStrictOrderedRing K] in
/-- **the index shift of `creep_damage`.**  For a tube with time points `t 0 … t (M-1)` and a point
with samples `s 0 … s (M-1)`, the creep damage of the cycle window `(a, b)` is
`Σ_{k=a}^{b-1} (t_{k+1} - t_k) / tR(T_{k+1}, σ_vm(k+1))`. -/
theorem creepWindow_sum (tR : K → K → K) (M : Nat) (t : Nat → K) (s : Nat → Sample K) (a b : Nat)
    (hab : a ≤ b) (hb : b < M) :
    creepCycle tR (creepWindow ((List.range M).map t) ((List.range M).map s) (a, b)) =
      ∑ k ∈ Finset.range (b - a),
        (t (a + k + 1) - t (a + k)) / tR (s (a + k + 1)).temp (vonMises (s (a + k + 1)).stress) := by
  unfold creepWindow
  rw [List.map_map, List.zip_map', slice_map_range _ M a (b - a + 1) (by omega), creepCycle_range]
  rfl

theorem creepTerm_nonneg (tR : K → K → K) (htR : ∀ T s, 0 < tR T s) (p q : K × Sym6 K × K)
    (h : p.1 ≤ q.1) : 0 ≤ creepTerm tR p q :=
  div_nonneg (sub_nonneg.mpr h) (htR _ _).le

/-- with positive rupture times and non-decreasing times the cycle damage is non-negative -/
theorem creepCycle_nonneg (tR : K → K → K) (htR : ∀ T s, 0 < tR T s) (l : List (K × Sym6 K × K))
    (h : l.IsChain (fun p q => p.1 ≤ q.1)) : 0 ≤ creepCycle tR l := by
  induction l with
  | nil => simp [creepCycle]
  | cons x rest ih =>
    cases rest with
    | nil => simp [creepCycle]
    | cons y r =>
      rw [creepCycle_cons_cons]
      rw [List.isChain_cons_cons] at h
      have := ih h.2
      have := creepTerm_nonneg tR htR x y h.1
      linarith

/-- same times, rupture time not longer at the end of any interval ⇒ creep damage not smaller -/
theorem creepCycle_mono (tR : K → K → K) (htR : ∀ T s, 0 < tR T s)
    (l l' : List (K × Sym6 K × K))
    (h : List.Forall₂ (fun p q => p.1 = q.1 ∧ tR q.2.2 (vonMises q.2.1) ≤ tR p.2.2 (vonMises p.2.1)) l l')
    (hc : l.IsChain (fun p q => p.1 ≤ q.1)) : creepCycle tR l ≤ creepCycle tR l' := by
  induction h with
  | nil => exact le_refl _
  | @cons x x' rest rest' hx hrest ih =>
    cases hrest with
    | nil => simp [creepCycle]
    | @cons y y' r r' hy hr =>
      rw [creepCycle_cons_cons, creepCycle_cons_cons]
      rw [List.isChain_cons_cons] at hc
      have h1 := ih hc.2
      have h2 : creepTerm tR x y ≤ creepTerm tR x' y' := by
        unfold creepTerm
        rw [← hx.1, ← hy.1]
        exact div_le_div_of_nonneg_left (sub_nonneg.mpr hc.1) (htR _ _) hy.2
      linarith

end creep

/-! ### strain range and fatigue damage -/
section fatigue
variable {K : Type} [Field K] [LinearOrder K] [IsStrictOrderedRing K]

omit [Field K] [IsStrictOrderedRing K] in
theorem foldl_max_spec {α} (f : α → K) (l : List α) (a : K) :
    a ≤ l.foldl (fun acc x => max acc (f x)) a ∧
    (∀ x ∈ l, f x ≤ l.foldl (fun acc x => max acc (f x)) a) ∧
    (l.foldl (fun acc x => max acc (f x)) a = a ∨ ∃ x ∈ l, l.foldl (fun acc x => max acc (f x)) a = f x) := by
  induction l generalizing a with
  | nil => simp
  | cons y ys ih =>
    simp only [List.foldl_cons]
    obtain ⟨h1, h2, h3⟩ := ih (max a (f y))
    refine ⟨le_trans (le_max_left _ _) h1, ?_, ?_⟩
    · intro x hx
      rcases List.mem_cons.mp hx with h | h
      · rw [h]; exact le_trans (le_max_right _ _) h1
      · exact h2 x h
    · rcases h3 with h | ⟨x, hx, h⟩
      · rcases max_choice a (f y) with hm | hm
        · left; rw [h, hm]
        · right; exact ⟨y, List.mem_cons_self, by rw [h, hm]⟩
      · right; exact ⟨x, List.mem_cons_of_mem _ hx, h⟩

omit [Field K] [IsStrictOrderedRing K] in
theorem foldl_max2_spec {α β} (f : α → β → K) (l1 : List α) (l2 : List β) (a : K) :
    let r := l1.foldl (fun acc x => l2.foldl (fun acc' y => max acc' (f x y)) acc) a
    a ≤ r ∧ (∀ x ∈ l1, ∀ y ∈ l2, f x y ≤ r) ∧ (r = a ∨ ∃ x ∈ l1, ∃ y ∈ l2, r = f x y) := by
  induction l1 generalizing a with
  | nil => simp
  | cons x xs ih =>
    simp only [List.foldl_cons]
    obtain ⟨g1, g2, g3⟩ := foldl_max_spec (f x) l2 a
    obtain ⟨h1, h2, h3⟩ := ih (l2.foldl (fun acc' y => max acc' (f x y)) a)
    refine ⟨le_trans g1 h1, ?_, ?_⟩
    · intro x' hx' y hy
      rcases List.mem_cons.mp hx' with h | h
      · rw [h]; exact le_trans (g2 y hy) h1
      · exact h2 x' h y hy
    · rcases h3 with h | ⟨x', hx', y, hy, h⟩
      · rcases g3 with g | ⟨y, hy, g⟩
        · left; rw [h, g]
        · right; exact ⟨x, List.mem_cons_self, y, hy, by rw [h, g]⟩
      · right; exact ⟨x', List.mem_cons_of_mem _ hx', y, hy, h⟩

omit [Field K] [IsStrictOrderedRing K] in
/-- `maxTemp` of a non-empty list is its greatest element -/
theorem maxTemp_spec [OfNat K 0] (l : List K) (hl : l ≠ []) :
    maxTemp l ∈ l ∧ ∀ x ∈ l, x ≤ maxTemp l := by
  cases l with
  | nil => exact absurd rfl hl
  | cons x xs =>
    simp only [maxTemp]
    have h := foldl_max_spec (fun y : K => y) xs x
    refine ⟨?_, ?_⟩
    · rcases h.2.2 with h3 | ⟨y, hy, h3⟩
      · rw [h3]; exact List.mem_cons_self
      · rw [h3]; exact List.mem_cons_of_mem _ hy
    · intro y hy
      rcases List.mem_cons.mp hy with h' | h'
      · rw [h']; exact h.1
      · exact h.2.1 y h'

variable [Transc K]

omit [IsStrictOrderedRing K] in
/-- `maxRange` is the greatest equivalent strain range over all ordered pairs of time points of
the window (or `0`, the initial value of the running maximum) -/
theorem maxRange_spec (es : List (Sym6 K)) :
    0 ≤ maxRange es ∧ (∀ ei ∈ es, ∀ ej ∈ es, eqRange ei ej ≤ maxRange es) ∧
      (maxRange es = 0 ∨ ∃ ei ∈ es, ∃ ej ∈ es, maxRange es = eqRange ei ej) :=
  foldl_max2_spec (fun ei ej => eqRange ei ej) es es 0

omit [LinearOrder K] [IsStrictOrderedRing K] [Transc K] in
theorem engineering_sub_offset (ei ej o : Sym6 K) :
    Sym6.sub (engineering (Sym6.add ej o)) (engineering (Sym6.add ei o)) =
      Sym6.sub (engineering ej) (engineering ei) := by
  simp only [Sym6.sub, Sym6.add, engineering]
  congr 1 <;> ring

omit [LinearOrder K] [IsStrictOrderedRing K] in
theorem eqRange_offset (ei ej o : Sym6 K) :
    eqRange (Sym6.add ei o) (Sym6.add ej o) = eqRange ei ej := by
  unfold eqRange
  rw [engineering_sub_offset]

omit [IsStrictOrderedRing K] in
/-- a running maximum over pairs only sees the pairwise values -/
theorem maxRange_map_of_eqRange (g : Sym6 K → Sym6 K) (hg : ∀ a b, eqRange (g a) (g b) = eqRange a b)
    (es : List (Sym6 K)) : maxRange (es.map g) = maxRange es := by
  unfold maxRange
  rw [List.foldl_map]
  congr 1
  funext acc ei
  rw [List.foldl_map]
  congr 1
  funext acc' ej
  rw [hg]

omit [IsStrictOrderedRing K] in
theorem maxRange_offset (o : Sym6 K) (es : List (Sym6 K)) :
    maxRange (es.map (fun e => Sym6.add e o)) = maxRange es :=
  maxRange_map_of_eqRange _ (fun a b => eqRange_offset a b o) es

/-- larger pairwise ranges and `Nf` positive and antitone in the range ⇒ fatigue damage not smaller -/
theorem cycleFatigue_mono (Nf : K → K → K) (hpos : ∀ T e, 0 < Nf T e)
    (hanti : ∀ T e e', e ≤ e' → Nf T e' ≤ Nf T e) (win win' : List (Sym6 K × K))
    (hT : maxTemp (win.map (·.2)) = maxTemp (win'.map (·.2)))
    (he : maxRange (win.map (·.1)) ≤ maxRange (win'.map (·.1))) :
    cycleFatigue Nf win ≤ cycleFatigue Nf win' := by
  unfold cycleFatigue
  rw [hT]
  exact one_div_le_one_div_of_le (hpos _ _) (hanti _ _ _ he)

end fatigue

/-! ### repetition, scaling, worse loads (lumped extrapolation) -/
section metamorphic
variable {K : Type} [Field K] [LinearOrder K] [IsStrictOrderedRing K]

omit [LinearOrder K] [IsStrictOrderedRing K] in
theorem sumL_append (a b : List K) : sumL (a ++ b) = sumL a + sumL b := by
  induction a with
  | nil => simp [sumL]
  | cons x xs ih => simp only [List.cons_append, sumL, ih]; ring

omit [LinearOrder K] [IsStrictOrderedRing K] in
theorem sumL_flatten_replicate (k : Nat) (D : List K) :
    sumL (List.replicate k D).flatten = k * sumL D := by
  induction k with
  | zero => simp [sumL]
  | succ k ih =>
    rw [List.replicate_succ, List.flatten_cons, sumL_append, ih]; push_cast; ring

/-- representing the same day `k ≥ 1` times does not change the lumped extrapolation -/
theorem extrapLump_replicate (k : Nat) (hk : 0 < k) (d N : K) :
    extrapLump (List.replicate k d) N = extrapLump [d] N := by
  unfold extrapLump
  have hk' : (k : K) ≠ 0 := Nat.cast_ne_zero.mpr (by omega)
  rw [sumL_replicate]
  simp only [List.length_replicate, List.length_cons, List.length_nil, sumL]
  field_simp
  push_cast
  ring

/-- the same for a block of days repeated `k ≥ 1` times -/
theorem extrapLump_flatten_replicate (k : Nat) (hk : 0 < k) (D : List K) (N : K) :
    extrapLump (List.replicate k D).flatten N = extrapLump D N := by
  unfold extrapLump
  have hk' : (k : K) ≠ 0 := Nat.cast_ne_zero.mpr (by omega)
  rw [sumL_flatten_replicate]
  have hlen : (List.replicate k D).flatten.length = k * D.length := by
    induction k with
    | zero => simp
    | succ k ih =>
      rw [List.replicate_succ, List.flatten_cons, List.length_append]
      by_cases hk0 : 0 < k
      · rw [ih hk0 (Nat.cast_ne_zero.mpr (by omega))]; ring
      · have : k = 0 := by omega
        subst this; simp
  rw [hlen]
  by_cases hD : D.length = 0
  · have : D = [] := List.length_eq_zero_iff.mp hD
    subst this; simp [sumL]
  · have hD' : (D.length : K) ≠ 0 := Nat.cast_ne_zero.mpr hD
    push_cast
    field_simp

omit [LinearOrder K] [IsStrictOrderedRing K] in
theorem extrapLump_scale (l : K) (D : List K) (N : K) :
    extrapLump (D.map (l * ·)) N = l * extrapLump D N := by
  unfold extrapLump
  rw [sumL_map_mul, List.length_map]
  ring

theorem Ncross_scale {x2 y2 f c l : K} (hl : 0 < l) :
    Ncross x2 y2 (l * f) (l * c) = Ncross x2 y2 f c / l := by
  unfold Ncross
  have hiff : y2 * (l * f) < x2 * (l * c) ↔ y2 * f < x2 * c := by
    constructor
    · intro h
      have : l * (y2 * f) < l * (x2 * c) := by linarith [h]
      exact lt_of_mul_lt_mul_left this hl.le
    · intro h
      have := mul_lt_mul_of_pos_left h hl
      linarith
  have hl' : l ≠ 0 := hl.ne'
  by_cases h : y2 * f < x2 * c
  · rw [if_pos h, if_pos (hiff.mpr h), div_div]
    congr 1; ring
  · rw [if_neg h, if_neg (fun h' => h (hiff.mp h')), div_div]
    congr 1; ring

omit [IsStrictOrderedRing K] in
theorem maxCyclesLump_finite_eq {x2 y2 : K} {Df Dc : List K} {n : K}
    (h : maxCyclesLump x2 y2 Df Dc = .finite n) :
    n = Ncross x2 y2 (extrapLump Df 1) (extrapLump Dc 1) := by
  unfold maxCyclesLump at h
  split_ifs at h
  injection h with h
  exact h.symm

theorem map_mul_nonneg {l : K} (hl : 0 ≤ l) {D : List K} (h : ∀ d ∈ D, 0 ≤ d) :
    ∀ d ∈ D.map (l * ·), 0 ≤ d := by
  intro d hd
  obtain ⟨e, he, rfl⟩ := List.mem_map.mp hd
  exact mul_nonneg hl (h e he)

/-- multiplying every per-cycle damage by `l > 0` divides the life by `l` as long as the scaled
life stays inside the bracket -/
theorem maxCyclesLump_scale {x2 y2 : K} (hx0 : 0 < x2) (hx1 : x2 < 1) (hy0 : 0 < y2) (hy1 : y2 < 1)
    {Df Dc : List K} (hDf : ∀ d ∈ Df, 0 ≤ d) (hDc : ∀ d ∈ Dc, 0 ≤ d) {l n : K} (hl : 0 < l)
    (h : maxCyclesLump x2 y2 Df Dc = .finite n) (h1 : 1 ≤ n / l) (h2 : n / l < 1000000) :
    maxCyclesLump x2 y2 (Df.map (l * ·)) (Dc.map (l * ·)) = .finite (n / l) := by
  have hn := maxCyclesLump_finite_eq h
  have hne : extrapLump Df 1 ≠ 0 ∨ extrapLump Dc 1 ≠ 0 := by
    rcases maxCyclesLump_cases hx0 hx1 hy0 hy1 hDf hDc with c | c | c
    · rw [c.2] at h; cases h
    · rw [c.2] at h; cases h
    · by_contra hcon
      rw [not_or, not_not, not_not] at hcon
      apply c.2.1
      unfold insLump
      rw [extrapLump_lin Df, extrapLump_lin Dc, hcon.1, hcon.2, mul_zero]
      exact inside_zero hx0
  have hDf' := map_mul_nonneg hl.le hDf
  have hDc' := map_mul_nonneg hl.le hDc
  have hne' : extrapLump (Df.map (l * ·)) 1 ≠ 0 ∨ extrapLump (Dc.map (l * ·)) 1 ≠ 0 := by
    rw [extrapLump_scale, extrapLump_scale]
    rcases hne with h' | h'
    · exact Or.inl (mul_ne_zero hl.ne' h')
    · exact Or.inr (mul_ne_zero hl.ne' h')
  have hN' : Ncross x2 y2 (extrapLump (Df.map (l * ·)) 1) (extrapLump (Dc.map (l * ·)) 1) = n / l := by
    rw [extrapLump_scale, extrapLump_scale, Ncross_scale hl, ← hn]
  have key := fun (N : K) (hN : 0 ≤ N) => insLump_iff hx0 hx1 hy0 hy1 hDf' hDc' hne' hN
  rcases maxCyclesLump_cases hx0 hx1 hy0 hy1 hDf' hDc' with c | c | c
  · exfalso; apply c.1; rw [key 1 zero_le_one, hN']; exact h1
  · exfalso
    have := (key 1000000 (by norm_num)).mp c.1
    rw [hN'] at this
    exact absurd h2 (not_lt.mpr this)
  · rw [c.2.2.1, hN']

theorem insLump_of_le {x2 y2 : K} (hx0 : 0 < x2) (hx1 : x2 < 1) (hy0 : 0 < y2) (hy1 : y2 < 1)
    {Df Dc Df' Dc' : List K} (hf : extrapLump Df 1 ≤ extrapLump Df' 1)
    (hc : extrapLump Dc 1 ≤ extrapLump Dc' 1) {N : K} (hN : 0 ≤ N)
    (h : insLump x2 y2 Df' Dc' N) : insLump x2 y2 Df Dc N := by
  unfold insLump at *
  rw [extrapLump_lin Df, extrapLump_lin Dc]
  rw [extrapLump_lin Df', extrapLump_lin Dc'] at h
  exact inside_antitone' hx0 hx1 hy0 hy1 (mul_le_mul_of_nonneg_left hf hN)
    (mul_le_mul_of_nonneg_left hc hN) h

/-- larger mean per-cycle damages ⇒ life not larger (lumped) -/
theorem maxCyclesLump_antitone {x2 y2 : K} (hx0 : 0 < x2) (hx1 : x2 < 1) (hy0 : 0 < y2) (hy1 : y2 < 1)
    {Df Dc Df' Dc' : List K} (hDf : ∀ d ∈ Df, 0 ≤ d) (hDc : ∀ d ∈ Dc, 0 ≤ d)
    (hDf' : ∀ d ∈ Df', 0 ≤ d) (hDc' : ∀ d ∈ Dc', 0 ≤ d)
    (hf : extrapLump Df 1 ≤ extrapLump Df' 1) (hc : extrapLump Dc 1 ≤ extrapLump Dc' 1) :
    Life.le (maxCyclesLump x2 y2 Df' Dc') (maxCyclesLump x2 y2 Df Dc) := by
  have imp := fun (N : K) (hN : 0 ≤ N) => insLump_of_le hx0 hx1 hy0 hy1 hf hc (N := N) hN
  rcases maxCyclesLump_cases hx0 hx1 hy0 hy1 hDf' hDc' with c' | c' | c'
  · rw [c'.2]; simp [Life.le]
  · rw [c'.2]
    rcases maxCyclesLump_cases hx0 hx1 hy0 hy1 hDf hDc with c | c | c
    · exact absurd (insLump_anti hx0 hx1 hy0 hy1 hDf hDc (by norm_num) (imp _ (by norm_num) c'.1)) c.1
    · rw [c.2]; simp [Life.le]
    · exact absurd (imp _ (by norm_num) c'.1) c.2.1
  · rw [c'.2.2.1]
    rcases maxCyclesLump_cases hx0 hx1 hy0 hy1 hDf hDc with c | c | c
    · exact absurd (imp 1 zero_le_one c'.1) c.1
    · rw [c.2]; simp [Life.le]
    · rw [c.2.2.1]
      simp only [Life.le]
      have hpos : (0 : K) ≤ Ncross x2 y2 (extrapLump Df' 1) (extrapLump Dc' 1) :=
        le_trans zero_le_one c'.2.2.2.1
      have h1 := (c'.2.2.2.2.2 _ hpos).mpr (le_refl _)
      exact (c.2.2.2.2.2 _ hpos).mp (imp _ hpos h1)

theorem sumL_le_of_forall₂ {D D' : List K} (h : List.Forall₂ (· ≤ ·) D D') : sumL D ≤ sumL D' := by
  induction h with
  | nil => exact le_refl _
  | cons hx _ ih => simp only [sumL]; linarith

/-- day-by-day larger damages give a larger mean -/
theorem extrapLump_le_of_forall₂ {D D' : List K} (h : List.Forall₂ (· ≤ ·) D D') :
    extrapLump D 1 ≤ extrapLump D' 1 := by
  unfold extrapLump
  rw [one_mul, one_mul, h.length_eq]
  exact div_le_div_of_nonneg_right (sumL_le_of_forall₂ h) (Nat.cast_nonneg _)

end metamorphic

/-! ### rotation of axes -/
section rot
open Matrix
variable {K : Type} [Field K]

/-- the symmetric matrix of the six stored components (shear entries are tensor components) -/
def Sym6.toMat (s : Sym6 K) : Matrix (Fin 3) (Fin 3) K :=
  !![s.xx, s.xy, s.xz; s.xy, s.yy, s.yz; s.xz, s.yz, s.zz]

/-- the six stored components of a (symmetric) matrix -/
def Sym6.ofMat (M : Matrix (Fin 3) (Fin 3) K) : Sym6 K :=
  ⟨M 0 0, M 1 1, M 2 2, M 1 2, M 0 2, M 0 1⟩

/-- the stored components in axes rotated by `Q`: those of `Q S Qᵀ` -/
def Sym6.rot (Q : Matrix (Fin 3) (Fin 3) K) (s : Sym6 K) : Sym6 K :=
  Sym6.ofMat (Q * s.toMat * Qᵀ)

omit [Field K] in
theorem Sym6.toMat_isSymm (s : Sym6 K) : s.toMat.IsSymm := by
  ext i j
  fin_cases i <;> fin_cases j <;> rfl

omit [Field K] in
theorem Sym6.toMat_ofMat (M : Matrix (Fin 3) (Fin 3) K) (h : M.IsSymm) : (Sym6.ofMat M).toMat = M := by
  ext i j
  fin_cases i <;> fin_cases j <;> simp [Sym6.toMat, Sym6.ofMat]
  · exact (h.apply 0 1).symm
  · exact (h.apply 0 2).symm
  · exact (h.apply 1 2).symm

theorem Sym6.toMat_rot (Q : Matrix (Fin 3) (Fin 3) K) (s : Sym6 K) :
    (Sym6.rot Q s).toMat = Q * s.toMat * Qᵀ := by
  apply Sym6.toMat_ofMat
  unfold Matrix.IsSymm
  rw [Matrix.transpose_mul, Matrix.transpose_mul, Matrix.transpose_transpose, s.toMat_isSymm.eq,
    Matrix.mul_assoc]

/-- the six-component expression of `creep_damage` is the invariant `(3 tr(S²) - (tr S)²) / 2` -/
theorem vonMisesSq_eq_trace (s : Sym6 K) :
    vonMisesSq s = (3 * (s.toMat * s.toMat).trace - s.toMat.trace ^ 2) / 2 := by
  simp only [vonMisesSq, sq, Sym6.toMat, Matrix.trace, Matrix.diag, Fin.sum_univ_three, Matrix.mul_apply]
  simp
  ring

theorem trace_rot (Q S : Matrix (Fin 3) (Fin 3) K) (hQ : Qᵀ * Q = 1) : (Q * S * Qᵀ).trace = S.trace := by
  rw [Matrix.trace_mul_comm, ← Matrix.mul_assoc, hQ, Matrix.one_mul]

theorem trace_sq_rot (Q S : Matrix (Fin 3) (Fin 3) K) (hQ : Qᵀ * Q = 1) :
    ((Q * S * Qᵀ) * (Q * S * Qᵀ)).trace = (S * S).trace := by
  have : (Q * S * Qᵀ) * (Q * S * Qᵀ) = Q * (S * S) * Qᵀ := by
    calc (Q * S * Qᵀ) * (Q * S * Qᵀ) = Q * S * (Qᵀ * Q) * S * Qᵀ := by simp only [Matrix.mul_assoc]
      _ = Q * (S * S) * Qᵀ := by rw [hQ, Matrix.mul_one]; simp only [Matrix.mul_assoc]
  rw [this, trace_rot Q _ hQ]

theorem vonMisesSq_rot (Q : Matrix (Fin 3) (Fin 3) K) (hQ : Qᵀ * Q = 1) (s : Sym6 K) :
    vonMisesSq (Sym6.rot Q s) = vonMisesSq s := by
  rw [vonMisesSq_eq_trace, vonMisesSq_eq_trace, Sym6.toMat_rot, trace_rot Q _ hQ, trace_sq_rot Q _ hQ]

theorem Sym6.toMat_sub (a b : Sym6 K) : (Sym6.sub a b).toMat = a.toMat - b.toMat := by
  ext i j
  fin_cases i <;> fin_cases j <;> simp [Sym6.toMat, Sym6.sub]

theorem Sym6.ofMat_sub (M N : Matrix (Fin 3) (Fin 3) K) :
    Sym6.ofMat (M - N) = Sym6.sub (Sym6.ofMat M) (Sym6.ofMat N) := by
  simp [Sym6.ofMat, Sym6.sub]

theorem Sym6.rot_sub (Q : Matrix (Fin 3) (Fin 3) K) (a b : Sym6 K) :
    Sym6.rot Q (Sym6.sub a b) = Sym6.sub (Sym6.rot Q a) (Sym6.rot Q b) := by
  unfold Sym6.rot
  rw [Sym6.toMat_sub, Matrix.mul_sub, Matrix.sub_mul, Sym6.ofMat_sub]

/-- with engineering shear and `ν = 1/2` the strain-range expression of `cycle_fatigue` is twice the
von Mises expression of the tensor difference -/
theorem eqRangeSq_eq (hK : (2 : K) ≠ 0) (ei ej : Sym6 K) :
    eqRangeSq (Sym6.sub (engineering ej) (engineering ei)) = 2 * vonMisesSq (Sym6.sub ej ei) := by
  simp only [eqRangeSq, vonMisesSq, sq, Sym6.sub, engineering]
  field_simp
  ring

variable [Transc K]

theorem vonMises_rot' (Q : Matrix (Fin 3) (Fin 3) K) (hQ : Qᵀ * Q = 1) (s : Sym6 K) :
    vonMises (Sym6.rot Q s) = vonMises s := by
  unfold vonMises; rw [vonMisesSq_rot Q hQ]

theorem eqRange_rot' (hK : (2 : K) ≠ 0) (Q : Matrix (Fin 3) (Fin 3) K) (hQ : Qᵀ * Q = 1)
    (ei ej : Sym6 K) : eqRange (Sym6.rot Q ei) (Sym6.rot Q ej) = eqRange ei ej := by
  unfold eqRange
  rw [eqRangeSq_eq hK, eqRangeSq_eq hK, ← Sym6.rot_sub, vonMisesSq_rot Q hQ]

end rot

/-! ### invariance of the damages and of the life of a point under a change of the samples that
preserves the effective stress and all pairwise strain ranges -/
section invariance
variable {K : Type} [Field K] [LinearOrder K] [IsStrictOrderedRing K] [Transc K]

omit [LinearOrder K] [IsStrictOrderedRing K] in
theorem creepCycle_map (tR : K → K → K) (g : Sym6 K → Sym6 K) (hg : ∀ s, vonMises (g s) = vonMises s)
    (l : List (K × Sym6 K × K)) :
    creepCycle tR (l.map fun p => (p.1, g p.2.1, p.2.2)) = creepCycle tR l := by
  induction l with
  | nil => rfl
  | cons x rest ih =>
    cases rest with
    | nil => rfl
    | cons y r =>
      simp only [List.map_cons] at ih ⊢
      rw [creepCycle_cons_cons, creepCycle_cons_cons, ih]
      simp only [creepTerm, hg]

theorem slice_map {α β} (f : α → β) (l : List α) (a n : Nat) :
    slice (l.map f) a n = (slice l a n).map f := by
  unfold slice; rw [← List.map_drop, ← List.map_take]

/-- change of one sample: stress by `gσ`, strain by `gε` -/
def Sample.mapTensors (gσ gε : Sym6 K → Sym6 K) (s : Sample K) : Sample K :=
  ⟨gσ s.stress, gε s.strain, s.temp⟩

omit [LinearOrder K] [IsStrictOrderedRing K] in
theorem pointCreep_map (tR : K → K → K) (gσ gε : Sym6 K → Sym6 K)
    (hσ : ∀ s, vonMises (gσ s) = vonMises s) (times : List K) (wins : List (Nat × Nat))
    (hist : List (Sample K)) :
    pointCreep tR times wins (hist.map (Sample.mapTensors gσ gε)) = pointCreep tR times wins hist := by
  unfold pointCreep
  apply List.map_congr_left
  intro w _
  unfold creepWindow
  have : times.zip ((hist.map (Sample.mapTensors gσ gε)).map fun s => (s.stress, s.temp)) =
      (times.zip (hist.map fun s => (s.stress, s.temp))).map fun p => (p.1, gσ p.2.1, p.2.2) := by
    rw [List.map_map, List.zip_map_right, List.zip_map_right, List.map_map]
    rfl
  rw [this, slice_map, creepCycle_map tR gσ hσ]

omit [IsStrictOrderedRing K] in
theorem pointFatigue_map (Nf : K → K → K) (gσ gε : Sym6 K → Sym6 K)
    (hε : ∀ a b, eqRange (gε a) (gε b) = eqRange a b) (wins : List (Nat × Nat))
    (hist : List (Sample K)) :
    pointFatigue Nf wins (hist.map (Sample.mapTensors gσ gε)) = pointFatigue Nf wins hist := by
  unfold pointFatigue
  apply List.map_congr_left
  intro w _
  unfold fatigueWindow cycleFatigue
  have : (hist.map (Sample.mapTensors gσ gε)).map (fun s => (s.strain, s.temp)) =
      (hist.map fun s => (s.strain, s.temp)).map fun p => (gε p.1, p.2) := by
    rw [List.map_map, List.map_map]; rfl
  rw [this, slice_map, List.map_map, List.map_map]
  have h1 : ((fun x : Sym6 K × K => x.2) ∘ fun p : Sym6 K × K => (gε p.1, p.2)) = fun x => x.2 := rfl
  have h2 : ((fun x : Sym6 K × K => x.1) ∘ fun p : Sym6 K × K => (gε p.1, p.2)) = gε ∘ fun x => x.1 := rfl
  rw [h1, h2, ← List.map_map, maxRange_map_of_eqRange gε hε]

omit [IsStrictOrderedRing K] in
theorem pointLife_map (m : Mode) (x2 y2 : K) (tR Nf : K → K → K) (gσ gε : Sym6 K → Sym6 K)
    (hσ : ∀ s, vonMises (gσ s) = vonMises s) (hε : ∀ a b, eqRange (gε a) (gε b) = eqRange a b)
    (times : List K) (wins : List (Nat × Nat)) (hist : List (Sample K)) :
    pointLife m x2 y2 tR Nf times wins (hist.map (Sample.mapTensors gσ gε)) =
      pointLife m x2 y2 tR Nf times wins hist := by
  unfold pointLife
  rw [pointCreep_map tR gσ gε hσ, pointFatigue_map Nf gσ gε hε]

end invariance

/-! ### receiver level -/
section receiver
variable {K : Type} [Field K] [LinearOrder K] [IsStrictOrderedRing K] [Transc K]

/-- the knee of the interaction diagram lies strictly inside the unit square -/
structure Knee (x2 y2 : K) : Prop where
  hx0 : 0 < x2
  hx1 : x2 < 1
  hy0 : 0 < y2
  hy1 : y2 < 1

/-- apply a change of samples to every material point of a tube -/
def Tube.mapSamples (g : Sample K → Sample K) (t : Tube K) : Tube K :=
  { t with points := t.points.map (fun h => h.map g) }

/-- all (tube, point history) pairs of a receiver -/
def allPoints (tubes : List (Tube K)) : List (Tube K × List (Sample K)) :=
  tubes.flatMap fun t => t.points.map fun h => (t, h)

/-- the life of one (tube, point) pair -/
def lifeAt (m : Mode) (x2 y2 : K) (tR Nf : K → K → K) (p : Tube K × List (Sample K)) : Life K :=
  pointLife m x2 y2 tR Nf p.1.times p.1.wins p.2

omit [Field K] [LinearOrder K] [IsStrictOrderedRing K] [Transc K] in
theorem mem_allPoints {tubes : List (Tube K)} {p : Tube K × List (Sample K)} :
    p ∈ allPoints tubes ↔ p.1 ∈ tubes ∧ p.2 ∈ p.1.points := by
  unfold allPoints
  rw [List.mem_flatMap]
  constructor
  · rintro ⟨t, ht, hp⟩
    obtain ⟨h, hh, rfl⟩ := List.mem_map.mp hp
    exact ⟨ht, hh⟩
  · rintro ⟨h1, h2⟩
    exact ⟨p.1, h1, List.mem_map.mpr ⟨p.2, h2, rfl⟩⟩

omit [IsStrictOrderedRing K] in
/-- `determine_life` = the minimum over all (tube, element, quadrature point) -/
theorem receiverLife_eq_lifeMin (m : Mode) (x2 y2 : K) (tR Nf : K → K → K) (tubes : List (Tube K)) :
    receiverLife m x2 y2 tR Nf tubes = lifeMin ((allPoints tubes).map (lifeAt m x2 y2 tR Nf)) := by
  unfold receiverLife allPoints
  have : tubes.map (tubeLife m x2 y2 tR Nf) =
      (tubes.map fun t => t.points.map (pointLife m x2 y2 tR Nf t.times t.wins)).map lifeMin := by
    rw [List.map_map]; rfl
  rw [this, lifeMin_flatten, List.map_flatMap, List.flatMap_def]
  congr 2
  apply List.map_congr_left
  intro t _
  rw [List.map_map]
  rfl

omit [IsStrictOrderedRing K] in
theorem receiverLife_mapSamples (m : Mode) (x2 y2 : K) (tR Nf : K → K → K) (gσ gε : Sym6 K → Sym6 K)
    (hσ : ∀ s, vonMises (gσ s) = vonMises s) (hε : ∀ a b, eqRange (gε a) (gε b) = eqRange a b)
    (tubes : List (Tube K)) :
    receiverLife m x2 y2 tR Nf (tubes.map (Tube.mapSamples (Sample.mapTensors gσ gε))) =
      receiverLife m x2 y2 tR Nf tubes := by
  unfold receiverLife
  rw [List.map_map]
  congr 1
  apply List.map_congr_left
  intro t _
  simp only [Function.comp, tubeLife, Tube.mapSamples, List.map_map]
  congr 1
  apply List.map_congr_left
  intro h _
  exact pointLife_map m x2 y2 tR Nf gσ gε hσ hε t.times t.wins h

omit [IsStrictOrderedRing K] in
theorem tubeLife_perm (m : Mode) (x2 y2 : K) (tR Nf : K → K → K) (t : Tube K) (pts : List (List (Sample K)))
    (h : t.points.Perm pts) :
    tubeLife m x2 y2 tR Nf { t with points := pts } = tubeLife m x2 y2 tR Nf t := by
  unfold tubeLife
  exact (lifeMin_perm (h.map _)).symm

omit [IsStrictOrderedRing K] in
theorem receiverLife_perm (m : Mode) (x2 y2 : K) (tR Nf : K → K → K) {tubes tubes' : List (Tube K)}
    (h : tubes.Perm tubes') :
    receiverLife m x2 y2 tR Nf tubes = receiverLife m x2 y2 tR Nf tubes' := by
  unfold receiverLife
  exact lifeMin_perm (h.map _)

end receiver

/-! ### membership after `N` repetitions, both modes, and the contract of a point's life -/
section modes
variable {K : Type} [Field K] [LinearOrder K] [IsStrictOrderedRing K] [FloorSemiring K]

/-- "after `N` repetitions the point with per-cycle damages `Df`, `Dc` is inside the envelope";
in last-cycle mode the code truncates `N` to an integer first -/
def insMode (m : Mode) (x2 y2 : K) (Df Dc : List K) (N : K) : Prop :=
  match m with
  | .lump => insLump x2 y2 Df Dc N
  | .last => insLast x2 y2 Df Dc ⌊N⌋₊

theorem maxCycles_pointSpec (m : Mode) {x2 y2 : K} (hk : Knee x2 y2) {Df Dc : List K}
    (hDf : ∀ d ∈ Df, 0 ≤ d) (hDc : ∀ d ∈ Dc, 0 ≤ d) :
    PointSpec (insMode m x2 y2 Df Dc) (maxCycles m x2 y2 Df Dc) := by
  obtain ⟨hx0, hx1, hy0, hy1⟩ := hk
  cases m with
  | lump =>
    have anti : ∀ N N' : K, N ≤ N' → insLump x2 y2 Df Dc N' → insLump x2 y2 Df Dc N :=
      fun N N' h => insLump_anti hx0 hx1 hy0 hy1 hDf hDc h
    refine ⟨anti, ?_⟩
    simp only [maxCycles, insMode]
    rcases maxCyclesLump_cases hx0 hx1 hy0 hy1 hDf hDc with c | c | c
    · rw [c.2]; exact c.1
    · rw [c.2]; exact c.1
    · rw [c.2.2.1]
      have hpos : (0 : K) ≤ Ncross x2 y2 (extrapLump Df 1) (extrapLump Dc 1) :=
        le_trans zero_le_one c.2.2.2.1
      refine ⟨c.2.2.2.1, c.2.2.2.2.1.le, ?_, ?_⟩
      · intro N hN
        exact anti N _ hN.le ((c.2.2.2.2.2 _ hpos).mpr (le_refl _))
      · intro N hN hins
        have := (c.2.2.2.2.2 N (le_trans hpos hN.le)).mp hins
        exact absurd hN (not_lt.mpr this)
  | last =>
    have anti : ∀ N N' : K, N ≤ N' → insLast x2 y2 Df Dc ⌊N'⌋₊ → insLast x2 y2 Df Dc ⌊N⌋₊ :=
      fun N N' h => insLast_anti hx0 hx1 hy0 hy1 hDf hDc (Nat.floor_le_floor h)
    refine ⟨anti, ?_⟩
    simp only [maxCycles, insMode]
    rcases maxCyclesLast_cases hx0 hx1 hy0 hy1 hDf hDc with c | c | c
    · rw [c.2]; simpa using c.1
    · rw [c.2]
      have : ⌊(1000000 : K)⌋₊ = 1000000 := by
        have : ((1000000 : Nat) : K) = 1000000 := by norm_num
        rw [← this, Nat.floor_natCast]
      simp only [this]; exact c.1
    · obtain ⟨r, hr, h1, h2, h3⟩ := c.2.2
      rw [hr]
      refine ⟨?_, ?_, ?_, ?_⟩
      · exact_mod_cast h1.le
      · exact_mod_cast h2
      · intro N hN
        apply (h3 _).mpr
        by_cases hN0 : 0 ≤ N
        · exact (Nat.floor_lt hN0).mpr hN
        · rw [Nat.floor_of_nonpos (not_le.mp hN0).le]; omega
      · intro N hN hins
        have := (h3 _).mp hins
        have h4 : r ≤ ⌊N⌋₊ := Nat.le_floor hN.le
        omega

end modes
end SrModel.Damage
