import SrModel.H5
import Mathlib.Data.String.Basic
import Mathlib.Data.List.Perm.Basic
import Mathlib.Data.List.Nodup
import Mathlib.Data.List.Forall2

/-! Helper lemmas for C16 (`SrModel.H5`): dictionaries, name order, save/load of each level. -/
namespace SrModel.H5

/-! ### scalars -/

theorem h5_idem (v : PyVal) : v.h5.h5 = v.h5 := by cases v <;> rfl
theorem h5_val (v : PyVal) : v.h5.val = v.val := by cases v <;> rfl

/-- `b` is `a` with its type kept or widened `py ↦ np`, same value -/
def PyVal.Sim (a b : PyVal) : Prop := b.val = a.val ∧ (b = a ∨ b = a.h5)

theorem PyVal.sim_h5 (v : PyVal) : PyVal.Sim v v.h5 := ⟨h5_val v, Or.inr rfl⟩

/-! ### dictionaries -/

def keys {α : Type} (l : List (String × α)) : List String := l.map (·.1)

theorem dictSet_notMem {α : Type} (d : List (String × α)) (k : String) (v : α) (h : k ∉ keys d) :
    dictSet d k v = d ++ [(k, v)] := by
  induction d with
  | nil => rfl
  | cons x xs ih =>
    obtain ⟨k', v'⟩ := x
    simp only [keys, List.map_cons, List.mem_cons, not_or] at h
    simp only [dictSet, if_neg (Ne.symm h.1), List.cons_append]
    rw [ih h.2]

theorem dictSet_mem {α : Type} (d : List (String × α)) (k : String) (v : α) (hnd : (keys d).Nodup)
    (h : (k, v) ∈ d) : dictSet d k v = d := by
  induction d with
  | nil => simp at h
  | cons x xs ih =>
    obtain ⟨k', v'⟩ := x
    simp only [keys, List.map_cons, List.nodup_cons] at hnd
    rcases List.mem_cons.mp h with h | h
    · injection h with h1 h2; subst h1; subst h2; simp [dictSet]
    · have hk : k' ≠ k := by
        rintro rfl
        exact hnd.1 (List.mem_map.mpr ⟨(k', v), h, rfl⟩)
      simp only [dictSet, if_neg hk]
      rw [ih hnd.2 h]

theorem dictFill_append {α : Type} (init kvs : List (String × α)) (hnd : (keys kvs).Nodup)
    (hdis : ∀ k ∈ keys kvs, k ∉ keys init) : dictFill init kvs = init ++ kvs := by
  induction kvs generalizing init with
  | nil => simp [dictFill]
  | cons x xs ih =>
    obtain ⟨k, v⟩ := x
    simp only [keys, List.map_cons, List.nodup_cons] at hnd
    have hk : k ∉ keys init := hdis k (by simp [keys])
    show dictFill (dictSet init k v) xs = _
    rw [dictSet_notMem _ _ _ hk, ih _ hnd.2]
    · simp
    · intro k' hk'
      simp only [keys, List.map_append, List.map_cons, List.map_nil, List.mem_append,
        List.mem_singleton, not_or]
      refine ⟨hdis k' (by simp only [keys, List.map_cons, List.mem_cons]; exact Or.inr hk'), ?_⟩
      rintro rfl; exact hnd.1 hk'

theorem dictFill_nil {α : Type} (kvs : List (String × α)) (hnd : (keys kvs).Nodup) :
    dictFill [] kvs = kvs := by
  simpa using dictFill_append [] kvs hnd (by simp [keys])

theorem dictFill_same {α : Type} (d kvs : List (String × α)) (hnd : (keys d).Nodup)
    (h : ∀ kv ∈ kvs, kv ∈ d) : dictFill d kvs = d := by
  induction kvs with
  | nil => rfl
  | cons x xs ih =>
    show dictFill (dictSet d x.1 x.2) xs = d
    rw [dictSet_mem d x.1 x.2 hnd (h x (by simp))]
    exact ih (fun kv hkv => h kv (by simp [hkv]))

/-- filling an empty dictionary once or twice from a list with distinct keys gives that list -/
theorem dictFill_once_or_twice {α : Type} (kvs : List (String × α)) (hnd : (keys kvs).Nodup) (twice : Bool) :
    (if twice then dictFill (dictFill [] kvs) kvs else dictFill [] kvs) = kvs := by
  rw [dictFill_nil kvs hnd]
  cases twice
  · rfl
  · simp only [if_true]; exact dictFill_same kvs kvs hnd (fun _ h => h)

theorem lookup_eq_some_iff {α : Type} (l : List (String × α)) (hnd : (keys l).Nodup) (k : String) (v : α) :
    l.lookup k = some v ↔ (k, v) ∈ l := by
  induction l with
  | nil => simp
  | cons x xs ih =>
    obtain ⟨k', v'⟩ := x
    simp only [keys, List.map_cons, List.nodup_cons] at hnd
    by_cases hk : k = k'
    · subst hk
      simp only [List.lookup_cons_self, Option.some.injEq, List.mem_cons, Prod.mk.injEq, true_and]
      constructor
      · intro h; exact Or.inl h.symm
      · rintro (h | h)
        · exact h.symm
        · exact absurd (List.mem_map.mpr ⟨(k, v), h, rfl⟩) hnd.1
    · have : (k == k') = false := by simpa using hk
      simp only [List.lookup_cons, this, List.mem_cons, Prod.mk.injEq, hk, false_and, false_or]
      exact ih hnd.2

/-! ### name order -/

theorem byName_perm {α : Type} (l : List (String × α)) : (byName l).Perm l := List.mergeSort_perm _ _

theorem byName_sorted {α : Type} (l : List (String × α)) :
    (byName l).Pairwise (fun a b => decide (a.1 ≤ b.1) = true) := by
  apply List.pairwise_mergeSort
  · intro a b c h1 h2
    simp only [decide_eq_true_eq] at *
    exact le_trans h1 h2
  · intro a b
    simp only [Bool.or_eq_true, decide_eq_true_eq]
    exact le_total _ _

theorem byName_idem {α : Type} (l : List (String × α)) : byName (byName l) = byName l :=
  List.mergeSort_of_pairwise (byName_sorted l)

theorem keys_byName_perm {α : Type} (l : List (String × α)) : (keys (byName l)).Perm (keys l) :=
  (byName_perm l).map _

theorem keys_byName_nodup {α : Type} {l : List (String × α)} (h : (keys l).Nodup) :
    (keys (byName l)).Nodup := (keys_byName_perm l).nodup_iff.mpr h

theorem byName_map {α β : Type} (f : α → β) (l : List (String × α)) :
    byName (l.map fun kv => (kv.1, f kv.2)) = (byName l).map fun kv => (kv.1, f kv.2) := by
  unfold byName
  exact (List.map_mergeSort (r := fun a b : String × α => decide (a.1 ≤ b.1))
    (s := fun a b : String × β => decide (a.1 ≤ b.1)) (f := fun kv => (kv.1, f kv.2)) (l := l)
    (fun _ _ _ _ => rfl)).symm

theorem lookup_byName {α : Type} (l : List (String × α)) (hnd : (keys l).Nodup) (k : String) :
    (byName l).lookup k = l.lookup k := by
  apply Option.ext
  intro v
  rw [lookup_eq_some_iff _ (keys_byName_nodup hnd), lookup_eq_some_iff _ hnd]
  exact (byName_perm l).mem_iff

theorem keys_map_snd {α β : Type} (f : α → β) (l : List (String × α)) :
    keys (l.map fun kv => (kv.1, f kv.2)) = keys l := by
  simp [keys, Function.comp_def]

/-! ### loading a group of entries -/

theorem mapM_map_some {α β γ : Type} (l : List α) (g : α → β) (h : β → Option γ) (k : α → γ)
    (hk : ∀ x ∈ l, h (g x) = some (k x)) : (l.map g).mapM h = some (l.map k) := by
  induction l with
  | nil => rfl
  | cons x xs ih =>
    simp only [List.map_cons, List.mapM_cons, hk x (by simp), ih (fun y hy => hk y (by simp [hy]))]
    rfl

/-- a group whose children are `sv` of dictionary entries loads, entry by entry through `f`, as the
dictionary of the `nm` of the entries: in creation order when tracked, in name order otherwise -/
theorem loadDict_group {α β : Type} (f : Node → Option β) (sv : α → Node) (nm : α → β)
    (l : List (String × α)) (hnd : (keys l).Nodup) (hf : ∀ kv ∈ l, f (sv kv.2) = some (nm kv.2))
    (track twice : Bool) (attrs : List (String × PyVal)) :
    loadDict f (.group track attrs (l.map fun kv => (kv.1, sv kv.2))) twice =
      some ((if track then l else byName l).map fun kv => (kv.1, nm kv.2)) := by
  have key : ∀ l' : List (String × α), (keys l').Nodup → (∀ kv ∈ l', f (sv kv.2) = some (nm kv.2)) →
      (do let kvs ← (l'.map fun kv => (kv.1, sv kv.2)).mapM (fun kv => (f kv.2).map (fun v => (kv.1, v)))
          let d := dictFill [] kvs
          some (if twice then dictFill d kvs else d)) = some (l'.map fun kv => (kv.1, nm kv.2)) := by
    intro l' hnd' hf'
    rw [mapM_map_some l' _ _ (fun kv => (kv.1, nm kv.2)) (fun x hx => by simp [hf' x hx])]
    simp only [Option.bind_eq_bind, Option.bind_some]
    have hn : (keys (l'.map fun kv => (kv.1, nm kv.2))).Nodup := by rw [keys_map_snd]; exact hnd'
    have := dictFill_once_or_twice _ hn twice
    cases twice <;> simp_all
  cases track
  · simp only [loadDict, Node.members, Bool.false_eq_true, if_false]
    rw [byName_map]
    exact key (byName l) (keys_byName_nodup hnd) (fun kv hkv => hf kv ((byName_perm l).mem_iff.mp hkv))
  · simp only [loadDict, Node.members, if_true]
    exact key l hnd hf

/-! ### boundary conditions -/

theorem loadThermal_save (bc : ThermalBC) : loadThermal bc.save = some bc.norm := by
  cases bc <;> rfl

theorem loadPressure_save (p : PressureBC) : loadPressure p.save = some p := by
  cases p; rfl

theorem loadFlowPath_save (f : FlowPath) : loadFlowPath f.save = some f := by
  obtain ⟨panels, a, b, c⟩ := f
  cases panels with
  | nil => rfl
  | cons x xs => rfl

theorem data_dataset (a : Arr) : Node.data? (Node.dataset a) = some a := rfl

/-- a results dictionary reloads in name order -/
theorem loadDict_dsGroup (kvs : List (String × Arr)) (hnd : (keys kvs).Nodup) (twice : Bool) :
    loadDict Node.data? (dsGroup kvs) twice = some (byName kvs) := by
  have := loadDict_group Node.data? Node.dataset id kvs hnd (fun _ _ => rfl) false twice []
  simpa [dsGroup] using this

/-! ### tubes -/

structure Tube.WF (t : Tube) : Prop where
  results : (keys t.results).Nodup
  quadrature : (keys t.quadrature).Nodup
  axial : (keys t.axial).Nodup

theorem loadTube_save (t : Tube) (h : t.WF) : loadTube t.save = some t.norm := by
  obtain ⟨r, tt, hh, nr, nt, nz, T0, mult, abs, times, res, quad, ax, obc, ibc, pbc⟩ := t
  have hres := loadDict_dsGroup res h.results false
  have hquad := loadDict_dsGroup quad h.quadrature false
  have hax := loadDict_dsGroup ax h.axial true
  have e1 := loadThermal_save
  cases abs <;> cases obc <;> cases ibc <;> cases pbc <;>
    simp [loadTube, Tube.save, Node.attr?, Node.kid?, Node.ds?, Node.data?, loadAbstraction, loadOpt, optKid,
      Abstraction.attrs, Abstraction.name, List.lookup, hres, hquad, hax, e1, loadPressure_save, Tube.norm,
      Abstraction.norm]

/-! ### panels and receivers -/

structure Panel.WF (p : Panel) : Prop where
  names : (keys p.tubes).Nodup
  tubes : ∀ kv ∈ p.tubes, kv.2.WF

structure Receiver.WF (r : Receiver) : Prop where
  names : (keys r.panels).Nodup
  flownames : (keys r.flowpaths).Nodup
  panels : ∀ kv ∈ r.panels, kv.2.WF

/-- the tubes of a panel as they reload from a file written with / without `track_order` -/
def Panel.normWith (track : Bool) (p : Panel) : Panel :=
  { stiffness := p.stiffness.h5,
    tubes := (if track then p.tubes else byName p.tubes).map fun kv => (kv.1, kv.2.norm) }

theorem Panel.normWith_true (p : Panel) : p.normWith true = p.norm := rfl

theorem loadPanel_saveWith (track : Bool) (p : Panel) (h : p.WF) :
    loadPanel (p.saveWith track) = some (p.normWith track) := by
  have := loadDict_group loadTube Tube.save Tube.norm p.tubes h.names
    (fun kv hkv => loadTube_save kv.2 (h.tubes kv hkv)) track false []
  simp [loadPanel, Panel.saveWith, Node.attr?, Node.kid?, List.lookup, this, Panel.normWith]

def Receiver.normWith (track : Bool) (r : Receiver) : Receiver :=
  { period := r.period.h5, days := r.days.h5, stiffness := r.stiffness.h5,
    panels := (if track then r.panels else byName r.panels).map fun kv => (kv.1, kv.2.normWith track),
    flowpaths := if track then r.flowpaths else byName r.flowpaths }

theorem Receiver.normWith_true (r : Receiver) : r.normWith true = r.norm := rfl

theorem loadReceiver_saveWith (track : Bool) (r : Receiver) (h : r.WF) :
    loadReceiver (r.saveWith track) = some (r.normWith track) := by
  have hp := loadDict_group loadPanel (Panel.saveWith track) (Panel.normWith track) r.panels h.names
    (fun kv hkv => loadPanel_saveWith track kv.2 (h.panels kv hkv)) track false []
  have hf := loadDict_group loadFlowPath FlowPath.save id r.flowpaths h.flownames
    (fun kv _ => loadFlowPath_save kv.2) track true []
  simp [loadReceiver, Receiver.saveWith, Node.attr?, Node.kid?, List.lookup, hp, hf, Receiver.normWith]

/-! ### `≈`: same names in the same order, same values, types equal up to `py ↦ np` widening -/

/-- two dictionaries with the same names in the same order and related values -/
def SimDict {α : Type} (R : α → α → Prop) (a b : List (String × α)) : Prop :=
  List.Forall₂ (fun x y => x.1 = y.1 ∧ R x.2 y.2) a b

/-- result dictionaries: same names (as a set; the reloaded one is in name order), same array per name -/
def SimResults (a b : List (String × Arr)) : Prop :=
  (keys b).Perm (keys a) ∧ ∀ k, b.lookup k = a.lookup k

def ThermalBC.Sim : ThermalBC → ThermalBC → Prop
  | .heatFlux r h nt nz ts d, .heatFlux r' h' nt' nz' ts' d' =>
    r.Sim r' ∧ h.Sim h' ∧ nt.Sim nt' ∧ nz.Sim nz' ∧ ts' = ts ∧ d' = d
  | .fixedTemp r h nt nz ts d, .fixedTemp r' h' nt' nz' ts' d' =>
    r.Sim r' ∧ h.Sim h' ∧ nt.Sim nt' ∧ nz.Sim nz' ∧ ts' = ts ∧ d' = d
  | .convective r h nz ts d, .convective r' h' nz' ts' d' =>
    r.Sim r' ∧ h.Sim h' ∧ nz.Sim nz' ∧ ts' = ts ∧ d' = d
  | .film r h nz ft fc, .film r' h' nz' ft' fc' =>
    r.Sim r' ∧ h.Sim h' ∧ nz.Sim nz' ∧ ft' = ft ∧ fc' = fc
  | _, _ => False

def Abstraction.Sim : Abstraction → Abstraction → Prop
  | .d3, .d3 => True
  | .d2 p, .d2 p' => p.Sim p'
  | .d1 p a, .d1 p' a' => p.Sim p' ∧ a.Sim a'
  | _, _ => False

def OptSim {α : Type} (R : α → α → Prop) : Option α → Option α → Prop
  | none, none => True
  | some a, some b => R a b
  | _, _ => False

structure Tube.Sim (a b : Tube) : Prop where
  r : a.r.Sim b.r
  t : a.t.Sim b.t
  h : a.h.Sim b.h
  nr : a.nr.Sim b.nr
  nt : a.nt.Sim b.nt
  nz : a.nz.Sim b.nz
  T0 : a.T0.Sim b.T0
  multiplier : a.multiplier.Sim b.multiplier
  abstraction : a.abstraction.Sim b.abstraction
  times : b.times = a.times
  results : SimResults a.results b.results
  quadrature : SimResults a.quadrature b.quadrature
  axial : SimResults a.axial b.axial
  outerBc : OptSim ThermalBC.Sim a.outerBc b.outerBc
  innerBc : OptSim ThermalBC.Sim a.innerBc b.innerBc
  pressureBc : b.pressureBc = a.pressureBc

structure Panel.Sim (a b : Panel) : Prop where
  stiffness : a.stiffness.Sim b.stiffness
  tubes : SimDict Tube.Sim a.tubes b.tubes

structure Receiver.Sim (a b : Receiver) : Prop where
  period : a.period.Sim b.period
  days : a.days.Sim b.days
  stiffness : a.stiffness.Sim b.stiffness
  panels : SimDict Panel.Sim a.panels b.panels
  flowpaths : b.flowpaths = a.flowpaths

theorem ThermalBC.sim_norm (bc : ThermalBC) : bc.Sim bc.norm := by
  cases bc <;> simp [ThermalBC.Sim, ThermalBC.norm, PyVal.sim_h5]

theorem Abstraction.sim_norm (a : Abstraction) : a.Sim a.norm := by
  cases a <;> simp [Abstraction.Sim, Abstraction.norm, PyVal.sim_h5]

theorem simResults_byName (l : List (String × Arr)) (hnd : (keys l).Nodup) : SimResults l (byName l) :=
  ⟨keys_byName_perm l, lookup_byName l hnd⟩

theorem Tube.sim_norm (t : Tube) (h : t.WF) : t.Sim t.norm := by
  refine ⟨PyVal.sim_h5 _, PyVal.sim_h5 _, PyVal.sim_h5 _, PyVal.sim_h5 _, PyVal.sim_h5 _, PyVal.sim_h5 _,
    PyVal.sim_h5 _, PyVal.sim_h5 _, Abstraction.sim_norm _, rfl, simResults_byName _ h.results,
    simResults_byName _ h.quadrature, simResults_byName _ h.axial, ?_, ?_, rfl⟩
  · cases ho : t.outerBc <;> simp [Tube.norm, ho, OptSim, ThermalBC.sim_norm]
  · cases hi : t.innerBc <;> simp [Tube.norm, hi, OptSim, ThermalBC.sim_norm]

theorem simDict_map {α : Type} (R : α → α → Prop) (f : α → α) (l : List (String × α))
    (h : ∀ kv ∈ l, R kv.2 (f kv.2)) : SimDict R l (l.map fun kv => (kv.1, f kv.2)) := by
  induction l with
  | nil => exact List.Forall₂.nil
  | cons x xs ih =>
    exact List.Forall₂.cons ⟨rfl, h x (by simp)⟩ (ih (fun kv hkv => h kv (by simp [hkv])))

theorem Panel.sim_norm (p : Panel) (h : p.WF) : p.Sim p.norm :=
  ⟨PyVal.sim_h5 _, simDict_map _ _ _ (fun kv hkv => Tube.sim_norm kv.2 (h.tubes kv hkv))⟩

theorem Receiver.sim_norm (r : Receiver) (h : r.WF) : r.Sim r.norm :=
  ⟨PyVal.sim_h5 _, PyVal.sim_h5 _, PyVal.sim_h5 _,
   simDict_map _ _ _ (fun kv hkv => Panel.sim_norm kv.2 (h.panels kv hkv)), rfl⟩

/-! ### the canonical form is again well formed -/

theorem Tube.wf_norm (t : Tube) (h : t.WF) : t.norm.WF :=
  ⟨keys_byName_nodup h.results, keys_byName_nodup h.quadrature, keys_byName_nodup h.axial⟩

theorem Panel.wf_norm (p : Panel) (h : p.WF) : p.norm.WF := by
  refine ⟨by simpa [Panel.norm, keys_map_snd] using h.names, ?_⟩
  intro kv hkv
  simp only [Panel.norm, List.mem_map] at hkv
  obtain ⟨x, hx, rfl⟩ := hkv
  exact Tube.wf_norm _ (h.tubes x hx)

theorem Receiver.wf_norm (r : Receiver) (h : r.WF) : r.norm.WF := by
  refine ⟨by simpa [Receiver.norm, keys_map_snd] using h.names, h.flownames, ?_⟩
  intro kv hkv
  simp only [Receiver.norm, List.mem_map] at hkv
  obtain ⟨x, hx, rfl⟩ := hkv
  exact Panel.wf_norm _ (h.panels x hx)

/-! ### options -/

/-- option values other than a Python `bool` convert to the same spring before and after widening -/
theorem convertToSpring_h5 (v : PyVal) (hb : ∀ b, v ≠ .pyBool b) :
    convertToSpring v.h5 = convertToSpring v := by
  cases v <;> first | rfl | exact absurd rfl (hb _)

end SrModel.H5
