import SrProofs.Flowpath
import Mathlib.Tactic.Positivity
import Mathlib.Tactic.LinearCombination

/-!
# The flow-path solution is unique and explicit for constant fluid properties (C14)

With `cp ≡ cp0 > 0` and `film ≡ hf ≥ 0` the heat balance of one tube is *affine* in the tube outlet
temperature with a positive slope, so it has exactly one zero, given in closed form
(`tubeResidual_affine`, `tubeSlope_pos`, `tube_zero_iff`).  Hence the inlet determines every panel and
its manifold (`panel_unique`), and the whole state vector of a chain (`chain_unique`).
-/
namespace SrModel.Flowpath
set_option linter.unusedSectionVars false

section field
variable {K : Type} [Field K] [LinearOrder K] [IsStrictOrderedRing K]

/-! ## 1. the tube equation is affine in the outlet temperature -/

/-- `S = Σ_θ Σ_z T_metal[θ][z]` -/
def metalSum (mj : List (List K)) : K := (mj.map List.sum).sum

/-- `Σ_z z/h` over `zs = linspace(0, h, nz)` -/
def zFrac (p : Panel K) : K := (zs p.h p.nz).sum / p.h

/-- `a = w ṁ / N · cp0` -/
def tubeA (p : Panel K) (w cp0 : K) : K := w * p.mdot / p.weights.sum * cp0

/-- `b = r · dz · dθ · w · hf` -/
def tubeB (pi : K) (p : Panel K) (w hf : K) : K :=
  p.ri * (p.h / (p.nz : K)) * (2 * pi / (p.nt : K)) * w * hf

theorem row_sum_affine (k d Ts : K) : ∀ (row zl : List K), row.length = zl.length →
    (List.zipWith (fun tm z => k * (tm - (d * z + Ts))) row zl).sum =
      k * (row.sum - d * zl.sum - (zl.length : K) * Ts) := by
  intro row
  induction row with
  | nil =>
    intro zl h
    cases zl with
    | nil => simp
    | cons z zl => simp at h
  | cons x row ih =>
    intro zl h
    cases zl with
    | nil => simp at h
    | cons z zl =>
      simp only [List.zipWith_cons_cons, List.sum_cons, List.length_cons, Nat.cast_add, Nat.cast_one]
      rw [ih zl (by simpa using h)]
      ring

theorem rows_sum_affine (k e Ts : K) (nz : Nat) : ∀ (mj : List (List K)),
    (mj.map fun row => k * (row.sum - e - (nz : K) * Ts)).sum =
      k * ((mj.map List.sum).sum - (mj.length : K) * e - (mj.length : K) * (nz : K) * Ts) := by
  intro mj
  induction mj with
  | nil => simp
  | cons row mj ih =>
    simp only [List.map_cons, List.sum_cons, List.length_cons, Nat.cast_add, Nat.cast_one]
    rw [ih]
    ring

/-- `Q_conv` of a tube for a constant film coefficient, rows of `nz` wall temperatures:
`b · (S − m·nz·Ts − m·(Σ_z z/h)·(Tt − Ts))`, `m` the number of rows -/
theorem qConvTube_affine (fl : FluidFns K) (pi : K) (p : Panel K) (hf w Ts Tt : K)
    (mj : List (List K)) (hfilm : fl.film = fun _ _ _ => hf)
    (hrow : ∀ row ∈ mj, row.length = p.nz) :
    qConvTube fl pi p w Ts Tt mj =
      tubeB pi p w hf * (metalSum mj - (mj.length : K) * (p.nz : K) * Ts -
        (mj.length : K) * zFrac p * (Tt - Ts)) := by
  rw [qConvTube_eq, hfilm]
  have h1 : (mj.map fun row =>
      (List.zipWith (fun tm z => w * hf * (tm - ((Tt - Ts) / p.h * z + Ts))) row (zs p.h p.nz)).sum) =
      mj.map fun row => w * hf * (row.sum - (Tt - Ts) / p.h * (zs p.h p.nz).sum - (p.nz : K) * Ts) := by
    apply List.map_congr_left
    intro row hr
    rw [row_sum_affine _ _ _ row _ (by rw [zs_length]; exact hrow row hr), zs_length]
  simp only [] at h1 ⊢
  rw [h1, rows_sum_affine]
  simp only [tubeB, metalSum, zFrac]
  ring

/-- **the tube residual is affine in `Tt`** (constant `cp`, `film`) -/
theorem tubeResidual_affine (fl : FluidFns K) (pi : K) (p : Panel K) (cp0 hf w Ts Tt : K)
    (mj : List (List K)) (hcp : fl.cp = fun _ => cp0) (hfilm : fl.film = fun _ _ _ => hf)
    (hrow : ∀ row ∈ mj, row.length = p.nz) :
    qMassTube fl p w Ts Tt - qConvTube fl pi p w Ts Tt mj =
      tubeA p w cp0 * (Tt - Ts) -
        tubeB pi p w hf * (metalSum mj - (mj.length : K) * (p.nz : K) * Ts -
          (mj.length : K) * zFrac p * (Tt - Ts)) := by
  rw [qConvTube_affine fl pi p hf w Ts Tt mj hfilm hrow, qMassTube_eq, hcp]
  simp only [tubeA]

/-- the heights of `linspace(0, h, nz)` are non-negative -/
theorem zs_nonneg (h : K) (nz : Nat) (hh : 0 ≤ h) : ∀ z ∈ zs h nz, 0 ≤ z := by
  intro z hz
  simp only [zs, List.mem_map, List.mem_range] at hz
  obtain ⟨i, _, rfl⟩ := hz
  simp only [natEmb_eq]
  split_ifs
  · exact hh
  · exact mul_nonneg (Nat.cast_nonneg _) (div_nonneg hh (Nat.cast_nonneg _))
  · exact mul_nonneg (Nat.cast_nonneg _) hh

theorem zFrac_nonneg (p : Panel K) (hh : 0 ≤ p.h) : 0 ≤ zFrac p :=
  div_nonneg (List.sum_nonneg (zs_nonneg p.h p.nz hh)) hh

/-- the sign hypotheses on one panel (`1 ≤ nz`, `1 ≤ nt` are not needed: in a field `x / 0 = 0`,
and then `b = 0`, the tube equation degenerates to `a (Tt − Ts) = 0`, still with a unique zero) -/
structure PanelOK (p : Panel K) : Prop where
  mdot_pos : 0 < p.mdot
  ri_pos : 0 < p.ri
  h_pos : 0 < p.h
  w_pos : ∀ w ∈ p.weights, 0 < w

/-- the shape hypothesis on the wall temperatures: every row `metal[tube][θ]` has `nz` entries -/
def MetalOK (p : Panel K) : Prop := ∀ mj ∈ p.metal, ∀ row ∈ mj, row.length = p.nz

theorem tubeA_pos (p : Panel K) (w cp0 : K) (hp : PanelOK p) (hw : w ∈ p.weights) (hcp : 0 < cp0) :
    0 < tubeA p w cp0 := by
  have hN : 0 < p.weights.sum := sum_pos_of_pos _ hp.w_pos (List.ne_nil_of_mem hw)
  have := hp.w_pos w hw
  have := hp.mdot_pos
  unfold tubeA
  positivity

theorem tubeB_nonneg (pi : K) (p : Panel K) (w hf : K) (hp : PanelOK p) (hw : w ∈ p.weights)
    (hpi : 0 ≤ pi) (hhf : 0 ≤ hf) : 0 ≤ tubeB pi p w hf := by
  have := hp.w_pos w hw
  have := hp.ri_pos
  have := hp.h_pos
  unfold tubeB
  positivity

/-- the slope `a + b·c` of the tube residual is positive -/
theorem tubeSlope_pos (pi : K) (p : Panel K) (w cp0 hf : K) (m : Nat) (hp : PanelOK p)
    (hw : w ∈ p.weights) (hcp : 0 < cp0) (hpi : 0 ≤ pi) (hhf : 0 ≤ hf) :
    0 < tubeA p w cp0 + tubeB pi p w hf * ((m : K) * zFrac p) := by
  have h1 := tubeA_pos p w cp0 hp hw hcp
  have h2 := tubeB_nonneg pi p w hf hp hw hpi hhf
  have h3 := zFrac_nonneg p hp.h_pos.le
  have h4 : (0 : K) ≤ (m : K) := Nat.cast_nonneg _
  have := mul_nonneg h2 (mul_nonneg h4 h3)
  linarith

/-- an affine equation with positive slope has exactly one zero -/
theorem affine_zero_iff (a b c S' d : K) (hpos : 0 < a + b * c) :
    a * d - b * (S' - c * d) = 0 ↔ d = b * S' / (a + b * c) := by
  have hne : a + b * c ≠ 0 := hpos.ne'
  rw [eq_div_iff hne]
  constructor <;> intro h <;> linarith

/-- **closed form of the tube outlet**: the tube residual vanishes iff
`Tt = Ts + b (S − n Ts) / (a + b c)` -/
theorem tube_zero_iff (fl : FluidFns K) (pi : K) (p : Panel K) (cp0 hf w Ts Tt : K)
    (mj : List (List K)) (hcp : fl.cp = fun _ => cp0) (hfilm : fl.film = fun _ _ _ => hf)
    (hp : PanelOK p) (hw : w ∈ p.weights) (hrow : ∀ row ∈ mj, row.length = p.nz)
    (hcp0 : 0 < cp0) (hpi : 0 ≤ pi) (hhf : 0 ≤ hf) :
    qMassTube fl p w Ts Tt - qConvTube fl pi p w Ts Tt mj = 0 ↔
      Tt = Ts + tubeB pi p w hf * (metalSum mj - (mj.length : K) * (p.nz : K) * Ts) /
        (tubeA p w cp0 + tubeB pi p w hf * ((mj.length : K) * zFrac p)) := by
  rw [tubeResidual_affine fl pi p cp0 hf w Ts Tt mj hcp hfilm hrow,
    affine_zero_iff _ _ _ _ _ (tubeSlope_pos pi p w cp0 hf mj.length hp hw hcp0 hpi hhf)]
  constructor <;> intro h <;> linarith

/-- the tube equation has at most one solution -/
theorem tube_unique (fl : FluidFns K) (pi : K) (p : Panel K) (cp0 hf w Ts x y : K)
    (mj : List (List K)) (hcp : fl.cp = fun _ => cp0) (hfilm : fl.film = fun _ _ _ => hf)
    (hp : PanelOK p) (hw : w ∈ p.weights) (hrow : ∀ row ∈ mj, row.length = p.nz)
    (hcp0 : 0 < cp0) (hpi : 0 ≤ pi) (hhf : 0 ≤ hf)
    (hx : qMassTube fl p w Ts x = qConvTube fl pi p w Ts x mj)
    (hy : qMassTube fl p w Ts y = qConvTube fl pi p w Ts y mj) : x = y := by
  have h1 := (tube_zero_iff fl pi p cp0 hf w Ts x mj hcp hfilm hp hw hrow hcp0 hpi hhf).1
    (sub_eq_zero.2 hx)
  have h2 := (tube_zero_iff fl pi p cp0 hf w Ts y mj hcp hfilm hp hw hrow hcp0 hpi hhf).1
    (sub_eq_zero.2 hy)
  rw [h1, h2]

/-- **4. admissibility**: the fluid moves towards the mean wall temperature,
`(Tt − Ts)·(S − n Ts) ≥ 0` at the zero of the tube equation -/
theorem tube_towards_wall (fl : FluidFns K) (pi : K) (p : Panel K) (cp0 hf w Ts Tt : K)
    (mj : List (List K)) (hcp : fl.cp = fun _ => cp0) (hfilm : fl.film = fun _ _ _ => hf)
    (hp : PanelOK p) (hw : w ∈ p.weights) (hrow : ∀ row ∈ mj, row.length = p.nz)
    (hcp0 : 0 < cp0) (hpi : 0 ≤ pi) (hhf : 0 ≤ hf)
    (hz : qMassTube fl p w Ts Tt - qConvTube fl pi p w Ts Tt mj = 0) :
    0 ≤ (Tt - Ts) * (metalSum mj - (mj.length : K) * (p.nz : K) * Ts) := by
  have h := (tube_zero_iff fl pi p cp0 hf w Ts Tt mj hcp hfilm hp hw hrow hcp0 hpi hhf).1 hz
  have hs := tubeSlope_pos pi p w cp0 hf mj.length hp hw hcp0 hpi hhf
  have hb := tubeB_nonneg pi p w hf hp hw hpi hhf
  rw [h, add_sub_cancel_left, div_mul_eq_mul_div]
  apply div_nonneg _ hs.le
  rw [mul_assoc]
  exact mul_nonneg hb (mul_self_nonneg _)

/-! ## 2. a panel and its manifold are determined by the inlet -/

/-- entry `j` of `panelResidual` -/
theorem panelResidual_getElem? (fl : FluidFns K) (pi : K) (p : Panel K) (Ts : K) (Tt : List K)
    (j : Nat) (w Tj : K) (mj : List (List K)) (hw : p.weights[j]? = some w) (hT : Tt[j]? = some Tj)
    (hm : p.metal[j]? = some mj) :
    (panelResidual fl pi p Ts Tt)[j]? =
      some (qMassTube fl p w Ts Tj - qConvTube fl pi p w Ts Tj mj) := by
  have hz : (Tt.zip p.metal)[j]? = some (Tj, mj) := List.getElem?_zip_eq_some.2 ⟨hT, hm⟩
  simp [panelResidual, List.getElem?_zipWith, hz, hw]

/-- **panel + manifold uniqueness**: for a given inlet temperature the tube outlets and the manifold
temperature that balance a panel are unique -/
theorem panel_unique (fl : FluidFns K) (pi : K) (p : Panel K) (cp0 hf Ts : K) (Tt Tt' : List K)
    (Tm Tm' : K) (hcp : fl.cp = fun _ => cp0) (hfilm : fl.film = fun _ _ _ => hf)
    (hp : PanelOK p) (hm : MetalOK p) (hcp0 : 0 < cp0) (hpi : 0 ≤ pi) (hhf : 0 ≤ hf)
    (h : PanelBalanced fl pi p Ts Tt Tm) (h' : PanelBalanced fl pi p Ts Tt' Tm') :
    Tt = Tt' ∧ Tm = Tm' := by
  obtain ⟨hl, _, hbal, hman⟩ := h
  obtain ⟨hl', _, hbal', hman'⟩ := h'
  have e : Tt = Tt' := by
    apply List.ext_getElem (by rw [hl, hl'])
    intro j h1 h2
    have hj : j < p.weights.length := by rw [← hl]; exact h1
    exact tube_unique fl pi p cp0 hf p.weights[j] Ts Tt[j] Tt'[j] p.metal[j] hcp hfilm hp
      (List.getElem_mem _) (hm _ (List.getElem_mem _)) hcp0 hpi hhf (hbal j hj) (hbal' j hj)
  subst e
  exact ⟨rfl, by rw [hman, hman']⟩

/-! ## 3. chain uniqueness -/

/-- what `gather` returns on a range -/
theorem gather_range' (T : List K) : ∀ (n s : Nat) (Tt : List K),
    gather T (List.range' s n) = some Tt →
      Tt.length = n ∧ ∀ j (hj : j < Tt.length), T[s + j]? = some Tt[j] := by
  intro n
  induction n with
  | zero =>
    intro s Tt h
    simp [gather] at h
    subst h
    simp
  | succ n ih =>
    intro s Tt h
    rw [List.range'_succ] at h
    simp only [gather, List.mapM_cons, Option.bind_eq_bind, Option.bind_eq_some_iff] at h
    obtain ⟨x, hx, rest, hrest, hTt⟩ := h
    simp only [Option.pure_def, Option.some.injEq] at hTt
    subst hTt
    obtain ⟨hlen, hget⟩ := ih (s + 1) rest hrest
    refine ⟨by simp [hlen], ?_⟩
    intro j hj
    cases j with
    | zero => simpa using hx
    | succ j =>
      have := hget j (by simpa using hj)
      simpa [Nat.add_assoc, Nat.add_comm 1 j] using this

/-- the head panel of `PanelsBalanced`, in index form -/
theorem panelsBalanced_head (fl : FluidFns K) (pi : K) (T : List K) (o : Nat) (p : Panel K)
    (ps : List (Panel K)) (h : PanelsBalanced fl pi T o (p :: ps)) :
    ∃ Ts Tt Tm, T[o]? = some Ts ∧ gather T (List.range' (o + 1) p.weights.length) = some Tt ∧
      T[o + 1 + p.weights.length]? = some Tm ∧ PanelBalanced fl pi p Ts Tt Tm ∧
      PanelsBalanced fl pi T (o + 1 + p.weights.length) ps := by
  have hidx := panelsBalanced_index fl pi T (p :: ps) o h 0 (by simp)
  obtain ⟨Ts, Tt, Tm, hTs, hTt, hTm, _, _, _, _, hrest⟩ := h
  obtain ⟨Ts', Tt', Tm', h1, h2, h3, h4⟩ := hidx
  simp only [inletDof, Nat.add_zero, List.getElem_cons_zero] at h1 h2 h3 h4
  rw [hTs] at h1; rw [hTt] at h2; rw [hTm] at h3
  cases h1; cases h2; cases h3
  exact ⟨Ts, Tt, Tm, hTs, hTt, hTm, h4, hrest⟩

/-- two balanced states that agree at the inlet node agree on every node of the chain -/
theorem panelsBalanced_unique (fl : FluidFns K) (pi cp0 hf : K) (T T' : List K)
    (hcp : fl.cp = fun _ => cp0) (hfilm : fl.film = fun _ _ _ => hf)
    (hcp0 : 0 < cp0) (hpi : 0 ≤ pi) (hhf : 0 ≤ hf) :
    ∀ (ps : List (Panel K)) (o : Nat), (∀ p ∈ ps, PanelOK p ∧ MetalOK p) →
      PanelsBalanced fl pi T o ps → PanelsBalanced fl pi T' o ps → T[o]? = T'[o]? →
      ∀ i, o ≤ i → i ≤ o + inletDof ps ps.length → T[i]? = T'[i]? := by
  intro ps
  induction ps with
  | nil =>
    intro o _ _ _ h0 i h1 h2
    have : i = o := by simp [inletDof] at h2; omega
    rw [this]; exact h0
  | cons p ps ih =>
    intro o hok hb hb' h0 i h1 h2
    obtain ⟨Ts, Tt, Tm, hTs, hTt, hTm, hpb, hrest⟩ := panelsBalanced_head fl pi T o p ps hb
    obtain ⟨Ts', Tt', Tm', hTs', hTt', hTm', hpb', hrest'⟩ := panelsBalanced_head fl pi T' o p ps hb'
    have e : Ts = Ts' := by
      rw [hTs, hTs'] at h0; exact Option.some.inj h0
    subst e
    obtain ⟨e1, e2⟩ := panel_unique fl pi p cp0 hf Ts Tt Tt' Tm Tm' hcp hfilm
      (hok p (by simp)).1 (hok p (by simp)).2 hcp0 hpi hhf hpb hpb'
    subst e1; subst e2
    obtain ⟨hlen, hget⟩ := gather_range' T _ _ _ hTt
    obtain ⟨_, hget'⟩ := gather_range' T' _ _ _ hTt'
    by_cases hi : i < o + 1 + p.weights.length
    · by_cases hio : i = o
      · rw [hio]; exact h0
      · have hj : i - (o + 1) < Tt.length := by omega
        have e : o + 1 + (i - (o + 1)) = i := by omega
        have a1 := hget _ hj
        have a2 := hget' _ hj
        rw [e] at a1 a2
        rw [a1, a2]
    · refine ih (o + 1 + p.weights.length) (fun q hq => hok q (by simp [hq])) hrest hrest'
        (by rw [hTm, hTm']) i (by omega) ?_
      simp only [inletDof, List.length_cons] at h2
      omega

/-- the number of unknowns of a chain -/
theorem nvals_mkChain (Tin : K) (ps : List (Panel K)) :
    nvals ((mkChain Tin ps).map Link.size) = inletDof ps ps.length + 1 := by
  rw [nvals_eq_sum, mkChain_eq]
  simp only [List.map_cons, Link.size, List.sum_cons]
  have : ∀ ps : List (Panel K), ((linksOf ps).map Link.size).sum = inletDof ps ps.length := by
    intro ps
    induction ps with
    | nil => simp [linksOf, inletDof]
    | cons p ps ih =>
      rw [linksOf_cons]
      simp only [List.map_cons, Link.size, List.sum_cons, ih, inletDof, List.length_cons]
      omega
  rw [this]; omega

/-- **chain uniqueness**: two state vectors of the right length that both zero the chain residual
are equal (constant `cp > 0`, constant `film ≥ 0`, admissible panels) -/
theorem chain_unique (fl : FluidFns K) (pi cp0 hf Tin : K) (ps : List (Panel K)) (T T' : List K)
    (R R' : List (List K))
    (hcp : fl.cp = fun _ => cp0) (hfilm : fl.film = fun _ _ _ => hf)
    (hcp0 : 0 < cp0) (hpi : 0 ≤ pi) (hhf : 0 ≤ hf) (hok : ∀ p ∈ ps, PanelOK p ∧ MetalOK p)
    (hlen : T.length = nvals ((mkChain Tin ps).map Link.size))
    (hlen' : T'.length = nvals ((mkChain Tin ps).map Link.size))
    (hR : chainResidual fl pi (mkChain Tin ps) T = some R) (hz : ∀ r ∈ R, ∀ x ∈ r, x = 0)
    (hR' : chainResidual fl pi (mkChain Tin ps) T' = some R') (hz' : ∀ r ∈ R', ∀ x ∈ r, x = 0) :
    T = T' := by
  obtain ⟨h0, hb⟩ := chain_root fl pi Tin ps T R hR hz
  obtain ⟨h0', hb'⟩ := chain_root fl pi Tin ps T' R' hR' hz'
  rw [nvals_mkChain] at hlen hlen'
  apply List.ext_getElem?
  intro i
  by_cases hi : i ≤ inletDof ps ps.length
  · exact panelsBalanced_unique fl pi cp0 hf T T' hcp hfilm hcp0 hpi hhf ps 0 hok hb hb'
      (by rw [h0, h0']) i (Nat.zero_le _) (by omega)
  · rw [List.getElem?_eq_none (by omega), List.getElem?_eq_none (by omega)]

/-! ## 4. the explicit `Σ_z z/h` and the position of the mean fluid temperature -/

theorem sum_range_cast (n : Nat) :
    ((List.range n).map (fun i : Nat => (i : K))).sum = (n : K) * ((n : K) - 1) / 2 := by
  induction n with
  | zero => simp
  | succ n ih =>
    rw [List.range_succ, List.map_append, List.sum_append, ih]
    simp only [List.map_cons, List.map_nil, List.sum_cons, List.sum_nil, Nat.cast_add, Nat.cast_one]
    ring

/-- `Σ linspace(0, h, nz) = nz·h/2` (at least two points) -/
theorem zs_sum (h : K) (nz : Nat) (hnz : 1 < nz) : (zs h nz).sum = (nz : K) * h / 2 := by
  have e : zs h nz = (List.range nz).map (fun i : Nat => (i : K) * (h / ((nz - 1 : Nat) : K))) := by
    apply List.ext_getElem (by simp [zs_length])
    intro j h1 h2
    have hj : j < nz := by rw [zs_length] at h1; exact h1
    rw [zs_getElem h nz hnz j hj]
    simp
  have hne : ((nz - 1 : Nat) : K) ≠ 0 := by
    have : 0 < nz - 1 := by omega
    exact_mod_cast this.ne'
  have hc : ((nz - 1 : Nat) : K) = (nz : K) - 1 := by
    rw [Nat.cast_sub (by omega)]; simp
  have e2 : (fun i : Nat => (i : K) * (h / ((nz - 1 : Nat) : K))) =
      (fun x : K => x * (h / ((nz - 1 : Nat) : K))) ∘ (fun i : Nat => (i : K)) := rfl
  rw [e, e2, ← List.map_map, List.sum_map_mul_right, List.map_id', sum_range_cast, ← hc]
  field_simp

theorem zFrac_eq (p : Panel K) (hh : p.h ≠ 0) (hnz : 1 < p.nz) : zFrac p = (p.nz : K) / 2 := by
  rw [zFrac, zs_sum p.h p.nz hnz]
  field_simp

/-- a single axial point sits at `z = 0`: the outlet temperature does not enter `Q_conv` -/
theorem zFrac_one (p : Panel K) (hnz : p.nz = 1) : zFrac p = 0 := by
  simp [zFrac, zs, hnz, natEmb_eq]

theorem mean_between_alg (a b n S' d : K) (ha : 0 < a) (hb : 0 ≤ b) (hn : 0 ≤ n)
    (h : a * d - b * (S' - n / 2 * d) = 0) :
    0 ≤ d / 2 * S' ∧ n * (d / 2) * S' ≤ S' * S' := by
  have hD : 0 < a + b * (n / 2) := by positivity
  have h1 : (a + b * (n / 2)) * (d / 2 * S') = b * (S' * S') / 2 := by linear_combination (S' / 2) * h
  have h2 : (a + b * (n / 2)) * (S' * S' - n * (d / 2) * S') = a * (S' * S') := by
    linear_combination (-(n / 2) * S') * h
  have p1 : 0 ≤ (a + b * (n / 2)) * (d / 2 * S') := by
    rw [h1]; exact div_nonneg (mul_nonneg hb (mul_self_nonneg _)) (by norm_num)
  have p2 : 0 ≤ (a + b * (n / 2)) * (S' * S' - n * (d / 2) * S') := by
    rw [h2]; exact mul_nonneg ha.le (mul_self_nonneg _)
  exact ⟨(mul_nonneg_iff_of_pos_left hD).1 p1, sub_nonneg.1 ((mul_nonneg_iff_of_pos_left hD).1 p2)⟩

/-- **4'. no overshoot of the mean**: with at least two axial points (`Σ_z z/h = nz/2`) the mean fluid
temperature `(Tt + Ts)/2` of the tube lies between the inlet temperature and the mean wall
temperature `S/n`: `0 ≤ (T̄ − Ts)·(S − n Ts)` and `n (T̄ − Ts)·(S − n Ts) ≤ (S − n Ts)²` -/
theorem tube_mean_between (fl : FluidFns K) (pi : K) (p : Panel K) (cp0 hf w Ts Tt : K)
    (mj : List (List K)) (hcp : fl.cp = fun _ => cp0) (hfilm : fl.film = fun _ _ _ => hf)
    (hp : PanelOK p) (hw : w ∈ p.weights) (hrow : ∀ row ∈ mj, row.length = p.nz)
    (hcp0 : 0 < cp0) (hpi : 0 ≤ pi) (hhf : 0 ≤ hf) (hnz : 1 < p.nz)
    (hz : qMassTube fl p w Ts Tt - qConvTube fl pi p w Ts Tt mj = 0) :
    0 ≤ ((Tt + Ts) / 2 - Ts) * (metalSum mj - (mj.length : K) * (p.nz : K) * Ts) ∧
    (mj.length : K) * (p.nz : K) * ((Tt + Ts) / 2 - Ts) *
        (metalSum mj - (mj.length : K) * (p.nz : K) * Ts) ≤
      (metalSum mj - (mj.length : K) * (p.nz : K) * Ts) *
        (metalSum mj - (mj.length : K) * (p.nz : K) * Ts) := by
  rw [tubeResidual_affine fl pi p cp0 hf w Ts Tt mj hcp hfilm hrow,
    zFrac_eq p hp.h_pos.ne' hnz] at hz
  have e : (Tt + Ts) / 2 - Ts = (Tt - Ts) / 2 := by ring
  rw [e]
  refine mean_between_alg (tubeA p w cp0) (tubeB pi p w hf) ((mj.length : K) * (p.nz : K)) _ _
    (tubeA_pos p w cp0 hp hw hcp0) (tubeB_nonneg pi p w hf hp hw hpi hhf)
    (mul_nonneg (Nat.cast_nonneg _) (Nat.cast_nonneg _)) ?_
  rw [← hz]; ring

end field
end SrModel.Flowpath
