import SrModel.Thermal
import Mathlib.Data.Real.Basic
import Mathlib.Tactic.Ring
import Mathlib.Tactic.Linarith
import Mathlib.Tactic.FieldSimp
import Mathlib.Tactic.Positivity
import Mathlib.Tactic.LinearCombination
import Mathlib.Algebra.BigOperators.Ring.Finset
import Mathlib.Algebra.Order.BigOperators.Group.Finset
import Mathlib.Algebra.BigOperators.Intervals
import Mathlib.Algebra.BigOperators.Field
import Mathlib.Data.Finset.Max
import Mathlib.Order.Interval.Finset.Nat

/-! Helper lemmas about `SrModel.Thermal` over `ℝ`. -/
namespace SrModel.Thermal
open Finset

/-! ### the executable rows say what `Solves` says -/

section rows
variable (P : Prob ℝ) (x : Nat → ℝ)

/-- the field read off a dof-indexed vector -/
def fieldOf (P : Prob ℝ) (x : Nat → ℝ) : GField ℝ := fun i j k => x (P.dof i j k)

theorem rowReal_res (i j k : Nat) :
    (P.rowReal i j k).res x = P.lhsReal (fieldOf P x) i j k - P.rhsReal i j k := by
  unfold Prob.rowReal Row.res Prob.lhsReal Prob.applyA fieldOf
  by_cases h2 : P.ndim ≥ 2 <;> by_cases h3 : P.ndim ≥ 3 <;> by_cases hs : P.steady = true <;>
    simp [h2, h3, hs, List.foldl, Prob.wtm, Prob.wtp, Prob.wzm, Prob.wzp] <;> ring

theorem rowInner_res (j k : Nat) :
    (P.rowInner j k).res x = P.innerRes (fieldOf P x) j k := by
  unfold Prob.rowInner Row.res Prob.innerRes fieldOf
  cases P.inner <;> simp [List.foldl] <;> ring

theorem rowOuter_res (j k : Nat) :
    (P.rowOuter j k).res x = P.outerRes (fieldOf P x) j k := by
  unfold Prob.rowOuter Row.res Prob.outerRes fieldOf
  cases P.outer <;> simp [List.foldl] <;> ring

theorem rowLeft_res (i k : Nat) :
    (P.rowLeft i k).res x = fieldOf P x i 0 k - fieldOf P x i P.Nt k := by
  simp [Prob.rowLeft, Row.res, fieldOf, List.foldl]; ring

theorem rowRight_res (i k : Nat) :
    (P.rowRight i k).res x = fieldOf P x i (P.Nt+1) k - fieldOf P x i 1 k := by
  simp [Prob.rowRight, Row.res, fieldOf, List.foldl]; ring

theorem rowTop_res (i j : Nat) :
    (P.rowTop i j).res x = fieldOf P x i j 1 - fieldOf P x i j 0 := by
  simp [Prob.rowTop, Row.res, fieldOf, List.foldl]; ring

theorem rowBot_res (i j : Nat) :
    (P.rowBot i j).res x = fieldOf P x i j P.Nz - fieldOf P x i j (P.Nz+1) := by
  simp [Prob.rowBot, Row.res, fieldOf, List.foldl]; ring

theorem mem_loopI (i : Nat) : i ∈ P.loopI ↔ P.isRealI i = true := by
  simp [Prob.loopI, Prob.isRealI]
  constructor
  · rintro ⟨a, ha, rfl⟩; omega
  · intro h; exact ⟨i - 1, by omega, by omega⟩

theorem mem_loopJ (j : Nat) : j ∈ P.loopJ ↔ P.isRealJ j = true := by
  unfold Prob.loopJ Prob.isRealJ
  split
  · simp
    constructor
    · rintro ⟨a, ha, rfl⟩; omega
    · intro h; exact ⟨j - 1, by omega, by omega⟩
  · simp

theorem mem_loopK (k : Nat) : k ∈ P.loopK ↔ P.isRealK k = true := by
  unfold Prob.loopK Prob.isRealK
  split
  · simp
    constructor
    · rintro ⟨a, ha, rfl⟩; omega
    · intro h; exact ⟨k - 1, by omega, by omega⟩
  · simp

/-- a vector annihilated by every assembled row is a solution in the sense of `Solves` -/
theorem solves_of_rows (h : ∀ r ∈ P.rows, r.res x = 0) : P.Solves (fieldOf P x) := by
  refine ⟨?_, ?_, ?_, ?_, ?_⟩
  · intro i j k hi hj hk
    have hm : P.rowReal i j k ∈ P.rows := by
      simp only [Prob.rows, List.mem_append, List.mem_flatMap, List.mem_map]
      exact Or.inl (Or.inl (Or.inl (Or.inl (Or.inl
        ⟨i, (mem_loopI P i).2 hi, j, (mem_loopJ P j).2 hj, k, (mem_loopK P k).2 hk, rfl⟩))))
    have := h _ hm
    rw [rowReal_res] at this; linarith
  · intro j k hj hk
    have hm : P.rowInner j k ∈ P.rows := by
      simp only [Prob.rows, List.mem_append, List.mem_flatMap, List.mem_map]
      exact Or.inl (Or.inl (Or.inl (Or.inl (Or.inr
        ⟨j, (mem_loopJ P j).2 hj, k, (mem_loopK P k).2 hk, rfl⟩))))
    have := h _ hm
    rwa [rowInner_res] at this
  · intro j k hj hk
    have hm : P.rowOuter j k ∈ P.rows := by
      simp only [Prob.rows, List.mem_append, List.mem_flatMap, List.mem_map]
      exact Or.inl (Or.inl (Or.inl (Or.inr
        ⟨j, (mem_loopJ P j).2 hj, k, (mem_loopK P k).2 hk, rfl⟩)))
    have := h _ hm
    rwa [rowOuter_res] at this
  · intro h2 i k hi hk
    constructor
    · have hm : P.rowLeft i k ∈ P.rows := by
        simp only [Prob.rows, List.mem_append, List.mem_flatMap, List.mem_map, if_pos h2]
        exact Or.inl (Or.inl (Or.inr (Or.inl ⟨i, (mem_loopI P i).2 hi, k, (mem_loopK P k).2 hk, rfl⟩)))
      have := h _ hm
      rwa [rowLeft_res] at this
    · have hm : P.rowRight i k ∈ P.rows := by
        simp only [Prob.rows, List.mem_append, List.mem_flatMap, List.mem_map, if_pos h2]
        exact Or.inl (Or.inl (Or.inr (Or.inr ⟨i, (mem_loopI P i).2 hi, k, (mem_loopK P k).2 hk, rfl⟩)))
      have := h _ hm
      rwa [rowRight_res] at this
  · intro h3 i j hi hj
    constructor
    · have hm : P.rowTop i j ∈ P.rows := by
        simp only [Prob.rows, List.mem_append, List.mem_flatMap, List.mem_map, if_pos h3]
        exact Or.inl (Or.inr (Or.inl ⟨i, (mem_loopI P i).2 hi, j, (mem_loopJ P j).2 hj, rfl⟩))
      have := h _ hm
      rwa [rowTop_res] at this
    · have hm : P.rowBot i j ∈ P.rows := by
        simp only [Prob.rows, List.mem_append, List.mem_flatMap, List.mem_map, if_pos h3]
        exact Or.inl (Or.inr (Or.inr ⟨i, (mem_loopI P i).2 hi, j, (mem_loopJ P j).2 hj, rfl⟩))
      have := h _ hm
      rwa [rowBot_res] at this

end rows

end SrModel.Thermal

namespace SrModel.Thermal
open Finset

/-! ### real-node index sets -/

def Prob.setI (P : Prob ℝ) : Finset Nat := Finset.Icc 1 P.N
def Prob.setJ (P : Prob ℝ) : Finset Nat := if P.ndim ≥ 2 then Finset.Icc 1 P.Nt else {0}
def Prob.setK (P : Prob ℝ) : Finset Nat := if P.ndim ≥ 3 then Finset.Icc 1 P.Nz else {0}
/-- all real nodes -/
def Prob.nodes (P : Prob ℝ) : Finset (Nat × Nat × Nat) := P.setI ×ˢ P.setJ ×ˢ P.setK

theorem mem_setI (P : Prob ℝ) (i : Nat) : i ∈ P.setI ↔ P.isRealI i = true := by
  simp [Prob.setI, Prob.isRealI]
theorem mem_setJ (P : Prob ℝ) (j : Nat) : j ∈ P.setJ ↔ P.isRealJ j = true := by
  unfold Prob.setJ Prob.isRealJ; split <;> simp
theorem mem_setK (P : Prob ℝ) (k : Nat) : k ∈ P.setK ↔ P.isRealK k = true := by
  unfold Prob.setK Prob.isRealK; split <;> simp
theorem mem_nodes (P : Prob ℝ) (i j k : Nat) :
    (i, j, k) ∈ P.nodes ↔ P.isRealI i = true ∧ P.isRealJ j = true ∧ P.isRealK k = true := by
  simp [Prob.nodes, mem_setI, mem_setJ, mem_setK]

/-- grid sizes are positive in every used direction -/
structure Prob.Sized (P : Prob ℝ) : Prop where
  hN  : 1 ≤ P.N
  hNt : P.ndim ≥ 2 → 1 ≤ P.Nt
  hNz : P.ndim ≥ 3 → 1 ≤ P.Nz

theorem nodes_nonempty (P : Prob ℝ) (hs : P.Sized) : P.nodes.Nonempty := by
  refine ⟨(1, (if P.ndim ≥ 2 then 1 else 0), (if P.ndim ≥ 3 then 1 else 0)), ?_⟩
  rw [mem_nodes]
  refine ⟨by simp [Prob.isRealI]; exact hs.hN, ?_, ?_⟩
  · unfold Prob.isRealJ; split
    · next h => simp; exact hs.hNt h
    · simp
  · unfold Prob.isRealK; split
    · next h => simp; exact hs.hNz h
    · simp

/-- all coupling weights of real nodes are non-negative -/
def Prob.WeightsNonneg (P : Prob ℝ) : Prop :=
  ∀ i j k, P.isRealI i = true → P.isRealJ j = true → P.isRealK k = true →
    0 ≤ P.wrm i j k ∧ 0 ≤ P.wrp i j k ∧ 0 ≤ P.wtm i j k ∧ 0 ≤ P.wtp i j k ∧
    0 ≤ P.wzm i j k ∧ 0 ≤ P.wzp i j k

/-- physical positivity implies non-negative weights: `c ≥ 0` everywhere, `r_i > 0` at real nodes,
and every half-node radius `r_{i+½} ≥ 0`, `i = 0 … N` (i.e. `dr ≤ 2·r_inner`) -/
theorem weightsNonneg_of_pos (P : Prob ℝ) (hc : ∀ i j k, 0 ≤ P.c i j k)
    (hr : ∀ i, P.isRealI i = true → 0 < P.rr i) (hrh : ∀ i, i ≤ P.N → 0 ≤ P.rh i) :
    P.WeightsNonneg := by
  intro i j k hi _ _
  have hi' : 1 ≤ i ∧ i ≤ P.N := by simpa [Prob.isRealI] using hi
  have hri := hr i hi
  have ha : ∀ a b : ℝ, 0 ≤ a → 0 ≤ b → 0 ≤ (a + b) / 2 := fun a b h1 h2 => by positivity
  have hd : 0 ≤ P.rr i * (P.dr * P.dr) := mul_nonneg hri.le (mul_self_nonneg _)
  refine ⟨?_, ?_, ?_, ?_, ?_, ?_⟩
  · exact div_nonneg (mul_nonneg (hrh (i-1) (by omega)) (ha _ _ (hc _ _ _) (hc _ _ _))) hd
  · exact div_nonneg (mul_nonneg (hrh i hi'.2) (ha _ _ (hc _ _ _) (hc _ _ _))) hd
  · unfold Prob.wtm; split
    · exact div_nonneg (ha _ _ (hc _ _ _) (hc _ _ _))
        (mul_nonneg (mul_nonneg hri.le hri.le) (mul_self_nonneg _))
    · exact le_refl _
  · unfold Prob.wtp; split
    · exact div_nonneg (ha _ _ (hc _ _ _) (hc _ _ _))
        (mul_nonneg (mul_nonneg hri.le hri.le) (mul_self_nonneg _))
    · exact le_refl _
  · unfold Prob.wzm; split
    · exact div_nonneg (ha _ _ (hc _ _ _) (hc _ _ _)) (mul_self_nonneg _)
    · exact le_refl _
  · unfold Prob.wzp; split
    · exact div_nonneg (ha _ _ (hc _ _ _) (hc _ _ _)) (mul_self_nonneg _)
    · exact le_refl _

/-- what a wall may contribute without raising the solution above `B`:
fixed values and fluid temperatures at most `B`, prescribed flux not heating, film number ≥ 0 -/
def Wall.UpperOK (w : Wall ℝ) (dr : ℝ) (kw : Nat → Nat → ℝ) (B : ℝ) (rj rk : Nat → Bool) : Prop :=
  match w with
  | .ins => True
  | .fix v => ∀ j k, rj j = true → rk k = true → v j k ≤ B
  | .flux q => ∀ j k, rj j = true → rk k = true → dr * q j k / kw j k ≤ 0
  | .conv tf h => ∀ j k, rj j = true → rk k = true → 0 ≤ dr * h j k / kw j k ∧ tf j k ≤ B

theorem inner_nbr_le (P : Prob ℝ) (T : GField ℝ) (B : ℝ) (j k : Nat)
    (hj : P.isRealJ j = true) (hk : P.isRealK k = true)
    (hres : P.innerRes T j k = 0)
    (hok : P.inner.UpperOK P.dr (fun j k => P.kk 1 j k) B P.isRealJ P.isRealK)
    (hB : B < T 1 j k) : T 0 j k ≤ T 1 j k := by
  unfold Prob.innerRes at hres
  unfold Wall.UpperOK at hok
  cases hw : P.inner with
  | ins => rw [hw] at hres; simp only at hres; linarith
  | fix v => rw [hw] at hres hok; simp only at hres hok; have := hok j k hj hk; linarith
  | flux q => rw [hw] at hres hok; simp only at hres hok; have := hok j k hj hk; linarith
  | conv tf h =>
    rw [hw] at hres hok; simp only at hres hok
    obtain ⟨hb, ht⟩ := hok j k hj hk
    have : P.dr * h j k * (T 1 j k - tf j k) / P.kk 1 j k
        = (P.dr * h j k / P.kk 1 j k) * (T 1 j k - tf j k) := by ring
    have h2 : 0 ≤ (P.dr * h j k / P.kk 1 j k) * (T 1 j k - tf j k) :=
      mul_nonneg hb (by linarith)
    linarith

theorem outer_nbr_le (P : Prob ℝ) (T : GField ℝ) (B : ℝ) (j k : Nat)
    (hj : P.isRealJ j = true) (hk : P.isRealK k = true)
    (hres : P.outerRes T j k = 0)
    (hok : P.outer.UpperOK P.dr (fun j k => P.kk P.N j k) B P.isRealJ P.isRealK)
    (hB : B < T P.N j k) : T (P.N+1) j k ≤ T P.N j k := by
  unfold Prob.outerRes at hres
  unfold Wall.UpperOK at hok
  cases hw : P.outer with
  | ins => rw [hw] at hres; simp only at hres; linarith
  | fix v => rw [hw] at hres hok; simp only at hres hok; have := hok j k hj hk; linarith
  | flux q => rw [hw] at hres hok; simp only at hres hok; have := hok j k hj hk; linarith
  | conv tf h =>
    rw [hw] at hres hok; simp only at hres hok
    obtain ⟨hb, ht⟩ := hok j k hj hk
    have : P.dr * h j k * (T P.N j k - tf j k) / P.kk P.N j k
        = (P.dr * h j k / P.kk P.N j k) * (T P.N j k - tf j k) := by ring
    have h2 : 0 ≤ (P.dr * h j k / P.kk P.N j k) * (T P.N j k - tf j k) :=
      mul_nonneg hb (by linarith)
    linarith

theorem term_nonpos (w x y : ℝ) (h : w = 0 ∨ (0 ≤ w ∧ x ≤ y)) : w * (x - y) ≤ 0 := by
  rcases h with h | ⟨h1, h2⟩
  · rw [h]; simp
  · exact mul_nonpos_of_nonneg_of_nonpos h1 (by linarith)

/-- **Discrete maximum principle, one transient step (upper bound).** -/
theorem max_principle_upper (P : Prob ℝ) (T : GField ℝ) (B : ℝ)
    (hs : P.Sized) (hst : P.steady = false) (hdt : 0 < P.dt) (hw : P.WeightsNonneg)
    (hsol : P.Solves T)
    (hrhs : ∀ i j k, P.isRealI i = true → P.isRealJ j = true → P.isRealK k = true →
        P.rhsReal i j k ≤ B)
    (hin : P.inner.UpperOK P.dr (fun j k => P.kk 1 j k) B P.isRealJ P.isRealK)
    (hout : P.outer.UpperOK P.dr (fun j k => P.kk P.N j k) B P.isRealJ P.isRealK) :
    ∀ i j k, P.isRealI i = true → P.isRealJ j = true → P.isRealK k = true → T i j k ≤ B := by
  obtain ⟨hreal, hinner, houter, hper, hax⟩ := hsol
  obtain ⟨⟨im, jm, km⟩, hmem, hmax⟩ :=
    Finset.exists_max_image P.nodes (fun p => T p.1 p.2.1 p.2.2) (nodes_nonempty P hs)
  have hmax' : ∀ i j k, P.isRealI i = true → P.isRealJ j = true → P.isRealK k = true →
      T i j k ≤ T im jm km := fun i j k hi hj hk => hmax (i, j, k) ((mem_nodes P i j k).2 ⟨hi, hj, hk⟩)
  obtain ⟨hi, hj, hk⟩ := (mem_nodes P im jm km).1 hmem
  by_contra hcon
  push_neg at hcon
  obtain ⟨i0, j0, k0, hi0, hj0, hk0, hlt⟩ := hcon
  have hB : B < T im jm km := lt_of_lt_of_le hlt (hmax' i0 j0 k0 hi0 hj0 hk0)
  have hiR : 1 ≤ im ∧ im ≤ P.N := by simpa [Prob.isRealI] using hi
  obtain ⟨w1, w2, w3, w4, w5, w6⟩ := hw im jm km hi hj hk
  -- every neighbour value is at most the maximum
  have n1 : T (im-1) jm km ≤ T im jm km := by
    by_cases h1 : im = 1
    · subst h1; exact inner_nbr_le P T B jm km hj hk (hinner jm km hj hk) hin hB
    · exact hmax' _ _ _ (by simp [Prob.isRealI]; omega) hj hk
  have n2 : T (im+1) jm km ≤ T im jm km := by
    by_cases h1 : im = P.N
    · subst h1; exact outer_nbr_le P T B jm km hj hk (houter jm km hj hk) hout hB
    · exact hmax' _ _ _ (by simp [Prob.isRealI]; omega) hj hk
  have n3 : P.wtm im jm km = 0 ∨ (0 ≤ P.wtm im jm km ∧ T im (jm-1) km ≤ T im jm km) := by
    by_cases h2 : P.ndim ≥ 2
    · right; refine ⟨w3, ?_⟩
      have hjR : 1 ≤ jm ∧ jm ≤ P.Nt := by simpa [Prob.isRealJ, h2] using hj
      by_cases h1 : jm = 1
      · subst h1
        have := (hper h2 im km hi hk).1
        have hle := hmax' im P.Nt km hi (by simp [Prob.isRealJ, h2]; omega) hk
        simp only [Nat.sub_self]; linarith
      · exact hmax' _ _ _ hi (by simp [Prob.isRealJ, h2]; omega) hk
    · left; simp [Prob.wtm, h2]
  have n4 : P.wtp im jm km = 0 ∨ (0 ≤ P.wtp im jm km ∧ T im (jm+1) km ≤ T im jm km) := by
    by_cases h2 : P.ndim ≥ 2
    · right; refine ⟨w4, ?_⟩
      have hjR : 1 ≤ jm ∧ jm ≤ P.Nt := by simpa [Prob.isRealJ, h2] using hj
      by_cases h1 : jm = P.Nt
      · subst h1
        have := (hper h2 im km hi hk).2
        have hle := hmax' im 1 km hi (by simp [Prob.isRealJ, h2]; omega) hk
        linarith
      · exact hmax' _ _ _ hi (by simp [Prob.isRealJ, h2]; omega) hk
    · left; simp [Prob.wtp, h2]
  have n5 : P.wzm im jm km = 0 ∨ (0 ≤ P.wzm im jm km ∧ T im jm (km-1) ≤ T im jm km) := by
    by_cases h3 : P.ndim ≥ 3
    · right; refine ⟨w5, ?_⟩
      have hkR : 1 ≤ km ∧ km ≤ P.Nz := by simpa [Prob.isRealK, h3] using hk
      by_cases h1 : km = 1
      · subst h1
        have := (hax h3 im jm hi hj).1
        simp only [Nat.sub_self]; linarith
      · exact hmax' _ _ _ hi hj (by simp [Prob.isRealK, h3]; omega)
    · left; simp [Prob.wzm, h3]
  have n6 : P.wzp im jm km = 0 ∨ (0 ≤ P.wzp im jm km ∧ T im jm (km+1) ≤ T im jm km) := by
    by_cases h3 : P.ndim ≥ 3
    · right; refine ⟨w6, ?_⟩
      have hkR : 1 ≤ km ∧ km ≤ P.Nz := by simpa [Prob.isRealK, h3] using hk
      by_cases h1 : km = P.Nz
      · subst h1
        have := (hax h3 im jm hi hj).2
        linarith
      · exact hmax' _ _ _ hi hj (by simp [Prob.isRealK, h3]; omega)
    · left; simp [Prob.wzp, h3]
  have hA : P.applyA T im jm km ≤ 0 := by
    unfold Prob.applyA
    have t1 := term_nonpos _ _ _ (Or.inr ⟨w1, n1⟩ : P.wrm im jm km = 0 ∨ _)
    have t2 := term_nonpos _ _ _ (Or.inr ⟨w2, n2⟩ : P.wrp im jm km = 0 ∨ _)
    have t3 := term_nonpos _ _ _ n3
    have t4 := term_nonpos _ _ _ n4
    have t5 := term_nonpos _ _ _ n5
    have t6 := term_nonpos _ _ _ n6
    linarith
  have hrow := hreal im jm km hi hj hk
  unfold Prob.lhsReal at hrow
  rw [hst] at hrow
  simp only [Bool.false_eq_true, if_false] at hrow
  have := hrhs im jm km hi hj hk
  have : P.dt * P.applyA T im jm km ≤ 0 := mul_nonpos_of_nonneg_of_nonpos hdt.le hA
  linarith

end SrModel.Thermal

namespace SrModel.Thermal

/-! ### linearity of the step in its data -/

/-- the data of a step: source, previous temperatures and wall data -/
structure Data where
  src   : GField ℝ
  Tn    : GField ℝ
  inner : Wall ℝ
  outer : Wall ℝ

def Prob.data (P : Prob ℝ) : Data := ⟨P.src, P.Tn, P.inner, P.outer⟩
/-- same operator (geometry, coefficients, step), other data -/
def Prob.withData (P : Prob ℝ) (d : Data) : Prob ℝ :=
  { P with src := d.src, Tn := d.Tn, inner := d.inner, outer := d.outer }

theorem Prob.withData_data (P : Prob ℝ) : P.withData P.data = P := rfl

def Wall.comb (a b : ℝ) : Wall ℝ → Wall ℝ → Wall ℝ
  | .ins, .ins => .ins
  | .fix v, .fix v' => .fix (fun j k => a * v j k + b * v' j k)
  | .flux q, .flux q' => .flux (fun j k => a * q j k + b * q' j k)
  | .conv tf h, .conv tf' _ => .conv (fun j k => a * tf j k + b * tf' j k) h
  | w, _ => w

/-- two walls of the same kind (and, for convective walls, the same film coefficient) -/
def Wall.Same : Wall ℝ → Wall ℝ → Prop
  | .ins, .ins => True
  | .fix _, .fix _ => True
  | .flux _, .flux _ => True
  | .conv _ h, .conv _ h' => ∀ j k, h j k = h' j k
  | _, _ => False

def Data.comb (a b : ℝ) (d e : Data) : Data :=
  ⟨fun i j k => a * d.src i j k + b * e.src i j k, fun i j k => a * d.Tn i j k + b * e.Tn i j k,
   Wall.comb a b d.inner e.inner, Wall.comb a b d.outer e.outer⟩

def GField.comb (a b : ℝ) (T T' : GField ℝ) : GField ℝ := fun i j k => a * T i j k + b * T' i j k

theorem applyA_comb (P : Prob ℝ) (d e f : Data) (a b : ℝ) (T T' : GField ℝ) (i j k : Nat) :
    (P.withData f).applyA (GField.comb a b T T') i j k
      = a * (P.withData d).applyA T i j k + b * (P.withData e).applyA T' i j k := by
  simp only [Prob.applyA, GField.comb, Prob.withData, Prob.wrm, Prob.wrp, Prob.wtm, Prob.wtp,
    Prob.wzm, Prob.wzp, Prob.rh, Prob.ahr, Prob.aht, Prob.ahz]
  ring

theorem innerRes_comb (P : Prob ℝ) (d e : Data) (a b : ℝ) (T T' : GField ℝ) (j k : Nat)
    (hs : Wall.Same d.inner e.inner) :
    (P.withData (Data.comb a b d e)).innerRes (GField.comb a b T T') j k
      = a * (P.withData d).innerRes T j k + b * (P.withData e).innerRes T' j k := by
  obtain ⟨s1, t1, i1, o1⟩ := d
  obtain ⟨s2, t2, i2, o2⟩ := e
  cases i1 <;> cases i2 <;> simp [Wall.Same] at hs <;>
    simp [Prob.innerRes, Prob.withData, Data.comb, Wall.comb, GField.comb]
  · ring
  · ring
  · ring
  · rw [hs j k]; ring

theorem outerRes_comb (P : Prob ℝ) (d e : Data) (a b : ℝ) (T T' : GField ℝ) (j k : Nat)
    (hs : Wall.Same d.outer e.outer) :
    (P.withData (Data.comb a b d e)).outerRes (GField.comb a b T T') j k
      = a * (P.withData d).outerRes T j k + b * (P.withData e).outerRes T' j k := by
  obtain ⟨s1, t1, i1, o1⟩ := d
  obtain ⟨s2, t2, i2, o2⟩ := e
  cases o1 <;> cases o2 <;> simp [Wall.Same] at hs <;>
    simp [Prob.outerRes, Prob.withData, Data.comb, Wall.comb, GField.comb]
  · ring
  · ring
  · ring
  · rw [hs j k]; ring

/-- **Superposition.** The step is linear in (source, previous temperatures, wall data): a linear
combination of solutions solves the problem with the combined data (same operator). -/
theorem solves_comb (P : Prob ℝ) (d e : Data) (a b : ℝ) (T T' : GField ℝ)
    (hi : Wall.Same d.inner e.inner) (ho : Wall.Same d.outer e.outer)
    (h1 : (P.withData d).Solves T) (h2 : (P.withData e).Solves T') :
    (P.withData (Data.comb a b d e)).Solves (GField.comb a b T T') := by
  obtain ⟨r1, i1, o1, p1, z1⟩ := h1
  obtain ⟨r2, i2, o2, p2, z2⟩ := h2
  refine ⟨?_, ?_, ?_, ?_, ?_⟩
  · intro i j k hi' hj hk
    have e1 := r1 i j k hi' hj hk
    have e2 := r2 i j k hi' hj hk
    have hA := applyA_comb P d e (Data.comb a b d e) a b T T' i j k
    unfold Prob.lhsReal Prob.rhsReal at *
    by_cases hs : P.steady = true
    · have hs' : (P.withData (Data.comb a b d e)).steady = true := hs
      have hs1 : (P.withData d).steady = true := hs
      have hs2 : (P.withData e).steady = true := hs
      rw [if_pos hs', if_pos hs']
      rw [if_pos hs1, if_pos hs1] at e1
      rw [if_pos hs2, if_pos hs2] at e2
      rw [hA]
      simp only [Prob.withData, Data.comb] at e1 e2 ⊢
      linear_combination a * e1 + b * e2
    · have hs' : ¬ (P.withData (Data.comb a b d e)).steady = true := hs
      have hs1 : ¬ (P.withData d).steady = true := hs
      have hs2 : ¬ (P.withData e).steady = true := hs
      rw [if_neg hs', if_neg hs']
      rw [if_neg hs1, if_neg hs1] at e1
      rw [if_neg hs2, if_neg hs2] at e2
      rw [hA]
      simp only [Prob.withData, Data.comb, GField.comb] at e1 e2 ⊢
      linear_combination a * e1 + b * e2
  · intro j k hj hk
    rw [innerRes_comb P d e a b T T' j k hi, i1 j k hj hk, i2 j k hj hk]; ring
  · intro j k hj hk
    rw [outerRes_comb P d e a b T T' j k ho, o1 j k hj hk, o2 j k hj hk]; ring
  · intro hn i k hi' hk
    have q1 := p1 hn i k hi' hk
    have q2 := p2 hn i k hi' hk
    simp only [GField.comb, Prob.withData] at q1 q2 ⊢
    constructor
    · linear_combination a * q1.1 + b * q2.1
    · linear_combination a * q1.2 + b * q2.2
  · intro hn i j hi' hj
    have q1 := z1 hn i j hi' hj
    have q2 := z2 hn i j hi' hj
    simp only [GField.comb, Prob.withData] at q1 q2 ⊢
    constructor
    · linear_combination a * q1.1 + b * q2.1
    · linear_combination a * q1.2 + b * q2.2

end SrModel.Thermal

namespace SrModel.Thermal

theorem Prob.Sized.withData {P : Prob ℝ} (h : P.Sized) (d : Data) : (P.withData d).Sized :=
  ⟨h.hN, h.hNt, h.hNz⟩

theorem Wall.same_refl (w : Wall ℝ) : Wall.Same w w := by
  cases w <;> simp [Wall.Same]

/-- mirror image of `Wall.UpperOK` -/
def Wall.LowerOK (w : Wall ℝ) (dr : ℝ) (kw : Nat → Nat → ℝ) (B : ℝ) (rj rk : Nat → Bool) : Prop :=
  match w with
  | .ins => True
  | .fix v => ∀ j k, rj j = true → rk k = true → B ≤ v j k
  | .flux q => ∀ j k, rj j = true → rk k = true → 0 ≤ dr * q j k / kw j k
  | .conv tf h => ∀ j k, rj j = true → rk k = true → 0 ≤ dr * h j k / kw j k ∧ B ≤ tf j k

theorem Wall.upperOK_neg (w : Wall ℝ) (dr : ℝ) (kw : Nat → Nat → ℝ) (B : ℝ) (rj rk : Nat → Bool)
    (h : w.LowerOK dr kw B rj rk) : (Wall.comb (-1) 0 w w).UpperOK dr kw (-B) rj rk := by
  cases w with
  | ins => simp [Wall.comb, Wall.UpperOK]
  | fix v =>
    simp only [Wall.comb, Wall.UpperOK, Wall.LowerOK] at h ⊢
    intro j k hj hk; have := h j k hj hk; linarith
  | flux q =>
    simp only [Wall.comb, Wall.UpperOK, Wall.LowerOK] at h ⊢
    intro j k hj hk; have := h j k hj hk
    have e : dr * (-1 * q j k + 0 * q j k) / kw j k = -(dr * q j k / kw j k) := by ring
    rw [e]; linarith
  | conv tf hh =>
    simp only [Wall.comb, Wall.UpperOK, Wall.LowerOK] at h ⊢
    intro j k hj hk; have := h j k hj hk
    exact ⟨this.1, by linarith [this.2]⟩

/-- **Discrete minimum principle, one transient step (lower bound).** -/
theorem max_principle_lower (P : Prob ℝ) (T : GField ℝ) (B : ℝ)
    (hs : P.Sized) (hst : P.steady = false) (hdt : 0 < P.dt) (hw : P.WeightsNonneg)
    (hsol : P.Solves T)
    (hrhs : ∀ i j k, P.isRealI i = true → P.isRealJ j = true → P.isRealK k = true →
        B ≤ P.rhsReal i j k)
    (hin : P.inner.LowerOK P.dr (fun j k => P.kk 1 j k) B P.isRealJ P.isRealK)
    (hout : P.outer.LowerOK P.dr (fun j k => P.kk P.N j k) B P.isRealJ P.isRealK) :
    ∀ i j k, P.isRealI i = true → P.isRealJ j = true → P.isRealK k = true → B ≤ T i j k := by
  have hsol' := solves_comb P P.data P.data (-1) 0 T T (Wall.same_refl _) (Wall.same_refl _) hsol hsol
  have key := max_principle_upper (P.withData (Data.comb (-1) 0 P.data P.data))
    (GField.comb (-1) 0 T T) (-B) (hs.withData _) hst hdt hw hsol'
    (by
      intro i j k hi hj hk
      have := hrhs i j k hi hj hk
      unfold Prob.rhsReal at this ⊢
      have hst' : (P.withData (Data.comb (-1) 0 P.data P.data)).steady = false := hst
      rw [hst'] ; rw [hst] at this
      simp only [Bool.false_eq_true, if_false, Prob.withData, Data.comb, Prob.data] at this ⊢
      linarith)
    (Wall.upperOK_neg _ _ _ _ _ _ hin) (Wall.upperOK_neg _ _ _ _ _ _ hout)
  intro i j k hi hj hk
  have := key i j k hi hj hk
  simp only [GField.comb] at this
  linarith

/-- **Uniqueness of the transient step.** Two solutions of the same step agree at every real node. -/
theorem step_unique (P : Prob ℝ) (T T' : GField ℝ)
    (hs : P.Sized) (hst : P.steady = false) (hdt : 0 < P.dt) (hw : P.WeightsNonneg)
    (hconv_in : ∀ tf h, P.inner = .conv tf h → ∀ j k, 0 ≤ P.dr * h j k / P.kk 1 j k)
    (hconv_out : ∀ tf h, P.outer = .conv tf h → ∀ j k, 0 ≤ P.dr * h j k / P.kk P.N j k)
    (h1 : P.Solves T) (h2 : P.Solves T') :
    ∀ i j k, P.isRealI i = true → P.isRealJ j = true → P.isRealK k = true → T i j k = T' i j k := by
  have hd := solves_comb P P.data P.data 1 (-1) T T' (Wall.same_refl _) (Wall.same_refl _) h1 h2
  set Q := P.withData (Data.comb 1 (-1) P.data P.data) with hQ
  have hrhs0 : ∀ i j k, Q.rhsReal i j k = 0 := by
    intro i j k
    have hst' : Q.steady = false := hst
    unfold Prob.rhsReal; rw [hst']
    simp [hQ, Prob.withData, Data.comb, Prob.data]
  have hup : ∀ (w : Wall ℝ) (kw : Nat → Nat → ℝ),
      (∀ tf h, w = .conv tf h → ∀ j k, 0 ≤ P.dr * h j k / kw j k) →
      (Wall.comb 1 (-1) w w).UpperOK P.dr kw 0 Q.isRealJ Q.isRealK ∧
      (Wall.comb 1 (-1) w w).LowerOK P.dr kw 0 Q.isRealJ Q.isRealK := by
    intro w kw hc
    cases w with
    | ins => simp [Wall.comb, Wall.UpperOK, Wall.LowerOK]
    | fix v => simp [Wall.comb, Wall.UpperOK, Wall.LowerOK]
    | flux q => simp [Wall.comb, Wall.UpperOK, Wall.LowerOK]
    | conv tf h =>
      simp only [Wall.comb, Wall.UpperOK, Wall.LowerOK]
      have := hc tf h rfl
      exact ⟨fun j k _ _ => ⟨this j k, by simp⟩, fun j k _ _ => ⟨this j k, by simp⟩⟩
  have hi := hup P.inner (fun j k => P.kk 1 j k) hconv_in
  have ho := hup P.outer (fun j k => P.kk P.N j k) hconv_out
  have up := max_principle_upper Q (GField.comb 1 (-1) T T') 0 (hs.withData _) hst hdt hw hd
    (fun i j k _ _ _ => le_of_eq (hrhs0 i j k)) hi.1 ho.1
  have lo := max_principle_lower Q (GField.comb 1 (-1) T T') 0 (hs.withData _) hst hdt hw hd
    (fun i j k _ _ _ => le_of_eq (hrhs0 i j k).symm) hi.2 ho.2
  intro i j k hi' hj hk
  have a := up i j k hi' hj hk
  have b := lo i j k hi' hj hk
  simp only [GField.comb] at a b
  linarith

end SrModel.Thermal

namespace SrModel.Thermal
open Finset

/-! ### conservation: telescoping sums -/
noncomputable section

theorem sum_Icc_telescope (F : Nat → ℝ) (N : Nat) :
    ∑ i ∈ Finset.Icc 1 N, (F i - F (i-1)) = F N - F 0 := by
  induction N with
  | zero => simp
  | succ n ih =>
    rw [Finset.sum_Icc_succ_top (by omega), ih]
    simp

/-- radial face fluxes `(r c)_{½}(T₁ − T₀)` and `(r c)_{N+½}(T_{N+1} − T_N)` -/
def Prob.innerFace (P : Prob ℝ) (T : GField ℝ) (j k : Nat) : ℝ :=
  P.rh 0 * P.ahr 0 j k * (T 1 j k - T 0 j k)
def Prob.outerFace (P : Prob ℝ) (T : GField ℝ) (j k : Nat) : ℝ :=
  P.rh P.N * P.ahr P.N j k * (T (P.N+1) j k - T P.N j k)

/-- the three directional parts of `applyA` -/
def Prob.Ar (P : Prob ℝ) (T : GField ℝ) (i j k : Nat) : ℝ :=
  P.wrm i j k * (T (i-1) j k - T i j k) + P.wrp i j k * (T (i+1) j k - T i j k)
def Prob.At (P : Prob ℝ) (T : GField ℝ) (i j k : Nat) : ℝ :=
  P.wtm i j k * (T i (j-1) k - T i j k) + P.wtp i j k * (T i (j+1) k - T i j k)
def Prob.Az (P : Prob ℝ) (T : GField ℝ) (i j k : Nat) : ℝ :=
  P.wzm i j k * (T i j (k-1) - T i j k) + P.wzp i j k * (T i j (k+1) - T i j k)

theorem applyA_split (P : Prob ℝ) (T : GField ℝ) (i j k : Nat) :
    P.applyA T i j k = P.Ar T i j k + P.At T i j k + P.Az T i j k := rfl

/-- **radial telescoping**: `Σ_i r_i (A_r T)_i = (outer face − inner face)/dr²` -/
theorem radial_telescope (P : Prob ℝ) (T : GField ℝ) (j k : Nat)
    (hr : ∀ i, P.isRealI i = true → P.rr i ≠ 0) :
    ∑ i ∈ P.setI, P.rr i * P.Ar T i j k
      = (P.outerFace T j k - P.innerFace T j k) / (P.dr * P.dr) := by
  set F : Nat → ℝ := fun i => P.rh i * P.ahr i j k * (T (i+1) j k - T i j k) with hF
  have hterm : ∀ i ∈ P.setI, P.rr i * P.Ar T i j k = (F i - F (i-1)) / (P.dr * P.dr) := by
    intro i hi
    have hi' := (mem_setI P i).1 hi
    have hne := hr i hi'
    have h1 : 1 ≤ i := by simp [Prob.isRealI] at hi'; omega
    have e : i - 1 + 1 = i := by omega
    simp only [Prob.Ar, Prob.wrm, Prob.wrp, hF, e]
    have hx : ∀ x : ℝ, P.rr i * (x / (P.rr i * (P.dr * P.dr))) = x / (P.dr * P.dr) := by
      intro x; rw [← mul_div_assoc, mul_div_mul_left _ _ hne]
    have key : ∀ x y : ℝ, P.rr i * (x / (P.rr i * (P.dr * P.dr)) * y) = x * y / (P.dr * P.dr) := by
      intro x y; rw [← mul_assoc, hx]; ring
    rw [mul_add, key, key]
    ring
  rw [Finset.sum_congr rfl hterm, ← Finset.sum_div, Prob.setI, sum_Icc_telescope]
  simp [hF, Prob.outerFace, Prob.innerFace]

/-- **circumferential telescoping**: with the periodic ghost columns satisfied and the
coefficient itself periodic there, the circumferential operator sums to zero over a ring -/
theorem circ_telescope (P : Prob ℝ) (T : GField ℝ) (i k : Nat) (h2 : P.ndim ≥ 2)
    (hper : T i 0 k - T i P.Nt k = 0 ∧ T i (P.Nt+1) k - T i 1 k = 0)
    (hc : P.c i P.Nt k + P.c i (P.Nt+1) k = P.c i 0 k + P.c i 1 k) :
    ∑ j ∈ P.setJ, P.At T i j k = 0 := by
  set F : Nat → ℝ := fun j => P.aht i j k * (T i (j+1) k - T i j k) with hF
  have hterm : ∀ j ∈ P.setJ, P.At T i j k
      = (F j - F (j-1)) / (P.rr i * P.rr i * (P.dth * P.dth)) := by
    intro j hj
    have hj' := (mem_setJ P j).1 hj
    have h1 : 1 ≤ j := by simp [Prob.isRealJ, h2] at hj'; omega
    have e : j - 1 + 1 = j := by omega
    simp only [Prob.At, Prob.wtm, Prob.wtp, if_pos h2, hF, e]
    ring
  rw [Finset.sum_congr rfl hterm, ← Finset.sum_div]
  have : P.setJ = Finset.Icc 1 P.Nt := by simp [Prob.setJ, h2]
  rw [this, sum_Icc_telescope]
  have hzero : F P.Nt - F 0 = 0 := by
    simp only [hF, Prob.aht]
    have e1 : T i (P.Nt+1) k = T i 1 k := by linarith [hper.2]
    have e0 : T i 0 k = T i P.Nt k := by linarith [hper.1]
    rw [e1, e0]
    have : (P.c i P.Nt k + P.c i (P.Nt + 1) k) / 2 = (P.c i 0 k + P.c i (0+1) k) / 2 := by
      rw [hc]
    rw [this]; ring
  rw [hzero]; simp

/-- **axial telescoping**: zero-gradient end planes -/
theorem axial_telescope (P : Prob ℝ) (T : GField ℝ) (i j : Nat) (h3 : P.ndim ≥ 3)
    (hax : T i j 1 - T i j 0 = 0 ∧ T i j P.Nz - T i j (P.Nz+1) = 0) :
    ∑ k ∈ P.setK, P.Az T i j k = 0 := by
  set F : Nat → ℝ := fun k => P.ahz i j k * (T i j (k+1) - T i j k) with hF
  have hterm : ∀ k ∈ P.setK, P.Az T i j k = (F k - F (k-1)) / (P.dz * P.dz) := by
    intro k hk
    have hk' := (mem_setK P k).1 hk
    have h1 : 1 ≤ k := by simp [Prob.isRealK, h3] at hk'; omega
    have e : k - 1 + 1 = k := by omega
    simp only [Prob.Az, Prob.wzm, Prob.wzp, if_pos h3, hF, e]
    ring
  rw [Finset.sum_congr rfl hterm, ← Finset.sum_div]
  have : P.setK = Finset.Icc 1 P.Nz := by simp [Prob.setK, h3]
  rw [this, sum_Icc_telescope]
  have hzero : F P.Nz - F 0 = 0 := by
    simp only [hF]
    have e1 : T i j (P.Nz+1) = T i j P.Nz := by linarith [hax.2]
    have e0 : T i j (0+1) = T i j 0 := by simpa using (by linarith [hax.1] : T i j 1 = T i j 0)
    rw [e1, e0]; ring
  rw [hzero]; simp

/-- stored heat (up to the constant factor `ρ c_p Δr Δθ Δz`): `Σ r_i T_i` over real nodes -/
def Prob.energy (P : Prob ℝ) (T : GField ℝ) : ℝ :=
  ∑ i ∈ P.setI, ∑ j ∈ P.setJ, ∑ k ∈ P.setK, P.rr i * T i j k

/-- the coefficient is periodic in the circumferential ghost columns -/
def Prob.CPeriodic (P : Prob ℝ) : Prop :=
  P.ndim ≥ 2 → ∀ i k, P.isRealI i = true → P.isRealK k = true →
    P.c i P.Nt k + P.c i (P.Nt+1) k = P.c i 0 k + P.c i 1 k

/-- `Σ r_i (A T)_i` over all real nodes is the net radial face flux -/
theorem sum_applyA (P : Prob ℝ) (T : GField ℝ) (hsol : P.Solves T) (hcp : P.CPeriodic)
    (hr : ∀ i, P.isRealI i = true → P.rr i ≠ 0) :
    ∑ i ∈ P.setI, ∑ j ∈ P.setJ, ∑ k ∈ P.setK, P.rr i * P.applyA T i j k
      = (∑ j ∈ P.setJ, ∑ k ∈ P.setK, (P.outerFace T j k - P.innerFace T j k)) / (P.dr * P.dr) := by
  obtain ⟨_, _, _, hper, hax⟩ := hsol
  have hsplit : ∀ i j k, P.rr i * P.applyA T i j k
      = P.rr i * P.Ar T i j k + P.rr i * P.At T i j k + P.rr i * P.Az T i j k := by
    intro i j k; rw [applyA_split]; ring
  simp_rw [hsplit, Finset.sum_add_distrib]
  -- axial part vanishes
  have hz : ∑ i ∈ P.setI, ∑ j ∈ P.setJ, ∑ k ∈ P.setK, P.rr i * P.Az T i j k = 0 := by
    apply Finset.sum_eq_zero; intro i hi
    apply Finset.sum_eq_zero; intro j hj
    rw [← Finset.mul_sum]
    by_cases h3 : P.ndim ≥ 3
    · rw [axial_telescope P T i j h3 (hax h3 i j ((mem_setI P i).1 hi) ((mem_setJ P j).1 hj))]; simp
    · have : ∀ k, P.Az T i j k = 0 := by intro k; simp [Prob.Az, Prob.wzm, Prob.wzp, h3]
      simp [this]
  -- circumferential part vanishes
  have ht : ∑ i ∈ P.setI, ∑ j ∈ P.setJ, ∑ k ∈ P.setK, P.rr i * P.At T i j k = 0 := by
    apply Finset.sum_eq_zero; intro i hi
    rw [Finset.sum_comm]
    apply Finset.sum_eq_zero; intro k hk
    rw [← Finset.mul_sum]
    by_cases h2 : P.ndim ≥ 2
    · rw [circ_telescope P T i k h2 (hper h2 i k ((mem_setI P i).1 hi) ((mem_setK P k).1 hk))
        (hcp h2 i k ((mem_setI P i).1 hi) ((mem_setK P k).1 hk))]; simp
    · have : ∀ j, P.At T i j k = 0 := by intro j; simp [Prob.At, Prob.wtm, Prob.wtp, h2]
      simp [this]
  rw [hz, ht, add_zero, add_zero]
  -- radial part telescopes
  rw [Finset.sum_comm]
  rw [Finset.sum_div]
  apply Finset.sum_congr rfl; intro j _
  rw [Finset.sum_comm, Finset.sum_div]
  apply Finset.sum_congr rfl; intro k _
  exact radial_telescope P T j k hr

/-- **Energy balance of one transient step**: the change of `Σ r_i T_i` equals `Δt` times the net
radial face flux plus the source; nothing crosses periodic or axial faces. -/
theorem step_balance (P : Prob ℝ) (T : GField ℝ) (hst : P.steady = false)
    (hsol : P.Solves T) (hcp : P.CPeriodic) (hr : ∀ i, P.isRealI i = true → P.rr i ≠ 0) :
    P.energy T - P.energy P.Tn
      = P.dt * ((∑ j ∈ P.setJ, ∑ k ∈ P.setK, (P.outerFace T j k - P.innerFace T j k)) / (P.dr * P.dr))
        + P.dt * ∑ i ∈ P.setI, ∑ j ∈ P.setJ, ∑ k ∈ P.setK, P.rr i * (P.qc i j k * P.src i j k) := by
  have hA := sum_applyA P T hsol hcp hr
  obtain ⟨hreal, _, _, _, _⟩ := hsol
  have hnode : ∀ i ∈ P.setI, ∀ j ∈ P.setJ, ∀ k ∈ P.setK,
      P.rr i * T i j k - P.rr i * P.Tn i j k
        = P.dt * (P.rr i * P.applyA T i j k) + P.dt * (P.rr i * (P.qc i j k * P.src i j k)) := by
    intro i hi j hj k hk
    have := hreal i j k ((mem_setI P i).1 hi) ((mem_setJ P j).1 hj) ((mem_setK P k).1 hk)
    unfold Prob.lhsReal Prob.rhsReal at this
    rw [hst] at this
    simp only [Bool.false_eq_true, if_false] at this
    linear_combination P.rr i * this
  unfold Prob.energy
  rw [← hA]
  simp only [← Finset.sum_sub_distrib, Finset.mul_sum, ← Finset.sum_add_distrib]
  apply Finset.sum_congr rfl; intro i hi
  apply Finset.sum_congr rfl; intro j hj
  apply Finset.sum_congr rfl; intro k hk
  exact hnode i hi j hj k hk

end

end SrModel.Thermal

namespace SrModel.Thermal
open Finset
noncomputable section

/-! ### what crosses the walls, per wall kind -/

theorem innerFace_ins (P : Prob ℝ) (T : GField ℝ) (j k : Nat) (hw : P.inner = .ins)
    (h : P.innerRes T j k = 0) : P.innerFace T j k = 0 := by
  unfold Prob.innerRes at h; rw [hw] at h; simp only at h
  unfold Prob.innerFace; rw [h]; ring

theorem outerFace_ins (P : Prob ℝ) (T : GField ℝ) (j k : Nat) (hw : P.outer = .ins)
    (h : P.outerRes T j k = 0) : P.outerFace T j k = 0 := by
  unfold Prob.outerRes at h; rw [hw] at h; simp only at h
  unfold Prob.outerFace
  have : T (P.N+1) j k - T P.N j k = 0 := by linarith
  rw [this]; ring

/-- prescribed flux on the inner wall: the face carries `-(r c)_{½}·dr·q/k₁` (heat *into* the wall
is minus the inner face flux) -/
theorem innerFace_flux (P : Prob ℝ) (T : GField ℝ) (j k : Nat) (q : Nat → Nat → ℝ)
    (hw : P.inner = .flux q) (h : P.innerRes T j k = 0) :
    - P.innerFace T j k = P.rh 0 * P.ahr 0 j k * (P.dr * q j k / P.kk 1 j k) := by
  unfold Prob.innerRes at h; rw [hw] at h; simp only at h
  unfold Prob.innerFace
  have : T 1 j k - T 0 j k = -(P.dr * q j k / P.kk 1 j k) := by linarith
  rw [this]; ring

theorem outerFace_flux (P : Prob ℝ) (T : GField ℝ) (j k : Nat) (q : Nat → Nat → ℝ)
    (hw : P.outer = .flux q) (h : P.outerRes T j k = 0) :
    P.outerFace T j k = P.rh P.N * P.ahr P.N j k * (P.dr * q j k / P.kk P.N j k) := by
  unfold Prob.outerRes at h; rw [hw] at h; simp only at h
  unfold Prob.outerFace
  have : T (P.N+1) j k - T P.N j k = P.dr * q j k / P.kk P.N j k := by linarith
  rw [this]

/-- convective wall: the face carries `(r c)_{½}·dr·h·(T_f − T₁)/k₁` into the wall -/
theorem innerFace_conv (P : Prob ℝ) (T : GField ℝ) (j k : Nat) (tf h : Nat → Nat → ℝ)
    (hw : P.inner = .conv tf h) (hr : P.innerRes T j k = 0) :
    - P.innerFace T j k
      = P.rh 0 * P.ahr 0 j k * (P.dr * h j k * (tf j k - T 1 j k) / P.kk 1 j k) := by
  unfold Prob.innerRes at hr; rw [hw] at hr; simp only at hr
  unfold Prob.innerFace
  have : T 1 j k - T 0 j k = P.dr * h j k * (T 1 j k - tf j k) / P.kk 1 j k := by linarith
  rw [this]; ring

theorem outerFace_conv (P : Prob ℝ) (T : GField ℝ) (j k : Nat) (tf h : Nat → Nat → ℝ)
    (hw : P.outer = .conv tf h) (hr : P.outerRes T j k = 0) :
    P.outerFace T j k
      = P.rh P.N * P.ahr P.N j k * (P.dr * h j k * (tf j k - T P.N j k) / P.kk P.N j k) := by
  unfold Prob.outerRes at hr; rw [hw] at hr; simp only at hr
  unfold Prob.outerFace
  have : T (P.N+1) j k - T P.N j k = -(P.dr * h j k * (T P.N j k - tf j k) / P.kk P.N j k) := by
    linarith
  rw [this]; ring

/-- **positive prescribed flux heats the wall, on either surface** (given a positive inner
half-cell radius, i.e. `dr < 2 r_inner`, and positive properties) -/
theorem flux_heats_inner (P : Prob ℝ) (T : GField ℝ) (j k : Nat) (q : Nat → Nat → ℝ)
    (hw : P.inner = .flux q) (h : P.innerRes T j k = 0)
    (hrh : 0 < P.rh 0) (hc : 0 < P.ahr 0 j k) (hdr : 0 < P.dr) (hk : 0 < P.kk 1 j k)
    (hq : 0 < q j k) : 0 < - P.innerFace T j k := by
  rw [innerFace_flux P T j k q hw h]; positivity

theorem flux_heats_outer (P : Prob ℝ) (T : GField ℝ) (j k : Nat) (q : Nat → Nat → ℝ)
    (hw : P.outer = .flux q) (h : P.outerRes T j k = 0)
    (hrh : 0 < P.rh P.N) (hc : 0 < P.ahr P.N j k) (hdr : 0 < P.dr) (hk : 0 < P.kk P.N j k)
    (hq : 0 < q j k) : 0 < P.outerFace T j k := by
  rw [outerFace_flux P T j k q hw h]; positivity

/-- on the regular radial grid the half-cell radii at the walls differ from the wall radii by
exactly `dr/2` — the source of the `O(dr/r)` defect between discrete and physical wall area -/
theorem wall_face_radii (P : Prob ℝ) (rin : ℝ)
    (hrr : ∀ i : Nat, P.rr i = rin + ((i : ℝ) - 1) * P.dr) :
    P.rh 0 = rin - P.dr / 2 ∧ P.rh P.N = (rin + ((P.N : ℝ) - 1) * P.dr) + P.dr / 2 := by
  unfold Prob.rh
  rw [hrr 0, hrr 1, hrr P.N, hrr (P.N+1)]
  constructor
  · push_cast; ring
  · push_cast; ring

/-- heat delivered by a flux wall per unit `q`, discrete vs. nominal area: they differ by the
factor `dr/(2 r_in)` -/
theorem flux_area_defect (rin dr a k q : ℝ) (hk : k ≠ 0) (hdr : dr ≠ 0) :
    (rin - dr / 2) * a * (dr * q / k) / (dr * dr) - rin * a * q / (k * dr) = -(a / k) * q / 2 := by
  field_simp; ring

/-- **insulated walls conserve `Σ r_i T_i` exactly** -/
theorem insulated_exact (P : Prob ℝ) (T : GField ℝ) (hst : P.steady = false)
    (hsol : P.Solves T) (hcp : P.CPeriodic) (hr : ∀ i, P.isRealI i = true → P.rr i ≠ 0)
    (hin : P.inner = .ins) (hout : P.outer = .ins) (hsrc : ∀ i j k, P.src i j k = 0) :
    P.energy T = P.energy P.Tn := by
  have hb := step_balance P T hst hsol hcp hr
  obtain ⟨_, hi, ho, _, _⟩ := hsol
  have h0 : ∑ j ∈ P.setJ, ∑ k ∈ P.setK, (P.outerFace T j k - P.innerFace T j k) = 0 := by
    apply Finset.sum_eq_zero; intro j hj
    apply Finset.sum_eq_zero; intro k hk
    rw [innerFace_ins P T j k hin (hi j k ((mem_setJ P j).1 hj) ((mem_setK P k).1 hk)),
      outerFace_ins P T j k hout (ho j k ((mem_setJ P j).1 hj) ((mem_setK P k).1 hk))]; ring
  rw [h0] at hb
  simp only [hsrc, mul_zero, Finset.sum_const_zero, zero_div, add_zero] at hb
  linarith

/-! ### consistency across abstractions: lifting a solution to the next dimension -/

def Wall.lift2 : Wall ℝ → Wall ℝ
  | .ins => .ins
  | .fix v => .fix (fun _ k => v 0 k)
  | .flux q => .flux (fun _ k => q 0 k)
  | .conv tf h => .conv (fun _ k => tf 0 k) (fun _ k => h 0 k)

/-- the 2-D problem with the axisymmetric data of a 1-D problem -/
def Prob.lift2 (P : Prob ℝ) (Nt : Nat) (dth : ℝ) : Prob ℝ :=
  { P with ndim := 2, Nt := Nt, dth := dth,
           c := fun i _ k => P.c i 0 k, kk := fun i _ k => P.kk i 0 k, qc := fun i _ k => P.qc i 0 k,
           src := fun i _ k => P.src i 0 k, Tn := fun i _ k => P.Tn i 0 k,
           inner := P.inner.lift2, outer := P.outer.lift2 }

/-- **axisymmetric data: the 1-D solution, copied to every ray, solves the 2-D step** -/
theorem axisym_2d_is_1d (P : Prob ℝ) (T : GField ℝ) (Nt : Nat) (dth : ℝ) (h1 : P.ndim = 1)
    (hsol : P.Solves T) : (P.lift2 Nt dth).Solves (fun i _ k => T i 0 k) := by
  obtain ⟨hr, hi, ho, _, _⟩ := hsol
  have hJ0 : P.isRealJ 0 = true := by simp [Prob.isRealJ, h1]
  have hK : ∀ k, (P.lift2 Nt dth).isRealK k = true → P.isRealK k = true := by
    intro k hk; simpa [Prob.isRealK, Prob.lift2, h1] using hk
  refine ⟨?_, ?_, ?_, ?_, ?_⟩
  · intro i j k hi' _ hk
    have := hr i 0 k hi' hJ0 (hK k hk)
    simp only [Prob.lhsReal, Prob.rhsReal, Prob.applyA, Prob.wrm, Prob.wrp, Prob.wtm, Prob.wtp,
      Prob.wzm, Prob.wzp, Prob.rh, Prob.ahr, Prob.aht, Prob.ahz, Prob.lift2, h1] at this ⊢
    norm_num at this ⊢
    exact this
  · intro j k _ hk
    have := hi 0 k hJ0 (hK k hk)
    unfold Prob.innerRes at this ⊢
    cases hw : P.inner <;> rw [hw] at this <;> simp [Prob.lift2, Wall.lift2, hw] at this ⊢ <;>
      exact this
  · intro j k _ hk
    have := ho 0 k hJ0 (hK k hk)
    unfold Prob.outerRes at this ⊢
    cases hw : P.outer <;> rw [hw] at this <;> simp [Prob.lift2, Wall.lift2, hw] at this ⊢ <;>
      exact this
  · intro _ i k _ _; simp
  · intro h3; simp [Prob.lift2] at h3

def Wall.lift3 : Wall ℝ → Wall ℝ
  | .ins => .ins
  | .fix v => .fix (fun j _ => v j 0)
  | .flux q => .flux (fun j _ => q j 0)
  | .conv tf h => .conv (fun j _ => tf j 0) (fun j _ => h j 0)

/-- the 3-D problem with the axially uniform data of a 2-D problem -/
def Prob.lift3 (P : Prob ℝ) (Nz : Nat) (dz : ℝ) : Prob ℝ :=
  { P with ndim := 3, Nz := Nz, dz := dz,
           c := fun i j _ => P.c i j 0, kk := fun i j _ => P.kk i j 0, qc := fun i j _ => P.qc i j 0,
           src := fun i j _ => P.src i j 0, Tn := fun i j _ => P.Tn i j 0,
           inner := P.inner.lift3, outer := P.outer.lift3 }

/-- **axially uniform data: the 2-D solution, copied to every plane, solves the 3-D step** -/
theorem uniform_3d_is_2d (P : Prob ℝ) (T : GField ℝ) (Nz : Nat) (dz : ℝ) (h2 : P.ndim = 2)
    (hsol : P.Solves T) : (P.lift3 Nz dz).Solves (fun i j _ => T i j 0) := by
  obtain ⟨hr, hi, ho, hp, _⟩ := hsol
  have hK0 : P.isRealK 0 = true := by simp [Prob.isRealK, h2]
  have hJ : ∀ j, (P.lift3 Nz dz).isRealJ j = true → P.isRealJ j = true := by
    intro j hj
    simp [Prob.isRealJ, Prob.lift3, h2] at hj ⊢
    exact ⟨hj.1, of_decide_eq_true hj.2⟩
  refine ⟨?_, ?_, ?_, ?_, ?_⟩
  · intro i j k hi' hj _
    have := hr i j 0 hi' (hJ j hj) hK0
    simp only [Prob.lhsReal, Prob.rhsReal, Prob.applyA, Prob.wrm, Prob.wrp, Prob.wtm, Prob.wtp,
      Prob.wzm, Prob.wzp, Prob.rh, Prob.ahr, Prob.aht, Prob.ahz, Prob.lift3, h2] at this ⊢
    norm_num at this ⊢
    exact this
  · intro j k hj _
    have := hi j 0 (hJ j hj) hK0
    unfold Prob.innerRes at this ⊢
    cases hw : P.inner <;> rw [hw] at this <;> simp [Prob.lift3, Wall.lift3, hw] at this ⊢ <;>
      exact this
  · intro j k hj _
    have := ho j 0 (hJ j hj) hK0
    unfold Prob.outerRes at this ⊢
    cases hw : P.outer <;> rw [hw] at this <;> simp [Prob.lift3, Wall.lift3, hw] at this ⊢ <;>
      exact this
  · intro _ i k hi' _
    exact hp (by omega) i 0 hi' hK0
  · intro _ i j _ _; simp

end
end SrModel.Thermal

namespace SrModel.Thermal
noncomputable section

/-! ### rotation by one circumferential cell -/

/-- column map of the unit rotation on the ghosted ring `0 … Nt+1` (`Nt ≥ 2`):
new column `j` shows old column `j-1`, with wrap; ghost columns follow their real images -/
def rot (Nt : Nat) (j : Nat) : Nat :=
  if j = 0 then Nt - 1 else if j = 1 then Nt else j - 1

def Wall.rot (Nt : Nat) : Wall ℝ → Wall ℝ
  | .ins => .ins
  | .fix v => .fix (fun j k => v (Thermal.rot Nt j) k)
  | .flux q => .flux (fun j k => q (Thermal.rot Nt j) k)
  | .conv tf h => .conv (fun j k => tf (Thermal.rot Nt j) k) (fun j k => h (Thermal.rot Nt j) k)

/-- the problem with all data rotated by one cell -/
def Prob.rot (P : Prob ℝ) : Prob ℝ :=
  { P with c := fun i j k => P.c i (Thermal.rot P.Nt j) k,
           kk := fun i j k => P.kk i (Thermal.rot P.Nt j) k,
           qc := fun i j k => P.qc i (Thermal.rot P.Nt j) k,
           src := fun i j k => P.src i (Thermal.rot P.Nt j) k,
           Tn := fun i j k => P.Tn i (Thermal.rot P.Nt j) k,
           inner := P.inner.rot P.Nt, outer := P.outer.rot P.Nt }

def GField.rot (Nt : Nat) (T : GField ℝ) : GField ℝ := fun i j k => T i (Thermal.rot Nt j) k

/-- the coefficient field is periodic in the ghost columns (point-wise) -/
def Prob.CPeriodicPt (P : Prob ℝ) : Prop :=
  ∀ i k, P.c i 0 k = P.c i P.Nt k ∧ P.c i (P.Nt+1) k = P.c i 1 k

theorem rot_real (Nt j : Nat) (h2 : 2 ≤ Nt) (hj : 1 ≤ j ∧ j ≤ Nt) :
    1 ≤ Thermal.rot Nt j ∧ Thermal.rot Nt j ≤ Nt := by
  unfold Thermal.rot; split_ifs <;> omega

/-- a ring-periodic function read at `rot (j-1)` or at `rot j - 1` gives the same value -/
theorem rot_pred (Nt j : Nat) (f : Nat → ℝ) (h2 : 2 ≤ Nt) (hj : 1 ≤ j ∧ j ≤ Nt)
    (hf : f 0 = f Nt) : f (Thermal.rot Nt (j-1)) = f (Thermal.rot Nt j - 1) := by
  unfold Thermal.rot
  by_cases h1 : j = 1
  · subst h1; simp
  · by_cases h22 : j = 2
    · subst h22; simp; exact hf.symm
    · have a : j - 1 ≠ 0 := by omega
      have b : j - 1 ≠ 1 := by omega
      have c : j ≠ 0 := by omega
      simp [a, b, c, h1]

theorem rot_succ (Nt j : Nat) (f : Nat → ℝ) (h2 : 2 ≤ Nt) (hj : 1 ≤ j ∧ j ≤ Nt)
    (hf : f (Nt+1) = f 1) : f (Thermal.rot Nt (j+1)) = f (Thermal.rot Nt j + 1) := by
  unfold Thermal.rot
  by_cases h1 : j = 1
  · subst h1; simp; exact hf.symm
  · have c : j ≠ 0 := by omega
    have e : j - 1 + 1 = j := by omega
    simp [c, h1, e]

/-- **Rotation equivariance of one step.** If `T` solves the step for `P` then the rotated field
solves the step for the rotated data (2-D or 3-D, `Nt ≥ 2`, coefficient field ring-periodic). -/
theorem solves_rot (P : Prob ℝ) (T : GField ℝ) (hnd : P.ndim ≥ 2) (h2 : 2 ≤ P.Nt)
    (hc : P.CPeriodicPt) (hsol : P.Solves T) : P.rot.Solves (GField.rot P.Nt T) := by
  obtain ⟨hr, hi, ho, hp, hz⟩ := hsol
  have hJ : ∀ j, P.rot.isRealJ j = true → P.isRealJ (Thermal.rot P.Nt j) = true ∧ (1 ≤ j ∧ j ≤ P.Nt) := by
    intro j hj
    have hj' : 1 ≤ j ∧ j ≤ P.Nt := by
      simp [Prob.isRealJ, Prob.rot, hnd] at hj; exact ⟨hj.1, of_decide_eq_true hj.2⟩
    have := rot_real P.Nt j h2 hj'
    refine ⟨?_, hj'⟩
    simp [Prob.isRealJ, hnd]; exact this
  refine ⟨?_, ?_, ?_, ?_, ?_⟩
  · intro i j k hi' hj hk
    obtain ⟨hjr, hjb⟩ := hJ j hj
    have hrow := hr i (Thermal.rot P.Nt j) k hi' hjr hk
    have hper := hp hnd i k hi' hk
    have hcp := hc i k
    -- neighbours in the ring
    have eT1 := rot_pred P.Nt j (fun m => T i m k) h2 hjb (by linarith [hper.1])
    have eT2 := rot_succ P.Nt j (fun m => T i m k) h2 hjb (by linarith [hper.2])
    have eC1 := rot_pred P.Nt j (fun m => P.c i m k) h2 hjb hcp.1
    have eC2 := rot_succ P.Nt j (fun m => P.c i m k) h2 hjb hcp.2
    beta_reduce at eT1 eT2 eC1 eC2
    have e1 : j - 1 + 1 = j := by omega
    have e2 : Thermal.rot P.Nt j - 1 + 1 = Thermal.rot P.Nt j := by
      have := rot_real P.Nt j h2 hjb; omega
    simp only [Prob.lhsReal, Prob.rhsReal, Prob.applyA, Prob.wrm, Prob.wrp, Prob.wtm, Prob.wtp,
      Prob.wzm, Prob.wzp, Prob.rh, Prob.ahr, Prob.aht, Prob.ahz, Prob.rot, GField.rot,
      e1, e2, eT1, eT2, eC1, eC2] at hrow ⊢
    exact hrow
  · intro j k hj hk
    obtain ⟨hjr, _⟩ := hJ j hj
    have := hi (Thermal.rot P.Nt j) k hjr hk
    unfold Prob.innerRes at this ⊢
    cases hw : P.inner <;> rw [hw] at this <;>
      simp [Prob.rot, Wall.rot, GField.rot, hw] at this ⊢ <;> exact this
  · intro j k hj hk
    obtain ⟨hjr, _⟩ := hJ j hj
    have := ho (Thermal.rot P.Nt j) k hjr hk
    unfold Prob.outerRes at this ⊢
    cases hw : P.outer <;> rw [hw] at this <;>
      simp [Prob.rot, Wall.rot, GField.rot, hw] at this ⊢ <;> exact this
  · intro _ i k _ _
    have a : Thermal.rot P.Nt 0 = P.Nt - 1 := by simp [Thermal.rot]
    have b : Thermal.rot P.Nt P.Nt = P.Nt - 1 := by
      have x1 : P.Nt ≠ 0 := by omega
      have x2 : P.Nt ≠ 1 := by omega
      simp [Thermal.rot, x1, x2]
    have c : Thermal.rot P.Nt (P.Nt + 1) = P.Nt := by
      have x2 : P.Nt ≠ 0 := by omega
      simp [Thermal.rot, x2]
    have d : Thermal.rot P.Nt 1 = P.Nt := by simp [Thermal.rot]
    simp [GField.rot, Prob.rot, a, b, c, d]
  · intro h3 i j hi' hj
    obtain ⟨hjr, _⟩ := hJ j hj
    exact hz h3 i (Thermal.rot P.Nt j) hi' hjr

end
end SrModel.Thermal

namespace SrModel.Thermal
noncomputable section

theorem cperiodicPt_rot (P : Prob ℝ) (h2 : 2 ≤ P.Nt) : P.rot.CPeriodicPt := by
  intro i k
  have a : Thermal.rot P.Nt 0 = P.Nt - 1 := by simp [Thermal.rot]
  have b : Thermal.rot P.Nt P.Nt = P.Nt - 1 := by
    have x1 : P.Nt ≠ 0 := by omega
    have x2 : P.Nt ≠ 1 := by omega
    simp [Thermal.rot, x1, x2]
  have c : Thermal.rot P.Nt (P.Nt + 1) = P.Nt := by
    have x2 : P.Nt ≠ 0 := by omega
    simp [Thermal.rot, x2]
  have d : Thermal.rot P.Nt 1 = P.Nt := by simp [Thermal.rot]
  simp [Prob.rot, a, b, c, d]

/-- rotation by `s` cells: iterate the unit rotation -/
def Prob.rotN (P : Prob ℝ) : Nat → Prob ℝ
  | 0 => P
  | s+1 => (P.rotN s).rot
def GField.rotN (Nt : Nat) (T : GField ℝ) : Nat → GField ℝ
  | 0 => T
  | s+1 => GField.rot Nt (GField.rotN Nt T s)

theorem rotN_Nt (P : Prob ℝ) (s : Nat) : (P.rotN s).Nt = P.Nt ∧ (P.rotN s).ndim = P.ndim := by
  induction s with
  | zero => exact ⟨rfl, rfl⟩
  | succ n ih => exact ⟨ih.1, ih.2⟩

/-- **Rotation equivariance for any whole number of cells.** -/
theorem solves_rotN (P : Prob ℝ) (T : GField ℝ) (s : Nat) (hnd : P.ndim ≥ 2) (h2 : 2 ≤ P.Nt)
    (hc : P.CPeriodicPt) (hsol : P.Solves T) :
    (P.rotN s).Solves (GField.rotN P.Nt T s) ∧ (P.rotN s).CPeriodicPt := by
  induction s with
  | zero => exact ⟨hsol, hc⟩
  | succ n ih =>
    obtain ⟨hN, hD⟩ := rotN_Nt P n
    constructor
    · have := solves_rot (P.rotN n) (GField.rotN P.Nt T n) (by rw [hD]; exact hnd)
        (by rw [hN]; exact h2) ih.2 ih.1
      rw [hN] at this
      exact this
    · exact cperiodicPt_rot (P.rotN n) (by rw [hN]; exact h2)

/-! ### steady 1-D conduction: constant face flux and the discrete log profile -/

/-- In a steady 1-D step without source and with a constant coefficient, the face quantity
`r_{i+½}(T_{i+1} − T_i)` is the same on every face, ghost faces included. -/
theorem steady_flux_constant (P : Prob ℝ) (T : GField ℝ) (c0 : ℝ)
    (h1 : P.ndim = 1) (hst : P.steady = true) (hsol : P.Solves T)
    (hc : ∀ i, P.c i 0 0 = c0) (hc0 : c0 ≠ 0) (hdr : P.dr ≠ 0)
    (hr : ∀ i, P.isRealI i = true → P.rr i ≠ 0)
    (hsrc : ∀ i, P.qc i 0 0 * P.src i 0 0 = 0) :
    ∀ i, i ≤ P.N → P.rh i * (T (i+1) 0 0 - T i 0 0) = P.rh 0 * (T 1 0 0 - T 0 0 0) := by
  obtain ⟨hreal, _, _, _, _⟩ := hsol
  have hJ : P.isRealJ 0 = true := by simp [Prob.isRealJ, h1]
  have hK : P.isRealK 0 = true := by simp [Prob.isRealK, h1]
  intro i
  induction i with
  | zero => intro _; rfl
  | succ n ih =>
    intro hn
    have hI : P.isRealI (n+1) = true := by simp [Prob.isRealI]; omega
    have hrow := hreal (n+1) 0 0 hI hJ hK
    have hne := hr (n+1) hI
    simp only [Prob.lhsReal, Prob.rhsReal, hst, if_true, hsrc, Prob.applyA, Prob.wrm, Prob.wrp,
      Prob.wtm, Prob.wtp, Prob.wzm, Prob.wzp, Prob.ahr, hc, h1] at hrow
    norm_num at hrow
    have ih' := ih (by omega)
    have key : P.rh (n+1) * (T (n+1+1) 0 0 - T (n+1) 0 0) = P.rh n * (T (n+1) 0 0 - T n 0 0) := by
      field_simp at hrow
      have h0 : -(P.rh (n+1) * (T (n+1+1) 0 0 - T (n+1) 0 0)) + -(P.rh n * (T n 0 0 - T (n+1) 0 0)) = 0 := by
        simp only [mul_zero] at hrow
        exact (mul_eq_zero.1 hrow).resolve_left hc0
      linarith
    rw [key]; exact ih'

/-- discrete profile: `T_i = T_1 + Φ·Σ_{m=1}^{i-1} 1/r_{m+½}` with `Φ` the constant face quantity -/
theorem steady_profile (P : Prob ℝ) (T : GField ℝ) (Φ : ℝ)
    (hflux : ∀ i, i ≤ P.N → P.rh i * (T (i+1) 0 0 - T i 0 0) = Φ)
    (hrh : ∀ i, 1 ≤ i → i ≤ P.N → P.rh i ≠ 0) :
    ∀ i, i ≤ P.N → T (i+1) 0 0 = T 1 0 0 + Φ * ∑ m ∈ Finset.Icc 1 i, 1 / P.rh m := by
  intro i
  induction i with
  | zero => intro _; simp
  | succ n ih =>
    intro hn
    rw [Finset.sum_Icc_succ_top (by omega), mul_add, ← add_assoc, ← ih (by omega)]
    have := hflux (n+1) hn
    have hne := hrh (n+1) (by omega) hn
    field_simp
    linarith

end
end SrModel.Thermal

namespace SrModel.Thermal
open Finset
noncomputable section

/-- **steady solid: what enters through the outer faces leaves through the inner faces**
(no source; periodic and axial faces carry nothing) -/
theorem steady_face_balance (P : Prob ℝ) (T : GField ℝ) (hst : P.steady = true)
    (hsol : P.Solves T) (hcp : P.CPeriodic) (hr : ∀ i, P.isRealI i = true → P.rr i ≠ 0)
    (hdr : P.dr ≠ 0) (hsrc : ∀ i j k, P.qc i j k * P.src i j k = 0) :
    ∑ j ∈ P.setJ, ∑ k ∈ P.setK, P.outerFace T j k = ∑ j ∈ P.setJ, ∑ k ∈ P.setK, P.innerFace T j k := by
  have hA := sum_applyA P T hsol hcp hr
  obtain ⟨hreal, _, _, _, _⟩ := hsol
  have hz : ∑ i ∈ P.setI, ∑ j ∈ P.setJ, ∑ k ∈ P.setK, P.rr i * P.applyA T i j k = 0 := by
    apply Finset.sum_eq_zero; intro i hi
    apply Finset.sum_eq_zero; intro j hj
    apply Finset.sum_eq_zero; intro k hk
    have := hreal i j k ((mem_setI P i).1 hi) ((mem_setJ P j).1 hj) ((mem_setK P k).1 hk)
    unfold Prob.lhsReal Prob.rhsReal at this
    rw [hst] at this
    simp only [if_true, hsrc] at this
    have h0 : P.applyA T i j k = 0 := by linarith
    rw [h0]; ring
  rw [hz] at hA
  have hd : P.dr * P.dr ≠ 0 := mul_ne_zero hdr hdr
  have : ∑ j ∈ P.setJ, ∑ k ∈ P.setK, (P.outerFace T j k - P.innerFace T j k) = 0 := by
    have := hA.symm
    rwa [div_eq_zero_iff, or_iff_left hd] at this
  simp only [Finset.sum_sub_distrib] at this
  linarith

end
end SrModel.Thermal

namespace SrModel.Thermal
open Finset
noncomputable section

/-- stored heat only looks at real nodes -/
theorem energy_congr (P : Prob ℝ) (T T' : GField ℝ)
    (h : ∀ i j k, P.isRealI i = true → P.isRealJ j = true → P.isRealK k = true → T i j k = T' i j k) :
    P.energy T = P.energy T' := by
  unfold Prob.energy
  apply Finset.sum_congr rfl; intro i hi
  apply Finset.sum_congr rfl; intro j hj
  apply Finset.sum_congr rfl; intro k hk
  rw [h i j k ((mem_setI P i).1 hi) ((mem_setJ P j).1 hj) ((mem_setK P k).1 hk)]

/-- net heat input of one transient step (wall faces + source), the right-hand side of `step_balance` -/
def Prob.heatIn (P : Prob ℝ) (T : GField ℝ) : ℝ :=
  P.dt * ((∑ j ∈ P.setJ, ∑ k ∈ P.setK, (P.outerFace T j k - P.innerFace T j k)) / (P.dr * P.dr))
    + P.dt * ∑ i ∈ P.setI, ∑ j ∈ P.setJ, ∑ k ∈ P.setK, P.rr i * (P.qc i j k * P.src i j k)

/-- **Energy balance of a whole history** (any number of steps and sub-steps, coefficients
re-evaluated every step): total change of stored heat = sum of the per-step heat inputs. All
problems share the grid (`energy` is taken with the first problem's radii and index sets). -/
theorem history_balance (P : Nat → Prob ℝ) (T : Nat → GField ℝ)
    (hgrid : ∀ n, (P n).energy = (P 0).energy)
    (hst : ∀ n, (P n).steady = false) (hsol : ∀ n, (P n).Solves (T (n+1)))
    (hcp : ∀ n, (P n).CPeriodic) (hr : ∀ n i, (P n).isRealI i = true → (P n).rr i ≠ 0)
    (hprev : ∀ n i j k, (P n).isRealI i = true → (P n).isRealJ j = true → (P n).isRealK k = true →
      (P n).Tn i j k = T n i j k) (N : Nat) :
    (P 0).energy (T N) - (P 0).energy (T 0) = ∑ n ∈ Finset.range N, (P n).heatIn (T (n+1)) := by
  induction N with
  | zero => simp
  | succ m ih =>
    rw [Finset.sum_range_succ, ← ih]
    have hb := step_balance (P m) (T (m+1)) (hst m) (hsol m) (hcp m) (hr m)
    have he := energy_congr (P m) (P m).Tn (T m) (hprev m)
    rw [he, hgrid m] at hb
    unfold Prob.heatIn
    linarith

/-- a point-wise material law (coefficients are functions of the previous temperature at the same
node) commutes with the rotation of the data: the lagged coefficients of the rotated problem are the
law applied to the rotated previous field — this is what lets `solves_rot` be iterated over steps
with a temperature-dependent material -/
theorem material_law_rot (P : Prob ℝ) (a kfun : ℝ → ℝ)
    (hc : ∀ i j k, P.c i j k = a (P.Tn i j k)) (hk : ∀ i j k, P.kk i j k = kfun (P.Tn i j k)) :
    (∀ i j k, P.rot.c i j k = a (P.rot.Tn i j k)) ∧ (∀ i j k, P.rot.kk i j k = kfun (P.rot.Tn i j k)) := by
  constructor
  · intro i j k; simp [Prob.rot, hc]
  · intro i j k; simp [Prob.rot, hk]

/-- **Rotation equivariance of whole histories**: if every step's data are the rotated data of the
corresponding step of another history, the rotated solutions solve them, step by step. -/
theorem history_rot (P : Nat → Prob ℝ) (T : Nat → GField ℝ)
    (hnd : ∀ n, (P n).ndim ≥ 2) (h2 : ∀ n, 2 ≤ (P n).Nt) (hc : ∀ n, (P n).CPeriodicPt)
    (hsol : ∀ n, (P n).Solves (T (n+1))) :
    ∀ n, (P n).rot.Solves (GField.rot (P n).Nt (T (n+1))) :=
  fun n => solves_rot (P n) (T (n+1)) (hnd n) (h2 n) (hc n) (hsol n)

end
end SrModel.Thermal

namespace SrModel.Thermal
open Finset
noncomputable section

/-! ### steady mode: maximum principle and uniqueness when a wall anchors the temperature -/

/-- at a real node whose value is the maximum over real nodes and exceeds `B`, every neighbour
value (ghosts included, through their rows) is at most the node's value -/
theorem nbr_bounds (P : Prob ℝ) (T : GField ℝ) (B : ℝ) (hw : P.WeightsNonneg) (hsol : P.Solves T)
    (hin : P.inner.UpperOK P.dr (fun j k => P.kk 1 j k) B P.isRealJ P.isRealK)
    (hout : P.outer.UpperOK P.dr (fun j k => P.kk P.N j k) B P.isRealJ P.isRealK)
    (im jm km : Nat) (hi : P.isRealI im = true) (hj : P.isRealJ jm = true) (hk : P.isRealK km = true)
    (hmax : ∀ i j k, P.isRealI i = true → P.isRealJ j = true → P.isRealK k = true → T i j k ≤ T im jm km)
    (hB : B < T im jm km) :
    T (im-1) jm km ≤ T im jm km ∧ T (im+1) jm km ≤ T im jm km ∧
    (P.wtm im jm km = 0 ∨ (0 ≤ P.wtm im jm km ∧ T im (jm-1) km ≤ T im jm km)) ∧
    (P.wtp im jm km = 0 ∨ (0 ≤ P.wtp im jm km ∧ T im (jm+1) km ≤ T im jm km)) ∧
    (P.wzm im jm km = 0 ∨ (0 ≤ P.wzm im jm km ∧ T im jm (km-1) ≤ T im jm km)) ∧
    (P.wzp im jm km = 0 ∨ (0 ≤ P.wzp im jm km ∧ T im jm (km+1) ≤ T im jm km)) := by
  obtain ⟨_, hinner, houter, hper, hax⟩ := hsol
  have hiR : 1 ≤ im ∧ im ≤ P.N := by simpa [Prob.isRealI] using hi
  obtain ⟨_, _, w3, w4, w5, w6⟩ := hw im jm km hi hj hk
  refine ⟨?_, ?_, ?_, ?_, ?_, ?_⟩
  · by_cases h1 : im = 1
    · subst h1; exact inner_nbr_le P T B jm km hj hk (hinner jm km hj hk) hin hB
    · exact hmax _ _ _ (by simp [Prob.isRealI]; omega) hj hk
  · by_cases h1 : im = P.N
    · subst h1; exact outer_nbr_le P T B jm km hj hk (houter jm km hj hk) hout hB
    · exact hmax _ _ _ (by simp [Prob.isRealI]; omega) hj hk
  · by_cases h2 : P.ndim ≥ 2
    · right; refine ⟨w3, ?_⟩
      have hjR : 1 ≤ jm ∧ jm ≤ P.Nt := by simpa [Prob.isRealJ, h2] using hj
      by_cases h1 : jm = 1
      · subst h1
        have := (hper h2 im km hi hk).1
        have hle := hmax im P.Nt km hi (by simp [Prob.isRealJ, h2]; omega) hk
        simp only [Nat.sub_self]; linarith
      · exact hmax _ _ _ hi (by simp [Prob.isRealJ, h2]; omega) hk
    · left; simp [Prob.wtm, h2]
  · by_cases h2 : P.ndim ≥ 2
    · right; refine ⟨w4, ?_⟩
      have hjR : 1 ≤ jm ∧ jm ≤ P.Nt := by simpa [Prob.isRealJ, h2] using hj
      by_cases h1 : jm = P.Nt
      · subst h1
        have := (hper h2 im km hi hk).2
        have hle := hmax im 1 km hi (by simp [Prob.isRealJ, h2]; omega) hk
        linarith
      · exact hmax _ _ _ hi (by simp [Prob.isRealJ, h2]; omega) hk
    · left; simp [Prob.wtp, h2]
  · by_cases h3 : P.ndim ≥ 3
    · right; refine ⟨w5, ?_⟩
      have hkR : 1 ≤ km ∧ km ≤ P.Nz := by simpa [Prob.isRealK, h3] using hk
      by_cases h1 : km = 1
      · subst h1
        have := (hax h3 im jm hi hj).1
        simp only [Nat.sub_self]; linarith
      · exact hmax _ _ _ hi hj (by simp [Prob.isRealK, h3]; omega)
    · left; simp [Prob.wzm, h3]
  · by_cases h3 : P.ndim ≥ 3
    · right; refine ⟨w6, ?_⟩
      have hkR : 1 ≤ km ∧ km ≤ P.Nz := by simpa [Prob.isRealK, h3] using hk
      by_cases h1 : km = P.Nz
      · subst h1
        have := (hax h3 im jm hi hj).2
        linarith
      · exact hmax _ _ _ hi hj (by simp [Prob.isRealK, h3]; omega)
    · left; simp [Prob.wzp, h3]

/-- the inner wall pins the temperature: fixed value ≤ `B`, or convection with a strictly positive
film number to a fluid at most `B` -/
def Wall.AnchorsBelow (w : Wall ℝ) (dr : ℝ) (kw : Nat → Nat → ℝ) (B : ℝ) : Prop :=
  match w with
  | .fix v => ∀ j k, v j k ≤ B
  | .conv tf h => ∀ j k, 0 < dr * h j k / kw j k ∧ tf j k ≤ B
  | _ => False

theorem Wall.AnchorsBelow.upperOK {w : Wall ℝ} {dr : ℝ} {kw : Nat → Nat → ℝ} {B : ℝ}
    (h : w.AnchorsBelow dr kw B) (rj rk : Nat → Bool) : w.UpperOK dr kw B rj rk := by
  cases w with
  | ins => exact h.elim
  | flux q => exact h.elim
  | fix v => exact fun j k _ _ => h j k
  | conv tf hh => exact fun j k _ _ => ⟨(h j k).1.le, (h j k).2⟩

/-- **Steady maximum principle (inner wall anchoring).** Steady mode, no source, strictly positive
radial couplings: every real-node value is at most `B` when the inner wall anchors below `B` and
the outer wall does not heat (`UpperOK`). -/
theorem steady_max_upper (P : Prob ℝ) (T : GField ℝ) (B : ℝ)
    (hs : P.Sized) (hst : P.steady = true) (hw : P.WeightsNonneg)
    (hwr : ∀ i j k, P.isRealI i = true → P.isRealJ j = true → P.isRealK k = true → 0 < P.wrm i j k)
    (hsol : P.Solves T)
    (hsrc : ∀ i j k, P.qc i j k * P.src i j k = 0)
    (hin : P.inner.AnchorsBelow P.dr (fun j k => P.kk 1 j k) B)
    (hout : P.outer.UpperOK P.dr (fun j k => P.kk P.N j k) B P.isRealJ P.isRealK) :
    ∀ i j k, P.isRealI i = true → P.isRealJ j = true → P.isRealK k = true → T i j k ≤ B := by
  have hinU := hin.upperOK P.isRealJ P.isRealK
  obtain ⟨⟨im, jm, km⟩, hmem, hmaxi⟩ :=
    Finset.exists_max_image P.nodes (fun p => T p.1 p.2.1 p.2.2) (nodes_nonempty P hs)
  have hmax : ∀ i j k, P.isRealI i = true → P.isRealJ j = true → P.isRealK k = true →
      T i j k ≤ T im jm km := fun i j k a b c => hmaxi (i, j, k) ((mem_nodes P i j k).2 ⟨a, b, c⟩)
  obtain ⟨hi, hj, hk⟩ := (mem_nodes P im jm km).1 hmem
  by_contra hcon
  push_neg at hcon
  obtain ⟨i0, j0, k0, hi0, hj0, hk0, hlt⟩ := hcon
  have hB : B < T im jm km := lt_of_lt_of_le hlt (hmax i0 j0 k0 hi0 hj0 hk0)
  have hreal := hsol.1
  -- at any real node of the ray (·, jm, km) carrying the maximum, the inward neighbour carries it too
  have step : ∀ i, P.isRealI i = true → T i jm km = T im jm km → T (i-1) jm km = T im jm km := by
    intro i hiI hval
    have hmax' : ∀ a b c, P.isRealI a = true → P.isRealJ b = true → P.isRealK c = true →
        T a b c ≤ T i jm km := by intro a b c x y z; rw [hval]; exact hmax a b c x y z
    obtain ⟨n1, n2, n3, n4, n5, n6⟩ := nbr_bounds P T B hw hsol hinU hout i jm km hiI hj hk hmax'
      (by rw [hval]; exact hB)
    obtain ⟨w1, w2, _, _, _, _⟩ := hw i jm km hiI hj hk
    have t1 := term_nonpos _ _ _ (Or.inr ⟨w1, n1⟩ : P.wrm i jm km = 0 ∨ _)
    have t2 := term_nonpos _ _ _ (Or.inr ⟨w2, n2⟩ : P.wrp i jm km = 0 ∨ _)
    have t3 := term_nonpos _ _ _ n3
    have t4 := term_nonpos _ _ _ n4
    have t5 := term_nonpos _ _ _ n5
    have t6 := term_nonpos _ _ _ n6
    have hrow := hreal i jm km hiI hj hk
    unfold Prob.lhsReal Prob.rhsReal at hrow
    rw [hst] at hrow
    simp only [if_true, hsrc] at hrow
    unfold Prob.applyA at hrow
    have h0 : P.wrm i jm km * (T (i-1) jm km - T i jm km) = 0 := by linarith
    have hpos := hwr i jm km hiI hj hk
    have : T (i-1) jm km - T i jm km = 0 := by
      rcases mul_eq_zero.1 h0 with h | h
      · exact absurd h hpos.ne'
      · exact h
    linarith
  -- walk inwards from im to the ghost node 0
  have hiR : 1 ≤ im ∧ im ≤ P.N := by simpa [Prob.isRealI] using hi
  have walk : ∀ d, d ≤ im → T (im - d) jm km = T im jm km := by
    intro d
    induction d with
    | zero => intro _; rfl
    | succ n ih =>
      intro hn
      have hprev := ih (by omega)
      have hI : P.isRealI (im - n) = true := by simp [Prob.isRealI]; omega
      have := step (im - n) hI hprev
      have e : im - n - 1 = im - (n + 1) := by omega
      rw [e] at this; exact this
  have h1 := walk (im - 1) (by omega)
  have h0 := walk im (le_refl _)
  have e1 : im - (im - 1) = 1 := by omega
  rw [e1] at h1
  rw [Nat.sub_self] at h0
  -- inner wall row contradicts T 0 = T 1 = max > B
  have hrow := hsol.2.1 jm km hj hk
  unfold Prob.innerRes at hrow
  unfold Wall.AnchorsBelow at hin
  cases hwall : P.inner with
  | ins => rw [hwall] at hin; exact hin
  | flux q => rw [hwall] at hin; exact hin
  | fix v =>
    rw [hwall] at hin hrow; simp only at hin hrow
    have := hin jm km; linarith
  | conv tf h =>
    rw [hwall] at hin hrow; simp only at hin hrow
    obtain ⟨hb, ht⟩ := hin jm km
    have e : P.dr * h jm km * (T 1 jm km - tf jm km) / P.kk 1 jm km
        = (P.dr * h jm km / P.kk 1 jm km) * (T 1 jm km - tf jm km) := by ring
    rw [e] at hrow
    have hp : 0 < (P.dr * h jm km / P.kk 1 jm km) * (T 1 jm km - tf jm km) :=
      mul_pos hb (by linarith)
    linarith

end
end SrModel.Thermal

namespace SrModel.Thermal
noncomputable section

/-- **Uniqueness of the steady solution** when the inner wall prescribes a temperature or exchanges
heat with a fluid through a strictly positive film number (strictly positive radial couplings). -/
theorem steady_unique (P : Prob ℝ) (T T' : GField ℝ)
    (hs : P.Sized) (hst : P.steady = true) (hw : P.WeightsNonneg)
    (hwr : ∀ i j k, P.isRealI i = true → P.isRealJ j = true → P.isRealK k = true → 0 < P.wrm i j k)
    (hanchor : (∃ v, P.inner = .fix v) ∨
      (∃ tf h, P.inner = .conv tf h ∧ ∀ j k, 0 < P.dr * h j k / P.kk 1 j k))
    (hconv_out : ∀ tf h, P.outer = .conv tf h → ∀ j k, 0 ≤ P.dr * h j k / P.kk P.N j k)
    (h1 : P.Solves T) (h2 : P.Solves T') :
    ∀ i j k, P.isRealI i = true → P.isRealJ j = true → P.isRealK k = true → T i j k = T' i j k := by
  have key : ∀ (a b : ℝ) (U V : GField ℝ), a + b = 0 → P.Solves U → P.Solves V →
      ∀ i j k, P.isRealI i = true → P.isRealJ j = true → P.isRealK k = true →
        GField.comb a b U V i j k ≤ 0 := by
    intro a b U V hab hU hV
    have hd := solves_comb P P.data P.data a b U V (Wall.same_refl _) (Wall.same_refl _) hU hV
    set Q := P.withData (Data.comb a b P.data P.data) with hQ
    have hsrc : ∀ i j k, Q.qc i j k * Q.src i j k = 0 := by
      intro i j k
      have : a * P.src i j k + b * P.src i j k = 0 := by
        have : (a + b) * P.src i j k = 0 := by rw [hab]; ring
        linarith [this]
      simp [hQ, Prob.withData, Data.comb, Prob.data, this]
    have hin : Q.inner.AnchorsBelow Q.dr (fun j k => Q.kk 1 j k) 0 := by
      show (Wall.comb a b P.inner P.inner).AnchorsBelow P.dr (fun j k => P.kk 1 j k) 0
      rcases hanchor with ⟨v, hv⟩ | ⟨tf, h, hv, hpos⟩
      · rw [hv]; simp only [Wall.comb, Wall.AnchorsBelow]
        intro j k
        have : (a + b) * v j k = 0 := by rw [hab]; ring
        linarith [this]
      · rw [hv]; simp only [Wall.comb, Wall.AnchorsBelow]
        intro j k
        refine ⟨hpos j k, ?_⟩
        have : (a + b) * tf j k = 0 := by rw [hab]; ring
        linarith [this]
    have hout : Q.outer.UpperOK Q.dr (fun j k => Q.kk Q.N j k) 0 Q.isRealJ Q.isRealK := by
      show (Wall.comb a b P.outer P.outer).UpperOK P.dr (fun j k => P.kk P.N j k) 0 _ _
      cases hwo : P.outer with
      | ins => simp [Wall.comb, Wall.UpperOK]
      | fix v =>
        simp only [Wall.comb, Wall.UpperOK]
        intro j k _ _
        have : (a + b) * v j k = 0 := by rw [hab]; ring
        linarith [this]
      | flux q =>
        simp only [Wall.comb, Wall.UpperOK]
        intro j k _ _
        have : a * q j k + b * q j k = 0 := by
          have : (a + b) * q j k = 0 := by rw [hab]; ring
          linarith [this]
        rw [this]; simp
      | conv tf h =>
        simp only [Wall.comb, Wall.UpperOK]
        intro j k _ _
        refine ⟨hconv_out tf h hwo j k, ?_⟩
        have : (a + b) * tf j k = 0 := by rw [hab]; ring
        linarith [this]
    exact steady_max_upper Q (GField.comb a b U V) 0 (hs.withData _) hst hw hwr hd hsrc hin hout
  intro i j k hi hj hk
  have a := key 1 (-1) T T' (by ring) h1 h2 i j k hi hj hk
  have b := key (-1) 1 T T' (by ring) h1 h2 i j k hi hj hk
  simp only [GField.comb] at a b
  linarith

end
end SrModel.Thermal
