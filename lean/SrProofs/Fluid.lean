import SrModel.Fluid
import Mathlib.Data.Real.Basic
import Mathlib.Data.Rat.Cast.Order
import Mathlib.Analysis.SpecialFunctions.Pow.Real
import Mathlib.Analysis.SpecialFunctions.Log.Basic
import Mathlib.Analysis.SpecialFunctions.Exponential
import Mathlib.Analysis.Complex.ExponentialBounds
import Mathlib.Tactic.Ring
import Mathlib.Tactic.Linarith
import Mathlib.Tactic.Positivity
import Mathlib.Tactic.FieldSimp
import Mathlib.Tactic.NormNum

/-!
Helper lemmas for C18 (`SrModel.Fluid` instantiated at `ℝ`).

* the `ℝ` instance of `Transc` (`Real.log`, `Real.rpow`, ...);
* `posOn`: a computable positivity certificate for a rational polynomial on a rational interval
  (interval Horner evaluation with bisection to a fixed depth) and its soundness `posOn_sound`;
* the closed form `Nu = Pr (Re - 1000) / (8 L (L + c))`, `L = 0.79 ln Re - 1.64`,
  `c = 12.7 (Pr^{2/3} - 1)/√8` of the Gnielinski expression as coded, numeric bounds, and its
  monotonicity in `Re`.
-/
namespace SrModel.Fluid

noncomputable instance instTranscReal : Transc ℝ where
  sqrt := Real.sqrt
  exp := Real.exp
  log := Real.log
  pow := fun x y => x ^ y
  sin := Real.sin
  cos := Real.cos

@[simp] theorem transc_log (x : ℝ) : Transc.log x = Real.log x := rfl
@[simp] theorem transc_pow (x y : ℝ) : Transc.pow x y = x ^ y := rfl

theorem exp_six_le : Real.exp 6 ≤ 1000 := by
  have h : Real.exp 6 = Real.exp 1 ^ 6 := by
    rw [← Real.exp_nat_mul]; norm_num
  have h1 := Real.exp_one_lt_d9
  have h0 : 0 ≤ Real.exp 1 := (Real.exp_pos 1).le
  rw [h]
  calc Real.exp 1 ^ 6 ≤ (2.7182818286 : ℝ) ^ 6 := pow_le_pow_left₀ h0 h1.le 6
    _ ≤ 1000 := by norm_num

theorem six_le_log {x : ℝ} (h : 1000 ≤ x) : 6 ≤ Real.log x :=
  (Real.le_log_iff_exp_le (by linarith)).2 (le_trans exp_six_le h)

theorem frictionBase_eq (re : ℝ) : frictionBase re = 79 / 100 * Real.log re - 41 / 25 := by
  unfold frictionBase; simp only [transc_log]; norm_num

theorem frictionBase_ge {re : ℝ} (h : 1000 ≤ re) : 31 / 10 ≤ frictionBase re := by
  rw [frictionBase_eq]; have := six_le_log h; linarith

theorem sqrt8_bounds : (14 / 5 : ℝ) ≤ Real.sqrt 8 ∧ Real.sqrt 8 ≤ 3 := by
  constructor
  · apply Real.le_sqrt_of_sq_le; norm_num
  · rw [Real.sqrt_le_left (by norm_num)]; norm_num

theorem rpow_two_thirds_ge {pr : ℝ} (h : 7 / 10 ≤ pr) : (39 / 50 : ℝ) ≤ pr ^ (2 / 3 : ℝ) := by
  have hp : 0 ≤ pr := by linarith
  have hq : 0 ≤ pr ^ (2 / 3 : ℝ) := Real.rpow_nonneg hp _
  have e : (pr ^ (2 / 3 : ℝ)) ^ 3 = pr ^ 2 := by
    rw [← Real.rpow_natCast, ← Real.rpow_mul hp]; norm_num
  have h2 : (39 / 50 : ℝ) ^ 3 ≤ (pr ^ (2 / 3 : ℝ)) ^ 3 := by
    rw [e]; nlinarith
  exact le_of_pow_le_pow_left₀ (by norm_num) hq h2



/-- `c` of the closed form: `12.7 (Pr^{2/3} - 1) / √8` -/
noncomputable def gnC (pr : ℝ) : ℝ := 127 / 10 * (pr ^ (2 / 3 : ℝ) - 1) / Real.sqrt 8

theorem friction_eq {re : ℝ} (hL : 0 < frictionBase re) : friction re = ((frictionBase re) ^ 2)⁻¹ := by
  unfold friction
  simp only [transc_pow]
  have : (-2.0 : ℝ) = -(2 : ℝ) := by norm_num
  rw [this, Real.rpow_neg hL.le, Real.rpow_two]

theorem sqrt_friction {L : ℝ} (hL : 0 < L) :
    ((L ^ 2)⁻¹ / 8.0) ^ (0.5 : ℝ) = (L * Real.sqrt 8)⁻¹ := by
  have h8 : 0 < Real.sqrt 8 := Real.sqrt_pos.2 (by norm_num)
  have hs : Real.sqrt 8 ^ 2 = 8 := Real.sq_sqrt (by norm_num)
  have e : (L ^ 2)⁻¹ / 8.0 = ((L * Real.sqrt 8)⁻¹) ^ 2 := by
    rw [inv_pow, mul_pow, hs]; norm_num; field_simp
  have hh : (0.5 : ℝ) = 1 / 2 := by norm_num
  rw [hh, ← Real.sqrt_eq_rpow, e, Real.sqrt_sq (by positivity)]

theorem gnDen_eq {re : ℝ} (pr : ℝ) (hL : 0 < frictionBase re) :
    gnDen re pr = (frictionBase re + gnC pr) / frictionBase re := by
  have h8 : 0 < Real.sqrt 8 := Real.sqrt_pos.2 (by norm_num)
  unfold gnDen gnC
  rw [friction_eq hL]
  simp only [transc_pow]
  rw [sqrt_friction hL]
  have : (2.0 / 3.0 : ℝ) = 2 / 3 := by norm_num
  rw [this]
  field_simp
  norm_num
  ring

theorem gnielinski_eq {re : ℝ} (pr : ℝ) (hL : 0 < frictionBase re)
    (hB : 0 < frictionBase re + gnC pr) :
    gnielinski re pr = pr * (re - 1000) / (8 * frictionBase re * (frictionBase re + gnC pr)) := by
  unfold gnielinski
  rw [gnDen_eq pr hL, friction_eq hL]
  have e8 : (8.0 : ℝ) = 8 := by norm_num
  have e1000 : (1000.0 : ℝ) = 1000 := by norm_num
  rw [e8, e1000]
  field_simp

theorem gnC_ge {pr : ℝ} (h : 7 / 10 ≤ pr) : -1 ≤ gnC pr := by
  have h8 : 0 < Real.sqrt 8 := Real.sqrt_pos.2 (by norm_num)
  have hp := rpow_two_thirds_ge h
  unfold gnC
  rw [le_div_iff₀ h8]
  have := sqrt8_bounds.1
  linarith

/-- the purely real inequality behind the monotonicity of the Gnielinski expression -/
theorem key_ineq (a b c x y : ℝ) (ha : 0 < a) (hx : 0 < x) (hxy : x ≤ y)
    (hA : 2 * a ≤ a * Real.log x + b) (hB : 2 * a ≤ a * Real.log x + b + c) :
    x * ((a * Real.log y + b) * (a * Real.log y + b + c)) ≤
      y * ((a * Real.log x + b) * (a * Real.log x + b + c)) := by
  have hy : 0 < y := lt_of_lt_of_le hx hxy
  set t := Real.log y - Real.log x with ht
  have ht0 : 0 ≤ t := sub_nonneg.2 (Real.log_le_log hx hxy)
  have hyx : y = x * Real.exp t := by
    rw [ht, Real.exp_sub, Real.exp_log hy, Real.exp_log hx]; field_simp
  have hexp : 1 + t + t ^ 2 / 2 ≤ Real.exp t := Real.quadratic_le_exp_of_nonneg ht0
  obtain ⟨A, hAdef⟩ : ∃ A, A = a * Real.log x + b := ⟨_, rfl⟩
  rw [← hAdef] at hA hB
  have e1 : a * Real.log y + b = A + a * t := by rw [ht, hAdef]; ring
  rw [e1, ← hAdef, hyx]
  have hB' : 0 ≤ A + c - 2 * a := by linarith
  have hA' : 0 ≤ A - 2 * a := by linarith
  have hAB : 0 ≤ A * (A + c) := by nlinarith
  have h1 : a * (A + (A + c)) ≤ A * (A + c) := by nlinarith [mul_nonneg hA' hB']
  have h2 : a * a ≤ A * (A + c) / 2 := by nlinarith [mul_nonneg hA' hB']
  have h3 : (A + a * t) * (A + a * t + c) ≤ (1 + t + t ^ 2 / 2) * (A * (A + c)) := by
    have := mul_nonneg ht0 (sub_nonneg.2 h1)
    have := mul_nonneg (sq_nonneg t) (sub_nonneg.2 h2)
    nlinarith
  have h4 : (A + a * t) * (A + a * t + c) ≤ Real.exp t * (A * (A + c)) :=
    le_trans h3 (mul_le_mul_of_nonneg_right hexp hAB)
  calc x * ((A + a * t) * (A + a * t + c)) ≤ x * (Real.exp t * (A * (A + c))) :=
        mul_le_mul_of_nonneg_left h4 hx.le
    _ = x * Real.exp t * (A * (A + c)) := by ring

theorem gnielinski_mono {re1 re2 pr : ℝ} (h1 : 1000 ≤ re1) (h12 : re1 ≤ re2) (hpr : 7 / 10 ≤ pr) :
    gnielinski re1 pr ≤ gnielinski re2 pr := by
  have hx : 0 < re1 := by linarith
  have hy : 0 < re2 := by linarith
  have hL1 := frictionBase_ge h1
  have hL2 := frictionBase_ge (le_trans h1 h12)
  have hc := gnC_ge hpr
  rw [gnielinski_eq pr (by linarith) (by linarith), gnielinski_eq pr (by linarith) (by linarith)]
  have hk := key_ineq (79 / 100) (-(41 / 25)) (gnC pr) re1 re2 (by norm_num) hx h12
    (by have := frictionBase_eq re1; linarith) (by have := frictionBase_eq re1; linarith)
  have f1 : 79 / 100 * Real.log re1 + -(41 / 25) = frictionBase re1 := by rw [frictionBase_eq]; ring
  have f2 : 79 / 100 * Real.log re2 + -(41 / 25) = frictionBase re2 := by rw [frictionBase_eq]; ring
  rw [f1, f2] at hk
  set L1 := frictionBase re1
  set L2 := frictionBase re2
  set c := gnC pr
  have hP1 : 0 < L1 * (L1 + c) := mul_pos (by linarith) (by linarith)
  have hP2 : 0 < L2 * (L2 + c) := mul_pos (by linarith) (by linarith)
  have h3 : (re1 - 1000) * (L2 * (L2 + c)) * re1 ≤ (re2 - 1000) * (L1 * (L1 + c)) * re1 := by
    calc (re1 - 1000) * (L2 * (L2 + c)) * re1 = (re1 - 1000) * (re1 * (L2 * (L2 + c))) := by ring
      _ ≤ (re1 - 1000) * (re2 * (L1 * (L1 + c))) := mul_le_mul_of_nonneg_left hk (by linarith)
      _ = ((re1 - 1000) * re2) * (L1 * (L1 + c)) := by ring
      _ ≤ ((re2 - 1000) * re1) * (L1 * (L1 + c)) :=
          mul_le_mul_of_nonneg_right (by nlinarith) hP1.le
      _ = _ := by ring
  have h4 : (re1 - 1000) * (L2 * (L2 + c)) ≤ (re2 - 1000) * (L1 * (L1 + c)) :=
    le_of_mul_le_mul_right h3 hx
  have hpr0 : 0 ≤ pr := by linarith
  rw [div_le_div_iff₀ (by nlinarith) (by nlinarith)]
  have := mul_le_mul_of_nonneg_left h4 (mul_nonneg hpr0 (by norm_num : (0:ℝ) ≤ 8))
  nlinarith


/-! ## interval Horner certificate -/
structure Iv where
  lo : Rat
  hi : Rat

def ivMul (u v : Iv) : Iv :=
  let p1 := u.lo * v.lo
  let p2 := u.lo * v.hi
  let p3 := u.hi * v.lo
  let p4 := u.hi * v.hi
  ⟨min (min p1 p2) (min p3 p4), max (max p1 p2) (max p3 p4)⟩

def ivAddC (u : Iv) (c : Rat) : Iv := ⟨u.lo + c, u.hi + c⟩

def ivHornerFrom (acc : Iv) (c : List Rat) (x : Iv) : Iv :=
  c.foldl (fun acc a => ivAddC (ivMul acc x) a) acc

def ivHorner (c : List Rat) (x : Iv) : Iv := ivHornerFrom ⟨0, 0⟩ c x

def posOn : Nat → List Rat → Rat → Rat → Bool
  | 0, c, a, b => decide (0 < (ivHorner c ⟨a, b⟩).lo)
  | d + 1, c, a, b =>
    decide (0 < (ivHorner c ⟨a, b⟩).lo) ||
      (posOn d c a ((a + b) / 2) && posOn d c ((a + b) / 2) b)

/-- `x` lies in the interval -/
def Iv.mem (I : Iv) (x : ℝ) : Prop := (I.lo : ℝ) ≤ x ∧ x ≤ (I.hi : ℝ)

theorem lin_bounds (k p q t : ℝ) (h1 : p ≤ t) (h2 : t ≤ q) :
    min (k * p) (k * q) ≤ k * t ∧ k * t ≤ max (k * p) (k * q) := by
  rcases le_total 0 k with hk | hk
  · exact ⟨le_trans (min_le_left _ _) (mul_le_mul_of_nonneg_left h1 hk),
      le_trans (mul_le_mul_of_nonneg_left h2 hk) (le_max_right _ _)⟩
  · exact ⟨le_trans (min_le_right _ _) (mul_le_mul_of_nonpos_left h2 hk),
      le_trans (mul_le_mul_of_nonpos_left h1 hk) (le_max_left _ _)⟩

theorem ivMul_mem (U X : Iv) (u x : ℝ) (hu : U.mem u) (hx : X.mem x) : (ivMul U X).mem (u * x) := by
  obtain ⟨hu1, hu2⟩ := hu
  obtain ⟨hx1, hx2⟩ := hx
  have a := lin_bounds x U.lo U.hi u hu1 hu2
  have b := lin_bounds U.lo X.lo X.hi x hx1 hx2
  have c := lin_bounds U.hi X.lo X.hi x hx1 hx2
  simp only [Iv.mem, ivMul, Rat.cast_min, Rat.cast_max, Rat.cast_mul]
  rw [mul_comm x u, mul_comm x, mul_comm x] at a
  constructor
  · refine le_trans ?_ a.1
    exact le_min (le_trans (min_le_left _ _) b.1) (le_trans (min_le_right _ _) c.1)
  · refine le_trans a.2 ?_
    exact max_le (le_trans b.2 (le_max_left _ _)) (le_trans c.2 (le_max_right _ _))

theorem ivHornerFrom_mem (c : List Rat) (X : Iv) (x : ℝ) (hx : X.mem x) :
    ∀ (A : Iv) (acc : ℝ), A.mem acc →
      (ivHornerFrom A c X).mem ((c.map (fun q : Rat => (q : ℝ))).foldl (fun acc a => acc * x + a) acc) := by
  induction c with
  | nil => intro A acc h; simpa [ivHornerFrom] using h
  | cons a cs ih =>
    intro A acc h
    simp only [ivHornerFrom, List.foldl_cons, List.map_cons]
    apply ih
    have := ivMul_mem A X acc x h hx
    simp only [Iv.mem, ivAddC, Rat.cast_add] at this ⊢
    constructor <;> linarith [this.1, this.2]

theorem ivHorner_mem (c : List Rat) (X : Iv) (x : ℝ) (hx : X.mem x) :
    (ivHorner c X).mem (polyval (c.map (fun q : Rat => (q : ℝ))) x) := by
  unfold ivHorner polyval
  apply ivHornerFrom_mem c X x hx
  simp [Iv.mem]

theorem posOn_sound (d : Nat) (c : List Rat) : ∀ (a b : Rat), posOn d c a b = true →
    ∀ x : ℝ, (a : ℝ) ≤ x → x ≤ (b : ℝ) → 0 < polyval (c.map (fun q : Rat => (q : ℝ))) x := by
  have base : ∀ a b : Rat, 0 < (ivHorner c ⟨a, b⟩).lo →
      ∀ x : ℝ, (a : ℝ) ≤ x → x ≤ (b : ℝ) → 0 < polyval (c.map (fun q : Rat => (q : ℝ))) x := by
    intro a b h x h1 h2
    have := (ivHorner_mem c ⟨a, b⟩ x ⟨h1, h2⟩).1
    have h' : (0 : ℝ) < ((ivHorner c ⟨a, b⟩).lo : ℝ) := by exact_mod_cast h
    linarith
  induction d with
  | zero =>
    intro a b h
    simp only [posOn, decide_eq_true_eq] at h
    exact base a b h
  | succ d ih =>
    intro a b h x h1 h2
    simp only [posOn, Bool.or_eq_true, decide_eq_true_eq, Bool.and_eq_true] at h
    rcases h with h | ⟨hl, hr⟩
    · exact base a b h x h1 h2
    · rcases le_total x (((a + b) / 2 : Rat) : ℝ) with hm | hm
      · exact ih _ _ hl x h1 hm
      · exact ih _ _ hr x hm h2



/-! ## more bounds: where the correlation is defined -/

theorem exp_nat_le (n : ℕ) (B : ℝ) (h : (2.7182818286 : ℝ) ^ n ≤ B) : Real.exp n ≤ B := by
  have e : Real.exp n = Real.exp 1 ^ n := by rw [← Real.exp_nat_mul]; simp
  rw [e]
  exact le_trans (pow_le_pow_left₀ (Real.exp_pos 1).le Real.exp_one_lt_d9.le n) h

theorem three_le_log {x : ℝ} (h : 21 ≤ x) : 3 ≤ Real.log x := by
  have := exp_nat_le 3 21 (by norm_num)
  exact (Real.le_log_iff_exp_le (by linarith)).2 (le_trans (by simpa using this) h)

theorem four_le_log {x : ℝ} (h : 55 ≤ x) : 4 ≤ Real.log x := by
  have := exp_nat_le 4 55 (by norm_num)
  exact (Real.le_log_iff_exp_le (by linarith)).2 (le_trans (by simpa using this) h)

/-- the base of the friction factor is positive from `Re = 21` on (`e³ < 21`) -/
theorem frictionBase_pos {re : ℝ} (h : 21 ≤ re) : 0 < frictionBase re := by
  rw [frictionBase_eq]; have := three_le_log h; linarith

theorem frictionBase_ge' {re : ℝ} (h : 55 ≤ re) : 38 / 25 ≤ frictionBase re := by
  rw [frictionBase_eq]; have := four_le_log h; linarith

/-- the Gnielinski denominator is positive for `Re ≥ 55`, `Pr ≥ 0.7` -/
theorem gnDen_pos {re pr : ℝ} (h : 55 ≤ re) (hpr : 7 / 10 ≤ pr) : 0 < gnDen re pr := by
  have hL := frictionBase_ge' h
  have hc := gnC_ge hpr
  rw [gnDen_eq pr (by linarith)]
  exact div_pos (by linarith) (by linarith)

/-- in the turbulent range the Gnielinski value is positive -/
theorem gnielinski_pos {re pr : ℝ} (h : 1000 < re) (hpr : 7 / 10 ≤ pr) : 0 < gnielinski re pr := by
  have hL := frictionBase_ge h.le
  have hc := gnC_ge hpr
  rw [gnielinski_eq pr (by linarith) (by linarith)]
  apply div_pos
  · exact mul_pos (by linarith) (by linarith)
  · exact mul_pos (mul_pos (by norm_num) (by linarith)) (by linarith)

/-! ## the clipping -/

theorem tEff_mem (p : Params ℝ) (T : ℝ) (h : p.tMin ≤ p.tMax) :
    p.tMin ≤ tEff p T ∧ tEff p T ≤ p.tMax :=
  ⟨le_max_right _ _, max_le (min_le_right _ _) h⟩

theorem tEff_id (p : Params ℝ) (T : ℝ) (h1 : p.tMin ≤ T) (h2 : T ≤ p.tMax) : tEff p T = T := by
  unfold tEff; rw [min_eq_left h2, max_eq_left h1]

/-- idempotent, with no hypothesis on the window -/
theorem tEff_idem (p : Params ℝ) (T : ℝ) : tEff p (tEff p T) = tEff p T := by
  unfold tEff
  rcases le_total p.tMin p.tMax with h | h
  · rw [min_eq_left (max_le (min_le_right _ _) h), max_eq_left (le_max_right _ _)]
  · have : min (max (min T p.tMax) p.tMin) p.tMax ≤ p.tMin := le_trans (min_le_right _ _) h
    rw [max_eq_right this, max_eq_right (le_trans (min_le_right _ _) h)]

theorem rho_tEff (f : Fluid ℝ) (T : ℝ) : rho f (tEff f.p T) = polyval f.rho (tEff f.p T) := by
  unfold rho; rw [tEff_idem]

theorem reynolds_tEff (f : Fluid ℝ) (T u r : ℝ) :
    reynolds f (tEff f.p T) u r =
      polyval f.rho (tEff f.p T) * u * 2 * r / polyval f.mu (tEff f.p T) := by
  unfold reynolds mu; rw [rho_tEff]; norm_num

theorem prandtl_tEff (f : Fluid ℝ) (T : ℝ) :
    prandtl f (tEff f.p T) =
      polyval f.cp (tEff f.p T) * polyval f.mu (tEff f.p T) / polyval f.k (tEff f.p T) := rfl

theorem nusselt_eq (f : Fluid ℝ) (T u r : ℝ) :
    nusselt f T u r = nusseltOf f.p (reynolds f (tEff f.p T) u r) (prandtl f (tEff f.p T)) := rfl

theorem nusseltOf_lam (p : Params ℝ) (re pr : ℝ) (h : re < p.lamCut) : nusseltOf p re pr = p.lamVal := by
  unfold nusseltOf; simp [h]

theorem nusseltOf_turb (p : Params ℝ) (re pr : ℝ) (h : p.lamCut ≤ re) :
    nusseltOf p re pr = gnielinski re pr := by
  unfold nusseltOf; simp [not_lt.2 h]

theorem reynolds_pos (f : Fluid ℝ) (T u r : ℝ) (hu : 0 < u) (hr : 0 < r)
    (hρ : 0 < rho f T) (hμ : 0 < mu f T) : 0 < reynolds f T u r := by
  unfold reynolds
  have : (2.0 : ℝ) = 2 := by norm_num
  rw [this]; positivity

theorem reynolds_mono (f : Fluid ℝ) (T u1 u2 r : ℝ) (hu : u1 ≤ u2) (hr : 0 < r)
    (hρ : 0 < rho f T) (hμ : 0 < mu f T) : reynolds f T u1 r ≤ reynolds f T u2 r := by
  unfold reynolds
  have : (2.0 : ℝ) = 2 := by norm_num
  rw [this]
  apply div_le_div_of_nonneg_right _ hμ.le
  have := mul_le_mul_of_nonneg_left hu hρ.le
  nlinarith

/-! ## shipped data: positivity of the four property polynomials on the window -/

def fluidPos (d : Nat) (f : Fluid Rat) : Bool :=
  posOn d f.cp f.p.tMin f.p.tMax && posOn d f.rho f.p.tMin f.p.tMax &&
  posOn d f.mu f.p.tMin f.p.tMax && posOn d f.k f.p.tMin f.p.tMax

/-- the fluid with real coefficients that a rational data entry denotes -/
noncomputable def toReal (f : Fluid Rat) : Fluid ℝ := f.map (fun q : Rat => (q : ℝ))

theorem fluidPos_sound (d : Nat) (f : Fluid Rat) (h : fluidPos d f = true) (T : ℝ)
    (h1 : (f.p.tMin : ℝ) ≤ T) (h2 : T ≤ (f.p.tMax : ℝ)) :
    0 < cp (toReal f) T ∧ 0 < rho (toReal f) T ∧ 0 < mu (toReal f) T ∧ 0 < k (toReal f) T := by
  simp only [fluidPos, Bool.and_eq_true] at h
  obtain ⟨⟨⟨hcp, hrho⟩, hmu⟩, hk⟩ := h
  have hid : tEff (toReal f).p T = T := tEff_id _ _ h1 h2
  refine ⟨posOn_sound d _ _ _ hcp T h1 h2, ?_, posOn_sound d _ _ _ hmu T h1 h2,
    posOn_sound d _ _ _ hk T h1 h2⟩
  unfold rho; rw [hid]
  exact posOn_sound d _ _ _ hrho T h1 h2

end SrModel.Fluid
