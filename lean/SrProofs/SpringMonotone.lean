import SrProofs.SpringUnique
import Mathlib.Order.Monotone.Basic
import Mathlib.Analysis.Calculus.Deriv.MeanValue

/-!
# Uniqueness of the equilibrium of a network of springs with strictly monotone (nonlinear) force laws

The assembly is the model's general-law assembly `assembleF` over `DEdge`s carrying an arbitrary `Law K`
(displacement ↦ (force, tangent)); `lawEdges l` only repackages a list `(dof i, dof j, law)` as `DEdge`s, the
way `linEdges` does for `linearLaw`.  The displacement handed to the law of an edge is `fjDisp d i j`
(`d(smaller dof) - d(larger dof)`, whichever way the edge is listed; `0` for a self loop).

* `assembleF_virtual_work` — `Σ_r w_r F_int(d)_r = Σ_e fjDisp w · F_e(fjDisp d)` for arbitrary laws.
* `monotone_energy_identity` — `Σ_r (d_r - d'_r)(F_int(d)_r - F_int(d')_r) = Σ_e (F_e(δ_e) - F_e(δ'_e))(δ_e - δ'_e)`.
* `strictMono_mul_nonneg`, `strictMono_mul_eq_zero_iff` — the summands.
* `monotone_unique_of_reach`, `net_monotone_unique` — uniqueness.
* `law_strictMono_of_tangent_pos` — over `ℝ`, a law whose reported tangent is the derivative of its force and is
  positive everywhere is strictly monotone.
* `cubicLaw` — `F δ = δ + δ³`, used by the non-vacuity examples of `SrProps.C04`.
-/
namespace SrModel.Spring

/-- edges `(dof i, dof j, law)` with an arbitrary spring law, as edges of the model's assembly -/
def lawEdges {K : Type} (l : List (Nat × Nat × Law K)) : List (DEdge K) :=
  l.map (fun e => ⟨e.1, e.2.1, e.2.2⟩)

/-- every list of `DEdge`s is a `lawEdges` -/
theorem lawEdges_surj {K : Type} (es : List (DEdge K)) :
    lawEdges (es.map (fun e => (e.ii, e.jj, e.law))) = es := by
  unfold lawEdges
  rw [List.map_map]
  exact List.map_id _

section Ring
variable {K : Type} [CommRing K]

/-- the linear springs of `linEdges` are the special case `law = linearLaw k` -/
theorem linEdges_eq_lawEdges (l : List (Nat × Nat × K)) :
    linEdges l = lawEdges (l.map (fun e => (e.1, e.2.1, linearLaw e.2.2))) := by
  unfold linEdges lawEdges
  rw [List.map_map]
  rfl

theorem assembleF_lawEdges_cons (s : Nat × Nat × Law K) (l : List (Nat × Nat × Law K)) (d : Nat → K)
    (r : Nat) :
    assembleF (lawEdges (s :: l)) d r = fjF s.2.2 d s.1 s.2.1 r + assembleF (lawEdges l) d r := rfl

/-- one edge, either orientation -/
theorem fjF_eq (law : Law K) (d : Nat → K) (ii jj r : Nat) :
    fjF law d ii jj r = -((delta r ii - delta r jj) * sgn ii jj * (law (fjDisp d ii jj)).1) := by
  unfold fjF delta
  split_ifs <;> ring

theorem fjDisp_eq (d : Nat → K) (ii jj : Nat) : fjDisp d ii jj = -((d ii - d jj) * sgn ii jj) := by
  unfold fjDisp; ring

/-- the displacement handed to a spring is additive in the displacement field -/
theorem fjDisp_sub (d d' : Nat → K) (ii jj : Nat) :
    fjDisp (fun i => d i - d' i) ii jj = fjDisp d ii jj - fjDisp d' ii jj := by
  unfold fjDisp; ring

/-- virtual work of one edge -/
theorem fjF_virtual_work (law : Law K) (w d : Nat → K) {ii jj n : Nat} (hi : ii < n) (hj : jj < n) :
    (Finset.range n).sum (fun r => w r * fjF law d ii jj r) =
      fjDisp w ii jj * (law (fjDisp d ii jj)).1 := by
  have : ∀ r, w r * fjF law d ii jj r =
      sgn ii jj * (law (fjDisp d ii jj)).1 * (w r * delta r jj) -
      sgn ii jj * (law (fjDisp d ii jj)).1 * (w r * delta r ii) := fun r => by
    rw [fjF_eq]; ring
  simp only [this, Finset.sum_sub_distrib, ← Finset.mul_sum, sum_delta' w hi, sum_delta' w hj]
  rw [fjDisp_eq w]; ring

theorem list_sum_map_sub {α : Type} (l : List α) (f g : α → K) :
    (l.map f).sum - (l.map g).sum = (l.map (fun x => f x - g x)).sum := by
  induction l with
  | nil => simp
  | cons a l ih => simp only [List.map_cons, List.sum_cons, ← ih]; ring

/-- **virtual work**, arbitrary spring laws: `Σ_r w_r F_int(d)_r = Σ_e δ_e(w) · F_e(δ_e(d))` -/
theorem assembleF_virtual_work (l : List (Nat × Nat × Law K)) (w d : Nat → K) (n : Nat)
    (hn : ∀ s ∈ l, s.1 < n ∧ s.2.1 < n) :
    (Finset.range n).sum (fun r => w r * assembleF (lawEdges l) d r) =
      (l.map (fun s => fjDisp w s.1 s.2.1 * (s.2.2 (fjDisp d s.1 s.2.1)).1)).sum := by
  induction l with
  | nil => simp [lawEdges, assembleF]
  | cons s l ih =>
    have h1 := hn s (List.mem_cons_self ..)
    have ih' := ih (fun x hx => hn x (List.mem_cons_of_mem _ hx))
    simp only [assembleF_lawEdges_cons, List.map_cons, List.sum_cons, mul_add, Finset.sum_add_distrib, ih',
      fjF_virtual_work s.2.2 w d h1.1 h1.2]

/-- **monotone energy identity**: the work of the difference of the assembled forces of two fields on
the difference of the fields is the sum over the edges of `(F(δ) - F(δ'))(δ - δ')` -/
theorem monotone_energy_identity (l : List (Nat × Nat × Law K)) (d d' : Nat → K) (n : Nat)
    (hn : ∀ s ∈ l, s.1 < n ∧ s.2.1 < n) :
    (Finset.range n).sum
        (fun r => (d r - d' r) * (assembleF (lawEdges l) d r - assembleF (lawEdges l) d' r)) =
      (l.map (fun s => ((s.2.2 (fjDisp d s.1 s.2.1)).1 - (s.2.2 (fjDisp d' s.1 s.2.1)).1) *
        (fjDisp d s.1 s.2.1 - fjDisp d' s.1 s.2.1))).sum := by
  have hsplit : ∀ r, (d r - d' r) * (assembleF (lawEdges l) d r - assembleF (lawEdges l) d' r) =
      (d r - d' r) * assembleF (lawEdges l) d r - (d r - d' r) * assembleF (lawEdges l) d' r :=
    fun r => mul_sub _ _ _
  simp only [hsplit, Finset.sum_sub_distrib]
  rw [assembleF_virtual_work l (fun r => d r - d' r) d n hn,
    assembleF_virtual_work l (fun r => d r - d' r) d' n hn, list_sum_map_sub]
  congr 1
  apply List.map_congr_left
  intro s _
  rw [fjDisp_sub]; ring

end Ring

section Field
variable {F : Type} [Field F] [LinearOrder F] [IsStrictOrderedRing F]

theorem strictMono_mul_nonneg {f : F → F} (hf : StrictMono f) (a b : F) : 0 ≤ (f a - f b) * (a - b) := by
  rcases lt_trichotomy a b with h | h | h
  · exact le_of_lt (mul_pos_of_neg_of_neg (sub_neg.2 (hf h)) (sub_neg.2 h))
  · subst h; simp
  · exact le_of_lt (mul_pos (sub_pos.2 (hf h)) (sub_pos.2 h))

theorem strictMono_mul_eq_zero_iff {f : F → F} (hf : StrictMono f) (a b : F) :
    (f a - f b) * (a - b) = 0 ↔ a = b := by
  constructor
  · intro h0
    rcases lt_trichotomy a b with h | h | h
    · exact absurd h0 (ne_of_gt (mul_pos_of_neg_of_neg (sub_neg.2 (hf h)) (sub_neg.2 h)))
    · exact h
    · exact absurd h0 (ne_of_gt (mul_pos (sub_pos.2 (hf h)) (sub_pos.2 h)))
  · rintro rfl; simp

/-- equal handed displacements: the difference field has equal values at the two ends -/
theorem fjDisp_eq_flat {d d' : Nat → F} {ii jj : Nat} (h : fjDisp d ii jj = fjDisp d' ii jj) :
    d ii - d' ii = d jj - d' jj := by
  rcases Nat.lt_trichotomy ii jj with hlt | heq | hgt
  · rw [fjDisp_lt d hlt, fjDisp_lt d' hlt] at h; linarith
  · subst heq; rfl
  · rw [fjDisp_symm d, fjDisp_symm d', fjDisp_lt d hgt, fjDisp_lt d' hgt] at h; linarith

/-- zero monotone energy: every edge is handed the same displacement by both fields -/
theorem monotone_energy_zero_flat {l : List (Nat × Nat × Law F)}
    (hmono : ∀ s ∈ l, StrictMono (fun δ => (s.2.2 δ).1)) {d d' : Nat → F}
    (h : (l.map (fun s => ((s.2.2 (fjDisp d s.1 s.2.1)).1 - (s.2.2 (fjDisp d' s.1 s.2.1)).1) *
        (fjDisp d s.1 s.2.1 - fjDisp d' s.1 s.2.1))).sum = 0) :
    ∀ s ∈ l, fjDisp d s.1 s.2.1 = fjDisp d' s.1 s.2.1 := by
  intro s hs
  have hz := list_sum_eq_zero_of_nonneg
    (xs := l.map (fun s => ((s.2.2 (fjDisp d s.1 s.2.1)).1 - (s.2.2 (fjDisp d' s.1 s.2.1)).1) *
        (fjDisp d s.1 s.2.1 - fjDisp d' s.1 s.2.1)))
    (by
      intro x hx
      obtain ⟨t, ht, rfl⟩ := List.mem_map.1 hx
      exact strictMono_mul_nonneg (hmono t ht) _ _)
    h _ (List.mem_map.2 ⟨s, hs, rfl⟩)
  exact (strictMono_mul_eq_zero_iff (hmono s hs) _ _).1 hz

/-- **uniqueness, strictly monotone laws.** Two displacement fields that agree on the BC dofs and have
the same assembled force on every free row coincide on every dof joined to a BC dof by a chain of
springs. -/
theorem monotone_unique_of_reach (l : List (Nat × Nat × Law F))
    (hmono : ∀ s ∈ l, StrictMono (fun δ => (s.2.2 δ).1)) (n : Nat)
    (hn : ∀ s ∈ l, s.1 < n ∧ s.2.1 < n) (B : Nat → Prop) (d d' : Nat → F)
    (hB : ∀ r, r < n → B r → d r = d' r)
    (hbal : ∀ r, r < n → ¬ B r → assembleF (lawEdges l) d r = assembleF (lawEdges l) d' r) :
    ∀ r, r < n → Reach l B r → d r = d' r := by
  classical
  have hE := monotone_energy_identity l d d' n hn
  have h0 : (Finset.range n).sum
      (fun r => (d r - d' r) * (assembleF (lawEdges l) d r - assembleF (lawEdges l) d' r)) = 0 := by
    apply Finset.sum_eq_zero
    intro r hr
    have hr := Finset.mem_range.1 hr
    by_cases hb : B r
    · rw [hB r hr hb, sub_self, zero_mul]
    · rw [hbal r hr hb, sub_self, mul_zero]
  rw [h0] at hE
  have hflat := monotone_energy_zero_flat hmono hE.symm
  intro r hr hreach
  have : r < n → d r - d' r = 0 := by
    clear hr
    induction hreach with
    | base hb => intro hr; rw [hB _ hr hb, sub_self]
    | @step i j k hs _ ih =>
      intro _
      have := fjDisp_eq_flat (hflat _ hs)
      simp only at this
      rw [← this]; exact ih (hn _ hs).1
    | @step' i j k hs _ ih =>
      intro _
      have := fjDisp_eq_flat (hflat _ hs)
      simp only at this
      rw [this]; exact ih (hn _ hs).2
  exact sub_eq_zero.1 (this hr)

/-- **uniqueness for a solvable network, strictly monotone laws** (mirror of `net_equilibrium_unique`) -/
theorem net_monotone_unique {c : Net} (hv : validateSolve c = .ok ()) (hnd : c.nodes.Nodup)
    (hends : ∀ e ∈ c.edges, e.i ∈ c.nodes ∧ e.j ∈ c.nodes) (hb : ∀ b ∈ c.bcs, b ∈ c.nodes)
    (law : Edge → Law F) (hmono : ∀ e ∈ c.edges, StrictMono (fun δ => (law e δ).1))
    (ubc f : Nat → F) (d d' : Nat → F)
    (hd : ∀ b ∈ c.bcs, d (dmap c.nodes b) = ubc b) (hd' : ∀ b ∈ c.bcs, d' (dmap c.nodes b) = ubc b)
    (hf : ∀ m ∈ c.nodes, m ∉ c.bcs → assembleF (lawEdges (netSprings c law)) d (dmap c.nodes m) = f m)
    (hf' : ∀ m ∈ c.nodes, m ∉ c.bcs → assembleF (lawEdges (netSprings c law)) d' (dmap c.nodes m) = f m) :
    ∀ m ∈ c.nodes, d (dmap c.nodes m) = d' (dmap c.nodes m) := by
  intro m hm
  refine monotone_unique_of_reach (netSprings c law) ?_ c.nodes.length ?_ (bcDof c) d d' ?_ ?_
    _ (dmap_lt hm) (reach_of_valid law hv hb m hm)
  · intro s hs
    obtain ⟨e, he, rfl⟩ := List.mem_map.1 hs
    exact hmono e he
  · intro s hs
    obtain ⟨e, he, rfl⟩ := List.mem_map.1 hs
    exact ⟨dmap_lt (hends e he).1, dmap_lt (hends e he).2⟩
  · rintro q _ ⟨b, hbc, rfl⟩
    rw [hd b hbc, hd' b hbc]
  · intro q hq hnb
    have hq' := dmap_getElem hnd q hq
    have hmem : c.nodes[q] ∈ c.nodes := List.getElem_mem hq
    have hfree : c.nodes[q] ∉ c.bcs := fun hbc => hnb ⟨_, hbc, hq'⟩
    have h1 := hf _ hmem hfree
    have h2 := hf' _ hmem hfree
    rw [hq'] at h1 h2
    rw [h1, h2]

end Field

/-! ## differentiable laws over `ℝ` -/

/-- a spring law whose second component (the reported tangent) is the derivative of its first component
(the force) and is positive at every displacement has a strictly increasing force -/
theorem law_strictMono_of_tangent_pos (law : Law ℝ)
    (hderiv : ∀ δ, HasDerivAt (fun x => (law x).1) (law δ).2 δ) (hpos : ∀ δ, 0 < (law δ).2) :
    StrictMono (fun δ => (law δ).1) := by
  apply strictMono_of_deriv_pos
  intro δ
  rw [(hderiv δ).deriv]
  exact hpos δ

/-! ## a nonlinear example law -/

/-- the hardening law `F δ = δ + δ³` with tangent `1 + 3δ²` -/
def cubicLaw {K : Type} [Add K] [Mul K] [OfNat K 1] [OfNat K 3] : Law K :=
  fun δ => (δ + δ * δ * δ, 1 + 3 * (δ * δ))

theorem cubicLaw_strictMono {F : Type} [Field F] [LinearOrder F] [IsStrictOrderedRing F] :
    StrictMono (fun δ : F => (cubicLaw δ).1) := by
  intro a b hab
  show a + a * a * a < b + b * b * b
  have h1 : 0 < 1 + (a * a + a * b + b * b) := by nlinarith [sq_nonneg (a + b), sq_nonneg a, sq_nonneg b]
  nlinarith [mul_pos (sub_pos.2 hab) h1]

end SrModel.Spring
