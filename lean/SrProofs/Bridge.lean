import SrProofs.Adaptive
import SrProofs.StrainBook
import Mathlib.Tactic.FieldSimp

/-! Composition of C10 with C15: the sub-increments that a *returning* adaptive step accepted are a
`Closed` step in the sense of the strain-bookkeeping model (the last accepted one has step fraction
1), so every C15 theorem that assumes `Step.Closed` applies to every step the real loop returns. -/
namespace SrModel.Bridge
open SrModel.Adaptive SrModel.StrainBook

/-- the accepted attempts of a trace as sub-increments of the bookkeeping model: step fraction
`to_/2^md` (what the code computes as `sf = float(cprog + inc) / float(tprog)`), total strain given
by `tot` -/
noncomputable def subsOf (md : Nat) (tot : Attempt → Ten ℝ) (tr : List Attempt) : List (SubInc ℝ) :=
  (accepted tr).map fun a => ⟨(a.to_ : ℝ) / (2 : ℝ) ^ md, tot a⟩

theorem closed_of_chain (md : Nat) (tot : Attempt → Ten ℝ) :
    ∀ (xs : List Attempt) (a : Nat), xs ≠ [] → Chain xs a (2 ^ md) →
      closedSubs (xs.map fun x => (⟨(x.to_ : ℝ) / (2 : ℝ) ^ md, tot x⟩ : SubInc ℝ)) := by
  intro xs
  induction xs with
  | nil => intro a h; exact absurd rfl h
  | cons x ys ih =>
    intro a _ hc
    obtain ⟨_, _, _, hrest⟩ := hc
    cases ys with
    | nil =>
      simp only [Chain] at hrest
      simp only [List.map_cons, List.map_nil, closedSubs]
      rw [hrest]; push_cast
      exact div_self (by positivity)
    | cons y zs =>
      simp only [List.map_cons, closedSubs]
      have := ih x.to_ (by simp) hrest
      simpa using this

/-- **C10 ⇒ hypothesis of C15.** For every subdivision limit, mode and failure pattern: if the
adaptive step returns, its accepted sub-increments form a closed step. -/
theorem closed_of_returning_step (md : Nat) (hmd : 0 < md) (forced : Bool) (o : Nat → Bool)
    (tr : List Attempt) (tot : Attempt → Ten ℝ) (Tnp1 : ℝ)
    (h : Adaptive.run md forced o = .ok tr) :
    (⟨Tnp1, subsOf md tot tr⟩ : Step ℝ).Closed := by
  have hpost := loop_ok md _ o _ _ tr (init_inv md hmd forced) h
  have hne : accepted tr ≠ [] := by
    intro hnil
    have hc := hpost.chain
    rw [hnil] at hc
    simp only [Chain] at hc
    have : 0 < 2 ^ md := Nat.pow_pos (by decide)
    omega
  unfold Step.Closed subsOf
  exact closed_of_chain md tot (accepted tr) 0 hne hpost.chain

/-- the step fractions handed to the bookkeeping are strictly increasing and at most 1 -/
theorem fractions_le_one (md : Nat) (hmd : 0 < md) (forced : Bool) (o : Nat → Bool)
    (tr : List Attempt) (h : Adaptive.run md forced o = .ok tr) :
    ∀ a ∈ accepted tr, (a.to_ : ℝ) / (2 : ℝ) ^ md ≤ 1 := by
  have hpost := loop_ok md _ o _ _ tr (init_inv md hmd forced) h
  have key : ∀ (xs : List Attempt) (s : Nat), Chain xs s (2 ^ md) → ∀ a ∈ xs, a.to_ ≤ 2 ^ md := by
    intro xs
    induction xs with
    | nil => intro s _ a ha; cases ha
    | cons x ys ih =>
      intro s hc a ha
      obtain ⟨_, _, hlt, hrest⟩ := hc
      rcases List.mem_cons.1 ha with rfl | hmem
      · cases ys with
        | nil => simp only [Chain] at hrest; omega
        | cons y zs =>
          obtain ⟨_, hy, hylt, _⟩ := hrest
          have := ih a.to_ (by exact ⟨‹_›, hy, hylt, ‹_›⟩) y (by simp)
          omega
      · exact ih x.to_ hrest a hmem
  intro a ha
  have := key (accepted tr) 0 hpost.chain a ha
  rw [div_le_one (by positivity)]
  exact_mod_cast this

end SrModel.Bridge
