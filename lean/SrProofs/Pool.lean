import SrModel.Pool
import Mathlib.Data.List.Basic
import Mathlib.Data.List.Induction

/-!
Helper lemmas for C08 (`SrProps/C08.lean`) about `SrModel.Pool`.
-/
namespace SrModel.Pool

/-! ### chunking -/

theorem chunksAux_flatten {α} (c : Nat) (hc : 0 < c) :
    ∀ (fuel : Nat) (xs : List α), xs.length ≤ fuel → (chunksAux c fuel xs).flatten = xs
  | 0, xs, h => by
    have : xs = [] := List.length_eq_zero_iff.mp (Nat.le_zero.mp h)
    subst this; simp [chunksAux]
  | fuel + 1, [], _ => by simp [chunksAux]
  | fuel + 1, x :: xs, h => by
    have hlen : ((x :: xs).drop c).length ≤ fuel := by
      simp only [List.length_drop, List.length_cons] at h ⊢; omega
    simp only [chunksAux, List.flatten_cons]
    rw [chunksAux_flatten c hc fuel _ hlen, List.take_append_drop]

theorem chunks_flatten {α} (c : Nat) (hc : 0 < c) (xs : List α) : (chunks c xs).flatten = xs :=
  chunksAux_flatten c hc xs.length xs (Nat.le_refl _)

theorem chunks_nil {α} (c : Nat) : chunks c ([] : List α) = [] := by
  simp [chunks, chunksAux]

theorem mapChunk_pos (n w : Nat) (hn : 0 < n) (hw : 0 < w) : 0 < mapChunk n w := by
  unfold mapChunk
  split
  · rename_i h
    have hw4 : 0 < w * 4 := by omega
    have := Nat.div_add_mod n (w * 4)
    rw [h] at this
    rcases Nat.eq_zero_or_pos (n / (w * 4)) with h0 | h0
    · rw [h0] at this; omega
    · exact h0
  · exact Nat.succ_pos _

/-! ### gather -/

theorem find?_filterMap_tag {γ} (h : Nat → Option γ) (order : List Nat) (j : Nat) :
    find? j (order.filterMap (fun i => (h i).map (fun v => (i, v)))) =
      if j ∈ order then h j else none := by
  induction order with
  | nil => simp [find?]
  | cons i r ih =>
    rw [List.filterMap_cons]
    cases hi : h i with
    | none =>
      simp only [Option.map_none]
      rw [ih]
      by_cases hji : j = i
      · subst hji; simp [hi]
      · simp [hji]
    | some v =>
      simp only [Option.map_some, find?]
      by_cases hij : i = j
      · subst hij; simp [hi]
      · have : ¬ j = i := fun e => hij e.symm
        simp [hij, this, ih]

theorem range_filterMap_getElem? {γ δ} (l : List γ) (g : γ → δ) :
    (List.range l.length).filterMap (fun j => (l[j]?).map g) = l.map g := by
  induction l using List.reverseRecOn with
  | nil => simp
  | append_singleton l a ih =>
    rw [List.length_append, List.length_singleton, List.range_succ, List.filterMap_append]
    have h1 : (List.range l.length).filterMap (fun j => ((l ++ [a])[j]?).map g) =
        (List.range l.length).filterMap (fun j => (l[j]?).map g) := by
      apply List.filterMap_congr
      intro j hj
      have : j < l.length := List.mem_range.mp hj
      rw [List.getElem?_append_left this]
    rw [h1, ih]
    simp

theorem place_arrivals {α β} (f : α → β) (c : Nat) (xs : List α) (order : List Nat)
    (hv : ValidOrder c xs order) :
    place (chunks c xs).length (arrivals f c xs order) = (chunks c xs).map (fun ch => ch.map f) := by
  unfold place arrivals
  have h1 : ∀ j ∈ List.range (chunks c xs).length,
      find? j (order.filterMap (fun j => ((chunks c xs)[j]?).map (fun ch => (j, ch.map f)))) =
        ((chunks c xs)[j]?).map (fun ch => ch.map f) := by
    intro j hj
    have := find?_filterMap_tag (fun i => ((chunks c xs)[i]?).map (fun ch => ch.map f)) order j
    simp only [Option.map_map] at this
    have hmem : j ∈ order := (hv.mem_iff).mpr hj
    rw [if_pos hmem] at this
    rw [← this]
    rfl
  rw [List.filterMap_congr h1]
  exact range_filterMap_getElem? (chunks c xs) (fun ch => ch.map f)

theorem gather_eq_map {α β} (f : α → β) (c : Nat) (hc : 0 < c) (xs : List α) (order : List Nat)
    (hv : ValidOrder c xs order) : gather f c xs order = xs.map f := by
  unfold gather
  rw [place_arrivals f c xs order hv, ← List.map_flatten, chunks_flatten c hc]

/-- the chunk size `Pool.map` picks by default is fine for every task list, the empty one included -/
theorem gather_mapChunk {α β} (f : α → β) (w : Nat) (hw : 0 < w) (xs : List α) (order : List Nat)
    (hv : ValidOrder (mapChunk xs.length w) xs order) :
    gather f (mapChunk xs.length w) xs order = xs.map f := by
  cases xs with
  | nil =>
    unfold ValidOrder at hv
    rw [chunks_nil] at hv
    have : order = [] := by simpa using hv
    subst this
    simp [gather, place, arrivals, chunks_nil]
  | cons x xs =>
    exact gather_eq_map f _ (mapChunk_pos _ w (by simp) hw) _ order hv

/-! ### copy-back -/

/-- copy-back written as one pass over `orig` with a key lookup in `new` -/
def mergeNet {D O Sp} (new orig : Net D O Sp) : Net D O Sp :=
  orig.map (fun e => (e.1, match findKey? e.1 new with
    | some o' => merge e.2 o'
    | none => e.2))

theorem findKey?_none_of_not_mem {γ} (k : Key) (l : List (Key × γ)) (h : k ∉ l.map (·.1)) :
    findKey? k l = none := by
  induction l with
  | nil => rfl
  | cons e r ih =>
    obtain ⟨k', v⟩ := e
    simp only [List.map_cons, List.mem_cons, not_or] at h
    have : ¬ k' = k := fun e => h.1 e.symm
    simp [findKey?, this, ih h.2]

theorem copyNet_eq_mergeNet {D O Sp} (new orig : Net D O Sp) (hnd : (new.map (·.1)).Nodup) :
    copyNet new orig = mergeNet new orig := by
  unfold copyNet
  induction new generalizing orig with
  | nil => simp [mergeNet, findKey?]
  | cons e r ih =>
    obtain ⟨k0, o0⟩ := e
    simp only [List.map_cons, List.nodup_cons] at hnd
    rw [List.foldl_cons, ih _ hnd.2]
    unfold mergeNet updateAt
    rw [List.map_map]
    apply List.map_congr_left
    intro e _
    obtain ⟨k, o⟩ := e
    by_cases hk : k = k0
    · subst hk
      simp [findKey?, findKey?_none_of_not_mem _ _ hnd.1]
    · have : ¬ k0 = k := fun e => hk e.symm
      simp [findKey?, hk, this]

theorem rest_mergeNet {D O Sp} (new orig : Net D O Sp) : rest (mergeNet new orig) = rest orig := by
  unfold rest mergeNet
  rw [List.map_map]
  apply List.map_congr_left
  intro e _
  obtain ⟨k, o⟩ := e
  simp only [Function.comp]
  cases findKey? k new with
  | none => rfl
  | some o' => cases o <;> cases o' <;> simp [merge, copyResults]

theorem tubeData_mergeNet {D O Sp} :
    ∀ (new orig : Net D O Sp), shape new = shape orig → (orig.map (·.1)).Nodup →
      tubeData (mergeNet new orig) = tubeData new
  | [], [], _, _ => by simp [mergeNet, tubeData]
  | [], _ :: _, h, _ => by simp [shape] at h
  | _ :: _, [], h, _ => by simp [shape] at h
  | (k0', o0') :: new, (k0, o0) :: orig, h, hnd => by
    simp only [shape, List.map_cons, List.cons.injEq, Prod.mk.injEq] at h
    obtain ⟨⟨hk, hkind⟩, hsh⟩ := h
    subst hk
    simp only [List.map_cons, List.nodup_cons] at hnd
    have ih := tubeData_mergeNet new orig hsh hnd.2
    have htail : (orig.map (fun e => (e.1, match findKey? e.1 ((k0', o0') :: new) with
          | some o' => merge e.2 o'
          | none => e.2))) = mergeNet new orig := by
      unfold mergeNet
      apply List.map_congr_left
      intro e he
      have hne : ¬ k0' = e.1 := by
        intro heq
        exact hnd.1 (heq ▸ List.mem_map_of_mem (f := (·.1)) he)
      simp [findKey?, hne]
    unfold mergeNet
    rw [List.map_cons, htail]
    unfold tubeData at ih ⊢
    rw [List.filterMap_cons, List.filterMap_cons, ih]
    cases o0 <;> cases o0' <;> simp_all [findKey?, merge, copyResults, Obj.isTube]

theorem shape_keys {D O Sp} (a b : Net D O Sp) (h : shape a = shape b) :
    a.map (·.1) = b.map (·.1) := by
  have := congrArg (List.map (·.1)) h
  simpa [shape, List.map_map, Function.comp_def] using this

theorem mergeNet_self {D O Sp} (n : Net D O Sp) (hnd : (n.map (·.1)).Nodup) :
    tubeData (mergeNet n n) = tubeData n := tubeData_mergeNet n n rfl hnd

end SrModel.Pool
