import SrModel.Spring
import Mathlib.Tactic.Ring
import Mathlib.Tactic.Linarith
import Mathlib.Tactic.Tauto
import Mathlib.Algebra.BigOperators.Group.Finset.Basic
import Mathlib.Algebra.BigOperators.Ring.Finset

/-!
# Lemmas about the spring-network model

Part 1: quick-find merging along a *tree-ordered* edge list (every edge goes from a smaller node
to a node larger than every node mentioned before it — the order in which `make_network` adds
edges) has a closed description through the parent of each node (`mergeAlong_spec`).
-/
namespace SrModel.Spring

/-! ## tree order -/

/-- `TreeOrd b es`: the child ends `e.j` are strictly increasing, at least `b`, and each edge
goes from a smaller node to its child. -/
def TreeOrd : Nat → List Edge → Prop
  | _, [] => True
  | b, e :: es => e.i < e.j ∧ b ≤ e.j ∧ TreeOrd (e.j + 1) es

theorem TreeOrd.mono {es : List Edge} {b c : Nat} (h : TreeOrd c es) (hbc : b ≤ c) : TreeOrd b es := by
  cases es with
  | nil => trivial
  | cons e es => exact ⟨h.1, by have := h.2.1; omega, h.2.2⟩

theorem TreeOrd.lt {es : List Edge} {b : Nat} (h : TreeOrd b es) : ∀ e ∈ es, e.i < e.j ∧ b ≤ e.j := by
  induction es generalizing b with
  | nil => intro e he; cases he
  | cons a es ih =>
    intro e he
    rcases List.mem_cons.1 he with rfl | he
    · exact ⟨h.1, h.2.1⟩
    · have := ih h.2.2 e he
      exact ⟨this.1, by have := h.2.1; omega⟩

/-- a node is the child end of at most one edge -/
theorem TreeOrd.child_inj {es : List Edge} {b : Nat} (h : TreeOrd b es) :
    ∀ e₁ ∈ es, ∀ e₂ ∈ es, e₁.j = e₂.j → e₁ = e₂ := by
  induction es generalizing b with
  | nil => intro e he; cases he
  | cons a es ih =>
    intro e₁ h₁ e₂ h₂ hj
    rcases List.mem_cons.1 h₁ with r1 | m1 <;> rcases List.mem_cons.1 h₂ with r2 | m2
    · rw [r1, r2]
    · have := (h.2.2.lt e₂ m2).2; rw [r1] at hj; omega
    · have := (h.2.2.lt e₁ m1).2; rw [r2] at hj; omega
    · exact ih h.2.2 e₁ m1 e₂ m2 hj

theorem TreeOrd.filter {es : List Edge} {b : Nat} (q : Edge → Bool) (h : TreeOrd b es) :
    TreeOrd b (es.filter q) := by
  induction es generalizing b with
  | nil => trivial
  | cons a es ih =>
    by_cases hq : q a = true
    · simp only [List.filter_cons, hq, if_true]
      exact ⟨h.1, h.2.1, ih h.2.2⟩
    · simp only [List.filter_cons, hq]
      exact (ih h.2.2).mono (by have := h.2.1; omega)

theorem TreeOrd.append {xs ys : List Edge} {b c : Nat} (hx : TreeOrd b xs)
    (hlt : ∀ e ∈ xs, e.j < c) (hy : TreeOrd c ys) (hbc : b ≤ c) : TreeOrd b (xs ++ ys) := by
  induction xs generalizing b with
  | nil => exact hy.mono hbc
  | cons a xs ih =>
    refine ⟨hx.1, hx.2.1, ih hx.2.2 (fun e he => hlt e (List.mem_cons_of_mem _ he)) ?_⟩
    have := hlt a (List.mem_cons_self ..); omega

/-- relabelling the parent ends by a map that does not increase and fixes the child ends -/
theorem TreeOrd.relabel {es : List Edge} {b : Nat} (lab : Lab) (h : TreeOrd b es)
    (hle : ∀ n, lab.get n ≤ n) (hfix : ∀ e ∈ es, lab.get e.j = e.j) :
    TreeOrd b (es.map (relabel lab)) := by
  induction es generalizing b with
  | nil => trivial
  | cons a es ih =>
    have hj : lab.get a.j = a.j := hfix a (List.mem_cons_self ..)
    refine ⟨?_, ?_, ?_⟩
    · show lab.get a.i < lab.get a.j
      rw [hj]; exact Nat.lt_of_le_of_lt (hle _) h.1
    · show b ≤ lab.get a.j
      rw [hj]; exact h.2.1
    · show TreeOrd (lab.get a.j + 1) _
      rw [hj]; exact ih h.2.2 (fun e he => hfix e (List.mem_cons_of_mem _ he))

/-! ## merging -/

/-- labels never exceed the node, and nodes from `b` on are still their own label -/
structure Below (b : Nat) (lab : Lab) : Prop where
  le : ∀ n, lab.get n ≤ n
  fix : ∀ n, b ≤ n → lab.get n = n

theorem below_id (b : Nat) : Below b Lab.id := ⟨fun _ => Nat.le_refl _, fun _ _ => rfl⟩

/-- merging a fresh child `j` into the class of `i` only changes the label of `j` -/
theorem merge_fresh {b i j : Nat} {lab : Lab} (hb : Below b lab) (hij : i < j) (hbj : b ≤ j) (n : Nat) :
    (merge lab (lab.get i) (lab.get j)).get n = if n = j then lab.get i else lab.get n := by
  have hj : lab.get j = j := hb.fix j hbj
  have hi : lab.get i < j := Nat.lt_of_le_of_lt (hb.le i) hij
  show (if lab.get n = max (lab.get i) (lab.get j) then min (lab.get i) (lab.get j) else lab.get n) = _
  rw [hj, Nat.max_eq_right (Nat.le_of_lt hi), Nat.min_eq_left (Nat.le_of_lt hi)]
  by_cases hn : n = j
  · subst hn; simp [hj]
  · have : lab.get n ≠ j := by
      intro h
      by_cases hbn : b ≤ n
      · rw [hb.fix n hbn] at h; exact hn h
      · have := hb.le n; omega
    simp [hn, this]

theorem below_step {b i j : Nat} {lab : Lab} (p : Bool) (hb : Below b lab) (hij : i < j) (hbj : b ≤ j) :
    Below (j + 1) (if p then merge lab (lab.get i) (lab.get j) else lab) := by
  cases p with
  | false => exact ⟨hb.le, fun n hn => hb.fix n (by omega)⟩
  | true =>
    refine ⟨fun n => ?_, fun n hn => ?_⟩
    · simp only [if_true]; rw [merge_fresh hb hij hbj]
      by_cases h : n = j
      · subst h; simp; exact Nat.le_trans (hb.le i) (Nat.le_of_lt hij)
      · simp [h]; exact hb.le n
    · simp only [if_true]; rw [merge_fresh hb hij hbj]
      have : n ≠ j := by omega
      simp [this]; exact hb.fix n (by omega)

/-- **closed description of merging along a tree-ordered list.** -/
theorem mergeAlong_spec (p : Edge → Bool) (es : List Edge) :
    ∀ (b : Nat) (lab : Lab), TreeOrd b es → Below b lab →
      (∀ n, (mergeAlong p lab es).get n ≤ n) ∧
      (∀ n, (∀ e ∈ es, e.j ≠ n) → (mergeAlong p lab es).get n = lab.get n) ∧
      (∀ e ∈ es, (mergeAlong p lab es).get e.j = if p e then (mergeAlong p lab es).get e.i else e.j) := by
  induction es with
  | nil =>
    intro b lab _ hb
    exact ⟨hb.le, fun _ _ => rfl, fun e he => by cases he⟩
  | cons a es ih =>
    intro b lab ht hb
    have hb' := below_step (p a) hb ht.1 ht.2.1
    obtain ⟨h1, h2, h3⟩ := ih (a.j + 1) _ ht.2.2 hb'
    have hlab' : ∀ n, n ≠ a.j →
        (if p a then merge lab (lab.get a.i) (lab.get a.j) else lab).get n = lab.get n := by
      intro n hn
      cases hp : p a with
      | false => simp
      | true => simp only [if_true]; rw [merge_fresh hb ht.1 ht.2.1]; simp [hn]
    have hnc : ∀ n, n ≤ a.j → ∀ e ∈ es, e.j ≠ n := by
      intro n hn e he
      have := (ht.2.2.lt e he).2; omega
    refine ⟨h1, ?_, ?_⟩
    · intro n hn
      show (mergeAlong p _ es).get n = _
      rw [h2 n (fun e he => hn e (List.mem_cons_of_mem _ he))]
      exact hlab' n (fun h => hn a (List.mem_cons_self ..) h.symm)
    · intro e he
      rcases List.mem_cons.1 he with rfl | he
      · show (mergeAlong p _ es).get e.j = if p e then (mergeAlong p _ es).get e.i else e.j
        rw [h2 e.j (hnc e.j (Nat.le_refl _)), h2 e.i (hnc e.i (Nat.le_of_lt ht.1)),
          hlab' e.i (Nat.ne_of_lt ht.1)]
        cases hp : p e with
        | false => simp; exact hb.fix _ ht.2.1
        | true => simp only [if_true]; rw [merge_fresh hb ht.1 ht.2.1]; simp
      · exact h3 e he

/-! ## consequences for a start from the identity -/

section FromId
variable {p : Edge → Bool} {es : List Edge} {b : Nat}

theorem mergeId_le (h : TreeOrd b es) (n : Nat) : (mergeAlong p Lab.id es).get n ≤ n :=
  (mergeAlong_spec p es b Lab.id h (below_id b)).1 n

theorem mergeId_nochild (h : TreeOrd b es) {n : Nat} (hn : ∀ e ∈ es, e.j ≠ n) :
    (mergeAlong p Lab.id es).get n = n :=
  (mergeAlong_spec p es b Lab.id h (below_id b)).2.1 n hn

theorem mergeId_child (h : TreeOrd b es) {e : Edge} (he : e ∈ es) :
    (mergeAlong p Lab.id es).get e.j = if p e then (mergeAlong p Lab.id es).get e.i else e.j :=
  (mergeAlong_spec p es b Lab.id h (below_id b)).2.2 e he

/-- induction along the parent relation -/
theorem parent_induct (h : TreeOrd b es) (Q : Nat → Prop)
    (h0 : ∀ n, (∀ e ∈ es, e.j ≠ n) → Q n) (h1 : ∀ e ∈ es, Q e.i → Q e.j) : ∀ n, Q n := by
  intro n
  induction n using Nat.strong_induction_on with
  | _ n ih =>
    by_cases hc : ∃ e ∈ es, e.j = n
    · obtain ⟨e, he, rfl⟩ := hc
      exact h1 e he (ih e.i (h.lt e he).1)
    · exact h0 n (fun e he hj => hc ⟨e, he, hj⟩)

theorem mergeId_idem (h : TreeOrd b es) (n : Nat) :
    (mergeAlong p Lab.id es).get ((mergeAlong p Lab.id es).get n) = (mergeAlong p Lab.id es).get n := by
  refine parent_induct h (fun n => (mergeAlong p Lab.id es).get ((mergeAlong p Lab.id es).get n) =
    (mergeAlong p Lab.id es).get n) ?_ ?_ n
  · intro n hn; simp only [mergeId_nochild h hn]
  · intro e he ih
    simp only [mergeId_child h he]
    cases hp : p e with
    | true => simpa using ih
    | false =>
      have := mergeId_child (p := p) h he
      rw [hp] at this; simpa using this

/-- a set of nodes that contains the parent ends of the merged edges is closed under the label map -/
theorem mergeId_closed (h : TreeOrd b es) (S : Nat → Prop) (hS : ∀ e ∈ es, p e = true → S e.i)
    {n : Nat} (hn : S n) : S ((mergeAlong p Lab.id es).get n) := by
  revert hn
  refine parent_induct h (fun n => S n → S ((mergeAlong p Lab.id es).get n)) ?_ ?_ n
  · intro n hn hs; rwa [mergeId_nochild h hn]
  · intro e he ih hs
    rw [mergeId_child h he]
    cases hp : p e with
    | true => simp only [if_true]; exact ih (hS e he hp)
    | false => simpa using hs

end FromId

/-! ## `remove_rigid` never raises on a tree-ordered network whose rigid links do not end at a BC node -/

theorem parallel_eq_one {all pre rest : List Edge} {e : Edge} {lab : Lab} {b : Nat}
    (hall : all = pre ++ e :: rest) (ht : TreeOrd b (e :: rest)) (hb : Below b lab)
    (hpre : ∀ x ∈ pre, x.i < b ∧ x.j < b) :
    parallel all lab (lab.get e.i) (lab.get e.j) = 1 := by
  have hj : lab.get e.j = e.j := hb.fix _ ht.2.1
  have hi : lab.get e.i < e.j := Nat.lt_of_le_of_lt (hb.le _) ht.1
  subst hall
  unfold parallel
  rw [List.countP_append, List.countP_cons]
  have h1 : List.countP (fun x => sameEnds (lab.get e.i) (lab.get e.j) (lab.get x.i) (lab.get x.j)) pre = 0 := by
    rw [List.countP_eq_zero]
    intro x hx
    have := hpre x hx
    have h1 := hb.le x.i
    have h2 := hb.le x.j
    have hbj := ht.2.1
    simp [sameEnds, hj]
    omega
  have h2 : List.countP (fun x => sameEnds (lab.get e.i) (lab.get e.j) (lab.get x.i) (lab.get x.j)) rest = 0 := by
    rw [List.countP_eq_zero]
    intro x hx
    have hx' := ht.2.2.lt x hx
    have hxj : lab.get x.j = x.j := hb.fix _ (by have := ht.2.1; omega)
    simp [sameEnds, hj, hxj]
    omega
  rw [h1, h2]
  simp [sameEnds]

theorem rrGo_ok_aux (all : List Edge) (bcs : List Nat) (hbc : ∀ e ∈ all, e.isRigid = true → e.j ∉ bcs) :
    ∀ (rest pre : List Edge) (lab : Lab) (b : Nat), all = pre ++ rest → TreeOrd b rest → Below b lab →
      (∀ x ∈ pre, x.i < b ∧ x.j < b) →
      rrGo all bcs lab rest = .ok (mergeAlong Edge.isRigid lab rest) := by
  intro rest
  induction rest with
  | nil => intro pre lab b _ _ _ _; rfl
  | cons e rest ih =>
    intro pre lab b hall ht hb hpre
    have hmem : e ∈ all := by rw [hall]; simp
    have hall' : all = (pre ++ [e]) ++ rest := by rw [hall]; simp
    have hpre' : ∀ x ∈ pre ++ [e], x.i < e.j + 1 ∧ x.j < e.j + 1 := by
      intro x hx
      rcases List.mem_append.1 hx with hx | hx
      · have := hpre x hx; have := ht.2.1; omega
      · have : x = e := by simpa using hx
        subst this; have := ht.1; omega
    have hb' := below_step (e.isRigid) hb ht.1 ht.2.1
    have hrec := ih (pre ++ [e]) _ (e.j + 1) hall' ht.2.2 hb' hpre'
    cases hr : e.isRigid with
    | false =>
      rw [hr] at hrec
      simp only [rrGo, hr, mergeAlong]
      simpa using hrec
    | true =>
      rw [hr] at hrec
      have hj : lab.get e.j = e.j := hb.fix _ ht.2.1
      have hi : lab.get e.i < e.j := Nat.lt_of_le_of_lt (hb.le _) ht.1
      have hpar := parallel_eq_one hall ht hb hpre
      have hnb : e.j ∉ bcs := hbc e hmem hr
      have hmax : max (lab.get e.i) (lab.get e.j) = e.j := by rw [hj]; omega
      have c1 : (bcs.contains (lab.get e.i) && bcs.contains (lab.get e.j)) = false := by
        rw [hj]; simp [hnb]
      have c2 : bcs.contains (max (lab.get e.i) (lab.get e.j)) = false := by
        rw [hmax]; simp [hnb]
      simp only [rrGo, hr, mergeAlong, if_true, hpar, c1, c2]
      simpa using hrec

theorem rrGo_ok {all : List Edge} {bcs : List Nat} {b : Nat} (ht : TreeOrd b all)
    (hbc : ∀ e ∈ all, e.isRigid = true → e.j ∉ bcs) :
    rrGo all bcs Lab.id all = .ok (mergeAlong Edge.isRigid Lab.id all) :=
  rrGo_ok_aux all bcs hbc all [] Lab.id b (by simp) ht (below_id b) (by simp)

/-! ## tree networks: the generic theorems about `reduce` -/

/-- what the theorems need of a network: edges in tree order (node 0 is never a child), nodes
`0..N-1`, the BC nodes are exactly the lower ends of the tubes, and no edge hangs below a BC node -/
structure TreeNet (net : Net) (N : Nat) : Prop where
  ord : TreeOrd 1 net.edges
  nodes : net.nodes = List.range N
  lt : ∀ e ∈ net.edges, e.j < N
  tube_bc : ∀ e ∈ net.edges, e.isTube = true → e.j ∈ net.bcs
  bc_tube : ∀ b ∈ net.bcs, ∃ e ∈ net.edges, e.j = b ∧ e.isTube = true
  par_free : ∀ e ∈ net.edges, e.i ∉ net.bcs

theorem isTube_not_rigid {e : Edge} (h : e.isTube = true) : e.isRigid = false := by
  unfold Edge.isTube at h; unfold Edge.isRigid; split at h <;> simp_all

theorem isTube_not_disc {e : Edge} (h : e.isTube = true) : e.isDisc = false := by
  unfold Edge.isTube at h; unfold Edge.isDisc; split at h <;> simp_all

theorem isSpring_of {e : Edge} (h1 : e.isRigid = false) (h2 : e.isDisc = false) : e.isSpring = true := by
  unfold Edge.isRigid at h1; unfold Edge.isDisc at h2; unfold Edge.isSpring
  rcases e with ⟨i, j, k⟩
  cases k with
  | tube id => rfl
  | conn o => cases o <;> simp_all

@[simp] theorem relabel_isTube (lab : Lab) (e : Edge) : (relabel lab e).isTube = e.isTube := rfl
@[simp] theorem relabel_isDisc (lab : Lab) (e : Edge) : (relabel lab e).isDisc = e.isDisc := rfl
@[simp] theorem relabel_isRigid (lab : Lab) (e : Edge) : (relabel lab e).isRigid = e.isRigid := rfl
@[simp] theorem relabel_isSpring (lab : Lab) (e : Edge) : (relabel lab e).isSpring = e.isSpring := rfl
@[simp] theorem relabel_i (lab : Lab) (e : Edge) : (relabel lab e).i = lab.get e.i := rfl
@[simp] theorem relabel_j (lab : Lab) (e : Edge) : (relabel lab e).j = lab.get e.j := rfl
@[simp] theorem relabel_kind (lab : Lab) (e : Edge) : (relabel lab e).kind = e.kind := rfl

/-- the representative map of `remove_rigid` -/
def rlab (net : Net) : Lab := mergeAlong Edge.isRigid Lab.id net.edges

/-- the spring edges of the contracted network -/
def springEdges (net : Net) : List Edge :=
  (contractBy (rlab net) net).edges.filter (fun e => !e.isDisc)

/-- component labels of the contracted network -/
def clab (net : Net) : Lab := compLab (springEdges net)

theorem rigidRep_eq (net : Net) : rigidRep net = (rlab net).get := rfl

namespace TreeNet
variable {net : Net} {N : Nat}

theorem rigid_not_bc (h : TreeNet net N) : ∀ e ∈ net.edges, e.isRigid = true → e.j ∉ net.bcs := by
  intro e he hr hb
  obtain ⟨e', he', hj, ht⟩ := h.bc_tube _ hb
  have := h.ord.child_inj e' he' e he hj
  subst this
  rw [isTube_not_rigid ht] at hr; cases hr

theorem removeRigid_eq (h : TreeNet net N) : removeRigid net = .ok (contractBy (rlab net) net) := by
  unfold removeRigid
  rw [rrGo_ok h.ord h.rigid_not_bc]; rfl

theorem reduce_eq (h : TreeNet net N) : reduce net = .ok (splitDisconnect (contractBy (rlab net) net)) := by
  unfold reduce; rw [h.removeRigid_eq]

theorem rlab_le (h : TreeNet net N) (n : Nat) : (rlab net).get n ≤ n := mergeId_le h.ord n

theorem rlab_idem (h : TreeNet net N) (n : Nat) : (rlab net).get ((rlab net).get n) = (rlab net).get n :=
  mergeId_idem h.ord n

theorem rlab_fix (h : TreeNet net N) {e : Edge} (he : e ∈ net.edges) (hr : e.isRigid = false) :
    (rlab net).get e.j = e.j := by
  have := mergeId_child (p := Edge.isRigid) h.ord he
  rw [hr] at this; simpa [rlab] using this

theorem rlab_not_bc (h : TreeNet net N) {n : Nat} (hn : n ∉ net.bcs) : (rlab net).get n ∉ net.bcs :=
  mergeId_closed h.ord (fun n => n ∉ net.bcs) (fun e he _ => h.par_free e he) hn

theorem _root_.SrModel.Spring.mem_springEdges {net : Net} {e' : Edge} :
    e' ∈ springEdges net ↔ ∃ e ∈ net.edges, e.isRigid = false ∧ e.isDisc = false ∧ relabel (rlab net) e = e' := by
  unfold springEdges contractBy
  simp only [List.mem_filter, List.mem_map, Bool.not_eq_true']
  constructor
  · rintro ⟨⟨e, ⟨he, hr⟩, rfl⟩, hd⟩
    exact ⟨e, he, hr, by simpa using hd, rfl⟩
  · rintro ⟨e, he, hr, hd, rfl⟩
    exact ⟨⟨e, ⟨he, hr⟩, rfl⟩, by simpa using hd⟩

theorem springEdges_ord (h : TreeNet net N) : TreeOrd 1 (springEdges net) := by
  unfold springEdges contractBy
  apply TreeOrd.filter
  apply TreeOrd.relabel _ (h.ord.filter _) h.rlab_le
  intro e he
  have := List.mem_filter.1 he
  exact h.rlab_fix this.1 (by simpa using this.2)

theorem clab_le (h : TreeNet net N) (n : Nat) : (clab net).get n ≤ n := mergeId_le h.springEdges_ord n

theorem clab_idem (h : TreeNet net N) (n : Nat) : (clab net).get ((clab net).get n) = (clab net).get n :=
  mergeId_idem h.springEdges_ord n

theorem clab_edge (h : TreeNet net N) {e : Edge} (he : e ∈ springEdges net) :
    (clab net).get e.j = (clab net).get e.i := by
  have := mergeId_child (p := fun _ => true) h.springEdges_ord he
  simpa [clab, compLab] using this

theorem clab_nochild (h : TreeNet net N) {n : Nat} (hn : ∀ e ∈ springEdges net, e.j ≠ n) :
    (clab net).get n = n := mergeId_nochild h.springEdges_ord hn

/-- surviving nodes (their own representative) are closed under the component label -/
theorem clab_surv (h : TreeNet net N) {n : Nat} (hn : (rlab net).get n = n) :
    (rlab net).get ((clab net).get n) = (clab net).get n := by
  refine mergeId_closed h.springEdges_ord (fun n => (rlab net).get n = n) ?_ hn
  intro e' he' _
  obtain ⟨e, _, _, _, rfl⟩ := mem_springEdges.1 he'
  exact h.rlab_idem _

end TreeNet

theorem mem_splitDisconnect {n c : Net} :
    c ∈ splitDisconnect n ↔ ∃ r ∈ n.nodes, (compLab (n.edges.filter (fun e => !e.isDisc))).get r = r ∧
      component n (n.edges.filter (fun e => !e.isDisc)) (compLab (n.edges.filter (fun e => !e.isDisc))) r = c ∧
      keep c = true := by
  unfold splitDisconnect
  simp only [List.mem_filter, List.mem_map, beq_iff_eq]
  constructor
  · rintro ⟨⟨r, ⟨hr, hc⟩, rfl⟩, hk⟩; exact ⟨r, hr, hc, rfl, hk⟩
  · rintro ⟨r, hr, hc, rfl, hk⟩; exact ⟨⟨r, ⟨hr, hc⟩, rfl⟩, hk⟩

/-- the component of root `r` in the contracted network -/
def comp (net : Net) (r : Nat) : Net :=
  component (contractBy (rlab net) net) (springEdges net) (clab net) r

theorem mem_components {net c : Net} :
    c ∈ splitDisconnect (contractBy (rlab net) net) ↔
      ∃ r ∈ net.nodes, (rlab net).get r = r ∧ (clab net).get r = r ∧ comp net r = c ∧ keep c = true := by
  rw [mem_splitDisconnect]
  constructor
  · rintro ⟨r, hr, hc, rfl, hk⟩
    have := List.mem_filter.1 hr
    exact ⟨r, this.1, by simpa using this.2, hc, rfl, hk⟩
  · rintro ⟨r, hr, hl, hc, rfl, hk⟩
    exact ⟨r, List.mem_filter.2 ⟨hr, by simpa using hl⟩, hc, rfl, hk⟩

theorem mem_comp_nodes {net : Net} {r n : Nat} :
    n ∈ (comp net r).nodes ↔ n ∈ net.nodes ∧ (rlab net).get n = n ∧ (clab net).get n = r := by
  unfold comp component contractBy
  simp only [List.mem_filter, beq_iff_eq]
  tauto

theorem mem_comp_edges {net : Net} {r : Nat} {e : Edge} :
    e ∈ (comp net r).edges ↔ e ∈ springEdges net ∧ (clab net).get e.i = r := by
  unfold comp component
  simp [List.mem_filter]

theorem mem_comp_bcs {net : Net} {r n : Nat} :
    n ∈ (comp net r).bcs ↔ n ∈ net.bcs ∧ (clab net).get n = r := by
  unfold comp component contractBy
  simp [List.mem_filter]

theorem isEmpty_false_of_mem {α} {l : List α} {x : α} (h : x ∈ l) : l.isEmpty = false := by
  cases l with
  | nil => cases h
  | cons a l => rfl

namespace TreeNet
variable {net : Net} {N : Nat}

theorem springEdges_spring (_h : TreeNet net N) {e : Edge} (he : e ∈ springEdges net) : e.isSpring = true := by
  obtain ⟨e0, _, hr, hd, rfl⟩ := mem_springEdges.1 he
  simpa using isSpring_of hr hd

/-- a tube edge of the contracted network: upper end smaller, lower end a BC node of the same
component, upper end not a BC node -/
theorem tube_edge (h : TreeNet net N) {e : Edge} (he : e ∈ springEdges net) (ht : e.isTube = true) :
    e.i < e.j ∧ e.j ∈ net.bcs ∧ e.i ∉ net.bcs ∧ (clab net).get e.j = (clab net).get e.i := by
  obtain ⟨e0, he0, hr, hd, rfl⟩ := mem_springEdges.1 he
  have ht0 : e0.isTube = true := by simpa using ht
  have hj : (rlab net).get e0.j = e0.j := h.rlab_fix he0 hr
  refine ⟨?_, ?_, ?_, h.clab_edge he⟩
  · show (rlab net).get e0.i < (rlab net).get e0.j
    rw [hj]; exact Nat.lt_of_le_of_lt (h.rlab_le _) (h.ord.lt e0 he0).1
  · show (rlab net).get e0.j ∈ net.bcs
    rw [hj]; exact h.tube_bc e0 he0 ht0
  · exact h.rlab_not_bc (h.par_free e0 he0)

/-- inside the component of `r`, merging along the component's own edges labels every node `r` -/
theorem comp_connected_aux (h : TreeNet net N) (r : Nat) :
    ∀ n, (clab net).get n = r → (compLab (comp net r).edges).get n = r := by
  have hsub : ∀ e, e ∈ (comp net r).edges ↔ e ∈ springEdges net ∧ (clab net).get e.i = r :=
    fun e => mem_comp_edges
  have hord : TreeOrd 1 (comp net r).edges := by
    unfold comp component; exact h.springEdges_ord.filter _
  refine parent_induct h.springEdges_ord _ ?_ ?_
  · intro n hn hc
    rw [h.clab_nochild hn] at hc
    subst hc
    exact mergeId_nochild hord (fun e he => hn e ((hsub e).1 he).1)
  · intro e he ih hc
    rw [h.clab_edge he] at hc
    have hmem : e ∈ (comp net r).edges := (hsub e).2 ⟨he, hc⟩
    have := mergeId_child (p := fun _ => true) hord hmem
    simp only [if_true] at this
    unfold compLab
    rw [this]
    exact ih hc

theorem comp_valid (h : TreeNet net N) {r : Nat} (hr : r ∈ net.nodes) (hl : (rlab net).get r = r)
    (hc : (clab net).get r = r) (hk : keep (comp net r) = true) : validateSolve (comp net r) = .ok () := by
  have h1 : (comp net r).edges.all Edge.isSpring = true := by
    rw [List.all_eq_true]
    intro e he
    exact h.springEdges_spring (mem_comp_edges.1 he).1
  have h2 : (comp net r).bcs.isEmpty = false := by
    unfold keep at hk
    simp only [Bool.and_eq_true, Bool.or_eq_true, Bool.not_eq_true', List.any_eq_true] at hk
    rcases hk.2 with ⟨e, he, ht⟩ | hb
    · have hm := mem_comp_edges.1 he
      have := h.tube_edge hm.1 ht
      exact isEmpty_false_of_mem (mem_comp_bcs.2 ⟨this.2.1, by rw [this.2.2.2]; exact hm.2⟩)
    · exact hb
  have h3 : connected (comp net r) = true := by
    have hrn : r ∈ (comp net r).nodes := mem_comp_nodes.2 ⟨hr, hl, hc⟩
    unfold connected
    cases hn : (comp net r).nodes with
    | nil => rw [hn] at hrn; cases hrn
    | cons n0 ns =>
      simp only [List.all_eq_true, beq_iff_eq]
      intro m hm
      have hm' : m ∈ (comp net r).nodes := by rw [hn]; exact List.mem_cons_of_mem _ hm
      have h0' : n0 ∈ (comp net r).nodes := by rw [hn]; exact List.mem_cons_self ..
      rw [h.comp_connected_aux r m (mem_comp_nodes.1 hm').2.2,
        h.comp_connected_aux r n0 (mem_comp_nodes.1 h0').2.2]
  simp [validateSolve, h1, h2, h3]

/-- the contracted image of an edge of the original network that is a tube lies in exactly one component -/
theorem tube_in_one (h : TreeNet net N) {e0 : Edge} (he0 : e0 ∈ net.edges) (ht : e0.isTube = true) :
    ∃ c ∈ splitDisconnect (contractBy (rlab net) net), relabel (rlab net) e0 ∈ c.edges ∧
      ∀ c' ∈ splitDisconnect (contractBy (rlab net) net), relabel (rlab net) e0 ∈ c'.edges → c' = c := by
  have hE : relabel (rlab net) e0 ∈ springEdges net :=
    mem_springEdges.2 ⟨e0, he0, isTube_not_rigid ht, isTube_not_disc ht, rfl⟩
  let r := (clab net).get ((rlab net).get e0.i)
  have hEc : relabel (rlab net) e0 ∈ (comp net r).edges := mem_comp_edges.2 ⟨hE, rfl⟩
  have hsurv : (rlab net).get r = r := h.clab_surv (h.rlab_idem _)
  have hrN : r ∈ net.nodes := by
    rw [h.nodes, List.mem_range]
    have a := h.clab_le ((rlab net).get e0.i)
    have b := h.rlab_le e0.i
    have c := (h.ord.lt e0 he0).1
    have d := h.lt e0 he0
    show (clab net).get ((rlab net).get e0.i) < N
    omega
  have hk : keep (comp net r) = true := by
    unfold keep
    simp only [Bool.and_eq_true, Bool.or_eq_true, Bool.not_eq_true', List.any_eq_true]
    exact ⟨isEmpty_false_of_mem hEc, Or.inl ⟨_, hEc, by simpa using ht⟩⟩
  refine ⟨comp net r, mem_components.2 ⟨r, hrN, hsurv, h.clab_idem _, rfl, hk⟩, hEc, ?_⟩
  intro c' hc' hE'
  obtain ⟨r', _, _, _, rfl, _⟩ := mem_components.1 hc'
  have := (mem_comp_edges.1 hE').2
  show comp net r' = comp net r
  rw [← this]; rfl

theorem nodes_nodup (h : TreeNet net N) : net.nodes.Nodup := by
  rw [h.nodes]; exact List.nodup_range

/-- node sets of distinct returned components are disjoint -/
theorem comps_disjoint (h : TreeNet net N) :
    (splitDisconnect (contractBy (rlab net) net)).Pairwise (fun c d => ∀ n, n ∈ c.nodes → n ∉ d.nodes) := by
  unfold splitDisconnect
  apply List.Pairwise.filter
  rw [List.pairwise_map]
  have hnd : ((contractBy (rlab net) net).nodes.filter
      (fun n => (compLab ((contractBy (rlab net) net).edges.filter (fun e => !e.isDisc))).get n == n)).Nodup := by
    apply List.Nodup.sublist List.filter_sublist
    unfold contractBy
    exact List.Nodup.sublist List.filter_sublist h.nodes_nodup
  refine List.Pairwise.imp ?_ hnd
  intro a b hab n hna hnb
  unfold component at hna hnb
  simp only [List.mem_filter, beq_iff_eq] at hna hnb
  exact hab (hna.2.symm.trans hnb.2)

end TreeNet

/-! ## the network of `make_network` is a tree network -/

theorem tubesFrom_mem {c tid n : Nat} {t : TubeRec} (h : t ∈ tubesFrom c tid n) :
    c ≤ t.top ∧ t.bot = t.top + 1 ∧ t.top + 2 ≤ c + 2 * n := by
  induction n generalizing c tid with
  | zero => cases h
  | succ n ih =>
    rcases List.mem_cons.1 h with rfl | h
    · exact ⟨Nat.le_refl _, rfl, by show c + 2 ≤ _; omega⟩
    · have := ih h; omega

/-- the two edges `make_network` adds for a tube -/
def tubePair (P : Nat) (o : Opt) (t : TubeRec) : List Edge :=
  [⟨P, t.top, .conn o⟩, ⟨t.top, t.bot, .tube t.id⟩]

theorem tubeEdges_eq (pr : PanelRec) : tubeEdges pr = pr.tubes.flatMap (tubePair pr.node pr.opt) := rfl

theorem tubePairs_ord (P : Nat) (o : Opt) : ∀ (n c tid : Nat), P < c →
    TreeOrd c ((tubesFrom c tid n).flatMap (tubePair P o)) := by
  intro n
  induction n with
  | zero => intro c tid _; trivial
  | succ n ih =>
    intro c tid hP
    simp only [tubesFrom, List.flatMap_cons, tubePair, List.cons_append, List.nil_append]
    exact ⟨hP, Nat.le_refl _, Nat.lt_succ_self _, Nat.le_refl _, ih (c + 2) (tid + 1) (by omega)⟩

theorem tubePairs_lt {P : Nat} {o : Opt} {n c tid : Nat} {e : Edge}
    (he : e ∈ (tubesFrom c tid n).flatMap (tubePair P o)) : e.j < c + 2 * n := by
  obtain ⟨t, ht, het⟩ := List.mem_flatMap.1 he
  have := tubesFrom_mem ht
  simp only [tubePair, List.mem_cons, List.not_mem_nil, or_false] at het
  rcases het with rfl | rfl
  · show t.top < _; omega
  · show t.bot < _; omega

theorem layoutFrom_mem {cn tid : Nat} {ps : List (Opt × Nat)} {pr : PanelRec}
    (h : pr ∈ layoutFrom cn tid ps) :
    cn ≤ pr.node ∧ ∀ t ∈ pr.tubes, pr.node < t.top ∧ t.bot = t.top + 1 := by
  induction ps generalizing cn tid with
  | nil => cases h
  | cons a ps ih =>
    obtain ⟨o, n⟩ := a
    rcases List.mem_cons.1 h with rfl | h
    · refine ⟨Nat.le_refl _, fun t ht => ?_⟩
      have := tubesFrom_mem ht
      exact ⟨by show cn < t.top; omega, this.2.1⟩
    · have := ih h
      exact ⟨by omega, this.2⟩

theorem layoutEdges_ord (r : Opt) : ∀ (ps : List (Opt × Nat)) (cn tid : Nat), 1 ≤ cn →
    TreeOrd cn (layoutEdges r (layoutFrom cn tid ps)) ∧
    ∀ e ∈ layoutEdges r (layoutFrom cn tid ps), e.j + 1 < cn + nodeCount ps := by
  intro ps
  induction ps with
  | nil => intro cn tid _; exact ⟨trivial, fun e he => by cases he⟩
  | cons a ps ih =>
    obtain ⟨o, n⟩ := a
    intro cn tid hcn
    obtain ⟨ih1, ih2⟩ := ih (cn + 1 + 2 * n) (tid + n) (by omega)
    have hblock : TreeOrd cn (blockEdges r ⟨cn, o, tubesFrom (cn + 1) tid n⟩) :=
      ⟨by show 0 < cn; omega, Nat.le_refl _, tubePairs_ord cn o n (cn + 1) tid (Nat.lt_succ_self _)⟩
    have hlt : ∀ e ∈ blockEdges r ⟨cn, o, tubesFrom (cn + 1) tid n⟩, e.j < cn + 1 + 2 * n := by
      intro e he
      rcases List.mem_cons.1 he with rfl | he
      · show cn < _; omega
      · exact tubePairs_lt he
    have heq : layoutEdges r (layoutFrom cn tid ((o, n) :: ps)) =
        blockEdges r ⟨cn, o, tubesFrom (cn + 1) tid n⟩ ++ layoutEdges r (layoutFrom (cn + 1 + 2 * n) (tid + n) ps) := by
      simp [layoutEdges, layoutFrom]
    rw [heq]
    refine ⟨hblock.append hlt ih1 (by omega), ?_⟩
    intro e he
    simp only [nodeCount]
    rcases List.mem_append.1 he with he | he
    · have := hlt e he
      have : 1 ≤ nodeCount ps := by cases ps <;> simp [nodeCount]; omega
      omega
    · have := ih2 e he; omega

theorem mem_layoutEdges {r : Opt} {lay : List PanelRec} {e : Edge} :
    e ∈ layoutEdges r lay ↔ ∃ pr ∈ lay, e = ⟨0, pr.node, .conn r⟩ ∨
      ∃ t ∈ pr.tubes, e = ⟨pr.node, t.top, .conn pr.opt⟩ ∨ e = ⟨t.top, t.bot, .tube t.id⟩ := by
  simp only [layoutEdges, blockEdges, tubeEdges, List.mem_flatMap, List.mem_cons, List.not_mem_nil, or_false]

theorem mem_layoutBCs {lay : List PanelRec} {b : Nat} :
    b ∈ layoutBCs lay ↔ ∃ pr ∈ lay, ∃ t ∈ pr.tubes, t.bot = b := by
  simp only [layoutBCs, List.mem_flatMap, List.mem_map]

theorem buildNetwork_treeNet (r : Opt) (ps : List (Opt × Nat)) :
    TreeNet (buildNetwork r ps) (nodeCount ps) := by
  obtain ⟨hord, hlt⟩ := layoutEdges_ord r ps 1 0 (Nat.le_refl _)
  have hmem : ∀ pr ∈ layout ps, 1 ≤ pr.node ∧ ∀ t ∈ pr.tubes, pr.node < t.top ∧ t.bot = t.top + 1 :=
    fun pr hpr => layoutFrom_mem hpr
  have hinj := hord.child_inj
  refine ⟨hord, rfl, ?_, ?_, ?_, ?_⟩
  · intro e he
    have := hlt e he; omega
  · intro e he ht
    obtain ⟨pr, hpr, h | ⟨t, htt, h | h⟩⟩ := mem_layoutEdges.1 he
    · subst h; cases ht
    · subst h; cases ht
    · subst h; exact mem_layoutBCs.2 ⟨pr, hpr, t, htt, rfl⟩
  · intro b hb
    obtain ⟨pr, hpr, t, htt, rfl⟩ := mem_layoutBCs.1 hb
    exact ⟨⟨t.top, t.bot, .tube t.id⟩, mem_layoutEdges.2 ⟨pr, hpr, Or.inr ⟨t, htt, Or.inr rfl⟩⟩, rfl, rfl⟩
  · intro e he hb
    obtain ⟨pr', hpr', t', htt', hbot⟩ := mem_layoutBCs.1 hb
    have hE' : (⟨t'.top, t'.bot, .tube t'.id⟩ : Edge) ∈ layoutEdges r (layout ps) :=
      mem_layoutEdges.2 ⟨pr', hpr', Or.inr ⟨t', htt', Or.inr rfl⟩⟩
    have hb' := ((hmem pr' hpr').2 t' htt').2
    obtain ⟨pr, hpr, h | ⟨t, htt, h | h⟩⟩ := mem_layoutEdges.1 he
    · subst h
      have : t'.bot = 0 := hbot
      omega
    · subst h
      have hR : (⟨0, pr.node, .conn r⟩ : Edge) ∈ layoutEdges r (layout ps) :=
        mem_layoutEdges.2 ⟨pr, hpr, Or.inl rfl⟩
      have := congrArg Edge.kind (hinj _ hR _ hE' (show pr.node = t'.bot from hbot.symm))
      cases this
    · subst h
      have hP : (⟨pr.node, t.top, .conn pr.opt⟩ : Edge) ∈ layoutEdges r (layout ps) :=
        mem_layoutEdges.2 ⟨pr, hpr, Or.inr ⟨t, htt, Or.inl rfl⟩⟩
      have := congrArg Edge.kind (hinj _ hP _ hE' (show t.top = t'.bot from hbot.symm))
      cases this

/-! ## what the options do to the network of `make_network` -/

section Layout
variable (r : Opt) (ps : List (Opt × Nat))

/-- the representative map of `remove_rigid` on the built network -/
abbrev L : Lab := rlab (buildNetwork r ps)
/-- component labels of the contracted built network -/
abbrev C : Lab := clab (buildNetwork r ps)

variable {r ps}

theorem recvEdge_mem {pr : PanelRec} (hpr : pr ∈ layout ps) :
    (⟨0, pr.node, .conn r⟩ : Edge) ∈ (buildNetwork r ps).edges :=
  mem_layoutEdges.2 ⟨pr, hpr, Or.inl rfl⟩

theorem panelEdge_mem {pr : PanelRec} (hpr : pr ∈ layout ps) {t : TubeRec} (ht : t ∈ pr.tubes) :
    (⟨pr.node, t.top, .conn pr.opt⟩ : Edge) ∈ (buildNetwork r ps).edges :=
  mem_layoutEdges.2 ⟨pr, hpr, Or.inr ⟨t, ht, Or.inl rfl⟩⟩

theorem tubeEdge_mem {pr : PanelRec} (hpr : pr ∈ layout ps) {t : TubeRec} (ht : t ∈ pr.tubes) :
    (⟨t.top, t.bot, .tube t.id⟩ : Edge) ∈ (buildNetwork r ps).edges :=
  mem_layoutEdges.2 ⟨pr, hpr, Or.inr ⟨t, ht, Or.inr rfl⟩⟩

theorem L_zero : (L r ps).get 0 = 0 :=
  Nat.le_zero.1 ((buildNetwork_treeNet r ps).rlab_le 0)

/-- the representative of a panel node: node 0 when the receiver option is rigid, else itself -/
theorem L_panel {pr : PanelRec} (hpr : pr ∈ layout ps) :
    (L r ps).get pr.node = if r = .rigid then 0 else pr.node := by
  have := mergeId_child (p := Edge.isRigid) (buildNetwork_treeNet r ps).ord (recvEdge_mem (r := r) hpr)
  change (L r ps).get pr.node = if (Edge.isRigid ⟨0, pr.node, .conn r⟩) = true then (L r ps).get 0 else pr.node at this
  rw [this, L_zero]
  cases r <;> simp [Edge.isRigid]

/-- the representative of a tube top: the panel's representative when the panel option is rigid -/
theorem L_top {pr : PanelRec} (hpr : pr ∈ layout ps) {t : TubeRec} (ht : t ∈ pr.tubes) :
    (L r ps).get t.top = if pr.opt = .rigid then (L r ps).get pr.node else t.top := by
  have := mergeId_child (p := Edge.isRigid) (buildNetwork_treeNet r ps).ord (panelEdge_mem (r := r) hpr ht)
  change (L r ps).get t.top = if (Edge.isRigid ⟨pr.node, t.top, .conn pr.opt⟩) = true
    then (L r ps).get pr.node else t.top at this
  rw [this]
  cases h : pr.opt <;> simp [Edge.isRigid]

theorem L_bot {pr : PanelRec} (hpr : pr ∈ layout ps) {t : TubeRec} (ht : t ∈ pr.tubes) :
    (L r ps).get t.bot = t.bot :=
  (buildNetwork_treeNet r ps).rlab_fix (tubeEdge_mem (r := r) hpr ht) rfl

theorem layout_facts {pr : PanelRec} (hpr : pr ∈ layout ps) :
    1 ≤ pr.node ∧ ∀ t ∈ pr.tubes, pr.node < t.top ∧ t.bot = t.top + 1 := layoutFrom_mem hpr

/-- a panel node is never a tube top -/
theorem panel_ne_top {pr pr' : PanelRec} (hpr : pr ∈ layout ps) (hpr' : pr' ∈ layout ps)
    {t : TubeRec} (ht : t ∈ pr.tubes) : pr'.node ≠ t.top := by
  intro h
  have := (buildNetwork_treeNet Opt.disconnect ps).ord.child_inj _
    (recvEdge_mem (r := Opt.disconnect) hpr') _ (panelEdge_mem (r := Opt.disconnect) hpr ht) h
  have h0 := congrArg Edge.i this
  have := (layout_facts hpr).1
  simp at h0; omega

/-- in the contracted network the only spring edge hanging on the top or bottom node of a tube whose
panel is not rigidly connected is the tube itself -/
theorem edges_at_tube {pr : PanelRec} (hpr : pr ∈ layout ps) {t : TubeRec} (ht : t ∈ pr.tubes)
    (ho : pr.opt ≠ .rigid) {e' : Edge} (he' : e' ∈ springEdges (buildNetwork r ps))
    (hi : e'.i = t.top ∨ e'.i = t.bot) : e' = ⟨t.top, t.bot, .tube t.id⟩ := by
  have hT := buildNetwork_treeNet r ps
  obtain ⟨e0, he0, hr0, hd0, rfl⟩ := mem_springEdges.1 he'
  have hfp := layout_facts hpr
  have hft := hfp.2 t ht
  have hLt : (L r ps).get t.top = t.top := by rw [L_top hpr ht]; simp [ho]
  rcases hi with hi | hi
  · have hi : (L r ps).get e0.i = t.top := hi
    obtain ⟨pr', hpr', h | ⟨t', ht', h | h⟩⟩ := mem_layoutEdges.1 he0
    · subst h
      rw [show (L r ps).get 0 = 0 from L_zero] at hi; omega
    · subst h
      have hi : (L r ps).get pr'.node = t.top := hi
      rw [L_panel hpr'] at hi
      split at hi
      · omega
      · exact absurd hi (panel_ne_top hpr hpr' ht)
    · subst h
      have hi : (L r ps).get t'.top = t.top := hi
      rw [L_top hpr' ht'] at hi
      have htt : t'.top = t.top := by
        split at hi
        · rw [L_panel hpr'] at hi
          split at hi
          · omega
          · exact absurd hi (panel_ne_top hpr hpr' ht)
        · exact hi
      have hb : t'.bot = t.bot := by rw [((layout_facts hpr').2 t' ht').2, hft.2, htt]
      have := hT.ord.child_inj _ (tubeEdge_mem (r := r) hpr' ht') _ (tubeEdge_mem (r := r) hpr ht) hb
      rw [this]
      show (⟨(L r ps).get t.top, (L r ps).get t.bot, _⟩ : Edge) = _
      rw [hLt, L_bot hpr ht]
  · exfalso
    have hi : (L r ps).get e0.i = t.bot := hi
    have h1 : t.bot ∈ (buildNetwork r ps).bcs := mem_layoutBCs.2 ⟨pr, hpr, t, ht, rfl⟩
    exact hT.rlab_not_bc (hT.par_free e0 he0) (hi ▸ h1)

/-- **the component of a tube whose panel is disconnected** is the tube alone -/
theorem disconnect_component {pr : PanelRec} (hpr : pr ∈ layout ps) (ho : pr.opt = .disconnect)
    {t : TubeRec} (ht : t ∈ pr.tubes) :
    comp (buildNetwork r ps) t.top ∈ splitDisconnect (contractBy (L r ps) (buildNetwork r ps)) ∧
    (∀ n, n ∈ (comp (buildNetwork r ps) t.top).nodes ↔ n = t.top ∨ n = t.bot) ∧
    (∀ e, e ∈ (comp (buildNetwork r ps) t.top).edges ↔ e = ⟨t.top, t.bot, .tube t.id⟩) ∧
    (∀ n, n ∈ (comp (buildNetwork r ps) t.top).bcs ↔ n = t.bot) := by
  have hT := buildNetwork_treeNet r ps
  have hnr : pr.opt ≠ .rigid := by rw [ho]; simp
  have hfp := layout_facts hpr
  have hft := hfp.2 t ht
  have hLt : (L r ps).get t.top = t.top := by rw [L_top hpr ht]; simp [hnr]
  have hLb : (L r ps).get t.bot = t.bot := L_bot hpr ht
  have hE : (⟨t.top, t.bot, .tube t.id⟩ : Edge) ∈ springEdges (buildNetwork r ps) := by
    refine mem_springEdges.2 ⟨_, tubeEdge_mem (r := r) hpr ht, rfl, rfl, ?_⟩
    show (⟨(L r ps).get t.top, (L r ps).get t.bot, _⟩ : Edge) = _
    rw [hLt, hLb]
  -- the top node is a root
  have hCt : (C r ps).get t.top = t.top := by
    apply hT.clab_nochild
    intro e' he' hj
    obtain ⟨e0, he0, hr0, hd0, rfl⟩ := mem_springEdges.1 he'
    have hj : (L r ps).get e0.j = t.top := hj
    rw [hT.rlab_fix he0 hr0] at hj
    have := hT.ord.child_inj _ he0 _ (panelEdge_mem (r := r) hpr ht) hj
    subst this
    simp [Edge.isDisc, ho] at hd0
  have hCb : (C r ps).get t.bot = t.top := by
    have := hT.clab_edge hE
    simpa [hCt] using this
  -- nothing else has this label
  have honly : ∀ n, (C r ps).get n = t.top → n = t.top ∨ n = t.bot := by
    refine parent_induct hT.springEdges_ord _ ?_ ?_
    · intro n hn hc
      rw [hT.clab_nochild hn] at hc; exact Or.inl hc
    · intro e he ih hc
      rw [hT.clab_edge he] at hc
      have := edges_at_tube hpr ht hnr he (ih hc)
      subst this; exact Or.inr rfl
  have htN : t.bot < nodeCount ps := hT.lt _ (tubeEdge_mem (r := r) hpr ht)
  have hedges : ∀ e, e ∈ (comp (buildNetwork r ps) t.top).edges ↔ e = ⟨t.top, t.bot, .tube t.id⟩ := by
    intro e
    rw [mem_comp_edges]
    constructor
    · rintro ⟨he, hc⟩
      exact edges_at_tube hpr ht hnr he (honly _ hc)
    · rintro rfl; exact ⟨hE, hCt⟩
  refine ⟨?_, ?_, hedges, ?_⟩
  · refine mem_components.2 ⟨t.top, ?_, hLt, hCt, rfl, ?_⟩
    · show t.top ∈ List.range (nodeCount ps)
      rw [List.mem_range]; omega
    · unfold keep
      simp only [Bool.and_eq_true, Bool.or_eq_true, Bool.not_eq_true', List.any_eq_true]
      have := (hedges _).2 rfl
      exact ⟨isEmpty_false_of_mem this, Or.inl ⟨_, this, rfl⟩⟩
  · intro n
    rw [mem_comp_nodes]
    constructor
    · rintro ⟨_, _, hc⟩; exact honly n hc
    · rintro (rfl | rfl)
      · exact ⟨by show t.top ∈ List.range _; rw [List.mem_range]; omega, hLt, hCt⟩
      · exact ⟨by show t.bot ∈ List.range _; rw [List.mem_range]; omega, hLb, hCb⟩
  · intro n
    rw [mem_comp_bcs]
    constructor
    · rintro ⟨hb, hc⟩
      rcases honly n hc with rfl | rfl
      · exact absurd hb (hT.par_free _ (tubeEdge_mem (r := r) hpr ht))
      · rfl
    · rintro rfl
      exact ⟨mem_layoutBCs.2 ⟨pr, hpr, t, ht, rfl⟩, hCb⟩

end Layout

/-! ## assembly (`fj`, `RJ`) over a commutative ring -/

section Assembly
variable {K : Type} [CommRing K]

/-- Kronecker delta -/
def delta (a b : Nat) : K := if a = b then 1 else 0

theorem sgn_lt {ii jj : Nat} (h : ii < jj) : (sgn ii jj : K) = -1 := by
  unfold sgn; rw [if_neg (by omega), if_pos h]

theorem sgn_gt {ii jj : Nat} (h : jj < ii) : (sgn ii jj : K) = 1 := by
  unfold sgn; rw [if_pos h]

theorem sgn_eq (ii : Nat) : (sgn ii ii : K) = 0 := by
  unfold sgn; simp

/-- the spring is handed `d(smaller index) - d(larger index)`, whichever way the edge is reported -/
theorem fjDisp_lt (d : Nat → K) {ii jj : Nat} (h : ii < jj) : fjDisp d ii jj = d ii - d jj := by
  unfold fjDisp; rw [sgn_lt h]; ring

theorem fjDisp_symm (d : Nat → K) (ii jj : Nat) : fjDisp d ii jj = fjDisp d jj ii := by
  rcases Nat.lt_trichotomy ii jj with h | h | h
  · rw [fjDisp_lt d h]; unfold fjDisp; rw [sgn_gt h]; ring
  · subst h; rfl
  · rw [fjDisp_lt d h]; unfold fjDisp; rw [sgn_gt h]; ring

/-- one edge: `+f` on the row of the smaller index, `-f` on the row of the larger one, where `f` is the
spring force for `d(smaller) - d(larger)` -/
theorem fjF_lt (law : Law K) (d : Nat → K) {ii jj : Nat} (h : ii < jj) (r : Nat) :
    fjF law d ii jj r = (delta r ii - delta r jj) * (law (d ii - d jj)).1 := by
  unfold fjF
  simp only [fjDisp_lt d h, sgn_lt h, delta]
  split_ifs <;> ring

theorem fjF_symm (law : Law K) (d : Nat → K) (ii jj r : Nat) : fjF law d ii jj r = fjF law d jj ii r := by
  rcases Nat.lt_trichotomy ii jj with h | h | h
  · rw [fjF_lt law d h]
    unfold fjF
    simp only [fjDisp_symm d jj ii, fjDisp_lt d h, sgn_gt h, delta]
    split_ifs <;> ring
  · subst h; rfl
  · rw [fjF_lt law d h]
    unfold fjF
    simp only [fjDisp_symm d ii jj, fjDisp_lt d h, sgn_gt h, delta]
    split_ifs <;> ring

theorem ite_and_mul (a b : Prop) [Decidable a] [Decidable b] (k : K) :
    (if a ∧ b then k else 0) = k * (if a then 1 else 0) * (if b then 1 else 0) := by
  by_cases ha : a <;> by_cases hb : b <;> simp [ha, hb]

theorem fjJ_eq (law : Law K) (d : Nat → K) (ii jj r c : Nat) :
    fjJ law d ii jj r c = (law (fjDisp d ii jj)).2 * (delta r ii - delta r jj) * (delta c ii - delta c jj) := by
  unfold fjJ
  simp only [ite_and_mul, delta]
  ring

theorem fjJ_symm (law : Law K) (d : Nat → K) (ii jj r c : Nat) : fjJ law d ii jj r c = fjJ law d jj ii r c := by
  rw [fjJ_eq, fjJ_eq, fjDisp_symm d ii jj]; ring

/-- a linear spring carries `k * (d_i - d_j)` and contributes `k (e_i - e_j)(e_i - e_j)ᵀ d` -/
theorem fjF_linear (k : K) (d : Nat → K) (ii jj r : Nat) :
    fjF (linearLaw k) d ii jj r = k * (delta r ii - delta r jj) * (d ii - d jj) := by
  rcases Nat.lt_trichotomy ii jj with h | h | h
  · rw [fjF_lt _ d h]; simp only [linearLaw]; ring
  · subst h; unfold fjF; rw [sgn_eq]; ring
  · rw [fjF_symm, fjF_lt _ d h]; simp only [linearLaw]; ring

theorem fjJ_linear (k : K) (d : Nat → K) (ii jj r c : Nat) :
    fjJ (linearLaw k) d ii jj r c = k * (delta r ii - delta r jj) * (delta c ii - delta c jj) := by
  rw [fjJ_eq]; rfl

/-- linear springs `(i, j, k)` as edges in dof numbering -/
def linEdges (l : List (Nat × Nat × K)) : List (DEdge K) := l.map (fun e => ⟨e.1, e.2.1, linearLaw e.2.2⟩)

/-- entry `(r, c)` of `K = Σ k_e (e_i - e_j)(e_i - e_j)ᵀ` -/
def stiffness (l : List (Nat × Nat × K)) (r c : Nat) : K :=
  (l.map (fun e => e.2.2 * (delta r e.1 - delta r e.2.1) * (delta c e.1 - delta c e.2.1))).sum

theorem assembleF_linear (l : List (Nat × Nat × K)) (d : Nat → K) (r : Nat) :
    assembleF (linEdges l) d r =
      (l.map (fun e => e.2.2 * (delta r e.1 - delta r e.2.1) * (d e.1 - d e.2.1))).sum := by
  induction l with
  | nil => rfl
  | cons e l ih =>
    show fjF (linearLaw e.2.2) d e.1 e.2.1 r + assembleF (linEdges l) d r = _
    rw [ih, fjF_linear]; simp

theorem assembleJ_linear (l : List (Nat × Nat × K)) (d : Nat → K) (r c : Nat) :
    assembleJ (linEdges l) d r c = stiffness l r c := by
  induction l with
  | nil => rfl
  | cons e l ih =>
    show fjJ (linearLaw e.2.2) d e.1 e.2.1 r c + assembleJ (linEdges l) d r c = _
    rw [ih, fjJ_linear]; simp [stiffness]

theorem sum_delta (d : Nat → K) {n i : Nat} (h : i < n) :
    (Finset.range n).sum (fun c => (delta c i : K) * d c) = d i := by
  unfold delta
  simp [Finset.sum_ite_eq', h]

/-- `F_int = K d` when every dof index is below `n` -/
theorem assembleF_eq_K_mul (l : List (Nat × Nat × K)) (d : Nat → K) (r n : Nat)
    (hn : ∀ e ∈ l, e.1 < n ∧ e.2.1 < n) :
    assembleF (linEdges l) d r = (Finset.range n).sum (fun c => stiffness l r c * d c) := by
  rw [assembleF_linear]
  induction l with
  | nil => simp [stiffness]
  | cons e l ih =>
    have h1 := hn e (List.mem_cons_self ..)
    have := ih (fun x hx => hn x (List.mem_cons_of_mem _ hx))
    simp only [List.map_cons, List.sum_cons, stiffness] at this ⊢
    rw [this]
    simp only [add_mul, Finset.sum_add_distrib]
    congr 1
    have : ∀ c, e.2.2 * (delta r e.1 - delta r e.2.1) * (delta c e.1 - delta c e.2.1) * d c =
        e.2.2 * (delta r e.1 - delta r e.2.1) * (delta c e.1 * d c) -
        e.2.2 * (delta r e.1 - delta r e.2.1) * (delta c e.2.1 * d c) := fun c => by ring
    simp only [this, Finset.sum_sub_distrib, ← Finset.mul_sum, sum_delta d h1.1, sum_delta d h1.2]
    ring

end Assembly

/-! ## further facts used by the property theorems -/

theorem validateSolve_ok_bcs {c : Net} (h : validateSolve c = .ok ()) : ∃ b, b ∈ c.bcs := by
  unfold validateSolve at h
  split_ifs at h with h1 h2 h3
  cases hb : c.bcs with
  | nil => rw [hb] at h2; simp at h2
  | cons b bs => exact ⟨b, List.mem_cons_self ..⟩

section Layout2
variable {r : Opt} {ps : List (Opt × Nat)}

/-- every tube edge of the contracted network is the edge of a tube of the receiver, hanging on the
representative of its top node -/
theorem tube_edge_origin {e : Edge} (he : e ∈ springEdges (buildNetwork r ps)) (ht : e.isTube = true) :
    ∃ pr ∈ layout ps, ∃ t ∈ pr.tubes, e = ⟨(L r ps).get t.top, t.bot, .tube t.id⟩ := by
  obtain ⟨e0, he0, _, _, rfl⟩ := mem_springEdges.1 he
  have ht0 : e0.isTube = true := by simpa using ht
  obtain ⟨pr, hpr, h | ⟨t, htt, h | h⟩⟩ := mem_layoutEdges.1 he0
  · subst h; cases ht0
  · subst h; cases ht0
  · subst h
    refine ⟨pr, hpr, t, htt, ?_⟩
    show (⟨(L r ps).get t.top, (L r ps).get t.bot, _⟩ : Edge) = _
    rw [L_bot hpr htt]

/-- a numeric panel connection stays in the network, in the same component as its tube -/
theorem stiff_link {pr : PanelRec} (hpr : pr ∈ layout ps) {q : Rat} (ho : pr.opt = .stiff q)
    {t : TubeRec} (ht : t ∈ pr.tubes) :
    ∃ c ∈ splitDisconnect (contractBy (L r ps) (buildNetwork r ps)),
      (⟨(L r ps).get pr.node, t.top, .conn (.stiff q)⟩ : Edge) ∈ c.edges ∧
      (⟨t.top, t.bot, .tube t.id⟩ : Edge) ∈ c.edges := by
  have hT := buildNetwork_treeNet r ps
  have hnr : pr.opt ≠ .rigid := by rw [ho]; simp
  have hLt : (L r ps).get t.top = t.top := by rw [L_top hpr ht]; simp [hnr]
  obtain ⟨c, hc, hE, _⟩ := hT.tube_in_one (tubeEdge_mem (r := r) hpr ht) rfl
  have hE' : (⟨t.top, t.bot, .tube t.id⟩ : Edge) ∈ c.edges := by
    have : relabel (L r ps) ⟨t.top, t.bot, .tube t.id⟩ = ⟨t.top, t.bot, .tube t.id⟩ := by
      show (⟨(L r ps).get t.top, (L r ps).get t.bot, _⟩ : Edge) = _
      rw [hLt, L_bot hpr ht]
    rw [← this]; exact hE
  refine ⟨c, hc, ?_, hE'⟩
  obtain ⟨r', _, _, _, rfl, _⟩ := mem_components.1 hc
  have h2 := mem_comp_edges.1 hE'
  have hlink : (⟨(L r ps).get pr.node, t.top, .conn (.stiff q)⟩ : Edge) ∈ springEdges (buildNetwork r ps) := by
    refine mem_springEdges.2 ⟨_, panelEdge_mem (r := r) hpr ht, ?_, ?_, ?_⟩
    · simp [Edge.isRigid, ho]
    · simp [Edge.isDisc, ho]
    · show (⟨(L r ps).get pr.node, (L r ps).get t.top, .conn pr.opt⟩ : Edge) = _
      rw [hLt, ho]
  refine mem_comp_edges.2 ⟨hlink, ?_⟩
  have := hT.clab_edge hlink
  show (C r ps).get ((L r ps).get pr.node) = r'
  rw [← this]; exact h2.2

end Layout2

theorem TreeOrd.nodup {es : List Edge} {b : Nat} (h : TreeOrd b es) : es.Nodup := by
  induction es generalizing b with
  | nil => exact List.nodup_nil
  | cons a es ih =>
    refine List.nodup_cons.2 ⟨fun ha => ?_, ih h.2.2⟩
    have := (h.2.2.lt a ha).2; omega

theorem TreeNet.comp_edges_nodup {net : Net} {N : Nat} (h : TreeNet net N) (r : Nat) :
    (comp net r).edges.Nodup := by
  have : TreeOrd 1 (comp net r).edges := by
    unfold comp component; exact h.springEdges_ord.filter _
  exact this.nodup

end SrModel.Spring
