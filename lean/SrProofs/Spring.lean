import SrModel.Spring
namespace SrModel.Spring
end SrModel.Spring
