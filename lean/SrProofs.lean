import SrProofs.Adaptive
import SrProofs.Thermal
import SrProofs.Loops
import SrProofs.Data
import SrProofs.Interp
import SrProofs.H5
