import SrProofs.Adaptive
import SrProofs.Thermal
import SrProofs.Loops
import SrProofs.Data
