import SrProofs.Adaptive
import SrProofs.Thermal
