import SrProofs.Adaptive
