import SrProofs.Damage
import SrProofs.DamageWindows

/-!
# C01 — metallic life is the envelope crossing of the worst material point

Model: `SrModel.Damage` (`TimeFractionInteractionDamage` of `srlife/damage.py` with the three
look-ups of `StructuralMaterial`).  The theorems hold over every linearly ordered field `K`
(in particular `ℝ`), for **any** number of tubes, elements × quadrature points, time steps and
represented days (list induction, algebra) and for every interpretation of the transcendental
functions.  Rupture time `tR` and cycles to failure `Nf` are arbitrary functions here; the
executable model plugs in the shipped correlations.

Vocabulary (`SrProofs/Damage.lean`): `Knee x₂ y₂` = the knee lies in `(0,1)²`;
`insLump x₂ y₂ Df Dc N` = "the lumped damages extrapolated to `N` cycles are inside";
`insLast … n` the same for last-cycle extrapolation (integer `n`); `insMode` picks one of them
(`⌊N⌋` in last-cycle mode, as the code's `int(N)`); `allPoints tubes` = all (tube, point) pairs;
`lifeAt` = `pointLife` of such a pair; `Life.le` = the order `0 ≤ finite ≤ ∞`.
Day windows (`SrProofs/DamageWindows.lean`): `cycleWindows isMultiple times days` = the code's `id_cycles`
(`none` = its `ValueError`); `pointCreep` / `pointFatigue` = the per-day damages of one material point;
`sumL` = the left-to-right sum `extrapLump` uses.
-/
namespace SrProps.C01
open SrModel.Damage

section
variable {K : Type} [Field K] [LinearOrder K] [IsStrictOrderedRing K]

/-- **inside_antitone.** The region inside the envelope is a down-set: lowering either damage
fraction keeps a point inside.  (Holds without `0 ≤ f`, `0 ≤ c`.) -/
theorem inside_antitone {x2 y2 f c f' c' : K} (hk : Knee x2 y2) (hff : f ≤ f') (hcc : c ≤ c')
    (h : insideEnv x2 y2 f' c' = true) : insideEnv x2 y2 f c = true :=
  inside_antitone' hk.hx0 hk.hx1 hk.hy0 hk.hy1 hff hcc h

/-- **crossing_spec.** For per-cycle damages `(f, c) ≥ 0`, not both zero, `N` repetitions are inside
the envelope exactly up to the closed-form crossing `Ncross f c`. -/
theorem crossing_spec {x2 y2 f c N : K} (hk : Knee x2 y2) (hf : 0 ≤ f) (hc : 0 ≤ c)
    (hfc : f ≠ 0 ∨ c ≠ 0) (hN : 0 ≤ N) :
    insideEnv x2 y2 (N * f) (N * c) = true ↔ N ≤ Ncross x2 y2 f c :=
  crossing_spec' hk.hx0 hk.hx1 hk.hy0 hk.hy1 hf hc hfc hN

/-- **maxCycles_spec** (lumped extrapolation, any number of represented days).
The result is `0` exactly when one cycle is already outside, unbounded exactly when `10⁶` cycles are
inside, and otherwise a number `n` with `1 ≤ n < 10⁶` such that `N` cycles are inside iff `N ≤ n`
(so every `N < n` is inside and every `N > n` is outside). -/
theorem maxCycles_spec {x2 y2 : K} (hk : Knee x2 y2) {Df Dc : List K}
    (hDf : ∀ d ∈ Df, 0 ≤ d) (hDc : ∀ d ∈ Dc, 0 ≤ d) :
    (maxCycles .lump x2 y2 Df Dc = .zero ↔ ¬ insLump x2 y2 Df Dc 1) ∧
    (maxCycles .lump x2 y2 Df Dc = .unbounded ↔ insLump x2 y2 Df Dc 1000000) ∧
    (∀ n, maxCycles .lump x2 y2 Df Dc = .finite n →
      1 ≤ n ∧ n < 1000000 ∧ ∀ N : K, 0 ≤ N → (insLump x2 y2 Df Dc N ↔ N ≤ n)) ∧
    (insLump x2 y2 Df Dc 1 → ¬ insLump x2 y2 Df Dc 1000000 →
      ∃ n, maxCycles .lump x2 y2 Df Dc = .finite n) := by
  obtain ⟨hx0, hx1, hy0, hy1⟩ := hk
  have anti := fun (N N' : K) (h : N ≤ N') => insLump_anti hx0 hx1 hy0 hy1 hDf hDc h
  simp only [maxCycles]
  rcases maxCyclesLump_cases hx0 hx1 hy0 hy1 hDf hDc with c | c | c
  · rw [c.2]
    refine ⟨⟨fun _ => c.1, fun _ => rfl⟩, ⟨(fun h => by cases h), fun h => ?_⟩, (fun n h => by cases h),
      fun h => absurd h c.1⟩
    exact absurd (anti 1 1000000 (by norm_num) h) c.1
  · rw [c.2]
    refine ⟨⟨(fun h => by cases h), fun h => ?_⟩, ⟨fun _ => c.1, fun _ => rfl⟩, (fun n h => by cases h),
      fun _ h => absurd c.1 h⟩
    exact absurd (anti 1 1000000 (by norm_num) c.1) h
  · rw [c.2.2.1]
    refine ⟨⟨(fun h => by cases h), fun h => absurd c.1 h⟩, ⟨(fun h => by cases h), fun h => absurd h c.2.1⟩,
      ?_, fun _ _ => ⟨_, rfl⟩⟩
    intro n hn
    injection hn with hn
    rw [← hn]
    exact ⟨c.2.2.2.1, c.2.2.2.2.1, c.2.2.2.2.2⟩

/-- **maxCycles_last_spec** (last-cycle extrapolation; the extrapolated damage depends on `⌊N⌋`
only).  Same shape: `0` iff one cycle is outside, unbounded iff `10⁶` cycles are inside, otherwise the
integer `r` with `1 < r ≤ 10⁶` such that `n` cycles are inside iff `n < r`. -/
theorem maxCycles_last_spec {x2 y2 : K} (hk : Knee x2 y2) {Df Dc : List K}
    (hDf : ∀ d ∈ Df, 0 ≤ d) (hDc : ∀ d ∈ Dc, 0 ≤ d) :
    (maxCycles .last x2 y2 Df Dc = .zero ↔ ¬ insLast x2 y2 Df Dc 1) ∧
    (maxCycles .last x2 y2 Df Dc = .unbounded ↔ insLast x2 y2 Df Dc 1000000) ∧
    (∀ x, maxCycles .last x2 y2 Df Dc = .finite x →
      ∃ r : Nat, x = (r : K) ∧ 1 < r ∧ r ≤ 1000000 ∧ ∀ n : Nat, (insLast x2 y2 Df Dc n ↔ n < r)) ∧
    (insLast x2 y2 Df Dc 1 → ¬ insLast x2 y2 Df Dc 1000000 →
      ∃ x, maxCycles .last x2 y2 Df Dc = .finite x) := by
  obtain ⟨hx0, hx1, hy0, hy1⟩ := hk
  have anti := fun (n m : Nat) (h : n ≤ m) => insLast_anti hx0 hx1 hy0 hy1 hDf hDc h
  simp only [maxCycles]
  rcases maxCyclesLast_cases hx0 hx1 hy0 hy1 hDf hDc with c | c | c
  · rw [c.2]
    refine ⟨⟨fun _ => c.1, fun _ => rfl⟩, ⟨(fun h => by cases h), fun h => ?_⟩, (fun n h => by cases h),
      fun h => absurd h c.1⟩
    exact absurd (anti 1 1000000 (by norm_num) h) c.1
  · rw [c.2]
    refine ⟨⟨(fun h => by cases h), fun h => ?_⟩, ⟨fun _ => c.1, fun _ => rfl⟩, (fun n h => by cases h),
      fun _ h => absurd c.1 h⟩
    exact absurd (anti 1 1000000 (by norm_num) c.1) h
  · obtain ⟨r, hr, h1, h2, h3⟩ := c.2.2
    rw [hr]
    refine ⟨⟨(fun h => by cases h), fun h => absurd c.1 h⟩, ⟨(fun h => by cases h), fun h => absurd h c.2.1⟩,
      ?_, fun _ _ => ⟨_, rfl⟩⟩
    intro x hx
    injection hx with hx
    exact ⟨r, hx.symm, h1, h2, h3⟩

end

section
variable {K : Type} [Field K] [LinearOrder K] [IsStrictOrderedRing K] [Transc K]

omit [IsStrictOrderedRing K] in
/-- **receiverLife_is_min.** The reported life is the minimum of `pointLife` over every
(tube, element, quadrature point): it equals that minimum, it is a lower bound of every point's
life, and it is attained by some point (when there is one). -/
theorem receiverLife_is_min (m : Mode) (x2 y2 : K) (tR Nf : K → K → K) (tubes : List (Tube K)) :
    receiverLife m x2 y2 tR Nf tubes = lifeMin ((allPoints tubes).map (lifeAt m x2 y2 tR Nf)) ∧
    (∀ t ∈ tubes, ∀ h ∈ t.points,
      Life.le (receiverLife m x2 y2 tR Nf tubes) (pointLife m x2 y2 tR Nf t.times t.wins h)) ∧
    (allPoints tubes ≠ [] → ∃ t ∈ tubes, ∃ h ∈ t.points,
      receiverLife m x2 y2 tR Nf tubes = pointLife m x2 y2 tR Nf t.times t.wins h) := by
  have h0 := receiverLife_eq_lifeMin m x2 y2 tR Nf tubes
  refine ⟨h0, ?_, ?_⟩
  · intro t ht h hh
    rw [h0]
    have : (t, h) ∈ allPoints tubes := mem_allPoints.mpr ⟨ht, hh⟩
    exact lifeMin_le_mem (List.mem_map.mpr ⟨(t, h), this, rfl⟩)
  · intro hne
    rw [h0]
    have hne' : (allPoints tubes).map (lifeAt m x2 y2 tR Nf) ≠ [] := by simpa using hne
    obtain ⟨p, hp, hpl⟩ := List.mem_map.mp (lifeMin_mem hne')
    have := mem_allPoints.mp hp
    exact ⟨p.1, this.1, p.2, this.2, hpl.symm⟩

/-- **receiverLife_below_above.** With non-negative per-cycle damages at every point (which
`tR > 0`, `Nf > 0` and increasing times give, `creepCycle_nonneg`), in either extrapolation mode:
* life `0`  ⇒ some point is outside after one cycle;
* life unbounded ⇒ every point is inside after `10⁶` cycles;
* life `n` ⇒ `1 ≤ n ≤ 10⁶`, for every `N < n` every point is inside, and for every `N > n`
  some point is outside. -/
theorem receiverLife_below_above [FloorSemiring K] (m : Mode) {x2 y2 : K} (hk : Knee x2 y2)
    (tR Nf : K → K → K) (tubes : List (Tube K))
    (hf : ∀ t ∈ tubes, ∀ h ∈ t.points, ∀ d ∈ pointFatigue Nf t.wins h, 0 ≤ d)
    (hc : ∀ t ∈ tubes, ∀ h ∈ t.points, ∀ d ∈ pointCreep tR t.times t.wins h, 0 ≤ d) :
    let ins := fun (p : Tube K × List (Sample K)) (N : K) =>
      insMode m x2 y2 (pointFatigue Nf p.1.wins p.2) (pointCreep tR p.1.times p.1.wins p.2) N
    match receiverLife m x2 y2 tR Nf tubes with
    | .zero => ∃ p ∈ allPoints tubes, ¬ ins p 1
    | .unbounded => ∀ p ∈ allPoints tubes, ins p 1000000
    | .finite n => 1 ≤ n ∧ n ≤ 1000000 ∧ (∀ N, N < n → ∀ p ∈ allPoints tubes, ins p N) ∧
        (∀ N, n < N → ∃ p ∈ allPoints tubes, ¬ ins p N) := by
  intro ins
  rw [receiverLife_eq_lifeMin]
  apply min_spec (allPoints tubes) (lifeAt m x2 y2 tR Nf) ins
  intro p hp
  have := mem_allPoints.mp hp
  exact maxCycles_pointSpec m hk (hf p.1 this.1 p.2 this.2) (hc p.1 this.1 p.2 this.2)

omit [LinearOrder K] [IsStrictOrderedRing K] in
/-- **creepCycle_def.** The creep damage of a cycle whose time points carry the samples
`F 0, …, F n` (`F k = (t_k, σ_k, T_k)`) is the time-fraction sum
`Σ_{k<n} (t_{k+1} - t_k) / tR(T_{k+1}, σ_vm(σ_{k+1}))` — rupture time at the end of each interval. -/
theorem creepCycle_def (tR : K → K → K) (n : Nat) (F : Nat → K × Sym6 K × K) :
    creepCycle tR ((List.range (n + 1)).map F) =
      ∑ k ∈ Finset.range n,
        ((F (k + 1)).1 - (F k).1) / tR (F (k + 1)).2.2 (vonMises (F (k + 1)).2.1) :=
  creepCycle_range tR n F

omit [LinearOrder K] [IsStrictOrderedRing K] in
/-- **creepWindow_def.** For a tube with time points `t 0 … t (M-1)` and a point with samples
`s 0 … s (M-1)`, the creep damage of the cycle window with indices `(a, b)` (`id_cycles`) is
`Σ_{k=a}^{b-1} (t_{k+1} - t_k) / tR(T_{k+1}, σ_vm(k+1))`. -/
theorem creepWindow_def (tR : K → K → K) (M : Nat) (t : Nat → K) (s : Nat → Sample K) (a b : Nat)
    (hab : a ≤ b) (hb : b < M) :
    creepCycle tR (creepWindow ((List.range M).map t) ((List.range M).map s) (a, b)) =
      ∑ k ∈ Finset.range (b - a),
        (t (a + k + 1) - t (a + k)) / tR (s (a + k + 1)).temp (vonMises (s (a + k + 1)).stress) :=
  creepWindow_sum tR M t s a b hab hb

omit [IsStrictOrderedRing K] in
/-- **fatigue_def.** The fatigue damage of a cycle is `1 / Nf(T_max, Δε_max)` where `T_max` is the
greatest temperature of the window and `Δε_max` is an upper bound of — and, unless it is `0`, equal to
one of — the equivalent strain ranges between pairs of time points of the window. -/
theorem fatigue_def (Nf : K → K → K) (win : List (Sym6 K × K)) (hwin : win ≠ []) :
    ∃ Tmax emax : K, cycleFatigue Nf win = 1 / Nf Tmax emax ∧
      (Tmax ∈ win.map (·.2) ∧ ∀ T ∈ win.map (·.2), T ≤ Tmax) ∧
      (0 ≤ emax ∧ (∀ ei ∈ win.map (·.1), ∀ ej ∈ win.map (·.1), eqRange ei ej ≤ emax) ∧
        (emax = 0 ∨ ∃ ei ∈ win.map (·.1), ∃ ej ∈ win.map (·.1), emax = eqRange ei ej)) := by
  refine ⟨maxTemp (win.map (·.2)), maxRange (win.map (·.1)), rfl, ?_, maxRange_spec _⟩
  exact maxTemp_spec _ (by simpa using hwin)

end

/-! ### day windows (`id_cycles`): contiguity, additivity of the per-day creep damages, locality -/

/-- **windows_contiguous.** When `id_cycles` succeeds (`cycleWindows … = some wins`; `isMultiple t` =
"`t` is a multiple of the period"), there are exactly `days` windows and they are the consecutive pairs
`(i₀,i₁), (i₁,i₂), …, (i_{days-1}, i_days)` of the strictly increasing list `idx` of **all** indices of
flagged times.  Hence consecutive windows share their boundary index, every window is non-empty, its
two ends are indices of flagged times (`< times.length`), and no time strictly inside a window is
flagged: a window is exactly one day, whatever its number of stored steps. -/
theorem windows_contiguous {α : Type} (isMultiple : α → Bool) (times : List α) (days : Nat)
    (wins : List (Nat × Nat)) (h : cycleWindows isMultiple times days = some wins) :
    wins.length = days ∧
    (∃ idx : List Nat, idx.Pairwise (· < ·) ∧ idx.length = days + 1 ∧
      (∀ j, j ∈ idx ↔ ∃ t, times[j]? = some t ∧ isMultiple t = true) ∧ wins = idx.zip idx.tail) ∧
    (∀ k (hk : k + 1 < wins.length), (wins[k]).2 = (wins[k + 1]).1) ∧
    (∀ w ∈ wins, w.1 < w.2 ∧ w.2 < times.length ∧
      (∃ t, times[w.1]? = some t ∧ isMultiple t = true) ∧
      (∃ t, times[w.2]? = some t ∧ isMultiple t = true) ∧
      ∀ j, w.1 < j → j < w.2 → ∀ t, times[j]? = some t → isMultiple t = false) := by
  obtain ⟨idx, hs, hl, hmem, rfl⟩ := cycleWindows_shape isMultiple times days wins h
  obtain ⟨f1, f2, f3⟩ := zip_tail_facts hs
  refine ⟨by rw [f1, hl]; rfl, ⟨idx, hs, hl, hmem, rfl⟩, f2, ?_⟩
  intro w hw
  obtain ⟨g1, g2, g3, g4⟩ := f3 w hw
  have h2 := (hmem w.2).mp g3
  refine ⟨g1, ?_, (hmem w.1).mp g2, h2, ?_⟩
  · obtain ⟨t, ht, _⟩ := h2
    exact (List.getElem?_eq_some_iff.mp ht).1
  · intro j hj1 hj2 t ht
    by_contra hcon
    have : isMultiple t = true := by simpa using hcon
    exact g4 j ((hmem j).mpr ⟨t, ht, this⟩) ⟨hj1, hj2⟩

section
variable {K : Type} [Field K] [Transc K]

/-- **creep_days_add_up.** If the history starts and ends on a day boundary (first and last time
flagged), the per-day creep damages sum to the time-fraction sum over the whole history: every
interval `dt_k / t_R` is counted exactly once, whatever the number of stored steps of each day.
Consequently the lumped extrapolation of the creep damage is `N ×` (whole-history sum) `/ days`. -/
theorem creep_days_add_up (tR : K → K → K) (isMultiple : K → Bool) (times : List K) (days : Nat)
    (wins : List (Nat × Nat)) (hist : List (Sample K))
    (h : cycleWindows isMultiple times days = some wins) (hne : times ≠ [])
    (hfirst : isMultiple (times.head hne) = true) (hlast : isMultiple (times.getLast hne) = true) :
    sumL (pointCreep tR times wins hist) =
        creepCycle tR (creepWindow times hist (0, times.length - 1)) ∧
      ∀ N : K, extrapLump (pointCreep tR times wins hist) N =
        N * creepCycle tR (creepWindow times hist (0, times.length - 1)) / (days : K) := by
  have hsum := pointCreep_sum_whole tR isMultiple times days wins hist h hne hfirst hlast
  refine ⟨hsum, fun N => ?_⟩
  have hlen : (pointCreep tR times wins hist).length = days := by
    unfold pointCreep
    rw [List.length_map]
    exact (windows_contiguous isMultiple times days wins h).1
  unfold extrapLump
  rw [hsum, hlen]

/-- **creep_days_add_up_flagged.** Without the boundary hypotheses: the per-day creep damages sum to
the time-fraction sum from the first flagged time (index `a`) to the last flagged time (index `b`);
`(a, b)` = (first end of the first window, second end of the last window) when `days ≥ 1`. -/
theorem creep_days_add_up_flagged (tR : K → K → K) (isMultiple : K → Bool) (times : List K) (days : Nat)
    (wins : List (Nat × Nat)) (hist : List (Sample K))
    (h : cycleWindows isMultiple times days = some wins) :
    ∃ a b, (indicesWhere isMultiple times 0).head? = some a ∧
      (indicesWhere isMultiple times 0).getLast? = some b ∧
      sumL (pointCreep tR times wins hist) = creepCycle tR (creepWindow times hist (a, b)) :=
  pointCreep_sum_flagged tR isMultiple times days wins hist h

/-- **creep_days_add_up_explicit.** Indexed form: for time points `t 0 … t (M-1)` and samples
`s 0 … s (M-1)` the per-day creep damages sum to `Σ_{k<M-1} (t_{k+1} - t_k) / tR(T_{k+1}, σ_vm(k+1))`. -/
theorem creep_days_add_up_explicit (tR : K → K → K) (isMultiple : K → Bool) (M : Nat) (t : Nat → K)
    (s : Nat → Sample K) (days : Nat) (wins : List (Nat × Nat))
    (h : cycleWindows isMultiple ((List.range (M + 1)).map t) days = some wins)
    (hfirst : isMultiple (t 0) = true) (hlast : isMultiple (t M) = true) :
    sumL (pointCreep tR ((List.range (M + 1)).map t) wins ((List.range (M + 1)).map s)) =
      ∑ k ∈ Finset.range M,
        (t (k + 1) - t k) / tR (s (k + 1)).temp (vonMises (s (k + 1)).stress) := by
  have hne : (List.range (M + 1)).map t ≠ [] := by simp
  have h1 : ((List.range (M + 1)).map t).head hne = t 0 := by
    simp [List.range_succ_eq_map]
  have h2 : ((List.range (M + 1)).map t).getLast hne = t M := by
    simp [List.range_succ]
  have := (creep_days_add_up tR isMultiple _ days wins ((List.range (M + 1)).map s) h hne
    (by rw [h1]; exact hfirst) (by rw [h2]; exact hlast)).1
  rw [this]
  have hl : ((List.range (M + 1)).map t).length - 1 = M := by simp
  rw [hl, creepWindow_sum tR (M + 1) t s 0 M (Nat.zero_le _) (Nat.lt_succ_self _)]
  simp

end

section
variable {K : Type} [Field K] [LinearOrder K] [Transc K]

/-- **cycle_locality.** Entry `k` of the per-day damages of a point depends on the history only
through the samples of day `k`: the creep entry through the stresses and temperatures at the time
points `wins[k].1 … wins[k].2`, the fatigue entry through the strains and temperatures at the time
points `wins[k].1 … wins[k].2 - 1`.  In particular two histories that agree on
`[wins[k].1, wins[k].2]` give the same entries — handing a cycle the samples (e.g. the temperatures) of
the whole analysis is a different function. -/
theorem cycle_locality (tR Nf : K → K → K) (times : List K) (wins : List (Nat × Nat))
    {hist hist' : List (Sample K)} (k : Nat) (hk : k < wins.length) :
    ((∀ i, (wins[k]).1 ≤ i → i ≤ (wins[k]).2 →
        hist[i]?.map (fun s => (s.stress, s.temp)) = hist'[i]?.map (fun s => (s.stress, s.temp))) →
      (pointCreep tR times wins hist)[k]? = (pointCreep tR times wins hist')[k]?) ∧
    ((∀ i, (wins[k]).1 ≤ i → i < (wins[k]).2 →
        hist[i]?.map (fun s => (s.strain, s.temp)) = hist'[i]?.map (fun s => (s.strain, s.temp))) →
      (pointFatigue Nf wins hist)[k]? = (pointFatigue Nf wins hist')[k]?) ∧
    ((∀ i, (wins[k]).1 ≤ i → i ≤ (wins[k]).2 → hist[i]? = hist'[i]?) →
      (pointCreep tR times wins hist)[k]? = (pointCreep tR times wins hist')[k]? ∧
      (pointFatigue Nf wins hist)[k]? = (pointFatigue Nf wins hist')[k]?) := by
  refine ⟨pointCreep_local tR times wins k hk, pointFatigue_local Nf wins k hk, fun h => ⟨?_, ?_⟩⟩
  · exact pointCreep_local tR times wins k hk (fun i h1 h2 => by rw [h i h1 h2])
  · exact pointFatigue_local Nf wins k hk (fun i h1 h2 => by rw [h i h1 (Nat.le_of_lt h2)])

end

/-! ### non-vacuity (on `ℚ`) -/

example : Knee (3/10 : ℚ) (3/10) := ⟨by norm_num, by norm_num, by norm_num, by norm_num⟩

/-- two represented days, crossing strictly inside the bracket: mean damages
`(f, c) = (1/1000, 1/50)`, the ray passes above the knee, `N* = 3000/67 ≈ 44.8` -/
example : maxCycles .lump (3/10 : ℚ) (3/10) [1/1000, 1/1000] [1/100, 3/100] = .finite (3000/67) := by
  norm_num [maxCycles, maxCyclesLump, insideEnv, extrapLump, sumL, Ncross, repMin, repMax]

/-- a second point whose ray passes below the knee (`N* = 3000/37 ≈ 81.1`), and the minimum of the
two points -/
example : maxCycles .lump (3/10 : ℚ) (3/10) [1/100, 1/100] [1/1000, 1/1000] = .finite (3000/37) := by
  norm_num [maxCycles, maxCyclesLump, insideEnv, extrapLump, sumL, Ncross, repMin, repMax]

example : lifeMin [Life.finite (3000/37 : ℚ), .finite (3000/67), .unbounded] = .finite (3000/67) := by
  norm_num [lifeMin, Life.min]

/-- the other two regimes -/
example : maxCycles .lump (3/10 : ℚ) (3/10) [2] [0] = .zero := by
  norm_num [maxCycles, maxCyclesLump, insideEnv, extrapLump, sumL, repMin]

example : maxCycles .lump (3/10 : ℚ) (3/10) [1/10000000] [0] = .unbounded := by
  norm_num [maxCycles, maxCyclesLump, insideEnv, extrapLump, sumL, repMin, repMax]

/-- last-cycle extrapolation of two days: `sum(D[:-1]) + D[-1] * N` -/
example : extrapLast [(1 : ℚ)/100, 3/100] 5 = 16/100 := by
  norm_num [extrapLast, sumL]

/-- the time-fraction sum of three samples with the rupture time at the end of each interval -/
example (tR : ℚ → ℚ → ℚ) [Transc ℚ] (s0 s1 s2 : Sym6 ℚ) :
    creepCycle tR [(0, s0, 800), (2, s1, 900), (5, s2, 950)] =
      (2 - 0) / tR 900 (vonMises s1) + ((5 - 2) / tR 950 (vonMises s2) + 0) := rfl

/-! day windows -/

/-- two days with 2 and 3 stored steps: times `0, 8, 24, 30, 36, 48`, period `24` (`fmod` on the exact rationals;
kernel evaluation of `decide` because `ℚ` division does not unfold in the elaborator) -/
example : cycleWindows (isMultipleQ 24) [0, 8, 24, 30, 36, 48] 2 = some [(0, 2), (2, 5)] := by decide +kernel

/-- the same windows with integer times and `t % 24 == 0` (`cycleWindows` is generic in the time type) -/
example : cycleWindows (fun t : ℕ => t % 24 == 0) [0, 8, 24, 30, 36, 48] 2 = some [(0, 2), (2, 5)] := by
  decide

/-- a wrong number of days is the `ValueError` -/
example : cycleWindows (isMultipleQ 24) [0, 8, 24, 30, 36, 48] 3 = none := by decide +kernel

/-- additivity on it, for every rupture-time function and every history -/
example (tR : ℚ → ℚ → ℚ) [Transc ℚ] (hist : List (Sample ℚ)) :
    sumL (pointCreep tR [0, 8, 24, 30, 36, 48] [(0, 2), (2, 5)] hist) =
      creepCycle tR (creepWindow [0, 8, 24, 30, 36, 48] hist (0, 5)) :=
  (creep_days_add_up tR (isMultipleQ 24) [0, 8, 24, 30, 36, 48] 2 [(0, 2), (2, 5)] hist (by decide +kernel)
    (by simp) (by decide +kernel) (by decide +kernel)).1

/-- and written out: day 1 contributes the intervals ending at samples 1, 2; day 2 those ending at
samples 3, 4, 5 -/
example (tR : ℚ → ℚ → ℚ) [Transc ℚ] (s0 s1 s2 s3 s4 s5 : Sample ℚ) :
    pointCreep tR [0, 8, 24, 30, 36, 48] [(0, 2), (2, 5)] [s0, s1, s2, s3, s4, s5] =
      [(8 - 0) / tR s1.temp (vonMises s1.stress) + ((24 - 8) / tR s2.temp (vonMises s2.stress) + 0),
       (30 - 24) / tR s3.temp (vonMises s3.stress) + ((36 - 30) / tR s4.temp (vonMises s4.stress) +
         ((48 - 36) / tR s5.temp (vonMises s5.stress) + 0))] := rfl

/-- locality on it: replacing the samples of day 2 (indices 3, 4, 5) leaves the damages of day 1
(window `(0, 2)`) unchanged -/
example (tR Nf : ℚ → ℚ → ℚ) [Transc ℚ] (s0 s1 s2 s3 s4 s5 s3' s4' s5' : Sample ℚ) :
    (pointCreep tR [0, 8, 24, 30, 36, 48] [(0, 2), (2, 5)] [s0, s1, s2, s3, s4, s5])[0]? =
        (pointCreep tR [0, 8, 24, 30, 36, 48] [(0, 2), (2, 5)] [s0, s1, s2, s3', s4', s5'])[0]? ∧
      (pointFatigue Nf [(0, 2), (2, 5)] [s0, s1, s2, s3, s4, s5])[0]? =
        (pointFatigue Nf [(0, 2), (2, 5)] [s0, s1, s2, s3', s4', s5'])[0]? := by
  apply (cycle_locality tR Nf _ _ 0 (by decide)).2.2
  intro i _ h2
  have h3 : i ≤ 2 := h2
  obtain rfl | rfl | rfl : i = 0 ∨ i = 1 ∨ i = 2 := by omega
  all_goals rfl

end SrProps.C01
