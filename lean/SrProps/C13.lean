import SrProofs.Thermal
import SrProofs.LogProfile
import SrProofs.ThermalDecay

/-!
# C13 — every wall boundary-condition kind reproduces the exact steady cylinder solution

Model: `SrModel.Thermal` in steady mode (1-D; the 2-D/3-D axisymmetric cases reduce to it by
`C12.axisym_2d_is_1d` / `uniform_3d_is_2d`).
-/
namespace SrProps.C13
open SrModel.Thermal Finset

/-- **steady_flux_constant.** Constant conductivity, steady 1-D, no source: the quantity
`r_{i+½}(T_{i+1} − T_i)` is the same for all faces, including the two ghost faces. -/
theorem steady_flux_constant (P : Prob ℝ) (T : GField ℝ) (c0 : ℝ)
    (h1 : P.ndim = 1) (hst : P.steady = true) (hsol : P.Solves T)
    (hc : ∀ i, P.c i 0 0 = c0) (hc0 : c0 ≠ 0) (hdr : P.dr ≠ 0)
    (hr : ∀ i, P.isRealI i = true → P.rr i ≠ 0)
    (hsrc : ∀ i, P.qc i 0 0 * P.src i 0 0 = 0) :
    ∀ i, i ≤ P.N → P.rh i * (T (i+1) 0 0 - T i 0 0) = P.rh 0 * (T 1 0 0 - T 0 0 0) :=
  SrModel.Thermal.steady_flux_constant P T c0 h1 hst hsol hc hc0 hdr hr hsrc

/-- **steady_profile.** Hence `T_{i+1} = T_1 + Φ·Σ_{m=1}^{i} 1/r_{m+½}` — the discrete counterpart
of `T(r) = T(r_i) + Φ·ln(r/r_i)` (each `dr/r_{m+½}` is the midpoint rule for `∫ dr/r`). -/
theorem steady_profile (P : Prob ℝ) (T : GField ℝ) (Φ : ℝ)
    (hflux : ∀ i, i ≤ P.N → P.rh i * (T (i+1) 0 0 - T i 0 0) = Φ)
    (hrh : ∀ i, 1 ≤ i → i ≤ P.N → P.rh i ≠ 0) :
    ∀ i, i ≤ P.N → T (i+1) 0 0 = T 1 0 0 + Φ * ∑ m ∈ Finset.Icc 1 i, 1 / P.rh m :=
  SrModel.Thermal.steady_profile P T Φ hflux hrh

/-- **midpoint_log.** One radial cell: `|dr/r_{m+½} − ln(r_{m+1}/r_m)| ≤ 2x³/(1−x)` with
`x = dr/(2 r_{m+½}) < 1` — the discrete increment of `steady_profile` is the logarithmic increment
up to `O(dr³)`. -/
theorem midpoint_log (r dr : ℝ) (hr : 0 < r) (hdr : 0 < dr) :
    |dr / (r + dr / 2) - Real.log ((r + dr) / r)|
      ≤ 2 * (dr / (2 * (r + dr / 2))) ^ 3 / (1 - dr / (2 * (r + dr / 2))) :=
  midpoint_log_cell r dr hr hdr

/-- **profile_vs_log.** On the regular grid the discrete profile sum times `dr` is within the sum
of the per-cell midpoint errors of `ln(r_{i+1}/r_1)`: the discrete steady solution follows the
exact logarithmic profile to `O(dr²)` over a wall of fixed thickness (for the same face flux). -/
theorem profile_vs_log (P : Prob ℝ) (rin : ℝ) (hrin : 0 < rin) (hdr : 0 < P.dr)
    (hrr : ∀ i : Nat, P.rr i = rin + ((i : ℝ) - 1) * P.dr) (i : Nat) :
    |P.dr * ∑ m ∈ Finset.Icc 1 i, 1 / P.rh m - Real.log (P.rr (i+1) / P.rr 1)|
      ≤ ∑ m ∈ Finset.Icc 1 i,
          2 * (P.dr / (2 * P.rh m)) ^ 3 / (1 - P.dr / (2 * P.rh m)) :=
  profile_sum_vs_log P rin hrin hdr hrr i

/-- fixed/fixed pairing: the constant face quantity is `(T_o − T_i)/Σ_{m=1}^{N-1} 1/r_{m+½}` -/
theorem steady_fixed_fixed (P : Prob ℝ) (T : GField ℝ) (Φ : ℝ) (vi vo : Nat → Nat → ℝ)
    (hN : 1 ≤ P.N) (h1 : P.ndim = 1) (hsol : P.Solves T)
    (hin : P.inner = .fix vi) (hout : P.outer = .fix vo)
    (hflux : ∀ i, i ≤ P.N → P.rh i * (T (i+1) 0 0 - T i 0 0) = Φ)
    (hrh : ∀ i, 1 ≤ i → i ≤ P.N → P.rh i ≠ 0) :
    T 1 0 0 = vi 0 0 ∧ T P.N 0 0 = vo 0 0 ∧
    vo 0 0 - vi 0 0 = Φ * ∑ m ∈ Finset.Icc 1 (P.N - 1), 1 / P.rh m := by
  obtain ⟨_, hi, ho, _, _⟩ := hsol
  have hJ : P.isRealJ 0 = true := by simp [Prob.isRealJ, h1]
  have hK : P.isRealK 0 = true := by simp [Prob.isRealK, h1]
  have a := hi 0 0 hJ hK
  have b := ho 0 0 hJ hK
  unfold Prob.innerRes at a; rw [hin] at a; simp only at a
  unfold Prob.outerRes at b; rw [hout] at b; simp only at b
  have p := SrModel.Thermal.steady_profile P T Φ hflux hrh (P.N - 1) (by omega)
  have e : P.N - 1 + 1 = P.N := by omega
  rw [e] at p
  refine ⟨by linarith, by linarith, ?_⟩
  linarith

/-- a prescribed-flux outer wall fixes the face quantity: `Φ = r_{N+½}·dr·q/k` -/
theorem steady_flux_outer (P : Prob ℝ) (T : GField ℝ) (q : Nat → Nat → ℝ)
    (h1 : P.ndim = 1) (hsol : P.Solves T) (hout : P.outer = .flux q) :
    P.rh P.N * (T (P.N+1) 0 0 - T P.N 0 0) = P.rh P.N * (P.dr * q 0 0 / P.kk P.N 0 0) := by
  obtain ⟨_, _, ho, _, _⟩ := hsol
  have hJ : P.isRealJ 0 = true := by simp [Prob.isRealJ, h1]
  have hK : P.isRealK 0 = true := by simp [Prob.isRealK, h1]
  have b := ho 0 0 hJ hK
  unfold Prob.outerRes at b; rw [hout] at b; simp only at b
  have : T (P.N+1) 0 0 - T P.N 0 0 = P.dr * q 0 0 / P.kk P.N 0 0 := by linarith
  rw [this]

/-- a convective inner wall ties the face quantity to the film drop:
`r_{½}(T_1 − T_0) = r_{½}·dr·h·(T_1 − T_f)/k` -/
theorem steady_conv_inner (P : Prob ℝ) (T : GField ℝ) (tf h : Nat → Nat → ℝ)
    (h1 : P.ndim = 1) (hsol : P.Solves T) (hin : P.inner = .conv tf h) :
    P.rh 0 * (T 1 0 0 - T 0 0 0) = P.rh 0 * (P.dr * h 0 0 * (T 1 0 0 - tf 0 0) / P.kk 1 0 0) := by
  obtain ⟨_, hi, _, _, _⟩ := hsol
  have hJ : P.isRealJ 0 = true := by simp [Prob.isRealJ, h1]
  have hK : P.isRealK 0 = true := by simp [Prob.isRealK, h1]
  have a := hi 0 0 hJ hK
  unfold Prob.innerRes at a; rw [hin] at a; simp only at a
  have : T 1 0 0 - T 0 0 0 = P.dr * h 0 0 * (T 1 0 0 - tf 0 0) / P.kk 1 0 0 := by linarith
  rw [this]

/-- **steady_max_principle.** Steady mode, no source, strictly positive radial couplings, an inner
wall that pins the temperature (fixed value, or convection with positive film number): every
real-node temperature is at most the largest of the wall data — in 1-D, 2-D and 3-D, any grid. -/
theorem steady_max_principle (P : Prob ℝ) (T : GField ℝ) (B : ℝ)
    (hs : P.Sized) (hst : P.steady = true) (hw : P.WeightsNonneg)
    (hwr : ∀ i j k, P.isRealI i = true → P.isRealJ j = true → P.isRealK k = true → 0 < P.wrm i j k)
    (hsol : P.Solves T) (hsrc : ∀ i j k, P.qc i j k * P.src i j k = 0)
    (hin : P.inner.AnchorsBelow P.dr (fun j k => P.kk 1 j k) B)
    (hout : P.outer.UpperOK P.dr (fun j k => P.kk P.N j k) B P.isRealJ P.isRealK) :
    ∀ i j k, P.isRealI i = true → P.isRealJ j = true → P.isRealK k = true → T i j k ≤ B :=
  steady_max_upper P T B hs hst hw hwr hsol hsrc hin hout

/-- **steady_unique.** With such an inner wall the steady system has at most one solution on the
real nodes: "the steady-mode solution" is well defined, and by `C12.axisym_2d_is_1d` /
`uniform_3d_is_2d` it is the lifted 1-D discrete log profile for axisymmetric, axially uniform data. -/
theorem steady_unique (P : Prob ℝ) (T T' : GField ℝ)
    (hs : P.Sized) (hst : P.steady = true) (hw : P.WeightsNonneg)
    (hwr : ∀ i j k, P.isRealI i = true → P.isRealJ j = true → P.isRealK k = true → 0 < P.wrm i j k)
    (hanchor : (∃ v, P.inner = .fix v) ∨
      (∃ tf h, P.inner = .conv tf h ∧ ∀ j k, 0 < P.dr * h j k / P.kk 1 j k))
    (hconv_out : ∀ tf h, P.outer = .conv tf h → ∀ j k, 0 ≤ P.dr * h j k / P.kk P.N j k)
    (h1 : P.Solves T) (h2 : P.Solves T') :
    ∀ i j k, P.isRealI i = true → P.isRealJ j = true → P.isRealK k = true → T i j k = T' i j k :=
  SrModel.Thermal.steady_unique P T T' hs hst hw hwr hanchor hconv_out h1 h2

/-- **transient_nonexpansive.** If `Ts` is a fixed point of the transient step (a steady state:
it solves the step started from itself), then any step moves no real node farther from it, in
the maximum norm, than the starting field was: `|T − Ts| ≤ max |Tⁿ − Ts|` (bound `B`). -/
theorem transient_nonexpansive (P : Prob ℝ) (d : Data) (T Ts : GField ℝ) (B : ℝ)
    (hs : P.Sized) (hst : P.steady = false) (hdt : 0 < P.dt) (hw : P.WeightsNonneg)
    (hsrc : ∀ i j k, d.src i j k = 0)
    (hsol : (P.withData d).Solves T)
    (hfix : (P.withData { d with Tn := Ts }).Solves Ts)
    (hconv_in : ∀ tf h, d.inner = .conv tf h → ∀ j k, 0 ≤ P.dr * h j k / P.kk 1 j k)
    (hconv_out : ∀ tf h, d.outer = .conv tf h → ∀ j k, 0 ≤ P.dr * h j k / P.kk P.N j k)
    (hB : ∀ i j k, P.isRealI i = true → P.isRealJ j = true → P.isRealK k = true →
      -B ≤ d.Tn i j k - Ts i j k ∧ d.Tn i j k - Ts i j k ≤ B) :
    ∀ i j k, P.isRealI i = true → P.isRealJ j = true → P.isRealK k = true →
      -B ≤ T i j k - Ts i j k ∧ T i j k - Ts i j k ≤ B := by
  have hd := solves_comb P d { d with Tn := Ts } 1 (-1) T Ts (Wall.same_refl _) (Wall.same_refl _)
    hsol hfix
  set Q := P.withData (Data.comb 1 (-1) d { d with Tn := Ts }) with hQ
  have hrhs : ∀ i j k, Q.rhsReal i j k = d.Tn i j k - Ts i j k := by
    intro i j k
    have hst' : Q.steady = false := hst
    unfold Prob.rhsReal; rw [hst']
    simp [hQ, Prob.withData, Data.comb, hsrc]; ring
  have hup : ∀ (w : Wall ℝ) (kw : Nat → Nat → ℝ),
      (∀ tf h, w = .conv tf h → ∀ j k, 0 ≤ P.dr * h j k / kw j k) → (0 ≤ B) →
      (Wall.comb 1 (-1) w w).UpperOK P.dr kw B Q.isRealJ Q.isRealK ∧
      (Wall.comb 1 (-1) w w).LowerOK P.dr kw (-B) Q.isRealJ Q.isRealK := by
    intro w kw hc hB0
    cases w with
    | ins => simp [Wall.comb, Wall.UpperOK, Wall.LowerOK]
    | fix v => simp [Wall.comb, Wall.UpperOK, Wall.LowerOK]; exact fun _ _ _ _ => hB0
    | flux q => simp [Wall.comb, Wall.UpperOK, Wall.LowerOK]
    | conv tf h =>
      simp only [Wall.comb, Wall.UpperOK, Wall.LowerOK]
      have := hc tf h rfl
      exact ⟨fun j k _ _ => ⟨this j k, by simp; exact hB0⟩, fun j k _ _ => ⟨this j k, by simp; exact hB0⟩⟩
  have hB0 : 0 ≤ B := by
    obtain ⟨⟨i, j, k⟩, hm⟩ := nodes_nonempty P hs
    obtain ⟨a, b, c⟩ := (mem_nodes P i j k).1 hm
    have := hB i j k a b c; linarith
  have hi := hup d.inner (fun j k => P.kk 1 j k) hconv_in hB0
  have ho := hup d.outer (fun j k => P.kk P.N j k) hconv_out hB0
  have up := max_principle_upper Q (GField.comb 1 (-1) T Ts) B (hs.withData _) hst hdt hw hd
    (fun i j k a b c => by rw [hrhs]; exact (hB i j k a b c).2) hi.1 ho.1
  have lo := max_principle_lower Q (GField.comb 1 (-1) T Ts) (-B) (hs.withData _) hst hdt hw hd
    (fun i j k a b c => by rw [hrhs]; exact (hB i j k a b c).1) hi.2 ho.2
  intro i j k a b c
  have u := up i j k a b c
  have l := lo i j k a b c
  simp only [GField.comb] at u l
  constructor <;> linarith

/-- **transient_contracts_weighted.** `Ts` a fixed point of the transient step, `φ` a barrier
(`0 < φ ≤ Φ`, `A φ ≤ −δ`, compatible with the wall kinds): one step contracts the weighted error,
`|Tⁿ − Ts| ≤ M·φ  ⟹  |T − Ts| ≤ ρ·M·φ` with `ρ = Φ/(Φ + dt·δ) < 1` — the strict version of
`transient_nonexpansive`. -/
theorem transient_contracts_weighted (P : Prob ℝ) (d : Data) (T Ts φ : GField ℝ) (δ Φ M : ℝ)
    (hs : P.Sized) (hst : P.steady = false) (hdt : 0 < P.dt) (hw : P.WeightsNonneg)
    (hδ : 0 < δ) (hΦ : 0 < Φ)
    (hsol : (P.withData d).Solves T)
    (hfix : (P.withData { d with Tn := Ts }).Solves Ts)
    (hconv_in : ∀ tf h, d.inner = .conv tf h → ∀ j k, 0 ≤ P.dr * h j k / P.kk 1 j k)
    (hconv_out : ∀ tf h, d.outer = .conv tf h → ∀ j k, 0 ≤ P.dr * h j k / P.kk P.N j k)
    (hb : P.Barrier (d.inner.toE P.dr (fun j k => P.kk 1 j k))
      (d.outer.toE P.dr (fun j k => P.kk P.N j k)) φ δ Φ)
    (hM : 0 ≤ M)
    (hen : ∀ i j k, P.isRealI i = true → P.isRealJ j = true → P.isRealK k = true →
      |d.Tn i j k - Ts i j k| ≤ M * φ i j k) :
    (∀ i j k, P.isRealI i = true → P.isRealJ j = true → P.isRealK k = true →
      |T i j k - Ts i j k| ≤ Φ / (Φ + P.dt * δ) * M * φ i j k) ∧
    0 < Φ / (Φ + P.dt * δ) ∧ Φ / (Φ + P.dt * δ) < 1 :=
  ⟨solves_contracts_weighted P d T Ts φ δ Φ M hs hst hdt hw hδ hΦ hsol hfix hconv_in hconv_out hb
    hM hen, decayRate_pos hΦ hdt hδ, decayRate_lt_one hΦ hdt hδ⟩

/-- **transient_converges.** Constant coefficient `a`, uniform radial grid, at least one wall with
prescribed temperature (the other of any kind, film number ≥ 0), constant wall data and source:
the transient iterates converge geometrically to the fixed point `Ts` in the maximum norm,
`|Tₙ − Ts| ≤ ρⁿ·Φ·B`, `ρ = Φ/(Φ + 4·a·dt) < 1`,
`Φ = r_{N+1}² + 2 + 2·dr·r_{N+½}²·Σ_{m<N} 1/r_{m+½}` (1-D, 2-D and 3-D). -/
theorem transient_converges (P : Prob ℝ) (d : Data) (T : ℕ → GField ℝ) (Ts : GField ℝ) (a B : ℝ)
    (hs : P.Sized) (hst : P.steady = false) (hdt : 0 < P.dt) (hu : P.UniformRadial a)
    (hconv_in : ∀ tf h, d.inner = .conv tf h → ∀ j k, 0 ≤ P.dr * h j k / P.kk 1 j k)
    (hconv_out : ∀ tf h, d.outer = .conv tf h → ∀ j k, 0 ≤ P.dr * h j k / P.kk P.N j k)
    (hwall : (∃ v, d.outer = .fix v) ∨ (∃ v, d.inner = .fix v))
    (hstep : ∀ n, (P.withData { d with Tn := T n }).Solves (T (n+1)))
    (hfix : (P.withData { d with Tn := Ts }).Solves Ts)
    (h0 : ∀ i j k, P.isRealI i = true → P.isRealJ j = true → P.isRealK k = true →
      |T 0 i j k - Ts i j k| ≤ B) :
    (∀ n i j k, P.isRealI i = true → P.isRealJ j = true → P.isRealK k = true →
      |T n i j k - Ts i j k|
        ≤ (P.decayPhi / (P.decayPhi + P.dt * (4 * a))) ^ n * P.decayPhi * B) ∧
    0 < P.decayPhi / (P.decayPhi + P.dt * (4 * a)) ∧
    P.decayPhi / (P.decayPhi + P.dt * (4 * a)) < 1 ∧
    P.decayPhi = (P.rr (P.N+1)) ^ 2 + 2
      + 2 * P.dr * (P.rh P.N) ^ 2 * ∑ m ∈ Finset.range P.N, 1 / P.rh m := by
  have hΦ : 0 < P.decayPhi := lt_of_lt_of_le P.decayC_pos hu.decayPhi_ge
  have h4a : 0 < 4 * a := by have := hu.ha; positivity
  exact ⟨fun n => converges_fix_wall P d T Ts a B hs hst hdt hu hconv_in hconv_out hwall hstep hfix
    h0 n, decayRate_pos hΦ hdt h4a, decayRate_lt_one hΦ hdt h4a, rfl⟩

/-- **transient_converges_conv_inner.** The same with a convective inner wall whose film number
`dr·h/k` is at least `β0 > 0` (outer wall of any kind):
`Φ = decayPhi + 2·dr·r_{N+½}²/(r_{½}·β0)`. -/
theorem transient_converges_conv_inner (P : Prob ℝ) (d : Data) (T : ℕ → GField ℝ)
    (Ts : GField ℝ) (a B β0 Φ : ℝ) (tf h : Nat → Nat → ℝ)
    (hs : P.Sized) (hst : P.steady = false) (hdt : 0 < P.dt) (hu : P.UniformRadial a)
    (hin : d.inner = .conv tf h) (hβ0 : 0 < β0)
    (hβ : ∀ j k, P.isRealJ j = true → P.isRealK k = true → β0 ≤ P.dr * h j k / P.kk 1 j k)
    (hconv_out : ∀ tf h, d.outer = .conv tf h → ∀ j k, 0 ≤ P.dr * h j k / P.kk P.N j k)
    (hstep : ∀ n, (P.withData { d with Tn := T n }).Solves (T (n+1)))
    (hfix : (P.withData { d with Tn := Ts }).Solves Ts)
    (h0 : ∀ i j k, P.isRealI i = true → P.isRealJ j = true → P.isRealK k = true →
      |T 0 i j k - Ts i j k| ≤ B)
    (hΦ : Φ = P.decayPhi + 2 * P.dr * (P.rh P.N) ^ 2 / (P.rh 0 * β0)) :
    (∀ n i j k, P.isRealI i = true → P.isRealJ j = true → P.isRealK k = true →
      |T n i j k - Ts i j k| ≤ (Φ / (Φ + P.dt * (4 * a))) ^ n * Φ * B) ∧
    0 < Φ / (Φ + P.dt * (4 * a)) ∧ Φ / (Φ + P.dt * (4 * a)) < 1 := by
  have hΦ0 : 0 < Φ := by
    have h1 := lt_of_lt_of_le P.decayC_pos hu.decayPhi_ge
    have h2 : 0 ≤ 2 * P.dr * (P.rh P.N) ^ 2 / (P.rh 0 * β0) :=
      div_nonneg hu.decayB_nonneg (mul_nonneg (hu.rh_pos 0).le hβ0.le)
    rw [hΦ]; linarith
  have h4a : 0 < 4 * a := by have := hu.ha; positivity
  subst hΦ
  exact ⟨fun n => converges_inner_conv P d T Ts a B β0 tf h hs hst hdt hu hin hβ0 hβ hconv_out hstep
    hfix h0 n, decayRate_pos hΦ0 hdt h4a, decayRate_lt_one hΦ0 hdt h4a⟩

/-- **transient_converges_conv_outer.** The mirror image: convective outer wall with film number
at least `β0 > 0`, inner wall of any kind: `Φ = r_{N+1}² + 2 + 2·dr·r_{N+½}/β0`. -/
theorem transient_converges_conv_outer (P : Prob ℝ) (d : Data) (T : ℕ → GField ℝ)
    (Ts : GField ℝ) (a B β0 Φ : ℝ) (tf h : Nat → Nat → ℝ)
    (hs : P.Sized) (hst : P.steady = false) (hdt : 0 < P.dt) (hu : P.UniformRadial a)
    (hout : d.outer = .conv tf h) (hβ0 : 0 < β0)
    (hβ : ∀ j k, P.isRealJ j = true → P.isRealK k = true → β0 ≤ P.dr * h j k / P.kk P.N j k)
    (hconv_in : ∀ tf h, d.inner = .conv tf h → ∀ j k, 0 ≤ P.dr * h j k / P.kk 1 j k)
    (hstep : ∀ n, (P.withData { d with Tn := T n }).Solves (T (n+1)))
    (hfix : (P.withData { d with Tn := Ts }).Solves Ts)
    (h0 : ∀ i j k, P.isRealI i = true → P.isRealJ j = true → P.isRealK k = true →
      |T 0 i j k - Ts i j k| ≤ B)
    (hΦ : Φ = (P.rr (P.N+1)) ^ 2 + 2 + 2 * P.dr * P.rh P.N / β0) :
    (∀ n i j k, P.isRealI i = true → P.isRealJ j = true → P.isRealK k = true →
      |T n i j k - Ts i j k| ≤ (Φ / (Φ + P.dt * (4 * a))) ^ n * Φ * B) ∧
    0 < Φ / (Φ + P.dt * (4 * a)) ∧ Φ / (Φ + P.dt * (4 * a)) < 1 := by
  have hΦ0 : 0 < Φ := by
    have h2 : 0 ≤ 2 * P.dr * P.rh P.N / β0 := by
      have := hu.hdr; have := hu.rh_pos P.N; positivity
    rw [hΦ]; positivity
  have h4a : 0 < 4 * a := by have := hu.ha; positivity
  subst hΦ
  exact ⟨fun n => converges_outer_conv P d T Ts a B β0 tf h hs hst hdt hu hout hβ0 hβ hconv_in hstep
    hfix h0 n, decayRate_pos hΦ0 hdt h4a, decayRate_lt_one hΦ0 hdt h4a⟩

/-! ### non-vacuity: the uniform steady state of a fixed/fixed tube -/
noncomputable def ex : Prob ℝ :=
  { ndim := 1, N := 2, Nt := 0, Nz := 0, steady := true, dt := 1, dr := 1, dth := 1, dz := 1,
    rr := fun i => 9 + i, c := fun _ _ _ => 3, kk := fun _ _ _ => 3, qc := fun _ _ _ => 1,
    src := fun _ _ _ => 0, Tn := fun _ _ _ => 0,
    inner := .fix (fun _ _ => 7), outer := .fix (fun _ _ => 7) }
example : ex.Solves (fun _ _ _ => 7) := by
  refine ⟨?_, ?_, ?_, ?_, ?_⟩
  · intro i j k _ _ _; simp [ex, Prob.lhsReal, Prob.rhsReal, Prob.applyA]
  · intro j k _ _; simp [ex, Prob.innerRes]
  · intro j k _ _; simp [ex, Prob.outerRes]
  · intro h; simp [ex] at h
  · intro h; simp [ex] at h

/-! ### non-vacuity of the decay theorems: a transient fixed/fixed tube with two real nodes -/
noncomputable def exT : Prob ℝ :=
  { ndim := 1, N := 2, Nt := 0, Nz := 0, steady := false, dt := 1, dr := 1, dth := 1, dz := 1,
    rr := fun i => 9 + i, c := fun _ _ _ => 3, kk := fun _ _ _ => 3, qc := fun _ _ _ => 1,
    src := fun _ _ _ => 0, Tn := fun _ _ _ => 7,
    inner := .fix (fun _ _ => 7), outer := .fix (fun _ _ => 7) }

example : exT.Sized := ⟨by simp [exT], by simp [exT], by simp [exT]⟩

example : exT.UniformRadial 3 :=
  ⟨by norm_num, fun _ _ _ => rfl, fun i => by simp [exT]; ring, by simp [exT], by simp [exT]⟩

/-- the explicit barrier `φ_i = 200 − r_i²` (`φ_1 = 100`, `φ_2 = 79`): `A φ = −12 = −4a`, `Φ = 200` -/
example : exT.Barrier .fix .fix (fun i _ _ => 200 - (9 + (i : ℝ)) ^ 2) 12 200 := by
  have hI : ∀ i, exT.isRealI i = true → i = 1 ∨ i = 2 := by
    intro i hi
    have h1 : 1 ≤ i ∧ i ≤ exT.N := by simpa [Prob.isRealI] using hi
    have h2 : exT.N = 2 := rfl
    omega
  refine ⟨?_, ?_, ?_, ⟨?_, ?_⟩, ?_, ?_⟩
  · intro i j k hi _ _
    rcases hI i hi with rfl | rfl <;> norm_num
  · intro i j k hi _ _
    rcases hI i hi with rfl | rfl <;> norm_num
  · intro i j k hi _ _
    rcases hI i hi with rfl | rfl <;>
      simp [exT, Prob.applyA, Prob.wrm, Prob.wrp, Prob.wtm, Prob.wtp, Prob.wzm, Prob.wzp,
        Prob.rh, Prob.ahr] <;> norm_num
  · intro h; simp [exT] at h
  · intro h; simp [exT] at h
  · intro j k _ _; simp [EWall.bar]
  · intro j k _ _; simp [EWall.bar]

/-- the hypotheses of `transient_converges` are jointly satisfiable -/
example : ∃ (d : Data) (T : ℕ → GField ℝ) (Ts : GField ℝ),
    ((∃ v, d.outer = .fix v) ∨ (∃ v, d.inner = .fix v)) ∧
    (∀ n, (exT.withData { d with Tn := T n }).Solves (T (n+1))) ∧
    (exT.withData { d with Tn := Ts }).Solves Ts := by
  have hsol : (exT.withData { exT.data with Tn := fun _ _ _ => 7 }).Solves (fun _ _ _ => 7) := by
    refine ⟨?_, ?_, ?_, ?_, ?_⟩
    · intro i j k _ _ _
      simp [exT, Prob.withData, Prob.data, Prob.lhsReal, Prob.rhsReal, Prob.applyA]
    · intro j k _ _; simp [exT, Prob.withData, Prob.data, Prob.innerRes]
    · intro j k _ _; simp [exT, Prob.withData, Prob.data, Prob.outerRes]
    · intro h; simp [exT, Prob.withData] at h
    · intro h; simp [exT, Prob.withData] at h
  exact ⟨exT.data, fun _ _ _ _ => 7, fun _ _ _ => 7, Or.inl ⟨_, rfl⟩, fun _ => hsol, hsol⟩

end SrProps.C13
