import SrProofs.Adaptive

/-!
# C10 — a structural step succeeds only through converged, contiguous sub-increments

Model: `SrModel.Adaptive` (the `while cprog < tprog` loop of
`PythonTubeSolver.solve`).  The theorems quantify over **every** subdivision
limit `md ≥ 1`, both modes, and **every** convergence oracle `o : ℕ → Bool`
(which attempts fail) — no bound.
-/
namespace SrProps.C10
open SrModel.Adaptive

/-- initial subdivision count of a mode -/
def m0 (md : Nat) (forced : Bool) : Nat := if forced then md - 1 else 0

/-- **success_spec.** If the step returns (`ok tr`) then
* the accepted attempts, in order, all converged, each starts exactly where the
  previous one ended, each has positive length, the first starts at 0 and the
  last ends at `2^md` (the whole step: end time, end pressure, full `dtop`);
* every attempt, accepted or not, was started from the end state of the last
  *accepted* attempt — a failed state is never a starting point;
* the last attempt made — whose state is the one returned — converged and ends at `2^md`. -/
theorem success_spec (md : Nat) (hmd : 0 < md) (forced : Bool) (o : Nat → Bool)
    (tr : List Attempt) (h : run md forced o = .ok tr) :
    Chain (accepted tr) 0 (2^md) ∧ startsFrom 0 tr = true ∧
      ∃ a, tr.getLast? = some a ∧ a.ok = true ∧ a.to_ = 2^md := by
  have := loop_ok md _ o _ _ tr (init_inv md hmd forced) h
  exact ⟨this.chain, this.starts, this.lastOk⟩

/-- **exhaust_raises.** A returning run used fewer failures than the
subdivision budget (`md` in adaptive mode, `1` in forced mode): once the failures reach the
limit the step cannot return. -/
theorem exhaust_raises (md : Nat) (hmd : 0 < md) (forced : Bool) (o : Nat → Bool)
    (tr : List Attempt) (h : run md forced o = .ok tr) :
    failures tr + m0 md forced < md :=
  (loop_ok md _ o _ _ tr (init_inv md hmd forced) h).budget

/-- a raise happens exactly when the budget is used up, right after a failed attempt -/
theorem raise_spec (md : Nat) (hmd : 0 < md) (forced : Bool) (o : Nat → Bool)
    (tr : List Attempt) (h : run md forced o = .fail tr) :
    failures tr + m0 md forced = md ∧ ∃ a, tr.getLast? = some a ∧ a.ok = false :=
  loop_fail md _ o _ _ tr (init_inv md hmd forced) h

/-- the model loop terminates within its fuel for every oracle: `run` either returns or raises -/
theorem run_total (md : Nat) (hmd : 0 < md) (forced : Bool) (o : Nat → Bool) :
    run md forced o ≠ .nofuel := by
  apply loop_fuel md _ o _ _ (init_inv md hmd forced)
  cases forced <;> simp [init, fuel] <;> omega

/-- **forced_spec.** In forced mode a returning run made no failed attempt and every attempt
is exactly one unit long (so, with `success_spec`, it is the `2^md` unit steps in order). -/
theorem forced_spec (md : Nat) (hmd : 0 < md) (o : Nat → Bool) (tr : List Attempt)
    (h : run md true o = .ok tr) :
    failures tr = 0 ∧ ∀ a ∈ tr, a.to_ = a.frm + 1 := by
  constructor
  · have := exhaust_raises md hmd true o tr h
    simp [m0] at this; omega
  · have := loop_forced_units md o (fuel md) (init md true) (by simp [init]) (by simp [init]; omega)
      (by simp [init]) (by simp [init])
    unfold run at h
    rw [h] at this; exact this

/-- forced mode raises at the first failure -/
theorem forced_raise (md : Nat) (hmd : 0 < md) (o : Nat → Bool) (tr : List Attempt)
    (h : run md true o = .fail tr) : failures tr = 1 := by
  have := (raise_spec md hmd true o tr h).1
  simp [m0] at this; omega

/-! ### non-vacuity -/

/-- a run with two failures (attempts 0 and 2) that still succeeds, `md = 3` -/
example : run 3 false (oracleOf [false, true, false]) =
    .ok [⟨0,8,false⟩, ⟨0,4,true⟩, ⟨4,8,false⟩, ⟨4,6,true⟩, ⟨6,8,true⟩] := by decide
example : run 2 false (oracleOf [false, false]) = .fail [⟨0,4,false⟩, ⟨0,2,false⟩] := by decide
example : run 2 true (oracleOf []) = .ok [⟨0,1,true⟩, ⟨1,2,true⟩, ⟨2,3,true⟩, ⟨3,4,true⟩] := by decide
example : run 2 true (oracleOf [true, false]) = .fail [⟨0,1,true⟩, ⟨1,2,false⟩] := by decide

/-- **F11 (pinned commit).** The loop as coded at the pinned commit violates `success_spec`:
one failure of the first attempt and the step "succeeds" from the failed state over a
zero-length increment. -/
theorem pinned_witness :
    runPinned 2 false (oracleOf [false]) = .ok [⟨0,4,false⟩, ⟨4,4,true⟩] := by decide

theorem pinned_violates :
    ¬ startsFrom 0 [(⟨0,4,false⟩ : Attempt), ⟨4,4,true⟩] = true := by decide

end SrProps.C10
