import SrProofs.Mesh
import SrProofs.Lame
import SrProofs.LameThermal

/-!
# C03 — tube stress solution is in equilibrium and agrees across 1D/2D/3D

Models: `SrModel.Mesh` (node numbering, connectivity and the pressure-facet rule of
`structural.mesh2D/mesh3D/State.define_boundary`, for **all** grid sizes) and `SrModel.Lame`
(the closed-form generalised-plane-strain thick cylinder that the numerical comparison uses as its
oracle, and the consistent nodal loads of a uniform pressure on the discretised inner surface).

`SrModel.LameThermal` adds the thermo-elastic part for an ARBITRARY radial temperature profile `T(r)`
given through its moment `I(r) = ∫_{r_i}^r T ρ dρ` (theorems `thermal_*`: traction-free surfaces,
equilibrium, compatibility, axial force, reduction to `Lame` for uniform `T`, superposition with the
pressure field), instantiated for the quadratic profile the harness solves (`quadratic_moment`).

Not proved here (measured by `harness/c03.py` on the real solver): that scikit-fem's assembly of
the quadrilateral/hexahedral element integrals converges to the closed forms (observed order 2).
-/
namespace SrProps.C03
open SrModel.Mesh SrModel.Lame Finset

/-! ### meshes -/

/-- **node_numbering.** Distinct grid points get distinct node numbers and the numbers are exactly
`0 … nr·nt − 1` (2-D) and `0 … nr·nt·nz − 1` (3-D). -/
theorem node_numbering (nr nt nz : Nat) :
    (∀ i j i' j', j < nt → j' < nt → node2 nt i j = node2 nt i' j' → i = i' ∧ j = j') ∧
    (∀ i j, i < nr → j < nt → node2 nt i j < nnodes2 nr nt) ∧
    (∀ n, n < nnodes2 nr nt → ∃ i j, i < nr ∧ j < nt ∧ n = node2 nt i j) ∧
    (∀ i j k i' j' k', j < nt → j' < nt → k < nz → k' < nz →
        node3 nt nz i j k = node3 nt nz i' j' k' → i = i' ∧ j = j' ∧ k = k') ∧
    (∀ i j k, i < nr → j < nt → k < nz → node3 nt nz i j k < nnodes3 nr nt nz) ∧
    (∀ n, n < nnodes3 nr nt nz → ∃ i j k, i < nr ∧ j < nt ∧ k < nz ∧ n = node3 nt nz i j k) :=
  ⟨fun _ _ _ _ hj hj' h => pair_inj hj hj' h,
   fun _ _ hi hj => pair_lt' hi hj,
   fun _ hn => node2_surj hn,
   fun _ _ _ _ _ _ hj hj' hk hk' h => triple_inj hj hj' hk hk' h,
   fun _ _ _ hi hj hk => node3_lt hi hj hk,
   fun _ hn => node3_surj hn⟩

/-- **conn_wellformed.** For all `nr ≥ 2`, `nt ≥ 3`, `nz ≥ 2`:
the elements of `mesh2D` (`mesh3D`) are exactly the quadrilaterals (hexahedra) whose vertices are
the 4 (8) grid neighbours of `(i,j)` (`(i,j,k)`) with the seam wrapped by `(j+1) mod nt`; every
vertex index is a node; no element is repeated; there are `(nr−1)·nt` (`(nr−1)·nt·(nz−1)`) of
them; every node belongs to an element. -/
theorem conn_wellformed (nr nt nz : Nat) (hnr : 2 ≤ nr) (_hnt : 3 ≤ nt) (hnz : 2 ≤ nz) :
    -- 2-D
    (∀ e, e ∈ conn2 nr nt ↔ ∃ i j, i < nr - 1 ∧ j < nt ∧
        e = [node2 nt i j, node2 nt i ((j + 1) % nt), node2 nt (i + 1) ((j + 1) % nt), node2 nt (i + 1) j]) ∧
    (∀ e ∈ conn2 nr nt, ∀ v ∈ e, v < nnodes2 nr nt) ∧
    (conn2 nr nt).Nodup ∧
    (conn2 nr nt).length = (nr - 1) * nt ∧
    (∀ n, n < nnodes2 nr nt → ∃ e ∈ conn2 nr nt, n ∈ e) ∧
    -- 3-D
    (∀ e, e ∈ conn3 nr nt nz ↔ ∃ i j k, i < nr - 1 ∧ j < nt ∧ k < nz - 1 ∧
        e = [node3 nt nz (i + 1) ((j + 1) % nt) k, node3 nt nz i ((j + 1) % nt) k,
             node3 nt nz (i + 1) ((j + 1) % nt) (k + 1), node3 nt nz (i + 1) j k,
             node3 nt nz i ((j + 1) % nt) (k + 1), node3 nt nz i j k,
             node3 nt nz (i + 1) j (k + 1), node3 nt nz i j (k + 1)]) ∧
    (∀ e ∈ conn3 nr nt nz, ∀ v ∈ e, v < nnodes3 nr nt nz) ∧
    (conn3 nr nt nz).Nodup ∧
    (conn3 nr nt nz).length = (nr - 1) * nt * (nz - 1) ∧
    (∀ n, n < nnodes3 nr nt nz → ∃ e ∈ conn3 nr nt nz, n ∈ e) := by
  refine ⟨?_, ?_, conn2_nodup nr nt, conn2_length nr nt, ?_, ?_, ?_, conn3_nodup nr nt nz,
    conn3_length nr nt nz, ?_⟩
  · intro e; rw [mem_conn2]; rfl
  · intro e he v hv
    obtain ⟨i, j, hi, hj, rfl⟩ := mem_conn2.1 he
    exact quad_vertex_lt hi hj hv
  · intro n hn
    obtain ⟨i, j, hi, hj, rfl⟩ := node2_surj hn
    exact node2_used hnr hi hj
  · intro e; rw [mem_conn3]
    constructor
    · rintro ⟨i, j, k, hi, hj, hk, rfl⟩; exact ⟨i, j, k, hi, hj, hk, hex_eq hj⟩
    · rintro ⟨i, j, k, hi, hj, hk, rfl⟩; exact ⟨i, j, k, hi, hj, hk, (hex_eq hj).symm⟩
  · intro e he v hv
    obtain ⟨i, j, k, hi, hj, hk, rfl⟩ := mem_conn3.1 he
    exact hex_vertex_lt hi hj hk hv
  · intro n hn
    obtain ⟨i, j, k, hi, hj, hk, rfl⟩ := node3_surj hn
    exact node3_used hnr hnz hi hj hk

/-- **pressure_facets_spec.** For all `nr ≥ 2`, `nt ≥ 3` (and any `nz`): the facets selected by the
rule of `define_boundary` (boundary facet ∧ all vertices on the inner radius) are exactly the
inner-surface facets `{(0,j),(0,j+1 mod nt)}` (2-D) and
`{(0,j,k),(0,j+1 mod nt,k),(0,j,k+1),(0,j+1 mod nt,k+1)}` (3-D), each once (equality of lists, in
element order).  Every vertex of an inner-surface facet has radial index 0; every inner-surface
facet is a boundary facet; a loaded face of element `(i,j,k)` is the inner face of an element of
the first ring, and the outer face, both end faces and both circumferential faces of **every**
element are unloaded. -/
theorem pressure_facets_spec (nr nt nz : Nat) (hnr : 2 ≤ nr) (hnt : 3 ≤ nt) :
    pressureFacets2 nr nt = innerFacets2 nt ∧
    pressureFacets3 nr nt nz = innerFacets3 nt nz ∧
    (∀ j, j < nt → ∀ v ∈ innerFacet2 nt j, radIdx nt v = 0) ∧
    (∀ j k, j < nt → k + 1 < nz → ∀ v ∈ innerFacet3 nt nz j k, radIdx (nt * nz) v = 0) ∧
    (∀ j, j < nt → isBoundary (conn2 nr nt) quadFacets (innerFacet2 nt j) = true) ∧
    (∀ j k, j < nt → k + 1 < nz → isBoundary (conn3 nr nt nz) hexFacets (innerFacet3 nt nz j k) = true) ∧
    (∀ i j f, j < nt → f ∈ quadFacets (quad nt i j) →
        (loaded (conn2 nr nt) quadFacets nt f = true ↔ i = 0 ∧ f = innerFacet2 nt j)) ∧
    (∀ i j k f, j < nt → k + 1 < nz → f ∈ hexFacets (hex nt nz i j k) →
        (loaded (conn3 nr nt nz) hexFacets (nt * nz) f = true ↔ i = 0 ∧ f = innerFacet3 nt nz j k)) ∧
    (∀ i j k, 0 < nz →
        -- outer face, bottom end face, top end face
        loaded (conn3 nr nt nz) hexFacets (nt * nz) (hexFacets (hex nt nz i j k))[1]! = false ∧
        loaded (conn3 nr nt nz) hexFacets (nt * nz) (hexFacets (hex nt nz i j k))[2]! = false ∧
        loaded (conn3 nr nt nz) hexFacets (nt * nz) (hexFacets (hex nt nz i j k))[3]! = false) := by
  refine ⟨pressureFacets2_eq hnr hnt, pressureFacets3_eq hnr hnt, ?_, ?_,
    fun j hj => innerFacet2_boundary hnr hnt hj, fun j k hj hk => innerFacet3_boundary hnr hnt hj hk,
    fun i j f hj hf => loaded2_iff hnr hnt hj hf, fun i j k f hj hk hf => loaded3_iff hnr hnt hj hk hf, ?_⟩
  · intro j hj v hv
    have := innerFacet2_lt hj hv
    unfold radIdx; exact Nat.div_eq_of_lt this
  · intro j k hj hk v hv
    have := innerFacet3_lt hj hk hv
    unfold radIdx; exact Nat.div_eq_of_lt this
  · intro i j k hz
    have h := hex_other_faces_unloaded (nr := nr) (nt := nt) (nz := nz) (i := i) (j := j) (k := k) (by omega) hz
    exact ⟨h _ (by simp), h _ (by simp), h _ (by simp)⟩

/-- **end_faces_unloaded.** Written out with their vertices: the bottom end face (axial index `k`),
the top end face (axial index `k+1`) and the outer face (radial index `i+1`) of every element
`(i,j,k)` are not loaded, for every mesh size. -/
theorem end_faces_unloaded (nr nt nz i j k : Nat) (hnt : 0 < nt) (hnz : 0 < nz) :
    loaded (conn3 nr nt nz) hexFacets (nt * nz)
      [mapper nt nz (i + 1) (j + 1) k, mapper nt nz (i + 1) j k, mapper nt nz i j k, mapper nt nz i (j + 1) k] = false ∧
    loaded (conn3 nr nt nz) hexFacets (nt * nz)
      [mapper nt nz (i + 1) (j + 1) (k + 1), mapper nt nz i (j + 1) (k + 1), mapper nt nz i j (k + 1),
        mapper nt nz (i + 1) j (k + 1)] = false ∧
    loaded (conn3 nr nt nz) hexFacets (nt * nz)
      [mapper nt nz (i + 1) (j + 1) k, mapper nt nz (i + 1) (j + 1) (k + 1), mapper nt nz (i + 1) j (k + 1),
        mapper nt nz (i + 1) j k] = false := by
  have h := hex_other_faces_unloaded (nr := nr) (nt := nt) (nz := nz) (i := i) (j := j) (k := k) hnt hnz
  obtain ⟨e2, e3, e1⟩ := hex_faces_named nt nz i j k
  exact ⟨e2 ▸ h _ (by simp), e3 ▸ h _ (by simp), e1 ▸ h _ (by simp)⟩

/-! ### pressure load -/

/-- **pressure_load_1d.** The 1-D load vector is `p` at node 0 and zero at every other node. -/
theorem pressure_load_1d (nr : Nat) (p : ℝ) :
    ∀ i, i < nr → (load1 nr p)[i]? = some (if i = 0 then p else 0) :=
  fun i hi => load1_spec nr p i hi

/-- **consistent_load_resultant.** Whatever the quadrature (`wq`) and the facet shape functions `N`
(they sum to one at every quadrature point), the nodal loads `Σ_q w_q (−p n) N_a(q)` of a flat
facet with normal component `n` add up to `−p·n·(Σ_q w_q) = −p·n·area`. -/
theorem consistent_load_resultant {ι κ : Type} [Fintype ι] [Fintype κ] (N : ι → κ → ℝ) (wq : κ → ℝ)
    (p n : ℝ) (hN : ∀ q, ∑ a, N a q = 1) :
    ∑ a, ∑ q, wq q * (-(p * n)) * N a q = -(p * n) * ∑ q, wq q := by
  rw [Finset.sum_comm]
  simp_rw [← Finset.mul_sum, hN, mul_one]
  rw [← Finset.sum_mul]; ring

/-- **pressure_normal_spec.** The normal used for the inner-surface facet with mid-angle `a`
(vertices at `a ∓ δ` on the circle of radius `r`) is a unit vector, horizontal, orthogonal to the
chord, and points from the chord midpoint to the axis (out of the solid, for `r cos δ > 0`); the
chord has length `chord r δ = 2 r sin δ` along `(−sin a, cos a)`. -/
theorem pressure_normal_spec (r a δ : ℝ) :
    (innerNormal a).1 ^ 2 + (innerNormal a).2.1 ^ 2 = 1 ∧ (innerNormal a).2.2 = 0 ∧
    (innerNormal a).1 * (r * Real.cos (a + δ) - r * Real.cos (a - δ))
      + (innerNormal a).2.1 * (r * Real.sin (a + δ) - r * Real.sin (a - δ)) = 0 ∧
    (innerNormal a).1 * ((r * Real.cos (a + δ) + r * Real.cos (a - δ)) / 2)
      + (innerNormal a).2.1 * ((r * Real.sin (a + δ) + r * Real.sin (a - δ)) / 2) = -(r * Real.cos δ) ∧
    r * Real.cos (a + δ) - r * Real.cos (a - δ) = chord r δ * (-Real.sin a) ∧
    r * Real.sin (a + δ) - r * Real.sin (a - δ) = chord r δ * Real.cos a := by
  obtain ⟨h1, h2, h3, h4⟩ := innerNormal_spec r a δ
  exact ⟨h1, h2, h3, h4, (chord_vector r a δ).1, (chord_vector r a δ).2⟩

/-- **pressure_resultant.**
(1) The `m` vertex loads `−p·n·area/m` of a flat facet add up to `−p·area·n`; with the horizontal
inner-surface normal the axial component of every vertex load is zero and the resultant of the
facet has magnitude `p·area` (so the facet resultants add up to pressure × discretised inner area).
(2) The load at an inner-surface node at angle `θ` (from its two adjacent chords at mid-angles
`θ ∓ δ`, `δ = π/nt`, facet area `chord·w`) is `p·chord·w·cos δ` along `e_r(θ)`: radial projection
`p·chord·w·cos δ`, no tangential and no axial component.
(3) Summed over the `nt` nodes of the ring and the axial weights `w_k` (which add up to the
height `h` in 3-D; a single weight 1 in 2-D) the radial resultant is
`p × (nt·chord·h) × cos δ = pressure × discretised inner area × cos(π/nt)`. -/
theorem pressure_resultant (p ri δ : ℝ) :
    (∀ nx ny nz a m : ℝ, m ≠ 0 →
        m * (facetLoad p nx ny nz a m).1 = -(p * a) * nx ∧
        m * (facetLoad p nx ny nz a m).2.1 = -(p * a) * ny ∧
        m * (facetLoad p nx ny nz a m).2.2 = -(p * a) * nz) ∧
    (∀ a ar m : ℝ, (facetLoad p (innerNormal a).1 (innerNormal a).2.1 (innerNormal a).2.2 ar m).2.2 = 0) ∧
    (∀ a ar m : ℝ, m ≠ 0 →
        (m * (facetLoad p (innerNormal a).1 (innerNormal a).2.1 (innerNormal a).2.2 ar m).1) ^ 2 +
        (m * (facetLoad p (innerNormal a).1 (innerNormal a).2.1 (innerNormal a).2.2 ar m).2.1) ^ 2 +
        (m * (facetLoad p (innerNormal a).1 (innerNormal a).2.1 (innerNormal a).2.2 ar m).2.2) ^ 2 = (p * ar) ^ 2) ∧
    (∀ θ w : ℝ,
        (nodeLoad p ri δ θ w).1 * Real.cos θ + (nodeLoad p ri δ θ w).2.1 * Real.sin θ
          = p * (chord ri δ * w) * Real.cos δ ∧
        (nodeLoad p ri δ θ w).1 * (-Real.sin θ) + (nodeLoad p ri δ θ w).2.1 * Real.cos θ = 0 ∧
        (nodeLoad p ri δ θ w).2.2 = 0) ∧
    (∀ (nt nz : Nat) (θ : Nat → ℝ) (w : Nat → ℝ),
        ∑ j ∈ range nt, ∑ k ∈ range nz,
          ((nodeLoad p ri δ (θ j) (w k)).1 * Real.cos (θ j) + (nodeLoad p ri δ (θ j) (w k)).2.1 * Real.sin (θ j))
        = p * (nt * chord ri δ * ∑ k ∈ range nz, w k) * Real.cos δ) := by
  refine ⟨fun nx ny nz a m hm => facetLoad_resultant p nx ny nz a m hm, ?_, ?_,
    fun θ w => nodeLoad_radial p ri δ θ w, ?_⟩
  · intro a ar m; simp [facetLoad, innerNormal]
  · intro a ar m hm
    obtain ⟨h1, h2, h3⟩ := facetLoad_resultant p (innerNormal a).1 (innerNormal a).2.1 (innerNormal a).2.2 ar m hm
    rw [h1, h2, h3]
    have hn := (innerNormal_spec 0 a 0).1
    have hz := (innerNormal_spec 0 a 0).2.1
    rw [hz]
    linear_combination (p * ar) ^ 2 * hn
  · intro nt nz θ w
    simp_rw [(nodeLoad_radial p ri δ _ _).1]
    rw [Finset.sum_const, card_range, nsmul_eq_mul, Finset.mul_sum, Finset.mul_sum, Finset.mul_sum,
      Finset.sum_mul]
    apply Finset.sum_congr rfl
    intro k _; ring

/-! ### the closed form -/

/-- **lame_equilibrium.** For `0 < r_i < r_o`: `σ_r(r_i) = −p`, `σ_r(r_o) = 0`, and at every `r ≠ 0`
`dσ_r/dr + (σ_r − σ_θ)/r = 0`, with `dsr` the true derivative of `σ_r`. -/
theorem lame_equilibrium (P : Prm ℝ) (hri : 0 < P.ri) (hro : P.ri < P.ro) :
    P.sr P.ri = -P.p ∧ P.sr P.ro = 0 ∧
    (∀ r, r ≠ 0 → HasDerivAt P.sr (P.dsr r) r) ∧
    (∀ r, r ≠ 0 → P.dsr r + (P.sr r - P.st r) / r = 0) ∧
    (∀ r, r ≠ 0 → r * P.dsr r = P.st r - P.sr r) ∧
    (∀ r, r ≠ 0 → deriv P.sr r + (P.sr r - P.st r) / r = 0) := by
  have hw : P.ro * P.ro - P.ri * P.ri ≠ 0 := by nlinarith
  exact ⟨sr_inner P hw (by linarith), sr_outer P hw (by linarith), sr_hasDerivAt P, equilibrium P,
    equilibrium_alg P, equilibrium_deriv P⟩

/-- **lame_compatibility.** With the strains given by Hooke's law (thermal strain `αΔT` included):
the axial strain is the imposed `ε_z`, `ε_θ = u/r` and `ε_r = du/dr` for `u = r ε_θ` — the three
stresses derive from one displacement field. -/
theorem lame_compatibility (P : Prm ℝ) (hE : P.E ≠ 0) :
    (∀ r, (P.sz r - P.nu * (P.sr r + P.st r)) / P.E + P.al * P.dT = P.ez) ∧
    (∀ r, r ≠ 0 → P.et r = P.u r / r) ∧
    (∀ r, r ≠ 0 → HasDerivAt P.u (P.er r) r) :=
  ⟨fun r => hooke_z P r hE, et_eq_u_div P, fun r hr => u_hasDerivAt P r hr hE⟩

/-- **lame_axial_force.** `σ_z` is uniform over the wall; the axial force
`F = π(r_o² − r_i²)·σ̄_z = π(r_o² − r_i²)E(ε_z − αΔT) + 2νπ p r_i²` is `G(r_o) − G(r_i)` for the
antiderivative `G(r) = π r² σ̄_z` of `2πr σ_z(r)`; and `dF/dd = π(r_o² − r_i²)E/h` for `ε_z = d/h`. -/
theorem lame_axial_force (P : Prm ℝ) (pi h : ℝ) (hri : 0 < P.ri) (hro : P.ri < P.ro) :
    (∀ r, P.sz r = P.szbar) ∧
    P.force pi = pi * (P.ro * P.ro - P.ri * P.ri) * (P.E * (P.ez - P.al * P.dT))
      + 2 * P.nu * pi * P.p * (P.ri * P.ri) ∧
    (∀ r, HasDerivAt (fun x => pi * (x * x) * P.szbar) (2 * pi * r * P.sz r) r) ∧
    P.force pi = pi * (P.ro * P.ro) * P.szbar - pi * (P.ri * P.ri) * P.szbar ∧
    (∀ d, HasDerivAt (fun x => ({ P with ez := x / h } : Prm ℝ).force pi) (P.stiffness pi h) d) := by
  have hw : P.ro * P.ro - P.ri * P.ri ≠ 0 := by nlinarith
  exact ⟨sz_uniform P, force_closed P pi hw, (force_is_integral P pi).1, (force_is_integral P pi).2,
    stiffness_is_dforce P pi h⟩

/-! ### non-vacuity -/

example : conn2 3 4 = [[0, 1, 5, 4], [1, 2, 6, 5], [2, 3, 7, 6], [3, 0, 4, 7],
    [4, 5, 9, 8], [5, 6, 10, 9], [6, 7, 11, 10], [7, 4, 8, 11]] := by decide
example : hex 4 3 0 3 1 = [13, 1, 14, 22, 2, 10, 23, 11] := by decide
example : pressureFacets2 3 4 = [[0, 1], [1, 2], [2, 3], [3, 0]] := by decide
example : pressureFacets3 2 3 2 = [[2, 0, 1, 3], [4, 2, 3, 5], [0, 4, 5, 1]] := by decide
example : innerFacets3 3 2 = [[2, 0, 1, 3], [4, 2, 3, 5], [0, 4, 5, 1]] := by decide
/-- the hypotheses of `pressure_facets_spec` / `conn_wellformed` are satisfiable -/
example : pressureFacets3 2 3 2 = innerFacets3 3 2 := (pressure_facets_spec 2 3 2 (by omega) (by omega)).2.1
example : (conn3 2 3 2).length = 3 := (conn_wellformed 2 3 2 (by omega) (by omega) (by omega)).2.2.2.2.2.2.2.2.1
/-- the hypothesis `nt ≥ 3` of `pressure_facets_spec` is needed: with two circumferential nodes the
two inner edges coincide as vertex sets and neither is a boundary facet -/
example : pressureFacets2 2 2 = [] ∧ innerFacets2 2 = [[0, 1], [1, 0]] := by decide

/-- a thick tube `r_i = 1`, `r_o = 2`, `p = 3`: `σ_r(1) = −3`, `σ_θ(1) = 5`, `σ_r(2) = 0` -/
example : (⟨1, 2, 3, 10, 1/4, 0, 0, 0⟩ : Prm ℝ).sr 1 = -3 ∧ (⟨1, 2, 3, 10, 1/4, 0, 0, 0⟩ : Prm ℝ).st 1 = 5
    ∧ (⟨1, 2, 3, 10, 1/4, 0, 0, 0⟩ : Prm ℝ).sr 2 = 0 := by
  simp only [Prm.sr, Prm.st, Prm.cA, Prm.cB]; norm_num
/-- the hypotheses `0 < r_i < r_o` are satisfiable and give a non-trivial force -/
example : (⟨1, 2, 3, 10, 1/4, 0, 0, 1/10⟩ : Prm ℝ).force 1 = 9 / 2 := by
  simp only [Prm.force, Prm.area, Prm.szbar, Prm.cA]; norm_num
example : load1 3 (5 : ℝ) = [5, 0, 0] := by simp [load1, List.range_succ]

/-! ### thermo-elastic closed form with an arbitrary radial temperature profile -/

section thermal
open SrModel.LameThermal

/-- **thermal_boundary.** For any moment `I` with `I(r_i) = 0` both surfaces are traction-free:
`σ_r(r_i) = 0` and `σ_r(r_o) = 0`. -/
theorem thermal_boundary (P : TPrm ℝ) (I : ℝ → ℝ) (hri : 0 < P.ri) (hro : P.ri < P.ro)
    (hI0 : I P.ri = 0) :
    SrModel.LameThermal.sr P I P.ri = 0 ∧ SrModel.LameThermal.sr P I P.ro = 0 := by
  have hw : w P ≠ 0 := by unfold w; nlinarith
  exact ⟨SrModel.LameThermal.sr_inner P I hI0, SrModel.LameThermal.sr_outer P I hw (by linarith)⟩

/-- **thermal_equilibrium.** For an ARBITRARY profile `T` with moment `I` (`I' = r·T`): `dsr` is the
true derivative of `σ_r` and `r dσ_r/dr + σ_r − σ_θ = 0` at every `r ≠ 0`. -/
theorem thermal_equilibrium (P : TPrm ℝ) (T I : ℝ → ℝ) (hri : 0 < P.ri) (hro : P.ri < P.ro)
    (hI : ∀ r, r ≠ 0 → HasDerivAt I (r * T r) r) :
    ∀ r, r ≠ 0 → HasDerivAt (SrModel.LameThermal.sr P I) (SrModel.LameThermal.dsr P T I r) r ∧
      r * SrModel.LameThermal.dsr P T I r + SrModel.LameThermal.sr P I r
        - SrModel.LameThermal.st P T I r = 0 := by
  have hw : w P ≠ 0 := by unfold w; nlinarith
  intro r hr
  exact ⟨SrModel.LameThermal.sr_hasDerivAt P T I r hr hw (hI r hr),
    SrModel.LameThermal.equilibrium_alg P T I r hr hw⟩

/-- **thermal_compatibility.** With Hooke's law including the thermal strain `αT(r)`: the axial strain
is the imposed `ε_z`, `ε_θ = u/r`, and `ε_r = du/dr` for `u = r ε_θ` (only `I' = r·T` is used, `T`
itself need not be differentiable). -/
theorem thermal_compatibility (P : TPrm ℝ) (T I : ℝ → ℝ) (hri : 0 < P.ri) (hro : P.ri < P.ro)
    (hE : P.E ≠ 0) (hnu : P.nu ≠ 1) (hI : ∀ r, r ≠ 0 → HasDerivAt I (r * T r) r) :
    (∀ r, (SrModel.LameThermal.sz P T I r
        - P.nu * (SrModel.LameThermal.sr P I r + SrModel.LameThermal.st P T I r)) / P.E
        + P.al * T r = P.ez) ∧
    (∀ r, r ≠ 0 → SrModel.LameThermal.et P T I r = SrModel.LameThermal.u P T I r / r) ∧
    (∀ r, r ≠ 0 → HasDerivAt (SrModel.LameThermal.u P T I) (SrModel.LameThermal.er P T I r) r) := by
  have hw : w P ≠ 0 := by unfold w; nlinarith
  have hnu' : 1 - P.nu ≠ 0 := fun h => hnu (by linarith)
  exact ⟨fun r => SrModel.LameThermal.hooke_z P T I r hE, SrModel.LameThermal.et_eq_u_div P T I,
    fun r hr => SrModel.LameThermal.u_hasDerivAt P T I r hr hw hE hnu' (hI r hr)⟩

/-- **thermal_axial_force.** `G(r) = 2π((2νk I(r_o)/w + Eε_z) r²/2 − k I(r))` is an antiderivative of
`2πr σ_z(r)` and `G(r_o) − G(r_i) = π w E ε_z − 2π α E I(r_o)` is the model's `force`. -/
theorem thermal_axial_force (P : TPrm ℝ) (T I : ℝ → ℝ) (pi : ℝ) (hri : 0 < P.ri) (hro : P.ri < P.ro)
    (hnu : P.nu ≠ 1) (hI : ∀ r, r ≠ 0 → HasDerivAt I (r * T r) r) (hI0 : I P.ri = 0) :
    let G : ℝ → ℝ := fun r =>
      2 * pi * ((kfac P * 2 * P.nu * I P.ro / w P + P.E * P.ez) * r * r / 2 - kfac P * I r)
    (∀ r, r ≠ 0 → HasDerivAt G (2 * pi * r * SrModel.LameThermal.sz P T I r) r) ∧
    G P.ro - G P.ri = SrModel.LameThermal.force P I pi := by
  have hw : w P ≠ 0 := by unfold w; nlinarith
  have hnu' : 1 - P.nu ≠ 0 := fun h => hnu (by linarith)
  exact ⟨fun r hr => Gz_hasDerivAt P T I pi r hr hw hnu' (hI r hr), Gz_diff P I pi hw hnu' hI0⟩

/-- **thermal_uniform_is_lame.** For a uniform temperature change `T ≡ ΔT` (moment
`ΔT (r² − r_i²)/2`) the thermal field is `σ_r = σ_θ = 0`, `σ_z = E(ε_z − αΔT)`: exactly
`SrModel.Lame`'s closed form with `p = 0`. -/
theorem thermal_uniform_is_lame (P : TPrm ℝ) (dT : ℝ) (hri : 0 < P.ri) (hro : P.ri < P.ro) :
    let T : ℝ → ℝ := fun _ => dT
    let I : ℝ → ℝ := fun r => dT * (r * r - P.ri * P.ri) / 2
    let L : Prm ℝ := ⟨P.ri, P.ro, 0, P.E, P.nu, P.al, dT, P.ez⟩
    I P.ri = 0 ∧ (∀ r, HasDerivAt I (r * T r) r) ∧
    ∀ r, r ≠ 0 →
      SrModel.LameThermal.sr P I r = 0 ∧ SrModel.LameThermal.st P T I r = 0 ∧
      SrModel.LameThermal.sz P T I r = P.E * (P.ez - P.al * dT) ∧
      SrModel.LameThermal.sr P I r = L.sr r ∧ SrModel.LameThermal.st P T I r = L.st r ∧
      SrModel.LameThermal.sz P T I r = L.sz r := by
  have hw : w P ≠ 0 := by unfold w; nlinarith
  intro T I L
  refine ⟨by simp only [I]; ring, ?_, ?_⟩
  · intro r
    have h2 : HasDerivAt (fun x : ℝ => x * x) (1 * r + r * 1) r := (hasDerivAt_id' r).mul (hasDerivAt_id' r)
    have h : HasDerivAt (fun x : ℝ => dT * (x * x - P.ri * P.ri) / 2) _ r :=
      ((h2.sub_const (P.ri * P.ri)).const_mul dT).div_const 2
    exact h.congr_deriv (by simp only [T]; ring)
  · intro r hr
    have h1 : SrModel.LameThermal.sr P I r = 0 := uniform_sr P dT r hr hw
    have h2 : SrModel.LameThermal.st P T I r = 0 := uniform_st P dT r hr hw
    have h3 : SrModel.LameThermal.sz P T I r = P.E * (P.ez - P.al * dT) := by
      unfold SrModel.LameThermal.sz; rw [h1, h2]; simp only [T]; ring
    have l1 : L.sr r = 0 := by simp [L, Prm.sr, Prm.cA, Prm.cB]
    have l2 : L.st r = 0 := by simp [L, Prm.st, Prm.cA, Prm.cB]
    have l3 : L.sz r = P.E * (P.ez - P.al * dT) := by
      unfold Prm.sz; rw [l1, l2]; simp only [L]; ring
    exact ⟨h1, h2, h3, by rw [h1, l1], by rw [h2, l2], by rw [h3, l3]⟩

/-- **quadratic_moment.** `Iq` is the moment of the quadratic profile `Tq` from `r_i`:
`Iq(r_i) = 0` and `Iq' = r·Tq` everywhere, so the theorems above apply to the profile of the harness. -/
theorem quadratic_moment (ri c0 c1 c2 : ℝ) :
    Iq ri c0 c1 c2 ri = 0 ∧ ∀ r, HasDerivAt (Iq ri c0 c1 c2) (r * Tq c0 c1 c2 r) r :=
  ⟨Iq_inner ri c0 c1 c2, Iq_hasDerivAt ri c0 c1 c2⟩

/-- non-vacuity: `thermal_equilibrium` and `thermal_boundary` instantiated with the quadratic profile -/
example (P : TPrm ℝ) (c0 c1 c2 : ℝ) (hri : 0 < P.ri) (hro : P.ri < P.ro) (r : ℝ) (hr : r ≠ 0) :
    r * SrModel.LameThermal.dsr P (Tq c0 c1 c2) (Iq P.ri c0 c1 c2) r
      + SrModel.LameThermal.sr P (Iq P.ri c0 c1 c2) r
      - SrModel.LameThermal.st P (Tq c0 c1 c2) (Iq P.ri c0 c1 c2) r = 0 :=
  (thermal_equilibrium P (Tq c0 c1 c2) (Iq P.ri c0 c1 c2) hri hro
    (fun r _ => (quadratic_moment P.ri c0 c1 c2).2 r) r hr).2
example (c0 c1 c2 : ℝ) :
    SrModel.LameThermal.sr (⟨1, 2, 10, 1/4, 1/100, 0⟩ : TPrm ℝ) (Iq 1 c0 c1 c2) 1 = 0 ∧
    SrModel.LameThermal.sr (⟨1, 2, 10, 1/4, 1/100, 0⟩ : TPrm ℝ) (Iq 1 c0 c1 c2) 2 = 0 :=
  thermal_boundary (⟨1, 2, 10, 1/4, 1/100, 0⟩ : TPrm ℝ) (Iq 1 c0 c1 c2) (by norm_num) (by norm_num)
    (quadratic_moment 1 c0 c1 c2).1

/-- **thermal_superposition.** The SUM of the pressure field of `SrModel.Lame` (`ΔT = 0`, same radii)
and the thermal field: `σ_r(r_i) = −p`, `σ_r(r_o) = 0`, and with the true derivative
`r dσ_r/dr + σ_r − σ_θ = 0` at every `r ≠ 0`. -/
theorem thermal_superposition (P : TPrm ℝ) (L : Prm ℝ) (T I : ℝ → ℝ) (hLi : L.ri = P.ri) (hLo : L.ro = P.ro)
    (hri : 0 < P.ri) (hro : P.ri < P.ro)
    (hI : ∀ r, r ≠ 0 → HasDerivAt I (r * T r) r) (hI0 : I P.ri = 0) :
    L.sr P.ri + SrModel.LameThermal.sr P I P.ri = -L.p ∧
    L.sr P.ro + SrModel.LameThermal.sr P I P.ro = 0 ∧
    ∀ r, r ≠ 0 →
      HasDerivAt (fun x => L.sr x + SrModel.LameThermal.sr P I x)
        (L.dsr r + SrModel.LameThermal.dsr P T I r) r ∧
      r * (L.dsr r + SrModel.LameThermal.dsr P T I r)
        + (L.sr r + SrModel.LameThermal.sr P I r)
        - (L.st r + SrModel.LameThermal.st P T I r) = 0 := by
  have hb := thermal_boundary P I hri hro hI0
  have hLw : L.ro * L.ro - L.ri * L.ri ≠ 0 := by rw [hLi, hLo]; nlinarith
  have h1 := SrModel.Lame.sr_inner L hLw (by rw [hLi]; linarith)
  have h2 := SrModel.Lame.sr_outer L hLw (by rw [hLo]; linarith)
  rw [hLi] at h1; rw [hLo] at h2
  refine ⟨by rw [h1, hb.1]; ring, by rw [h2, hb.2]; ring, ?_⟩
  intro r hr
  have he := thermal_equilibrium P T I hri hro hI r hr
  refine ⟨(SrModel.Lame.sr_hasDerivAt L r hr).add he.1, ?_⟩
  linear_combination SrModel.Lame.equilibrium_alg L r hr + he.2

end thermal

end SrProps.C03
