import SrProofs.Interp
import Mathlib.Data.Rat.Floor

/-!
# C19 — boundary-condition objects interpolate their data faithfully and validate shapes

Model: `SrModel.Interp`.  All numeric theorems hold over **every** linearly ordered field `K`
(ℚ, ℝ, …), for **every** strictly increasing grid of times, angles and heights of any size (so in
particular for `θ_j = 2πj/nt`, `z_k = k·h/(nz-1)` and for the binary64 grid numpy actually builds),
every data array and every query point.  `fl` is the floor function of `K` (hypothesis `IsFloor`),
`twoPi` any positive period.

Objects: `thermalBase` = `HeatFluxBC.flux` / `FixedTempBC.temperature` (θ grid closed at `2π`,
angle wrapped), `rgi2` = `ConvectiveBC.fluid_temperature`, `interp1` = `PressureBC.pressure`,
`FilmCoefficientConvectiveBC.fluid_temperature/film_coefficient`; `makeIfn` = `_make_ifn`.
-/
set_option linter.unusedSectionVars false

namespace SrProps.C19
open SrModel.Interp

section field
variable {K : Type} [Field K] [LinearOrder K] [IsStrictOrderedRing K]

/-! ## the datum at grid points -/

/-- **grid_exact** (flux, fixed temperature): at grid time `a`, grid angle `b`, grid height `c` the
interpolant returns the stored datum `d a b c`. -/
theorem grid_exact {fl : K → Int} (hfl : IsFloor fl) {twoPi : K} {gt gθ gz : List K}
    (ht : gt.Pairwise (· < ·)) (hθ : (gθ ++ [twoPi]).Pairwise (· < ·)) (hz : gz.Pairwise (· < ·))
    (h0 : 0 ≤ nth gθ 0) (d : Nat → Nat → Nat → K) {a b c : Nat}
    (ha : a < gt.length) (hb : b < gθ.length) (hc : c < gz.length) :
    thermalBase fl twoPi gt gθ gz d (nth gt a) (nth gθ b) (nth gz c) = d a b c := by
  obtain ⟨hb0, hb1⟩ := closed_grid_facts hθ h0 hb
  have hp : 0 < twoPi := lt_of_le_of_lt hb0 hb1
  unfold thermalBase
  rw [wrap_id hfl hp hb0 hb1, rgi3_eq_grid3, ← nth_append_left gθ twoPi hb,
    grid3_exact (strictGrid_of_pairwise ht) (strictGrid_of_pairwise hθ) (strictGrid_of_pairwise hz)
      _ ha (by simp; omega) hc]
  simp [closeCol, Nat.ne_of_lt hb]

/-- the hypotheses on the angular and axial grids hold for the grids of the code,
`θ_j = 2πj/nt` (`j < nt`, closed at `2π`) and `z_k = k·h/(nz−1)` (`k < nz`), for every `nt ≥ 1`, `nz ≥ 2` -/
theorem documented_grids_ok {twoPi h : K} (hp : 0 < twoPi) (hh : 0 < h) {nt nz : Nat}
    (hnt : 0 < nt) (hnz : 2 ≤ nz) :
    (linGrid twoPi nt nt ++ [twoPi]).Pairwise (· < ·) ∧ nth (linGrid twoPi nt nt) 0 = 0 ∧
    (linGrid h nz (nz - 1)).Pairwise (· < ·) ∧
    (linGrid twoPi nt nt).length = nt ∧ (linGrid h nz (nz - 1)).length = nz :=
  ⟨thetaGrid_closed_pairwise hp hnt, linGrid_zero hnt, linGrid_pairwise hh nz (by omega),
   linGrid_length _ _ _, linGrid_length _ _ _⟩

/-- **grid_exact** on the documented grid: at time `gt[a]`, angle `2πb/nt`, height `c·h/(nz−1)` the
flux / fixed-temperature interpolant returns `d a b c`, for all grid sizes. -/
theorem grid_exact_documented {fl : K → Int} (hfl : IsFloor fl) {twoPi h : K} (hp : 0 < twoPi) (hh : 0 < h)
    {gt : List K} (ht : gt.Pairwise (· < ·)) {nt nz : Nat} (hnz : 2 ≤ nz)
    (d : Nat → Nat → Nat → K) {a b c : Nat} (ha : a < gt.length) (hb : b < nt) (hc : c < nz) :
    thermalBase fl twoPi gt (linGrid twoPi nt nt) (linGrid h nz (nz - 1)) d
      (nth gt a) (twoPi * (b : K) / (nt : K)) (h * (c : K) / ((nz - 1 : Nat) : K)) = d a b c := by
  have hnt : 0 < nt := by omega
  obtain ⟨g1, g2, g3, g4, g5⟩ := documented_grids_ok hp hh hnt hnz
  have := grid_exact hfl ht g1 g3 (le_of_eq g2.symm) d ha (b := b) (c := c) (by omega) (by omega)
  rwa [nth_linGrid _ hb, nth_linGrid _ hc] at this

/-- **grid_exact** (convective fluid temperature on `(times, z)`). -/
theorem grid_exact_convective {gt gz : List K} (ht : gt.Pairwise (· < ·)) (hz : gz.Pairwise (· < ·))
    (d : Nat → Nat → K) {a c : Nat} (ha : a < gt.length) (hc : c < gz.length) :
    rgi2 gt gz d (nth gt a) (nth gz c) = d a c := by
  rw [rgi2_eq_grid2]
  exact grid2_exact (strictGrid_of_pairwise ht) (strictGrid_of_pairwise hz) d ha hc

/-- **grid_exact** (pressure; film-coefficient kind): `interp1d` returns the datum and does not raise. -/
theorem grid_exact_1d {g : List K} (hg : g.Pairwise (· < ·)) (ys : List K) {k : Nat}
    (hk : k < g.length) : interp1 g ys (nth g k) = some (nth ys k) :=
  interp1_exact (strictGrid_of_pairwise hg) ys hk

/-! ## in between: a convex combination of the corner data -/

/-- **cell_contains.** Inside the grid range the cell the interpolant uses contains the query point
and its weights `1-y`, `y` are in `[0,1]` (so the `2ᵈ` products in `rgi2`/`rgi3` are ≥ 0). -/
theorem cell_contains {g : List K} (hg : g.Pairwise (· < ·)) (hn : 2 ≤ g.length) {x : K}
    (h0 : nth g 0 ≤ x) (h1 : x ≤ nth g (g.length - 1)) :
    cellGrid g x + 1 < g.length ∧ nth g (cellGrid g x) ≤ x ∧ x ≤ nth g (cellGrid g x + 1) ∧
      0 ≤ normDist g (cellGrid g x) x ∧ normDist g (cellGrid g x) x ≤ 1 := by
  obtain ⟨a, b, c⟩ := cellGrid_spec hn h0 h1
  obtain ⟨y0, y1⟩ := normDist_mem b c (strictGrid_of_pairwise hg _ _ (by omega) a)
  exact ⟨a, b, c, y0, y1⟩

/-- the eight weights of `rgi3` sum to one (whatever the normalised distances are) -/
theorem weights_sum_one (yt yθ yz : K) :
    (1 - yt) * (1 - yθ) * (1 - yz) + (1 - yt) * (1 - yθ) * yz + (1 - yt) * yθ * (1 - yz)
      + (1 - yt) * yθ * yz + yt * (1 - yθ) * (1 - yz) + yt * (1 - yθ) * yz
      + yt * yθ * (1 - yz) + yt * yθ * yz = 1 := by ring

/-- **between** (any three strictly increasing grids): inside the grid the value is the convex
combination (`rgi3` is by definition `Σ datum·weight` with the weights of `cell_contains`,
`weights_sum_one`) of the eight corner data of the cell, hence between any bounds on them. -/
theorem between {gt gθ gz : List K} (ht : gt.Pairwise (· < ·)) (hθ : gθ.Pairwise (· < ·))
    (hz : gz.Pairwise (· < ·)) (hnt : 2 ≤ gt.length) (hnθ : 2 ≤ gθ.length) (hnz : 2 ≤ gz.length)
    {t θ z : K} (ht0 : nth gt 0 ≤ t) (ht1 : t ≤ nth gt (gt.length - 1))
    (hθ0 : nth gθ 0 ≤ θ) (hθ1 : θ ≤ nth gθ (gθ.length - 1))
    (hz0 : nth gz 0 ≤ z) (hz1 : z ≤ nth gz (gz.length - 1))
    (d : Nat → Nat → Nat → K) {lo hi : K}
    (hc : ∀ da db dc : Nat, da ≤ 1 → db ≤ 1 → dc ≤ 1 →
      lo ≤ d (cellGrid gt t + da) (cellGrid gθ θ + db) (cellGrid gz z + dc) ∧
      d (cellGrid gt t + da) (cellGrid gθ θ + db) (cellGrid gz z + dc) ≤ hi) :
    lo ≤ rgi3 gt gθ gz d t θ z ∧ rgi3 gt gθ gz d t θ z ≤ hi := by
  rw [rgi3_eq_grid3]
  exact grid3_mem (strictGrid_of_pairwise ht) (strictGrid_of_pairwise hθ) (strictGrid_of_pairwise hz)
    hnt hnθ hnz ht0 ht1 hθ0 hθ1 hz0 hz1 d hc

/-- **between** for the flux / fixed-temperature objects: for **every** angle `θ` (it is wrapped
into the closed grid, which starts at `0`) and `t`, `z` inside their grids, the value lies between
any bounds on the eight corner data; the corners in the last θ-cell are columns `nt-1` and `0`
(`closeCol`). -/
theorem between_thermal {fl : K → Int} (hfl : IsFloor fl) {twoPi : K} {gt gθ gz : List K}
    (ht : gt.Pairwise (· < ·)) (hθ : (gθ ++ [twoPi]).Pairwise (· < ·)) (hz : gz.Pairwise (· < ·))
    (h0 : nth gθ 0 = 0) (hnt : 2 ≤ gt.length) (hnθ : 1 ≤ gθ.length) (hnz : 2 ≤ gz.length)
    {t z : K} (θ : K) (ht0 : nth gt 0 ≤ t) (ht1 : t ≤ nth gt (gt.length - 1))
    (hz0 : nth gz 0 ≤ z) (hz1 : z ≤ nth gz (gz.length - 1))
    (d : Nat → Nat → Nat → K) {lo hi : K}
    (hc : ∀ da db dc : Nat, da ≤ 1 → db ≤ 1 → dc ≤ 1 →
      lo ≤ closeCol gθ.length d (cellGrid gt t + da)
            (cellGrid (gθ ++ [twoPi]) (wrap fl twoPi θ) + db) (cellGrid gz z + dc) ∧
      closeCol gθ.length d (cellGrid gt t + da)
            (cellGrid (gθ ++ [twoPi]) (wrap fl twoPi θ) + db) (cellGrid gz z + dc) ≤ hi) :
    lo ≤ thermalBase fl twoPi gt gθ gz d t θ z ∧ thermalBase fl twoPi gt gθ gz d t θ z ≤ hi := by
  have hp : 0 < twoPi := (closed_grid_facts hθ (le_of_eq h0.symm) (by omega : 0 < gθ.length)).2.trans_le'
    (le_of_eq h0.symm)
  obtain ⟨w0, w1⟩ := wrap_mem hfl hp θ
  unfold thermalBase
  apply between ht hθ hz hnt (by simp; omega) hnz ht0 ht1 _ _ hz0 hz1 _ hc
  · rw [nth_append_left _ _ (by omega), h0]; exact w0
  · have : (gθ ++ [twoPi]).length - 1 = gθ.length := by simp
    rw [this, nth_append_last]; exact w1.le

/-- **between** (convective): four corners. -/
theorem between_convective {gt gz : List K} (ht : gt.Pairwise (· < ·)) (hz : gz.Pairwise (· < ·))
    (hnt : 2 ≤ gt.length) (hnz : 2 ≤ gz.length) {t z : K}
    (ht0 : nth gt 0 ≤ t) (ht1 : t ≤ nth gt (gt.length - 1))
    (hz0 : nth gz 0 ≤ z) (hz1 : z ≤ nth gz (gz.length - 1))
    (d : Nat → Nat → K) {lo hi : K}
    (hc : ∀ da dc : Nat, da ≤ 1 → dc ≤ 1 →
      lo ≤ d (cellGrid gt t + da) (cellGrid gz z + dc) ∧ d (cellGrid gt t + da) (cellGrid gz z + dc) ≤ hi) :
    lo ≤ rgi2 gt gz d t z ∧ rgi2 gt gz d t z ≤ hi := by
  rw [rgi2_eq_grid2]
  exact grid2_mem (strictGrid_of_pairwise ht) (strictGrid_of_pairwise hz) hnt hnz ht0 ht1 hz0 hz1 d hc

/-- **between** (pressure, film-coefficient kind): inside the data range `interp1d` does not raise and
returns a value between the two neighbouring data. -/
theorem between_1d {g : List K} (hg : g.Pairwise (· < ·)) (hn : 2 ≤ g.length) (ys : List K) {x : K}
    (h0 : nth g 0 ≤ x) (h1 : x ≤ nth g (g.length - 1)) {lo hi : K}
    (hl : lo ≤ nth ys (cellLeft g x) ∧ nth ys (cellLeft g x) ≤ hi)
    (hr : lo ≤ nth ys (cellLeft g x + 1) ∧ nth ys (cellLeft g x + 1) ≤ hi) :
    ∃ v, interp1 g ys x = some v ∧ lo ≤ v ∧ v ≤ hi ∧
      cellLeft g x + 1 < g.length ∧ nth g (cellLeft g x) ≤ x ∧ x ≤ nth g (cellLeft g x + 1) := by
  have hs := strictGrid_of_pairwise hg
  obtain ⟨a, b, c⟩ := cellLeft_spec hs hn h0 h1
  obtain ⟨y0, y1⟩ := normDist_mem b c (hs _ _ (by omega) a)
  obtain ⟨m0, m1⟩ := lerp_mem y0 y1 hl.1 hl.2 hr.1 hr.2
  exact ⟨_, interp1_eq_lerp hs hn ys h0 h1, m0, m1, a, b, c⟩

/-- outside the data range `interp1d` raises (`bounds_error`), it never extrapolates -/
theorem out_of_range_raises_1d (g ys : List K) {x : K}
    (h : x < nth g 0 ∨ nth g (g.length - 1) < x) : interp1 g ys x = none := by
  unfold interp1; rw [if_pos h]

/-! ## periodicity in the angle -/

/-- **theta_periodic.** The value at `θ + n·2π` equals the value at `θ`, for every integer `n`,
every `θ` (also negative), every `t`, `z` (also outside their grids). -/
theorem theta_periodic {fl : K → Int} (hfl : IsFloor fl) {twoPi : K} (hp : 0 < twoPi)
    (gt gθ gz : List K) (d : Nat → Nat → Nat → K) (t θ z : K) (n : Int) :
    thermalBase fl twoPi gt gθ gz d t (θ + (n : K) * twoPi) z = thermalBase fl twoPi gt gθ gz d t θ z := by
  unfold thermalBase; rw [wrap_add_int hfl hp]

/-- the seam: the value at `2π` is the value at `0` (no extrapolation past the last column) -/
theorem theta_seam {fl : K → Int} (hfl : IsFloor fl) {twoPi : K} (hp : 0 < twoPi)
    (gt gθ gz : List K) (d : Nat → Nat → Nat → K) (t z : K) :
    thermalBase fl twoPi gt gθ gz d t twoPi z = thermalBase fl twoPi gt gθ gz d t 0 z := by
  have := theta_periodic hfl hp gt gθ gz d t 0 z 1
  simpa using this

/-- **theta_last_cell.** For `θ` in the last cell `[θ_{nt-1}, 2π)` the value is the linear
interpolation, with weight `y = (θ − θ_{nt-1}) / (2π − θ_{nt-1})`, between the `(t,z)`-interpolants
of column `nt-1` and of column `0`. -/
theorem theta_last_cell {fl : K → Int} (hfl : IsFloor fl) {twoPi : K} {gt gθ gz : List K}
    (hθ : (gθ ++ [twoPi]).Pairwise (· < ·)) (hnθ : 1 ≤ gθ.length)
    (d : Nat → Nat → Nat → K) (t z : K) {θ : K} (h0 : 0 ≤ θ)
    (hl : nth gθ (gθ.length - 1) ≤ θ) (hr : θ < twoPi) :
    thermalBase fl twoPi gt gθ gz d t θ z =
      rgi2 gt gz (fun a c => d a (gθ.length - 1) c) t z
          * (1 - (θ - nth gθ (gθ.length - 1)) / (twoPi - nth gθ (gθ.length - 1)))
      + rgi2 gt gz (fun a c => d a 0 c) t z
          * ((θ - nth gθ (gθ.length - 1)) / (twoPi - nth gθ (gθ.length - 1))) := by
  have hp : 0 < twoPi := lt_of_le_of_lt h0 hr
  have hs := strictGrid_of_pairwise hθ
  have e1 : gθ.length - 1 + 1 = gθ.length := by omega
  have hcell : cellGrid (gθ ++ [twoPi]) θ = gθ.length - 1 := by
    apply cellGrid_of_mem hs (by simp; omega)
    · rw [nth_append_left _ _ (by omega)]; exact hl
    · rw [e1, nth_append_last]; exact hr
  unfold thermalBase
  rw [wrap_id hfl hp h0 hr, rgi3_eq_grid3, grid3_theta_outer, rgi2_eq_grid2, rgi2_eq_grid2]
  unfold lin1
  rw [hcell]
  unfold lerpCell normDist
  rw [e1, nth_append_last, nth_append_left _ _ (by omega)]
  beta_reduce
  have c1 : (fun a c => closeCol gθ.length d a (gθ.length - 1) c) = fun a c => d a (gθ.length - 1) c := by
    funext a c
    have : gθ.length - 1 ≠ gθ.length := by omega
    simp [closeCol, this]
  have c2 : (fun a c => closeCol gθ.length d a gθ.length c) = fun a c => d a 0 c := by
    funext a c; simp [closeCol]
  rw [c1, c2]

/-! ## scalar and array arguments -/

/-- **scalar_single.** Scalar arguments give exactly one value, `base` at those arguments. -/
theorem scalar_single {K : Type} [OfNat K 0] (base : List K → K) (xs : List K) :
    makeIfn base (xs.map Arg.scalar) = .single (base xs) := by
  unfold makeIfn
  rw [if_pos (all_scalar_map xs), elem_map_scalar]

/-- **vector_is_map.** With at least one array argument (the *some-scalar* and the *all-array*
branches of `_make_ifn` alike), all array arguments having the shape `s`, the result is an array of
shape `s` whose `i`-th element (C order) is `base` at the `i`-th elements of the arguments, scalars
being repeated — which is exactly the single value the scalar query at those arguments returns. -/
theorem vector_is_map {K : Type} [OfNat K 0] (base : List K → K) {args : List (Arg K)} {s : List Nat}
    (hne : args.all Arg.isScalar = false)
    (hs : ∀ a ∈ args, a.isScalar = true ∨ a.shape? = some s) :
    makeIfn base args = .array s ((List.range (size s)).map (fun i => base (args.map (Arg.elem i))))
    ∧ ∀ i, makeIfn base ((args.map (Arg.elem i)).map Arg.scalar) = .single (base (args.map (Arg.elem i))) := by
  refine ⟨?_, fun i => scalar_single base _⟩
  have hall : args.all (fun a => a.isScalar || a.shape? == some s) = true := by
    rw [List.all_eq_true]
    intro a ha
    rcases hs a ha with h | h
    · simp [h]
    · simp [h]
  unfold makeIfn
  rw [if_neg (by simp [hne]), findSome_shape hne hs]
  simp only [hall, if_true, vectorInterp]

/-- array queries of the `interp1d`-based objects (pressure, film-coefficient kind) are the
element-wise scalar queries; they raise iff some element raises. -/
theorem vector_is_map_1d (g ys : List K) (xs vs : List K) :
    interp1Arr g ys xs = some vs ↔ List.Forall₂ (fun x v => interp1 g ys x = some v) xs vs := by
  unfold interp1Arr
  induction xs generalizing vs with
  | nil => cases vs <;> simp
  | cons x xs ih =>
    cases vs with
    | nil =>
      simp only [List.mapM_cons, List.forall₂_nil_right_iff, reduceCtorEq, iff_false]
      cases interp1 g ys x <;> cases List.mapM (interp1 g ys) xs <;> simp
    | cons v vs =>
      simp only [List.mapM_cons, List.forall₂_cons, ← ih]
      cases interp1 g ys x <;> cases List.mapM (interp1 g ys) xs <;> simp

end field

/-! ## constructors accept exactly the documented shapes -/

/-- **shape_accept_iff** `HeatFluxBC(radius, height, nt, nz, times, data)`: accepted iff `times` is
one-dimensional, `data` has shape `(ntime, nt, nz)` (and there is at least one angular division). -/
theorem shape_accept_iff_heatflux (nt nz : Nat) (ts ds : List Nat) :
    ctorHeatFlux nt nz ts ds = .accept ↔ ∃ n, ts = [n] ∧ ds = [n, nt, nz] ∧ 0 < nt := by
  unfold ctorHeatFlux ctorSurface
  rcases ts with _ | ⟨n, rest⟩
  · simp
  · by_cases h1 : ds = [n, nt, nz] <;> by_cases h2 : rest = [] <;> by_cases h3 : nt = 0 <;>
      simp [h1, h2, h3] <;> first | omega | (split <;> simp)

/-- **shape_accept_iff** `FixedTempBC`: same test. -/
theorem shape_accept_iff_fixedtemp (nt nz : Nat) (ts ds : List Nat) :
    ctorFixedTemp nt nz ts ds = .accept ↔ ∃ n, ts = [n] ∧ ds = [n, nt, nz] ∧ 0 < nt :=
  shape_accept_iff_heatflux nt nz ts ds

/-- **shape_accept_iff** `ConvectiveBC(radius, height, nz, times, data)`: `data` of shape `(ntime, nz)`. -/
theorem shape_accept_iff_convective (nz : Nat) (ts ds : List Nat) :
    ctorConvective nz ts ds = .accept ↔ ∃ n, ts = [n] ∧ ds = [n, nz] := by
  unfold ctorConvective
  rcases ts with _ | ⟨n, rest⟩
  · simp
  · by_cases h1 : ds = [n, nz] <;> by_cases h2 : rest = [] <;> simp [h1, h2]

/-- **shape_accept_iff** `FilmCoefficientConvectiveBC(radius, height, nz, fluid_T, film)`:
both arrays of shape `(nz,)`, `nz ≥ 1`. -/
theorem shape_accept_iff_film (nz : Nat) (fs gs : List Nat) :
    ctorFilm nz fs gs = .accept ↔ fs = [nz] ∧ gs = [nz] ∧ 0 < nz := by
  unfold ctorFilm
  by_cases h1 : fs = [nz] <;> by_cases h2 : gs = [nz] <;> by_cases h3 : nz = 0 <;>
    simp [h1, h2, h3] <;> first | omega | (split <;> simp)

/-- **shape_accept_iff** `PressureBC(times, data)`: two one-dimensional arrays of the same non-zero length. -/
theorem shape_accept_iff_pressure (ts ds : List Nat) :
    ctorPressure ts ds = .accept ↔ ∃ n, ts = [n] ∧ ds = [n] ∧ 0 < n := by
  unfold ctorPressure
  by_cases h : ts = ds
  · subst h
    rcases ts with _ | ⟨n, _ | ⟨m, rest⟩⟩
    · simp
    · by_cases h3 : n = 0
      · simp [h3]
      · simp [h3]; omega
    · simp
  · simp only [ne_eq, h, not_false_eq_true, if_true, reduceCtorEq, false_iff, not_exists, not_and]
    rintro n rfl rfl
    exact absurd rfl h

/-- the constructors' own shape complaint is raised exactly for a shape other than the documented one -/
theorem shape_reject_iff_surface (nt nz : Nat) (ts ds : List Nat) :
    ctorSurface nt nz ts ds = .shapeError ↔ ∃ n rest, ts = n :: rest ∧ ds ≠ [n, nt, nz] := by
  unfold ctorSurface
  rcases ts with _ | ⟨n, rest⟩
  · simp
  · by_cases h1 : ds = [n, nt, nz] <;> by_cases h2 : rest = [] <;> by_cases h3 : nt = 0 <;>
      simp [h1, h2, h3]

/-! ## attaching a condition to a tube -/

section setbc
variable {K : Type} [Field K] [LinearOrder K] [IsStrictOrderedRing K]

/-- **setbc_accept_iff** (inner wall): stored iff radius matches `r − t` and height matches `h`
in the sense of `np.isclose`. -/
theorem setbc_accept_iff_inner (rtol atol : K) (loc : String) (bcR bcH r t h : K) :
    setBc rtol atol loc bcR bcH r t h = .inner ↔
      loc = "inner" ∧ |bcR - (r - t)| ≤ atol + rtol * |r - t| ∧ |bcH - h| ≤ atol + rtol * |h| := by
  unfold setBc
  by_cases h1 : loc = "inner"
  · rw [if_pos h1]
    simp only [h1, true_and, ← isclose_iff]
    cases isclose rtol atol bcR (r - t) <;> cases isclose rtol atol bcH h <;> simp
  · rw [if_neg h1]
    by_cases h2 : loc = "outer"
    · rw [if_pos h2]; simp only [h1, false_and, iff_false]; split <;> simp
    · rw [if_neg h2]; simp [h1]

/-- **setbc_accept_iff** (outer wall): stored iff radius matches `r` and height matches `h`. -/
theorem setbc_accept_iff_outer (rtol atol : K) (loc : String) (bcR bcH r t h : K) :
    setBc rtol atol loc bcR bcH r t h = .outer ↔
      loc = "outer" ∧ |bcR - r| ≤ atol + rtol * |r| ∧ |bcH - h| ≤ atol + rtol * |h| := by
  unfold setBc
  by_cases h1 : loc = "inner"
  · rw [if_pos h1]
    have h2 : ¬ loc = "outer" := by rw [h1]; decide
    simp only [h2, false_and, iff_false]; split <;> simp
  · rw [if_neg h1]
    by_cases h2 : loc = "outer"
    · rw [if_pos h2]
      simp only [h2, true_and, ← isclose_iff]
      cases isclose rtol atol bcR r <;> cases isclose rtol atol bcH h <;> simp
    · rw [if_neg h2]; simp [h2]

/-- any other wall name is rejected, whatever the radius and height -/
theorem setbc_badwall_iff (rtol atol : K) (loc : String) (bcR bcH r t h : K) :
    setBc rtol atol loc bcR bcH r t h = .badWall ↔ loc ≠ "inner" ∧ loc ≠ "outer" := by
  unfold setBc
  by_cases h1 : loc = "inner"
  · rw [if_pos h1]; simp only [ne_eq, h1, not_true_eq_false, false_and, iff_false]; split <;> simp
  · rw [if_neg h1]
    by_cases h2 : loc = "outer"
    · rw [if_pos h2]; simp only [ne_eq, h2, not_true_eq_false, and_false, iff_false]; split <;> simp
    · rw [if_neg h2]; simp [h1, h2]

end setbc

/-! ## non-vacuity -/

/-- ℚ has a floor function in the sense of `IsFloor` -/
theorem isFloor_rat : IsFloor (fun x : ℚ => ⌊x⌋) := fun x => ⟨Int.floor_le x, Int.lt_floor_add_one x⟩

/-- the hypotheses of `grid_exact` are satisfiable: 2 times, 3 angles (period 3), 2 heights -/
example (d : Nat → Nat → Nat → ℚ) :
    thermalBase (fun x : ℚ => ⌊x⌋) 3 [0, 1] [0, 1, 2] [0, 5] d 1 2 5 = d 1 2 1 :=
  grid_exact (a := 1) (b := 2) (c := 1) isFloor_rat (by norm_num) (by norm_num) (by norm_num) (by simp [nth]) d
    (by simp) (by simp) (by simp)

/-- `theta_last_cell` is not vacuous: θ = 5/2 lies in the last cell `[2, 3)` -/
example (d : Nat → Nat → Nat → ℚ) (t z : ℚ) :
    thermalBase (fun x : ℚ => ⌊x⌋) 3 [0, 1] [0, 1, 2] [0, 5] d t (5/2) z =
      rgi2 [0, 1] [0, 5] (fun a c => d a 2 c) t z * (1 - (5/2 - 2) / (3 - 2))
      + rgi2 [0, 1] [0, 5] (fun a c => d a 0 c) t z * ((5/2 - 2) / (3 - 2)) := by
  have := theta_last_cell (gt := [0, 1]) (gθ := [0, 1, 2]) (gz := [0, 5]) (twoPi := 3) isFloor_rat
    (by norm_num) (by simp) d t z (θ := 5/2) (by norm_num) (by simp [nth]; norm_num) (by norm_num)
  simpa [nth] using this

/-- executed on `Rat` with `Rat.floor` (what the correspondence runs): data `d a b c = 4b`, nt = 4;
the value at the seam `θ = 2π` is the column-0 datum `0`, halfway through the last cell it is
`(12 + 0)/2 = 6`, and one period later the same. -/
example : thermalBase Rat.floor (8 : Rat) [0, 1] [0, 2, 4, 6] [0, 1] (fun _ b _ => 4 * (b : Rat)) 0 8 0 = 0 := by
  decide +kernel
example : thermalBase Rat.floor (8 : Rat) [0, 1] [0, 2, 4, 6] [0, 1] (fun _ b _ => 4 * (b : Rat)) 0 7 0 = 6 := by
  decide +kernel
example : thermalBase Rat.floor (8 : Rat) [0, 1] [0, 2, 4, 6] [0, 1] (fun _ b _ => 4 * (b : Rat)) 0 (-9) 0 = 6 := by
  decide +kernel

/-- **F8 (pinned commit).** Without the closing column and the wrap (the interpolant as it was
coded: open θ grid, no `np.mod`) the same data give `16` at `θ = 2π` — an extrapolation past the
last column — where `θ = 0` gives `0`: not periodic. -/
theorem pinned_witness :
    rgi3 [0, 1] [0, 2, 4, 6] [0, 1] (fun _ b _ => 4 * (b : Rat)) 0 8 0 = 16 ∧
    rgi3 [0, 1] [0, 2, 4, 6] [0, 1] (fun _ b _ => 4 * (b : Rat)) 0 0 0 = 0 := by
  decide +kernel

example : makeIfn (fun xs : List Rat => xs.sum) [.scalar 1, .arr [2] [10, 20]] = .array [2] [11, 21] := by
  decide +kernel
example : interp1 [(0 : Rat), 1, 2] [1, 2, 4] (1/2) = some (3/2) := by decide +kernel
example : interp1 [(0 : Rat), 1, 2] [1, 2, 4] (5/2) = none := by decide +kernel
example : ctorFilm 4 [4] [4] = .accept := by decide
example : ctorFilm 4 [4] [4, 1] = .shapeError := by decide
example : ctorHeatFlux 3 4 [2] [2, 4, 3] = .shapeError := by decide
example : setBc defaultRtol defaultAtol "inner" (3/4) 2 1 (1/4) 2 = .inner := by decide +kernel
example : setBc defaultRtol defaultAtol "inner" 2 (3/4) 1 (1/4) 2 = .mismatchInner := by decide +kernel
example : setBc defaultRtol defaultAtol "top" (3/4) 2 1 (1/4) 2 = .badWall := by decide +kernel

end SrProps.C19
