import SrProofs.Pool
import SrProofs.PageNames

/-!
# C08 — results do not depend on thread count, paging or progress options  (PARTIAL)

Model: `SrModel.Pool`.  The theorems cover the **bookkeeping** of the pool stages of srlife for
*every* task count, *every* chunk size, *every* completion order (permutation of the chunk
indices — which is all that worker count, chunk-to-worker assignment and the scheduler can change),
every number of sub-problems and every network shape:

* `gather_schedule_independent` – `p.map` / `list(p.imap(...))` return `tasks.map f`;
* `rj_parallel_equal`          – the edge-parallel residual of `SpringNetwork.RJ` has the same sums
                                  and installs edge `k`'s state on edge `k`;
* `dispatch_equal`             – both branches of `SpringSystemSolver.solve` produce
                                  `subproblems.map solveAll`;
* `copy_complete`              – copy-back moves all three dictionaries of every tube edge of every
                                  sub-problem and touches nothing else;
* `solve_schedule_independent` – the composition: tube data after `solve` are those of
                                  `subproblems.map solveAll`, whatever `nthreads` and the schedules;
* `dispatch_total`, `dispatch_reachable` – the heuristic is a total function, both branches occur;
* `life_schedule_independent`  – `min` over the gathered per-tube lives;
* `page_index_injective`, `page_file_injective`, `page_file_eq`, `page_files_distinct` – with
  `page=True` (model `SrModel.PageNames`) different (tube, dictionary, field) triples never open
  the same `np.memmap` file, for every receiver layout and all field names — with the one exception
  that `add_axial_results(f)` (suffix `" _axial"`) and `add_blank_axial_results(f + " ")` (suffix
  `"_axial"`) meet (`page_file_collision`).

NOT covered (the larger part of the property; see `harness/c08.py` for the differential
executions that carry it): that a worker process computes the same function as the parent
(`fork`, `dill` pickling of tubes/materials/closures, bit-exact round trip of arrays), `np.memmap`
semantics (paged and in-memory dictionaries are the same abstract value here; finding F24 — `dill`
cannot pickle a paged array — is outside this model by construction), BLAS/OpenMP threading,
floating point, the scheduler itself (quantified over, not described), progress bars (`tqdm` wraps
the iterator and is assumed to pass the items through).
-/
namespace SrProps.C08
open SrModel.Pool

/-- **gather_schedule_independent.** Whatever the chunk size `c ≥ 1` and whatever order the chunks
complete in, the list handed back by the pool is `tasks.map f`. -/
theorem gather_schedule_independent {α β} (f : α → β) (c : Nat) (hc : 0 < c) (tasks : List α)
    (order : List Nat) (hv : ValidOrder c tasks order) :
    gather f c tasks order = tasks.map f :=
  gather_eq_map f c hc tasks order hv

/-- the same with the chunk size `Pool.map` picks by default for `w ≥ 1` workers (empty task list
included, where that chunk size is 0) -/
theorem gather_default_chunk {α β} (f : α → β) (w : Nat) (hw : 0 < w) (tasks : List α)
    (order : List Nat) (hv : ValidOrder (mapChunk tasks.length w) tasks order) :
    gather f (mapChunk tasks.length w) tasks order = tasks.map f :=
  gather_mapChunk f w hw tasks order hv

/-- installing the states of the sequential result list puts `fj e`'s state on `e` -/
theorem install_map {E C S} (setState : E → S → E) (fj : E → C × S) (es : List E) :
    install setState es (es.map fj) = es.map (fun e => setState e (fj e).2) := by
  induction es with
  | nil => rfl
  | cons e r ih =>
    simp only [install, List.map_cons, List.zipWith_cons_cons] at ih ⊢
    rw [ih]

/-- **rj_parallel_equal.** For every chunk size and completion order the edge-parallel residual
evaluation returns exactly what the single-thread one returns: the same left-to-right sums over the
same ordered list, and the edge list in which position `k` carries the state computed for edge `k`. -/
theorem rj_parallel_equal {E C S} (add : C → C → C) (zero : C) (setState : E → S → E)
    (fj : E → C × S) (c : Nat) (hc : 0 < c) (es : List E) (order : List Nat)
    (hv : ValidOrder c es order) :
    rjPar add zero setState fj c order es = rjSeq add zero setState fj es ∧
    (rjPar add zero setState fj c order es).1 = ((es.map fj).map (·.1)).foldl add zero ∧
    (rjPar add zero setState fj c order es).2 = es.map (fun e => setState e (fj e).2) := by
  have h : rjPar add zero setState fj c order es = rjSeq add zero setState fj es := by
    unfold rjPar rjSeq
    rw [gather_eq_map fj c hc es order hv]
  refine ⟨h, ?_, ?_⟩
  · rw [h]; rfl
  · rw [h]; exact install_map setState fj es

/-- the evaluator `RJ(·, nthreads)` is the single-thread evaluator, for every `nthreads` and every
family of schedules (one per call and edge list) -/
theorem evalN_eq_evalSeq {E C S} (add : C → C → C) (zero : C) (setState : E → S → E)
    (fj : E → C × S) (nthreads : Nat) (sch : Nat → List E → List Nat)
    (hs : ∀ k es, ValidOrder (mapChunk es.length nthreads) es (sch k es)) :
    evalN add zero setState fj nthreads sch = evalSeq add zero setState fj := by
  funext k es
  unfold evalN evalSeq
  split
  · rename_i h1
    unfold rjPar rjSeq
    rw [gather_mapChunk fj nthreads (by omega) es (sch k es) (hs k es)]
  · rfl

/-- **dispatch_equal.** Whichever branch the heuristic takes, with any number of workers, any
schedule of the residual pools and any completion order of the sub-problem pool, the result list
of `SpringSystemSolver.solve` is `subproblems.map solveAll` (with the single-thread evaluator),
and the branch reported is the one `dispatchOf` names.  `S` (the time loop and Newton iteration of
`solve_all`) is arbitrary. -/
theorem dispatch_equal {N E C S} (Sv : Eval E C → N → N)
    (add : C → C → C) (zero : C) (setState : E → S → E) (fj : E → C × S)
    (nthreads : Nat) (sch sch1 : Nat → List E → List Nat)
    (hs : ∀ k es, ValidOrder (mapChunk es.length nthreads) es (sch k es))
    (count : N → Nat) (subs : List N) (order : List Nat) (ho : ValidOrder 1 subs order) :
    solveResults Sv (evalN add zero setState fj nthreads sch) (evalN add zero setState fj 1 sch1)
        order count subs =
      (dispatchOf (subs.map count)).map
        (fun b => (b, subs.map (Sv (evalSeq add zero setState fj)))) := by
  have h1 : evalN add zero setState fj 1 sch1 = evalSeq add zero setState fj := by
    funext k es; simp [evalN, evalSeq]
  unfold solveResults
  rw [evalN_eq_evalSeq add zero setState fj nthreads sch hs, h1]
  cases dispatchOf (subs.map count) with
  | none => rfl
  | some b =>
    cases b with
    | sequential => rfl
    | parallel =>
      simp only [Option.map_some]
      rw [gather_eq_map _ 1 (by omega) subs order ho]

/-- **copy_complete.** If every solved copy has the keys and edge kinds of its original (what
pickling a network and `solve_all` preserve) and edge keys are distinct (MultiGraph keys), then
after copy-back
* there are as many sub-problems as before,
* every tube edge of every sub-problem holds the three dictionaries of its solved copy,
* keys, kinds, plain springs and the non-result part of every tube are those of the original. -/
theorem copy_complete {D O Sp} (results subs : List (Net D O Sp))
    (hlen : results.length = subs.length)
    (hshape : results.map shape = subs.map shape)
    (hnd : ∀ n ∈ subs, (n.map (·.1)).Nodup) :
    (copyBack results subs).length = subs.length ∧
    (copyBack results subs).map tubeData = results.map tubeData ∧
    (copyBack results subs).map rest = subs.map rest := by
  induction results generalizing subs with
  | nil =>
    cases subs with
    | nil => simp [copyBack]
    | cons _ _ => simp at hlen
  | cons r rs ih =>
    cases subs with
    | nil => simp at hlen
    | cons s ss =>
      simp only [List.map_cons, List.cons.injEq] at hshape
      simp only [List.length_cons, Nat.add_right_cancel_iff] at hlen
      have hnds : (s.map (·.1)).Nodup := hnd s (by simp)
      have hndr : (r.map (·.1)).Nodup := by rw [shape_keys r s hshape.1]; exact hnds
      obtain ⟨i1, i2, i3⟩ := ih ss hlen hshape.2 (fun n hn => hnd n (by simp [hn]))
      unfold copyBack at i1 i2 i3 ⊢
      simp only [List.zipWith_cons_cons, List.length_cons, List.map_cons]
      rw [copyNet_eq_mergeNet r s hndr, tubeData_mergeNet r s hshape.1 hnds, rest_mergeNet,
        i1, i2, i3]
      exact ⟨rfl, rfl, rfl⟩

/-- **solve_schedule_independent.** For every `nthreads`, schedules and dispatch branch: if
`solve` returns, the tube data of the receiver's sub-problems are those of
`subproblems.map solveAll`.  `Sv` must keep keys and kinds (`hS`). -/
theorem solve_schedule_independent {D O Sp E C S} (Sv : Eval E C → Net D O Sp → Net D O Sp)
    (hS : ∀ ev n, shape (Sv ev n) = shape n)
    (add : C → C → C) (zero : C) (setState : E → S → E) (fj : E → C × S)
    (nthreads : Nat) (sch sch1 : Nat → List E → List Nat)
    (hs : ∀ k es, ValidOrder (mapChunk es.length nthreads) es (sch k es))
    (subs : List (Net D O Sp)) (hnd : ∀ n ∈ subs, (n.map (·.1)).Nodup)
    (order : List Nat) (ho : ValidOrder 1 subs order) (final : List (Net D O Sp))
    (h : solve Sv (evalN add zero setState fj nthreads sch) (evalN add zero setState fj 1 sch1)
        order subs = some final) :
    final.map tubeData = (subs.map (Sv (evalSeq add zero setState fj))).map tubeData := by
  unfold solve at h
  rw [dispatch_equal Sv add zero setState fj nthreads sch sch1 hs tubeCount subs order ho] at h
  set solved := subs.map (Sv (evalSeq add zero setState fj)) with hsolved
  have hsh : solved.map shape = subs.map shape := by
    rw [hsolved, List.map_map]
    exact List.map_congr_left (fun n _ => hS _ n)
  have hlen : solved.length = subs.length := by simp [hsolved]
  cases hd : dispatchOf (subs.map tubeCount) with
  | none => rw [hd] at h; simp at h
  | some b =>
    rw [hd] at h
    cases b with
    | sequential =>
      simp only [Option.map_some, Option.some.injEq] at h
      subst h
      have hnd' : ∀ n ∈ solved, (n.map (·.1)).Nodup := by
        intro n hn
        rw [hsolved, List.mem_map] at hn
        obtain ⟨m, hm, rfl⟩ := hn
        rw [shape_keys _ m (hS _ m)]
        exact hnd m hm
      exact (copy_complete solved solved rfl rfl hnd').2.1
    | parallel =>
      simp only [Option.map_some, Option.some.injEq] at h
      subst h
      exact (copy_complete solved subs hlen hsh hnd).2.1

/-- **dispatch_total.** The heuristic is a total function of `(nprobs, max_sub)`: sequential exactly
when `nprobs < max_sub`, parallel exactly otherwise; from tube counts it fails only for an empty
list of sub-problems (Python's `max()` of an empty sequence). -/
theorem dispatch_total (nprobs maxSub : Nat) :
    (dispatch nprobs maxSub = .sequential ↔ nprobs < maxSub) ∧
    (dispatch nprobs maxSub = .parallel ↔ maxSub ≤ nprobs) := by
  unfold dispatch
  by_cases h : nprobs < maxSub
  · simp [h]
  · simp [h]; omega

theorem dispatchOf_none_iff (counts : List Nat) : dispatchOf counts = none ↔ counts = [] := by
  cases counts <;> simp [dispatchOf, maxOf]

/-- both branches are reachable: one sub-network with four tubes; four sub-networks of one tube;
and the boundary `nprobs = max_sub` goes to the pool -/
theorem dispatch_reachable :
    dispatchOf [4] = some .sequential ∧ dispatchOf [1, 1, 1, 1] = some .parallel ∧
    dispatchOf [2, 2] = some .parallel ∧ dispatchOf [3, 1] = some .sequential := by decide

/-- **life_schedule_independent.** `determine_life`: the minimum over the gathered per-tube lives is
the minimum over `tubes.map single_cycles` (same for every fold of the gathered list, e.g. the
reliability arrays of `determine_reliability`). -/
theorem life_schedule_independent {T L} (single : T → L) (mn : L → L → L) (tubes : List T)
    (order : List Nat) (ho : ValidOrder 1 tubes order) (x : L) :
    (gather single 1 tubes order).foldl mn x = (tubes.map single).foldl mn x := by
  rw [gather_eq_map single 1 (by omega) tubes order ho]

/-! ### paging file names (`SrModel.PageNames`) -/

section paging
open SrModel.PageNames

/-- **page_index_injective.** `Receiver.set_paging` numbers the tubes by their position in
`Receiver.tubes`: for every list of panel sizes the numbers of the valid positions, taken in the
order of `Receiver.tubes`, are `0, 1, …, ntubes-1`; the valid positions are exactly the members of
`allTubes`; and two valid positions with the same number are the same position. -/
theorem page_index_injective (sizes : List Nat) :
    (allTubes sizes).map (fun pk => tubeIndex sizes pk.1 pk.2) = List.range sizes.sum ∧
    (∀ p k, (p, k) ∈ allTubes sizes ↔ p < sizes.length ∧ k < sizes.getD p 0) ∧
    (∀ p k, p < sizes.length → k < sizes.getD p 0 →
      (allTubes sizes)[tubeIndex sizes p k]? = some (p, k)) ∧
    (∀ p k p' k', p < sizes.length → k < sizes.getD p 0 → p' < sizes.length → k' < sizes.getD p' 0 →
      tubeIndex sizes p k = tubeIndex sizes p' k' → p = p' ∧ k = k') :=
  ⟨allTubes_map_tubeIndex sizes, mem_allTubes sizes, allTubes_getElem?_tubeIndex sizes,
    fun p k p' k' hp hk hp' hk' h => tubeIndex_injective sizes p k p' k' hp hk hp' hk' h⟩

/-- **page_file_injective.** `str(i) + "_" + field + suffix + ".dat"` with the suffixes `"_node"`,
`"_quad"`, `" _axial"` of the data writers determines the tube number, the dictionary and the field
name — for all field names (any Unicode string, also names containing `_`, digits, the other
suffixes or `.dat`), no hypothesis. -/
theorem page_file_injective (i i' : Nat) (d d' : Dict) (f f' : String)
    (h : pageFile i d f = pageFile i' d' f') : i = i' ∧ d = d' ∧ f = f' :=
  pageFile_injective i i' d d' f f' h

/-- **page_file_eq.** With both writers of every dictionary (`add_*_results`, `add_blank_*_results`):
equal file names force the same tube number and dictionary, and the same field name unless the
dictionary is `axial_results`, the writers differ and the blank-written name is the data-written
name plus one space. -/
theorem page_file_eq (i i' : Nat) (d d' : Dict) (w w' : Writer) (f f' : String)
    (h : fileOf i d w f = fileOf i' d' w' f') :
    i = i' ∧ d = d' ∧ (f = f' ∨ (d = .axial ∧
      ((w = .data ∧ w' = .blank ∧ f' = f ++ " ") ∨ (w = .blank ∧ w' = .data ∧ f = f' ++ " ")))) :=
  fileOf_eq i i' d d' w w' f f' h

/-- … so with names that do not end in a space the file name determines the triple, whoever wrote -/
theorem page_file_injective_writers (i i' : Nat) (d d' : Dict) (w w' : Writer) (f f' : String)
    (hf : ∀ g : String, f ≠ g ++ " ") (hf' : ∀ g : String, f' ≠ g ++ " ")
    (h : fileOf i d w f = fileOf i' d' w' f') : i = i' ∧ d = d' ∧ f = f' :=
  fileOf_injective i i' d d' w w' f f' hf hf' h

/-- **page_file_collision.** The exception is real: for every tube and every name `f`,
`add_axial_results(f, …)` and `add_blank_axial_results(f + " ")` open the same file. -/
theorem page_file_collision (i : Nat) (f : String) :
    fileOf i .axial .data f = fileOf i .axial .blank (f ++ " ") :=
  fileOf_collision i f

/-- **page_files_distinct.** For any receiver layout `sizes` and any fields per tube (`keys p k` =
(dictionary, writer, name) of the arrays of tube `k` of panel `p`): if inside each tube the
(dictionary, name) pairs are distinct — they are dictionary keys — and no tube has both a
data-written axial field `f` and a blank-written axial field `f ++ " "`, then the list of all paging
file names of the receiver has no duplicates. -/
theorem page_files_distinct (sizes : List Nat) (keys : Nat → Nat → List SrModel.PageNames.Key)
    (hk : ∀ p k, p < sizes.length → k < sizes.getD p 0 →
      ((keys p k).map (fun x => (x.1, x.2.2))).Nodup)
    (hs : ∀ p k f, p < sizes.length → k < sizes.getD p 0 →
      (Dict.axial, Writer.data, f) ∈ keys p k → (Dict.axial, Writer.blank, f ++ " ") ∉ keys p k) :
    (allFiles sizes keys).Nodup :=
  allFiles_nodup sizes keys hk hs

/-- non-vacuity: two panels of 2 and 1 tubes, every tube with the fields srlife writes in a thermal
and structural solve; the three tubes get the numbers 0, 1, 2 -/
example : allFiles [2, 1] (fun _ _ => [(.results, .data, "temperature"), (.quadrature, .blank, "stress_xx"),
      (.axial, .blank, "fluid_temperature")]) =
    ["0_temperature_node.dat", "0_stress_xx_quad.dat", "0_fluid_temperature_axial.dat",
     "1_temperature_node.dat", "1_stress_xx_quad.dat", "1_fluid_temperature_axial.dat",
     "2_temperature_node.dat", "2_stress_xx_quad.dat", "2_fluid_temperature_axial.dat"] := by decide

/-- the space of the data writer of `axial_results` -/
example : pageFile 12 .axial "htc" = "12_htc _axial.dat" ∧ fileOf 12 .axial .blank "htc" = "12_htc_axial.dat" := by
  decide

/-- field names that look like other files' parts do not collide: `"1_x"` in tube 0 and `"x"` in
tube 1 give `0_1_x_node.dat` and `1_x_node.dat`… -/
example : pageFile 0 .results "1_x" ≠ pageFile 1 .results "x" := by decide
/-- … and `"x_node"` in `quadrature_results` is not `"x"` in `results` -/
example : pageFile 0 .quadrature "x_node" ≠ pageFile 0 .results "x" := by decide

/-- the hypothesis of `page_files_distinct` matters: one tube with the axial fields `"x"` (data) and
`"x "` (blank) -/
example : ¬ (allFiles [1] (fun _ _ => [(.axial, .data, "x"), (.axial, .blank, "x ")])).Nodup := by decide

/-- **seeded regression `C08_a`** (tubes numbered inside each panel, sizes `[1, 1]`): two different
tubes get the same number, hence the same files -/
example : wrongPerPanel [1, 1] 0 0 = wrongPerPanel [1, 1] 1 0 ∧ tubeIndex [1, 1] 0 0 ≠ tubeIndex [1, 1] 1 0 := by
  decide

/-- **seeded regression `X08_e`** (`panel_index * panel.ntubes + position`, sizes `[2, 1]`): tube 1 of
panel 0 and tube 0 of panel 1 both get number 1 -/
example : wrongPanelTimes [2, 1] 0 1 = wrongPanelTimes [2, 1] 1 0 ∧
    tubeIndex [2, 1] 0 1 ≠ tubeIndex [2, 1] 1 0 := by decide

end paging

/-! ### non-vacuity -/

/-- five tasks, chunks of two, chunks complete in the order 2, 0, 1 -/
example : ValidOrder 2 [1, 2, 3, 4, 5] [2, 0, 1] := by unfold ValidOrder; decide
example : chunks 2 [1, 2, 3, 4, 5] = [[1, 2], [3, 4], [5]] := by decide
example : arrivals (· * 10) 2 [1, 2, 3, 4, 5] [2, 0, 1] = [(2, [50]), (0, [10, 20]), (1, [30, 40])] := by
  decide
example : gather (· * 10) 2 [1, 2, 3, 4, 5] [2, 0, 1] = [10, 20, 30, 40, 50] := by decide

/-- the hypothesis matters: a schedule that loses chunk 2 is not a permutation and the result differs -/
example : gather (· * 10) 1 [1, 2, 3] [1, 0] = [10, 20] := by decide

/-- what `imap_unordered` would hand back (arrival order, no placement by index) is *not*
schedule independent: the theorem is about the gather step, not a tautology -/
example : ((arrivals (· * 10) 1 [1, 2, 3] [1, 0, 2]).map (·.2)).flatten = [20, 10, 30] := by decide

/-- `Pool.map`'s default chunk size: 9 edges on 2 workers → chunks of 2 -/
example : mapChunk 9 2 = 2 ∧ mapChunk 8 2 = 1 ∧ mapChunk 0 4 = 0 := by decide

/-- edge-parallel residual on three edges: contributions summed in edge order, states installed by
position, although the chunks completed in the order 2, 0, 1 -/
example : rjPar (· + ·) 0 (fun (e : Nat × Nat) s => (e.1, s)) (fun e => (e.1, e.1 + 100)) 1 [2, 0, 1]
    [(1, 0), (2, 0), (3, 0)] = (6, [(1, 101), (2, 102), (3, 103)]) := by decide

/-- copy-back on a two-edge sub-network (one tube spring, one plain spring): the tube takes the three
dictionaries `7 8 9` of its solved copy and keeps its own `other = 0`; the spring is untouched -/
example : (copyBack [[((1, 2, 0), Obj.tube ⟨7, 8, 9, 5⟩), ((0, 1, 0), Obj.spring 3)]]
    [[((1, 2, 0), (Obj.tube ⟨0, 0, 0, 0⟩ : Obj Nat Nat Nat)), ((0, 1, 0), Obj.spring 4)]]).map
    tubeData = [[((1, 2, 0), 7, 8, 9)]] := by decide
example : (copyBack [[((1, 2, 0), Obj.tube ⟨7, 8, 9, 5⟩), ((0, 1, 0), Obj.spring 3)]]
    [[((1, 2, 0), (Obj.tube ⟨0, 0, 0, 0⟩ : Obj Nat Nat Nat)), ((0, 1, 0), Obj.spring 4)]]).map
    rest = [[((1, 2, 0), Sum.inl 0), ((0, 1, 0), Sum.inr 4)]] := by decide

/-- `solve` on two one-tube sub-networks (parallel branch, pool completes in the order 1, 0) with a
"solver" that writes `key.1 + 10` into the three dictionaries -/
example :
    let Sv : Eval Nat Nat → Net Nat Nat Nat → Net Nat Nat Nat := fun _ n =>
      n.map (fun e => (e.1, match e.2 with
        | .tube t => .tube ⟨e.1.1 + 10, e.1.1 + 10, e.1.1 + 10, t.other⟩
        | .spring s => .spring s))
    (solve Sv (fun _ es => (0, es)) (fun _ es => (0, es)) [1, 0]
        [[((1, 2, 0), .tube ⟨0, 0, 0, 5⟩)], [((3, 4, 0), .tube ⟨0, 0, 0, 6⟩)]]).map (·.map tubeData)
      = some [[((1, 2, 0), 11, 11, 11)], [((3, 4, 0), 13, 13, 13)]] := by decide

end SrProps.C08
