import SrProofs.StrainBook
import SrProofs.Bridge

/-!
# C15 — strain bookkeeping, free expansion and causality hold at every point and time

Model: `SrModel.StrainBook` — the point-wise arithmetic of
`PythonSolver.calculate_mechanical_strain`, the temperature interpolation of
`PythonTubeSolver._setup_state`, the state hand-over of the sub-increment loop and `dump_state`.
The theorems hold for **every** history length, **every** number and placement of accepted
sub-increments per step and **every** expansion-coefficient function `α` unless a hypothesis on
`α` is stated.  The total strain of each converged solve is an input of the model (the
finite-element solve is outside it).

`Step.Closed` (the accepted sub-increments of a step end with `sf = 1`) is what C10's
`success_spec` guarantees for a returning `PythonTubeSolver.solve`.
-/
namespace SrProps.C15
open SrModel.StrainBook

/-- **partition.** Stored total strain = mechanical + thermal, at every stored step and at every
accepted sub-increment of every step, for every subdivision. -/
theorem partition (α : ℝ → ℝ) (T0 : ℝ) (steps : List (Step ℝ)) :
    (∀ r ∈ trace α T0 steps, ∀ i j, r.tot i j = r.mech i j + r.th i j) ∧
    (∀ r ∈ run α T0 steps, ∀ i j, r.tot i j = r.mech i j + r.th i j) :=
  ⟨traceFrom_all α Partitioned (fun _ _ h => h) (fun Tn Tnp1 l s _ => partitioned_subStep α Tn Tnp1 l s)
      steps T0 _ (init_partitioned T0),
   runFrom_all α Partitioned (fun _ _ h => h) (fun Tn Tnp1 l s _ => partitioned_subStep α Tn Tnp1 l s)
      steps T0 _ (init_partitioned T0)⟩

/-- **thermal_isotropic.** From the zero start the thermal strain is a multiple of the identity
at every stored step and every accepted sub-increment (induction over the history). -/
theorem thermal_isotropic (α : ℝ → ℝ) (T0 : ℝ) (steps : List (Step ℝ)) :
    (∀ r ∈ trace α T0 steps, ∃ c : ℝ, ∀ i j, r.th i j = c * eye i j) ∧
    (∀ r ∈ run α T0 steps, ∃ c : ℝ, ∀ i j, r.th i j = c * eye i j) :=
  ⟨traceFrom_all α Isotropic (fun _ _ h => h) (fun Tn Tnp1 l s h => isotropic_subStep α Tn Tnp1 l s h)
      steps T0 _ (init_isotropic T0),
   runFrom_all α Isotropic (fun _ _ h => h) (fun Tn Tnp1 l s h => isotropic_subStep α Tn Tnp1 l s h)
      steps T0 _ (init_isotropic T0)⟩

/-- the same in the six stored fields: `xx = yy = zz`, shear fields zero -/
theorem thermal_isotropic_stored (α : ℝ → ℝ) (T0 : ℝ) (steps : List (Step ℝ)) :
    ∀ r ∈ run α T0 steps,
      (store r.th).xx = (store r.th).yy ∧ (store r.th).yy = (store r.th).zz ∧
      (store r.th).yz = 0 ∧ (store r.th).xz = 0 ∧ (store r.th).xy = 0 := by
  intro r hr
  obtain ⟨c, hc⟩ := (thermal_isotropic α T0 steps).2 r hr
  simp [store, hc, eye]

/-- **thermal_zero_if_unchanged.** If the temperature of the point has not changed from the
start up to step `n`, the thermal strain stored for the first `n` steps is zero — for every `α`
and every subdivision (no closedness needed). -/
theorem thermal_zero_if_unchanged (α : ℝ → ℝ) (T0 : ℝ) (steps : List (Step ℝ)) (n : Nat)
    (h : ∀ st ∈ steps.take n, st.Tnp1 = T0) :
    ∀ r ∈ (run α T0 steps).take n, ∀ i j, r.th i j = 0 := by
  intro r hr
  unfold run at hr
  rw [← runFrom_take] at hr
  exact runFrom_unchanged α T0 _ _ h (fun i j => by simp [init, zeroT]) r hr

/-- **thermal_const_cte.** Constant `α = a`: after every closed step the stored thermal strain is
`a·(T_k − T_0)·I`, whatever the number and placement of sub-increments (telescoping). -/
theorem thermal_const_cte (a T0 : ℝ) (steps : List (Step ℝ)) (hc : ∀ st ∈ steps, st.Closed) :
    (run (fun _ => a) T0 steps).map (·.th)
      = steps.map (fun st => fun i j => eye i j * (a * (st.Tnp1 - T0))) := by
  have hΦ : ∀ T T', True → True → dThermal (fun _ : ℝ => a) T T' = a * T' - a * T := by
    intro T T' _ _; unfold dThermal; ring
  have := runFrom_tele (fun _ => a) (fun T => a * T) (fun _ => True) hΦ T0 steps T0 (init T0)
    ⟨hc, fun _ _ => trivial, fun _ _ _ _ _ _ => trivial⟩ trivial
    (fun i j => by simp [init, zeroT])
  unfold run; rw [this]
  apply List.map_congr_left; intro st _; funext i j; ring

/-- temperatures, end points and step fractions of a history stay in `[lo, hi]` × `[0, 1]` -/
def InRange (lo hi : ℝ) (steps : List (Step ℝ)) : Prop :=
  ∀ st ∈ steps, lo ≤ st.Tnp1 ∧ st.Tnp1 ≤ hi ∧ ∀ s ∈ st.subs, 0 ≤ s.sf ∧ s.sf ≤ 1

/-- **thermal_affine_cte.** `α` affine on the temperature range traversed: the stored thermal
strain is `(Φ(T_k) − Φ(T_0))·I` with `Φ(T) = a·T + b·T²/2`, for every subdivision — the
trapezoid rule is exact. -/
theorem thermal_affine_cte (α : ℝ → ℝ) (a b lo hi T0 : ℝ)
    (hα : ∀ T, lo ≤ T → T ≤ hi → α T = a + b * T) (h0 : lo ≤ T0 ∧ T0 ≤ hi)
    (steps : List (Step ℝ)) (hc : ∀ st ∈ steps, st.Closed) (hr : InRange lo hi steps) :
    (run α T0 steps).map (·.th)
      = steps.map (fun st => fun i j =>
          eye i j * ((a * st.Tnp1 + b * st.Tnp1 ^ 2 / 2) - (a * T0 + b * T0 ^ 2 / 2))) := by
  have hΦ := dThermal_affine α a b (fun T => lo ≤ T ∧ T ≤ hi) (fun T hT => hα T hT.1 hT.2)
  have hA : Admissible (fun T => lo ≤ T ∧ T ≤ hi) steps := by
    refine ⟨hc, fun st hst => ⟨(hr st hst).1, (hr st hst).2.1⟩, ?_⟩
    intro st hst Tn hTn s hs
    obtain ⟨h1, h2, h3⟩ := hr st hst
    obtain ⟨h4, h5⟩ := h3 s hs
    unfold interpT
    constructor
    · nlinarith [mul_nonneg (sub_nonneg.2 h5) (sub_nonneg.2 hTn.1), mul_nonneg h4 (sub_nonneg.2 h1)]
    · nlinarith [mul_nonneg (sub_nonneg.2 h5) (sub_nonneg.2 hTn.2), mul_nonneg h4 (sub_nonneg.2 h2)]
  have := runFrom_tele α (fun T => a * T + b * T ^ 2 / 2) _ hΦ T0 steps T0 (init T0) hA h0
    (fun i j => by simp [init, zeroT])
  unfold run; rw [this]

/-- **stored_symmetric.** `dump_state` writes the upper triangle only and a reader rebuilds the
tensor symmetrically: what is read for `(i,j)` and `(j,i)` coincides for *every* array written,
and nothing is lost when the array was symmetric. -/
theorem stored_symmetric (A : Ten ℝ) :
    (∀ i j, restore (store A) i j = restore (store A) j i) ∧
    ((∀ i j, A i j = A j i) → ∀ i j, restore (store A) i j = A i j) :=
  ⟨restore_store_symm A, restore_store_of_symm A⟩

/-- the arrays themselves: the thermal strain is symmetric at every accepted state, and the
mechanical strain is symmetric wherever the total strain (`sym_grad`, the code's
`calculate_strain`) is.  Stress symmetry is NEML's contract. -/
theorem strain_symmetric (α : ℝ → ℝ) (T0 : ℝ) (steps : List (Step ℝ)) :
    ∀ r ∈ trace α T0 steps, (∀ i j, r.th i j = r.th j i) ∧
      ((∀ i j, r.tot i j = r.tot j i) → ∀ i j, r.mech i j = r.mech j i) := by
  intro r hr
  have hs := traceFrom_all α ThSymm (fun _ _ h => h) (fun Tn Tnp1 l s h => thSymm_subStep α Tn Tnp1 l s h)
    steps T0 _ (init_thSymm T0) r hr
  have hp := (partition α T0 steps).1 r hr
  refine ⟨hs, fun ht i j => ?_⟩
  have h1 := hp i j
  have h2 := hp j i
  have h3 := hs i j
  have h4 := ht i j
  linarith

/-- **causal.** The states stored for the first `n` steps are a function of the first `n` steps
of the input: truncating the history reproduces the prefix. -/
theorem causal (α : ℝ → ℝ) (T0 : ℝ) (steps : List (Step ℝ)) (n : Nat) :
    run α T0 (steps.take n) = (run α T0 steps).take n :=
  runFrom_take α steps n T0 (init T0)

theorem run_length (α : ℝ → ℝ) (T0 : ℝ) (steps : List (Step ℝ)) :
    (run α T0 steps).length = steps.length := runFrom_length α steps T0 (init T0)

/-- **elastic_path_independent.** `α` affine on the range traversed (in particular constant):
two histories through the same temperatures `T_1 … T_n` with *different* subdivisions store the
same thermal strains.  Consequently, wherever the two converged total strains coincide (for a
linear elastic material the equilibrium solution is determined by the end loads and the end
thermal strain — finite-element contract), the mechanical strain and the elastic stress
`C : (ε − ε_th)` coincide for every stiffness tensor `C`. -/
theorem elastic_path_independent (α : ℝ → ℝ) (a b lo hi T0 : ℝ)
    (hα : ∀ T, lo ≤ T → T ≤ hi → α T = a + b * T) (h0 : lo ≤ T0 ∧ T0 ≤ hi)
    (steps₁ steps₂ : List (Step ℝ))
    (hc₁ : ∀ st ∈ steps₁, st.Closed) (hc₂ : ∀ st ∈ steps₂, st.Closed)
    (hr₁ : InRange lo hi steps₁) (hr₂ : InRange lo hi steps₂)
    (hT : steps₁.map (·.Tnp1) = steps₂.map (·.Tnp1)) :
    (run α T0 steps₁).map (·.th) = (run α T0 steps₂).map (·.th) ∧
    ∀ (k : Nat) (r₁ r₂ : Rec ℝ), (run α T0 steps₁)[k]? = some r₁ → (run α T0 steps₂)[k]? = some r₂ →
      r₁.th = r₂.th ∧
      (r₁.tot = r₂.tot → r₁.mech = r₂.mech ∧
        ∀ C : Ten4 ℝ, elasticStress C r₁.tot r₁.th = elasticStress C r₂.tot r₂.th) := by
  have hth : (run α T0 steps₁).map (·.th) = (run α T0 steps₂).map (·.th) := by
    rw [thermal_affine_cte α a b lo hi T0 hα h0 steps₁ hc₁ hr₁,
        thermal_affine_cte α a b lo hi T0 hα h0 steps₂ hc₂ hr₂]
    have e : ∀ l : List (Step ℝ), l.map (fun st => fun i j =>
        (eye : Ten ℝ) i j * ((a * st.Tnp1 + b * st.Tnp1 ^ 2 / 2) - (a * T0 + b * T0 ^ 2 / 2)))
        = (l.map (·.Tnp1)).map (fun T => fun i j =>
            (eye : Ten ℝ) i j * ((a * T + b * T ^ 2 / 2) - (a * T0 + b * T0 ^ 2 / 2))) := by
      intro l; simp [List.map_map, Function.comp_def]
    rw [e steps₁, e steps₂, hT]
  refine ⟨hth, fun k r₁ r₂ h₁ h₂ => ?_⟩
  have hk : r₁.th = r₂.th := by
    have := congrArg (fun l => l[k]?) hth
    simp only [List.getElem?_map, h₁, h₂, Option.map_some, Option.some.injEq] at this
    exact this
  refine ⟨hk, fun htot => ?_⟩
  have hm : r₁.mech = r₂.mech := by
    funext i j
    have p₁ := (partition α T0 steps₁).2 r₁ (List.mem_of_getElem? h₁) i j
    have p₂ := (partition α T0 steps₂).2 r₂ (List.mem_of_getElem? h₂) i j
    rw [htot, hk] at p₁
    linarith
  exact ⟨hm, fun C => by rw [htot, hk]⟩

/-- **Outside the hypothesis the conclusion fails (finding F25).**  With the quadratic
coefficient `α(T) = T²`, one step from `T = 0` to `T = 2` stores thermal strain `4·I` when taken
in one increment and `3·I` when taken in two halves: the trapezoid rule in `α` is not exact, so
the elastic state depends on the subdivision. -/
theorem path_dependent_outside_hypothesis :
    let α : ℝ → ℝ := fun T => T ^ 2
    let one : List (Step ℝ) := [⟨2, [⟨1, zeroT⟩]⟩]
    let two : List (Step ℝ) := [⟨2, [⟨1 / 2, zeroT⟩, ⟨1, zeroT⟩]⟩]
    (∀ st ∈ one, st.Closed) ∧ (∀ st ∈ two, st.Closed) ∧
    one.map (·.Tnp1) = two.map (·.Tnp1) ∧
    (run α 0 one).map (fun r => r.th 0 0) = [4] ∧
    (run α 0 two).map (fun r => r.th 0 0) = [3] := by
  refine ⟨?_, ?_, rfl, ?_, ?_⟩
  · intro st hst; simp at hst; subst hst; simp [Step.Closed, closedSubs]
  · intro st hst; simp at hst; subst hst; simp [Step.Closed, closedSubs]
  · simp [run, runFrom, runStep, subTrace, lastOf, subStep, thermalUpdate, dThermal, interpT,
      init, zeroT, eye]; norm_num
  · simp [run, runFrom, runStep, subTrace, lastOf, subStep, thermalUpdate, dThermal, interpT,
      init, zeroT, eye]; norm_num

/-- **free_expansion** (algebraic level).  Constant `α = a`, closed steps, and a point whose
total strain at step `k` is the free thermal expansion `a·(T_k − T_0)·I` (uniform heating of a
tube that is free to move: the compatible displacement field `u = aΔT·x` produces exactly this
strain): the mechanical strain is zero and so is the elastic stress `C : ε_mech`, for every
stiffness tensor `C` and every subdivision. -/
theorem free_expansion (a T0 : ℝ) (steps : List (Step ℝ)) (hc : ∀ st ∈ steps, st.Closed)
    (k : Nat) (r : Rec ℝ) (st : Step ℝ)
    (hr : (run (fun _ => a) T0 steps)[k]? = some r) (hst : steps[k]? = some st)
    (hfree : ∀ i j, r.tot i j = eye i j * (a * (st.Tnp1 - T0))) :
    (∀ i j, r.mech i j = 0) ∧ ∀ (C : Ten4 ℝ) i j, elasticStress C r.tot r.th i j = 0 := by
  have hth : r.th = fun i j => eye i j * (a * (st.Tnp1 - T0)) := by
    have := congrArg (fun l => l[k]?) (thermal_const_cte a T0 steps hc)
    simp only [List.getElem?_map, hr, hst, Option.map_some, Option.some.injEq] at this
    exact this
  have hm : ∀ i j, r.mech i j = 0 := by
    intro i j
    have p := (partition (fun _ => a) T0 steps).2 r (List.mem_of_getElem? hr) i j
    rw [hfree i j, hth] at p
    linarith
  refine ⟨hm, fun C i j => ?_⟩
  apply ddot_zero
  intro i j
  simp only [mech]
  rw [hfree i j, hth]; ring

/-! ### non-vacuity -/

/-- a closed step with three accepted sub-increments -/
example : (⟨900, [⟨1 / 4, zeroT⟩, ⟨1 / 2, zeroT⟩, ⟨1, zeroT⟩]⟩ : Step ℝ).Closed := by
  simp [Step.Closed, closedSubs]

/-- `thermal_const_cte` / `free_expansion` hypotheses are satisfiable and the value is the
expected one: `α = 1/100`, `300 → 500 → 900`, second step in two halves -/
example :
    (run (fun _ => (1 / 100 : ℝ)) 300
      [⟨500, [⟨1, zeroT⟩]⟩, ⟨900, [⟨1 / 2, zeroT⟩, ⟨1, zeroT⟩]⟩]).map (fun r => r.th 1 1) = [2, 6] := by
  have h := thermal_const_cte (1 / 100) 300
    [⟨500, [⟨1, zeroT⟩]⟩, ⟨900, [⟨1 / 2, zeroT⟩, ⟨1, zeroT⟩]⟩]
    (by intro st hst; simp at hst; rcases hst with rfl | rfl <;> simp [Step.Closed, closedSubs])
  have := congrArg (List.map (fun t : Ten ℝ => t 1 1)) h
  simp only [List.map_map, Function.comp_def] at this
  rw [this]; simp [eye]; norm_num

/-- `InRange` / affine hypotheses of `elastic_path_independent` are satisfiable
(`α(T) = 1 + T/2` on `[0, 4]`, one step `0 → 2` in one piece and in two halves) -/
example : InRange 0 4 [(⟨2, [⟨1 / 2, zeroT⟩, ⟨1, zeroT⟩]⟩ : Step ℝ)] := by
  intro st hst; simp at hst; subst hst
  refine ⟨by norm_num, by norm_num, ?_⟩
  intro s hs; simp at hs; rcases hs with rfl | rfl <;> norm_num

/-- `thermal_zero_if_unchanged` is not vacuous: the third step heats and does store strain -/
example :
    (run (fun _ => (1 : ℝ)) 5 [⟨5, [⟨1, zeroT⟩]⟩, ⟨5, [⟨1 / 2, zeroT⟩, ⟨1, zeroT⟩]⟩, ⟨7, [⟨1, zeroT⟩]⟩]).map
      (fun r => r.th 0 0) = [0, 0, 2] := by
  simp [run, runFrom, runStep, subTrace, lastOf, subStep, thermalUpdate, dThermal, interpT,
    init, zeroT, eye]; norm_num

/-- store/restore on a non-symmetric array: the lower triangle is not what is read back -/
example : restore (store (fun i j => if i.val = 1 ∧ j.val = 0 then (7 : ℝ) else 0)) 1 0 = 0 := by
  simp [restore, store]

/-- **closed_from_C10.** The hypothesis `Step.Closed` used above is not an assumption about the
code: for every subdivision limit, mode and pattern of failed attempts, a *returning* adaptive
step (C10's model, `SrModel.Adaptive.run`) has accepted sub-increments whose last step fraction
is 1 — so the bookkeeping theorems apply to every step the real loop returns. -/
theorem closed_from_C10 (md : Nat) (hmd : 0 < md) (forced : Bool) (o : Nat → Bool)
    (tr : List SrModel.Adaptive.Attempt) (tot : SrModel.Adaptive.Attempt → SrModel.StrainBook.Ten ℝ)
    (Tnp1 : ℝ) (h : SrModel.Adaptive.run md forced o = .ok tr) :
    (⟨Tnp1, SrModel.Bridge.subsOf md tot tr⟩ : SrModel.StrainBook.Step ℝ).Closed :=
  SrModel.Bridge.closed_of_returning_step md hmd forced o tr tot Tnp1 h

/-- and the step fractions of the accepted sub-increments never exceed 1 -/
theorem fractions_from_C10 (md : Nat) (hmd : 0 < md) (forced : Bool) (o : Nat → Bool)
    (tr : List SrModel.Adaptive.Attempt) (h : SrModel.Adaptive.run md forced o = .ok tr) :
    ∀ a ∈ SrModel.Adaptive.accepted tr, (a.to_ : ℝ) / (2 : ℝ) ^ md ≤ 1 :=
  SrModel.Bridge.fractions_le_one md hmd forced o tr h


end SrProps.C15
