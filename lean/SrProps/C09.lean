import SrProofs.Damage

/-!
# C09 — life responds correctly to rotation, permutation, offset, repetition, scaling, worse loads

Model: `SrModel.Damage` (shared with C01).  All statements hold over every linearly ordered field
(in particular `ℝ`), for any number of tubes / points / time steps / days, for **every** matrix `Q`
with `Qᵀ Q = 1` (proper or improper rotation), every permutation (`List.Perm`), every offset tensor,
every repetition count `k ≥ 1`, every scale factor `l > 0`, and for every interpretation of
`sqrt`, `log10`, `10^x` (`Transc K`), arbitrary `tR` and `Nf`.

Vocabulary (`SrProofs/Damage.lean`): `Sym6.toMat` = the symmetric 3×3 matrix of the six stored
components (shear entries are tensor components), `Sym6.rot Q s` = the stored components of
`Q S Qᵀ`; `Sample.mapTensors gσ gε` changes the stress / strain of a sample; `Tube.mapSamples`
applies a change to every sample of every point of a tube; `Life.le` = the order `0 ≤ finite ≤ ∞`.
-/
namespace SrProps.C09
open SrModel.Damage Matrix

section
variable {K : Type} [Field K] [LinearOrder K] [IsStrictOrderedRing K] [Transc K]

omit [LinearOrder K] [IsStrictOrderedRing K] [Transc K] in
/-- the six-component expression of the code is the matrix invariant `(3 tr S² - (tr S)²)/2` and
`rot` really is `S ↦ Q S Qᵀ` -/
theorem sixComponent_matrix (Q : Matrix (Fin 3) (Fin 3) K) (s : Sym6 K) :
    vonMisesSq s = (3 * (s.toMat * s.toMat).trace - s.toMat.trace ^ 2) / 2 ∧
      (Sym6.rot Q s).toMat = Q * s.toMat * Qᵀ :=
  ⟨vonMisesSq_eq_trace s, Sym6.toMat_rot Q s⟩

omit [LinearOrder K] [IsStrictOrderedRing K] in
/-- **vonMises_rot.** The effective stress of `creep_damage` does not depend on the axes. -/
theorem vonMises_rot (Q : Matrix (Fin 3) (Fin 3) K) (hQ : Qᵀ * Q = 1) (s : Sym6 K) :
    vonMises (Sym6.rot Q s) = vonMises s :=
  vonMises_rot' Q hQ s

/-- **eqRange_rot.** The equivalent strain range of `cycle_fatigue` (engineering shear factors 2,
`ν = 1/2`) between two time points does not depend on the axes. -/
theorem eqRange_rot (Q : Matrix (Fin 3) (Fin 3) K) (hQ : Qᵀ * Q = 1) (ei ej : Sym6 K) :
    eqRange (Sym6.rot Q ei) (Sym6.rot Q ej) = eqRange ei ej :=
  eqRange_rot' two_ne_zero Q hQ ei ej

/-- **life_rot.** Expressing every stress and strain of every material point in rotated axes leaves
the per-cycle damages and the receiver life unchanged (both extrapolation modes). -/
theorem life_rot (m : Mode) (x2 y2 : K) (tR Nf : K → K → K) (Q : Matrix (Fin 3) (Fin 3) K)
    (hQ : Qᵀ * Q = 1) (tubes : List (Tube K)) :
    receiverLife m x2 y2 tR Nf
        (tubes.map (Tube.mapSamples (Sample.mapTensors (Sym6.rot Q) (Sym6.rot Q)))) =
      receiverLife m x2 y2 tR Nf tubes :=
  receiverLife_mapSamples m x2 y2 tR Nf _ _ (vonMises_rot Q hQ) (eqRange_rot Q hQ) tubes

omit [IsStrictOrderedRing K] in
/-- **life_perm.** Reordering the tubes, and reordering the material points (elements, quadrature
points) inside a tube, leaves the life unchanged. -/
theorem life_perm (m : Mode) (x2 y2 : K) (tR Nf : K → K → K) :
    (∀ tubes tubes' : List (Tube K), tubes.Perm tubes' →
      receiverLife m x2 y2 tR Nf tubes = receiverLife m x2 y2 tR Nf tubes') ∧
    (∀ (t : Tube K) (pts : List (List (Sample K))), t.points.Perm pts →
      tubeLife m x2 y2 tR Nf { t with points := pts } = tubeLife m x2 y2 tR Nf t) :=
  ⟨fun _ _ h => receiverLife_perm m x2 y2 tR Nf h, fun t pts h => tubeLife_perm m x2 y2 tR Nf t pts h⟩

omit [IsStrictOrderedRing K] in
/-- **range_offset.** Adding one constant strain tensor to every time point leaves every pairwise
range, the maximum range and the fatigue damage of the cycle unchanged. -/
theorem range_offset (Nf : K → K → K) (o : Sym6 K) (win : List (Sym6 K × K)) :
    (∀ ei ej, eqRange (Sym6.add ei o) (Sym6.add ej o) = eqRange ei ej) ∧
    maxRange ((win.map (·.1)).map (fun e => Sym6.add e o)) = maxRange (win.map (·.1)) ∧
    cycleFatigue Nf (win.map fun p => (Sym6.add p.1 o, p.2)) = cycleFatigue Nf win := by
  refine ⟨fun ei ej => eqRange_offset ei ej o, maxRange_offset o _, ?_⟩
  unfold cycleFatigue
  rw [List.map_map, List.map_map]
  have h1 : ((fun x : Sym6 K × K => x.2) ∘ fun p : Sym6 K × K => (Sym6.add p.1 o, p.2)) = fun x => x.2 := rfl
  have h2 : ((fun x : Sym6 K × K => x.1) ∘ fun p : Sym6 K × K => (Sym6.add p.1 o, p.2)) =
      (fun e => Sym6.add e o) ∘ fun x => x.1 := rfl
  rw [h1, h2, ← List.map_map, maxRange_offset]

omit [IsStrictOrderedRing K] in
/-- **life_offset.** A constant strain offset (the same tensor at every time point of every material
point) leaves the receiver life unchanged. -/
theorem life_offset (m : Mode) (x2 y2 : K) (tR Nf : K → K → K) (o : Sym6 K) (tubes : List (Tube K)) :
    receiverLife m x2 y2 tR Nf
        (tubes.map (Tube.mapSamples (Sample.mapTensors id (fun e => Sym6.add e o)))) =
      receiverLife m x2 y2 tR Nf tubes :=
  receiverLife_mapSamples m x2 y2 tR Nf _ _ (fun _ => rfl) (fun a b => eqRange_offset a b o) tubes

end

section
variable {K : Type} [Field K] [LinearOrder K] [IsStrictOrderedRing K]

/-- **lump_repeat.** With lumped extrapolation, representing the same day `k ≥ 1` times (or a block
of days `k` times) instead of once changes neither the extrapolated damage nor the life. -/
theorem lump_repeat (k : Nat) (hk : 0 < k) :
    (∀ d N : K, extrapLump (List.replicate k d) N = extrapLump [d] N) ∧
    (∀ (D : List K) (N : K), extrapLump (List.replicate k D).flatten N = extrapLump D N) ∧
    (∀ x2 y2 f c : K, maxCycles .lump x2 y2 (List.replicate k f) (List.replicate k c) =
      maxCycles .lump x2 y2 [f] [c]) := by
  refine ⟨extrapLump_replicate k hk, extrapLump_flatten_replicate k hk, ?_⟩
  intro x2 y2 f c
  simp only [maxCycles, maxCyclesLump, extrapLump_replicate k hk]

/-- **life_scale.** Multiplying every per-cycle damage by `l > 0` divides the crossing by `l`, and
the reported life with it as long as the scaled life stays inside the bracket `[1, 10⁶)`. -/
theorem life_scale {x2 y2 : K} (hk : Knee x2 y2) {l : K} (hl : 0 < l) :
    (∀ f c : K, Ncross x2 y2 (l * f) (l * c) = Ncross x2 y2 f c / l) ∧
    (∀ (Df Dc : List K) (n : K), (∀ d ∈ Df, 0 ≤ d) → (∀ d ∈ Dc, 0 ≤ d) →
      maxCycles .lump x2 y2 Df Dc = .finite n → 1 ≤ n / l → n / l < 1000000 →
      maxCycles .lump x2 y2 (Df.map (l * ·)) (Dc.map (l * ·)) = .finite (n / l)) :=
  ⟨fun _ _ => Ncross_scale hl,
   fun _ _ _ hDf hDc h h1 h2 =>
    maxCyclesLump_scale hk.hx0 hk.hx1 hk.hy0 hk.hy1 hDf hDc hl h h1 h2⟩

/-- **life_antitone.** (i) day-by-day larger per-cycle damages at a point give a life that is not
larger (lumped); (ii) point-by-point smaller lives give a smaller minimum; (iii) adding tubes
(a minimum over a superset) never raises the life. -/
theorem life_antitone {x2 y2 : K} (hk : Knee x2 y2) :
    (∀ Df Dc Df' Dc' : List K, (∀ d ∈ Df, 0 ≤ d) → (∀ d ∈ Dc, 0 ≤ d) →
      List.Forall₂ (· ≤ ·) Df Df' → List.Forall₂ (· ≤ ·) Dc Dc' →
      Life.le (maxCycles .lump x2 y2 Df' Dc') (maxCycles .lump x2 y2 Df Dc)) ∧
    (∀ {α : Type} (f g : α → Life K) (l : List α), (∀ a ∈ l, Life.le (f a) (g a)) →
      Life.le (lifeMin (l.map f)) (lifeMin (l.map g))) ∧
    (∀ l₁ l₂ : List (Life K), (∀ x ∈ l₁, x ∈ l₂) → Life.le (lifeMin l₂) (lifeMin l₁)) := by
  refine ⟨?_, fun f g l h => lifeMin_mono f g l h, fun _ _ h => lifeMin_le_of_subset h⟩
  intro Df Dc Df' Dc' hDf hDc hff hcc
  have nn : ∀ {D D' : List K}, (∀ d ∈ D, 0 ≤ d) → List.Forall₂ (· ≤ ·) D D' → ∀ d ∈ D', 0 ≤ d := by
    intro D D' hD h
    induction h with
    | nil => intro d hd; cases hd
    | @cons a b l l' hab _ ih =>
      intro d hd
      rcases List.mem_cons.mp hd with h' | h'
      · rw [h']; exact le_trans (hD a List.mem_cons_self) hab
      · exact ih (fun d hd => hD d (List.mem_cons_of_mem _ hd)) d h'
  exact maxCyclesLump_antitone hk.hx0 hk.hx1 hk.hy0 hk.hy1 hDf hDc (nn hDf hff) (nn hDc hcc)
    (extrapLump_le_of_forall₂ hff) (extrapLump_le_of_forall₂ hcc)

omit [IsStrictOrderedRing K] in
/-- adding a tube never raises the receiver life -/
theorem add_tube [Transc K] (m : Mode) (x2 y2 : K) (tR Nf : K → K → K) (t : Tube K)
    (tubes : List (Tube K)) :
    Life.le (receiverLife m x2 y2 tR Nf (t :: tubes)) (receiverLife m x2 y2 tR Nf tubes) := by
  unfold receiverLife
  exact lifeMin_le_of_subset (fun x hx => List.mem_map.mpr (by
    obtain ⟨u, hu, rfl⟩ := List.mem_map.mp hx
    exact ⟨u, List.mem_cons_of_mem _ hu, rfl⟩))

/-- **worse_loads.** With positive rupture times that do not increase and positive cycles to
failure that are antitone in the strain range, raising the effective stress (i.e. lowering the
rupture time at the end of any interval) or raising the pairwise strain ranges never lowers the
per-cycle damages — which by `life_antitone` never raises the life. -/
theorem worse_loads [Transc K] (tR Nf : K → K → K) (htR : ∀ T s, 0 < tR T s) (hNf : ∀ T e, 0 < Nf T e)
    (hanti : ∀ T e e', e ≤ e' → Nf T e' ≤ Nf T e) :
    (∀ l l' : List (K × Sym6 K × K),
      List.Forall₂ (fun p q => p.1 = q.1 ∧ tR q.2.2 (vonMises q.2.1) ≤ tR p.2.2 (vonMises p.2.1)) l l' →
      l.IsChain (fun p q => p.1 ≤ q.1) → creepCycle tR l ≤ creepCycle tR l') ∧
    (∀ win win' : List (Sym6 K × K), maxTemp (win.map (·.2)) = maxTemp (win'.map (·.2)) →
      maxRange (win.map (·.1)) ≤ maxRange (win'.map (·.1)) →
      cycleFatigue Nf win ≤ cycleFatigue Nf win') :=
  ⟨fun l l' h hc => creepCycle_mono tR htR l l' h hc,
   fun win win' hT he => cycleFatigue_mono Nf hNf hanti win win' hT he⟩

end

/-! ### non-vacuity (on `ℚ`) -/

/-- a proper rotation that is not the identity (3-4-5 about z) satisfies the hypothesis -/
example : (!![3/5, -4/5, 0; 4/5, 3/5, 0; 0, 0, 1] : Matrix (Fin 3) (Fin 3) ℚ)ᵀ *
    !![3/5, -4/5, 0; 4/5, 3/5, 0; 0, 0, 1] = 1 := by
  ext i j
  fin_cases i <;> fin_cases j <;>
    simp [Matrix.mul_apply, Fin.sum_univ_three, Matrix.transpose_apply] <;> norm_num

/-- and it really changes the stored components -/
example : Sym6.rot (!![3/5, -4/5, 0; 4/5, 3/5, 0; 0, 0, 1] : Matrix (Fin 3) (Fin 3) ℚ) ⟨1, 0, 0, 0, 0, 0⟩ =
    ⟨9/25, 16/25, 0, 0, 0, 12/25⟩ := by
  simp only [Sym6.rot, Sym6.ofMat, Sym6.toMat]
  congr 1 <;>
    simp [Matrix.mul_apply, Fin.sum_univ_three, Matrix.transpose_apply] <;> norm_num

/-- while the invariant stays put: `vonMisesSq = 1` before and after -/
example : vonMisesSq (⟨1, 0, 0, 0, 0, 0⟩ : Sym6 ℚ) = 1 ∧
    vonMisesSq (⟨9/25, 16/25, 0, 0, 0, 12/25⟩ : Sym6 ℚ) = 1 := by
  constructor <;> norm_num [vonMisesSq, SrModel.Damage.sq]

example : extrapLump (List.replicate 3 (2 : ℚ)) 10 = extrapLump [2] 10 := by
  norm_num [extrapLump, sumL, List.replicate]

/-- scaling by 2 halves the life (`3000/67 → 1500/67`), both strictly inside the bracket -/
example : maxCycles .lump (3/10 : ℚ) (3/10) ([1/1000, 1/1000].map (2 * ·)) ([1/100, 3/100].map (2 * ·)) =
    .finite (3000/67 / 2) := by
  norm_num [maxCycles, maxCyclesLump, insideEnv, extrapLump, sumL, Ncross, repMin, repMax]

example : List.Perm [1, 2, 3] [3, 1, 2] := by decide

end SrProps.C09
