import SrProofs.H5

/-!
# C16 — saving and reloading a receiver changes nothing, including downstream results

Model: `SrModel.H5` (typed Python values, HDF5 tree with h5py's iteration order, `save` / `load` of
`Receiver`, `Panel`, `Tube`, the four thermal BC kinds, `PressureBC`, flow paths; `convertToSpring`).
The theorems hold for **every** receiver: any number of panels, tubes, flow paths, result fields, any
names, any option values, any abstraction, any combination of boundary conditions.  `WF` only says
that the names of a dictionary are distinct (which a Python `dict` guarantees).

`≈` is `Receiver.Sim` (`SrProofs/H5.lean`): same panel / tube / flow-path names **in the same
order**, same values (floats bit-equal, arrays equal in dtype, shape and elements), scalar types equal
or widened `int ↦ np.int64`, `float ↦ np.float64`, `bool ↦ np.bool_`; a result dictionary has the same
names (the reloaded one lists them in name order) and the same array under every name.
-/
namespace SrProps.C16
open SrModel.H5

/-- **roundtrip.** `load (save r)` succeeds and is `≈ r`. -/
theorem roundtrip (r : Receiver) (h : r.WF) :
    ∃ r', loadReceiver r.save = some r' ∧ r.Sim r' :=
  ⟨r.norm, by rw [Receiver.save, loadReceiver_saveWith true r h, Receiver.normWith_true], Receiver.sim_norm r h⟩

/-- the reloaded receiver is exactly the canonical form `norm r` (types widened, result
dictionaries in name order, nothing else touched) -/
theorem roundtrip_norm (r : Receiver) (h : r.WF) : loadReceiver r.save = some r.norm := by
  rw [Receiver.save, loadReceiver_saveWith true r h, Receiver.normWith_true]

/-- order: panels, the tubes of every panel and the flow paths reload under the same names in the
same order -/
theorem roundtrip_order (r : Receiver) :
    keys r.norm.panels = keys r.panels ∧ r.norm.flowpaths = r.flowpaths ∧
    List.Forall₂ (fun p p' => keys p'.2.tubes = keys p.2.tubes) r.panels r.norm.panels := by
  refine ⟨keys_map_snd _ _, rfl, ?_⟩
  simp only [Receiver.norm]
  induction r.panels with
  | nil => exact List.Forall₂.nil
  | cons x xs ih => exact List.Forall₂.cons (keys_map_snd _ _) ih

/-- **roundtrip_options.** The stiffness options of the reloaded receiver — of the receiver itself
and of every panel — convert to the same spring (same kind, same value) as the originals, for
textual options (also invalid ones: same error), `float`, `int`, `np.float64`, `np.int64`;
the only exception is a Python `bool` (see `bool_option_witness`). -/
theorem roundtrip_options (r : Receiver) (h : r.WF) :
    ∃ r', loadReceiver r.save = some r' ∧
      ((∀ b, r.stiffness ≠ .pyBool b) → convertToSpring r'.stiffness = convertToSpring r.stiffness) ∧
      List.Forall₂ (fun p p' => p'.1 = p.1 ∧ ((∀ b, p.2.stiffness ≠ .pyBool b) →
        convertToSpring p'.2.stiffness = convertToSpring p.2.stiffness)) r.panels r'.panels := by
  refine ⟨r.norm, roundtrip_norm r h, fun hb => convertToSpring_h5 _ hb, ?_⟩
  simp only [Receiver.norm]
  induction r.panels with
  | nil => exact List.Forall₂.nil
  | cons x xs ih => exact List.Forall₂.cons ⟨rfl, fun hb => convertToSpring_h5 _ hb⟩ ih

/-- integer-typed options in particular: an `int` stiffness reloads as `np.int64` and still is a
linear spring of the same value -/
theorem roundtrip_int_option (i : Int) :
    convertToSpring (PyVal.pyInt i).h5 = .linear (.int i) ∧ convertToSpring (.pyInt i) = .linear (.int i) :=
  ⟨rfl, rfl⟩

/-- **bc_dispatch.** Each of the four thermal kinds reloads through `ThermalBC.load` as the same
kind with equal fields (`≈`: scalars widened, arrays equal); a pressure condition reloads equal. -/
theorem bc_dispatch (bc : ThermalBC) :
    ∃ bc', loadThermal bc.save = some bc' ∧ bc'.kind = bc.kind ∧ bc.Sim bc' :=
  ⟨bc.norm, loadThermal_save bc, by cases bc <;> rfl, ThermalBC.sim_norm bc⟩

theorem bc_dispatch_pressure (p : PressureBC) : loadPressure p.save = some p := loadPressure_save p

/-- an unknown `type` attribute is an error, never a silent default -/
theorem bc_dispatch_unknown (s : String) (attrs : List (String × PyVal)) (kids : List (String × Node))
    (h : s ∉ ["HeatFlux", "Convective", "FixedTemp", "FilmCoefficientConvective"]) :
    loadThermal (.group false (("type", .pyStr s) :: attrs) kids) = none := by
  simp only [List.mem_cons, List.not_mem_nil, or_false, not_or] at h
  simp [loadThermal, Node.attr?, List.lookup, h.1, h.2.1, h.2.2.1, h.2.2.2]

/-- **downstream_equal** (model level). Any analysis stage `f` that depends on the receiver only
through what `≈` preserves — names and their order, values, arrays, result fields by name — gives
the same result on the reloaded receiver as on the original. -/
theorem downstream_equal {β : Type} (f : Receiver → β) (hf : ∀ a b, a.Sim b → f b = f a)
    (r : Receiver) (h : r.WF) : (loadReceiver r.save).map f = some (f r) := by
  obtain ⟨r', hl, hs⟩ := roundtrip r h
  rw [hl, Option.map_some, hf r r' hs]

/-- saving the reloaded receiver again and reloading gives the same receiver: the canonical form is
a fixed point (a results file can be re-saved any number of times) -/
theorem roundtrip_twice (r : Receiver) (h : r.WF) :
    ∃ r'', loadReceiver r.norm.save = some r'' ∧ r.Sim r'' ∧ r''.stiffness = r.norm.stiffness := by
  refine ⟨r.norm.norm, roundtrip_norm _ (Receiver.wf_norm r h), ?_, h5_idem _⟩
  have h1 := Receiver.sim_norm r h
  -- `norm` is idempotent on scalars and name order; relate `r` to `norm (norm r)` directly
  have hidem : r.norm.norm = r.norm := by
    obtain ⟨pe, da, st, panels, flows⟩ := r
    simp only [Receiver.norm, h5_idem, List.map_map, Receiver.mk.injEq, true_and, and_true]
    apply List.map_congr_left
    intro kv _
    simp only [Function.comp, Panel.norm, h5_idem, List.map_map, Prod.mk.injEq, true_and, Panel.mk.injEq]
    apply List.map_congr_left
    intro tv _
    obtain ⟨tn, t⟩ := tv
    simp only [Function.comp, Prod.mk.injEq, true_and]
    obtain ⟨r, tt, hh, nr, nt, nz, T0, mult, abs, times, res, quad, ax, obc, ibc, pbc⟩ := t
    simp only [Tube.norm, h5_idem, byName_idem, Tube.mk.injEq, true_and, and_true]
    refine ⟨by cases abs <;> simp [Abstraction.norm, h5_idem], ?_, ?_⟩
    · cases obc with
      | none => rfl
      | some bc => cases bc <;> simp [ThermalBC.norm, h5_idem]
    · cases ibc with
      | none => rfl
      | some bc => cases bc <;> simp [ThermalBC.norm, h5_idem]
  rw [hidem]; exact h1

/-! ### non-vacuity and witnesses -/

def emptyTube : Tube :=
  { r := .pyFloat 1, t := .pyFloat 2, h := .pyFloat 3, nr := .pyInt 3, nt := .pyInt 4, nz := .pyInt 2,
    T0 := .pyFloat 0, multiplier := .pyInt 1, abstraction := .d1 (.pyFloat 5) (.pyFloat 6),
    times := .f64 [2] [0, 1], results := [("zeta", .f64 [2, 3] [1, 2, 3, 4, 5, 6]), ("alpha", .f64 [2, 3] [6, 5, 4, 3, 2, 1])],
    quadrature := [], axial := [],
    outerBc := some (.heatFlux (.pyFloat 1) (.pyFloat 3) (.pyInt 1) (.pyInt 2) (.f64 [2] [0, 1]) (.f64 [2, 1, 2] [1, 2, 3, 4])),
    innerBc := some (.film (.pyFloat 1) (.pyFloat 3) (.pyInt 2) (.f64 [2] [7, 8]) (.f64 [2] [9, 10])),
    pressureBc := some ⟨.f64 [2] [0, 1], .f64 [2] [5, 5]⟩ }

def sample : Receiver :=
  { period := .pyFloat 24, days := .pyInt 1, stiffness := .pyInt 5,
    panels := [("b", ⟨.pyStr "rigid", [("10", emptyTube), ("2", emptyTube)]⟩), ("a", ⟨.pyFloat 7, []⟩),
               ("10", ⟨.pyInt 3, []⟩), ("2", ⟨.pyStr "disconnect", []⟩)],
    flowpaths := [("z", ⟨["a", "b"], .f64 [1] [0], .f64 [1] [1], .f64 [1] [2]⟩), ("0", ⟨[], .f64 [1] [0], .f64 [1] [1], .f64 [1] [2]⟩)] }

theorem emptyTube_wf : emptyTube.WF := ⟨by decide, by decide, by decide⟩

theorem sample_wf : sample.WF := by
  refine ⟨by decide, by decide, ?_⟩
  intro kv hkv
  simp only [sample, List.mem_cons, List.not_mem_nil, or_false] at hkv
  rcases hkv with rfl | rfl | rfl | rfl
  · refine ⟨by decide, ?_⟩
    intro tv htv
    simp only [List.mem_cons, List.not_mem_nil, or_false] at htv
    rcases htv with rfl | rfl <;> exact emptyTube_wf
  all_goals exact ⟨by decide, fun tv htv => by simp at htv⟩

/-- a concrete receiver with unsorted panel and tube names, all option types, a 1D tube with two
result fields and three boundary conditions satisfies the hypotheses: it reloads as its canonical
form, with panels in the order `b a 10 2`, tubes `10 2`, flow paths `z 0`, the `int` stiffness as
`np.int64`; the result fields come back in name order `alpha zeta`. -/
example : loadReceiver sample.save = some sample.norm := roundtrip_norm sample sample_wf

example : keys sample.norm.panels = ["b", "a", "10", "2"] ∧ keys sample.norm.flowpaths = ["z", "0"] ∧
    sample.norm.panels.map (fun p => keys p.2.tubes) = [["10", "2"], [], [], []] ∧
    sample.norm.stiffness = .npInt64 5 := by decide

example : keys emptyTube.norm.results = ["alpha", "zeta"] := by
  simp [keys, Tube.norm, emptyTube, byName, List.mergeSort, List.MergeSort.Internal.splitInTwo]

/-- **F10 (pinned commit).** Written without `track_order` the same receiver reloads with panels
and flow paths in name order. -/
theorem pinned_order_witness :
    ∃ r', loadReceiver (sample.saveWith false) = some r' ∧
      keys r'.panels = ["10", "2", "a", "b"] ∧ keys r'.flowpaths = ["0", "z"] := by
  refine ⟨_, loadReceiver_saveWith false sample sample_wf, ?_, ?_⟩
  · simp [keys, Receiver.normWith, sample, byName, List.mergeSort, List.MergeSort.Internal.splitInTwo]
  · simp [keys, Receiver.normWith, sample, byName, List.mergeSort, List.MergeSort.Internal.splitInTwo]

/-- **F9 (pinned commit).** `isinstance(thing, (float, int))` accepts an `int` stiffness in memory
but rejects the `np.int64` it reloads as: the conversion differs across a reload. -/
theorem pinned_int_witness :
    convertToSpringPinned (.pyInt 5) = .linear (.int 5) ∧ convertToSpringPinned (PyVal.pyInt 5).h5 = .cannotConvert :=
  ⟨rfl, rfl⟩

/-- a Python `bool` option is the one value whose conversion changes across a reload: `True` is a
`numbers.Real` (a linear spring of stiffness 1) but reloads as `np.bool_`, which is not. -/
theorem bool_option_witness (b : Bool) :
    convertToSpring (.pyBool b) = .linear (.bool b) ∧ convertToSpring (PyVal.pyBool b).h5 = .cannotConvert :=
  ⟨rfl, rfl⟩

example : convertToSpring (.pyStr "rigid") = .special "rigid" := by decide
example : convertToSpring (.pyStr "Rigid") = .badString := by decide
example : convertToSpring (.npFloat64 7) = .linear (.float 7) := rfl

end SrProps.C16
