import SrProofs.Thermal

/-!
# C06 — solid temperatures obey the discrete maximum principle

Model: `SrModel.Thermal` — the linear system that one implicit step of
`FiniteDifferenceImplicitThermalProblem.solve_step` solves, in 1-D, 2-D and 3-D, for **every**
grid size, step size `Δt > 0`, (lagged) coefficient field and wall kind.  `P.Solves T` says `T`
satisfies every assembled row.  Hypothesis `WeightsNonneg` is implied by physical positivity
(`weightsNonneg_of_pos`: `c ≥ 0`, `r_i > 0`, all half-cell radii `≥ 0`, i.e. `dr ≤ 2·r_inner` —
the excluded corner is known finding F17).
-/
namespace SrProps.C06
open SrModel.Thermal

/-- data of a step lie in `[lo, hi]`: previous temperatures (no source: the right-hand side of a
real row is `Tⁿ`), prescribed wall temperatures, fluid temperatures; film numbers `dr·h/k ≥ 0`;
prescribed-flux walls carry zero flux (heat input is treated in `nonneg_flux_no_cooling`) -/
structure DataIn (P : Prob ℝ) (lo hi : ℝ) : Prop where
  rhs  : ∀ i j k, P.isRealI i = true → P.isRealJ j = true → P.isRealK k = true →
           lo ≤ P.rhsReal i j k ∧ P.rhsReal i j k ≤ hi
  inU  : P.inner.UpperOK P.dr (fun j k => P.kk 1 j k) hi P.isRealJ P.isRealK
  inL  : P.inner.LowerOK P.dr (fun j k => P.kk 1 j k) lo P.isRealJ P.isRealK
  outU : P.outer.UpperOK P.dr (fun j k => P.kk P.N j k) hi P.isRealJ P.isRealK
  outL : P.outer.LowerOK P.dr (fun j k => P.kk P.N j k) lo P.isRealJ P.isRealK

/-- **max_principle.** Every real-node value of every solution of a transient step lies between
the smallest and the largest of the data — for every `Δt > 0`, every grid, 1-D/2-D/3-D. -/
theorem max_principle (P : Prob ℝ) (T : GField ℝ) (lo hi : ℝ)
    (hs : P.Sized) (hst : P.steady = false) (hdt : 0 < P.dt) (hw : P.WeightsNonneg)
    (hsol : P.Solves T) (hd : DataIn P lo hi) :
    ∀ i j k, P.isRealI i = true → P.isRealJ j = true → P.isRealK k = true →
      lo ≤ T i j k ∧ T i j k ≤ hi := by
  intro i j k hi' hj hk
  exact ⟨max_principle_lower P T lo hs hst hdt hw hsol (fun i j k a b c => (hd.rhs i j k a b c).1)
            hd.inL hd.outL i j k hi' hj hk,
         max_principle_upper P T hi hs hst hdt hw hsol (fun i j k a b c => (hd.rhs i j k a b c).2)
            hd.inU hd.outU i j k hi' hj hk⟩

/-- the physical positivity that gives non-negative weights -/
theorem weights_of_physical (P : Prob ℝ) (hc : ∀ i j k, 0 ≤ P.c i j k)
    (hr : ∀ i, P.isRealI i = true → 0 < P.rr i) (hrh : ∀ i, i ≤ P.N → 0 ≤ P.rh i) :
    P.WeightsNonneg := weightsNonneg_of_pos P hc hr hrh

/-- **max_principle_history.** Whole histories (any number of steps and sub-steps, any step
sizes, coefficients re-evaluated each step): if every step's wall data lie in `[lo,hi]`, there
is no source, and each step starts from the previous result, then every stored real-node
temperature stays in `[lo,hi]`. -/
theorem max_principle_history (P : Nat → Prob ℝ) (T : Nat → GField ℝ) (lo hi : ℝ)
    (real : Nat → Nat → Nat → Prop)
    (hreal : ∀ n i j k, real i j k ↔
      ((P n).isRealI i = true ∧ (P n).isRealJ j = true ∧ (P n).isRealK k = true))
    (hs : ∀ n, (P n).Sized) (hst : ∀ n, (P n).steady = false) (hdt : ∀ n, 0 < (P n).dt)
    (hw : ∀ n, (P n).WeightsNonneg)
    (hsol : ∀ n, (P n).Solves (T (n+1)))
    (hprev : ∀ n i j k, real i j k → (P n).rhsReal i j k = T n i j k)
    (hinU : ∀ n, (P n).inner.UpperOK (P n).dr (fun j k => (P n).kk 1 j k) hi (P n).isRealJ (P n).isRealK)
    (hinL : ∀ n, (P n).inner.LowerOK (P n).dr (fun j k => (P n).kk 1 j k) lo (P n).isRealJ (P n).isRealK)
    (houtU : ∀ n, (P n).outer.UpperOK (P n).dr (fun j k => (P n).kk (P n).N j k) hi (P n).isRealJ (P n).isRealK)
    (houtL : ∀ n, (P n).outer.LowerOK (P n).dr (fun j k => (P n).kk (P n).N j k) lo (P n).isRealJ (P n).isRealK)
    (h0 : ∀ i j k, real i j k → lo ≤ T 0 i j k ∧ T 0 i j k ≤ hi) :
    ∀ n i j k, real i j k → lo ≤ T n i j k ∧ T n i j k ≤ hi := by
  intro n
  induction n with
  | zero => exact h0
  | succ n ih =>
    intro i j k hr
    have hd : DataIn (P n) lo hi := by
      refine ⟨?_, hinU n, hinL n, houtU n, houtL n⟩
      intro i j k a b c
      have hr' := (hreal n i j k).2 ⟨a, b, c⟩
      rw [hprev n i j k hr']; exact ih i j k hr'
    obtain ⟨a, b, c⟩ := (hreal n i j k).1 hr
    exact max_principle (P n) (T (n+1)) lo hi (hs n) (hst n) (hdt n) (hw n) (hsol n) hd i j k a b c

/-- **uniform_stays_uniform.** Insulated tube, no source, uniform previous field `u`: every
solution of the step equals `u` at every real node (so the uniform field is kept for ever). -/
theorem uniform_stays_uniform (P : Prob ℝ) (T : GField ℝ) (u : ℝ)
    (hs : P.Sized) (hst : P.steady = false) (hdt : 0 < P.dt) (hw : P.WeightsNonneg)
    (hsol : P.Solves T) (hin : P.inner = .ins) (hout : P.outer = .ins)
    (hu : ∀ i j k, P.isRealI i = true → P.isRealJ j = true → P.isRealK k = true →
      P.rhsReal i j k = u) :
    ∀ i j k, P.isRealI i = true → P.isRealJ j = true → P.isRealK k = true → T i j k = u := by
  have hd : DataIn P u u := by
    refine ⟨fun i j k a b c => by rw [hu i j k a b c]; exact ⟨le_refl _, le_refl _⟩, ?_, ?_, ?_, ?_⟩ <;>
      simp [hin, hout, Wall.UpperOK, Wall.LowerOK]
  intro i j k a b c
  have := max_principle P T u u hs hst hdt hw hsol hd i j k a b c
  linarith [this.1, this.2]

/-- the uniform field *is* a solution of the insulated step (existence side) -/
theorem uniform_solves (P : Prob ℝ) (u : ℝ) (hst : P.steady = false)
    (hin : P.inner = .ins) (hout : P.outer = .ins)
    (hu : ∀ i j k, P.rhsReal i j k = u) : P.Solves (fun _ _ _ => u) := by
  refine ⟨?_, ?_, ?_, ?_, ?_⟩
  · intro i j k _ _ _
    simp [Prob.lhsReal, Prob.applyA, hst, hu]
  · intro j k _ _; simp [Prob.innerRes, hin]
  · intro j k _ _; simp [Prob.outerRes, hout]
  · intro _ i k _ _; simp
  · intro _ i j _ _; simp

/-- **nonneg_flux_no_cooling.** Walls insulated or carrying non-negative prescribed heat input,
no source: no real node falls below the previous minimum. -/
theorem nonneg_flux_no_cooling (P : Prob ℝ) (T : GField ℝ) (B : ℝ)
    (hs : P.Sized) (hst : P.steady = false) (hdt : 0 < P.dt) (hw : P.WeightsNonneg)
    (hsol : P.Solves T)
    (hprev : ∀ i j k, P.isRealI i = true → P.isRealJ j = true → P.isRealK k = true →
      B ≤ P.rhsReal i j k)
    (hin : P.inner = .ins ∨ ∃ q, P.inner = .flux q ∧ ∀ j k, 0 ≤ P.dr * q j k / P.kk 1 j k)
    (hout : P.outer = .ins ∨ ∃ q, P.outer = .flux q ∧ ∀ j k, 0 ≤ P.dr * q j k / P.kk P.N j k) :
    ∀ i j k, P.isRealI i = true → P.isRealJ j = true → P.isRealK k = true → B ≤ T i j k := by
  apply max_principle_lower P T B hs hst hdt hw hsol hprev
  · rcases hin with h | ⟨q, h, hq⟩ <;> rw [h] <;> simp only [Wall.LowerOK]
    exact fun j k _ _ => hq j k
  · rcases hout with h | ⟨q, h, hq⟩ <;> rw [h] <;> simp only [Wall.LowerOK]
    exact fun j k _ _ => hq j k

/-- uniqueness of the step (used to identify "the" solution in C12/C13) -/
theorem step_unique (P : Prob ℝ) (T T' : GField ℝ)
    (hs : P.Sized) (hst : P.steady = false) (hdt : 0 < P.dt) (hw : P.WeightsNonneg)
    (hconv_in : ∀ tf h, P.inner = .conv tf h → ∀ j k, 0 ≤ P.dr * h j k / P.kk 1 j k)
    (hconv_out : ∀ tf h, P.outer = .conv tf h → ∀ j k, 0 ≤ P.dr * h j k / P.kk P.N j k)
    (h1 : P.Solves T) (h2 : P.Solves T') :
    ∀ i j k, P.isRealI i = true → P.isRealJ j = true → P.isRealK k = true → T i j k = T' i j k :=
  SrModel.Thermal.step_unique P T T' hs hst hdt hw hconv_in hconv_out h1 h2

/-! ### non-vacuity: a concrete 1-D problem meeting every hypothesis -/

/-- 1-D, two real nodes, convective inner wall (fluid at 3), fixed outer wall (at 9) -/
noncomputable def ex : Prob ℝ :=
  { ndim := 1, N := 2, Nt := 0, Nz := 0, steady := false, dt := 1, dr := 1, dth := 1, dz := 1,
    rr := fun i => 9 + i, c := fun _ _ _ => 1, kk := fun _ _ _ => 1, qc := fun _ _ _ => 1,
    src := fun _ _ _ => 0, Tn := fun _ _ _ => 5,
    inner := .conv (fun _ _ => 3) (fun _ _ => 2), outer := .fix (fun _ _ => 9) }

example : ex.Sized := ⟨by simp [ex], by simp [ex], by simp [ex]⟩
example : ex.WeightsNonneg := by
  apply weightsNonneg_of_pos
  · intro i j k; simp [ex]
  · intro i _; simp [ex]; positivity
  · intro i _; simp [ex, Prob.rh]; positivity
example : DataIn ex 3 9 := by
  refine ⟨?_, ?_, ?_, ?_, ?_⟩
  · intro i j k _ _ _; simp [ex, Prob.rhsReal]; norm_num
  all_goals simp [ex, Wall.UpperOK, Wall.LowerOK]
  all_goals norm_num

end SrProps.C06
