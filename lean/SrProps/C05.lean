import SrProofs.Ceramic
import SrProofs.Volume

/-!
# C05 — ceramic reliability obeys the Weibull laws and is frame-indifferent

Model: `SrModel.Ceramic` (the ceramic part of `srlife/damage.py`), instantiated at `ℝ`
(`Real.sqrt`, `Real.rpow`, `Real.exp`, `Real.sin`, `Real.cos`).  The theorems quantify over
**every** number of time steps, elements, orientation nodes, tubes and panels (lists), all eight
models (`Model`: PIA, WNTSA, six Batdorf models) and both branches (all times zero /
time-dependent) unless a statement says otherwise.

`OK tolg tot g par V ts` bundles the hypotheses: `0 < m`, `0 ≤ k`, `2 < N`, `0 < B`, `0 ≤ V`,
`0 < tolg` (tolerance of the g-factor), `0 ≤ tot` (service time), time axis non-decreasing with
non-negative last entry, orientation weights `sin A, dα, dβ ≥ 0` and `cos A ≥ 0` on the grid
(the latter is used by the `k̄` of the Batdorf models only).
-/
namespace SrProps.C05
open SrModel SrModel.Ceramic

/-- **assemble_roundtrip.** What `tube_log_reliability` builds from the stored tensor components
and `calculate_principal_stress` turns back into a tensor is the stored tensor:
`√2·x/√2 = x` on the shear components. -/
theorem assemble_roundtrip (S : Sym3 ℝ) : toTensor (assemble (storedOf S)) = S := roundtrip S

/-- **frame_indifferent.** If the eigen-solver gives the same principal values for `S` and
`Q S Qᵀ` (the `eigvalsh` contract, see `eigvalsh_contract`), then for each of the eight models,
both branches, the element log-reliabilities computed from the stored components of the rotated
history equal those of the unrotated history. -/
theorem frame_indifferent (eig : Sym3 ℝ → P3 ℝ) (Q : Matrix (Fin 3) (Fin 3) ℝ)
    (heig : ∀ S, eig (rotate Q S) = eig S)
    (mdl : Model) (cares : Bool) (tol tolg tot : ℝ) (g : Grid ℝ) (par : Par ℝ) (V : ℝ)
    (ts : List ℝ) (Ss : List (Sym3 ℝ)) :
    elemLog eig mdl cares tol tolg tot g par V ts (Ss.map fun S => storedOf (rotate Q S))
      = elemLog eig mdl cares tol tolg tot g par V ts (Ss.map storedOf) := by
  unfold elemLog
  congr 1
  rw [List.map_map, List.map_map]
  apply List.map_congr_left
  intro S _
  simp only [Function.comp, roundtrip, heig]

/-- **frame_indifferent** through the quadrature average: the tube stores one tensor per
quadrature point, `tube_log_reliability` averages the stored components over the quadrature
points of an element (`meanStored`) before anything else.  Rotating every quadrature-point tensor
by the same `Q` leaves every model's element log-reliabilities unchanged. -/
theorem frame_indifferent_quadrature (eig : Sym3 ℝ → P3 ℝ) (Q : Matrix (Fin 3) (Fin 3) ℝ)
    (heig : ∀ S, eig (rotate Q S) = eig S)
    (mdl : Model) (cares : Bool) (tol tolg tot : ℝ) (g : Grid ℝ) (par : Par ℝ) (V : ℝ)
    (ts : List ℝ) (Ss : List (List (Sym3 ℝ))) :
    elemLog eig mdl cares tol tolg tot g par V ts
        (Ss.map fun qs => meanStored ((qs.map (rotate Q)).map storedOf))
      = elemLog eig mdl cares tol tolg tot g par V ts
        (Ss.map fun qs => meanStored (qs.map storedOf)) := by
  unfold elemLog
  congr 1
  rw [List.map_map, List.map_map]
  apply List.map_congr_left
  intro qs _
  simp only [Function.comp, meanStored_storedOf, meanSym_rotate, roundtrip, heig]

/-- **eigvalsh_contract** (the hypothesis of `frame_indifferent`, discharged): every `eig` that is
a function of the characteristic polynomial of the tensor — in particular the sorted eigenvalues —
is invariant under `S ↦ Q S Qᵀ` for orthogonal `Q`. -/
theorem eigvalsh_contract {β : Type} (eig : Sym3 ℝ → β) (f : Polynomial ℝ → β)
    (hf : ∀ S, eig S = f S.toMatrix.charpoly)
    (Q : Matrix (Fin 3) (Fin 3) ℝ) (hQ : Q * Q.transpose = 1) (S : Sym3 ℝ) :
    eig (rotate Q S) = eig S := eig_rotate_of_charpoly eig f hf Q hQ S

/-- **reliability_range** (element level).  Every entry of every model's element
log-reliability is `≤ 0`; the reliability `exp(·)` lies in `(0, 1]`. -/
theorem reliability_range {tolg tot : ℝ} {g : Grid ℝ} {par : Par ℝ} {V : ℝ} {ts : List ℝ}
    (h : OK tolg tot g par V ts) (mdl : Model) (cares : Bool) (tol : ℝ) (raw : List (P3 ℝ)) :
    ∀ e ∈ elemLogP mdl cares tol tolg tot g par V ts raw, e ≤ 0 ∧ 0 < rel e ∧ rel e ≤ 1 := by
  intro e he
  rw [elemLogP_eq] at he
  have P := pack_ok h mdl
  have h0 := elemGen_nonpos P.post h.td P.ti_nonneg P.td_nonneg P.rm_nonneg _ e he
  exact ⟨h0, rel_range h0⟩

/-- **reliability_range** (tube level): with all element entries `≤ 0`, the tube
log-reliability (sum over elements, min over time) is `≤ 0`, reliability in `(0, 1]`. -/
theorem reliability_range_tube (n : ℕ) (elems : List (List ℝ)) (h : ∀ l ∈ elems, ∀ e ∈ l, e ≤ 0) :
    tubeLog n elems ≤ 0 ∧ 0 < rel (tubeLog n elems) ∧ rel (tubeLog n elems) ≤ 1 := by
  have h0 : tubeLog n elems ≤ 0 := by
    rcases Nat.eq_zero_or_pos n with rfl | hn
    · simp [tubeLog, tubeSeries, minList]
    · rw [tubeLog_eq hn]
      apply sumL_nonpos
      intro y hy
      obtain ⟨l, hl, rfl⟩ := List.mem_map.mp hy
      exact sumL_nonpos (h l hl)
  exact ⟨h0, rel_range h0⟩

/-- **reliability_range** (panel and receiver level): tube log-reliabilities `≤ 0` and
multipliers `≥ 0` give panel and overall log-reliabilities `≤ 0`, reliabilities in `(0, 1]`,
for any (ragged) panel sizes. -/
theorem reliability_range_receiver (panels : List (List (ℝ × ℝ)))
    (h : ∀ p ∈ panels, ∀ t ∈ p, t.1 ≤ 0 ∧ 0 ≤ t.2) :
    (∀ p ∈ panels, panelLog p ≤ 0 ∧ 0 < rel (panelLog p) ∧ rel (panelLog p) ≤ 1) ∧
      overallLog panels ≤ 0 ∧ 0 < rel (overallLog panels) ∧ rel (overallLog panels) ≤ 1 := by
  refine ⟨fun p hp => ?_, ?_⟩
  · have h0 := panelLog_nonpos (h p hp); exact ⟨h0, rel_range h0⟩
  · have h0 := overallLog_nonpos h; exact ⟨h0, rel_range h0⟩

/-- **volume_linear.** Every entry is `V ×` the entry computed with unit volume (no hypotheses). -/
theorem volume_linear (mdl : Model) (cares : Bool) (tol tolg tot : ℝ) (g : Grid ℝ) (par : Par ℝ)
    (V : ℝ) (ts : List ℝ) (raw : List (P3 ℝ)) :
    elemLogP mdl cares tol tolg tot g par V ts raw
      = (elemLogP mdl cares tol tolg tot g par 1 ts raw).map (· * V) := by
  cases mdl <;>
    simp only [elemLogP, piaElem, wntsaElem, batElem, elemGen] <;>
    split_ifs <;>
    simp only [List.map_map, List.map_cons, List.map_nil, piaPost, wntsaPost, batPost,
      Function.comp_def, mul_one]

/-- **pia_wntsa_compressive.** Under PIA and WNTSA, if all principal values are `≤ 0` at all
times, every entry of the element log-reliability is 0 (reliability 1), both branches,
with or without the cut-off. -/
theorem pia_wntsa_compressive (mdl : Model) (hmdl : mdl = .pia ∨ mdl = .wntsa) (cares : Bool)
    (tol tolg tot : ℝ) (g : Grid ℝ) (par : Par ℝ) (hm : 0 < par.m) (hN : 2 < par.N) (V : ℝ)
    (ts : List ℝ) (raw : List (P3 ℝ)) (hraw : ∀ p ∈ raw, p.nonpos) :
    ∀ e ∈ elemLogP mdl cares tol tolg tot g par V ts raw, e = 0 := by
  have hps : ∀ p ∈ raw.map (cutoffIf cares tol), p.nonpos := by
    intro p hp
    obtain ⟨q, hq, rfl⟩ := List.mem_map.mp hp
    exact cutoffIf_nonpos cares tol (hraw q hq)
  rcases hmdl with rfl | rfl
  · exact elemGen_zero (piaPost_zero hm.ne') (td := ⟨tolg, tot, par.N, par.B⟩) hN _
      (fun c p hp => tens_get_nonpos (hps p hp) c) (fun c p hp => tens_get_nonpos (hps p hp) c)
  · exact elemGen_zero (wntsaPost_zero hm.ne') (td := ⟨tolg, tot, par.N, par.B⟩) hN _
      (fun nd p hp => tens_sigN_nonpos (hps p hp) nd) (fun nd p hp => tens_sigN_nonpos (hps p hp) nd)

/-- **cutoff_scale.** The CARES cut-off decision for the state scaled by `λ > 0` with tolerance
`tol` is the decision for the original state with tolerance `tol/λ`; with `tol = 0` it is scale
invariant.  (With srlife's `tol = 1e-16` it is scale invariant except for states whose largest
principal value is of the order of `1e-16`.) -/
theorem cutoff_scale {lam : ℝ} (hl : 0 < lam) (tol : ℝ) (p : P3 ℝ) :
    removeB tol (P3.smul lam p) = removeB (tol / lam) p ∧
      removeB 0 (P3.smul lam p) = removeB 0 p :=
  ⟨removeB_smul hl tol p, removeB_smul_tol0 hl p⟩

/-- **t0_power_law** (all times zero — the time-independent branch).  For `λ > 0`, if the cut-off
takes the same decisions for the scaled states (`cutoff_scale`: always so for `tol = 0`), then
`logR(λσ) = λ^m · logR(σ)` entry by entry, for all eight models. -/
theorem t0_power_law {tolg tot : ℝ} {g : Grid ℝ} {par : Par ℝ} {V : ℝ} {ts : List ℝ}
    (h : OK tolg tot g par V ts) (mdl : Model) (cares : Bool) (tol : ℝ)
    (hz : allZero ts = true) {lam : ℝ} (hl : 0 < lam) (raw : List (P3 ℝ))
    (hcut : ∀ p ∈ raw, removeB tol (P3.smul lam p) = removeB tol p) :
    elemLogP mdl cares tol tolg tot g par V ts (raw.map (P3.smul lam))
      = (elemLogP mdl cares tol tolg tot g par V ts raw).map (lam ^ par.m * ·) := by
  have P := pack_ok h mdl
  rw [elemLogP_eq, elemLogP_eq, map_cutoffIf_smul cares raw hcut]
  exact elemGen_TI_homog P.post hz hl P.ti_nonneg (P.ti_smul lam hl.le) _

/-- **t0_power_law** (real time axis, service time 0).  The transformed stress of every channel is
its maximum over the cycle, and `logR(λσ) = λ^m · logR(σ)`. -/
theorem t0_power_law_service0 {tolg : ℝ} {g : Grid ℝ} {par : Par ℝ} {V : ℝ} {ts : List ℝ}
    (h : OK tolg 0 g par V ts) (mdl : Model) (cares : Bool) (tol : ℝ)
    (hz : allZero ts = false) {lam : ℝ} (hl : 0 < lam) (raw : List (P3 ℝ))
    (hcut : ∀ p ∈ raw, removeB tol (P3.smul lam p) = removeB tol p) :
    elemLogP mdl cares tol tolg 0 g par V ts raw
        = [(pack mdl g par V).post fun c =>
            maxList ((raw.map (cutoffIf cares tol)).map ((pack mdl g par V).rM c))] ∧
    elemLogP mdl cares tol tolg 0 g par V ts (raw.map (P3.smul lam))
      = (elemLogP mdl cares tol tolg 0 g par V ts raw).map (lam ^ par.m * ·) := by
  have P := pack_ok h mdl
  rw [elemLogP_eq, elemLogP_eq, map_cutoffIf_smul cares raw hcut]
  exact ⟨elemGen_TD_tot0 hz h.N_gt P.rm_nonneg _,
    elemGen_TD_tot0_homog P.post hz h.N_gt hl P.rm_nonneg (P.rm_smul lam hl.le) _⟩

/-- **mono_scale_time** (service time).  `t ≤ t'` ⇒ every entry of `logR` at `t'` is `≤` the entry
at `t` (`N > 2`, `B > 0`; monotonicity of `Real.rpow`), all eight models. -/
theorem mono_time {tolg tot tot' : ℝ} {g : Grid ℝ} {par : Par ℝ} {V : ℝ} {ts : List ℝ}
    (h : OK tolg tot g par V ts) (htt : tot ≤ tot') (mdl : Model) (cares : Bool) (tol : ℝ)
    (raw : List (P3 ℝ)) :
    List.Forall₂ (· ≤ ·) (elemLogP mdl cares tol tolg tot' g par V ts raw)
      (elemLogP mdl cares tol tolg tot g par V ts raw) := by
  have P := pack_ok h mdl
  rw [elemLogP_eq, elemLogP_eq]
  exact elemGen_mono_tot P.post h.td htt P.td_nonneg P.rm_nonneg _

/-- **mono_scale_time** (scale).  `λ ≥ 1` ⇒ every entry of `logR(λσ)` is `≤` the entry of
`logR(σ)`, both branches, all eight models (same cut-off decisions, see `cutoff_scale`). -/
theorem mono_scale {tolg tot : ℝ} {g : Grid ℝ} {par : Par ℝ} {V : ℝ} {ts : List ℝ}
    (h : OK tolg tot g par V ts) (mdl : Model) (cares : Bool) (tol : ℝ) {lam : ℝ} (hl : 1 ≤ lam)
    (raw : List (P3 ℝ)) (hcut : ∀ p ∈ raw, removeB tol (P3.smul lam p) = removeB tol p) :
    List.Forall₂ (· ≤ ·) (elemLogP mdl cares tol tolg tot g par V ts (raw.map (P3.smul lam)))
      (elemLogP mdl cares tol tolg tot g par V ts raw) := by
  have P := pack_ok h mdl
  have hl0 : (0 : ℝ) ≤ lam := by linarith
  rw [elemLogP_eq, elemLogP_eq, map_cutoffIf_smul cares raw hcut]
  exact elemGen_mono_scale P.post h.m_pos.le h.td hl P.ti_nonneg P.td_nonneg P.rm_nonneg
    (P.ti_smul lam hl0) (P.td_smul lam hl0) (P.rm_smul lam hl0) _

/-- **pia_uniaxial.** Uniaxial tension `σ_t > 0` (principal values `(0, 0, σ_t)`), all times zero:
PIA gives `logR = -V k σ^m` per time step; with `k = σ₀^(-m)` this is `-V (σ/σ₀)^m`. -/
theorem pia_uniaxial (cares : Bool) (tol tolg tot : ℝ) (g : Grid ℝ)
    (par : Par ℝ) (hm : 0 < par.m) (V : ℝ) (ts : List ℝ) (hz : allZero ts = true)
    (sig : List ℝ) (hs : ∀ σ ∈ sig, 0 < σ) :
    elemLogP .pia cares tol tolg tot g par V ts (sig.map fun σ => ⟨0, 0, σ⟩)
        = sig.map (fun σ => -V * (par.k * σ ^ par.m)) ∧
    ∀ s0 : ℝ, 0 < s0 → par.k = s0 ^ (-par.m) →
      elemLogP .pia cares tol tolg tot g par V ts (sig.map fun σ => ⟨0, 0, σ⟩)
        = sig.map (fun σ => -V * (σ / s0) ^ par.m) := by
  have key : elemLogP .pia cares tol tolg tot g par V ts (sig.map fun σ => ⟨0, 0, σ⟩)
      = sig.map (fun σ => -V * (par.k * σ ^ par.m)) := by
    simp only [elemLogP, piaElem, elemGen, hz, if_true, List.map_map]
    apply List.map_congr_left
    intro σ hσ
    have h0 := hs σ hσ
    have hcut : cutoffIf cares tol (⟨0, 0, σ⟩ : P3 ℝ) = ⟨0, 0, σ⟩ := by
      unfold cutoffIf cutoff
      cases cares
      · simp
      · have : removeB tol (⟨0, 0, σ⟩ : P3 ℝ) = false := by
          simp only [removeB, min3, max3, minNP_eq, maxNP_eq, absK_eq, min_self, max_self,
            min_eq_left h0.le, zero_div, abs_zero, decide_eq_false_iff_not, not_lt]
          norm_num
        simp [this]
    simp only [Function.comp, hcut, piaPost, P3.get, tens_of_nonneg le_rfl, tens_of_nonneg h0.le,
      pow_def, Real.zero_rpow hm.ne']
    ring
  refine ⟨key, fun s0 hs0 hk => ?_⟩
  rw [key]
  apply List.map_congr_left
  intro σ hσ
  rw [hk, Real.div_rpow (hs σ hσ).le hs0.le, Real.rpow_neg hs0.le]
  ring

/-- **batdorf_uniaxial** [stretch].  For all six Batdorf models, with `k̄` normalised on the same
grid (`kbar`), a uniaxial tension `σ_t ≥ 0` along the polar axis of the orientation grid (principal
triple `(σ_t, 0, 0)` paired with `l = cos A`), all times zero, gives exactly the uniaxial Weibull
law `-V k σ^m` per time step — for every grid built from angle pairs with `cos A, sin A ≥ 0` whose
`k̄`-sum is not 0.  (Along the other two axes the law holds only up to the quadrature rule; the
harness asserts it there within the quadrature accuracy.) -/
theorem batdorf_uniaxial (bm : BModel) {nu cbar m k V da db : ℝ}
    (pairs : List (ℝ × ℝ)) (hm : 0 < m)
    (hcos : ∀ ab ∈ pairs, 0 ≤ Real.cos ab.1) (hsin : ∀ ab ∈ pairs, 0 ≤ Real.sin ab.1)
    (hda : 0 ≤ da) (hdb : 0 ≤ db) (hnu : nu ≠ 2) (hcb : cbar ≠ 0)
    (hI : kbarI bm nu cbar m da db (pairs.map fun ab => nodeOf ab.1 ab.2) ≠ 0)
    (td : TD ℝ) (ts : List ℝ) (hz : allZero ts = true) (sig : List ℝ) (hs : ∀ σ ∈ sig, 0 ≤ σ) :
    batElem bm nu cbar m k V da db (pairs.map fun ab => nodeOf ab.1 ab.2) td ts (sig.map polar)
      = sig.map fun σ => -V * (k * σ ^ m) := by
  simp only [batElem, elemGen, hz, if_true, List.map_map]
  apply List.map_congr_left
  intro σ hσ
  exact batPost_polar bm pairs (hs σ hσ) hm hcos hsin hda hdb hnu hcb hI

/-- **F28 (pinned commit).** `MTSModelPennyShapedFlaw.calculate_kbar` as coded at the pinned commit
normalised with `sin²2A/(2-ν²)` (`kbarFPinnedMtsP`, `kbarPinnedMtsP`) where the model's own
equivalent stress implies `sin²2A/(2-ν)²`.  Witness: one orientation node at `A = π/4`, `ν = 0`,
unit increments — a uniaxial tension along the polar axis does **not** give `-V k σ^m`. -/
theorem pinned_mtsP_defect {cbar m k V σ : ℝ} (hcb : cbar ≠ 0) (hm : 0 < m) (hk : 0 < k)
    (hV : 0 < V) (hσ : 0 < σ) :
    batPost (kbarPinnedMtsP 0 m 1 1 ([(Real.pi / 4, (0 : ℝ))].map fun ab => nodeOf ab.1 ab.2))
        m k V 1 1 ([(Real.pi / 4, (0 : ℝ))].map fun ab => nodeOf ab.1 ab.2)
        (fun nd => sigEof .mtsP 0 cbar nd (polar σ))
      ≠ -V * (k * σ ^ m) :=
  pinned_mtsP_witness hcb hm hk hV hσ

/-- **aggregation.** For any (ragged) panel sizes and multipliers: the tube value is the sum over
all element entries (for `n ≥ 1` time rows), panel = Σ multiplier·tube over the panel's own tubes,
overall = Σ panel = Σ over all tubes of the receiver; `exp` turns the sums into products:
panel reliability = Π tube^multiplier, overall = Π panel. -/
theorem aggregation (n : ℕ) (hn : 0 < n) (elems : List (List ℝ)) (panels : List (List (ℝ × ℝ))) :
    tubeLog n elems = sumL (elems.map sumL) ∧
    (∀ p ∈ panels, rel (panelLog p) = prodL (p.map fun t => rel t.1 ^ t.2)) ∧
    overallLog panels = sumL (panels.map panelLog) ∧
    overallLog panels = panelLog panels.flatten ∧
    rel (overallLog panels) = prodL (panels.map fun p => rel (panelLog p)) :=
  ⟨tubeLog_eq hn elems, fun p _ => rel_panelLog p, rfl, overallLog_flatten panels,
    rel_overallLog panels⟩

/-! ### element volumes (`Tube.element_volumes`, model `SrModel.Volume` at `ℝ`, π = `Real.pi`)

The `V` of `volume_linear` is an entry of `Tube.element_volumes()`.  `vols1d/2d/3d` are the flattened
arrays `_volume1d/_volume2d/_volume3d` return, `radius`, `theta`, `height` are numpy's
`linspace`/`diff(linspace)` entries (last `linspace` entry overwritten by `stop`, as numpy does). -/
open SrModel.Volume in
/-- **volume1d_total.** The 1D element volumes `π (r_{i+1}² − r_i²) h` telescope to the volume of the
tube wall, `π (ro² − (ro−t)²) h`, for every `nr ≥ 2` (no sign hypotheses). -/
theorem volume1d_total (ro t h : ℝ) {nr : ℕ} (hn : 2 ≤ nr) :
    (vols1d Real.pi ro t h nr).sum = Real.pi * (ro ^ 2 - (ro - t) ^ 2) * h :=
  vols1d_sum ro t h hn

open SrModel.Volume in
/-- **volume2d_closed_form.** For `t ≥ 0`, `nr ≥ 2`, `nt ≥ 2` (so that `edge ≥ 0` and `cos(θ/2) ≥ 0`, which
makes `sqrt(edge² − ((b−a)/2)²) = edge·cos(θ/2)`): `θ_j = 2π/nt`, `r_i = ro − t + t·i/(nr−1)`, and the element
`(i,j)` of `_volume2d` is `½ (r_{i+1}² − r_i²) sin(2π/nt) h` — the area of the polygon sector, not of the
circular sector `½ (r_{i+1}² − r_i²) (2π/nt)`. -/
theorem volume2d_closed_form {ro t : ℝ} (ht : 0 ≤ t) (h : ℝ) {nr nt i j : ℕ} (hn : 2 ≤ nr) (hnt : 2 ≤ nt)
    (hi : i + 1 < nr) (hj : j < nt) :
    theta Real.pi nt j = 2 * Real.pi / nt ∧
    radius ro t nr i = ro - t + t * i / ((nr : ℝ) - 1) ∧
    radius ro t nr (i + 1) = ro - t + t * (i + 1 : ℕ) / ((nr : ℝ) - 1) ∧
    vol2d Real.pi ro t h nr nt i j
      = 1 / 2 * (radius ro t nr (i + 1) ^ 2 - radius ro t nr i ^ 2) * Real.sin (2 * Real.pi / nt) * h :=
  ⟨theta_eq hj, radius_eq ro t hn (by omega), radius_eq ro t hn hi,
    by unfold vol2d; rw [base2d_closed ht hn hnt hi hj]⟩

open SrModel.Volume in
/-- **volume2d_total.** `Σ_{i,j} _volume2d = (nt/2) sin(2π/nt) (ro² − (ro−t)²) h`: the volume of the regular
`nt`-gon annulus (tends to `π (ro² − (ro−t)²) h` as `nt → ∞`, and is smaller for every finite `nt`). -/
theorem volume2d_total {ro t : ℝ} (ht : 0 ≤ t) (h : ℝ) {nr nt : ℕ} (hn : 2 ≤ nr) (hnt : 2 ≤ nt) :
    (vols2d Real.pi ro t h nr nt).sum
      = (nt : ℝ) / 2 * Real.sin (2 * Real.pi / nt) * (ro ^ 2 - (ro - t) ^ 2) * h :=
  vols2d_sum ht h hn hnt

open SrModel.Volume in
/-- **volume3d_total.** Every axial slice is `h/(nz−1)` high, the element `(i,j,k)` of `_volume3d` is
`heights[k]·base[i,j]`, and the 3D total equals the 2D total (the heights telescope to `h`). -/
theorem volume3d_total {ro t : ℝ} (ht : 0 ≤ t) (h : ℝ) {nr nt nz : ℕ} (hn : 2 ≤ nr) (hnt : 2 ≤ nt)
    (hnz : 2 ≤ nz) :
    (∀ k, k + 1 < nz → height h nz k = h / ((nz : ℝ) - 1)) ∧
    (vols3d Real.pi ro t h nr nt nz).sum = (vols2d Real.pi ro t h nr nt).sum ∧
    (vols3d Real.pi ro t h nr nt nz).sum
      = (nt : ℝ) / 2 * Real.sin (2 * Real.pi / nt) * (ro ^ 2 - (ro - t) ^ 2) * h :=
  ⟨fun _ hk => height_eq h hk, vols3d_sum ro t h nr nt hnz,
    (vols3d_sum ro t h nr nt hnz).trans (vols2d_sum ht h hn hnt)⟩

open SrModel.Volume in
/-- **volume_pos.** For `0 < t < ro`, `0 < h`, `nr ≥ 2` (and `nt ≥ 3` in 2D/3D) every element volume is
positive; the arrays have `nr−1`, `(nr−1)·nt`, `(nr−1)·nt·(nz−1)` entries. -/
theorem volume_pos {ro t h : ℝ} (ht : 0 < t) (htr : t < ro) (hh : 0 < h) {nr nt : ℕ} (nz : ℕ) (hn : 2 ≤ nr)
    (hnt : 3 ≤ nt) :
    (∀ v ∈ vols1d Real.pi ro t h nr, 0 < v) ∧
    (∀ v ∈ vols2d Real.pi ro t h nr nt, 0 < v) ∧
    (∀ v ∈ vols3d Real.pi ro t h nr nt nz, 0 < v) ∧
    (vols1d Real.pi ro t h nr).length = nr - 1 ∧
    (vols2d Real.pi ro t h nr nt).length = (nr - 1) * nt ∧
    (vols3d Real.pi ro t h nr nt nz).length = (nr - 1) * nt * (nz - 1) :=
  ⟨vols1d_pos ht htr hh hn, vols2d_pos ht htr hh hn hnt, vols3d_pos ht htr hh hn hnt,
    vols1d_length .., vols2d_length .., vols3d_length ..⟩

open SrModel.Volume in
/-- **volume_linear_in_height.** Every element volume is linear in the tube height:
`volumes(c·h) = c · volumes(h)` entry by entry, 1D, 2D and 3D (no hypotheses). -/
theorem volume_linear_in_height (c ro t h : ℝ) (nr nt nz : ℕ) :
    vols1d Real.pi ro t (c * h) nr = (vols1d Real.pi ro t h nr).map (c * ·) ∧
    vols2d Real.pi ro t (c * h) nr nt = (vols2d Real.pi ro t h nr nt).map (c * ·) ∧
    vols3d Real.pi ro t (c * h) nr nt nz = (vols3d Real.pi ro t h nr nt nz).map (c * ·) :=
  ⟨vols1d_smul c ro t h nr, vols2d_smul c ro t h nr nt, vols3d_smul c ro t h nr nt nz⟩

/-! ### non-vacuity -/

/-- the hypotheses `OK` are satisfiable (a two-step time axis, one orientation node) -/
example : OK (1 / 100) 5 ⟨[nodeOf 0 0], 1, 1⟩ ⟨10, 1, 30, 320, 1 / 5, 1⟩ 2 [0, 1] := by
  refine ⟨by norm_num, by norm_num, by norm_num, by norm_num, by norm_num, by norm_num, by norm_num,
    ⟨by norm_num, trivial⟩, by simp [lastT], ?_, by norm_num, by norm_num, ?_⟩ <;>
  · intro nd hnd
    rw [List.mem_singleton] at hnd
    subst hnd
    simp [nodeOf]

/-- an `eig` satisfying the contract that is not constant: the coefficients of the characteristic
polynomial -/
example : ∃ eig : Sym3 ℝ → P3 ℝ, (∀ Q : Matrix (Fin 3) (Fin 3) ℝ, Q * Q.transpose = 1 →
    ∀ S, eig (rotate Q S) = eig S) :=
  ⟨fun S => ⟨S.toMatrix.charpoly.coeff 0, S.toMatrix.charpoly.coeff 1, S.toMatrix.charpoly.coeff 2⟩,
   fun Q hQ S => eigvalsh_contract
     (fun S : Sym3 ℝ => (⟨S.toMatrix.charpoly.coeff 0, S.toMatrix.charpoly.coeff 1,
        S.toMatrix.charpoly.coeff 2⟩ : P3 ℝ))
     (fun p => (⟨p.coeff 0, p.coeff 1, p.coeff 2⟩ : P3 ℝ)) (fun _ => rfl) Q hQ S⟩

/-- the cut-off does remove some states and keeps others (`tol = 0`) -/
example : removeB (0 : ℝ) ⟨-4, 0, 1⟩ = true ∧ removeB (0 : ℝ) ⟨-2, 0, 1⟩ = false := by
  constructor <;>
    simp only [removeB, min3, max3, minNP_eq, maxNP_eq, absK_eq] <;> norm_num

/-- the `k̄`-sum hypothesis of `batdorf_uniaxial` is satisfiable (one node at `A = π/4`) -/
example : kbarI .cseG 0 1 2 1 1 ([(Real.pi / 4, 0)].map fun ab => nodeOf ab.1 ab.2) ≠ 0 := by
  simp only [kbarI, List.map_cons, List.map_nil, sumL, nodeOf, kbarF, cos_def, sin_def,
    Real.cos_pi_div_four, Real.sin_pi_div_four]
  positivity

/-- a compressive state -/
example : (⟨-3, -1, 0⟩ : P3 ℝ).nonpos := ⟨by norm_num, by norm_num, le_rfl⟩

/-- rotation about the third axis by 90° is orthogonal and moves `xx` to `yy` -/
example : rotate (Matrix.of ![![0, -1, 0], ![1, 0, 0], ![0, 0, 1]]) ⟨1, 2, 3, 0, 0, 0⟩
    = (⟨2, 1, 3, 0, 0, 0⟩ : Sym3 ℝ) := by
  simp [rotate, Sym3.ofMatrix, Sym3.toMatrix, Matrix.mul_apply, Fin.sum_univ_three]

open SrModel.Volume in
/-- a concrete tube (`ro = 2`, `t = 1`, `h = 3`, `nr = 3`, `nt = 4`, `nz = 3`) satisfies the hypotheses of the
volume theorems; its 1D total is `9π`, its 2D and 3D totals are `18` (`sin(2π/4) = 1`), with 2, 8 and 16
positive entries -/
example :
    (vols1d Real.pi 2 1 3 3).sum = 9 * Real.pi ∧ (vols2d Real.pi 2 1 3 3 4).sum = 18 ∧
    (vols3d Real.pi 2 1 3 3 4 3).sum = 18 ∧ (vols3d Real.pi 2 1 3 3 4 3).length = 16 ∧
    (∀ v ∈ vols3d Real.pi 2 1 3 3 4 3, (0 : ℝ) < v) := by
  have hs : Real.sin (2 * Real.pi / ((4 : ℕ) : ℝ)) = 1 := by
    rw [show 2 * Real.pi / ((4 : ℕ) : ℝ) = Real.pi / 2 by push_cast; ring, Real.sin_pi_div_two]
  have h3 := volume3d_total (ro := 2) (t := 1) (by norm_num) 3 (nr := 3) (nt := 4) (nz := 3)
    (by norm_num) (by norm_num) (by norm_num)
  have hp := volume_pos (ro := 2) (t := 1) (h := 3) (by norm_num) (by norm_num) (by norm_num)
    (nr := 3) (nt := 4) 3 (by norm_num) (by norm_num)
  refine ⟨?_, ?_, ?_, hp.2.2.2.2.2, hp.2.2.1⟩
  · rw [volume1d_total 2 1 3 (by norm_num)]; ring
  · rw [volume2d_total (by norm_num) 3 (by norm_num) (by norm_num), hs]; norm_num
  · rw [h3.2.2, hs]; norm_num

end SrProps.C05
