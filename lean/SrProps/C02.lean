import SrProofs.Thermal

/-!
# C02 — solid heat transfer conserves energy

Model: `SrModel.Thermal` (the linear system of one implicit step of `solve_step`, 1-D/2-D/3-D,
all grid sizes, all step sizes, lagged coefficient fields, all wall kinds).
"Stored heat" is `energy T = Σ r_i T_i` over the real nodes (times the constant `ρ c_p Δr Δθ Δz`).
-/
namespace SrProps.C02
open SrModel.Thermal Finset

/-- **radial_telescope**: `Σ_i r_i (A_r T)_i = [(rc)_{N+½}(T_{N+1}−T_N) − (rc)_{½}(T_1−T_0)]/dr²` -/
theorem radial_telescope (P : Prob ℝ) (T : GField ℝ) (j k : Nat)
    (hr : ∀ i, P.isRealI i = true → P.rr i ≠ 0) :
    ∑ i ∈ P.setI, P.rr i * P.Ar T i j k
      = (P.outerFace T j k - P.innerFace T j k) / (P.dr * P.dr) :=
  SrModel.Thermal.radial_telescope P T j k hr

/-- **circ_telescope**: nothing crosses the periodic seam -/
theorem circ_telescope (P : Prob ℝ) (T : GField ℝ) (i k : Nat) (h2 : P.ndim ≥ 2)
    (hper : T i 0 k - T i P.Nt k = 0 ∧ T i (P.Nt+1) k - T i 1 k = 0)
    (hc : P.c i P.Nt k + P.c i (P.Nt+1) k = P.c i 0 k + P.c i 1 k) :
    ∑ j ∈ P.setJ, P.At T i j k = 0 :=
  SrModel.Thermal.circ_telescope P T i k h2 hper hc

/-- **axial_telescope**: nothing crosses the end planes -/
theorem axial_telescope (P : Prob ℝ) (T : GField ℝ) (i j : Nat) (h3 : P.ndim ≥ 3)
    (hax : T i j 1 - T i j 0 = 0 ∧ T i j P.Nz - T i j (P.Nz+1) = 0) :
    ∑ k ∈ P.setK, P.Az T i j k = 0 :=
  SrModel.Thermal.axial_telescope P T i j h3 hax

/-- **step_balance**: for every solution of a transient step, the change of stored heat equals
`Δt` × (net radial wall-face flux) + `Δt` × source; periodic and axial faces contribute nothing. -/
theorem step_balance (P : Prob ℝ) (T : GField ℝ) (hst : P.steady = false)
    (hsol : P.Solves T) (hcp : P.CPeriodic) (hr : ∀ i, P.isRealI i = true → P.rr i ≠ 0) :
    P.energy T - P.energy P.Tn
      = P.dt * ((∑ j ∈ P.setJ, ∑ k ∈ P.setK, (P.outerFace T j k - P.innerFace T j k)) / (P.dr * P.dr))
        + P.dt * ∑ i ∈ P.setI, ∑ j ∈ P.setJ, ∑ k ∈ P.setK, P.rr i * (P.qc i j k * P.src i j k) :=
  SrModel.Thermal.step_balance P T hst hsol hcp hr

/-- wall contributions by kind: insulated → 0; prescribed flux → `(rc)_{½}·dr·q/k`;
convective → `(rc)_{½}·dr·h·(T_f − T_wall)/k` (inner wall: minus the inner face flux) -/
theorem wall_ins_inner (P : Prob ℝ) (T : GField ℝ) (j k : Nat) (hw : P.inner = .ins)
    (h : P.innerRes T j k = 0) : P.innerFace T j k = 0 := innerFace_ins P T j k hw h
theorem wall_ins_outer (P : Prob ℝ) (T : GField ℝ) (j k : Nat) (hw : P.outer = .ins)
    (h : P.outerRes T j k = 0) : P.outerFace T j k = 0 := outerFace_ins P T j k hw h
theorem wall_flux_inner (P : Prob ℝ) (T : GField ℝ) (j k : Nat) (q : Nat → Nat → ℝ)
    (hw : P.inner = .flux q) (h : P.innerRes T j k = 0) :
    - P.innerFace T j k = P.rh 0 * P.ahr 0 j k * (P.dr * q j k / P.kk 1 j k) :=
  innerFace_flux P T j k q hw h
theorem wall_flux_outer (P : Prob ℝ) (T : GField ℝ) (j k : Nat) (q : Nat → Nat → ℝ)
    (hw : P.outer = .flux q) (h : P.outerRes T j k = 0) :
    P.outerFace T j k = P.rh P.N * P.ahr P.N j k * (P.dr * q j k / P.kk P.N j k) :=
  outerFace_flux P T j k q hw h
theorem wall_conv_inner (P : Prob ℝ) (T : GField ℝ) (j k : Nat) (tf h : Nat → Nat → ℝ)
    (hw : P.inner = .conv tf h) (hr : P.innerRes T j k = 0) :
    - P.innerFace T j k = P.rh 0 * P.ahr 0 j k * (P.dr * h j k * (tf j k - T 1 j k) / P.kk 1 j k) :=
  innerFace_conv P T j k tf h hw hr
theorem wall_conv_outer (P : Prob ℝ) (T : GField ℝ) (j k : Nat) (tf h : Nat → Nat → ℝ)
    (hw : P.outer = .conv tf h) (hr : P.outerRes T j k = 0) :
    P.outerFace T j k = P.rh P.N * P.ahr P.N j k * (P.dr * h j k * (tf j k - T P.N j k) / P.kk P.N j k) :=
  outerFace_conv P T j k tf h hw hr

/-- **flux_sign**: positive prescribed flux heats the wall on either surface (needs the inner
half-cell radius positive: `dr < 2·r_inner`; its failure is known finding F17) -/
theorem flux_sign_inner (P : Prob ℝ) (T : GField ℝ) (j k : Nat) (q : Nat → Nat → ℝ)
    (hw : P.inner = .flux q) (h : P.innerRes T j k = 0)
    (hrh : 0 < P.rh 0) (hc : 0 < P.ahr 0 j k) (hdr : 0 < P.dr) (hk : 0 < P.kk 1 j k)
    (hq : 0 < q j k) : 0 < - P.innerFace T j k := flux_heats_inner P T j k q hw h hrh hc hdr hk hq
theorem flux_sign_outer (P : Prob ℝ) (T : GField ℝ) (j k : Nat) (q : Nat → Nat → ℝ)
    (hw : P.outer = .flux q) (h : P.outerRes T j k = 0)
    (hrh : 0 < P.rh P.N) (hc : 0 < P.ahr P.N j k) (hdr : 0 < P.dr) (hk : 0 < P.kk P.N j k)
    (hq : 0 < q j k) : 0 < P.outerFace T j k := flux_heats_outer P T j k q hw h hrh hc hdr hk hq

/-- **area_defect**: the wall half-cell radii are the wall radii ∓ `dr/2`, so the discrete heat
delivered by a flux `q` differs from `q × (nominal area)` by the relative amount `dr/(2 r)`:
per unit `ΔθΔz` and for constant `a`, `k`, the difference is `(a/k)·q/2` against `r·(a/k)·q/dr`. -/
theorem area_defect (P : Prob ℝ) (rin : ℝ)
    (hrr : ∀ i : Nat, P.rr i = rin + ((i : ℝ) - 1) * P.dr) :
    P.rh 0 = rin - P.dr / 2 ∧ P.rh P.N = (rin + ((P.N : ℝ) - 1) * P.dr) + P.dr / 2 :=
  wall_face_radii P rin hrr
theorem area_defect_flux (rin dr a k q : ℝ) (hk : k ≠ 0) (hdr : dr ≠ 0) :
    (rin - dr / 2) * a * (dr * q / k) / (dr * dr) - rin * a * q / (k * dr) = -(a / k) * q / 2 :=
  flux_area_defect rin dr a k q hk hdr

/-- **insulated_exact**: both walls insulated, no source ⇒ `Σ r_i T_i` is conserved exactly -/
theorem insulated_exact (P : Prob ℝ) (T : GField ℝ) (hst : P.steady = false)
    (hsol : P.Solves T) (hcp : P.CPeriodic) (hr : ∀ i, P.isRealI i = true → P.rr i ≠ 0)
    (hin : P.inner = .ins) (hout : P.outer = .ins) (hsrc : ∀ i j k, P.src i j k = 0) :
    P.energy T = P.energy P.Tn :=
  SrModel.Thermal.insulated_exact P T hst hsol hcp hr hin hout hsrc

/-- **history_balance**: whole histories (any number of steps and sub-steps, coefficients
re-evaluated every step): total change of stored heat = sum of the per-step heat inputs -/
theorem history_balance (P : Nat → Prob ℝ) (T : Nat → GField ℝ)
    (hgrid : ∀ n, (P n).energy = (P 0).energy)
    (hst : ∀ n, (P n).steady = false) (hsol : ∀ n, (P n).Solves (T (n+1)))
    (hcp : ∀ n, (P n).CPeriodic) (hr : ∀ n i, (P n).isRealI i = true → (P n).rr i ≠ 0)
    (hprev : ∀ n i j k, (P n).isRealI i = true → (P n).isRealJ j = true → (P n).isRealK k = true →
      (P n).Tn i j k = T n i j k) (N : Nat) :
    (P 0).energy (T N) - (P 0).energy (T 0) = ∑ n ∈ Finset.range N, (P n).heatIn (T (n+1)) :=
  SrModel.Thermal.history_balance P T hgrid hst hsol hcp hr hprev N

/-- the executable rows compared with the implementation are the rows `Solves` speaks about -/
theorem rows_are_solves (P : Prob ℝ) (x : Nat → ℝ) (h : ∀ r ∈ P.rows, r.res x = 0) :
    P.Solves (fieldOf P x) := solves_of_rows P x h

/-! ### non-vacuity -/
/-- a 1-D insulated problem and its (uniform) solution -/
noncomputable def ex : Prob ℝ :=
  { ndim := 1, N := 3, Nt := 0, Nz := 0, steady := false, dt := 2, dr := 1, dth := 1, dz := 1,
    rr := fun i => 9 + i, c := fun _ _ _ => 1, kk := fun _ _ _ => 1, qc := fun _ _ _ => 1,
    src := fun _ _ _ => 0, Tn := fun _ _ _ => 5, inner := .ins, outer := .ins }
example : ex.Solves (fun _ _ _ => 5) := by
  refine ⟨?_, ?_, ?_, ?_, ?_⟩
  · intro i j k _ _ _; simp [ex, Prob.lhsReal, Prob.rhsReal, Prob.applyA]
  · intro j k _ _; simp [ex, Prob.innerRes]
  · intro j k _ _; simp [ex, Prob.outerRes]
  · intro h; simp [ex] at h
  · intro h; simp [ex] at h
example : ex.CPeriodic := by intro h; simp [ex] at h
example : ∀ i, ex.isRealI i = true → ex.rr i ≠ 0 := by
  intro i _; simp [ex]; positivity

end SrProps.C02
