import SrProofs.Loops
import Gen.Plumbing

/-!
# C17 — solvers fail loudly: a returned result always meets its convergence criterion

Models: `SrModel.Loops` (the five hand-coded iteration loops, oracle-driven) and
`SrModel.Plumbing` applied to the terms `Gen.Plumbing.*` that `/verif/gen/gen_plumbing.py`
regenerates from the srlife sources at the start of every run.

Every loop theorem holds for **every** iteration limit `miter ≥ 0`, every tolerance, every
`max_search`, and **every** oracle `o : ℕ → Norm` (norm of the `n`-th residual evaluation, possibly
NaN or ∞) — induction on the iteration budget, no bound.

In `Res.ok iters cur evals`, `cur` is the index of the residual evaluation made at the iterate
that is returned.  In all five loops this is the **last** evaluation made (`cur + 1 = evals`):
nothing moves the iterate after the evaluation whose norm passed the test.
-/
namespace SrProps.C17
open SrModel.Loops

/-! ## `solvers.newton` (also the loop of `SpringNetwork.solve`) -/

/-- If `newton` returns, the documented test `nR < abs_tol or nR/nR0 < rel_tol` holds for the norm
of the last residual evaluation made, which is the one at the returned `x`; and fewer than
`miters` updates were made. -/
theorem newton_returns_converged (c : NewtonCfg) (o : Nat → Norm) (i cur n : Nat)
    (h : newton c o = .ok i cur n) :
    conv c.atol c.rtol (o cur) (o 0) = true ∧ cur + 1 = n ∧ i < c.miter := by
  have := newtonLoop_ok c o c.miter 0 0 1 i cur n rfl h
  exact ⟨this.1, this.2.1, by omega⟩

/-- If no evaluation ever passes the test, `newton` raises, whatever `miters`; with `miters = 0`
it raises even when the initial residual is zero (the `for … else` runs the `else` at once). -/
theorem newton_exhaust_raises (c : NewtonCfg) (o : Nat → Norm) :
    ((∀ k, conv c.atol c.rtol (o k) (o 0) = false) → ∃ m, newton c o = .raised .noConv m) ∧
    (c.miter = 0 → newton c o = .raised .noConv 1) := by
  refine ⟨fun hno => newtonLoop_noconv c o _ _ _ _ hno, fun h0 => ?_⟩
  unfold newton; rw [h0]; rfl

/-- a NaN norm is never accepted -/
theorem newton_nan_never_ok (c : NewtonCfg) (o : Nat → Norm) (i cur n : Nat)
    (h : newton c o = .ok i cur n) : o cur ≠ .nan :=
  conv_true_ne_nan (newton_returns_converged c o i cur n h).1

/-! ## FD thermal step loop -/

/-- A returned step passed the test `(nr < atol or nr/nr0 < rtol)` at pass `i ≥ 1`, on the residual
of the returned temperatures (evaluation `i`, the last one made: `break` precedes the update). -/
theorem fd_returns_converged (a r : Rat) (miter : Nat) (o : Nat → Norm) (i cur n : Nat)
    (h : fd a r miter o = .ok i cur n) :
    conv a r (o cur) (o 0) = true ∧ cur = i ∧ n = i + 1 ∧ 0 < i ∧ i < miter := by
  have := fdLoop_ok a r o miter 0 i cur n h
  exact ⟨this.1, this.2.1, this.2.2.1, this.2.2.2.1, by omega⟩

/-- Without a passing evaluation after the first the step raises after exactly `miter`
evaluations; `miter ≤ 1` always raises (pass 0 may not `break`). -/
theorem fd_exhaust_raises (a r : Rat) (miter : Nat) (o : Nat → Norm) :
    ((∀ k, 0 < k → conv a r (o k) (o 0) = false) → fd a r miter o = .raised .noConv miter) ∧
    (miter ≤ 1 → fd a r miter o = .raised .noConv miter) := by
  constructor
  · intro hno
    have := fdLoop_noconv a r o miter 0 hno
    simpa [fd] using this
  · intro hm
    rcases Nat.le_one_iff_eq_zero_or_eq_one.mp hm with h | h <;> subst h <;> simp [fd, fdLoop]

theorem fd_nan_never_ok (a r : Rat) (miter : Nat) (o : Nat → Norm) (i cur n : Nat)
    (h : fd a r miter o = .ok i cur n) : o cur ≠ .nan :=
  conv_true_ne_nan (fd_returns_converged a r miter o i cur n h).1

/-! ## `FlowPath.solve` -/

/-- A returned flow-path solution passed the test on the residual evaluated after the last
update (evaluation `i`, `1 ≤ i ≤ miter`), and that norm is not NaN. -/
theorem flowpath_returns_converged (a r : Rat) (miter : Nat) (o : Nat → Norm) (i cur n : Nat)
    (h : flowpath a r miter o = .ok i cur n) :
    conv a r (o cur) (o 0) = true ∧ cur = i ∧ n = i + 1 ∧ 0 < i ∧ i ≤ miter := by
  have := fpLoop_ok a r o miter 0 i cur n h
  exact ⟨this.1, this.2.2.1, this.2.2.2.1, this.2.2.2.2.1, by omega⟩

/-- Without a passing evaluation the solve raises (budget exhausted or NaN), `miter = 0` raises
at once (the initial residual is never tested). -/
theorem flowpath_exhaust_raises (a r : Rat) (miter : Nat) (o : Nat → Norm) :
    ((∀ k, 0 < k → conv a r (o k) (o 0) = false) → ∃ k m, flowpath a r miter o = .raised k m) ∧
    (miter = 0 → flowpath a r miter o = .raised .noConv 1) := by
  refine ⟨fun hno => fpLoop_noconv a r o miter 0 hno, fun h0 => ?_⟩
  subst h0; rfl

theorem flowpath_nan_never_ok (a r : Rat) (miter : Nat) (o : Nat → Norm) (i cur n : Nat)
    (h : flowpath a r miter o = .ok i cur n) : o cur ≠ .nan :=
  conv_true_ne_nan (flowpath_returns_converged a r miter o i cur n h).1

/-- the "NaN detected!" error is raised at a NaN evaluation, the last one made -/
theorem flowpath_nan_raise_spec (a r : Rat) (miter : Nat) (o : Nat → Norm) (m : Nat)
    (h : flowpath a r miter o = .raised .nan m) : 0 < m ∧ o (m - 1) = .nan :=
  fpLoop_nan a r o miter 0 m h

/-! ## Picard loop of `ThermohydraulicsThermalSolver.solve_step` -/

/-- A returned step passed `(fluid abs ∧ metal abs) ∨ (fluid rel ∧ metal rel)` on the changes
measured in the last pass made. -/
theorem picard_returns_converged (a r : Rat) (miter : Nat) (o : Nat → Norm4) (i cur n : Nat)
    (h : picard a r miter o = .ok i cur n) :
    picardConv a r (o cur) = true ∧ i = cur + 1 ∧ n = cur + 1 ∧ cur < miter := by
  have := picardLoop_ok a r o miter 0 i cur n h
  exact ⟨this.1, this.2.1, this.2.2.1, by omega⟩

theorem picard_exhaust_raises (a r : Rat) (miter : Nat) (o : Nat → Norm4) :
    ((∀ k, picardConv a r (o k) = false) → picard a r miter o = .raised .noConv miter) ∧
    (miter = 0 → picard a r miter o = .raised .noConv 0) := by
  constructor
  · intro hno
    have := picardLoop_noconv a r o miter 0 hno
    simpa [picard] using this
  · intro h0; subst h0; rfl

/-- the pair of measures that passed contains no NaN -/
theorem picard_nan_never_ok (a r : Rat) (miter : Nat) (o : Nat → Norm4) (i cur n : Nat)
    (h : picard a r miter o = .ok i cur n) :
    ((o cur).fa ≠ .nan ∧ (o cur).ta ≠ .nan) ∨ ((o cur).fr ≠ .nan ∧ (o cur).tr ≠ .nan) :=
  picardConv_nan_abs a r _ (picard_returns_converged a r miter o i cur n h).1

/-! ## FE Newton loop of `PythonSolver.solve` -/

/-- If the FE solve returns, the test `nR < atol or nR/nR0 < rtol` holds for the norm of the last
residual evaluation made (the one of the returned displacements); more precisely either the
initial residual was below `atol` and nothing was done, or at least one update was made and the
test passed after it. -/
theorem fe_returns_converged (c : FeCfg) (o : Nat → Norm) (i cur n : Nat)
    (h : fe c o = .ok i cur n) :
    conv c.atol c.rtol (o cur) (o 0) = true ∧ cur + 1 = n ∧ i ≤ c.miter ∧ 0 < c.miter ∧
      ((i = 0 ∧ cur = 0 ∧ (o 0).lt c.atol = true) ∨ (0 < i ∧ (o 0).lt c.atol = false)) := by
  have hm : 0 < c.miter := by
    rcases Nat.eq_zero_or_pos c.miter with h0 | hp
    · unfold fe at h; rw [h0] at h; simp [feLoop] at h
    · exact hp
  obtain ⟨h1, h2, h3⟩ := feLoop_ok c o c.miter 0 0 1 i cur n rfl (fun h => absurd h (Nat.lt_irrefl 0)) h
  rcases h1 with ⟨hi, hcur, hlt⟩ | ⟨hi, hlt, hconv⟩
  · subst hi hcur
    exact ⟨by simp [conv, hlt], h2, by omega, hm, Or.inl ⟨rfl, rfl, hlt⟩⟩
  · exact ⟨hconv, h2, by omega, hm, Or.inr ⟨hi, hlt⟩⟩

/-- Without a passing evaluation the FE solve raises; `miter = 0` raises even when the initial
residual is below `atol` (the shortcut sits inside the loop). -/
theorem fe_exhaust_raises (c : FeCfg) (o : Nat → Norm) :
    ((∀ k, conv c.atol c.rtol (o k) (o 0) = false) → ∃ m, fe c o = .raised .noConv m) ∧
    (c.miter = 0 → fe c o = .raised .noConv 1) := by
  constructor
  · intro hno
    have h0 : (o 0).lt c.atol = false := by
      have := hno 0
      simp only [conv, Bool.or_eq_false_iff] at this
      exact this.1
    exact feLoop_noconv c o _ _ _ _ h0 hno
  · intro h0; unfold fe; rw [h0]; rfl

theorem fe_nan_never_ok (c : FeCfg) (o : Nat → Norm) (i cur n : Nat)
    (h : fe c o = .ok i cur n) : o cur ≠ .nan :=
  conv_true_ne_nan (fe_returns_converged c o i cur n h).1

/-- what a passed test says, in numbers: the tested norm is finite and `< atol`, or the IEEE
quotient `nR/nR0` is finite and `< rtol` -/
theorem conv_spec (a r : Rat) (x x0 : Norm) :
    conv a r x x0 = true ↔ (∃ q, x = .fin q ∧ q < a) ∨ (∃ q, x.div x0 = .fin q ∧ q < r) :=
  conv_true_iff a r x x0

/-! ### non-vacuity (the loops do return, and do raise) -/

section examples
def q (n : Int) (d : Nat := 1) : Norm := .fin ((n : Rat) / (d : Rat))

-- newton with line search: evaluation 1 is rejected by the search (not below 8), 2 accepted, 3 passes atol
example : newton ⟨1/100, 1/1000000, 5, true, 10⟩ (oracleOf [q 8, q 9, q 4, q 1 1000]) = .ok 2 3 4 := by
  decide +kernel
example : newton ⟨1/100, 1/1000000, 2, false, 10⟩ (oracleOf [q 8, q 4, q 1 1000]) = .raised .noConv 3 := by
  decide +kernel
example : newton ⟨1/100, 1/1000000, 0, true, 10⟩ (oracleOf [q 0]) = .raised .noConv 1 := by decide +kernel
example : newton ⟨1/100, 1/1000000, 3, true, 2⟩ (oracleOf [q 8, .nan, .nan, .nan, .nan, .nan, .nan]) =
    .raised .noConv 7 := by decide +kernel
example : fd (1/100) (1/1000000) 3 (oracleOf [q 0, q 0]) = .ok 1 1 2 := by decide +kernel
example : fd (1/100) (1/1000000) 1 (oracleOf [q 0]) = .raised .noConv 1 := by decide +kernel
example : flowpath (1/100) (1/1000000) 3 (oracleOf [q 5, q 1, q 1 1000]) = .ok 2 2 3 := by decide +kernel
example : flowpath (1/100) (1/1000000) 3 (oracleOf [q 5, q 1, .nan]) = .raised .nan 3 := by decide +kernel
example : flowpath (1/100) (1/1000000) 0 (oracleOf [q 0]) = .raised .noConv 1 := by decide +kernel
example : picard (1/100) (1/1000000) 3 (oracle4Of [⟨q 1, q 1, q 1, q 1⟩, ⟨q 1, q 0, q 1, q 0⟩]) = .ok 2 1 2 := by
  decide +kernel
example : picard (1/100) (1/1000000) 2 (oracle4Of [⟨q 1, q 1, q 1, q 1⟩, ⟨q 0, .nan, q 1, q 0⟩]) =
    .raised .noConv 2 := by decide +kernel
example : fe ⟨1/100, 1/1000000, 1, 10⟩ (oracleOf [q 1 1000]) = .ok 0 0 1 := by decide +kernel
example : fe ⟨1/100, 1/1000000, 0, 10⟩ (oracleOf [q 1 1000]) = .raised .noConv 1 := by decide +kernel
example : fe ⟨1/100, 1/1000000, 2, 3⟩ (oracleOf [q 8, q 9, q 4, q 1 1000]) = .ok 2 3 4 := by decide +kernel
-- relative test with a zero initial norm: 0/0 is NaN, 1/0 is ∞ – neither passes
example : conv 0 1 (q 0) (q 0) = false := by decide +kernel
example : conv 0 1 (q 1) (q 0) = false := by decide +kernel
end examples

/-! ## Parameter plumbing (generated terms `Gen.Plumbing.fns`) -/

open SrModel.Plumbing
open Gen.Plumbing (fns newtonDoc)

def P (k : String) : Atom := .take (.pset k)
def A (n : String) : Atom := .take (.arg n)
def ANN (n : String) : Atom := .takeNN (.arg n)

/-- the documented parameters: (field the loop reads, routes by which the user supplies it, in
priority order).  `P k` = key `k` of the parameter set, `A n` = keyword argument `n`,
`ANN n` = keyword argument `n` when it is not `None`. -/
def docSystem : List (String × List Atom) :=
  [("rel_tol", [P "rtol", A "rtol"]), ("abs_tol", [P "atol", A "atol"]),
   ("miters", [P "miter", A "miter"]), ("verbose", [P "verbose", A "verbose"])]
def docNetwork : List (String × List Atom) :=
  [("rel_tol", [A "rtol"]), ("abs_tol", [A "atol"]), ("miters", [A "miter"]), ("verbose", [A "verbose"])]
def docFdSolver : List (String × List Atom) :=
  [("rtol", [ANN "rtol", P "rtol", A "init.rtol"]), ("atol", [ANN "atol", P "atol", A "init.atol"]),
   ("miter", [ANN "miter", P "miter", A "init.miter"]),
   ("substep", [ANN "substep", P "substep", A "init.substep"]),
   ("steady", [P "steady", A "init.steady"]), ("verbose", [P "verbose", A "init.verbose"])]
def docFdPicard : List (String × List Atom) :=
  [("rtol", [P "rtol"]), ("atol", [P "atol"]), ("miter", [P "miter"]), ("substep", [P "substep"]),
   ("steady", [P "steady"]), ("verbose", [P "verbose"])]
def docFlowPicard : List (String × List Atom) :=
  [("rtol", [P "rtol"]), ("atol", [P "atol"]), ("miter", [P "miter"]), ("verbose", [P "verbose"])]
def docFlowDirect : List (String × List Atom) :=
  [("rtol", [A "rtol"]), ("atol", [A "atol"]), ("miter", [A "miter"]), ("verbose", [A "verbose"])]
def docPicard : List (String × List Atom) :=
  [("rtol", [P "rtol"]), ("atol", [P "atol"]), ("miter", [P "miter"]), ("verbose", [P "verbose"]),
   ("eps", [P "epsilon"]), ("solid_params", [P "solid"]), ("thermo_params", [P "fluid"])]
def docStructural : List (String × List Atom) :=
  [("solver_options.rtol", [P "rtol", A "rtol"]), ("solver_options.atol", [P "atol", A "atol"]),
   ("solver_options.miter", [P "miter", A "miter"]),
   ("solver_options.max_linesearch", [P "max_linesearch", A "max_linesearch"]),
   ("solver_options.verbose", [P "verbose", A "verbose"]),
   ("solver_options.dof_tol", [P "dof_tol", A "dof_tol"]),
   ("max_divide", [P "max_divide", A "max_divide"]), ("force_divide", [P "force_divide", A "force_divide"])]

/-- system solve: `rtol, atol, miter, verbose` given to `SpringSystemSolver` (parameter set first,
then keyword) are the `rel_tol, abs_tol, miters, verbose` `newton` is called with, after
`make_network`, `SpringNetwork.__init__`, `__copy` (splitting) and `SpringNetwork.solve` -/
theorem plumbing_identity_system : ∀ e ∈ docSystem, RouteSpec (system fns) e.1 e.2 :=
  allOK_sound _ _ (by decide)

theorem plumbing_identity_network : ∀ e ∈ docNetwork, RouteSpec (network fns) e.1 e.2 :=
  allOK_sound _ _ (by decide)

/-- solid FD solver: an explicit non-`None` argument of `.solve` wins, then the parameter set,
then the constructor keyword; the value ends up in the attribute the step loop reads -/
theorem plumbing_identity_fdSolver : ∀ e ∈ docFdSolver, RouteSpec (fdSolver fns) e.1 e.2 :=
  allOK_sound _ _ (by decide)

theorem plumbing_identity_fdPicard : ∀ e ∈ docFdPicard, RouteSpec (fdPicard fns) e.1 e.2 :=
  allOK_sound _ _ (by decide)

theorem plumbing_identity_flowPicard : ∀ e ∈ docFlowPicard, RouteSpec (flowPicard fns) e.1 e.2 :=
  allOK_sound _ _ (by decide)

theorem plumbing_identity_flowDirect : ∀ e ∈ docFlowDirect, RouteSpec (flowDirect fns) e.1 e.2 :=
  allOK_sound _ _ (by decide)

theorem plumbing_identity_picard : ∀ e ∈ docPicard, RouteSpec (picard fns) e.1 e.2 :=
  allOK_sound _ _ (by decide)

theorem plumbing_identity_structural : ∀ e ∈ docStructural, RouteSpec (structural fns) e.1 e.2 :=
  allOK_sound _ _ (by decide)

/-- **plumbing_identity**: for each documented parameter of each component, the value compared in
that component's convergence test (or handed to the loop) is the value supplied -/
theorem plumbing_identity :
    (∀ e ∈ docSystem, RouteSpec (system fns) e.1 e.2) ∧
    (∀ e ∈ docNetwork, RouteSpec (network fns) e.1 e.2) ∧
    (∀ e ∈ docFdSolver, RouteSpec (fdSolver fns) e.1 e.2) ∧
    (∀ e ∈ docFdPicard, RouteSpec (fdPicard fns) e.1 e.2) ∧
    (∀ e ∈ docFlowPicard, RouteSpec (flowPicard fns) e.1 e.2) ∧
    (∀ e ∈ docFlowDirect, RouteSpec (flowDirect fns) e.1 e.2) ∧
    (∀ e ∈ docPicard, RouteSpec (picard fns) e.1 e.2) ∧
    (∀ e ∈ docStructural, RouteSpec (structural fns) e.1 e.2) :=
  ⟨plumbing_identity_system, plumbing_identity_network, plumbing_identity_fdSolver,
   plumbing_identity_fdPicard, plumbing_identity_flowPicard, plumbing_identity_flowDirect,
   plumbing_identity_picard, plumbing_identity_structural⟩

/-- one instance spelled out: whatever else the user passes, a `rtol` in the system solver's
parameter set is the `rel_tol` of `newton`; without it, the keyword `rtol` is -/
example (U : Env) (v : Lit) (h : U (.pset "rtol") = some v) :
    pipeC (system fns) U "rel_tol" = .val v :=
  plumbing_identity_system ("rel_tol", [P "rtol", A "rtol"]) (by decide) U v [] (P "rtol") [A "rtol"] rfl
    (by simp) h
example (U : Env) (v : Lit) (h0 : U (.pset "rtol") = none) (h : U (.arg "rtol") = some v) :
    pipeC (system fns) U "rel_tol" = .val v :=
  plumbing_identity_system ("rel_tol", [P "rtol", A "rtol"]) (by decide) U v [P "rtol"] (A "rtol") [] rfl
    (by simpa [P, Atom.skipped] using h0) h

/-! ### documented defaults of `newton` -/

/-- **newton_defaults_documented**: every numeric or boolean default in `newton`'s signature
(after evaluating constant arithmetic: `1.0 - 6` is `-5`) is the default its docstring states, and
every numeric or boolean default the docstring states is the signature's. -/
theorem newton_defaults_documented :
    (∀ n l, (n, some l) ∈ fns.newton.params → SrModel.Plumbing.Lit.plain l = true → newtonDoc.lookup n = some l) ∧
    (∀ n l, (n, l) ∈ newtonDoc → SrModel.Plumbing.Lit.plain l = true → fns.newton.dflt n = some l) := by
  have h : defaultsOK fns.newton newtonDoc = true := by decide
  unfold defaultsOK at h
  rw [Bool.and_eq_true, List.all_eq_true, List.all_eq_true] at h
  constructor
  · intro n l hm hp
    have := h.1 (n, some l) hm
    simpa [hp] using this
  · intro n l hm hp
    have := h.2 (n, l) hm
    simpa [hp] using this

/-- the defaulted numeric parameters are there (the statement above is not vacuous) -/
example : ["rel_tol", "abs_tol", "miters", "max_search"].all
    (fun n => match fns.newton.dflt n with | some l => SrModel.Plumbing.Lit.plain l | none => false) = true := by decide

end SrProps.C17
