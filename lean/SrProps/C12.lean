import SrProofs.Thermal
import SrProofs.ThermalLiftHistory

/-!
# C12 — thermal solution is rotation-equivariant and consistent across abstractions

Model: `SrModel.Thermal`.  With `step_unique` (C06) "a solution" is "the solution" of a transient
step, so each statement below identifies the solution of the transformed problem.
-/
namespace SrProps.C12
open SrModel.Thermal

/-- **shift_equivariance (one cell).** Rotating all data of a step (previous temperatures, hence
the lagged coefficients, wall data, source) by one circumferential cell rotates the solution. -/
theorem shift_equivariance_unit (P : Prob ℝ) (T : GField ℝ) (hnd : P.ndim ≥ 2) (h2 : 2 ≤ P.Nt)
    (hc : P.CPeriodicPt) (hsol : P.Solves T) : P.rot.Solves (GField.rot P.Nt T) :=
  solves_rot P T hnd h2 hc hsol

/-- **shift_equivariance.** Any whole number `s` of cells. -/
theorem shift_equivariance (P : Prob ℝ) (T : GField ℝ) (s : Nat) (hnd : P.ndim ≥ 2) (h2 : 2 ≤ P.Nt)
    (hc : P.CPeriodicPt) (hsol : P.Solves T) : (P.rotN s).Solves (GField.rotN P.Nt T s) :=
  (solves_rotN P T s hnd h2 hc hsol).1

/-- the rotated field is *the* solution of the rotated transient step: any solution `S` of the
rotated problem equals the rotated solution at every real node -/
theorem shift_equivariance_unique (P : Prob ℝ) (T S : GField ℝ) (hnd : P.ndim ≥ 2) (h2 : 2 ≤ P.Nt)
    (hc : P.CPeriodicPt) (hsol : P.Solves T) (hS : P.rot.Solves S)
    (hs : P.rot.Sized) (hst : P.rot.steady = false) (hdt : 0 < P.rot.dt) (hw : P.rot.WeightsNonneg)
    (hci : ∀ tf h, P.rot.inner = .conv tf h → ∀ j k, 0 ≤ P.rot.dr * h j k / P.rot.kk 1 j k)
    (hco : ∀ tf h, P.rot.outer = .conv tf h → ∀ j k, 0 ≤ P.rot.dr * h j k / P.rot.kk P.rot.N j k) :
    ∀ i j k, P.rot.isRealI i = true → P.rot.isRealJ j = true → P.rot.isRealK k = true →
      S i j k = GField.rot P.Nt T i j k :=
  step_unique P.rot S (GField.rot P.Nt T) hs hst hdt hw hci hco hS (solves_rot P T hnd h2 hc hsol)

/-- a temperature-dependent material (coefficients = point-wise functions of the previous field)
commutes with the rotation, so equivariance carries over from step to step -/
theorem material_law_rot (P : Prob ℝ) (a kfun : ℝ → ℝ)
    (hc : ∀ i j k, P.c i j k = a (P.Tn i j k)) (hk : ∀ i j k, P.kk i j k = kfun (P.Tn i j k)) :
    (∀ i j k, P.rot.c i j k = a (P.rot.Tn i j k)) ∧ (∀ i j k, P.rot.kk i j k = kfun (P.rot.Tn i j k)) :=
  SrModel.Thermal.material_law_rot P a kfun hc hk

/-- **shift_equivariance for whole histories** (every step and sub-step) -/
theorem shift_equivariance_history (P : Nat → Prob ℝ) (T : Nat → GField ℝ)
    (hnd : ∀ n, (P n).ndim ≥ 2) (h2 : ∀ n, 2 ≤ (P n).Nt) (hc : ∀ n, (P n).CPeriodicPt)
    (hsol : ∀ n, (P n).Solves (T (n+1))) :
    ∀ n, (P n).rot.Solves (GField.rot (P n).Nt (T (n+1))) :=
  history_rot P T hnd h2 hc hsol

/-- **axisym_2d_is_1d.** θ-independent data: the 1-D solution on every ray solves the 2-D step. -/
theorem axisym_2d_is_1d (P : Prob ℝ) (T : GField ℝ) (Nt : Nat) (dth : ℝ) (h1 : P.ndim = 1)
    (hsol : P.Solves T) : (P.lift2 Nt dth).Solves (fun i _ k => T i 0 k) :=
  SrModel.Thermal.axisym_2d_is_1d P T Nt dth h1 hsol

/-- **uniform_3d_is_2d.** z-independent data: the 2-D solution on every plane solves the 3-D step. -/
theorem uniform_3d_is_2d (P : Prob ℝ) (T : GField ℝ) (Nz : Nat) (dz : ℝ) (h2 : P.ndim = 2)
    (hsol : P.Solves T) : (P.lift3 Nz dz).Solves (fun i j _ => T i j 0) :=
  SrModel.Thermal.uniform_3d_is_2d P T Nz dz h2 hsol

/-- **superposition.** For a fixed operator (constant material: coefficients do not depend on the
data) the step is linear in (source, previous temperatures, wall data, fluid temperatures). -/
theorem superposition (P : Prob ℝ) (d e : Data) (a b : ℝ) (T T' : GField ℝ)
    (hi : Wall.Same d.inner e.inner) (ho : Wall.Same d.outer e.outer)
    (h1 : (P.withData d).Solves T) (h2 : (P.withData e).Solves T') :
    (P.withData (Data.comb a b d e)).Solves (GField.comb a b T T') :=
  solves_comb P d e a b T T' hi ho h1 h2

/-! ### 1-D = 2-D = 3-D along whole histories with a temperature-dependent material -/

/-- **material law commutes with the 1-D → 2-D lift.**  If the lagged coefficients of the 1-D step are
point-wise functions of its previous field, the coefficients of the lifted 2-D step are the same
functions of ITS previous field (`(P.lift2 Nt dth).Tn`, the 1-D field copied onto every ray). -/
theorem material_law_lift2 (P : Prob ℝ) (Nt : Nat) (dth : ℝ) (a kfun : ℝ → ℝ)
    (hc : ∀ i j k, P.c i j k = a (P.Tn i j k)) (hk : ∀ i j k, P.kk i j k = kfun (P.Tn i j k)) :
    (∀ i j k, (P.lift2 Nt dth).c i j k = a ((P.lift2 Nt dth).Tn i j k)) ∧
    (∀ i j k, (P.lift2 Nt dth).kk i j k = kfun ((P.lift2 Nt dth).Tn i j k)) ∧
    (∀ i j k, (P.lift2 Nt dth).Tn i j k = P.Tn i 0 k) :=
  ⟨(SrModel.Thermal.material_law_lift2 P Nt dth a kfun hc hk).1,
   (SrModel.Thermal.material_law_lift2 P Nt dth a kfun hc hk).2, fun _ _ _ => rfl⟩

/-- **material law commutes with the 2-D → 3-D lift.** -/
theorem material_law_lift3 (P : Prob ℝ) (Nz : Nat) (dz : ℝ) (a kfun : ℝ → ℝ)
    (hc : ∀ i j k, P.c i j k = a (P.Tn i j k)) (hk : ∀ i j k, P.kk i j k = kfun (P.Tn i j k)) :
    (∀ i j k, (P.lift3 Nz dz).c i j k = a ((P.lift3 Nz dz).Tn i j k)) ∧
    (∀ i j k, (P.lift3 Nz dz).kk i j k = kfun ((P.lift3 Nz dz).Tn i j k)) ∧
    (∀ i j k, (P.lift3 Nz dz).Tn i j k = P.Tn i j 0) :=
  ⟨(SrModel.Thermal.material_law_lift3 P Nz dz a kfun hc hk).1,
   (SrModel.Thermal.material_law_lift3 P Nz dz a kfun hc hk).2, fun _ _ _ => rfl⟩

/-- the source factor `qc = a/k` follows the lifts the same way -/
theorem material_qc_lift (P : Prob ℝ) (Nt Nz : Nat) (dth dz : ℝ) (qfun : ℝ → ℝ)
    (hq : ∀ i j k, P.qc i j k = qfun (P.Tn i j k)) :
    (∀ i j k, (P.lift2 Nt dth).qc i j k = qfun ((P.lift2 Nt dth).Tn i j k)) ∧
    (∀ i j k, (P.lift3 Nz dz).qc i j k = qfun ((P.lift3 Nz dz).Tn i j k)) :=
  ⟨material_qc_lift2 P Nt dth qfun hq, material_qc_lift3 P Nz dz qfun hq⟩

/-- **axisym_2d_is_1d for whole histories** (every step and sub-step): whatever links `P (n+1)` to
`T (n+1)`, the 1-D solutions copied onto every ray solve the lifted 2-D steps. -/
theorem axisym_history (P : Nat → Prob ℝ) (T : Nat → GField ℝ) (Nt : Nat) (dth : ℝ)
    (h1 : ∀ n, (P n).ndim = 1) (hsol : ∀ n, (P n).Solves (T (n+1))) :
    ∀ n, ((P n).lift2 Nt dth).Solves (fun i _ k => T (n+1) i 0 k) :=
  history_lift2 P T Nt dth h1 hsol

/-- **uniform_3d_is_2d for whole histories.** -/
theorem uniform3d_history (P : Nat → Prob ℝ) (T : Nat → GField ℝ) (Nz : Nat) (dz : ℝ)
    (h2 : ∀ n, (P n).ndim = 2) (hsol : ∀ n, (P n).Solves (T (n+1))) :
    ∀ n, ((P n).lift3 Nz dz).Solves (fun i j _ => T (n+1) i j 0) :=
  history_lift3 P T Nz dz h2 hsol

/-- **the 2-D solver cannot return anything else**: under the hypotheses of `step_unique` on the
lifted step, every solution `S` of the lifted 2-D step is the 1-D solution on every ray (real nodes) -/
theorem lift2_unique (P : Prob ℝ) (T S : GField ℝ) (Nt : Nat) (dth : ℝ) (h1 : P.ndim = 1)
    (hsol : P.Solves T) (hS : (P.lift2 Nt dth).Solves S)
    (hs : (P.lift2 Nt dth).Sized) (hst : (P.lift2 Nt dth).steady = false)
    (hdt : 0 < (P.lift2 Nt dth).dt) (hw : (P.lift2 Nt dth).WeightsNonneg)
    (hci : ∀ tf h, (P.lift2 Nt dth).inner = .conv tf h →
      ∀ j k, 0 ≤ (P.lift2 Nt dth).dr * h j k / (P.lift2 Nt dth).kk 1 j k)
    (hco : ∀ tf h, (P.lift2 Nt dth).outer = .conv tf h →
      ∀ j k, 0 ≤ (P.lift2 Nt dth).dr * h j k / (P.lift2 Nt dth).kk (P.lift2 Nt dth).N j k) :
    ∀ i j k, (P.lift2 Nt dth).isRealI i = true → (P.lift2 Nt dth).isRealJ j = true →
      (P.lift2 Nt dth).isRealK k = true → S i j k = T i 0 k :=
  SrModel.Thermal.lift2_unique P T S Nt dth h1 hsol hS hs hst hdt hw hci hco

/-- **the 3-D solver cannot return anything else** -/
theorem lift3_unique (P : Prob ℝ) (T S : GField ℝ) (Nz : Nat) (dz : ℝ) (h2 : P.ndim = 2)
    (hsol : P.Solves T) (hS : (P.lift3 Nz dz).Solves S)
    (hs : (P.lift3 Nz dz).Sized) (hst : (P.lift3 Nz dz).steady = false)
    (hdt : 0 < (P.lift3 Nz dz).dt) (hw : (P.lift3 Nz dz).WeightsNonneg)
    (hci : ∀ tf h, (P.lift3 Nz dz).inner = .conv tf h →
      ∀ j k, 0 ≤ (P.lift3 Nz dz).dr * h j k / (P.lift3 Nz dz).kk 1 j k)
    (hco : ∀ tf h, (P.lift3 Nz dz).outer = .conv tf h →
      ∀ j k, 0 ≤ (P.lift3 Nz dz).dr * h j k / (P.lift3 Nz dz).kk (P.lift3 Nz dz).N j k) :
    ∀ i j k, (P.lift3 Nz dz).isRealI i = true → (P.lift3 Nz dz).isRealJ j = true →
      (P.lift3 Nz dz).isRealK k = true → S i j k = T i j 0 :=
  SrModel.Thermal.lift3_unique P T S Nz dz h2 hsol hS hs hst hdt hw hci hco

/-- one transient step is unique on every node the next step reads (`Prob.used`: real nodes and ghost
nodes with one ghost index), not only on the real nodes — what the induction over steps needs,
because `setup_step` evaluates the material on the whole ghosted field -/
theorem step_unique_used (P : Prob ℝ) (T T' : GField ℝ) (hok : P.UniqueOK)
    (h1 : P.Solves T) (h2 : P.Solves T') : ∀ i j k, P.used i j k → T i j k = T' i j k :=
  SrModel.Thermal.step_unique_used P T T' hok.sized hok.trans hok.dtpos hok.wnn hok.convI hok.convO
    hok.fixI hok.fixO h1 h2

/-- a step reads its lagged fields on the used nodes only (`c`) / on the real nodes only
(`kk`, `qc`, `Tn`): replacing them elsewhere does not change what `Solves` means -/
theorem solves_reads_used (P : Prob ℝ) (Tn c kk qc T : GField ℝ)
    (hc : ∀ i j k, P.used i j k → c i j k = P.c i j k)
    (hk : ∀ i j k, P.isRealI i = true → P.isRealJ j = true → P.isRealK k = true →
      kk i j k = P.kk i j k)
    (hq : ∀ i j k, P.isRealI i = true → P.isRealJ j = true → P.isRealK k = true →
      qc i j k = P.qc i j k)
    (hT : ∀ i j k, P.isRealI i = true → P.isRealJ j = true → P.isRealK k = true →
      Tn i j k = P.Tn i j k)
    (hs : P.Sized) (hsol : P.Solves T) : (P.withLag Tn c kk qc).Solves T :=
  solves_withLag P Tn c kk qc hc T hk hq hT hs hsol

/-- **determinism of a transient history**: initial field + step data + material law fix every
later field on the used nodes -/
theorem history_unique (L Q : Nat → Prob ℝ) (U S : Nat → GField ℝ) (a kfun qfun : ℝ → ℝ)
    (hgrid : ∀ n, (L n).ndim = (L 0).ndim ∧ (L n).N = (L 0).N ∧
      ((L 0).ndim ≥ 2 → (L n).Nt = (L 0).Nt) ∧ ((L 0).ndim ≥ 3 → (L n).Nz = (L 0).Nz))
    (hLp : ∀ n i j k, (L n).Tn i j k = U n i j k) (hLlaw : ∀ n, (L n).Law a kfun qfun)
    (hQp : ∀ n i j k, (Q n).Tn i j k = S n i j k) (hQlaw : ∀ n, (Q n).Law a kfun qfun)
    (hdata : ∀ n, (Q n).withLagged (L n) = L n)
    (hLsol : ∀ n, (L n).Solves (U (n+1))) (hQsol : ∀ n, (Q n).Solves (S (n+1)))
    (h0 : ∀ i j k, (L 0).used i j k → S 0 i j k = U 0 i j k)
    (hok : ∀ n, (L n).UniqueOK) :
    ∀ n i j k, (L 0).used i j k → S n i j k = U n i j k :=
  SrModel.Thermal.history_unique L Q U S a kfun qfun hgrid hLp hLlaw hQp hQlaw hdata hLsol hQsol h0 hok

/-- **axisym_2d_is_1d, whole history, with uniqueness.**  1-D history `P n`/`T` with a point-wise
material law on its previous field `T n`; 2-D history `Q n`/`S` with the lifted step data
(`hdata`), ITS OWN previous field `S n` and the same law on it.  If `S 0` is `T 0` on every ray,
then `S n` is `T n` on every ray for all `n`: on every used node … -/
theorem axisym_history_unique (P Q : Nat → Prob ℝ) (T S : Nat → GField ℝ) (Nt : Nat) (dth : ℝ)
    (a kfun qfun : ℝ → ℝ)
    (h1 : ∀ n, (P n).ndim = 1) (hN : ∀ n, (P n).N = (P 0).N)
    (hPp : ∀ n i j k, (P n).Tn i j k = T n i j k) (hPlaw : ∀ n, (P n).Law a kfun qfun)
    (hPsol : ∀ n, (P n).Solves (T (n+1)))
    (hQp : ∀ n i j k, (Q n).Tn i j k = S n i j k) (hQlaw : ∀ n, (Q n).Law a kfun qfun)
    (hdata : ∀ n, (Q n).withLagged ((P n).lift2 Nt dth) = (P n).lift2 Nt dth)
    (hQsol : ∀ n, (Q n).Solves (S (n+1)))
    (h0 : ∀ i j k, ((P 0).lift2 Nt dth).used i j k → S 0 i j k = T 0 i 0 k)
    (hok : ∀ n, ((P n).lift2 Nt dth).UniqueOK) :
    ∀ n i j k, ((P 0).lift2 Nt dth).used i j k → S n i j k = T n i 0 k :=
  lift2_history_unique P Q T S Nt dth a kfun qfun h1 hN hPp hPlaw hPsol hQp hQlaw hdata hQsol h0 hok

/-- … in particular on every real node -/
theorem axisym_history_unique_real (P Q : Nat → Prob ℝ) (T S : Nat → GField ℝ) (Nt : Nat) (dth : ℝ)
    (a kfun qfun : ℝ → ℝ)
    (h1 : ∀ n, (P n).ndim = 1) (hN : ∀ n, (P n).N = (P 0).N)
    (hPp : ∀ n i j k, (P n).Tn i j k = T n i j k) (hPlaw : ∀ n, (P n).Law a kfun qfun)
    (hPsol : ∀ n, (P n).Solves (T (n+1)))
    (hQp : ∀ n i j k, (Q n).Tn i j k = S n i j k) (hQlaw : ∀ n, (Q n).Law a kfun qfun)
    (hdata : ∀ n, (Q n).withLagged ((P n).lift2 Nt dth) = (P n).lift2 Nt dth)
    (hQsol : ∀ n, (Q n).Solves (S (n+1)))
    (h0 : ∀ i j k, ((P 0).lift2 Nt dth).used i j k → S 0 i j k = T 0 i 0 k)
    (hok : ∀ n, ((P n).lift2 Nt dth).UniqueOK) :
    ∀ n i j k, 1 ≤ i ∧ i ≤ (P 0).N → 1 ≤ j ∧ j ≤ Nt → k = 0 → S n i j k = T n i 0 k := by
  intro n i j k hi hj hk
  refine lift2_history_unique P Q T S Nt dth a kfun qfun h1 hN hPp hPlaw hPsol hQp hQlaw hdata
    hQsol h0 hok n i j k (used_real _ ?_ ?_ ?_)
  · simp [Prob.isRealI, Prob.lift2]; exact ⟨hi.1, decide_eq_true hi.2⟩
  · simp [Prob.isRealJ, Prob.lift2]; exact ⟨hj.1, decide_eq_true hj.2⟩
  · simp [Prob.isRealK, Prob.lift2]; exact hk

/-- **uniform_3d_is_2d, whole history, with uniqueness.** -/
theorem uniform3d_history_unique (P Q : Nat → Prob ℝ) (T S : Nat → GField ℝ) (Nz : Nat) (dz : ℝ)
    (a kfun qfun : ℝ → ℝ)
    (h2 : ∀ n, (P n).ndim = 2) (hN : ∀ n, (P n).N = (P 0).N) (hNt : ∀ n, (P n).Nt = (P 0).Nt)
    (hPp : ∀ n i j k, (P n).Tn i j k = T n i j k) (hPlaw : ∀ n, (P n).Law a kfun qfun)
    (hPsol : ∀ n, (P n).Solves (T (n+1)))
    (hQp : ∀ n i j k, (Q n).Tn i j k = S n i j k) (hQlaw : ∀ n, (Q n).Law a kfun qfun)
    (hdata : ∀ n, (Q n).withLagged ((P n).lift3 Nz dz) = (P n).lift3 Nz dz)
    (hQsol : ∀ n, (Q n).Solves (S (n+1)))
    (h0 : ∀ i j k, ((P 0).lift3 Nz dz).used i j k → S 0 i j k = T 0 i j 0)
    (hok : ∀ n, ((P n).lift3 Nz dz).UniqueOK) :
    ∀ n i j k, ((P 0).lift3 Nz dz).used i j k → S n i j k = T n i j 0 :=
  lift3_history_unique P Q T S Nz dz a kfun qfun h2 hN hNt hPp hPlaw hPsol hQp hQlaw hdata hQsol h0 hok

theorem uniform3d_history_unique_real (P Q : Nat → Prob ℝ) (T S : Nat → GField ℝ) (Nz : Nat) (dz : ℝ)
    (a kfun qfun : ℝ → ℝ)
    (h2 : ∀ n, (P n).ndim = 2) (hN : ∀ n, (P n).N = (P 0).N) (hNt : ∀ n, (P n).Nt = (P 0).Nt)
    (hPp : ∀ n i j k, (P n).Tn i j k = T n i j k) (hPlaw : ∀ n, (P n).Law a kfun qfun)
    (hPsol : ∀ n, (P n).Solves (T (n+1)))
    (hQp : ∀ n i j k, (Q n).Tn i j k = S n i j k) (hQlaw : ∀ n, (Q n).Law a kfun qfun)
    (hdata : ∀ n, (Q n).withLagged ((P n).lift3 Nz dz) = (P n).lift3 Nz dz)
    (hQsol : ∀ n, (Q n).Solves (S (n+1)))
    (h0 : ∀ i j k, ((P 0).lift3 Nz dz).used i j k → S 0 i j k = T 0 i j 0)
    (hok : ∀ n, ((P n).lift3 Nz dz).UniqueOK) :
    ∀ n i j k, 1 ≤ i ∧ i ≤ (P 0).N → 1 ≤ j ∧ j ≤ (P 0).Nt → 1 ≤ k ∧ k ≤ Nz →
      S n i j k = T n i j 0 := by
  intro n i j k hi hj hk
  refine lift3_history_unique P Q T S Nz dz a kfun qfun h2 hN hNt hPp hPlaw hPsol hQp hQlaw hdata
    hQsol h0 hok n i j k (used_real _ ?_ ?_ ?_)
  · simp [Prob.isRealI, Prob.lift3]; exact ⟨hi.1, decide_eq_true hi.2⟩
  · simp [Prob.isRealJ, Prob.lift3]; exact ⟨hj.1, decide_eq_true hj.2⟩
  · simp [Prob.isRealK, Prob.lift3]; exact ⟨hk.1, decide_eq_true hk.2⟩

/-- **2-D run = 1-D run, in the shape of the code**: each run evaluates the material
`(a, kfun, qfun)` on its own whole ghosted previous field (`Prob.withPrev`, as `setup_step` does);
`G n` are the 1-D step data (geometry, time step, source, walls). -/
theorem axisym_run_unique (G : Nat → Prob ℝ) (T S : Nat → GField ℝ) (Nt : Nat) (dth : ℝ)
    (a kfun qfun : ℝ → ℝ)
    (h1 : ∀ n, (G n).ndim = 1) (hN : ∀ n, (G n).N = (G 0).N)
    (hT : ∀ n, ((G n).withPrev a kfun qfun (T n)).Solves (T (n+1)))
    (hS : ∀ n, (((G n).lift2 Nt dth).withPrev a kfun qfun (S n)).Solves (S (n+1)))
    (h0 : ∀ i j k, ((G 0).lift2 Nt dth).used i j k → S 0 i j k = T 0 i 0 k)
    (hok : ∀ n, (((G n).withPrev a kfun qfun (T n)).lift2 Nt dth).UniqueOK) :
    ∀ n i j k, ((G 0).lift2 Nt dth).used i j k → S n i j k = T n i 0 k :=
  lift2_run_unique G T S Nt dth a kfun qfun h1 hN hT hS h0 hok

/-- **3-D run = 2-D run, in the shape of the code.** -/
theorem uniform3d_run_unique (G : Nat → Prob ℝ) (T S : Nat → GField ℝ) (Nz : Nat) (dz : ℝ)
    (a kfun qfun : ℝ → ℝ)
    (h2 : ∀ n, (G n).ndim = 2) (hN : ∀ n, (G n).N = (G 0).N) (hNt : ∀ n, (G n).Nt = (G 0).Nt)
    (hT : ∀ n, ((G n).withPrev a kfun qfun (T n)).Solves (T (n+1)))
    (hS : ∀ n, (((G n).lift3 Nz dz).withPrev a kfun qfun (S n)).Solves (S (n+1)))
    (h0 : ∀ i j k, ((G 0).lift3 Nz dz).used i j k → S 0 i j k = T 0 i j 0)
    (hok : ∀ n, (((G n).withPrev a kfun qfun (T n)).lift3 Nz dz).UniqueOK) :
    ∀ n i j k, ((G 0).lift3 Nz dz).used i j k → S n i j k = T n i j 0 :=
  lift3_run_unique G T S Nz dz a kfun qfun h2 hN hNt hT hS h0 hok

/-! ### non-vacuity: rotating a uniform 2-D solution -/
noncomputable def ex : Prob ℝ :=
  { ndim := 2, N := 2, Nt := 3, Nz := 0, steady := false, dt := 1, dr := 1, dth := 1, dz := 1,
    rr := fun i => 9 + i, c := fun _ _ _ => 1, kk := fun _ _ _ => 1, qc := fun _ _ _ => 1,
    src := fun _ _ _ => 0, Tn := fun _ _ _ => 5, inner := .ins, outer := .ins }
example : ex.Solves (fun _ _ _ => 5) := by
  refine ⟨?_, ?_, ?_, ?_, ?_⟩
  · intro i j k _ _ _; simp [ex, Prob.lhsReal, Prob.rhsReal, Prob.applyA]
  · intro j k _ _; simp [ex, Prob.innerRes]
  · intro j k _ _; simp [ex, Prob.outerRes]
  · intro _ i k _ _; simp
  · intro h; simp [ex] at h
example : ex.CPeriodicPt := by intro i k; simp [ex]
example : ex.ndim ≥ 2 ∧ 2 ≤ ex.Nt := by simp [ex]

/-! ### non-vacuity of the history theorems: a 1-D run with a temperature-dependent material, a
convective inner wall and a fixed outer wall, held at the uniform temperature 5, and its 2-D lift -/
noncomputable def exG : Prob ℝ :=
  { ndim := 1, N := 2, Nt := 0, Nz := 0, steady := false, dt := 1, dr := 1, dth := 1, dz := 1,
    rr := fun i => 9 + i, c := fun _ _ _ => 0, kk := fun _ _ _ => 0, qc := fun _ _ _ => 0,
    src := fun _ _ _ => 0, Tn := fun _ _ _ => 0,
    inner := .conv (fun _ _ => 5) (fun _ _ => 1), outer := .fix (fun _ _ => 5) }
noncomputable def exA : ℝ → ℝ := fun t => t / 5
noncomputable def exQ : ℝ → ℝ := fun _ => 1

theorem exG_solves : (exG.withPrev exA exA exQ (fun _ _ _ => 5)).Solves (fun _ _ _ => 5) := by
  refine ⟨?_, ?_, ?_, ?_, ?_⟩
  · intro i j k _ _ _
    simp [exG, Prob.withPrev, Prob.withLag, Prob.lhsReal, Prob.rhsReal, Prob.applyA]
  · intro j k _ _; simp [exG, Prob.withPrev, Prob.withLag, Prob.innerRes]
  · intro j k _ _; simp [exG, Prob.withPrev, Prob.withLag, Prob.outerRes]
  · intro h; simp [exG, Prob.withPrev, Prob.withLag] at h
  · intro h; simp [exG, Prob.withPrev, Prob.withLag] at h

theorem exG_ok : ((exG.withPrev exA exA exQ (fun _ _ _ => 5)).lift2 3 1).UniqueOK := by
  refine ⟨⟨?_, ?_, ?_⟩, rfl, ?_, ?_, ?_, ?_, ?_, ?_⟩
  · simp [exG, Prob.withPrev, Prob.withLag, Prob.lift2]
  · intro _; simp [exG, Prob.withPrev, Prob.withLag, Prob.lift2]
  · intro h; simp [exG, Prob.withPrev, Prob.withLag, Prob.lift2] at h
  · simp [exG, Prob.withPrev, Prob.withLag, Prob.lift2]
  · apply weightsNonneg_of_pos
    · intro i j k; simp [exG, exA, Prob.withPrev, Prob.withLag, Prob.lift2]
    · intro i _; simp [exG, Prob.withPrev, Prob.withLag, Prob.lift2]; positivity
    · intro i _; simp [exG, Prob.withPrev, Prob.withLag, Prob.lift2, Prob.rh]; positivity
  · intro tf h hw j k
    simp [exG, Prob.withPrev, Prob.withLag, Prob.lift2, Wall.lift2] at hw
    simp [exG, exA, Prob.withPrev, Prob.withLag, Prob.lift2, ← hw.2]
  · intro tf h hw
    simp [exG, Prob.withPrev, Prob.withLag, Prob.lift2, Wall.lift2] at hw
  · intro v hw
    simp [exG, Prob.withPrev, Prob.withLag, Prob.lift2, Wall.lift2] at hw
  · intro v _
    refine ⟨by simp [exG, Prob.withPrev, Prob.withLag, Prob.lift2], ?_⟩
    intro j k _ _
    simp [exG, exA, Prob.withPrev, Prob.withLag, Prob.lift2, Prob.wrp, Prob.rh, Prob.ahr]
    norm_num

/-- every 2-D run on the lifted data that starts at the uniform field and evaluates the material on
its own previous field stays at the 1-D solution (all hypotheses of `axisym_run_unique` hold) … -/
example (S : Nat → GField ℝ) (h0 : ∀ i j k, S 0 i j k = 5)
    (hS : ∀ n, ((exG.lift2 3 1).withPrev exA exA exQ (S n)).Solves (S (n+1))) :
    ∀ n i j k, (exG.lift2 3 1).used i j k → S n i j k = 5 :=
  axisym_run_unique (fun _ => exG) (fun _ _ _ _ => 5) S 3 1 exA exA exQ (fun _ => rfl) (fun _ => rfl)
    (fun _ => exG_solves) hS (fun i j k _ => h0 i j k) (fun _ => exG_ok)

/-- … and such a 2-D run exists -/
example : ((exG.lift2 3 1).withPrev exA exA exQ (fun _ _ _ => 5)).Solves (fun _ _ _ => 5) :=
  axisym_2d_is_1d _ _ 3 1 rfl exG_solves

end SrProps.C12
