import SrProofs.Thermal

/-!
# C12 — thermal solution is rotation-equivariant and consistent across abstractions

Model: `SrModel.Thermal`.  With `step_unique` (C06) "a solution" is "the solution" of a transient
step, so each statement below identifies the solution of the transformed problem.
-/
namespace SrProps.C12
open SrModel.Thermal

/-- **shift_equivariance (one cell).** Rotating all data of a step (previous temperatures, hence
the lagged coefficients, wall data, source) by one circumferential cell rotates the solution. -/
theorem shift_equivariance_unit (P : Prob ℝ) (T : GField ℝ) (hnd : P.ndim ≥ 2) (h2 : 2 ≤ P.Nt)
    (hc : P.CPeriodicPt) (hsol : P.Solves T) : P.rot.Solves (GField.rot P.Nt T) :=
  solves_rot P T hnd h2 hc hsol

/-- **shift_equivariance.** Any whole number `s` of cells. -/
theorem shift_equivariance (P : Prob ℝ) (T : GField ℝ) (s : Nat) (hnd : P.ndim ≥ 2) (h2 : 2 ≤ P.Nt)
    (hc : P.CPeriodicPt) (hsol : P.Solves T) : (P.rotN s).Solves (GField.rotN P.Nt T s) :=
  (solves_rotN P T s hnd h2 hc hsol).1

/-- the rotated field is *the* solution of the rotated transient step: any solution `S` of the
rotated problem equals the rotated solution at every real node -/
theorem shift_equivariance_unique (P : Prob ℝ) (T S : GField ℝ) (hnd : P.ndim ≥ 2) (h2 : 2 ≤ P.Nt)
    (hc : P.CPeriodicPt) (hsol : P.Solves T) (hS : P.rot.Solves S)
    (hs : P.rot.Sized) (hst : P.rot.steady = false) (hdt : 0 < P.rot.dt) (hw : P.rot.WeightsNonneg)
    (hci : ∀ tf h, P.rot.inner = .conv tf h → ∀ j k, 0 ≤ P.rot.dr * h j k / P.rot.kk 1 j k)
    (hco : ∀ tf h, P.rot.outer = .conv tf h → ∀ j k, 0 ≤ P.rot.dr * h j k / P.rot.kk P.rot.N j k) :
    ∀ i j k, P.rot.isRealI i = true → P.rot.isRealJ j = true → P.rot.isRealK k = true →
      S i j k = GField.rot P.Nt T i j k :=
  step_unique P.rot S (GField.rot P.Nt T) hs hst hdt hw hci hco hS (solves_rot P T hnd h2 hc hsol)

/-- a temperature-dependent material (coefficients = point-wise functions of the previous field)
commutes with the rotation, so equivariance carries over from step to step -/
theorem material_law_rot (P : Prob ℝ) (a kfun : ℝ → ℝ)
    (hc : ∀ i j k, P.c i j k = a (P.Tn i j k)) (hk : ∀ i j k, P.kk i j k = kfun (P.Tn i j k)) :
    (∀ i j k, P.rot.c i j k = a (P.rot.Tn i j k)) ∧ (∀ i j k, P.rot.kk i j k = kfun (P.rot.Tn i j k)) :=
  SrModel.Thermal.material_law_rot P a kfun hc hk

/-- **shift_equivariance for whole histories** (every step and sub-step) -/
theorem shift_equivariance_history (P : Nat → Prob ℝ) (T : Nat → GField ℝ)
    (hnd : ∀ n, (P n).ndim ≥ 2) (h2 : ∀ n, 2 ≤ (P n).Nt) (hc : ∀ n, (P n).CPeriodicPt)
    (hsol : ∀ n, (P n).Solves (T (n+1))) :
    ∀ n, (P n).rot.Solves (GField.rot (P n).Nt (T (n+1))) :=
  history_rot P T hnd h2 hc hsol

/-- **axisym_2d_is_1d.** θ-independent data: the 1-D solution on every ray solves the 2-D step. -/
theorem axisym_2d_is_1d (P : Prob ℝ) (T : GField ℝ) (Nt : Nat) (dth : ℝ) (h1 : P.ndim = 1)
    (hsol : P.Solves T) : (P.lift2 Nt dth).Solves (fun i _ k => T i 0 k) :=
  SrModel.Thermal.axisym_2d_is_1d P T Nt dth h1 hsol

/-- **uniform_3d_is_2d.** z-independent data: the 2-D solution on every plane solves the 3-D step. -/
theorem uniform_3d_is_2d (P : Prob ℝ) (T : GField ℝ) (Nz : Nat) (dz : ℝ) (h2 : P.ndim = 2)
    (hsol : P.Solves T) : (P.lift3 Nz dz).Solves (fun i j _ => T i j 0) :=
  SrModel.Thermal.uniform_3d_is_2d P T Nz dz h2 hsol

/-- **superposition.** For a fixed operator (constant material: coefficients do not depend on the
data) the step is linear in (source, previous temperatures, wall data, fluid temperatures). -/
theorem superposition (P : Prob ℝ) (d e : Data) (a b : ℝ) (T T' : GField ℝ)
    (hi : Wall.Same d.inner e.inner) (ho : Wall.Same d.outer e.outer)
    (h1 : (P.withData d).Solves T) (h2 : (P.withData e).Solves T') :
    (P.withData (Data.comb a b d e)).Solves (GField.comb a b T T') :=
  solves_comb P d e a b T T' hi ho h1 h2

/-! ### non-vacuity: rotating a uniform 2-D solution -/
noncomputable def ex : Prob ℝ :=
  { ndim := 2, N := 2, Nt := 3, Nz := 0, steady := false, dt := 1, dr := 1, dth := 1, dz := 1,
    rr := fun i => 9 + i, c := fun _ _ _ => 1, kk := fun _ _ _ => 1, qc := fun _ _ _ => 1,
    src := fun _ _ _ => 0, Tn := fun _ _ _ => 5, inner := .ins, outer := .ins }
example : ex.Solves (fun _ _ _ => 5) := by
  refine ⟨?_, ?_, ?_, ?_, ?_⟩
  · intro i j k _ _ _; simp [ex, Prob.lhsReal, Prob.rhsReal, Prob.applyA]
  · intro j k _ _; simp [ex, Prob.innerRes]
  · intro j k _ _; simp [ex, Prob.outerRes]
  · intro _ i k _ _; simp
  · intro h; simp [ex] at h
example : ex.CPeriodicPt := by intro i k; simp [ex]
example : ex.ndim ≥ 2 ∧ 2 ≤ ex.Nt := by simp [ex]

end SrProps.C12
