import SrProofs.Coupled

/-!
# C07 — coupled fluid-solid thermal solution is energy-consistent

Models: `SrModel.Coupled` (bookkeeping of `ThermohydraulicsThermalSolver`/`FlowPath`: set-up
validation, chain layout, recovery, write-back, initial condition and cycle reset, link algebra) and
`SrModel.Thermal` (the solid step).  Picard convergence is C17; the solid step system is C02/C06.
-/
namespace SrProps.C07
open SrModel.Coupled SrModel.Thermal Finset

/-- **setup_validation.** `_setup` accepts iff no panel is named twice in the flow paths and the
named panels are exactly the receiver's panels — "each panel in exactly one path". -/
theorem setup_validation (paths : List (List String)) (panels : List String) :
    setup paths panels = .ok ↔ (paths.flatten.Nodup ∧ ∀ p, p ∈ paths.flatten ↔ p ∈ panels) := by
  unfold setup
  by_cases hd : hasDup paths.flatten = true
  · simp only [hd, if_true]
    constructor
    · intro h; cases h
    · rintro ⟨h, _⟩; exact absurd h ((hasDup_iff _).1 hd)
  · have hn : paths.flatten.Nodup := by
      by_contra h; exact hd ((hasDup_iff _).2 h)
    by_cases hs : sameSet paths.flatten panels = true
    · simp only [hd, hs]
      constructor
      · intro _; exact ⟨hn, (sameSet_iff _ _).1 hs⟩
      · intro _; rfl
    · simp only [hd, hs]
      constructor
      · intro h; simp at h
      · rintro ⟨_, h⟩; exact absurd ((sameSet_iff _ _).2 h) hs

/-- which error is raised -/
theorem setup_errors (paths : List (List String)) (panels : List String) :
    (setup paths panels = .duplicate ↔ ¬ paths.flatten.Nodup) := by
  unfold setup
  by_cases hd : hasDup paths.flatten = true
  · simp [hd]; exact (hasDup_iff _).1 hd
  · have hn : paths.flatten.Nodup := by
      by_contra h; exact hd ((hasDup_iff _).2 h)
    by_cases hs : sameSet paths.flatten panels = true <;> simp [hd, hs, hn]

/-- **panel_order / recover_indexing.** Per-link data recovered from the chain are the panels'
data in the declared order: entry `i` belongs to panel `panels[i]` (any number of panels). -/
theorem panel_order {β} (g : Link → β) (ps : List (String × Nat)) :
    recover ((chainOf ps).map g) = ps.map (fun p => g (.panel p.1 p.2)) :=
  recover_chain g ps

/-- the chain starts with the inlet link, whose single dof is dof 0 -/
theorem chain_starts_with_inlet (ps : List (String × Nat)) :
    (chainOf ps).head? = some .start ∧ (dofMap 0 (chainOf ps)).head? = some [0] := by
  simp [chainOf, dofMap, Link.size]

/-- **write_back.** `zip(panels, per-panel data)` pairs panel `i` with entry `i`, and tube `k` of
the panel with entry `k` of that panel's list. -/
theorem write_back_spec {α} (panels : List String) (perPanel : List (List α)) (p : String) (k : Nat)
    (v : α) : (p, k, v) ∈ writeBack panels perPanel ↔
      ∃ (i : Nat) (vals : List α), (panels.zip perPanel)[i]? = some (p, vals) ∧ vals[k]? = some v := by
  unfold writeBack
  simp only [List.mem_flatMap, List.mem_map, Prod.mk.injEq, Prod.exists]
  constructor
  · rintro ⟨p', vals, hm, v', k', hv, rfl, rfl, rfl⟩
    obtain ⟨i, hi⟩ := List.getElem?_of_mem hm
    refine ⟨i, vals, hi, ?_⟩
    rw [List.mem_zipIdx_iff_getElem?] at hv
    simpa using hv
  · rintro ⟨i, vals, hi, hv⟩
    refine ⟨p, vals, List.mem_of_getElem? hi, v, k, ?_, rfl, rfl, rfl⟩
    rw [List.mem_zipIdx_iff_getElem?]; simpa using hv

/-- **starts_at_T0.** The stored field at step 0 is the initial temperature. -/
theorem starts_at_T0 {α} (T0 : α) (solve : Nat → α → α) (trigger : Nat → Bool) (reset : Bool) :
    history T0 solve trigger reset 0 = T0 := rfl

/-- **reset_returns_T0.** With the cycle-reset heuristic, every stored step whose time triggers
the reset holds the initial temperature again, whatever the solves in between produced. -/
theorem reset_returns_T0 {α} (T0 : α) (solve : Nat → α → α) (trigger : Nat → Bool) (n : Nat)
    (h : trigger (n+1) = true) : history T0 solve trigger true (n+1) = T0 := by
  simp [history, h]

/-- without a reset at that step the stored field is the solve's result from the previous field -/
theorem no_reset_is_solve {α} (T0 : α) (solve : Nat → α → α) (trigger : Nat → Bool) (reset : Bool)
    (n : Nat) (h : (reset && trigger (n+1)) = false) :
    history T0 solve trigger reset (n+1) = solve (n+1) (history T0 solve trigger reset n) := by
  simp only [history, h]; simp

/-- **inlet_is_prescribed.** At a zero of the chain residual the first node is the prescribed
inlet temperature. -/
theorem inlet_is_prescribed (Tend Tinlet : ℝ) (h : startRes Tend Tinlet = 0) : Tend = Tinlet := by
  unfold startRes at h; linarith

/-- per-tube heat balance at a zero of the panel residual (`w > 0`): enthalpy gained by the fluid
of one represented tube = convective heat from its wall -/
theorem tube_heat_balance (w mdot ntube cp dT ri dz dth h S : ℝ)
    (hres : panelRes w mdot ntube cp dT ri dz dth h S = 0) :
    w * mdot / ntube * cp * dT = ri * dz * dth * (w * h * S) := by
  unfold panelRes at hres; linarith

/-- **multiplier_equiv (tubes).** The tube residual is `w ×` a factor that does not contain the
weight, so its zeros do not depend on how many real tubes the model tube stands for. -/
theorem multiplier_equiv_tube (w w' mdot ntube cp dT ri dz dth h S : ℝ) (hw : w ≠ 0) (hw' : w' ≠ 0) :
    panelRes w mdot ntube cp dT ri dz dth h S = 0 ↔ panelRes w' mdot ntube cp dT ri dz dth h S = 0 := by
  have key : ∀ v : ℝ, panelRes v mdot ntube cp dT ri dz dth h S
      = v * (mdot / ntube * cp * dT - ri * dz * dth * (h * S)) := by
    intro v; unfold panelRes; ring
  rw [key w, key w', mul_eq_zero, mul_eq_zero]
  simp [hw, hw']

theorem sum_replicate (n : Nat) (x : ℝ) : SrModel.Coupled.sum (List.replicate n x) = n * x := by
  unfold SrModel.Coupled.sum
  have : ∀ (acc : ℝ), (List.replicate n x).foldl (· + ·) acc = acc + n * x := by
    induction n with
    | zero => intro acc; simp
    | succ m ih => intro acc; simp [List.replicate_succ, ih]; ring
  simpa using this 0

/-- **multiplier_equiv (manifold).** `k` identical tubes of multiplier `m` and one tube of
multiplier `k·m` give the same manifold temperature (their common outlet temperature). -/
theorem multiplier_equiv_manifold (k : Nat) (m T Tout : ℝ) (hk : 0 < k) (hm : m ≠ 0) :
    manifoldRes (List.replicate k m) (List.replicate k T) Tout
      = manifoldRes [k * m] [T] Tout := by
  unfold manifoldRes
  have h1 : List.zipWith (· * ·) (List.replicate k m) (List.replicate k T) = List.replicate k (m * T) := by
    simp [List.zipWith_replicate]
  rw [h1, sum_replicate, sum_replicate]
  simp only [SrModel.Coupled.sum, List.zipWith_cons_cons, List.zipWith_nil_right, List.foldl_cons,
    List.foldl_nil, zero_add]
  ring

/-- manifold temperature is the multiplier-weighted mean of the tube outlets -/
theorem manifold_mean (w T : List ℝ) (Tout : ℝ) (h : manifoldRes w T Tout = 0) :
    Tout = SrModel.Coupled.sum (List.zipWith (· * ·) w T) / SrModel.Coupled.sum w := by
  unfold manifoldRes at h; linarith

/-- reported fluid profile is linear from the panel inlet (z = 0) to the tube outlet (z = h) -/
theorem profile_ends (Tstart Ttube h : ℝ) (hh : h ≠ 0) :
    fluidProfile Tstart Ttube h 0 = Tstart ∧ fluidProfile Tstart Ttube h h = Ttube := by
  unfold fluidProfile
  constructor
  · ring
  · field_simp; ring

/-- **energy_consistency (solid side).** Steady solid, convective inner wall, prescribed flux on
the outer wall, no source: the heat entering through the outer faces equals the heat handed to the
fluid through the inner faces, `Σ (rc)_{N+½}·dr·q/k_N = Σ (rc)_{½}·dr·h·(T_1 − T_f)/k_1`.
Together with `tube_heat_balance` (fluid side, same film coefficient and fluid temperature) this is
the path energy balance; the two sides use the half-cell radii `r_{N+½}`, `r_{½}` where the
physical areas use `r_o`, `r_i` — the `O(dr/r)` discretisation defect of C02. -/
theorem energy_consistency_solid (P : Prob ℝ) (T : GField ℝ) (q tf h : Nat → Nat → ℝ)
    (hst : P.steady = true) (hsol : P.Solves T) (hcp : P.CPeriodic)
    (hr : ∀ i, P.isRealI i = true → P.rr i ≠ 0) (hdr : P.dr ≠ 0)
    (hsrc : ∀ i j k, P.qc i j k * P.src i j k = 0)
    (hin : P.inner = .conv tf h) (hout : P.outer = .flux q) :
    ∑ j ∈ P.setJ, ∑ k ∈ P.setK, P.rh P.N * P.ahr P.N j k * (P.dr * q j k / P.kk P.N j k)
      = ∑ j ∈ P.setJ, ∑ k ∈ P.setK,
          P.rh 0 * P.ahr 0 j k * (P.dr * h j k * (T 1 j k - tf j k) / P.kk 1 j k) := by
  have hb := steady_face_balance P T hst hsol hcp hr hdr hsrc
  obtain ⟨_, hi, ho, _, _⟩ := hsol
  have e1 : ∀ j ∈ P.setJ, ∀ k ∈ P.setK,
      P.outerFace T j k = P.rh P.N * P.ahr P.N j k * (P.dr * q j k / P.kk P.N j k) :=
    fun j hj k hk => outerFace_flux P T j k q hout (ho j k ((mem_setJ P j).1 hj) ((mem_setK P k).1 hk))
  have e2 : ∀ j ∈ P.setJ, ∀ k ∈ P.setK,
      P.innerFace T j k = P.rh 0 * P.ahr 0 j k * (P.dr * h j k * (T 1 j k - tf j k) / P.kk 1 j k) := by
    intro j hj k hk
    have := innerFace_conv P T j k tf h hin (hi j k ((mem_setJ P j).1 hj) ((mem_setK P k).1 hk))
    have e : P.dr * h j k * (T 1 j k - tf j k) / P.kk 1 j k
        = -(P.dr * h j k * (tf j k - T 1 j k) / P.kk 1 j k) := by ring
    rw [e]; linarith
  calc _ = ∑ j ∈ P.setJ, ∑ k ∈ P.setK, P.outerFace T j k :=
        (Finset.sum_congr rfl fun j hj => Finset.sum_congr rfl fun k hk => (e1 j hj k hk).symm)
    _ = ∑ j ∈ P.setJ, ∑ k ∈ P.setK, P.innerFace T j k := hb
    _ = _ := Finset.sum_congr rfl fun j hj => Finset.sum_congr rfl fun k hk => e2 j hj k hk

/-- the discretisation factor between "heat through the outer surface" and "heat handed to the
fluid" for constant properties: `(r_o + dr/2)/r_o · r_i/(r_i − dr/2)`, within `2·dr/r_i` of 1 when
`dr ≤ r_i/2` -/
theorem energy_factor_bound (ri ro dr : ℝ) (hri : 0 < ri) (hro : ri ≤ ro) (hdr : 0 ≤ dr)
    (hsmall : dr ≤ ri / 2) :
    |(ro + dr / 2) / ro * (ri / (ri - dr / 2)) - 1| ≤ 2 * dr / ri := by
  have hro' : 0 < ro := lt_of_lt_of_le hri hro
  have hden : 0 < ri - dr / 2 := by linarith
  have hpos : 0 ≤ (ro + dr / 2) / ro * (ri / (ri - dr / 2)) - 1 := by
    have h1 : 1 ≤ (ro + dr / 2) / ro := by rw [le_div_iff₀ hro']; linarith
    have h2 : 1 ≤ ri / (ri - dr / 2) := by rw [le_div_iff₀ hden]; linarith
    nlinarith
  rw [abs_of_nonneg hpos]
  rw [div_mul_div_comm, sub_le_iff_le_add, div_le_iff₀ (by positivity)]
  have : (2 * dr / ri + 1) * (ro * (ri - dr / 2)) = (2 * dr + ri) * (ro * (ri - dr / 2)) / ri := by
    field_simp
  rw [this, le_div_iff₀ hri]
  nlinarith [mul_nonneg hdr hdr, mul_nonneg hdr hri.le, mul_nonneg hdr hro'.le,
    mul_nonneg (mul_nonneg hdr hro'.le) hri.le]

/-! ### non-vacuity -/
example : setup [["a", "b"], ["c"]] ["c", "a", "b"] = .ok := by decide
example : setup [["a", "b"], ["a"]] ["a", "b"] = .duplicate := by decide
example : setup [["a"]] ["a", "b"] = .missing := by decide
example : recover ((chainOf [("p", 2), ("q", 3)]).map fun l => match l with
    | .panel n _ => n | .start => "start" | .manifold => "manifold") = ["p", "q"] := by decide
example : (List.range 5).map (history (0 : Nat) (fun k _ => k) (fun k => k == 2 || k == 4) true)
    = [0, 1, 0, 3, 0] := by decide
example : writeBack ["p", "q"] [[10, 11], [20]] = [("p", 0, 10), ("p", 1, 11), ("q", 0, 20)] := by decide

end SrProps.C07
