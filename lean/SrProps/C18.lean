import SrProofs.Fluid
import Gen.FluidData

/-!
# C18 — film coefficient follows the documented correlation and is physically admissible

Model: `SrModel.Fluid` (`ThermalFluidMaterial` / `PolynomialThermalFluidMaterial` of
`srlife/thermohydraulics/thermalfluid.py`) instantiated at `ℝ` (`Real.log`, `Real.rpow`).
Shipped data: `Gen.FluidData` (regenerated from the XML files on every run).

The theorems quantify over **every** polynomial fluid (any coefficient lists, any scalars),
every temperature, velocity and radius, under the hypotheses written in each statement.
Not covered: IEEE rounding, overflow and NaN of the `Float` instance (e.g. `u = ∞`).
-/
namespace SrProps.C18
open SrModel SrModel.Fluid

/-- **film_ge_floor.** The film coefficient is never below `film_min` (no hypothesis). -/
theorem film_ge_floor (f : Fluid ℝ) (T u r : ℝ) : f.p.filmMin ≤ film f T u r :=
  le_max_right _ _

/-- **film_pos.** With a positive floor the coefficient is positive. -/
theorem film_pos (f : Fluid ℝ) (T u r : ℝ) (h : 0 < f.p.filmMin) : 0 < film f T u r :=
  lt_of_lt_of_le h (film_ge_floor f T u r)

/-- **tEff_spec.** The clipped temperature lies in the window (when the window is non-empty),
is the temperature itself inside the window, clipping is idempotent (always), and the Nusselt
number of a temperature is the Nusselt number of its clipped value. -/
theorem tEff_spec (f : Fluid ℝ) (T u r : ℝ) :
    (f.p.tMin ≤ f.p.tMax → f.p.tMin ≤ tEff f.p T ∧ tEff f.p T ≤ f.p.tMax) ∧
    (f.p.tMin ≤ T → T ≤ f.p.tMax → tEff f.p T = T) ∧
    tEff f.p (tEff f.p T) = tEff f.p T ∧
    nusselt f T u r = nusselt f (tEff f.p T) u r := by
  refine ⟨tEff_mem f.p T, tEff_id f.p T, tEff_idem f.p T, ?_⟩
  rw [nusselt_eq, nusselt_eq, tEff_idem]

/-- **nusselt_laminar.** Below the cut-off the Nusselt number is the laminar value. -/
theorem nusselt_laminar (f : Fluid ℝ) (T u r : ℝ)
    (h : reynolds f (tEff f.p T) u r < f.p.lamCut) : nusselt f T u r = f.p.lamVal := by
  rw [nusselt_eq]; exact nusseltOf_lam _ _ _ h

/-- **nusselt_turbulent.** From the cut-off on, the Nusselt number is the Gnielinski expression
of the Reynolds and Prandtl numbers formed from the four polynomials at the clipped temperature. -/
theorem nusselt_turbulent (f : Fluid ℝ) (T u r : ℝ)
    (h : f.p.lamCut ≤ polyval f.rho (tEff f.p T) * u * 2 * r / polyval f.mu (tEff f.p T)) :
    nusselt f T u r =
      gnielinski (polyval f.rho (tEff f.p T) * u * 2 * r / polyval f.mu (tEff f.p T))
        (polyval f.cp (tEff f.p T) * polyval f.mu (tEff f.p T) / polyval f.k (tEff f.p T)) := by
  rw [nusselt_eq, reynolds_tEff, prandtl_tEff]
  exact nusseltOf_turb _ _ _ h

/-- the Gnielinski expression as coded, written out over `ℝ` (what `gnielinski` *is*) -/
theorem gnielinski_def (re pr : ℝ) :
    gnielinski re pr =
      (((79 / 100 * Real.log re - 41 / 25) ^ (-2 : ℝ)) / 8 * (re - 1000) * pr) /
        (1 + 127 / 10 * (((79 / 100 * Real.log re - 41 / 25) ^ (-2 : ℝ)) / 8) ^ (1 / 2 : ℝ) *
          (pr ^ (2 / 3 : ℝ) - 1)) := by
  unfold gnielinski gnDen friction
  rw [frictionBase_eq]
  simp only [transc_pow]
  norm_num

/-- **film_finite.** Well-definedness over the positive reals.  For `u > 0`, `r > 0` and
positive properties at the clipped temperature: no division by zero (`2r`, `μ`, `k`), the
Reynolds and Prandtl numbers are positive (so `log Re` and `Pr^{2/3}` are taken of positive
numbers); wherever the Gnielinski expression is used (`Re ≥ cutoff`) with `cutoff ≥ 21` the base
`0.79 ln Re − 1.64` of the power `−2` is positive; with `cutoff ≥ 55` and `Pr ≥ 0.7` the
denominator `1 + 12.7 √(f/8) (Pr^{2/3} − 1)` is positive.  (The shipped cut-off is 2000.) -/
theorem film_finite (f : Fluid ℝ) (T u r : ℝ) (hu : 0 < u) (hr : 0 < r)
    (hρ : 0 < rho f (tEff f.p T)) (hμ : 0 < mu f (tEff f.p T))
    (hk : 0 < k f (tEff f.p T)) (hcp : 0 < cp f (tEff f.p T)) :
    (2.0 : ℝ) * r ≠ 0 ∧ mu f (tEff f.p T) ≠ 0 ∧ k f (tEff f.p T) ≠ 0 ∧
    0 < reynolds f (tEff f.p T) u r ∧ 0 < prandtl f (tEff f.p T) ∧
    (21 ≤ f.p.lamCut → f.p.lamCut ≤ reynolds f (tEff f.p T) u r →
      0 < frictionBase (reynolds f (tEff f.p T) u r)) ∧
    (55 ≤ f.p.lamCut → f.p.lamCut ≤ reynolds f (tEff f.p T) u r →
      7 / 10 ≤ prandtl f (tEff f.p T) →
      0 < gnDen (reynolds f (tEff f.p T) u r) (prandtl f (tEff f.p T))) := by
  refine ⟨?_, hμ.ne', hk.ne', reynolds_pos f _ u r hu hr hρ hμ, ?_, ?_, ?_⟩
  · have : (2.0 : ℝ) = 2 := by norm_num
    rw [this]; positivity
  · unfold prandtl; positivity
  · intro h1 h2; exact frictionBase_pos (le_trans h1 h2)
  · intro h1 h2 h3; exact gnDen_pos (le_trans h1 h2) h3

/-- **nusselt_pos.** With a positive laminar value, a cut-off above 1000 and `Pr ≥ 0.7` the
Nusselt number is positive for every Reynolds number. -/
theorem nusselt_pos (f : Fluid ℝ) (T u r : ℝ) (hlam : 0 < f.p.lamVal) (hcut : 1000 < f.p.lamCut)
    (hpr : 7 / 10 ≤ prandtl f (tEff f.p T)) : 0 < nusselt f T u r := by
  rw [nusselt_eq]
  rcases lt_or_ge (reynolds f (tEff f.p T) u r) f.p.lamCut with h | h
  · rw [nusseltOf_lam _ _ _ h]; exact hlam
  · rw [nusseltOf_turb _ _ _ h]; exact gnielinski_pos (lt_of_lt_of_le hcut h) hpr

/-- every shipped (file, variant): the certificate checker accepts the four polynomials on the
window (kernel evaluation of `Rat` arithmetic) -/
theorem shipped_certificate :
    Gen.FluidData.shipped.all (fun e => fluidPos 12 e.fluid) = true := by decide +kernel

/-- **shipped_props_positive.** For every shipped fluid and variant `c_p, ρ, μ, k > 0` on the
whole validity window `[T_min, T_max]` (the polynomials evaluated at `T` in K, as the code does;
coefficients are the decimal values written in the XML files). -/
theorem shipped_props_positive :
    ∀ e ∈ Gen.FluidData.shipped, ∀ T : ℝ, (e.fluid.p.tMin : ℝ) ≤ T → T ≤ (e.fluid.p.tMax : ℝ) →
      0 < cp (toReal e.fluid) T ∧ 0 < rho (toReal e.fluid) T ∧
      0 < mu (toReal e.fluid) T ∧ 0 < k (toReal e.fluid) T := by
  intro e he T h1 h2
  have := List.all_eq_true.1 shipped_certificate e he
  exact fluidPos_sound 12 e.fluid this T h1 h2

/-- the scalars of every shipped fluid satisfy the hypotheses used above: positive floor,
non-empty window, cut-off above 1000 (hence ≥ 55 ≥ 21), positive laminar value -/
theorem shipped_params_ok :
    ∀ e ∈ Gen.FluidData.shipped, 0 < e.fluid.p.filmMin ∧ e.fluid.p.tMin ≤ e.fluid.p.tMax ∧
      1000 < e.fluid.p.lamCut ∧ 0 < e.fluid.p.lamVal := by
  have h : Gen.FluidData.shipped.all (fun e => decide (0 < e.fluid.p.filmMin) &&
      decide (e.fluid.p.tMin ≤ e.fluid.p.tMax) && decide (1000 < e.fluid.p.lamCut) &&
      decide (0 < e.fluid.p.lamVal)) = true := by decide +kernel
  intro e he
  have := List.all_eq_true.1 h e he
  simpa [Bool.and_eq_true, and_assoc] using this

/-- **turbulent_monotone.** The Gnielinski Nusselt number is non-decreasing in the Reynolds number
on `Re ≥ 1000` (hence on `Re ≥ cutoff` for every cut-off ≥ 1000) for `Pr ≥ 0.7`. -/
theorem turbulent_monotone (re₁ re₂ pr : ℝ) (h1 : 1000 ≤ re₁) (h12 : re₁ ≤ re₂)
    (hpr : 7 / 10 ≤ pr) : gnielinski re₁ pr ≤ gnielinski re₂ pr :=
  gnielinski_mono h1 h12 hpr

/-- **film_monotone_u.** In the turbulent regime the film coefficient does not decrease when the
velocity increases (positive density and viscosity at the clipped temperature, non-negative
conductivity at the raw temperature, `Pr ≥ 0.7`, cut-off ≥ 1000). -/
theorem film_monotone_u (f : Fluid ℝ) (T u₁ u₂ r : ℝ) (hr : 0 < r) (hu : u₁ ≤ u₂)
    (hρ : 0 < rho f (tEff f.p T)) (hμ : 0 < mu f (tEff f.p T)) (hkT : 0 ≤ k f T)
    (hpr : 7 / 10 ≤ prandtl f (tEff f.p T)) (hcut : 1000 ≤ f.p.lamCut)
    (hturb : f.p.lamCut ≤ reynolds f (tEff f.p T) u₁ r) :
    film f T u₁ r ≤ film f T u₂ r := by
  have hre := reynolds_mono f (tEff f.p T) u₁ u₂ r hu hr hρ hμ
  have hnu : nusselt f T u₁ r ≤ nusselt f T u₂ r := by
    rw [nusselt_eq, nusselt_eq, nusseltOf_turb _ _ _ hturb, nusseltOf_turb _ _ _ (le_trans hturb hre)]
    exact gnielinski_mono (le_trans hcut hturb) hre hpr
  unfold film
  apply max_le_max _ le_rfl
  have h2 : (2.0 : ℝ) = 2 := by norm_num
  rw [h2]
  apply div_le_div_of_nonneg_right _ (by positivity)
  exact mul_le_mul_of_nonneg_right hnu hkT

/-! ### non-vacuity -/

/-- a constant-property fluid with the default scalars -/
noncomputable def fEx : Fluid ℝ := ⟨[1], [1], [1], [1], ⟨1 / 100000000, 2000, 0, 2000, 401 / 100⟩⟩

/-- laminar hypothesis satisfiable: `Re = 2 < 2000`, and the value is the laminar one -/
example : reynolds fEx (tEff fEx.p 500) 1 1 < fEx.p.lamCut := by
  norm_num [reynolds, rho, mu, polyval, tEff, fEx]
example : nusselt fEx 500 1 1 = 401 / 100 :=
  nusselt_laminar fEx 500 1 1 (by norm_num [reynolds, rho, mu, polyval, tEff, fEx])

/-- turbulent hypothesis satisfiable: `u = 5000`, `r = 1` gives `Re = 10000 ≥ 2000` -/
example : fEx.p.lamCut ≤ polyval fEx.rho (tEff fEx.p 500) * 5000 * 2 * 1 / polyval fEx.mu (tEff fEx.p 500) := by
  norm_num [polyval, tEff, fEx]

/-- the hypotheses of `film_finite`/`film_monotone_u` hold for `fEx` (`Pr = 1 ≥ 0.7`) -/
example : 0 < rho fEx (tEff fEx.p 500) ∧ 0 < mu fEx (tEff fEx.p 500) ∧ 0 < k fEx (tEff fEx.p 500) ∧
    0 < cp fEx (tEff fEx.p 500) ∧ (7 / 10 : ℝ) ≤ prandtl fEx (tEff fEx.p 500) ∧
    fEx.p.lamCut ≤ reynolds fEx (tEff fEx.p 500) 5000 1 := by
  norm_num [reynolds, prandtl, rho, mu, k, cp, polyval, tEff, fEx]

/-- `film_monotone_u` and `nusselt_pos` applied: all their hypotheses hold together for `fEx` -/
example : film fEx 500 5000 1 ≤ film fEx 500 6000 1 :=
  film_monotone_u fEx 500 5000 6000 1 (by norm_num) (by norm_num)
    (by norm_num [rho, polyval, tEff, fEx]) (by norm_num [mu, polyval, fEx])
    (by norm_num [k, polyval, fEx]) (by norm_num [prandtl, cp, mu, k, polyval, fEx])
    (by norm_num [fEx]) (by norm_num [reynolds, rho, mu, polyval, tEff, fEx])
example : 0 < nusselt fEx 500 5000 1 :=
  nusselt_pos fEx 500 5000 1 (by norm_num [fEx]) (by norm_num [fEx])
    (by norm_num [prandtl, cp, mu, k, polyval, fEx])

/-- clipping really clips: 2500 K is evaluated at 2000 K, −5 K at 0 K -/
example : tEff fEx.p 2500 = 2000 ∧ tEff fEx.p (-5) = 0 ∧ tEff fEx.p 700 = 700 := by
  norm_num [tEff, fEx]

/-- the data list is not empty and every window is non-degenerate -/
example : 0 < Gen.FluidData.shipped.length := by decide
example : Gen.FluidData.shipped.all (fun e => decide (e.fluid.p.tMin < e.fluid.p.tMax)) = true := by
  decide +kernel

/-- the certificate is not trivially true: it rejects a polynomial with a root in the window
(`T - 1000` on `[0, 2000]`) and one that is negative (`-1`) -/
example : posOn 12 [1, -1000] 0 2000 = false := by decide +kernel
example : posOn 12 [-1] 0 2000 = false := by decide +kernel

end SrProps.C18
