import SrProofs.Stiffness
import SrProofs.Substep

/-!
# C11 — the reported axial stiffness is the derivative of the reported axial force

Model: `SrModel.Stiffness` — (a) the point-wise tensor algebra of
`PythonSolver.calculate_axial_from_stress` as written (the einsum subscripts are data of the
model, `codedSpec`; the harness checks that the source still carries exactly these subscripts),
(b) the dense form of the condensation in `calculate_axial_from_fea` and of the
generalised-plane-strain condensation.

What is proved is the **algebra the code relies on**: given the linearised equilibrium of the
free dofs `K_ff·u + e·g = r` (with `K_ff = ∂R/∂u`, `g = ∂R/∂e`) and the linearised force
`F = c·u + d·e + F₀`, the reported number is `dF/de` (resp. `dF/d(d_top)`).  That the assembled
`J`, `fake_force`, `tangent` *are* those derivatives (NEML's algorithmic tangent is the derivative
of its stress update; scikit-fem assembly is linear in the stress) is the trusted contract; the
harness checks the end result by central differences on real solves.
-/
namespace SrProps.C11
open SrModel.Stiffness Matrix Finset

/-! ### (a) the integrand -/

/-- the subscripts now in the source mean "sum over both tensor indices" -/
theorem coded_spec_is_full : parseSpec codedSpec = some .full := by decide

/-- the subscripts at the pinned commit meant "trace" (numpy implicit mode, repeated label) -/
theorem pinned_spec_is_trace : parseSpec pinnedSpec = some .trace := by decide

/-- **integrand_is_contraction.** For every tangent and every strain the coded `integrand1`
is the full double contraction `Σ_ij C_zzij ε_ij` — the `c·δu` term of the Schur formula. -/
theorem integrand_is_contraction {F : Type} [Field F] (C : Ten4 F) (ε : Ten F) :
    integrand1Spec codedSpec C ε = some (∑ i, ∑ j, C 2 2 i j * ε i j) := by
  simp only [integrand1Spec, coded_spec_is_full, Option.map_some, integrand1With, reduce2, sum3_eq]

/-- **pinned_trace_differs.** With the pinned subscripts the shear coupling is dropped: a 0/1
tangent with `C_zzxy = C_zzyx = 1` and the symmetric strain `ε_xy = ε_yx = 1` give `0` for the
trace form and `2` for the contraction. -/
theorem pinned_trace_differs :
    let C : Ten4 Int := fun i j k l => if i = 2 ∧ j = 2 ∧ k ≠ l ∧ k ≠ 2 ∧ l ≠ 2 then 1 else 0
    let ε : Ten Int := fun i j => if i ≠ j ∧ i ≠ 2 ∧ j ≠ 2 then 1 else 0
    integrand1Spec pinnedSpec C ε = some 0 ∧ integrand1Spec codedSpec C ε = some 2 := by
  decide

/-! ### (b) the Schur-complement derivative -/

section schur
variable {n : Type} [Fintype n] [DecidableEq n] {F : Type} [Field F]

/-- **schur_derivative.** `K_ff` invertible, `u(e)` defined by the linear(ised) equilibrium
`K_ff·u(e) + e·g = r`, force `F(e) = c·u(e) + d·e + F₀`.  Then `F` is affine in `e` with slope
`d − c·K_ff⁻¹·g`: every difference quotient — hence the derivative — equals it. -/
theorem schur_derivative (Kff : Matrix n n F) (hK : IsUnit Kff.det) (g r c : n → F) (d F0 : F)
    (u : F → n → F) (hu : ∀ e, Kff *ᵥ u e + e • g = r) (e₁ e₂ : F) :
    (c ⬝ᵥ u e₂ + d * e₂ + F0) - (c ⬝ᵥ u e₁ + d * e₁ + F0)
      = (d - c ⬝ᵥ (Kff⁻¹ *ᵥ g)) * (e₂ - e₁) := by
  have h := response_diff Kff hK g r u hu e₁ e₂
  have h2 : c ⬝ᵥ u e₂ - c ⬝ᵥ u e₁ = -((e₂ - e₁) * (c ⬝ᵥ (Kff⁻¹ *ᵥ g))) := by
    rw [← dotProduct_sub, h, dotProduct_neg, dotProduct_smul, smul_eq_mul]
  linear_combination h2

/-- the same as a derivative over `ℝ`: `dF/de = d − c·K_ff⁻¹·g` at every `e` -/
theorem schur_hasDerivAt {n : Type} [Fintype n] [DecidableEq n] (Kff : Matrix n n ℝ)
    (hK : IsUnit Kff.det) (g r c : n → ℝ) (d F0 : ℝ) (u : ℝ → n → ℝ)
    (hu : ∀ e, Kff *ᵥ u e + e • g = r) (e : ℝ) :
    HasDerivAt (fun e => c ⬝ᵥ u e + d * e + F0) (d - c ⬝ᵥ (Kff⁻¹ *ᵥ g)) e := by
  have hf : (fun e => c ⬝ᵥ u e + d * e + F0)
      = fun e => (d - c ⬝ᵥ (Kff⁻¹ *ᵥ g)) * e + (c ⬝ᵥ u 0 + F0) := by
    funext e
    have := schur_derivative Kff hK g r c d F0 u hu 0 e
    linear_combination this
  rw [hf]
  simpa using ((hasDerivAt_id e).const_mul (d - c ⬝ᵥ (Kff⁻¹ *ᵥ g))).add_const (c ⬝ᵥ u 0 + F0)

/-- existence side: `u(e) = K_ff⁻¹(r − e·g)` does satisfy the equilibrium -/
theorem schur_response_exists (Kff : Matrix n n F) (hK : IsUnit Kff.det) (g r : n → F) (e : F) :
    Kff *ᵥ (Kff⁻¹ *ᵥ (r - e • g)) + e • g = r := by
  rw [Matrix.mulVec_mulVec, Matrix.mul_nonsing_inv _ hK, Matrix.one_mulVec]; abel

end schur

section threeD
variable {k m : Type} [Fintype k] [DecidableEq k] [Fintype m] [DecidableEq m] {F : Type} [Field F]

omit [DecidableEq m] in
/-- **schur_3d.** 3-D tube: free dofs `k`, essential dofs `m` with prescribed values
`v₀ + e·w` (`w = dotme`, the indicator of the top-face axial dofs; `e` the top displacement).
Free-dof equilibrium `J11·u + J12·(v₀ + e·w) = r`; reported force = sum of the reactions on the
top dofs `w·(J21·u + J22·(v₀ + e·w)) − F_ext`.  Its slope in `e` is
`w·(J22 − J21·J11⁻¹·J12)·w` — the expression in `calculate_axial_from_fea`. -/
theorem schur_3d (J11 : Matrix k k F) (J12 : Matrix k m F) (J21 : Matrix m k F) (J22 : Matrix m m F)
    (hK : IsUnit J11.det) (w v0 : m → F) (r : k → F) (Fext : F)
    (u : F → k → F) (hu : ∀ e, J11 *ᵥ u e + J12 *ᵥ (v0 + e • w) = r) (e₁ e₂ : F) :
    (w ⬝ᵥ (J21 *ᵥ u e₂ + J22 *ᵥ (v0 + e₂ • w)) - Fext)
      - (w ⬝ᵥ (J21 *ᵥ u e₁ + J22 *ᵥ (v0 + e₁ • w)) - Fext)
      = (w ⬝ᵥ ((J22 - J21 * J11⁻¹ * J12) *ᵥ w)) * (e₂ - e₁) := by
  have hu' : ∀ e, J11 *ᵥ u e + e • (J12 *ᵥ w) = r - J12 *ᵥ v0 := by
    intro e
    have := hu e
    rw [Matrix.mulVec_add, Matrix.mulVec_smul] at this
    rw [← this]; abel
  have h := schur_derivative J11 hK (J12 *ᵥ w) (r - J12 *ᵥ v0) (w ᵥ* J21) (w ⬝ᵥ (J22 *ᵥ w))
    (w ⬝ᵥ (J22 *ᵥ v0) - Fext) u hu' e₁ e₂
  have expand : ∀ e, w ⬝ᵥ (J21 *ᵥ u e + J22 *ᵥ (v0 + e • w)) - Fext
      = (w ᵥ* J21) ⬝ᵥ u e + (w ⬝ᵥ (J22 *ᵥ w)) * e + (w ⬝ᵥ (J22 *ᵥ v0) - Fext) := by
    intro e
    rw [dotProduct_add, Matrix.mulVec_add, Matrix.mulVec_smul, dotProduct_add, dotProduct_smul,
      smul_eq_mul, Matrix.dotProduct_mulVec]
    ring
  rw [expand e₂, expand e₁, h]
  congr 1
  rw [Matrix.sub_mulVec, dotProduct_sub, ← Matrix.mulVec_mulVec, ← Matrix.mulVec_mulVec,
    Matrix.dotProduct_mulVec w J21]

/-- the dense model `schurK` (what the `Float` driver evaluates against the real
`calculate_axial_from_fea`) is that expression -/
theorem schurK_eq {nk ne : Nat} (J11 : Matrix (Fin nk) (Fin nk) F) (J12 : Matrix (Fin nk) (Fin ne) F)
    (J21 : Matrix (Fin ne) (Fin nk) F) (J22 : Matrix (Fin ne) (Fin ne) F) (w : Fin ne → F) :
    schurK (List.finRange nk) (List.finRange ne) (J11⁻¹ : Matrix _ _ F) J12 J21 J22 w
      = w ⬝ᵥ ((J22 - J21 * J11⁻¹ * J12) *ᵥ w) := by
  unfold schurK
  rw [dotL_finRange]
  congr 1
  funext i
  rw [matVec_finRange, matVec_finRange, matVec_finRange, matVec_finRange]
  rw [Matrix.sub_mulVec, ← Matrix.mulVec_mulVec, ← Matrix.mulVec_mulVec]
  rfl

end threeD

section gps
variable {n P : Type} [Fintype n] [DecidableEq n] [Fintype P] {F : Type} [Field F]

/-- the linearised axial force of the generalised-plane-strain problem, as a functional of the
in-plane displacements `u` and the axial strain `e`:
`F = Σ_p dx_p·(C_zz(p) : B_p u + C_zzzz(p)·e)` (`B_p` the strain operator at point `p`) -/
def gpsForce (B : P → Fin 3 → Fin 3 → n → F) (C : P → Ten4 F) (dx : P → F) (u : n → F) (e : F) : F :=
  ∑ p, dx p * ((∑ i, ∑ j, C p 2 2 i j * (B p i j ⬝ᵥ u)) + C p 2 2 2 2 * e)

/-- the expression in `calculate_axial_from_stress`:
`Σ_p (−C_zz(p) : ε_p(δu) + C_zzzz(p))·dx_p / h` with `δu = K_ff⁻¹·f` -/
noncomputable def gpsCoded (Kff : Matrix n n F) (f : n → F) (B : P → Fin 3 → Fin 3 → n → F) (C : P → Ten4 F)
    (dx : P → F) (h : F) : F :=
  (∑ p, (-(∑ i, ∑ j, C p 2 2 i j * (B p i j ⬝ᵥ (Kff⁻¹ *ᵥ f))) + C p 2 2 2 2) * dx p) / h

/-- **gps_derivative.** Generalised plane strain (1-D, 2-D): axial strain `e = d_top / h`,
equilibrium of the in-plane dofs `K_ff·u(e) + e·f = r` where `f = ∂R/∂ε_zz` is the internal
force of the "stress" `C_{··zz}` (`fake_force`).  Then the reported stiffness `gpsCoded` is the
slope of the reported force with respect to the **top displacement** `d_top = e·h`. -/
theorem gps_derivative (Kff : Matrix n n F) (hK : IsUnit Kff.det) (f r : n → F)
    (B : P → Fin 3 → Fin 3 → n → F) (C : P → Ten4 F) (dx : P → F) (h : F) (hh : h ≠ 0)
    (u : F → n → F) (hu : ∀ e, Kff *ᵥ u e + e • f = r) (e₁ e₂ : F) :
    gpsForce B C dx (u e₂) e₂ - gpsForce B C dx (u e₁) e₁
      = gpsCoded Kff f B C dx h * (e₂ * h - e₁ * h) := by
  have hd := response_diff Kff hK f r u hu e₁ e₂
  have lin : ∀ p i j, B p i j ⬝ᵥ u e₂ - B p i j ⬝ᵥ u e₁
      = -((e₂ - e₁) * (B p i j ⬝ᵥ (Kff⁻¹ *ᵥ f))) := by
    intro p i j
    rw [← dotProduct_sub, hd, dotProduct_neg, dotProduct_smul, smul_eq_mul]
  have key : gpsCoded Kff f B C dx h * (e₂ * h - e₁ * h)
      = ∑ p, ((-(∑ i, ∑ j, C p 2 2 i j * (B p i j ⬝ᵥ (Kff⁻¹ *ᵥ f))) + C p 2 2 2 2) * dx p) * (e₂ - e₁) := by
    unfold gpsCoded
    rw [← Finset.sum_mul]
    field_simp
  rw [key]
  unfold gpsForce
  rw [← Finset.sum_sub_distrib]
  apply Finset.sum_congr rfl
  intro p _
  have inner : (∑ i, ∑ j, C p 2 2 i j * (B p i j ⬝ᵥ u e₂)) - (∑ i, ∑ j, C p 2 2 i j * (B p i j ⬝ᵥ u e₁))
      = -((e₂ - e₁) * ∑ i, ∑ j, C p 2 2 i j * (B p i j ⬝ᵥ (Kff⁻¹ *ᵥ f))) := by
    rw [← Finset.sum_sub_distrib, Finset.mul_sum, ← Finset.sum_neg_distrib]
    apply Finset.sum_congr rfl; intro i _
    rw [← Finset.sum_sub_distrib, Finset.mul_sum, ← Finset.sum_neg_distrib]
    apply Finset.sum_congr rfl; intro j _
    rw [← mul_sub, lin p i j]; ring
  linear_combination (dx p) * inner

/-- the dense model `gpsStiffness` (with `integrand1`, i.e. the coded subscripts) is `gpsCoded` -/
theorem gpsStiffness_eq {nk np : Nat} (Kff : Matrix (Fin nk) (Fin nk) F) (f : Fin nk → F)
    (B : Fin np → Fin 3 → Fin 3 → Fin nk → F) (C : Fin np → Ten4 F) (dx : Fin np → F) (h : F) :
    gpsStiffness (List.finRange nk) (List.finRange np) (Kff⁻¹ : Matrix _ _ F) f B C dx h = gpsCoded Kff f B C dx h := by
  unfold gpsStiffness gpsCoded stiffnessSum
  simp only [sumL_finRange, integrand1With, reduce2, sum3_eq, integrand2, dotL_finRange, matVec_finRange]

end gps

/-! ### positivity -/

section pos
variable {k m : Type} [Fintype k] [DecidableEq k] [Fintype m] [DecidableEq m]

omit [DecidableEq m] in
/-- **stiffness_pos.** If the full Jacobian, partitioned into free and essential dofs, is
symmetric positive definite, then the reported 3-D stiffness `w·(J22 − J12ᵀ·J11⁻¹·J12)·w` is
positive for every non-zero `w` (here: the indicator of the top-face dofs).

For an elastic material this hypothesis follows from a positive definite elasticity tensor; for
the creep/plastic variants it is the hypothesis "NEML's algorithmic tangent is symmetric
positive definite" (trusted contract, not proved here). -/
theorem stiffness_pos (J11 : Matrix k k ℝ) (J12 : Matrix k m ℝ) (J22 : Matrix m m ℝ)
    (hJ : (Matrix.fromBlocks J11 J12 J12ᵀ J22).PosDef) (w : m → ℝ) (hw : w ≠ 0) :
    0 < w ⬝ᵥ ((J22 - J12ᵀ * J11⁻¹ * J12) *ᵥ w) := by
  have hA : J11.PosDef := by
    have := hJ.submatrix (e := (Sum.inl : k → k ⊕ m)) Sum.inl_injective
    have e : (Matrix.fromBlocks J11 J12 J12ᵀ J22).submatrix Sum.inl Sum.inl = J11 := by
      ext i j; simp
    rwa [e] at this
  let _ : Invertible J11 := hA.isUnit.invertible
  set x : k → ℝ := -((J11⁻¹ * J12) *ᵥ w) with hx
  have hne : Sum.elim x w ≠ 0 := by
    intro h0
    apply hw
    funext i
    have := congrFun h0 (Sum.inr i)
    simpa using this
  have hpos := hJ.dotProduct_mulVec_pos hne
  have hs := Matrix.schur_complement_eq₁₁ J12 J22 x w hA.isHermitian
  have hz : x + (J11⁻¹ * J12) *ᵥ w = 0 := by rw [hx]; simp
  rw [hz] at hs
  simp only [star_trivial, Matrix.conjTranspose_eq_transpose_of_trivial, Matrix.zero_vecMul,
    zero_dotProduct, zero_add] at hs hpos
  rw [Matrix.dotProduct_mulVec, hs, ← Matrix.dotProduct_mulVec] at hpos
  exact hpos

/-- **stiffness_pos_gps.** Generalised plane strain: if the bordered matrix
`[[K_ff, f], [fᵀ, d]]` (`d = Σ C_zzzz·dx`, `f = fake_force`; symmetric when the tangent has
major symmetry) is positive definite, then `d − f·K_ff⁻¹·f > 0`, and so is the reported
stiffness `(d − f·K_ff⁻¹·f)/h` for `h > 0`. -/
theorem stiffness_pos_gps (Kff : Matrix k k ℝ) (f : k → ℝ) (d h : ℝ) (hh : 0 < h)
    (hJ : (Matrix.fromBlocks Kff (Matrix.replicateCol Unit f) (Matrix.replicateCol Unit f)ᵀ
            (Matrix.of fun _ _ : Unit => d)).PosDef) :
    0 < (d - f ⬝ᵥ (Kff⁻¹ *ᵥ f)) / h := by
  have h1 := stiffness_pos Kff (Matrix.replicateCol Unit f) (Matrix.of fun _ _ : Unit => d) hJ
    (fun _ => (1 : ℝ)) (by intro h0; have := congrFun h0 (); simp at this)
  apply div_pos _ hh
  have e : (fun _ : Unit => (1 : ℝ)) ⬝ᵥ
      ((Matrix.of (fun _ _ : Unit => d) - (Matrix.replicateCol Unit f)ᵀ * Kff⁻¹ * Matrix.replicateCol Unit f)
        *ᵥ fun _ => (1 : ℝ)) = d - f ⬝ᵥ (Kff⁻¹ *ᵥ f) := by
    rw [← col_mul_col Kff⁻¹ f]
    simp [dotProduct, Matrix.mulVec]
  rw [e] at h1
  exact h1

end pos

/-! ### (d) the imposed displacement through the sub-increments of a step (finding F30)

`SrModel.Substep`: the loop hands sub-increment `k` the displacement `dtop·f_k` and the state left
by sub-increment `k−1`, and returns the last sub-increment's tangent.  For a Maxwell bar (backward
Euler, `c_k = Δt_k/η`) the returned force is affine in the imposed strain, so its derivative is a
difference quotient, and:

* one increment, or an elastic material under any subdivision: reported = derivative;
* a creeping material and a split step: the derivative is `reported · (1 − ∂v/∂ε)` with
  `0 < ∂v/∂ε < 1` — positive, but strictly smaller than the reported number.

This is the statement of C11 for the *loop*; it fails for split inelastic steps, and the failure
is the open finding F30.  The harness reproduces the failure on the real solver (adaptive and
forced subdivision) and checks the prediction "elastic + forced subdivision is exact" there; the
*sign* of the discrepancy is a fact about the constant-modulus Maxwell bar only (real steps also
change temperature and pressure with `sf`, and under-reporting by 0.4 % has been observed). -/
section substep
open SrModel.Substep
variable {F : Type} [Field F] [LinearOrder F] [IsStrictOrderedRing F]

/-- **substep_derivative.** For any accepted sub-increments `incs` followed by the one that ends the
step (`f = 1`): every difference quotient of the returned stress is
`tan · (1 − sens incs)`, where `tan` is the reported tangent. -/
theorem substep_derivative (E : F) (incs : List (Inc F)) (last : Inc F) (hl : last.f = 1)
    (s0 : St F) (e1 e2 : F) :
    (run E e1 s0 (incs ++ [last])).sig - (run E e2 s0 (incs ++ [last])).sig
      = (run E e1 s0 (incs ++ [last])).tan * (1 - sens E incs) * (e1 - e2) := by
  have hv := run_v_diff E e1 e2 incs s0 s0 0 (by ring)
  rw [← sens_eq_sensFrom] at hv
  simp only [run_append_last, incr, hl]
  linear_combination (-(E * beta E last)) * hv

/-- **substep_single_exact.** A step integrated in one increment reports the derivative. -/
theorem substep_single_exact (E : F) (last : Inc F) (hl : last.f = 1) (s0 : St F) (e1 e2 : F) :
    (run E e1 s0 [last]).sig - (run E e2 s0 [last]).sig = (run E e1 s0 [last]).tan * (e1 - e2) := by
  have h := substep_derivative E [] last hl s0 e1 e2
  simpa [sens] using h

/-- **substep_elastic_exact.** An elastic material (`c = 0` in every earlier sub-increment) reports
the derivative however the step is split. -/
theorem substep_elastic_exact (E : F) (incs : List (Inc F)) (hc : ∀ i ∈ incs, i.c = 0) (last : Inc F)
    (hl : last.f = 1) (s0 : St F) (e1 e2 : F) :
    (run E e1 s0 (incs ++ [last])).sig - (run E e2 s0 (incs ++ [last])).sig
      = (run E e1 s0 (incs ++ [last])).tan * (e1 - e2) := by
  have h := substep_derivative E incs last hl s0 e1 e2
  rw [sens_eq_sensFrom, sensFrom_elastic E incs hc] at h
  simpa using h

/-- **substep_inelastic_overreports** (F30).  If the step was split (`i :: is` accepted before the
last sub-increment), the first part creeps (`c > 0`) and the fractions lie in `(0, b]`, `b < 1`,
then the derivative of the returned stress is positive and **strictly smaller** than the reported
tangent. -/
theorem substep_inelastic_overreports {E : F} (hE : 0 < E) (i : Inc F) (is : List (Inc F)) (b : F) (hb : b < 1)
    (hci : 0 < i.c) (hfi : 0 < i.f) (hc : ∀ j ∈ is, 0 ≤ j.c)
    (hf : ∀ j ∈ i :: is, 0 ≤ j.f ∧ j.f ≤ b) (last : Inc F) (hcl : 0 ≤ last.c) (s0 : St F) (e : F) :
    let tan := (run E e s0 ((i :: is) ++ [last])).tan
    0 < tan * (1 - sens E (i :: is)) ∧ tan * (1 - sens E (i :: is)) < tan := by
  have htan : (run E e s0 ((i :: is) ++ [last])).tan = E * beta E last := by
    rw [run_append_last]; rfl
  have hpos : 0 < E * beta E last := mul_pos hE (beta_pos hE hcl)
  have hs := sens_pos hE i is hci hfi hc (fun j hj => (hf j (List.mem_cons_of_mem _ hj)).1)
  have hle := sens_le hE (i :: is) b (le_trans (hf i List.mem_cons_self).1 (hf i List.mem_cons_self).2)
    (fun j hj => by
      rcases List.mem_cons.1 hj with h | h
      · rw [h]; exact hci.le
      · exact hc j h) hf
  simp only [htan]
  constructor
  · apply mul_pos hpos; linarith [hle.2]
  · nlinarith

end substep

/-! ### non-vacuity -/

/-- `schur_derivative`: a 1×1 system `2·u + e·3 = 4`, `F = 5·u + 7·e`: slope `7 − 5·3/2 = −1/2` -/
example : ((7 : ℚ) - (fun _ : Unit => (5 : ℚ)) ⬝ᵥ ((Matrix.of fun _ _ : Unit => (2 : ℚ))⁻¹ *ᵥ fun _ => (3 : ℚ)))
    = -1 / 2 := by
  have : (Matrix.of fun _ _ : Unit => (2 : ℚ))⁻¹ = Matrix.of fun _ _ : Unit => (1 / 2 : ℚ) := by
    apply Matrix.inv_eq_right_inv
    ext i j; simp [Matrix.mul_apply]
  rw [this]; simp [dotProduct, Matrix.mulVec]; norm_num

/-- `stiffness_pos`: the hypotheses are satisfiable — the 2×2 matrix `[[2,1],[1,2]]` in blocks -/
example : (Matrix.fromBlocks (Matrix.of fun _ _ : Unit => (2 : ℝ)) (Matrix.of fun _ _ : Unit => (1 : ℝ))
    (Matrix.of fun _ _ : Unit => (1 : ℝ))ᵀ (Matrix.of fun _ _ : Unit => (2 : ℝ))).PosDef := by
  rw [Matrix.posDef_iff_dotProduct_mulVec]
  refine ⟨?_, ?_⟩
  · ext i j; rcases i with i | i <;> rcases j with j | j <;> simp [Matrix.fromBlocks]
  · intro x hx
    have hx' : x (Sum.inl ()) ≠ 0 ∨ x (Sum.inr ()) ≠ 0 := by
      by_contra hcon
      push Not at hcon
      apply hx; funext i; rcases i with i | i <;> simp [hcon.1, hcon.2]
    simp [dotProduct, Matrix.mulVec, Matrix.fromBlocks, Fintype.sum_sum_type]
    rcases hx' with h | h <;> nlinarith [sq_nonneg (x (Sum.inl ()) + x (Sum.inr ())), sq_nonneg (x (Sum.inl ())),
      sq_nonneg (x (Sum.inr ())), sq_pos_of_ne_zero h]

/-- the coded and the pinned integrand agree when the tangent has no normal–shear coupling
(isotropic elasticity): this is why F23 was invisible for elastic materials -/
example (lam mu : ℚ) (ε : Ten ℚ) :
    let C : Ten4 ℚ := fun i j k l =>
      lam * (if i = j then 1 else 0) * (if k = l then 1 else 0)
        + mu * ((if i = k then 1 else 0) * (if j = l then 1 else 0) + (if i = l then 1 else 0) * (if j = k then 1 else 0))
    integrand1 C ε = integrand1Pinned C ε := by
  simp [integrand1, integrand1Pinned, integrand1With, reduce2, sum3]

/-- `substep_inelastic_overreports`: `E = 1`, a step split in two halves with `c = 1` each: the
reported tangent is `1/2`, the derivative of the returned stress `3/8` -/
example : (SrModel.Substep.run (1 : ℚ) 1 ⟨0, 0, 0⟩ [⟨1/2, 1⟩, ⟨1, 1⟩]).tan = 1/2
    ∧ SrModel.Substep.sens (1 : ℚ) [⟨1/2, 1⟩] = 1/4
    ∧ (SrModel.Substep.run (1 : ℚ) 1 ⟨0, 0, 0⟩ [⟨1/2, 1⟩, ⟨1, 1⟩]).sig
        - (SrModel.Substep.run (1 : ℚ) 0 ⟨0, 0, 0⟩ [⟨1/2, 1⟩, ⟨1, 1⟩]).sig = 3/8 := by
  refine ⟨?_, ?_, ?_⟩ <;> norm_num [SrModel.Substep.run, SrModel.Substep.incr, SrModel.Substep.beta,
    SrModel.Substep.sens, SrModel.Substep.sensStep]

end SrProps.C11
