import SrProofs.Data
import Gen.Data

/-!
# C20 — shipped material data load and behave monotonically

The theorems are **about `Gen.Data.db`**, the exact-rational image of every XML file under
`srlife/data` that `gen/gen_data.py` regenerates on every run; an edit to a data file changes the term
and the theorems are re-checked.  Each `*_cert` theorem is a reflection obligation
`checker Gen.Data.db.… = true` closed by kernel evaluation (`decide +kernel`); the soundness of the
checkers is proved once, by hand, in `SrProofs/Data.lean`.  Models: `SrModel/PW.lean`
(`pw`, `timeToRupture`, `cyclesToFail`, `insideEnv`, `saveNode/loadNode`, `dispatch`), evaluated over ℝ
with `log10 = Real.logb 10`, `pow10 = (10:ℝ)^·` and the data embedded by the cast `cR : ℚ → ℝ`.

Ranges (spec constants, `/verif/spec/ranges.json`): stress `[sigmaLo, sigmaHi] = [1, 1000]` MPa,
strain range up to `epsHi = 0.05`, temperature `T > 0`.
-/
namespace SrProps.C20
open SrModel.PW Gen.Data

/-! ### reflection obligations on the generated data -/

theorem thermal_cert : db.thermals.all (fun t => thermalOk t.2.2) = true := by decide +kernel
theorem rupture_cert :
    db.metallics.all (fun t => t.2.2.ruptures.all (fun r => ruptureOk r.2)) = true := by decide +kernel
theorem fatigue_cert :
    db.metallics.all (fun t => t.2.2.fatigues.all (fun f => fatigueOk f.2)) = true := by decide +kernel
theorem envelope_cert :
    db.metallics.all (fun t => t.2.2.envelopes.all (fun e => kneeOk e.2)) = true := by decide +kernel
theorem ceramic_cert : db.ceramics.all (fun t => ceramicOk t.2.2) = true := by decide +kernel
theorem tables_cert : (allTables db).all (fun t => tableOk t.2) = true := by decide +kernel
theorem loader_cert : loaderOk db = true := by decide +kernel

/-! ### the property -/

/-- **thermal_positive.** Every shipped thermal model has positive conductivity and diffusivity on
its whole tabulated range: the evaluation is defined (does not raise) and positive — positive at the
knots, hence (`pw_between`) in between. -/
theorem thermal_positive (f v : String) (t : Thermal) (h : (f, v, t) ∈ db.thermals) :
    ThermalPositive t :=
  thermalPositive_of_ok t (List.all_eq_true.mp thermal_cert (f, v, t) h)

/-- **rupture_antitone_stress.** For every metallic material, variant and rupture correlation:
at any temperature `T > 0` the rupture time strictly decreases with stress on `[1, 1000]` MPa. -/
theorem rupture_antitone_stress (f v : String) (m : Metallic) (hm : (f, v, m) ∈ db.metallics)
    (name : String) (r : Rupture) (hr : (name, r) ∈ m.ruptures) (T σ₁ σ₂ : ℝ) (hT : 0 < T)
    (h1 : ((sigmaLo : ℚ) : ℝ) ≤ σ₁) (h12 : σ₁ < σ₂) (h2 : σ₂ ≤ ((sigmaHi : ℚ) : ℝ)) :
    timeToRupture cR r T σ₂ < timeToRupture cR r T σ₁ := by
  have hok := List.all_eq_true.mp (List.all_eq_true.mp rupture_cert (f, v, m) hm) (name, r) hr
  exact rupture_stress_of_ok r hok T σ₁ σ₂ hT (by simpa [sigmaLo] using h1) h12
    (by simpa [sigmaHi] using h2)

/-- **rupture_antitone_temp.** … and at any stress in `[1, 1000]` MPa it strictly decreases with
temperature (for `T > 0`). -/
theorem rupture_antitone_temp (f v : String) (m : Metallic) (hm : (f, v, m) ∈ db.metallics)
    (name : String) (r : Rupture) (hr : (name, r) ∈ m.ruptures) (σ T₁ T₂ : ℝ)
    (h1 : ((sigmaLo : ℚ) : ℝ) ≤ σ) (h2 : σ ≤ ((sigmaHi : ℚ) : ℝ)) (hT1 : 0 < T₁) (hT : T₁ < T₂) :
    timeToRupture cR r T₂ σ < timeToRupture cR r T₁ σ := by
  have hok := List.all_eq_true.mp (List.all_eq_true.mp rupture_cert (f, v, m) hm) (name, r) hr
  exact rupture_temp_of_ok r hok σ T₁ T₂ (by simpa [sigmaLo] using h1) (by simpa [sigmaHi] using h2)
    hT1 hT

/-- **fatigue_antitone.** For every metallic material, variant and fatigue property: at any
temperature the correlation accepts, cycles to failure do not increase with the strain range, for
all strain ranges (including those below the cut-off, where the value is clamped) up to `0.05`. -/
theorem fatigue_antitone (f v : String) (m : Metallic) (hm : (f, v, m) ∈ db.metallics)
    (name : String) (cs : List FatigueCurve) (hc : (name, cs) ∈ m.fatigues) (T ε₁ ε₂ n₁ n₂ : ℝ)
    (h12 : ε₁ ≤ ε₂) (h2 : ε₂ ≤ ((epsHi : ℚ) : ℝ))
    (e1 : cyclesToFail cR cs T ε₁ = some n₁) (e2 : cyclesToFail cR cs T ε₂ = some n₂) : n₂ ≤ n₁ := by
  have hok := List.all_eq_true.mp (List.all_eq_true.mp fatigue_cert (f, v, m) hm) (name, cs) hc
  simp only [fatigueOk, Bool.and_eq_true] at hok
  exact cyclesToFail_antitone_of_ok cs hok.2 T ε₁ ε₂ h12 h2 n₁ n₂ e1 e2

/-- the fatigue correlation is defined (the code does not raise) up to the hottest curve -/
theorem fatigue_defined (cs : List FatigueCurve) (T ε : ℝ) (hT : ∃ c ∈ cs, T ≤ cR c.T) :
    (cyclesToFail cR cs T ε).isSome = true := by
  have := selectCurve_isSome T cs hT
  unfold cyclesToFail
  cases h : selectCurve cR T cs with
  | none => rw [h] at this; simp at this
  | some c => simp

/-- **envelope_points.** Every creep–fatigue interaction envelope has its knee in `(0,1)²` and passes
through `(0,1)`, the knee and `(1,0)`: at those fatigue damages the admissible creep damages are
exactly `dc ≤ 1`, `dc ≤ knee.2`, `dc ≤ 0`. -/
theorem envelope_points (f v : String) (m : Metallic) (hm : (f, v, m) ∈ db.metallics)
    (name : String) (k : ℚ × ℚ) (hk : (name, k) ∈ m.envelopes) : EnvelopePoints k :=
  envelopePoints_of_ok k
    (List.all_eq_true.mp (List.all_eq_true.mp envelope_cert (f, v, m) hm) (name, k) hk)

/-- **ceramic_positive.** Weibull strength, Weibull modulus and `B_v` are positive and `N_v > 2`
on their whole tabulated ranges (where the model evaluates without raising); `c̄, ν > 0`. -/
theorem ceramic_positive (f v : String) (c : Ceramic) (h : (f, v, c) ∈ db.ceramics) :
    CeramicPositive c :=
  ceramicPositive_of_ok c (List.all_eq_true.mp ceramic_cert (f, v, c) h)

/-- **pw_at_knot.** Every tabulated model of the library returns its table value at every table point. -/
theorem pw_at_knot (name : String) (tab : List (ℚ × ℚ)) (h : (name, tab) ∈ allTables db)
    (p : ℚ × ℚ) (hp : p ∈ tab) : pw (castTab cR tab) (p.1 : ℝ) = some (p.2 : ℝ) :=
  table_at_knot_of_ok tab (List.all_eq_true.mp tables_cert (name, tab) h) p hp

/-- the same for *any* table with strictly increasing abscissae over any ordered field -/
theorem pw_at_knot_general {K : Type} [Field K] [LinearOrder K] [IsStrictOrderedRing K]
    (tab : List (K × K)) (hs : SortedX tab) (hl : 2 ≤ tab.length) (p : K × K) (hp : p ∈ tab) :
    pw tab p.1 = some p.2 :=
  pw_at_knot' tab hs hl p hp

/-- **pw_deriv_is_slope.** For every tabulated model and every pair `p, q` of adjacent table points:
for `p.1 ≤ x < q.1` (and up to `x = q.1` on the last segment) the reported derivative is the segment
slope and the value is the chord through `p` and `q` (so the reported derivative *is* the derivative). -/
theorem pw_deriv_is_slope (name : String) (tab : List (ℚ × ℚ)) (h : (name, tab) ∈ allTables db)
    (pre post : List (ℚ × ℚ)) (p q : ℚ × ℚ) (ht : tab = pre ++ p :: q :: post) (x : ℝ)
    (h0 : (p.1 : ℝ) ≤ x) (h1 : x < (q.1 : ℝ) ∨ (post = [] ∧ x ≤ (q.1 : ℝ))) :
    pwDeriv (castTab cR tab) x = some (((q.2 : ℝ) - p.2) / ((q.1 : ℝ) - p.1)) ∧
    pw (castTab cR tab) x = some ((p.2 : ℝ) + ((q.2 : ℝ) - p.2) / ((q.1 : ℝ) - p.1) * (x - p.1)) := by
  subst ht
  exact table_segment_of_ok pre post p q (List.all_eq_true.mp tables_cert (name, _) h) x h0 h1

/-- **pw_between** (used by the positivity theorems): inside a sorted table the interpolant stays
between any bounds of the knot values. -/
theorem pw_between_general {K : Type} [Field K] [LinearOrder K] [IsStrictOrderedRing K]
    (lo hi : K) (tab : List (K × K)) (x : K) (hs : SortedX tab) (hl : 2 ≤ tab.length)
    (hy : ∀ p ∈ tab, lo ≤ p.2 ∧ p.2 ≤ hi) (h0 : firstX tab ≤ x) (h1 : x ≤ lastX tab) :
    ∃ y, pw tab x = some y ∧ lo ≤ y ∧ y ≤ hi :=
  pw_between lo hi tab x hs hl hy h0 h1

/-- **xml_roundtrip.** For every name, attribute list and value `v` whose dicts are non-empty with
distinct keys: `load_node(save_node(name, v))` is `{name: v'}` where `v'` answers every key path
exactly as `v` does (only the enumeration order of the keys differs), and `find_name` returns the
saved node with its `type`. -/
theorem xml_roundtrip (name : String) (attrib : List (String × String)) (v : PV) (hv : v.wf = true) :
    ∃ v', loadNode (saveNode name attrib v) = (name, v') ∧ ∀ path, getPath path v' = getPath path v :=
  ⟨mirror v, load_save name attrib v hv, fun path => getPath_mirror path v hv⟩

theorem xml_find_name (name typ : String) (v : PV) :
    findName (.elem "models" [] none [saveNode name [("type", typ)] v]) name =
      some (saveNode name [("type", typ)] v, typ) :=
  findName_save name typ v

/-- **xml_roundtrip (arrays).** `destring_array(string_array(xs)) = xs` for a non-empty array, with the
`float(str(x)) == x` round trip of the element printer/parser as an explicit hypothesis. -/
theorem array_roundtrip {α : Type} (repr : α → List Char) (parse : List Char → Option α)
    (hrt : ∀ x, parse (repr x) = some x) (hsp : ∀ x, ' ' ∉ repr x) (xs : List α) (hne : xs ≠ []) :
    destringArray parse (stringArray repr xs) = some xs :=
  destring_string repr parse hrt hsp xs hne

/-- **loader_total.** Every (directory, file, variant, type) of the library has a branch in the loader
dispatch and a payload of the shape that branch reads (for metallic damage models: the property
names `damage.py` asks for); nothing was left unread by the translator; every solid material is
present in `thermal/`, `deformation/` and `damage/` (metallic ones with their `"base"` variant); every
material-specific key of a fluid model names a shipped thermal material. -/
theorem loader_total :
    (∀ e ∈ db.entries, ∃ b, dispatch e.dir e.rootType e.typ = some b ∧ payloadOk db e b = true) ∧
    db.unsupported = [] ∧ crossOk db = true ∧ fluidKeysOk db = true := by
  have h := loader_cert
  simp only [loaderOk, Bool.and_eq_true, List.isEmpty_iff] at h
  obtain ⟨⟨⟨h1, h2⟩, h3⟩, h4⟩ := h
  refine ⟨fun e he => ?_, h1, h3, h4⟩
  have := List.all_eq_true.mp h2 e he
  unfold entryOk at this
  cases hd : dispatch e.dir e.rootType e.typ with
  | none => rw [hd] at this; simp at this
  | some b => rw [hd] at this; exact ⟨b, rfl, this⟩

/-! ### non-vacuity -/

/-- the data base is not empty and contains what the theorems quantify over -/
example : db.thermals.length = 7 ∧ db.metallics.length = 6 ∧ db.ceramics.length = 2 ∧
    db.entries.length = 43 ∧ (allTables db).length = 25 := by decide +kernel
example : ((find3 "316H" "base" db.metallics).map
    (fun m => (m.ruptures.length, m.fatigues.length, m.envelopes.length))) = some (2, 1, 1) := by
  decide +kernel
/-- the hypotheses of the rupture theorems are satisfiable -/
example : ((sigmaLo : ℚ) : ℝ) ≤ 10 ∧ (10 : ℝ) < 100 ∧ (100 : ℝ) ≤ ((sigmaHi : ℚ) : ℝ) := by
  simp [sigmaLo, sigmaHi]; norm_num
/-- the certificate rejects a correlation whose rupture time *increases* with stress … -/
example : ruptureOk { C := 17, terms := [(1475, 3), (7289, 2), (-16642, 1), (35684, 0)] } = false := by
  decide +kernel
/-- … one that is not monotone in temperature (`P < 0` somewhere), a non-positive table, an unsorted
table, a knee outside the unit square and an unknown type string -/
example : ruptureOk { C := 17, terms := [(-5000, 1), (10000, 0)] } = false := by decide +kernel
example : thermalOk (.piecewise "x" [(0, 1), (1, 0)] [(0, 1), (1, 1)]) = false := by decide +kernel
example : tableOk [(0, 1), (2, 1), (1, 1)] = false := by decide +kernel
example : kneeOk (1, (3 : ℚ) / 10) = false := by decide +kernel
example : dispatch "thermal" "" "PiecewiseLinearThermalMaterail" = none := by decide +kernel
/-- a fatigue curve that rises with strain range inside the window is rejected -/
example : curveOk { T := 900, terms := [(1, 2), (5, 1), (3, 0)], cutoff := (1 : ℚ) / 1000 } = false := by
  decide +kernel
/-- the XML model on a concrete nested value; a duplicate tag makes the *first* child win -/
example : loadNode (saveNode "m" [] (.dict [("a", .text (some "1")), ("b", .dict [("c", .text (some "2"))])])) =
    ("m", .dict [("b", .dict [("c", .text (some "2"))]), ("a", .text (some "1"))]) := by rfl
example : loadNode (.elem "m" [] none [.elem "a" [] (some "1") [], .elem "a" [] (some "2") []]) =
    ("m", .dict [("a", .text (some "1"))]) := by rfl
example : splitSp (joinSp ["1.5".toList, "2".toList]) = ["1.5".toList, "2".toList] := by decide

end SrProps.C20
