import SrProofs.Spring
import SrProofs.SpringUnique
import SrProofs.SpringMonotone

/-!
# C04 — the receiver spring system is in equilibrium for every connection option

Model: `SrModel.Spring` (`make_network`, `remove_rigid`, `split_disconnect`, `validate_solve`,
`dof_maps`, `fj`/`RJ`).  The topological theorems quantify over **every** receiver option `r`,
**every** list of panels `ps : List (Opt × Nat)` (option and number of tubes of each panel — any
number of panels, any number of tubes, any assignment of disconnect / rigid / stiffness) — no bound.
`layout ps` names the nodes `make_network` creates: for a panel record `pr`, `pr.node` is the panel
node and each `t ∈ pr.tubes` has `t.top`, `t.bot` (the node with the displacement BC) and the tube
index `t.id`.  `rigidRep net n` is the node that stands for `n` after `remove_rigid`.
The assembly theorem is over an arbitrary commutative ring.

Not proved here (stated so that nothing is weakened silently):
* the order in which networkx reports edges/components is not modelled; that the result of
  `reduce_graph` does not depend on it is established by the exact correspondence only;
* the real tubes are nonlinear (1-D FEM) springs.  Uniqueness of the zero of the residual is proved for
  linear springs of positive stiffness (`equilibrium_unique`, `solvable_equilibrium_unique`,
  `receiver_equilibrium_unique`; with `assembly_linear` the residual of `RJ` *is* `K d - f`, so its unique
  zero is the direct-stiffness solution) and for arbitrary spring laws whose force is strictly increasing in
  the handed displacement (`monotone_energy`, `monotone_equilibrium_unique`,
  `receiver_monotone_equilibrium_unique`, on the model's general-law assembly `assembleF`/`fjF`), in particular
  (`positive_tangent_unique`, over `ℝ`) for laws whose reported tangent is the derivative of the force and is
  positive.  What is *not* proved: that a real tube is such a law — that the 1-D FEM tube returns a force that
  is a differentiable function of the handed displacement alone, whose derivative is the reported tangent (C11;
  it is not for split inelastic steps, finding F30) and is positive (C11 `stiffness_pos`, under the hypothesis
  that the material tangent is symmetric positive definite); nor *existence* of the equilibrium for nonlinear
  laws.  For the real tubes the harness compares the displacements with an independent direct-stiffness solve;
* Newton convergence (C17) and IEEE rounding.
-/
namespace SrProps.C04
open SrModel.Spring

/-- **reduce_total.** `reduce_graph` never raises on a network built by `make_network`: no rigid link
lies across a spring, no two BC nodes are merged, no BC is deleted. -/
theorem reduce_total (r : Opt) (ps : List (Opt × Nat)) :
    ∃ comps, reduce (buildNetwork r ps) = .ok comps :=
  ⟨_, (buildNetwork_treeNet r ps).reduce_eq⟩

/-- **tubes_partition.** Every tube edge (hanging on the representative of its top node) lies in
exactly one returned component, the node sets of the returned components are pairwise
disjoint, and no component lists an edge twice.  (Connectedness of each component is part of `components_solvable`.) -/
theorem tubes_partition (r : Opt) (ps : List (Opt × Nat)) (comps : List Net)
    (h : reduce (buildNetwork r ps) = .ok comps) :
    (∀ pr ∈ layout ps, ∀ t ∈ pr.tubes,
      ∃ c ∈ comps, (⟨rigidRep (buildNetwork r ps) t.top, t.bot, .tube t.id⟩ : Edge) ∈ c.edges ∧
        ∀ c' ∈ comps, (⟨rigidRep (buildNetwork r ps) t.top, t.bot, .tube t.id⟩ : Edge) ∈ c'.edges → c' = c) ∧
    comps.Pairwise (fun c d => ∀ n, n ∈ c.nodes → n ∉ d.nodes) ∧
    (∀ c ∈ comps, c.edges.Nodup) := by
  have hT := buildNetwork_treeNet r ps
  rw [hT.reduce_eq] at h
  cases h
  refine ⟨fun pr hpr t ht => ?_, hT.comps_disjoint, fun c hc => ?_⟩
  swap
  · obtain ⟨r', _, _, _, rfl, _⟩ := mem_components.1 hc
    exact hT.comp_edges_nodup r'
  have := hT.tube_in_one (tubeEdge_mem (r := r) hpr ht) rfl
  have hrel : relabel (rlab (buildNetwork r ps)) ⟨t.top, t.bot, .tube t.id⟩ =
      ⟨rigidRep (buildNetwork r ps) t.top, t.bot, .tube t.id⟩ := by
    show (⟨(L r ps).get t.top, (L r ps).get t.bot, _⟩ : Edge) = _
    rw [L_bot hpr ht]; rfl
  rw [hrel] at this
  exact this

/-- **rigid_shares_node.** A rigid panel option merges the top node of each of its tubes with the
panel node; a rigid receiver option merges every panel node with node 0.  Any other option keeps
the node. -/
theorem rigid_shares_node (r : Opt) (ps : List (Opt × Nat)) (pr : PanelRec) (hpr : pr ∈ layout ps) :
    (∀ t ∈ pr.tubes, pr.opt = .rigid →
      rigidRep (buildNetwork r ps) t.top = rigidRep (buildNetwork r ps) pr.node) ∧
    (∀ t ∈ pr.tubes, pr.opt ≠ .rigid → rigidRep (buildNetwork r ps) t.top = t.top) ∧
    (r = .rigid → rigidRep (buildNetwork r ps) pr.node = rigidRep (buildNetwork r ps) 0) ∧
    (r ≠ .rigid → rigidRep (buildNetwork r ps) pr.node = pr.node) ∧
    rigidRep (buildNetwork r ps) 0 = 0 := by
  refine ⟨fun t ht ho => ?_, fun t ht ho => ?_, fun hr => ?_, fun hr => ?_, L_zero⟩
  · show (L r ps).get t.top = (L r ps).get pr.node
    rw [L_top hpr ht, if_pos ho]
  · show (L r ps).get t.top = t.top
    rw [L_top hpr ht, if_neg ho]
  · show (L r ps).get pr.node = (L r ps).get 0
    rw [L_panel hpr, if_pos hr, L_zero]
  · show (L r ps).get pr.node = pr.node
    rw [L_panel hpr, if_neg hr]

/-- rigidly connected tubes hang on one node of one component: the tube edges of a rigid panel all
start at the panel's representative -/
theorem rigid_tubes_one_node (r : Opt) (ps : List (Opt × Nat)) (comps : List Net)
    (h : reduce (buildNetwork r ps) = .ok comps) (pr : PanelRec) (hpr : pr ∈ layout ps)
    (ho : pr.opt = .rigid) (t : TubeRec) (ht : t ∈ pr.tubes) :
    ∃ c ∈ comps, (⟨rigidRep (buildNetwork r ps) pr.node, t.bot, .tube t.id⟩ : Edge) ∈ c.edges := by
  obtain ⟨c, hc, he, _⟩ := (tubes_partition r ps comps h).1 pr hpr t ht
  rw [(rigid_shares_node r ps pr hpr).1 t ht ho] at he
  exact ⟨c, hc, he⟩

/-- **disconnect_alone.** If a panel's option is "disconnect", the component of each of its tubes is
returned and consists of the tube's top and bottom node, that single tube edge, and the bottom BC:
the single-tube problem. -/
theorem disconnect_alone (r : Opt) (ps : List (Opt × Nat)) (comps : List Net)
    (h : reduce (buildNetwork r ps) = .ok comps) (pr : PanelRec) (hpr : pr ∈ layout ps)
    (ho : pr.opt = .disconnect) (t : TubeRec) (ht : t ∈ pr.tubes) :
    ∃ c ∈ comps, (∀ n, n ∈ c.nodes ↔ n = t.top ∨ n = t.bot) ∧
      (∀ e, e ∈ c.edges ↔ e = ⟨t.top, t.bot, .tube t.id⟩) ∧ (∀ n, n ∈ c.bcs ↔ n = t.bot) := by
  rw [(buildNetwork_treeNet r ps).reduce_eq] at h
  cases h
  obtain ⟨h1, h2, h3, h4⟩ := disconnect_component (r := r) hpr ho ht
  exact ⟨_, h1, h2, h3, h4⟩

/-- **components_solvable.** Every returned component passes `validate_solve`: all its edges are
springs, it is connected, and it has a node with a displacement BC. -/
theorem components_solvable (r : Opt) (ps : List (Opt × Nat)) (comps : List Net)
    (h : reduce (buildNetwork r ps) = .ok comps) :
    ∀ c ∈ comps, validateSolve c = .ok () ∧ ∃ b, b ∈ c.bcs := by
  have hT := buildNetwork_treeNet r ps
  rw [hT.reduce_eq] at h
  cases h
  intro c hc
  obtain ⟨r', hr, hl, hcl, rfl, hk⟩ := mem_components.1 hc
  have := hT.comp_valid hr hl hcl hk
  exact ⟨this, validateSolve_ok_bcs this⟩

/-- **orientation.** In every returned component each tube edge is the edge of a tube of the receiver;
it joins a smaller-numbered upper node, which carries no BC, to a larger-numbered lower node, which
is a BC node of that component.  (With `fjDisp_orient` below: the tube is handed
`d_upper - d_lower` whichever way networkx reports the edge.) -/
theorem orientation (r : Opt) (ps : List (Opt × Nat)) (comps : List Net)
    (h : reduce (buildNetwork r ps) = .ok comps) :
    ∀ c ∈ comps, ∀ e ∈ c.edges, e.isTube = true →
      e.i < e.j ∧ e.j ∈ c.bcs ∧ e.i ∉ c.bcs ∧
      ∃ pr ∈ layout ps, ∃ t ∈ pr.tubes, e = ⟨rigidRep (buildNetwork r ps) t.top, t.bot, .tube t.id⟩ := by
  have hT := buildNetwork_treeNet r ps
  rw [hT.reduce_eq] at h
  cases h
  intro c hc e he ht
  obtain ⟨r', _, _, _, rfl, _⟩ := mem_components.1 hc
  have hm := mem_comp_edges.1 he
  have := hT.tube_edge hm.1 ht
  refine ⟨this.1, mem_comp_bcs.2 ⟨this.2.1, by rw [this.2.2.2]; exact hm.2⟩, ?_, tube_edge_origin hm.1 ht⟩
  intro hb
  exact this.2.2.1 (mem_comp_bcs.1 hb).1

/-- a numeric panel connection is kept as an edge of the component of its tube -/
theorem numeric_link_kept (r : Opt) (ps : List (Opt × Nat)) (comps : List Net)
    (h : reduce (buildNetwork r ps) = .ok comps) (pr : PanelRec) (hpr : pr ∈ layout ps) (q : Rat)
    (ho : pr.opt = .stiff q) (t : TubeRec) (ht : t ∈ pr.tubes) :
    ∃ c ∈ comps, (⟨rigidRep (buildNetwork r ps) pr.node, t.top, .conn (.stiff q)⟩ : Edge) ∈ c.edges ∧
      (⟨t.top, t.bot, .tube t.id⟩ : Edge) ∈ c.edges := by
  rw [(buildNetwork_treeNet r ps).reduce_eq] at h
  cases h
  exact stiff_link (r := r) hpr ho ht

/-- the displacement handed to a spring is `d(smaller dof) - d(larger dof)` for either orientation of
the edge; the force and Jacobian contributions do not depend on the orientation either -/
theorem fjDisp_orient {K : Type} [CommRing K] (law : Law K) (d : Nat → K) (ii jj : Nat) :
    fjDisp d ii jj = fjDisp d jj ii ∧ (ii < jj → fjDisp d ii jj = d ii - d jj) ∧
    (∀ r, fjF law d ii jj r = fjF law d jj ii r) ∧ (∀ r c, fjJ law d ii jj r c = fjJ law d jj ii r c) :=
  ⟨fjDisp_symm d ii jj, fjDisp_lt d, fjF_symm law d ii jj, fjJ_symm law d ii jj⟩

/-- **assembly_linear.** For linear springs `(i, j, k)` in dof numbering:
* the assembled internal force is `K d` with `K = Σ k_e (e_i - e_j)(e_i - e_j)ᵀ` (`stiffness`), and the
  assembled Jacobian is `K`, whichever way each edge is oriented;
* row `r` is the force balance of node `r`: the sum over the springs of `k (d_r - d_other)` for the
  springs that end at `r` (so the residual `F_int[free] - forces` of `RJ` vanishes exactly when every
  free node is in balance with its external force);
* a numeric connection between dofs `ii < jj` carries `k * (d_ii - d_jj)`. -/
theorem assembly_linear {K : Type} [CommRing K] (l : List (Nat × Nat × K)) (d : Nat → K) (n : Nat)
    (hn : ∀ e ∈ l, e.1 < n ∧ e.2.1 < n) :
    (∀ r, assembleF (linEdges l) d r = (Finset.range n).sum (fun c => stiffness l r c * d c)) ∧
    (∀ r c, assembleJ (linEdges l) d r c = stiffness l r c) ∧
    (∀ r, assembleF (linEdges l) d r =
      (l.map (fun e => e.2.2 * (delta r e.1 - delta r e.2.1) * (d e.1 - d e.2.1))).sum) ∧
    (∀ r c, stiffness l r c = stiffness (l.map (fun e => (e.2.1, e.1, e.2.2))) r c) ∧
    (∀ (k : K) (ii jj : Nat), ii < jj → (linearLaw k (fjDisp d ii jj)).1 = k * (d ii - d jj)) := by
  refine ⟨fun r => assembleF_eq_K_mul l d r n hn, assembleJ_linear l d, assembleF_linear l d, ?_, ?_⟩
  · intro r c
    unfold stiffness
    rw [List.map_map]
    congr 1
    apply List.map_congr_left
    intro e _
    simp only [Function.comp]
    ring
  · intro k ii jj h
    rw [fjDisp_lt d h]; rfl

/-- **equilibrium_energy.** For linear springs `(i, j, k)` with every dof below `n`, the work of the
assembled internal force of a field `e` on `e` itself is the strain energy (twice):
`eᵀ K e = Σ k (e_i - e_j)²`. -/
theorem equilibrium_energy {K : Type} [CommRing K] (l : List (Nat × Nat × K)) (e : Nat → K) (n : Nat)
    (hn : ∀ s ∈ l, s.1 < n ∧ s.2.1 < n) :
    (Finset.range n).sum (fun r => e r * assembleF (linEdges l) e r) =
      (l.map (fun s => s.2.2 * (e s.1 - e s.2.1) ^ 2)).sum :=
  energy_identity l e n hn

/-- **equilibrium_unique.** Linear springs of positive stiffness over a linearly ordered field, dofs
below `n`, `B` the dofs with a displacement BC.  If every spring end is joined to a BC dof by a chain of
springs (`Reach`), two displacement fields that agree on the BC dofs and have the same assembled
internal force on every free row (both are zeros of the residual `F_int[free] - forces` of `RJ` for the
same external forces) coincide on every spring end: the zero of the residual is unique, so the
displacements *are* the direct-stiffness solution. -/
theorem equilibrium_unique {F : Type} [Field F] [LinearOrder F] [IsStrictOrderedRing F]
    (l : List (Nat × Nat × F)) (hk : ∀ s ∈ l, 0 < s.2.2) (n : Nat)
    (hn : ∀ s ∈ l, s.1 < n ∧ s.2.1 < n) (B : Nat → Prop) (d d' : Nat → F)
    (hB : ∀ r, r < n → B r → d r = d' r)
    (hbal : ∀ r, r < n → ¬ B r → assembleF (linEdges l) d r = assembleF (linEdges l) d' r)
    (hreach : ∀ r, IsEnd l r → Reach l B r) :
    ∀ r, IsEnd l r → d r = d' r := by
  intro r hr
  have hlt : r < n := by
    obtain ⟨s, hs, h | h⟩ := hr
    · exact h ▸ (hn s hs).1
    · exact h ▸ (hn s hs).2
  exact equilibrium_unique_of_reach l hk n hn B d d' hB hbal r hlt (hreach r hr)

/-- **solvable_equilibrium_unique.** Any network that passes `validate_solve` (all edges springs, a BC
node, connected by the quick-find test) and is well formed (no repeated node, the ends of every edge
and every BC node are nodes): with a linear spring of positive stiffness `k e` on every edge, two
displacement fields in the dof numbering of `dof_maps` that take the prescribed values `ubc` at the BC
nodes and balance the external force `f` at every free node coincide on every node. -/
theorem solvable_equilibrium_unique {F : Type} [Field F] [LinearOrder F] [IsStrictOrderedRing F]
    (c : Net) (hv : validateSolve c = .ok ()) (hnd : c.nodes.Nodup)
    (hends : ∀ e ∈ c.edges, e.i ∈ c.nodes ∧ e.j ∈ c.nodes) (hb : ∀ b ∈ c.bcs, b ∈ c.nodes)
    (k : Edge → F) (hk : ∀ e ∈ c.edges, 0 < k e) (ubc f : Nat → F) (d d' : Nat → F)
    (hd : ∀ b ∈ c.bcs, d ((dofMaps c).1 b) = ubc b) (hd' : ∀ b ∈ c.bcs, d' ((dofMaps c).1 b) = ubc b)
    (hf : ∀ m ∈ (dofMaps c).2.1, assembleF (linEdges (netSprings c k)) d ((dofMaps c).1 m) = f m)
    (hf' : ∀ m ∈ (dofMaps c).2.1, assembleF (linEdges (netSprings c k)) d' ((dofMaps c).1 m) = f m) :
    ∀ m ∈ c.nodes, d ((dofMaps c).1 m) = d' ((dofMaps c).1 m) := by
  have hfree : ∀ m ∈ c.nodes, m ∉ c.bcs → m ∈ (dofMaps c).2.1 := by
    intro m hm hnb
    show m ∈ c.nodes.filter (fun n => !c.bcs.contains n)
    rw [List.mem_filter]
    exact ⟨hm, by simpa using hnb⟩
  exact net_equilibrium_unique hv hnd hends hb k hk ubc f d d' hd hd'
    (fun m hm hnb => hf m (hfree m hm hnb)) (fun m hm hnb => hf' m (hfree m hm hnb))

/-- **receiver_equilibrium_unique.** For every receiver option, every list of panels, every component
returned by `reduce_graph` and every assignment of positive stiffnesses to its edges (connection springs
and tubes as linear springs): two displacement fields that satisfy the displacement BCs and balance every
free node with the same external forces coincide on the whole component.  (`(dofMaps c).1` is `dmap`,
`(dofMaps c).2.1` the free nodes; `netSprings c k` lists the edges of `c` as `(dof i, dof j, k e)`.) -/
theorem receiver_equilibrium_unique {F : Type} [Field F] [LinearOrder F] [IsStrictOrderedRing F]
    (r : Opt) (ps : List (Opt × Nat)) (comps : List Net)
    (h : reduce (buildNetwork r ps) = .ok comps) (c : Net) (hc : c ∈ comps)
    (k : Edge → F) (hk : ∀ e ∈ c.edges, 0 < k e) (ubc f : Nat → F) (d d' : Nat → F)
    (hd : ∀ b ∈ c.bcs, d ((dofMaps c).1 b) = ubc b) (hd' : ∀ b ∈ c.bcs, d' ((dofMaps c).1 b) = ubc b)
    (hf : ∀ m ∈ (dofMaps c).2.1, assembleF (linEdges (netSprings c k)) d ((dofMaps c).1 m) = f m)
    (hf' : ∀ m ∈ (dofMaps c).2.1, assembleF (linEdges (netSprings c k)) d' ((dofMaps c).1 m) = f m) :
    ∀ m ∈ c.nodes, d ((dofMaps c).1 m) = d' ((dofMaps c).1 m) := by
  have hT := buildNetwork_treeNet r ps
  rw [hT.reduce_eq] at h
  cases h
  obtain ⟨r', hr, hl, hcl, rfl, hkeep⟩ := mem_components.1 hc
  exact solvable_equilibrium_unique _ (hT.comp_valid hr hl hcl hkeep) (hT.comp_nodes_nodup r')
    (fun e he => hT.comp_ends he) (fun b hb => hT.comp_bcs_nodes hb) k hk ubc f d d' hd hd' hf hf'

/-- **monotone_energy.** General (nonlinear) spring laws, the model's own assembly: `lawEdges l` lists the edges
`(dof i, dof j, law)` as the `DEdge`s that `assembleF` (`Fint` of `RJ`) sums over, `law : δ ↦ (force, tangent)`,
and the law of an edge is handed `δ_e = fjDisp d i j`, i.e. `d(smaller dof) − d(larger dof)` whichever way the
edge is listed (last conjunct; `fjDisp_orient`).  For two fields `d`, `d'`:
`Σ_r (d_r − d'_r)(F_int(d)_r − F_int(d')_r) = Σ_e (F_e(δ_e) − F_e(δ'_e))(δ_e − δ'_e)`; if the force of every edge is
strictly increasing, every summand is `≥ 0` and vanishes iff `δ_e = δ'_e`. -/
theorem monotone_energy {F : Type} [Field F] [LinearOrder F] [IsStrictOrderedRing F]
    (l : List (Nat × Nat × Law F)) (hmono : ∀ s ∈ l, StrictMono (fun δ => (s.2.2 δ).1))
    (d d' : Nat → F) (n : Nat) (hn : ∀ s ∈ l, s.1 < n ∧ s.2.1 < n) :
    (Finset.range n).sum
        (fun r => (d r - d' r) * (assembleF (lawEdges l) d r - assembleF (lawEdges l) d' r)) =
      (l.map (fun s => ((s.2.2 (fjDisp d s.1 s.2.1)).1 - (s.2.2 (fjDisp d' s.1 s.2.1)).1) *
        (fjDisp d s.1 s.2.1 - fjDisp d' s.1 s.2.1))).sum ∧
    (∀ s ∈ l,
      0 ≤ ((s.2.2 (fjDisp d s.1 s.2.1)).1 - (s.2.2 (fjDisp d' s.1 s.2.1)).1) *
        (fjDisp d s.1 s.2.1 - fjDisp d' s.1 s.2.1) ∧
      (((s.2.2 (fjDisp d s.1 s.2.1)).1 - (s.2.2 (fjDisp d' s.1 s.2.1)).1) *
        (fjDisp d s.1 s.2.1 - fjDisp d' s.1 s.2.1) = 0 ↔ fjDisp d s.1 s.2.1 = fjDisp d' s.1 s.2.1)) ∧
    (∀ ii jj, ii < jj → fjDisp d ii jj = d ii - d jj ∧ fjDisp d jj ii = d ii - d jj) :=
  ⟨monotone_energy_identity l d d' n hn,
    fun s hs => ⟨strictMono_mul_nonneg (hmono s hs) _ _, strictMono_mul_eq_zero_iff (hmono s hs) _ _⟩,
    fun ii jj h => ⟨fjDisp_lt d h, by rw [fjDisp_symm]; exact fjDisp_lt d h⟩⟩

/-- the linear springs of `equilibrium_unique` are the laws `linearLaw k`, and `linearLaw k` is strictly
increasing exactly when it is used with `0 < k`: the theorems below contain the linear ones -/
theorem linear_is_monotone {F : Type} [Field F] [LinearOrder F] [IsStrictOrderedRing F]
    (l : List (Nat × Nat × F)) :
    linEdges l = lawEdges (l.map (fun e => (e.1, e.2.1, linearLaw e.2.2))) ∧
    ∀ k : F, 0 < k → StrictMono (fun δ => (linearLaw k δ).1) :=
  ⟨linEdges_eq_lawEdges l, fun _ hk _ _ hab => mul_lt_mul_of_pos_left hab hk⟩

/-- **monotone_equilibrium_unique.** Springs with arbitrary strictly increasing force laws over a linearly
ordered field, dofs below `n`, `B` the dofs with a displacement BC.  If every spring end is joined to a BC dof
by a chain of springs (`Reach`), two displacement fields that agree on the BC dofs and have the same assembled
internal force on every free row (both are zeros of the residual `F_int[free] - forces` of `RJ` for the same
external forces) coincide on every spring end: the zero of the nonlinear residual is unique. -/
theorem monotone_equilibrium_unique {F : Type} [Field F] [LinearOrder F] [IsStrictOrderedRing F]
    (l : List (Nat × Nat × Law F)) (hmono : ∀ s ∈ l, StrictMono (fun δ => (s.2.2 δ).1)) (n : Nat)
    (hn : ∀ s ∈ l, s.1 < n ∧ s.2.1 < n) (B : Nat → Prop) (d d' : Nat → F)
    (hB : ∀ r, r < n → B r → d r = d' r)
    (hbal : ∀ r, r < n → ¬ B r → assembleF (lawEdges l) d r = assembleF (lawEdges l) d' r)
    (hreach : ∀ r, IsEnd l r → Reach l B r) :
    ∀ r, IsEnd l r → d r = d' r := by
  intro r hr
  have hlt : r < n := by
    obtain ⟨s, hs, h | h⟩ := hr
    · exact h ▸ (hn s hs).1
    · exact h ▸ (hn s hs).2
  exact monotone_unique_of_reach l hmono n hn B d d' hB hbal r hlt (hreach r hr)

/-- **solvable_monotone_equilibrium_unique.** `solvable_equilibrium_unique` with an arbitrary strictly
increasing force law `law e` on every edge (`netSprings c law` lists the edges as `(dof i, dof j, law e)`). -/
theorem solvable_monotone_equilibrium_unique {F : Type} [Field F] [LinearOrder F] [IsStrictOrderedRing F]
    (c : Net) (hv : validateSolve c = .ok ()) (hnd : c.nodes.Nodup)
    (hends : ∀ e ∈ c.edges, e.i ∈ c.nodes ∧ e.j ∈ c.nodes) (hb : ∀ b ∈ c.bcs, b ∈ c.nodes)
    (law : Edge → Law F) (hmono : ∀ e ∈ c.edges, StrictMono (fun δ => (law e δ).1))
    (ubc f : Nat → F) (d d' : Nat → F)
    (hd : ∀ b ∈ c.bcs, d ((dofMaps c).1 b) = ubc b) (hd' : ∀ b ∈ c.bcs, d' ((dofMaps c).1 b) = ubc b)
    (hf : ∀ m ∈ (dofMaps c).2.1, assembleF (lawEdges (netSprings c law)) d ((dofMaps c).1 m) = f m)
    (hf' : ∀ m ∈ (dofMaps c).2.1, assembleF (lawEdges (netSprings c law)) d' ((dofMaps c).1 m) = f m) :
    ∀ m ∈ c.nodes, d ((dofMaps c).1 m) = d' ((dofMaps c).1 m) := by
  have hfree : ∀ m ∈ c.nodes, m ∉ c.bcs → m ∈ (dofMaps c).2.1 := by
    intro m hm hnb
    show m ∈ c.nodes.filter (fun n => !c.bcs.contains n)
    rw [List.mem_filter]
    exact ⟨hm, by simpa using hnb⟩
  exact net_monotone_unique hv hnd hends hb law hmono ubc f d d' hd hd'
    (fun m hm hnb => hf m (hfree m hm hnb)) (fun m hm hnb => hf' m (hfree m hm hnb))

/-- **receiver_monotone_equilibrium_unique.** For every receiver option, every list of panels, every component
returned by `reduce_graph` and every assignment of spring laws with strictly increasing force to its edges
(connection springs and the nonlinear tubes): two displacement fields that satisfy the displacement BCs and
balance every free node with the same external forces coincide on the whole component. -/
theorem receiver_monotone_equilibrium_unique {F : Type} [Field F] [LinearOrder F] [IsStrictOrderedRing F]
    (r : Opt) (ps : List (Opt × Nat)) (comps : List Net)
    (h : reduce (buildNetwork r ps) = .ok comps) (c : Net) (hc : c ∈ comps)
    (law : Edge → Law F) (hmono : ∀ e ∈ c.edges, StrictMono (fun δ => (law e δ).1))
    (ubc f : Nat → F) (d d' : Nat → F)
    (hd : ∀ b ∈ c.bcs, d ((dofMaps c).1 b) = ubc b) (hd' : ∀ b ∈ c.bcs, d' ((dofMaps c).1 b) = ubc b)
    (hf : ∀ m ∈ (dofMaps c).2.1, assembleF (lawEdges (netSprings c law)) d ((dofMaps c).1 m) = f m)
    (hf' : ∀ m ∈ (dofMaps c).2.1, assembleF (lawEdges (netSprings c law)) d' ((dofMaps c).1 m) = f m) :
    ∀ m ∈ c.nodes, d ((dofMaps c).1 m) = d' ((dofMaps c).1 m) := by
  have hT := buildNetwork_treeNet r ps
  rw [hT.reduce_eq] at h
  cases h
  obtain ⟨r', hr, hl, hcl, rfl, hkeep⟩ := mem_components.1 hc
  exact solvable_monotone_equilibrium_unique _ (hT.comp_valid hr hl hcl hkeep) (hT.comp_nodes_nodup r')
    (fun e he => hT.comp_ends he) (fun b hb => hT.comp_bcs_nodes hb) law hmono ubc f d d' hd hd' hf hf'

/-- **positive_tangent_unique.** The bridge from C11 to C04, over `ℝ`.  A spring law `δ ↦ (force, tangent)`
whose reported tangent is the derivative of its force (C11: the reported stiffness is the derivative) and is
positive at every displacement (C11 `stiffness_pos`) has a strictly increasing force; hence
`monotone_equilibrium_unique` applies to any list of such springs … -/
theorem positive_tangent_unique
    (l : List (Nat × Nat × Law ℝ))
    (hderiv : ∀ s ∈ l, ∀ δ, HasDerivAt (fun x => (s.2.2 x).1) (s.2.2 δ).2 δ)
    (hpos : ∀ s ∈ l, ∀ δ, 0 < (s.2.2 δ).2) (n : Nat)
    (hn : ∀ s ∈ l, s.1 < n ∧ s.2.1 < n) (B : Nat → Prop) (d d' : Nat → ℝ)
    (hB : ∀ r, r < n → B r → d r = d' r)
    (hbal : ∀ r, r < n → ¬ B r → assembleF (lawEdges l) d r = assembleF (lawEdges l) d' r)
    (hreach : ∀ r, IsEnd l r → Reach l B r) :
    (∀ s ∈ l, StrictMono (fun δ => (s.2.2 δ).1)) ∧ ∀ r, IsEnd l r → d r = d' r :=
  have hmono : ∀ s ∈ l, StrictMono (fun δ => (s.2.2 δ).1) :=
    fun s hs => law_strictMono_of_tangent_pos s.2.2 (hderiv s hs) (hpos s hs)
  ⟨hmono, monotone_equilibrium_unique l hmono n hn B d d' hB hbal hreach⟩

/-- … and `receiver_monotone_equilibrium_unique` to every component of every receiver: if every edge (tube or
connection spring) reports a tangent that is the derivative of its force and is positive, the equilibrium of
the component is unique. -/
theorem receiver_positive_tangent_unique
    (r : Opt) (ps : List (Opt × Nat)) (comps : List Net)
    (h : reduce (buildNetwork r ps) = .ok comps) (c : Net) (hc : c ∈ comps)
    (law : Edge → Law ℝ)
    (hderiv : ∀ e ∈ c.edges, ∀ δ, HasDerivAt (fun x => (law e x).1) (law e δ).2 δ)
    (hpos : ∀ e ∈ c.edges, ∀ δ, 0 < (law e δ).2)
    (ubc f : Nat → ℝ) (d d' : Nat → ℝ)
    (hd : ∀ b ∈ c.bcs, d ((dofMaps c).1 b) = ubc b) (hd' : ∀ b ∈ c.bcs, d' ((dofMaps c).1 b) = ubc b)
    (hf : ∀ m ∈ (dofMaps c).2.1, assembleF (lawEdges (netSprings c law)) d ((dofMaps c).1 m) = f m)
    (hf' : ∀ m ∈ (dofMaps c).2.1, assembleF (lawEdges (netSprings c law)) d' ((dofMaps c).1 m) = f m) :
    ∀ m ∈ c.nodes, d ((dofMaps c).1 m) = d' ((dofMaps c).1 m) :=
  receiver_monotone_equilibrium_unique r ps comps h c hc law
    (fun e he => law_strictMono_of_tangent_pos (law e) (hderiv e he) (hpos e he)) ubc f d d' hd hd' hf hf'

/-! ### non-vacuity -/

/-- receiver spring, one disconnected panel (1 tube), one rigid panel (2 tubes): the disconnected
tube alone, everything else in one component hanging on the panel node 4 -/
example : reduce (buildNetwork (.stiff 100) [(.disconnect, 1), (.rigid, 2)]) = .ok [
    ⟨[0, 1, 4, 6, 8], [⟨0, 1, .conn (.stiff 100)⟩, ⟨0, 4, .conn (.stiff 100)⟩, ⟨4, 6, .tube 1⟩, ⟨4, 8, .tube 2⟩], [6, 8]⟩,
    ⟨[2, 3], [⟨2, 3, .tube 0⟩], [3]⟩] := by decide

/-- all rigid: one node carries every tube -/
example : reduce (buildNetwork .rigid [(.rigid, 1), (.rigid, 2)]) = .ok [
    ⟨[0, 3, 6, 8], [⟨0, 3, .tube 0⟩, ⟨0, 6, .tube 1⟩, ⟨0, 8, .tube 2⟩], [3, 6, 8]⟩] := by decide

/-- F16 input: numeric receiver stiffness and every panel disconnected: the floating group
`{0, 1, 4}` of connection springs is dropped, the three tubes are returned alone, all solvable -/
example : reduce (buildNetwork (.stiff 100) [(.disconnect, 1), (.disconnect, 2)]) = .ok [
    ⟨[2, 3], [⟨2, 3, .tube 0⟩], [3]⟩, ⟨[5, 6], [⟨5, 6, .tube 1⟩], [6]⟩, ⟨[7, 8], [⟨7, 8, .tube 2⟩], [8]⟩] := by decide

example : (layout [(.disconnect, 1), (.rigid, 2)]) =
    [⟨1, .disconnect, [⟨2, 3, 0⟩]⟩, ⟨4, .rigid, [⟨5, 6, 1⟩, ⟨7, 8, 2⟩]⟩] := by decide

example : (List.range 9).map (rigidRep (buildNetwork (.stiff 100) [(.disconnect, 1), (.rigid, 2)])) =
    [0, 1, 2, 3, 4, 4, 6, 4, 8] := by decide

/-- the error branches of `remove_rigid` are reachable on networks not built by `make_network` -/
example : reduce ⟨[0, 1, 2], [⟨0, 1, .conn .rigid⟩, ⟨0, 1, .conn (.stiff 1)⟩, ⟨1, 2, .tube 0⟩], [2]⟩ =
    .error .rigidAcrossSpring := by decide
example : reduce ⟨[0, 1], [⟨0, 1, .conn .rigid⟩], [0, 1]⟩ = .error .twoBCs := by decide
example : reduce ⟨[0, 1], [⟨0, 1, .conn .rigid⟩], [1]⟩ = .error .deletingBC := by decide

/-- assembly of two springs in series over ℤ: `K = [[2,-2,0],[-2,5,-3],[0,-3,3]]` -/
example : (List.range 3).map (fun r => (List.range 3).map (fun c =>
    assembleJ (linEdges [(0, 1, (2 : Int)), (2, 1, 3)]) (fun _ => 0) r c)) =
    [[2, -2, 0], [-2, 5, -3], [0, -3, 3]] := by decide

/-- two springs in series (`k = 2` between dofs 0–1, `k = 3` between dofs 1–2), dof 0 pinned at 0, no
load on dof 1 and a load of 6 on dof 2: the only equilibrium is `d = (0, 3, 5)` -/
example (d' : Nat → ℚ) (h0 : d' 0 = 0)
    (h1 : assembleF (linEdges [(0, 1, (2 : ℚ)), (1, 2, 3)]) d' 1 = 0)
    (h2 : assembleF (linEdges [(0, 1, (2 : ℚ)), (1, 2, 3)]) d' 2 = 6) :
    d' 1 = 3 ∧ d' 2 = 5 := by
  have hm1 : ((0, 1, (2 : ℚ)) : Nat × Nat × ℚ) ∈ [(0, 1, (2 : ℚ)), (1, 2, 3)] := by simp
  have hm2 : ((1, 2, (3 : ℚ)) : Nat × Nat × ℚ) ∈ [(0, 1, (2 : ℚ)), (1, 2, 3)] := by simp
  have hr0 : Reach [(0, 1, (2 : ℚ)), (1, 2, 3)] (fun r => r = 0) 0 := Reach.base rfl
  have hr1 := Reach.step hm1 hr0
  have hr2 := Reach.step hm2 hr1
  have key := equilibrium_unique [(0, 1, (2 : ℚ)), (1, 2, 3)] (by simp) 3 (by simp)
    (fun r => r = 0) (fun i => if i = 0 then 0 else if i = 1 then 3 else 5) d'
    (by intro r _ hr; subst hr; simp [h0])
    (by
      intro r hr hne
      have : r = 1 ∨ r = 2 := by omega
      rcases this with rfl | rfl
      · rw [h1, assembleF_linear]; norm_num [delta]
      · rw [h2, assembleF_linear]; norm_num [delta])
    (by
      rintro r ⟨s, hs, h⟩
      simp only [List.mem_cons, List.not_mem_nil, or_false] at hs
      rcases hs with rfl | rfl <;> rcases h with rfl | rfl <;> assumption)
  have k1 := key 1 ⟨_, hm1, Or.inr rfl⟩
  have k2 := key 2 ⟨_, hm2, Or.inr rfl⟩
  simp at k1 k2
  exact ⟨k1.symm, k2.symm⟩

/-- the springs of the big component of the first example above in dof numbering -/
example : netSprings ⟨[0, 1, 4, 6, 8], [⟨0, 1, .conn (.stiff 100)⟩, ⟨0, 4, .conn (.stiff 100)⟩,
      ⟨4, 6, .tube 1⟩, ⟨4, 8, .tube 2⟩], [6, 8]⟩ (fun _ => (1 : Int)) =
    [(0, 1, 1), (0, 2, 1), (2, 3, 1), (2, 4, 1)] := by decide

/-- two nonlinear springs `F δ = δ + δ³` in series (dofs 0–1 and 1–2), dof 0 pinned at 0, no load on dof 1 and
a load of 2 on dof 2: the only equilibrium is `d = (0, 1, 2)` (each spring is handed `δ = −1`, `F(−1) = −2`) -/
example (d' : Nat → ℚ) (h0 : d' 0 = 0)
    (h1 : assembleF (lawEdges [(0, 1, (cubicLaw : Law ℚ)), (1, 2, cubicLaw)]) d' 1 = 0)
    (h2 : assembleF (lawEdges [(0, 1, (cubicLaw : Law ℚ)), (1, 2, cubicLaw)]) d' 2 = 2) :
    d' 1 = 1 ∧ d' 2 = 2 := by
  have hm1 : ((0, 1, cubicLaw) : Nat × Nat × Law ℚ) ∈ [(0, 1, (cubicLaw : Law ℚ)), (1, 2, cubicLaw)] := by simp
  have hm2 : ((1, 2, cubicLaw) : Nat × Nat × Law ℚ) ∈ [(0, 1, (cubicLaw : Law ℚ)), (1, 2, cubicLaw)] := by simp
  have hr0 : Reach [(0, 1, (cubicLaw : Law ℚ)), (1, 2, cubicLaw)] (fun r => r = 0) 0 := Reach.base rfl
  have hr1 := Reach.step hm1 hr0
  have hr2 := Reach.step hm2 hr1
  have key := monotone_equilibrium_unique [(0, 1, (cubicLaw : Law ℚ)), (1, 2, cubicLaw)]
    (by
      intro s hs
      simp only [List.mem_cons, List.not_mem_nil, or_false] at hs
      rcases hs with rfl | rfl <;> exact cubicLaw_strictMono)
    3 (by simp)
    (fun r => r = 0) (fun i => if i = 0 then 0 else if i = 1 then 1 else 2) d'
    (by intro r _ hr; subst hr; simp [h0])
    (by
      intro r hr hne
      have : r = 1 ∨ r = 2 := by omega
      rcases this with rfl | rfl
      · rw [h1]; norm_num [lawEdges, assembleF, fjF, fjDisp, sgn, cubicLaw]
      · rw [h2]; norm_num [lawEdges, assembleF, fjF, fjDisp, sgn, cubicLaw])
    (by
      rintro r ⟨s, hs, h⟩
      simp only [List.mem_cons, List.not_mem_nil, or_false] at hs
      rcases hs with rfl | rfl <;> rcases h with rfl | rfl <;> assumption)
  have k1 := key 1 ⟨_, hm1, Or.inr rfl⟩
  have k2 := key 2 ⟨_, hm2, Or.inr rfl⟩
  simp at k1 k2
  exact ⟨k1.symm, k2.symm⟩

/-- the hypotheses of `positive_tangent_unique` are satisfiable: over `ℝ` the reported tangent `1 + 3δ²` of
`cubicLaw` is the derivative of its force and is positive -/
example : (∀ δ : ℝ, HasDerivAt (fun x => ((cubicLaw : Law ℝ) x).1) ((cubicLaw : Law ℝ) δ).2 δ) ∧
    ∀ δ : ℝ, 0 < ((cubicLaw : Law ℝ) δ).2 := by
  refine ⟨fun δ => ?_, fun δ => ?_⟩
  · have h := (hasDerivAt_id δ).add (((hasDerivAt_id δ).mul (hasDerivAt_id δ)).mul (hasDerivAt_id δ))
    exact h.congr_deriv (by simp only [Pi.mul_apply, id]; show _ = (1 : ℝ) + 3 * (δ * δ); ring)
  · show (0 : ℝ) < 1 + 3 * (δ * δ)
    nlinarith [mul_self_nonneg δ]

/-- **F16 (pinned commit).** With the final filter of `split_disconnect` as coded at the pinned
commit the floating group of connection springs is returned … -/
theorem pinned_witness :
    splitDisconnectPinned (contractBy (rlab (buildNetwork (.stiff 100) [(.disconnect, 1), (.disconnect, 2)]))
      (buildNetwork (.stiff 100) [(.disconnect, 1), (.disconnect, 2)])) =
    [⟨[0, 1, 4], [⟨0, 1, .conn (.stiff 100)⟩, ⟨0, 4, .conn (.stiff 100)⟩], []⟩,
     ⟨[2, 3], [⟨2, 3, .tube 0⟩], [3]⟩, ⟨[5, 6], [⟨5, 6, .tube 1⟩], [6]⟩, ⟨[7, 8], [⟨7, 8, .tube 2⟩], [8]⟩] := by
  decide

/-- … and it violates `components_solvable`: "Spring network requires at least one fixed BC!" -/
theorem pinned_violates :
    validateSolve ⟨[0, 1, 4], [⟨0, 1, .conn (.stiff 100)⟩, ⟨0, 4, .conn (.stiff 100)⟩], []⟩ =
      .error .noFixedBC := by decide

end SrProps.C04
