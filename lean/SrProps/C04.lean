import SrProofs.Spring
namespace SrProps.C04
theorem placeholder : True := trivial
end SrProps.C04
