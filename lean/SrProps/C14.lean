import SrProofs.Flowpath
import SrProofs.FlowpathUnique

/-!
# C14 — flow-path solution balances heat and mass at every link

Model: `SrModel.Flowpath` (`StartLink`, `SimplePanelLink`, `ManifoldLink`, `FlowPath._setup`,
`FlowPath.RJ` residual assembly, `FlowPath.recover_tube_results`).

All theorems are over an arbitrary ordered field `K`, for **any** number of panels, any number of
explicitly represented tubes per panel, any multipliers (weights), any grid counts, any fluid
functions `cp`, `rho`, `film` (the fluid model is a parameter) and any state vector `T`.
"Residual = 0" is the statement that every entry of every link's residual vector vanishes; what a
*converged* Newton iterate satisfies is this up to the solver tolerance (harness predicate).

`inletDof ps i = Σ_{j<i} (n_j + 1)` is the index in `T` of the node feeding panel `i` (the start
node for `i = 0`, the manifold of panel `i-1` otherwise); the tube outlets of panel `i` are the
next `n_i` entries and its manifold the one after.

The last section specialises to constant `cp > 0` and constant `film ≥ 0`: the tube equation is then
affine in the outlet temperature with positive slope (`tube_outlet_closed_form`), so the root of the
chain residual is explicit (`root_tube_closed_form`) and **unique** (`chain_unique_const_props`).
-/
namespace SrProps.C14
open SrModel.Flowpath
set_option linter.unusedSectionVars false

variable {K : Type} [Field K] [LinearOrder K] [IsStrictOrderedRing K]

/-- **dofmap_partition.** The dof ranges have the sizes of the links, are consecutive ranges starting
at the sum of the previous sizes, and concatenated in chain order they are exactly `0, …, nvals-1`. -/
theorem dofmap_partition (sizes : List Nat) :
    (dofMap sizes).map List.length = sizes ∧
    (dofMap sizes).flatten = List.range (nvals sizes) ∧
    ∀ i (hi : i < sizes.length),
      (dofMap sizes)[i]? = some (List.range' ((sizes.take i).sum) sizes[i]) := by
  refine ⟨dofMapFrom_map_length 0 sizes, ?_, ?_⟩
  · rw [dofMap, dofMapFrom_flatten, nvals_eq_sum, List.range_eq_range']
  · intro i hi
    have h := dofMapFrom_getElem 0 sizes i hi
    rw [dofMap, List.getElem?_eq_getElem (by rw [dofMapFrom_length]; exact hi), h]
    simp

/-- the manifold of panel `i` is the inlet node of panel `i+1` -/
theorem inletDof_succ (ps : List (Panel K)) (i : Nat) (hi : i < ps.length) :
    inletDof ps (i + 1) = inletDof ps i + ps[i].weights.length + 1 := by
  induction ps generalizing i with
  | nil => simp at hi
  | cons p ps ih =>
    cases i with
    | zero => cases ps <;> simp [inletDof]
    | succ i =>
      have := ih i (by simpa using hi)
      simp only [inletDof, List.getElem_cons_succ] at this ⊢
      omega

/-- **root_start.** At a root of the chain residual the first node carries the inlet temperature. -/
theorem root_start (fl : FluidFns K) (pi Tin : K) (ps : List (Panel K)) (T : List K)
    (R : List (List K)) (hR : chainResidual fl pi (mkChain Tin ps) T = some R)
    (hz : ∀ r ∈ R, ∀ x ∈ r, x = 0) : T[0]? = some Tin :=
  (chain_root fl pi Tin ps T R hR hz).1

/-- **root_panel.** At a root of the chain residual, for every panel `i` and every explicitly
represented tube `j` of it (weight `w`, outlet temperature `Tj`, wall temperatures `mj[θ][z]`),
with `Ts` the temperature of the node feeding the panel:

`w·ṁ/N·c_p(T̄)·(Tj − Ts) = r·(h/nz)·(2π/nt)·Σ_θ Σ_z w·h_f·(T_metal[θ][z] − T_fluid(z))`

where `N = Σ weights`, `T̄ = (Tj + Ts)/2`, `h_f = film(T̄, ṁ/(N π ρ(T̄) r²), r)` and
`T_fluid(z) = (Tj − Ts)/h·z + Ts` on `zs = linspace(0, h, nz)` — the form the code's residual encodes. -/
theorem root_panel (fl : FluidFns K) (pi Tin : K) (ps : List (Panel K)) (T : List K)
    (R : List (List K)) (hR : chainResidual fl pi (mkChain Tin ps) T = some R)
    (hz : ∀ r ∈ R, ∀ x ∈ r, x = 0) (i : Nat) (hi : i < ps.length) :
    ∃ Ts Tt, T[inletDof ps i]? = some Ts ∧
      gather T (List.range' (inletDof ps i + 1) ps[i].weights.length) = some Tt ∧
      Tt.length = ps[i].weights.length ∧ ps[i].metal.length = ps[i].weights.length ∧
      ∀ (j : Nat) (w Tj : K) (mj : List (List K)),
        ps[i].weights[j]? = some w → Tt[j]? = some Tj → ps[i].metal[j]? = some mj →
        w * ps[i].mdot / ps[i].weights.sum * fl.cp ((Tj + Ts) / 2) * (Tj - Ts) =
          ps[i].ri * (ps[i].h / (ps[i].nz : K)) * (2 * pi / (ps[i].nt : K)) *
            (mj.map fun row =>
              (List.zipWith (fun tm z =>
                w * fl.film ((Tj + Ts) / 2)
                    (ps[i].mdot / (ps[i].weights.sum * pi * fl.rho ((Tj + Ts) / 2) *
                      (ps[i].ri * ps[i].ri))) ps[i].ri *
                  (tm - ((Tj - Ts) / ps[i].h * z + Ts))) row (zs ps[i].h ps[i].nz)).sum).sum := by
  obtain ⟨Ts, Tt, Tm, h1, h2, _, hl1, hl2, hbal, _⟩ :=
    panelsBalanced_index fl pi T ps 0 (chain_root fl pi Tin ps T R hR hz).2 i hi
  simp only [Nat.zero_add] at h1 h2
  refine ⟨Ts, Tt, h1, h2, hl1, hl2, ?_⟩
  intro j w Tj mj hw hT hm
  obtain ⟨hjw, rfl⟩ := List.getElem?_eq_some_iff.1 hw
  obtain ⟨hjT, rfl⟩ := List.getElem?_eq_some_iff.1 hT
  obtain ⟨hjm, rfl⟩ := List.getElem?_eq_some_iff.1 hm
  rw [← qMassTube_eq, ← qConvTube_eq]
  exact hbal j hjw

/-- **root_manifold.** At a root of the chain residual every manifold temperature is the
multiplier-weighted mean `Σ w·T_out / Σ w` of the tube outlet temperatures of its panel. -/
theorem root_manifold (fl : FluidFns K) (pi Tin : K) (ps : List (Panel K)) (T : List K)
    (R : List (List K)) (hR : chainResidual fl pi (mkChain Tin ps) T = some R)
    (hz : ∀ r ∈ R, ∀ x ∈ r, x = 0) (i : Nat) (hi : i < ps.length) :
    ∃ Tt Tm, gather T (List.range' (inletDof ps i + 1) ps[i].weights.length) = some Tt ∧
      T[inletDof ps i + 1 + ps[i].weights.length]? = some Tm ∧
      Tm = (List.zipWith (fun w T => w * T) ps[i].weights Tt).sum / ps[i].weights.sum := by
  obtain ⟨Ts, Tt, Tm, _, h2, h3, _, _, _, hman⟩ :=
    panelsBalanced_index fl pi T ps 0 (chain_root fl pi Tin ps T R hR hz).2 i hi
  simp only [Nat.zero_add] at h2 h3
  exact ⟨Tt, Tm, h2, h3, hman⟩

/-- **mass_split.** The velocities reported for a panel carry exactly the prescribed mass flow:
`Σ_j w_j ρ(T̄_j) u_j π r² = ṁ` (positive multipliers; `π`, `r`, `ρ(T̄_j)` non-zero), for any state. -/
theorem mass_split (fl : FluidFns K) (pi : K) (p : Panel K) (Ts : K) (Tt : List K)
    (hlen : Tt.length = p.weights.length) (hne : p.weights ≠ []) (hw : ∀ w ∈ p.weights, 0 < w)
    (hpi : pi ≠ 0) (hri : p.ri ≠ 0) (hrho : ∀ Tj ∈ Tt, fl.rho ((Tj + Ts) / 2) ≠ 0) :
    (List.zipWith (fun (wT : K × K) u => wT.1 * fl.rho ((wT.2 + Ts) / 2) * u * pi * (p.ri * p.ri))
      (p.weights.zip Tt) (recoverPanel fl pi p Ts Tt).flow).sum = p.mdot := by
  have hN : ntube p ≠ 0 := by
    rw [ntube, lsum_eq_sum]; exact (sum_pos_of_pos _ hw hne).ne'
  have hrho' : ∀ Tj ∈ Tt, fl.rho (tMean Ts Tj) ≠ 0 := by
    intro Tj h; simpa [tMean, two_lit] using hrho Tj h
  have key := mass_terms fl pi p Ts hN hpi hri p.weights Tt hlen hrho'
  have conv : ∀ (ws Tt : List K),
      List.zipWith (fun (wT : K × K) u => wT.1 * fl.rho ((wT.2 + Ts) / 2) * u * pi * (p.ri * p.ri))
        (ws.zip Tt) (Tt.map (flowRate fl pi p Ts)) =
      List.zipWith (fun w T => w * fl.rho (tMean Ts T) * flowRate fl pi p Ts T * pi * (p.ri * p.ri))
        ws Tt := by
    intro ws
    induction ws with
    | nil => intro Tt; simp
    | cons w ws ih =>
      intro Tt
      cases Tt with
      | nil => simp
      | cons t Tt => simp [ih, tMean, two_lit]
  rw [recoverPanel, conv, key, ntube, lsum_eq_sum]
  have : p.weights.sum ≠ 0 := by rw [ntube, lsum_eq_sum] at hN; exact hN
  field_simp

/-- **profile_linear.** The temperature profile reported for tube `i` of a panel has `nz` entries,
entry `j` is `Ts + (Ti − Ts)·j/(nz−1)` — the value at `z_j = j·h/(nz−1)` of the affine function
`z ↦ (Ti − Ts)/h·z + Ts` — it equals the panel inlet temperature at `z = 0` and the tube outlet
temperature at `z = h` (`h ≠ 0`, at least two axial points). -/
theorem profile_linear (fl : FluidFns K) (pi : K) (p : Panel K) (Ts : K) (Tt : List K)
    (hh : p.h ≠ 0) (hnz : 1 < p.nz) (i : Nat) (Ti : K) (hTi : Tt[i]? = some Ti) :
    ∃ prof, (recoverPanel fl pi p Ts Tt).temps[i]? = some prof ∧ prof.length = p.nz ∧
      (∀ j, j < p.nz → ∃ z, (zs p.h p.nz)[j]? = some z ∧ z = (j : K) * (p.h / ((p.nz - 1 : Nat) : K)) ∧
        prof[j]? = some ((Ti - Ts) / p.h * z + Ts) ∧
        prof[j]? = some (Ts + (Ti - Ts) * ((j : K) / ((p.nz - 1 : Nat) : K)))) ∧
      prof[0]? = some Ts ∧ prof[p.nz - 1]? = some Ti := by
  obtain ⟨hi, rfl⟩ := List.getElem?_eq_some_iff.1 hTi
  have hne : ((p.nz - 1 : Nat) : K) ≠ 0 := by
    have : 0 < p.nz - 1 := by omega
    exact_mod_cast this.ne'
  have hprof : ∀ j (hj : j < p.nz), (fluidProfile p Ts Tt[i])[j]? =
      some ((Tt[i] - Ts) / p.h * ((j : K) * (p.h / ((p.nz - 1 : Nat) : K))) + Ts) := by
    intro j hj
    have hl : j < (fluidProfile p Ts Tt[i]).length := by simp [fluidProfile, zs_length, hj]
    rw [List.getElem?_eq_getElem hl]
    simp only [fluidProfile, List.getElem_map, zs_getElem p.h p.nz hnz j hj, fluidTemp]
  refine ⟨fluidProfile p Ts Tt[i], by simp [recoverPanel, hi], by simp [fluidProfile, zs_length], ?_, ?_, ?_⟩
  · intro j hj
    refine ⟨_, ?_, rfl, hprof j hj, ?_⟩
    · rw [List.getElem?_eq_getElem (by rw [zs_length]; exact hj), zs_getElem p.h p.nz hnz j hj]
    · rw [hprof j hj]; congr 1; field_simp; ring
  · rw [hprof 0 (by omega)]; simp
  · rw [hprof (p.nz - 1) (by omega)]; congr 1; field_simp; ring

/-- the reported profile is affine in the height -/
theorem profile_affine (p : Panel K) (Ts Tt z₁ z₂ a : K) :
    fluidTemp p Ts Tt (a * z₁ + (1 - a) * z₂) =
      a * fluidTemp p Ts Tt z₁ + (1 - a) * fluidTemp p Ts Tt z₂ :=
  fluidTemp_affine p Ts Tt z₁ z₂ a

/-- **recover_indexing.** `recover_tube_results` returns one entry per panel, and entry `i` is
computed from panel `i`: its inlet node `T[inletDof i]` and its own tube outlets. -/
theorem recover_indexing (fl : FluidFns K) (pi Tin : K) (ps : List (Panel K)) (T : List K)
    (L : List (Rec K)) (h : recover fl pi (mkChain Tin ps) T = some L) :
    L.length = ps.length ∧
    ∀ i (hi : i < ps.length), ∃ Ts Tt, T[inletDof ps i]? = some Ts ∧
      gather T (List.range' (inletDof ps i + 1) ps[i].weights.length) = some Tt ∧
      L[i]? = some (recoverPanel fl pi ps[i] Ts Tt) := by
  have := recoverSpec_index fl pi T ps 0 L (recover_spec fl pi Tin ps T L h)
  simpa using this

/-! ### constant fluid properties: the solution is explicit and unique -/

/-- **tube_outlet_closed_form.** For a constant specific heat `cp ≡ cp0 > 0` and a constant film
coefficient `film ≡ hf ≥ 0` (`π ≥ 0`, `ṁ, r, h > 0`, positive multipliers, `nt` rows of `nz` wall
temperatures for the tube) entry `j` of `SimplePanelLink.residual` is **affine** in the tube outlet
temperature `Tj`:

`r_j = a (Tj − Ts) − b (S − n Ts − c (Tj − Ts))`,
`a = w ṁ/N·cp0`, `b = r·(h/nz)·(2π/nt)·w·hf`, `S = Σ_θ Σ_z T_metal`, `n = nt·nz`, `c = nt·Σ_z z/h`,

the slope `a + b c` is positive, and therefore `r_j = 0` **iff** `Tj = Ts + b (S − n Ts)/(a + b c)`:
the tube equation has exactly one solution, given in closed form. -/
theorem tube_outlet_closed_form (fl : FluidFns K) (pi cp0 hf : K) (p : Panel K) (Ts : K) (Tt : List K)
    (hcp : fl.cp = fun _ => cp0) (hfilm : fl.film = fun _ _ _ => hf)
    (hcp0 : 0 < cp0) (hhf : 0 ≤ hf) (hpi : 0 ≤ pi)
    (hmdot : 0 < p.mdot) (hri : 0 < p.ri) (hh : 0 < p.h) (hw : ∀ w ∈ p.weights, 0 < w)
    (j : Nat) (w Tj : K) (mj : List (List K))
    (hwj : p.weights[j]? = some w) (hTj : Tt[j]? = some Tj) (hmj : p.metal[j]? = some mj)
    (hθ : mj.length = p.nt) (hrow : ∀ row ∈ mj, row.length = p.nz) :
    ∃ a b S n c r : K,
      a = w * p.mdot / p.weights.sum * cp0 ∧
      b = p.ri * (p.h / (p.nz : K)) * (2 * pi / (p.nt : K)) * w * hf ∧
      S = (mj.map List.sum).sum ∧ n = (p.nt : K) * (p.nz : K) ∧
      c = (p.nt : K) * ((zs p.h p.nz).sum / p.h) ∧
      (panelResidual fl pi p Ts Tt)[j]? = some r ∧
      r = a * (Tj - Ts) - b * (S - n * Ts - c * (Tj - Ts)) ∧
      0 < a + b * c ∧
      (r = 0 ↔ Tj = Ts + b * (S - n * Ts) / (a + b * c)) := by
  have hp : PanelOK p := ⟨hmdot, hri, hh, hw⟩
  have hmem : w ∈ p.weights := List.mem_of_getElem? hwj
  refine ⟨_, _, _, _, _, _, rfl, rfl, rfl, rfl, rfl,
    panelResidual_getElem? fl pi p Ts Tt j w Tj mj hwj hTj hmj, ?_, ?_, ?_⟩
  · have := tubeResidual_affine fl pi p cp0 hf w Ts Tj mj hcp hfilm hrow
    simpa only [tubeA, tubeB, metalSum, zFrac, hθ] using this
  · have := tubeSlope_pos pi p w cp0 hf mj.length hp hmem hcp0 hpi hhf
    simpa only [tubeA, tubeB, zFrac, hθ] using this
  · have := tube_zero_iff fl pi p cp0 hf w Ts Tj mj hcp hfilm hp hmem hrow hcp0 hpi hhf
    simpa only [tubeA, tubeB, metalSum, zFrac, hθ] using this

/-- `Σ_z z/h = nz/2` on `linspace(0, h, nz)` with at least two points — so `c = n/2` above — while a
single axial point sits at `z = 0` (`c = 0`: the outlet temperature does not enter `Q_conv` at all) -/
theorem heights_fraction (p : Panel K) (hh : p.h ≠ 0) :
    (1 < p.nz → (zs p.h p.nz).sum / p.h = (p.nz : K) / 2) ∧
    (p.nz = 1 → (zs p.h p.nz).sum / p.h = 0) :=
  ⟨fun hnz => zFrac_eq p hh hnz, fun hnz => zFrac_one p hnz⟩

/-- **outlet_moves_towards_wall.** Under the hypotheses of `tube_outlet_closed_form`, at a zero of
the tube equation the fluid moves towards the mean wall temperature `S/n`:
`(Tj − Ts)·(S − n Ts) ≥ 0`; and with at least two axial points the tube's *mean* fluid temperature
`T̄ = (Tj + Ts)/2` does not pass it: `n (T̄ − Ts)·(S − n Ts) ≤ (S − n Ts)²`. -/
theorem outlet_moves_towards_wall (fl : FluidFns K) (pi cp0 hf : K) (p : Panel K) (Ts : K) (Tt : List K)
    (hcp : fl.cp = fun _ => cp0) (hfilm : fl.film = fun _ _ _ => hf)
    (hcp0 : 0 < cp0) (hhf : 0 ≤ hf) (hpi : 0 ≤ pi)
    (hmdot : 0 < p.mdot) (hri : 0 < p.ri) (hh : 0 < p.h) (hw : ∀ w ∈ p.weights, 0 < w)
    (j : Nat) (w Tj : K) (mj : List (List K))
    (hwj : p.weights[j]? = some w) (hTj : Tt[j]? = some Tj) (hmj : p.metal[j]? = some mj)
    (hθ : mj.length = p.nt) (hrow : ∀ row ∈ mj, row.length = p.nz)
    (hz : (panelResidual fl pi p Ts Tt)[j]? = some 0) :
    0 ≤ (Tj - Ts) * ((mj.map List.sum).sum - (p.nt : K) * (p.nz : K) * Ts) ∧
    (1 < p.nz →
      (p.nt : K) * (p.nz : K) * ((Tj + Ts) / 2 - Ts) *
          ((mj.map List.sum).sum - (p.nt : K) * (p.nz : K) * Ts) ≤
        ((mj.map List.sum).sum - (p.nt : K) * (p.nz : K) * Ts) *
          ((mj.map List.sum).sum - (p.nt : K) * (p.nz : K) * Ts)) := by
  have hp : PanelOK p := ⟨hmdot, hri, hh, hw⟩
  have hmem : w ∈ p.weights := List.mem_of_getElem? hwj
  rw [panelResidual_getElem? fl pi p Ts Tt j w Tj mj hwj hTj hmj] at hz
  have hz0 := Option.some.inj hz
  constructor
  · have := tube_towards_wall fl pi p cp0 hf w Ts Tj mj hcp hfilm hp hmem hrow hcp0 hpi hhf hz0
    simpa only [metalSum, hθ] using this
  · intro hnz
    have := (tube_mean_between fl pi p cp0 hf w Ts Tj mj hcp hfilm hp hmem hrow hcp0 hpi hhf hnz hz0).2
    simpa only [metalSum, hθ] using this

/-- **chain_unique_const_props.** For a constant specific heat `cp ≡ cp0 > 0` and a constant film
coefficient `film ≡ hf ≥ 0` (`π ≥ 0`; every panel with `ṁ, r, h > 0`, positive multipliers and rows of
`nz` wall temperatures), for any number of panels and tubes: two state vectors of the right length
that both zero the chain residual are **equal** — the inlet temperature determines the whole flow
path (start node, every tube outlet, every manifold). -/
theorem chain_unique_const_props (fl : FluidFns K) (pi cp0 hf Tin : K) (ps : List (Panel K))
    (T T' : List K) (R R' : List (List K))
    (hcp : fl.cp = fun _ => cp0) (hfilm : fl.film = fun _ _ _ => hf)
    (hcp0 : 0 < cp0) (hhf : 0 ≤ hf) (hpi : 0 ≤ pi)
    (hps : ∀ p ∈ ps, 0 < p.mdot ∧ 0 < p.ri ∧ 0 < p.h ∧ (∀ w ∈ p.weights, 0 < w) ∧
      ∀ mj ∈ p.metal, ∀ row ∈ mj, row.length = p.nz)
    (hlen : T.length = nvals ((mkChain Tin ps).map Link.size))
    (hlen' : T'.length = nvals ((mkChain Tin ps).map Link.size))
    (hR : chainResidual fl pi (mkChain Tin ps) T = some R) (hz : ∀ r ∈ R, ∀ x ∈ r, x = 0)
    (hR' : chainResidual fl pi (mkChain Tin ps) T' = some R') (hz' : ∀ r ∈ R', ∀ x ∈ r, x = 0) :
    T = T' :=
  chain_unique fl pi cp0 hf Tin ps T T' R R' hcp hfilm hcp0 hpi hhf
    (fun p hp => ⟨⟨(hps p hp).1, (hps p hp).2.1, (hps p hp).2.2.1, (hps p hp).2.2.2.1⟩,
      (hps p hp).2.2.2.2⟩) hlen hlen' hR hz hR' hz'
/-- **root_tube_closed_form.** At a root of the chain residual, constant `cp`, `film`: every tube outlet
of every panel is the closed form of `tube_outlet_closed_form` evaluated at the panel's inlet node. -/
theorem root_tube_closed_form (fl : FluidFns K) (pi cp0 hf Tin : K) (ps : List (Panel K)) (T : List K)
    (R : List (List K))
    (hcp : fl.cp = fun _ => cp0) (hfilm : fl.film = fun _ _ _ => hf)
    (hcp0 : 0 < cp0) (hhf : 0 ≤ hf) (hpi : 0 ≤ pi)
    (hps : ∀ p ∈ ps, 0 < p.mdot ∧ 0 < p.ri ∧ 0 < p.h ∧ (∀ w ∈ p.weights, 0 < w) ∧
      ∀ mj ∈ p.metal, ∀ row ∈ mj, row.length = p.nz)
    (hR : chainResidual fl pi (mkChain Tin ps) T = some R) (hz : ∀ r ∈ R, ∀ x ∈ r, x = 0)
    (i : Nat) (hi : i < ps.length) :
    ∃ Ts Tt, T[inletDof ps i]? = some Ts ∧
      gather T (List.range' (inletDof ps i + 1) ps[i].weights.length) = some Tt ∧
      ∀ (j : Nat) (w Tj : K) (mj : List (List K)),
        ps[i].weights[j]? = some w → Tt[j]? = some Tj → ps[i].metal[j]? = some mj →
        mj.length = ps[i].nt →
        Tj = Ts +
          ps[i].ri * (ps[i].h / (ps[i].nz : K)) * (2 * pi / (ps[i].nt : K)) * w * hf *
              ((mj.map List.sum).sum - (ps[i].nt : K) * (ps[i].nz : K) * Ts) /
            (w * ps[i].mdot / ps[i].weights.sum * cp0 +
              ps[i].ri * (ps[i].h / (ps[i].nz : K)) * (2 * pi / (ps[i].nt : K)) * w * hf *
                ((ps[i].nt : K) * ((zs ps[i].h ps[i].nz).sum / ps[i].h))) := by
  obtain ⟨Ts, Tt, Tm, h1, h2, _, hl1, hl2, hbal, _⟩ :=
    panelsBalanced_index fl pi T ps 0 (chain_root fl pi Tin ps T R hR hz).2 i hi
  simp only [Nat.zero_add] at h1 h2
  refine ⟨Ts, Tt, h1, h2, ?_⟩
  intro j w Tj mj hw hT hm hθ
  obtain ⟨hjw, rfl⟩ := List.getElem?_eq_some_iff.1 hw
  obtain ⟨hjT, rfl⟩ := List.getElem?_eq_some_iff.1 hT
  obtain ⟨hjm, rfl⟩ := List.getElem?_eq_some_iff.1 hm
  obtain ⟨hmdot, hri, hh, hwpos, hrows⟩ := hps ps[i] (List.getElem_mem _)
  have := (tube_zero_iff fl pi ps[i] cp0 hf ps[i].weights[j] Ts Tt[j] ps[i].metal[j] hcp hfilm
    ⟨hmdot, hri, hh, hwpos⟩ (List.getElem_mem _) (hrows _ (List.getElem_mem _)) hcp0 hpi hhf).1
    (sub_eq_zero.2 (hbal j hjw))
  simpa only [tubeA, tubeB, metalSum, zFrac, hθ] using this

/-! ### non-vacuity (over `ℚ`) -/

/-- a fluid with `cp = rho = film = 1` -/
def flEx : FluidFns ℚ := ⟨fun _ => 1, fun _ => 1, fun _ _ _ => 1⟩

/-- one panel, one explicit tube standing for 2 (`ṁ = 4`, `r = 1`, `h = 2`, `nt = 1`, `nz = 2`, wall at 10) -/
def pEx : Panel ℚ := ⟨[2], 1, 2, 1, 2, 4, [[[10, 10]]]⟩

/-- two explicit tubes with multipliers 1 and 3 -/
def pEx2 : Panel ℚ := ⟨[1, 3], 1, 2, 1, 2, 4, [[[10, 10]], [[20, 20]]]⟩

/-- the residual hypothesis is satisfiable: `T = [0, 15, 15]` is an exact root (with `π := 3`):
gain `2·4/2·(15−0) = 60`, convective heat `1·1·6·(2·10 + 2·(10−15)) = 60` -/
example : chainResidual flEx 3 (mkChain 0 [pEx]) [0, 15, 15] = some [[0], [0], [0]] := by
  decide +kernel

/-- and a non-root is seen as one -/
example : chainResidual flEx 3 (mkChain 0 [pEx]) [1, 15, 14] = some [[1], [8], [1]] := by
  decide +kernel

/-- recovery on a two-panel chain: entries in panel order, velocities `ṁ/(N π ρ r²)`, profiles
from the node feeding each panel to each tube outlet -/
example : (recover flEx 3 (mkChain 0 [pEx, pEx2]) [0, 15, 15, 18, 21, 20]).map
      (fun L => L.map (fun r => (r.flow, r.temps))) =
    some [([2 / 3], [[0, 15]]), ([1 / 3, 1 / 3], [[15, 18], [15, 21]])] := by
  decide +kernel

/-- a state vector of the wrong length is refused, not padded -/
example : chainResidual flEx 3 (mkChain 0 [pEx]) [0, 15] = none := by decide +kernel

/-- `mass_split` and `profile_linear` applied: their hypotheses hold for `pEx2` -/
example : (List.zipWith (fun (wT : ℚ × ℚ) u => wT.1 * flEx.rho ((wT.2 + 15) / 2) * u * 3 * (pEx2.ri * pEx2.ri))
    (pEx2.weights.zip [18, 21]) (recoverPanel flEx 3 pEx2 15 [18, 21]).flow).sum = pEx2.mdot :=
  mass_split flEx 3 pEx2 15 [18, 21] rfl (by simp [pEx2]) (by simp [pEx2]) (by norm_num)
    (by norm_num [pEx2]) (by simp [flEx])
example : ∃ prof, (recoverPanel flEx 3 pEx2 15 [18, 21]).temps[1]? = some prof ∧ prof.length = 2 ∧
    prof[0]? = some 15 ∧ prof[1]? = some 21 := by
  obtain ⟨prof, h1, h2, _, h3, h4⟩ :=
    profile_linear flEx 3 pEx2 15 [18, 21] (by norm_num [pEx2]) (by decide) 1 21 rfl
  exact ⟨prof, h1, h2, h3, h4⟩

example : dofMap [1, 2, 1, 3, 1] = [[0], [1, 2], [3], [4, 5, 6], [7]] := by decide
example : inletDof [pEx, pEx2] 1 = 2 ∧ inletDof [pEx, pEx2] 0 = 0 := by decide

/-- `tube_outlet_closed_form` applied to `pEx` (one panel, one tube, `nz = 2`, `nt = 1`, `π := 3`, inlet
at 0): `a = 4`, `b = 12`, `S = 20`, `n = 2`, `c = 1`, so the unique outlet is `12·20/(4 + 12) = 15` -/
example (Tj : ℚ) (r : ℚ) (h : (panelResidual flEx 3 pEx 0 [Tj])[0]? = some r) : r = 0 ↔ Tj = 15 := by
  obtain ⟨a, b, S, n, c, r', ha, hb, hS, hn, hc, hr', _, _, hiff⟩ :=
    tube_outlet_closed_form flEx 3 1 1 pEx 0 [Tj] rfl rfl (by norm_num) (by norm_num) (by norm_num)
      (by norm_num [pEx]) (by norm_num [pEx]) (by norm_num [pEx]) (by simp [pEx]) 0 2 Tj [[10, 10]]
      rfl rfl rfl rfl (by simp [pEx])
  rw [h] at hr'
  cases hr'
  have e : (0 : ℚ) + b * (S - n * 0) / (a + b * c) = 15 := by
    subst ha hb hS hn hc
    norm_num [pEx, zs, natEmb_eq, List.range_succ]
  rw [hiff, e]

/-- `chain_unique_const_props` applied: every root of the one-panel chain is `[0, 15, 15]` -/
example (T : List ℚ) (R : List (List ℚ)) (hlen : T.length = 3)
    (hR : chainResidual flEx 3 (mkChain 0 [pEx]) T = some R) (hz : ∀ r ∈ R, ∀ x ∈ r, x = 0) :
    T = [0, 15, 15] :=
  chain_unique_const_props flEx 3 1 1 0 [pEx] T [0, 15, 15] R [[0], [0], [0]] rfl rfl
    (by norm_num) (by norm_num) (by norm_num) (by simp [pEx]) hlen rfl hR hz (by decide +kernel)
    (by simp)

end SrProps.C14
