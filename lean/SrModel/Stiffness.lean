import SrModel.Proto
/-!
# Model of the axial force / axial stiffness computations of `srlife/structural.py`

(a) `PythonSolver.calculate_axial_from_stress` (1-D and 2-D, generalised plane strain), the
    point-wise tensor algebra **as written now**:

    ```
    fake_force  = _internal_force(tangent[:, :, 2, 2])
    de          = solve(condense(J, fake_force, D=edofs))
    fake_strain = calculate_strain(de)
    integrand1  = np.einsum("ijkl->kl", tangent[2, 2] * fake_strain)
    integrand2  = tangent[2, 2, 2, 2]
    force       = np.sum(stress[2, 2] * dx)
    stiffness   = np.sum((-integrand1 + integrand2) * dx) / h
    ```

    `tangent` has shape `(3,3,3,3,ne,nq)`, `fake_strain` `(3,3,ne,nq)`.  The einsum subscripts are
    *data* of the model (`Spec`): `parseSpec` implements numpy's rules for a single operand of
    rank 4 (explicit mode `in->out`: labels not in the output are summed, a repeated input label
    takes the diagonal; implicit mode: output = labels that occur once, in alphabetical order)
    for the family of subscripts that carry the last two axes through unchanged.

(b) `PythonSolver.calculate_axial_from_fea` (3-D): `K = 1ᵀ (J22 − J21 J11⁻¹ J12) 1`, with the
    sparse solve represented by an explicit inverse argument; and the generalised-plane-strain
    condensation of (a) in the same dense form.

Scalar-polymorphic (`Float` for the correspondence, a field for the theorems).  Core Lean only.
-/
namespace SrModel.Stiffness

abbrev Ten (K : Type) := Fin 3 → Fin 3 → K
abbrev Ten4 (K : Type) := Fin 3 → Fin 3 → Fin 3 → Fin 3 → K

/-! ### single-operand einsum subscripts -/

/-- what happens to the first two axes -/
inductive Reduce where
  | trace   -- repeated label: `Σ_i A[i,i,e,q]`
  | full    -- two distinct summed labels: `Σ_i Σ_j A[i,j,e,q]`
deriving Repr, DecidableEq

def insertSorted (c : Nat) : List Nat → List Nat
  | [] => [c]
  | d :: ds => if c ≤ d then c :: d :: ds else d :: insertSorted c ds

def sortNats : List Nat → List Nat
  | [] => []
  | c :: cs => insertSorted c (sortNats cs)

/-- split `in->out` at the arrow; `none` for the output in implicit mode -/
def splitArrow : List Char → List Char × Option (List Char)
  | [] => ([], none)
  | '-' :: '>' :: rest => ([], some rest)
  | c :: cs => let r := splitArrow cs; (c :: r.1, r.2)

/-- numpy's output labels: explicit, or (implicit mode) the labels occurring once, sorted -/
def outLabels (inp : List Nat) : Option (List Nat) → List Nat
  | some o => o
  | none => sortNats (inp.filter fun c => inp.count c == 1)

/-- `np.einsum(spec, A)` for `A` of shape `(3,3,ne,nq)`: supported when the result at `(e,q)`
depends on `A[:,:,e,q]` only and is indexed `(e,q)`; `none` otherwise. -/
def parseSpec (spec : List Char) : Option Reduce :=
  let sp := splitArrow spec
  let inp := sp.1.map Char.toNat
  let out := outLabels inp (sp.2.map fun o => o.map Char.toNat)
  match inp with
  | [a, b, c, d] =>
    if c ≠ d ∧ c ≠ a ∧ c ≠ b ∧ d ≠ a ∧ d ≠ b ∧ out = [c, d] then
      (if a = b then some .trace else some .full)
    else none
  | _ => none

/-- the subscripts in `calculate_axial_from_stress` now -/
def codedSpec : List Char := ['i', 'j', 'k', 'l', '-', '>', 'k', 'l']
/-- the subscripts at the pinned commit (defect F23) -/
def pinnedSpec : List Char := ['i', 'i', 'j', 'k']

variable {K : Type} [Add K] [Sub K] [Mul K] [Div K] [Neg K] [OfNat K 0]

def sum3 (f : Fin 3 → K) : K := f 0 + f 1 + f 2

def reduce2 : Reduce → Ten K → K
  | .trace, M => sum3 fun i => M i i
  | .full, M => sum3 fun i => sum3 fun j => M i j

/-- `tangent[:, :, 2, 2]` at a point: the "stress" whose internal force is `∂R/∂ε_zz` -/
def fakeForceStress (C : Ten4 K) : Ten K := fun i j => C i j 2 2

/-- `einsum(spec, tangent[2,2] * fake_strain)` at a point -/
def integrand1With (r : Reduce) (C : Ten4 K) (ε : Ten K) : K :=
  reduce2 r (fun i j => C 2 2 i j * ε i j)

def integrand1Spec (spec : List Char) (C : Ten4 K) (ε : Ten K) : Option K :=
  (parseSpec spec).map fun r => integrand1With r C ε

/-- the integrand as coded now / at the pinned commit -/
def integrand1 (C : Ten4 K) (ε : Ten K) : K := integrand1With .full C ε
def integrand1Pinned (C : Ten4 K) (ε : Ten K) : K := integrand1With .trace C ε

/-- `tangent[2,2,2,2]` -/
def integrand2 (C : Ten4 K) : K := C 2 2 2 2

/-- `Σ_i f i` over an explicit index list (right fold) -/
def sumL {ι : Type} (l : List ι) (f : ι → K) : K := l.foldr (fun i s => f i + s) 0

/-- `np.sum((-integrand1 + integrand2) * dx) / h` over the quadrature points `pts` -/
def stiffnessSum {P : Type} (pts : List P) (r : Reduce) (C : P → Ten4 K) (ε : P → Ten K)
    (dx : P → K) (h : K) : K :=
  sumL pts (fun p => (-(integrand1With r (C p) (ε p)) + integrand2 (C p)) * dx p) / h

/-- `np.sum(stress[2,2] * dx)` -/
def forceSum {P : Type} (pts : List P) (szz dx : P → K) : K := sumL pts fun p => szz p * dx p

/-! ### (b) dense condensation -/

def matVec {ι κ : Type} (cols : List κ) (A : ι → κ → K) (x : κ → K) : ι → K :=
  fun i => sumL cols fun j => A i j * x j

def dotL {ι : Type} (l : List ι) (x y : ι → K) : K := sumL l fun i => x i * y i

/-- `np.dot(dotme, J22.dot(dotme) - J21.dot(spsolve(J11, J12.dot(dotme))))` with the solve
given as an explicit inverse `J11inv`; `ks` are the free dofs, `es` the essential ones -/
def schurK {κ ε : Type} (ks : List κ) (es : List ε) (J11inv : κ → κ → K) (J12 : κ → ε → K)
    (J21 : ε → κ → K) (J22 : ε → ε → K) (w : ε → K) : K :=
  dotL es w (fun i => matVec es J22 w i - matVec ks J21 (matVec ks J11inv (matVec es J12 w)) i)

/-- the generalised-plane-strain condensation of (a) in dense form: `δu = Kinv·f`,
`fake_strain_p = B_p δu`, then `stiffnessSum` -/
def gpsStiffness {κ P : Type} (ks : List κ) (pts : List P) (Kinv : κ → κ → K) (f : κ → K)
    (B : P → Fin 3 → Fin 3 → κ → K) (C : P → Ten4 K) (dx : P → K) (h : K) : K :=
  let du := matVec ks Kinv f
  stiffnessSum pts .full C (fun p i j => dotL ks (B p i j) du) dx h

end SrModel.Stiffness

/-! ## line protocol (Float instance)

* `st_spec` → the subscripts the theorems are about (`codedSpec`)
* `st_parse <spec>` → `trace` | `full` | `unsupported`
* `st_pt <spec> <h> <n> <dx:n> <tangent:81n> <strain:9n> <szz:n>`
   → `integrand1:n|integrand2:n|stiffness|force`  (tangent flattened `[i][j][k][l]` per point)
* `st_schur <nk> <ne> <J11inv:nk²> <J12:nk·ne> <J21:ne·nk> <J22:ne²> <w:ne>` → stiffness
-/
namespace SrModel.Stiffness
open SrModel.Proto

def ten4Of (a : Array Float) (off : Nat) : Ten4 Float :=
  fun i j k l => a.getD (off + 27 * i.val + 9 * j.val + 3 * k.val + l.val) 0.0
def tenOf (a : Array Float) (off : Nat) : Ten Float :=
  fun i j => a.getD (off + 3 * i.val + j.val) 0.0

def handle : List String → Option String
  | ["st_spec"] => some (String.ofList codedSpec)
  | ["st_parse", spec] =>
    some (match parseSpec spec.toList with
      | some .trace => "trace"
      | some .full => "full"
      | none => "unsupported")
  | ["st_pt", spec, h, n, dx, tan, eps, szz] => do
    let r ← parseSpec spec.toList
    let h ← parseF h
    let n ← n.toNat?
    let dx := (← parseFs dx).toArray
    let tan := (← parseFs tan).toArray
    let eps := (← parseFs eps).toArray
    let szz := (← parseFs szz).toArray
    let pts := List.range n
    let C : Nat → Ten4 Float := fun p => ten4Of tan (81 * p)
    let E : Nat → Ten Float := fun p => tenOf eps (9 * p)
    let dxf : Nat → Float := fun p => dx.getD p 0.0
    let i1 := pts.map fun p => integrand1With r (C p) (E p)
    let i2 := pts.map fun p => integrand2 (C p)
    let k := stiffnessSum pts r C E dxf h
    let f := forceSum pts (fun p => szz.getD p 0.0) dxf
    some (showFs i1 ++ "|" ++ showFs i2 ++ "|" ++ showF k ++ "|" ++ showF f)
  | ["st_schur", nk, ne, j11i, j12, j21, j22, w] => do
    let nk ← nk.toNat?
    let ne ← ne.toNat?
    let j11i := (← parseFs j11i).toArray
    let j12 := (← parseFs j12).toArray
    let j21 := (← parseFs j21).toArray
    let j22 := (← parseFs j22).toArray
    let w := (← parseFs w).toArray
    let m (a : Array Float) (nc : Nat) : Nat → Nat → Float := fun i j => a.getD (i * nc + j) 0.0
    some (showF (schurK (List.range nk) (List.range ne) (m j11i nk) (m j12 ne) (m j21 nk) (m j22 ne)
      (fun i => w.getD i 0.0)))
  | _ => none

end SrModel.Stiffness
