import SrModel.Proto
/-!
# Model of the boundary-condition objects of `srlife/receiver.py` (property C19)

What is modelled, and where it is in the code:

* `interp1`     — `scipy.interpolate.interp1d(x, y)` with its defaults (linear, `bounds_error`
                  ⇒ a query outside `[x₀, xₙ₋₁]` raises `ValueError`), as used by `PressureBC`
                  (`times ↦ data`) and `FilmCoefficientConvectiveBC` (`z_k ↦ fluid_T`, `z_k ↦ film`).
                  Written in interp1d's own form `slope·(x − x_lo) + y_lo`,
                  cell `lo = clip(searchsorted_left(x, xq), 1, n−1) − 1`.
* `rgi2`, `rgi3` — `RegularGridInterpolator(method="linear", bounds_error=False, fill_value=None)`:
                  cell of `find_interval_ascending(…, extrapolate=1)` (largest `i ≤ n−2` with
                  `g[i] ≤ x`, `0` left of the grid ⇒ linear extrapolation outside), normalised
                  distances `y = (x − g[i]) / (g[i+1] − g[i])`, and the sum over the corners of the
                  hypercube of `datum · Π weights` exactly as `_evaluate_linear` writes it.
                  `grid2`, `grid3` are the same maps written as nested 1-D interpolations
                  (proved equal in `SrProofs/Interp.lean`).
* `thermalBase` — `ThermalBC._generate_ifn`: θ-grid closed at `2π` with a copy of column 0 and the
                  query angle wrapped with `np.mod(θ, 2π)` (`HeatFluxBC.flux`, `FixedTempBC.temperature`).
* `makeIfn`     — `_make_ifn` / `_vector_interpolate`: all-scalar / some-scalar / all-array dispatch.
* `ctor…`       — the shape tests of the five constructors as coded, with what happens afterwards
                  (h5py/scipy objections to a 0-d or 2-d `times`, an empty θ grid, …).
* `setBc`       — `Tube.set_bc`: `np.isclose` on radius and height, wall name.

Numeric definitions are polymorphic in the scalar `K` (notation classes only); they are executed on
`Rat` by `handle` (every IEEE double is a rational, so the model is evaluated *exactly* on the
implementation's inputs) and are the subject of the theorems over any linearly ordered field.
Core Lean only.
-/
namespace SrModel.Interp

/-! ## numeric part -/
section numeric
variable {K : Type} [Add K] [Sub K] [Mul K] [Div K] [LT K] [LE K]
  [DecidableLT K] [DecidableLE K] [OfNat K 0] [OfNat K 1]

/-- `g[i]`, `0` outside (never used outside by the theorems) -/
def nth (g : List K) (i : Nat) : K := g.getD i 0

/-- number of leading elements satisfying `p` (= `searchsorted` on a sorted grid) -/
def countWhile (p : K → Bool) : List K → Nat
  | [] => 0
  | a :: as => if p a then countWhile p as + 1 else 0

/-- cell used by `RegularGridInterpolator`: `find_interval_ascending` with `extrapolate=1`
(`g[i] ≤ x < g[i+1]`; `n-2` at and right of the last point; `0` left of the first) -/
def cellGrid (g : List K) (x : K) : Nat :=
  min (countWhile (fun a => decide (a ≤ x)) g - 1) (g.length - 2)

/-- cell used by `interp1d`: `clip(searchsorted(x, xq, 'left'), 1, n-1) - 1` -/
def cellLeft (g : List K) (x : K) : Nat :=
  min (countWhile (fun a => decide (a < x)) g - 1) (g.length - 2)

/-- normalised distance inside cell `i` -/
def normDist (g : List K) (i : Nat) (x : K) : K := (x - nth g i) / (nth g (i+1) - nth g i)

/-- linear interpolation in cell `i` of grid `g` between `f i` and `f (i+1)` -/
def lerpCell (g : List K) (i : Nat) (f : Nat → K) (x : K) : K :=
  f i * (1 - normDist g i x) + f (i+1) * normDist g i x

/-- 1-D piecewise-linear interpolant with linear extrapolation -/
def lin1 (g : List K) (f : Nat → K) (x : K) : K := lerpCell g (cellGrid g x) f x

/-- nested form of the 2-D interpolant on `(times, z)` -/
def grid2 (gt gz : List K) (d : Nat → Nat → K) (t z : K) : K :=
  lin1 gt (fun a => lin1 gz (d a) z) t

/-- nested form of the 3-D interpolant on `(times, θ, z)` -/
def grid3 (gt gθ gz : List K) (d : Nat → Nat → Nat → K) (t θ z : K) : K :=
  lin1 gt (fun a => lin1 gθ (fun b => lin1 gz (d a b) z) θ) t

/-- `RegularGridInterpolator._evaluate_linear` in 2-D: the four corners in `itertools.product`
order, each datum times the product of its weights, summed from `0`. -/
def rgi2 (gt gz : List K) (d : Nat → Nat → K) (t z : K) : K :=
  let i := cellGrid gt t
  let k := cellGrid gz z
  let yt := normDist gt i t
  let yz := normDist gz k z
  0 + d i k * ((1 - yt) * (1 - yz)) + d i (k+1) * ((1 - yt) * yz)
    + d (i+1) k * (yt * (1 - yz)) + d (i+1) (k+1) * (yt * yz)

/-- `RegularGridInterpolator._evaluate_linear` in 3-D: eight corners. -/
def rgi3 (gt gθ gz : List K) (d : Nat → Nat → Nat → K) (t θ z : K) : K :=
  let i := cellGrid gt t
  let j := cellGrid gθ θ
  let k := cellGrid gz z
  let yt := normDist gt i t
  let yθ := normDist gθ j θ
  let yz := normDist gz k z
  0 + d i j k * ((1 - yt) * (1 - yθ) * (1 - yz))
    + d i j (k+1) * ((1 - yt) * (1 - yθ) * yz)
    + d i (j+1) k * ((1 - yt) * yθ * (1 - yz))
    + d i (j+1) (k+1) * ((1 - yt) * yθ * yz)
    + d (i+1) j k * (yt * (1 - yθ) * (1 - yz))
    + d (i+1) j (k+1) * (yt * (1 - yθ) * yz)
    + d (i+1) (j+1) k * (yt * yθ * (1 - yz))
    + d (i+1) (j+1) (k+1) * (yt * yθ * yz)

/-- `interp1d(g, ys)(x)`: `none` = `ValueError` (query outside the data range). -/
def interp1 (g ys : List K) (x : K) : Option K :=
  if x < nth g 0 ∨ nth g (g.length - 1) < x then none
  else
    let lo := cellLeft g x
    let slope := (nth ys (lo+1) - nth ys lo) / (nth g (lo+1) - nth g lo)
    some (slope * (x - nth g lo) + nth ys lo)

/-- array query of an `interp1d`: raises if any element is out of range -/
def interp1Arr (g ys xs : List K) : Option (List K) := xs.mapM (interp1 g ys)

/-- `np.mod(θ, 2π)` (Python sign convention, positive modulus): `θ − 2π·⌊θ/2π⌋`.
`fl` is the floor function of `K` (`Rat.floor` when executed). -/
def wrap [IntCast K] (fl : K → Int) (twoPi θ : K) : K := θ - twoPi * ((fl (θ / twoPi) : Int) : K)

/-- `np.concatenate((data, data[:, :1]), axis=1)`: column `nt` is column `0` -/
def closeCol (nt : Nat) (d : Nat → Nat → Nat → K) : Nat → Nat → Nat → K :=
  fun a b c => d a (if b = nt then 0 else b) c

/-- `base` of `ThermalBC._generate_ifn`: θ wrapped into `[0, 2π)`, grid closed at `2π`.
`gθ` is the open grid `θ_j`, `j < nt` (`np.linspace(0, 2π, nt+1)[:-1]`). -/
def thermalBase [IntCast K] (fl : K → Int) (twoPi : K) (gt gθ gz : List K)
    (d : Nat → Nat → Nat → K) (t θ z : K) : K :=
  rgi3 gt (gθ ++ [twoPi]) gz (closeCol gθ.length d) t (wrap fl twoPi θ) z

/-- `j ↦ a·j/m`, `j < n`: `np.linspace(0, 2π, nt+1)[:-1]` is `linGrid twoPi nt nt` (θ_j = 2πj/nt) and
`np.linspace(0, h, nz)` is `linGrid h nz (nz-1)` (z_k = k·h/(nz-1)), up to rounding. -/
def linGrid [NatCast K] (a : K) (n m : Nat) : List K :=
  (List.range n).map (fun (j : Nat) => a * (Nat.cast j : K) / (Nat.cast m : K))

/-- row-major `(ntime, nt, nz)` array from its flat list -/
def data3 (nt nz : Nat) (flat : List K) : Nat → Nat → Nat → K :=
  fun a b c => nth flat ((a * nt + b) * nz + c)

/-- row-major `(ntime, nz)` array from its flat list -/
def data2 (nz : Nat) (flat : List K) : Nat → Nat → K := fun a c => nth flat (a * nz + c)

/-- `|x|` from the order -/
def absK (x : K) : K := if x < 0 then 0 - x else x

/-- `np.isclose(a, b, rtol, atol)`: `|a − b| ≤ atol + rtol·|b|` -/
def isclose (rtol atol a b : K) : Bool := decide (absK (a - b) ≤ atol + rtol * absK b)

end numeric

/-! ## scalar / array dispatch of `_make_ifn` -/

/-- an argument of a BC query: a Python/numpy scalar (`np.isscalar`) or an `ndarray` given by its
shape and its elements in C order (`np.ndindex` order). A 0-d array is `arr [] [x]`. -/
inductive Arg (K : Type) where
  | scalar (x : K)
  | arr (shape : List Nat) (vals : List K)
deriving Repr, DecidableEq

/-- result of a query -/
inductive Out (K : Type) where
  | single (v : K)                          -- `base(mdata)`: an array holding exactly one value
  | array (shape : List Nat) (vals : List K)
  | error                                    -- array arguments of different shapes (not modelled further)
deriving Repr, DecidableEq

def Arg.isScalar {K} : Arg K → Bool
  | .scalar _ => true
  | .arr _ _ => false

def Arg.shape? {K} : Arg K → Option (List Nat)
  | .scalar _ => none
  | .arr s _ => some s

/-- number of elements of an array of shape `s` -/
def size (s : List Nat) : Nat := s.foldr (· * ·) 1

section dispatch
variable {K : Type} [OfNat K 0]

/-- element `i` (flat index) of an argument; a scalar is the same for every `i`
(`np.ones(shape) * d` in the some-scalar branch) -/
def Arg.elem (i : Nat) : Arg K → K
  | .scalar x => x
  | .arr _ vs => vs.getD i 0

/-- `_vector_interpolate(base, data)` on arguments all of shape `s` -/
def vectorInterp (base : List K → K) (s : List Nat) (args : List (Arg K)) : Out K :=
  .array s ((List.range (size s)).map (fun i => base (args.map (Arg.elem i))))

/-- `_make_ifn(base)(mdata)` -/
def makeIfn (base : List K → K) (args : List (Arg K)) : Out K :=
  if args.all Arg.isScalar then
    .single (base (args.map (Arg.elem 0)))
  else
    -- `shape = shapes[0]` of the non-scalar arguments (some-scalar branch) or
    -- `data[0].shape` (all-array branch): the first array argument either way
    match args.findSome? Arg.shape? with
    | none => .error
    | some s =>
      if args.all (fun a => a.isScalar || a.shape? == some s) then vectorInterp base s args
      else .error

end dispatch

/-! ## constructors: shape tests as coded -/

inductive Ctor where
  | accept
  | shapeError   -- the constructor's own `ValueError("… shape must equal …")`
  | typeError    -- `len()` of a 0-d `times`
  | otherError   -- a later `ValueError` from scipy (2-d `times`, empty grid …)
deriving Repr, DecidableEq

/-- `HeatFluxBC.__init__` / `FixedTempBC.__init__` (identical tests):
`data.shape != (len(self.times), nt, nz)`, then `_generate_ifn`. -/
def ctorSurface (nt nz : Nat) (timesShape dataShape : List Nat) : Ctor :=
  match timesShape with
  | [] => .typeError
  | n :: rest =>
    if dataShape ≠ [n, nt, nz] then .shapeError
    else if rest ≠ [] then .otherError          -- "points in dimension 0 must be 1-dimensional"
    else if nt = 0 then .otherError              -- closed θ grid has 1 point and 0 values
    else .accept

def ctorHeatFlux := ctorSurface
def ctorFixedTemp := ctorSurface

/-- `ConvectiveBC.__init__`: `data.shape != (len(self.times), nz)`. -/
def ctorConvective (nz : Nat) (timesShape dataShape : List Nat) : Ctor :=
  match timesShape with
  | [] => .typeError
  | n :: rest =>
    if dataShape ≠ [n, nz] then .shapeError
    else if rest ≠ [] then .otherError
    else .accept

/-- `FilmCoefficientConvectiveBC.__init__`: `fluid_T.shape != (nz,) or film.shape != (nz,)`. -/
def ctorFilm (nz : Nat) (fluidShape filmShape : List Nat) : Ctor :=
  if fluidShape ≠ [nz] ∨ filmShape ≠ [nz] then .shapeError
  else if nz = 0 then .otherError                -- interp1d of an empty table
  else .accept

/-- `PressureBC.__init__`: `self.times.shape != data.shape`, then `interp1d(times, data)`. -/
def ctorPressure (timesShape dataShape : List Nat) : Ctor :=
  if timesShape ≠ dataShape then .shapeError
  else match timesShape with
    | [] => .typeError                           -- interp1d: len() of unsized object
    | [n] => if n = 0 then .otherError else .accept
    | _ => .otherError                           -- interp1d: x must be one-dimensional

/-! ## `Tube.set_bc` -/

inductive SetBc where
  | inner | outer            -- stored as `tube.inner_bc` / `tube.outer_bc`
  | mismatchInner | mismatchOuter   -- `ValueError("Inner/Outer BC radius must match …")`
  | badWall                  -- `ValueError("Wall location must be either inner or outer")`
deriving Repr, DecidableEq

section setbc
variable {K : Type} [Add K] [Sub K] [Mul K] [LT K] [LE K] [DecidableLT K] [DecidableLE K] [OfNat K 0]

/-- `Tube.set_bc(bc, loc)` for a tube `(r, t, h)` and a condition with `bc.r = bcR`, `bc.h = bcH` -/
def setBc (rtol atol : K) (loc : String) (bcR bcH r t h : K) : SetBc :=
  if loc = "inner" then
    if !(isclose rtol atol bcR (r - t)) || !(isclose rtol atol bcH h) then .mismatchInner else .inner
  else if loc = "outer" then
    if !(isclose rtol atol bcR r) || !(isclose rtol atol bcH h) then .mismatchOuter else .outer
  else .badWall

end setbc

/-! ## line protocol (everything on `Rat`) -/
open SrModel.Proto

def parseQs (s : String) : Option (List Rat) := parseList parseQ s

def showQs (xs : List Rat) : String := if xs.isEmpty then "-" else ",".intercalate (xs.map showQ)

def parseShape (s : String) : Option (List Nat) :=
  if s == "-" then some [] else (s.splitOn "x").mapM String.toNat?

def showShape (s : List Nat) : String :=
  if s.isEmpty then "-" else "x".intercalate (s.map toString)

/-- `s:<q>` or `a:<shape>:<q,q,…>` -/
def parseArg (s : String) : Option (Arg Rat) :=
  match s.splitOn ":" with
  | ["s", q] => (parseQ q).map .scalar
  | ["a", sh, qs] => match parseShape sh, parseQs qs with
    | some sh, some qs => if qs.length = size sh then some (.arr sh qs) else none
    | _, _ => none
  | _ => none

def showOut : Out Rat → String
  | .single v => "single " ++ showQ v
  | .array s vs => "array " ++ showShape s ++ " " ++ showQs vs
  | .error => "error"

def showCtor : Ctor → String
  | .accept => "accept" | .shapeError => "shape" | .typeError => "type" | .otherError => "other"

def showSetBc : SetBc → String
  | .inner => "inner" | .outer => "outer" | .mismatchInner => "mismatch-inner"
  | .mismatchOuter => "mismatch-outer" | .badWall => "bad-wall"

def showOptQs : Option (List Rat) → String
  | none => "raise"
  | some xs => "ok " ++ showQs xs

/-- `np.isclose` defaults -/
def defaultRtol : Rat := 1 / 100000
def defaultAtol : Rat := 1 / 100000000

/-- requests
* `c19 i1 <grid> <ys> <xs>`                                   → `ok q,…` | `raise`
* `c19 cv <gt> <gz> <flat data> <argT> <argZ>`                → `single q` | `array shape q,…` | `error`
* `c19 th <2π> <gt> <gθ open> <gz> <flat data> <argT> <argθ> <argZ>`  → same
* `c19 ctor hf|ft <nt> <nz> <timesShape> <dataShape>`, `c19 ctor cv <nz> <ts> <ds>`,
  `c19 ctor film <nz> <fluidShape> <filmShape>`, `c19 ctor pr <ts> <ds>` → `accept|shape|type|other`
* `c19 setbc <loc> <bcR> <bcH> <r> <t> <h>`                   → `inner|outer|mismatch-…|bad-wall` -/
def handle : List String → Option String
  | ["c19", "i1", g, ys, xs] =>
    match parseQs g, parseQs ys, parseQs xs with
    | some g, some ys, some xs => some (showOptQs (interp1Arr g ys xs))
    | _, _, _ => none
  | ["c19", "cv", gt, gz, flat, a1, a2] =>
    match parseQs gt, parseQs gz, parseQs flat, parseArg a1, parseArg a2 with
    | some gt, some gz, some flat, some a1, some a2 =>
      let base : List Rat → Rat := fun xs => rgi2 gt gz (data2 gz.length flat) (xs.getD 0 0) (xs.getD 1 0)
      some (showOut (makeIfn base [a1, a2]))
    | _, _, _, _, _ => none
  | ["c19", "th", twoPi, gt, gth, gz, flat, a1, a2, a3] =>
    match parseQ twoPi, parseQs gt, parseQs gth, parseQs gz, parseQs flat,
          parseArg a1, parseArg a2, parseArg a3 with
    | some twoPi, some gt, some gth, some gz, some flat, some a1, some a2, some a3 =>
      let base : List Rat → Rat := fun xs =>
        thermalBase Rat.floor twoPi gt gth gz (data3 gth.length gz.length flat)
          (xs.getD 0 0) (xs.getD 1 0) (xs.getD 2 0)
      some (showOut (makeIfn base [a1, a2, a3]))
    | _, _, _, _, _, _, _, _ => none
  | ["c19", "ctor", kind, nt, nz, ts, ds] =>
    match nt.toNat?, nz.toNat?, parseShape ts, parseShape ds with
    | some nt, some nz, some ts, some ds =>
      if kind == "hf" then some (showCtor (ctorHeatFlux nt nz ts ds))
      else if kind == "ft" then some (showCtor (ctorFixedTemp nt nz ts ds))
      else none
    | _, _, _, _ => none
  | ["c19", "ctor", kind, nz, ts, ds] =>
    match nz.toNat?, parseShape ts, parseShape ds with
    | some nz, some ts, some ds =>
      if kind == "cv" then some (showCtor (ctorConvective nz ts ds))
      else if kind == "film" then some (showCtor (ctorFilm nz ts ds))
      else none
    | _, _, _ => none
  | ["c19", "ctor", "pr", ts, ds] =>
    match parseShape ts, parseShape ds with
    | some ts, some ds => some (showCtor (ctorPressure ts ds))
    | _, _ => none
  | ["c19", "setbc", loc, bcR, bcH, r, t, h] =>
    match parseQ bcR, parseQ bcH, parseQ r, parseQ t, parseQ h with
    | some bcR, some bcH, some r, some t, some h =>
      some (showSetBc (setBc defaultRtol defaultAtol loc bcR bcH r t h))
    | _, _, _, _, _ => none
  | _ => none

end SrModel.Interp
